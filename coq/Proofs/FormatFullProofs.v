(** Proofs/FormatFullProofs.v — the plain-format round trip at full strength (C09): every unit
    container whose exponents are rendered exactly — integers of every numeric kind, decimals,
    floats — goes from the emitted tokens through [Eval.build] and the ParserHelper algebra back to
    itself.  Builds on Proofs/FormatProofs.v (tree builder lemmas, layout inversion). *)
From Coq Require Import Ascii String ZArith Lia ZifyBool.
From stdpp Require Import sorting.
From PintV Require Import Model.UC Model.Eval Model.Registry Model.Format Proofs.UCProofs Proofs.FormatProofs.
Open Scope string_scope.

(** * terms whose exponent text is read back as the exponent *)
Inductive gterm (qk : quirks) : L → Prop :=
| GS s : gterm qk (Sym s)
| GP s x : parse_number (fmt_n_str qk x) = Some (xval x) → gterm qk (Pow (Sym s) x).
Lemma gterm_tokens qk tm : gterm qk tm → term_tokens qk tm = op_toks (operand_of qk tm).
Proof. destruct 1; reflexivity. Qed.
Lemma gterm_not_num qk tm : gterm qk tm → match operand_of qk tm with ONum _ => False | _ => True end.
Proof. destruct 1; exact I. Qed.

(** 1 ** e in the ParserHelper algebra: exact for an integer e, a float otherwise; always 1 *)
Lemma num_pow_one q : num_pow 1 q = Ok (1%Qc, negb (is_int q)).
Proof.
  unfold num_pow. destruct (is_int q); simpl negb.
  - destruct (Qnum (this q)) as [|p|p]; simpl; [reflexivity| |].
    + rewrite Qcpower_1. reflexivity.
    + change (qz 1) with false. cbv iota. rewrite Qcpower_1.
      replace (/ 1)%Qc with 1%Qc by (apply Qc_is_canon; reflexivity). reflexivity.
  - rewrite bool_decide_eq_true_2 by reflexivity. reflexivity.
Qed.

Lemma eval_gterm qk tm :
  gterm qk tm → ∃ fl, eval_t (op_tree (operand_of qk tm)) = Ok (PPh (PH 1 (denoteL den1 tm)) fl).
Proof.
  destruct 1 as [s|s x Hx]; [exists false; reflexivity|].
  exists (negb (is_int (xval x))). simpl operand_of. simpl op_tree.
  cbn [evaluate]. change (pv_binop "**") with (Some pv_pow).
  cbn [ph_leaf]. rewrite Hx. cbn [rbind pv_pow ph_of_word ph_scale ph_d].
  rewrite num_pow_one. reflexivity.
Qed.

(** values the folds produce: a ParserHelper over [A] whose scale is 1 unless a float was involved *)
Definition okval (v : pval) (A : uc) : Prop :=
  ∃ s fl, v = PPh (PH s A) fl ∧ (fl = false → s = 1%Qc).

Lemma eval_mul_pairs_g qk tms : ∀ acc v A,
  Forall (gterm qk) tms → eval_t acc = Ok v → okval v A →
  ∃ v', eval_t (pairs_tree (map (λ tm, ("*", operand_of qk tm)) tms) acc) = Ok v'
        ∧ okval v' (fold_left (λ A tm, uc_mul A (denoteL den1 tm)) tms A).
Proof.
  induction tms as [|tm tms IH]; intros acc v A Hg Ha Hv; [exists v; split; assumption|].
  apply Forall_cons in Hg as [Hg Hgs]. cbn [map pairs_tree fold_left fst snd].
  destruct Hv as [s [fl [-> Hs]]]. destruct (eval_gterm qk tm Hg) as [g Eg].
  apply (IH _ (PPh (PH (s * 1) (uc_mul A (denoteL den1 tm))) (fl || g)) _ Hgs).
  - cbn [evaluate]. change (pv_binop "*") with (Some pv_mul). rewrite Ha, Eg. reflexivity.
  - eexists _, _. split; [reflexivity|]. intros E. apply orb_false_iff in E as [E _].
    rewrite (Hs E). ring.
Qed.
Lemma eval_div_pairs_g qk tms : ∀ acc v A,
  Forall (gterm qk) tms → eval_t acc = Ok v → okval v A →
  ∃ v', eval_t (pairs_tree (map (λ tm, ("/", operand_of qk tm)) tms) acc) = Ok v'
        ∧ okval v' (fold_left (λ A tm, uc_div A (denoteL den1 tm)) tms A).
Proof.
  induction tms as [|tm tms IH]; intros acc v A Hg Ha Hv; [exists v; split; assumption|].
  apply Forall_cons in Hg as [Hg Hgs]. cbn [map pairs_tree fold_left fst snd].
  destruct Hv as [s [fl [-> Hs]]]. destruct (eval_gterm qk tm Hg) as [g Eg].
  destruct g.
  - apply (IH _ (PPh (PH 0 (uc_div A (denoteL den1 tm))) true) _ Hgs).
    + cbn [evaluate]. change (pv_binop "/") with (Some pv_div). rewrite Ha, Eg. reflexivity.
    + eexists _, _. split; [reflexivity|]. discriminate.
  - apply (IH _ (PPh (PH (s / 1) (uc_div A (denoteL den1 tm))) fl) _ Hgs).
    + cbn [evaluate]. change (pv_binop "/") with (Some pv_div). rewrite Ha, Eg. cbn [rbind pv_div].
      unfold ph_div. cbn [ph_scale ph_d]. change (qz 1) with false. reflexivity.
    + eexists _, _. split; [reflexivity|]. intros E. rewrite (Hs E). apply Qc_is_canon. reflexivity.
Qed.
Lemma eval_one_over_g qk tm :
  gterm qk tm →
  ∃ v, eval_t (Bin "/" (Leaf (TNum "1")) (op_tree (operand_of qk tm))) = Ok v
       ∧ okval v (uc_pow (denoteL den1 tm) (-1)).
Proof.
  intros Hg. destruct (eval_gterm qk tm Hg) as [g Eg].
  exists (PPh (PH (Q2Qc (inject_Z 1) / 1) (uc_pow (denoteL den1 tm) (-1))) g). split.
  - cbn [evaluate]. change (pv_binop "/") with (Some pv_div). rewrite Eg.
    change (ph_leaf (TNum "1")) with (match parse_number (show_pos 1) with Some q => Ok (PNum q false) | None => Err ESyntax end).
    rewrite parse_number_show_pos by lia. cbn [rbind pv_div ph_scale ph_d]. change (qz 1) with false. reflexivity.
  - eexists _, _. split; [reflexivity|]. intros _. apply Qc_is_canon. reflexivity.
Qed.

Lemma prod_tokens_pairs_g qk tm tms :
  Forall (gterm qk) (tm :: tms) →
  prod_tokens qk (tm :: tms)
  = (op_toks (operand_of qk tm) ++ pairs_toks (map (λ t, ("*", operand_of qk t)) tms))%list.
Proof.
  revert tm. induction tms as [|t2 tms IH]; intros tm Hg; apply Forall_cons in Hg as [Hg Hgs].
  - simpl. rewrite app_nil_r. apply gterm_tokens, Hg.
  - change (prod_tokens qk (tm :: t2 :: tms)) with (term_tokens qk tm ++ TOp "*" :: prod_tokens qk (t2 :: tms))%list.
    rewrite (IH t2 Hgs), (gterm_tokens qk tm Hg). reflexivity.
Qed.
Lemma div_tokens_pairs_g qk tms :
  Forall (gterm qk) tms →
  flat_map (λ d, TOp "/" :: term_tokens qk d) tms = pairs_toks (map (λ t, ("/", operand_of qk t)) tms).
Proof.
  induction 1 as [|tm tms Hg _ IH]; [reflexivity|].
  simpl. rewrite IH, (gterm_tokens qk tm Hg). reflexivity.
Qed.
Lemma mul_pairs_ok_g qk o tms : mulop o → Forall (gterm qk) tms → Forall mul_pair (map (λ t, (o, operand_of qk t)) tms).
Proof.
  intros Ho H. rewrite Forall_fmap. eapply Forall_impl; [exact H|]. intros tm Hg.
  split; [exact Ho|apply gterm_not_num, Hg].
Qed.

(** * exactly rendered exponents *)
Lemma exact_rendered_spec qk x :
  exact_renderedb qk x = true → parse_number (fmt_n_str qk (xabs x)) = Some (xval (xabs x)).
Proof.
  unfold exact_renderedb. destruct (parse_number _) as [q|]; [|discriminate].
  intros H. apply bool_decide_eq_true in H. rewrite H. reflexivity.
Qed.
Lemma gterm_pos (qk : quirks) (t : string * expo) : exact_renderedb qk t.2 = true → gterm qk (pos_term true t).
Proof.
  intros E. unfold pos_term. destruct (bool_decide _); [constructor|]. constructor. apply exact_rendered_spec, E.
Qed.
Lemma gterm_neg (qk : quirks) (t : string * expo) : exact_renderedb qk t.2 = true → gterm qk (neg_term true t).
Proof.
  intros E. unfold neg_term. destruct (_ && _); [constructor|]. constructor. apply exact_rendered_spec, E.
Qed.
(** integers are always rendered exactly *)
Lemma exact_rendered_int qk z : exact_renderedb qk (XInt z) = true.
Proof.
  unfold exact_renderedb. simpl xabs. unfold fmt_n_str, fmt_n, show_Z.
  replace (Z.abs z <? 0)%Z with false by lia. simpl default.
  rewrite parse_number_show_pos by lia. apply bool_decide_eq_true. reflexivity.
Qed.

Lemma ph_from_tokens_of_g first ps toks p fl :
  toks = (op_toks first ++ pairs_toks ps ++ [TEnd])%list → Forall mul_pair ps →
  eval_t (pairs_tree ps (op_tree first)) = Ok (PPh p fl) →
  ph_from_tokens toks = Ok (p, fl).
Proof.
  intros Et Hok He. unfold ph_from_tokens. rewrite (build_plain first ps toks Et Hok). simpl.
  rewrite He. reflexivity.
Qed.

(** * Decimal exponents: the 'n' rendering (fixed or scientific notation, trailing zeros kept) is
    read back exactly by [parse_number], for every coefficient and exponent *)
(** * digit strings *)
Fixpoint alldig (s : string) : bool :=
  match s with EmptyString => true | String c s' => is_digit c && alldig s' end.
Fixpoint dval (s : string) (acc : Z) : Z :=
  match s with
  | EmptyString => acc
  | String c s' => match digit_of c with Some d => dval s' (acc * 10 + d)%Z | None => acc end
  end.
Lemma alldig_app u v : alldig (u ++ v) = alldig u && alldig v.
Proof. induction u as [|c u IH]; [reflexivity|]. change (String c u ++ v) with (String c (u ++ v)). simpl. rewrite IH, andb_assoc. reflexivity. Qed.
Lemma dval_app u v a : alldig u = true → dval (u ++ v) a = dval v (dval u a).
Proof.
  revert a. induction u as [|c u IH]; intros a H; [reflexivity|].
  change (String c u ++ v) with (String c (u ++ v)). simpl in *. apply andb_true_iff in H as [Hc Hu].
  unfold is_digit in Hc. destruct (digit_of c); [|discriminate]. apply IH, Hu.
Qed.
Lemma length_app' a b : String.length (a ++ b) = (String.length a + String.length b)%nat.
Proof. induction a as [|c a IH]; [reflexivity|]. change (String c a ++ b) with (String c (a ++ b)). simpl. f_equal. exact IH. Qed.
Lemma read_digits_app u r a k :
  alldig u = true →
  read_digits (u ++ r) a k = read_digits r (dval u a) (k + Z.of_nat (String.length u))%Z.
Proof.
  revert a k. induction u as [|c u IH]; intros a k H.
  - simpl. f_equal. lia.
  - change (String c u ++ r) with (String c (u ++ r)). simpl in H. apply andb_true_iff in H as [Hc Hu].
    unfold is_digit in Hc. cbn [read_digits dval]. destruct (digit_of c); [|discriminate].
    rewrite (IH _ _ Hu). f_equal. simpl String.length. lia.
Qed.
Lemma read_digits_nil a k : read_digits "" a k = (a, k, "").
Proof. reflexivity. Qed.

(** [show_pos] prints a digit string whose value is the number *)
Lemma alldig_digits_go fuel : ∀ n acc, (0 <= n)%Z → alldig acc = true → alldig (digits_go fuel n acc) = true.
Proof.
  induction fuel as [|f IH]; intros n acc Hn Ha; [exact Ha|].
  cbn [digits_go].
  assert (Hd : alldig (String (digit_char (n mod 10)) acc) = true).
  { simpl. unfold is_digit. rewrite digit_of_char by (pose proof (Z.mod_pos_bound n 10); lia). exact Ha. }
  destruct (n <? 10)%Z; [exact Hd|]. apply IH; [apply Z.div_pos; lia|exact Hd].
Qed.
Lemma show_pos_alldig n : (0 <= n)%Z → alldig (show_pos n) = true.
Proof. intros H. apply alldig_digits_go; [exact H|reflexivity]. Qed.
Lemma show_pos_dval n : (0 <= n)%Z → dval (show_pos n) 0 = n ∧ (1 <= String.length (show_pos n))%nat.
Proof.
  intros H.
  destruct (read_digits_go _ n "" 0%Z 0%Z (show_pos_fuel n H) ltac:(lia)) as [d [Hd E]].
  pose proof (read_digits_app (show_pos n) "" 0 0 (show_pos_alldig n H)) as E2.
  rewrite str_app_nil_r in E2. fold (show_pos n) in E. rewrite E2 in E. rewrite !read_digits_nil in E.
  set (ds := show_pos n) in *. clearbody ds.
  assert (E1 : dval ds 0 = (0 * 10 ^ d + n)%Z) by congruence.
  assert (E3 : (0 + Z.of_nat (String.length ds))%Z = (0 + d)%Z) by congruence.
  split; lia.
Qed.
Lemma parse_exp_digits n : (0 <= n)%Z → ∃ ne, (1 <= ne)%Z ∧ read_digits (show_pos n) 0 0 = (n, ne, "").
Proof.
  intros H. pose proof (read_digits_app (show_pos n) "" 0 0 (show_pos_alldig n H)) as E.
  rewrite str_app_nil_r in E. destruct (show_pos_dval n H) as [V L]. rewrite V in E. rewrite read_digits_nil in E.
  eexists. split; [|exact E]. lia.
Qed.

Definition etail (ex : Z) : string :=
  if (ex =? 0)%Z then "" else String "e" (String (if (ex <? 0)%Z then "-" else "+")%char (show_pos (Z.abs ex))).
Definition dec_text (ip fp : string) (ex : Z) : string :=
  ip ++ (if String.eqb fp "" then etail ex else String "." (fp ++ etail ex)).

Lemma parse_dec_text ip fp ex :
  alldig ip = true → alldig fp = true → (1 <= String.length ip)%nat →
  parse_number (dec_text ip fp ex)
  = Some (Q2Qc (inject_Z (dval (ip ++ fp) 0)) * pow10 (ex - Z.of_nat (String.length fp)))%Qc.
Proof.
  intros Hi Hf Hl. unfold parse_number, dec_text.
  rewrite read_digits_app by exact Hi. rewrite dval_app by exact Hi.
  set (I := dval ip 0). set (ni := (0 + Z.of_nat (String.length ip))%Z).
  assert (Hni : (1 <= ni)%Z) by (subst ni; lia).
  (* the exponent tail, read after the mantissa *)
  assert (Htail : ∀ (mant nf : Z), (0 <= nf)%Z →
     (if (ni + nf =? 0)%Z then None else
      let fin (e : Z) := Some (Q2Qc (inject_Z mant) * pow10 (e - nf))%Qc in
      match etail ex with
      | EmptyString => fin 0%Z
      | String c r =>
          if Ascii.eqb c "e"%char || Ascii.eqb c "E"%char then
            let '(sgn, r') := match r with
                              | String "-"%char r' => ((-1)%Z, r')
                              | String "+"%char r' => (1%Z, r')
                              | _ => (1%Z, r) end in
            let '(ev, ne, r'') := read_digits r' 0%Z 0%Z in
            if (ne =? 0)%Z then None else
            match r'' with EmptyString => fin (sgn * ev)%Z | _ => None end
          else None
      end) = Some (Q2Qc (inject_Z mant) * pow10 (ex - nf))%Qc).
  { intros mant nf Hnf. replace (ni + nf =? 0)%Z with false by lia. unfold etail.
    destruct (ex =? 0)%Z eqn:E0.
    - replace ex with 0%Z by lia. reflexivity.
    - destruct (parse_exp_digits (Z.abs ex) ltac:(lia)) as [ne [Hne Er]].
      destruct (ex <? 0)%Z eqn:En; cbn -[read_digits pow10 Z.mul show_pos]; rewrite Er;
        replace (ne =? 0)%Z with false by lia; do 3 f_equal; lia. }
  destruct (String.eqb_spec fp "") as [->|Hfp].
  - (* no fractional part *)
    cbn [dval]. simpl String.length. replace (ex - Z.of_nat 0)%Z with (ex - 0)%Z by reflexivity.
    assert (E1 : read_digits (etail ex) I ni = (I, ni, etail ex)).
    { unfold etail. destruct (ex =? 0)%Z; reflexivity. }
    rewrite E1.
    assert (E2 : match etail ex with String "."%char r => let '(m, n, r') := read_digits r I 0%Z in (m, n, r') | _ => (I, 0%Z, etail ex) end
                 = (I, 0%Z, etail ex)).
    { unfold etail. destruct (ex =? 0)%Z; reflexivity. }
    rewrite E2. exact (Htail I 0%Z ltac:(lia)).
  - change (read_digits (String "." (fp ++ etail ex)) I ni) with (I, ni, String "." (fp ++ etail ex)).
    cbv iota beta. rewrite read_digits_app by exact Hf.
    assert (E1 : ∀ a k, read_digits (etail ex) a k = (a, k, etail ex)).
    { intros. unfold etail. destruct (ex =? 0)%Z; reflexivity. }
    rewrite E1. replace (0 + Z.of_nat (String.length fp))%Z with (Z.of_nat (String.length fp)) by lia.
    exact (Htail (dval fp I) (Z.of_nat (String.length fp)) ltac:(lia)).
Qed.

Lemma substring_split k s : (k <= String.length s)%nat →
  s = substring 0 k s ++ substring k (String.length s - k) s.
Proof.
  revert k. induction s as [|c s IH]; intros k H.
  - destruct k; [reflexivity|simpl in H; lia].
  - destruct k as [|k].
    + simpl. rewrite substring_all. reflexivity.
    + simpl in H. simpl. change (String c ?a ++ ?b) with (String c (a ++ b)). f_equal. apply IH. lia.
Qed.
Lemma substring_length0 k s : (k <= String.length s)%nat → String.length (substring 0 k s) = k.
Proof.
  revert k. induction s as [|c s IH]; intros k H; destruct k as [|k]; try reflexivity; simpl in *; [lia|].
  f_equal. apply IH. lia.
Qed.
Lemma zeros_length n : String.length (zeros n) = n.
Proof. induction n; simpl; congruence. Qed.
Lemma zeros_alldig n : alldig (zeros n) = true.
Proof. induction n; simpl; [reflexivity|exact IHn]. Qed.
Lemma zeros_dval n : dval (zeros n) 0 = 0%Z.
Proof. induction n; simpl; [reflexivity|exact IHn]. Qed.

Lemma tail_eq ex :
  (if (ex =? 0)%Z then "" else "e" ++ (if (ex <? 0)%Z then "-" else "+") ++ show_pos (Z.abs ex)) = etail ex.
Proof. unfold etail. destruct (ex =? 0)%Z; [reflexivity|]. destruct (ex <? 0)%Z; reflexivity. Qed.
Lemma text_eq ip fp T :
  "" ++ ip ++ (if String.eqb fp "" then "" else "." ++ fp) ++ T
  = ip ++ (if String.eqb fp "" then T else String "." (fp ++ T)).
Proof. destruct (String.eqb fp ""); reflexivity. Qed.

(** Decimal's 'n' rendering is always read back exactly *)
Lemma parse_fmt_dec_n M e : (0 <= M)%Z →
  parse_number (fmt_dec_n M e) = Some (Q2Qc (inject_Z M) * pow10 e)%Qc.
Proof.
  intros HM. unfold fmt_dec_n. replace (Z.abs M) with M by lia.
  destruct (show_pos_dval M HM) as [Hv Hl]. pose proof (show_pos_alldig M HM) as Ha.
  set (ds := show_pos M) in *. clearbody ds.
  set (len := Z.of_nat (String.length ds)).
  set (left := (e + len)%Z).
  set (dot := if (e <=? 0)%Z && (-6 <? left)%Z then left else 1%Z).
  replace (M <? 0)%Z with false by lia.
  assert (Hgen : ∀ ip fp ex, alldig ip = true → alldig fp = true → (1 <= String.length ip)%nat →
            dval (ip ++ fp) 0 = M → (ex - Z.of_nat (String.length fp))%Z = e →
            parse_number ("" ++ ip ++ (if String.eqb fp "" then "" else "." ++ fp)
                          ++ (if (ex =? 0)%Z then "" else "e" ++ (if (ex <? 0)%Z then "-" else "+") ++ show_pos (Z.abs ex)))
            = Some (Q2Qc (inject_Z M) * pow10 e)%Qc).
  { intros ip fp ex H1 H2 H3 H4 H5. rewrite tail_eq, text_eq. fold (dec_text ip fp ex).
    rewrite parse_dec_text by assumption. rewrite H4, H5. reflexivity. }
  destruct (dot <? 0)%Z eqn:D1.
  - (* 0.000ddd *)
    apply Hgen; try reflexivity.
    + rewrite alldig_app, zeros_alldig, Ha. reflexivity.
    + change ("0" ++ ?x) with (String "0" x). cbn [dval digit_of]. simpl. rewrite dval_app by apply zeros_alldig.
      rewrite zeros_dval. exact Hv.
    + rewrite length_app', zeros_length. subst dot.
      destruct ((e <=? 0)%Z && (-6 <? left)%Z) eqn:C; [|lia]. subst left len. lia.
  - destruct (len <? dot)%Z eqn:D2.
    + (* never for the 'n' type *) exfalso. subst dot.
      destruct ((e <=? 0)%Z && (-6 <? left)%Z) eqn:C; subst left len; lia.
    + assert (Hk : (Z.to_nat dot <= String.length ds)%nat) by (subst len; lia).
      set (k := Z.to_nat dot) in *.
      pose proof (substring_split k ds Hk) as Hs.
      set (u := substring 0 k ds) in *. set (v := substring k (String.length ds - k) ds) in *.
      assert (Hu : String.length u = k) by (apply substring_length0, Hk).
      assert (Hav : alldig u = true ∧ alldig v = true).
      { rewrite Hs, alldig_app in Ha. apply andb_true_iff in Ha. exact Ha. }
      assert (Hlv : (String.length ds = k + String.length v)%nat) by (rewrite Hs at 1; rewrite length_app', Hu; reflexivity).
      destruct (String.eqb_spec u "") as [Eu|Eu].
      * (* dot = 0: 0.ddd *)
        rewrite Eu in *. simpl in Hu. assert (k = 0%nat) by lia.
        apply Hgen; try reflexivity; try apply Hav.
        -- change ("0" ++ v) with (String "0" v). cbn [dval digit_of]. simpl. rewrite Hs in Hv. exact Hv.
        -- subst dot. destruct ((e <=? 0)%Z && (-6 <? left)%Z) eqn:C; subst left len; lia.
      * apply Hgen; try apply Hav.
        -- destruct u; [congruence|simpl; lia].
        -- rewrite <- Hs. exact Hv.
        -- subst dot. destruct ((e <=? 0)%Z && (-6 <? left)%Z) eqn:C; subst left len; lia.
Qed.

Lemma exact_rendered_dec qk m e : exact_renderedb qk (XDec m e) = true.
Proof.
  unfold exact_renderedb. simpl xabs. unfold fmt_n_str, fmt_n. simpl default.
  rewrite parse_fmt_dec_n by lia. apply bool_decide_eq_true. reflexivity.
Qed.

(** * the round trip, full strength *)
Theorem plain_roundtrip_tokens_full qk r short sf (its : items) (disp : string → string) l :
  items_wf its → its ≠ [] →
  Forall (λ nx : string * expo, exact_renderedb qk nx.2 = true) its →
  (∀ nx, nx ∈ its → display r short nx.1 = Ok (disp nx.1)) →
  NoDup (map (λ nx : string * expo, disp nx.1) its) →
  layout qk r true false short sf its = Ok l →
  ∃ s fl, ph_from_tokens (layout_tokens qk l ++ [TEnd])
          = Ok (PH s (uc_of (map (λ nx : string * expo, (disp nx.1, nx.2)) its)), fl)
          ∧ (fl = false → s = 1%Qc).
Proof.
  intros Hwf Hne Hex Hdisp Hnd Hl.
  set (its' := map (λ nx : string * expo, (disp nx.1, nx.2)) its).
  assert (Hwf' : items_wf its').
  { split.
    - unfold its'. rewrite <- list_fmap_compose. exact Hnd.
    - unfold its'. rewrite Forall_fmap. exact (proj2 Hwf). }
  destruct (layout_inv qk r true false short sf its disp l Hne Hdisp Hl)
    as [pos [neg [-> [Hsub [Hperm [Hp [Hn [_ Hsum]]]]]]]].
  set (tr := map (λ nx : string * expo, (disp nx.1, nx.2, nx.1)) its) in *.
  assert (Hz : Forall (λ t : dtriple, exact_renderedb qk (extract2 t).2 = true) (pos ++ neg)%list).
  { eapply Forall_impl; [exact Hsub|]. intros t Ht. cbv beta in Ht.
    apply (elem_of_list_fmap_2 (λ nx : string * expo, (disp nx.1, nx.2, nx.1))) in Ht as [nx [-> Hnx]].
    rewrite Forall_forall in Hex. exact (Hex nx Hnx). }
  apply Forall_app in Hz as [Hzp Hzn].
  assert (Gp : Forall (gterm qk) (map (pos_term true) (map extract2 pos))).
  { rewrite !Forall_fmap. eapply Forall_impl; [exact Hzp|]. intros t Hz. exact (gterm_pos qk _ Hz). }
  assert (Gn : Forall (gterm qk) (map (neg_term true) (map extract2 neg))).
  { rewrite !Forall_fmap. eapply Forall_impl; [exact Hzn|]. intros t Hz. exact (gterm_neg qk _ Hz). }
  assert (Hwfd : ∀ t : dtriple, wf (den1 t.1.1)) by (intros; apply wf_singleton; discriminate).
  assert (Hfin : ∀ C, wf C → (∀ k, exp_of C k = (sume den1 k pos + sume den1 k neg)%Qc) → C = uc_of its').
  { intros C WC EC. apply uc_ext; [exact WC|apply wf_uc_of, Hwf'|]. intros k. rewrite EC, Hsum.
    rewrite <- (sume_tr den1 id k its'); [|apply Hwf'|reflexivity].
    apply sume_fst. unfold tr, its'. rewrite <- !list_fmap_compose. reflexivity. }
  assert (Hlen : length (pos ++ neg) = length its).
  { rewrite Hperm. subst tr. apply map_length. }
  (* from an evaluation result to the conclusion *)
  assert (Hconc : ∀ toks first ps v C,
            toks = (op_toks first ++ pairs_toks ps ++ [TEnd])%list → Forall mul_pair ps →
            eval_t (pairs_tree ps (op_tree first)) = Ok v → okval v C → C = uc_of its' →
            ∃ s fl, ph_from_tokens toks = Ok (PH s (uc_of its'), fl) ∧ (fl = false → s = 1%Qc)).
  { intros toks first ps v C Et Hok Ev [s [fl [-> Hs]]] ->. exists s, fl. split; [|exact Hs].
    exact (ph_from_tokens_of_g first ps toks _ _ Et Hok Ev). }
  set (P := map (pos_term true) (map extract2 pos)) in *.
  set (N := map (neg_term true) (map extract2 neg)) in *.
  unfold layout_terms, assemble. fold P N. cbn [negb].
  pose proof (exp_dprod_pos den1) as EP. pose proof (exp_dprod_neg den1) as EN.
  destruct neg as [|n1 nrest].
  - destruct pos as [|p1 prest]; [destruct its; [congruence|discriminate Hlen]|].
    subst N. cbn [map]. cbn [map] in P. subst P.
    set (tp := pos_term true (extract2 p1)) in *. set (P' := map (pos_term true) (map extract2 prest)) in *.
    apply Forall_cons in Gp as [Gp1 Gps].
    cbn [layout_tokens]. rewrite (prod_tokens_pairs_g qk tp P' ltac:(constructor; assumption)).
    rewrite <- app_assoc.
    destruct (eval_gterm qk tp Gp1) as [g0 E0].
    destruct (eval_mul_pairs_g qk P' _ _ (denoteL den1 tp) Gps E0) as [v [Ev Ov]].
    { eexists _, _. split; [reflexivity|reflexivity]. }
    eapply (Hconc _ (operand_of qk tp) _ v _ eq_refl (mul_pairs_ok_g qk "*" P' ltac:(left; reflexivity) Gps) Ev Ov).
    apply Hfin.
    + apply wf_fold_mul. apply wf_pos_term, Hwfd.
    + intros k. rewrite exp_fold_mul. specialize (EP k true (p1 :: prest) Hp). cbn [map dprod fold_right] in EP.
      fold tp P' in EP. rewrite exp_of_mul in EP. unfold dprod. rewrite EP. simpl. ring.
  - destruct pos as [|p1 prest].
    + subst P. cbn [map] in N. subst N.
      set (tn := neg_term true (extract2 n1)) in *. set (N' := map (neg_term true) (map extract2 nrest)) in *.
      apply Forall_cons in Gn as [Gn1 Gns].
      cbn [map layout_tokens term_tokens]. rewrite (div_tokens_pairs_g qk (tn :: N') ltac:(constructor; assumption)).
      rewrite <- app_assoc.
      destruct (eval_one_over_g qk tn Gn1) as [v0 [E0 O0]].
      destruct (eval_div_pairs_g qk N' _ _ _ Gns E0 O0) as [v [Ev Ov]].
      eapply (Hconc _ (ONum "1") _ v _ eq_refl
                (mul_pairs_ok_g qk "/" (tn :: N') ltac:(right; reflexivity) ltac:(constructor; assumption))).
      { cbn [map]. rewrite pairs_tree_cons. cbn [op_tree]. exact Ev. }
      { exact Ov. }
      apply Hfin.
      * apply wf_fold_div', wf_pow.
      * intros k. rewrite exp_fold_div, exp_of_pow. specialize (EN k (n1 :: nrest) Hn). cbn [map dprod fold_right] in EN.
        fold tn N' in EN. rewrite exp_of_mul in EN. unfold dprod.
        replace (sume den1 k []) with 0%Qc by reflexivity.
        replace (sume den1 k (n1 :: nrest)) with (- - sume den1 k (n1 :: nrest))%Qc by ring.
        rewrite <- EN. ring.
    + cbn [map] in P, N. subst P N.
      set (tp := pos_term true (extract2 p1)) in *. set (P' := map (pos_term true) (map extract2 prest)) in *.
      set (tn := neg_term true (extract2 n1)) in *. set (N' := map (neg_term true) (map extract2 nrest)) in *.
      apply Forall_cons in Gp as [Gp1 Gps].
      cbn [layout_tokens]. rewrite (prod_tokens_pairs_g qk tp P' ltac:(constructor; assumption)).
      rewrite (div_tokens_pairs_g qk (tn :: N') Gn). rewrite <- !app_assoc. rewrite (app_assoc (pairs_toks _)), <- pairs_toks_app.
      destruct (eval_gterm qk tp Gp1) as [g0 E0].
      destruct (eval_mul_pairs_g qk P' _ _ (denoteL den1 tp) Gps E0) as [v1 [Ev1 Ov1]].
      { eexists _, _. split; [reflexivity|reflexivity]. }
      destruct (eval_div_pairs_g qk (tn :: N') _ _ _ Gn Ev1 Ov1) as [v [Ev Ov]].
      eapply (Hconc _ (operand_of qk tp) _ v _ eq_refl).
      { apply Forall_app. split; [apply mul_pairs_ok_g; [left; reflexivity|exact Gps] | apply mul_pairs_ok_g; [right; reflexivity|exact Gn]]. }
      { rewrite pairs_tree_app. exact Ev. }
      { exact Ov. }
      apply Hfin.
      * apply wf_fold_div', wf_fold_mul, wf_pos_term, Hwfd.
      * intros k. rewrite exp_fold_div, exp_fold_mul.
        specialize (EP k true (p1 :: prest) Hp). specialize (EN k (n1 :: nrest) Hn).
        cbn [map] in EP, EN. fold tp P' in EP. fold tn N' in EN.
        rewrite EN. cbn [dprod fold_right] in EP. rewrite exp_of_mul in EP. unfold dprod. rewrite <- EP. ring.
Qed.

(** * … and through [_parse_units_as_container]'s name resolution back to the unit itself *)
Lemma parse_units_tokens_of r toks s C fl :
  ph_from_tokens toks = Ok (PH s C, fl) → (fl = false → s = 1%Qc) →
  parse_units_tokens r toks = resolve_names r C.
Proof.
  intros E Hs. unfold parse_units_tokens. rewrite E. cbn [rbind ph_scale ph_d].
  destruct fl; [reflexivity|]. rewrite (Hs eq_refl). rewrite bool_decide_eq_true_2 by reflexivity. reflexivity.
Qed.

Theorem long_roundtrip_full qk r sf (its : items) l :
  items_wf its → its ≠ [] →
  Forall (λ nx : string * expo, exact_renderedb qk nx.2 = true) its →
  (∀ nx, nx ∈ its → get_name r nx.1 = Ok nx.1 ∧ nx.1 ≠ ""
                    ∧ (∀ df, r_units r !! nx.1 = Some df → u_multiplicative df = true)) →
  layout qk r true false false sf its = Ok l →
  parse_units_tokens r (layout_tokens qk l ++ [TEnd]) = Ok (uc_of its).
Proof.
  intros Hwf Hne Hex Hg Hl.
  destruct (plain_roundtrip_tokens_full qk r false sf its id l Hwf Hne Hex (λ nx _, eq_refl) (proj1 Hwf) Hl)
    as [s [fl [E Hs]]].
  rewrite (parse_units_tokens_of r _ _ _ _ E Hs).
  apply (resolve_names_ok r id its Hwf); [exact (proj1 Hwf)|exact Hg].
Qed.
Theorem short_roundtrip_full qk r sf (its : items) l :
  items_wf its → its ≠ [] →
  Forall (λ nx : string * expo, exact_renderedb qk nx.2 = true) its →
  short_guard r its →
  layout qk r true false true sf its = Ok l →
  parse_units_tokens r (layout_tokens qk l ++ [TEnd]) = Ok (uc_of its).
Proof.
  intros Hwf Hne Hex [disp [Hg Hnd]] Hl.
  destruct (plain_roundtrip_tokens_full qk r true sf its disp l Hwf Hne Hex (λ nx Hnx, proj1 (Hg nx Hnx)) Hnd Hl)
    as [s [fl [E Hs]]].
  rewrite (parse_units_tokens_of r _ _ _ _ E Hs).
  apply (resolve_names_ok r disp its Hwf Hnd). intros nx Hnx. destruct (Hg nx Hnx) as [_ H]. exact H.
Qed.
