(** Proofs/FormatProofs.v — lemmas about the formatting model (C09): what a layout denotes,
    totality, spec splitting, the siunitx prefix stripping, the '~' symbol collision, and the
    token-level round trip of the default / compact formats through the tree builder
    ([Eval.build]) and the ParserHelper algebra. *)
From Coq Require Import Ascii String ZArith Lia ZifyBool.
From stdpp Require Import sorting.
From PintV Require Import Model.UC Model.Eval Model.Registry Model.Format Model.FormatRun Proofs.UCProofs
  Gen.DefaultDefs Gen.DefaultReg.
Open Scope string_scope.

(** ********** exponent values ********** *)
(** * exponent values *)
Lemma qneg_true q : qneg q = true ↔ (q < 0)%Qc.
Proof. unfold qneg. apply bool_decide_eq_true. Qed.
Lemma qneg_false q : qneg q = false ↔ (0 <= q)%Qc.
Proof.
  unfold qneg. rewrite bool_decide_eq_false. split.
  - apply Qcnot_lt_le.
  - apply Qcle_not_lt.
Qed.
Lemma qabs_neg q : qneg q = true → qabs q = (- q)%Qc.
Proof. unfold qabs. intros ->. reflexivity. Qed.
Lemma qabs_nonneg q : qneg q = false → qabs q = q.
Proof. unfold qabs. intros ->. reflexivity. Qed.

Lemma Q2Qc_inject_lt0 z : (Q2Qc (inject_Z z) < 0)%Qc ↔ (z < 0)%Z.
Proof.
  unfold Qclt. change (this 0%Qc) with 0%Q. change (this (Q2Qc (inject_Z z))) with (Qred (inject_Z z)).
  rewrite Qred_correct. unfold Qlt, inject_Z. simpl. lia.
Qed.
Lemma Q2Qc_inject_opp z : Q2Qc (inject_Z (- z)) = (- Q2Qc (inject_Z z))%Qc.
Proof.
  apply Qc_is_canon. unfold Qcopp. change (this (Q2Qc ?q)) with (Qred q). rewrite !Qred_correct.
  change (this (Q2Qc (inject_Z z))) with (Qred (inject_Z z)). rewrite Qred_correct.
  unfold Qeq, inject_Z. simpl. lia.
Qed.
Lemma pow10_pos e : (0 < pow10 e)%Qc.
Proof.
  unfold pow10. destruct e as [|p|p].
  - reflexivity.
  - unfold Qclt. change (this 0%Qc) with 0%Q.
    change (this (Q2Qc ?q)) with (Qred q). rewrite Qred_correct. unfold Qlt, inject_Z.
    change (Qnum 0) with 0%Z. change (QDen 0) with 1%Z. cbn [Qnum Qden].
    pose proof (Z.pow_pos_nonneg 10 (Z.pos p) ltac:(lia) ltac:(lia)). lia.
  - unfold Qclt. change (this 0%Qc) with 0%Q.
    change (this (Q2Qc ?q)) with (Qred q). rewrite Qred_correct. unfold Qlt. cbn [Qnum Qden]. lia.
Qed.
Lemma dec_sign m e : (Q2Qc (inject_Z m) * pow10 e < 0)%Qc ↔ (m < 0)%Z.
Proof.
  rewrite <- Q2Qc_inject_lt0.
  rewrite (Qcmult_lt_mono_pos_r (Q2Qc (inject_Z m)) 0 (pow10 e) (pow10_pos e)).
  replace (0 * pow10 e)%Qc with 0%Qc by ring. reflexivity.
Qed.

Lemma xint_neg z : qneg (Q2Qc (inject_Z z)) = true ↔ (z < 0)%Z.
Proof. rewrite qneg_true. apply Q2Qc_inject_lt0. Qed.
Lemma xdec_neg m e : qneg (Q2Qc (inject_Z m) * pow10 e) = true ↔ (m < 0)%Z.
Proof. rewrite qneg_true. apply dec_sign. Qed.
Lemma xval_xabs x : xval (xabs x) = qabs (xval x).
Proof.
  destruct x as [z|q|m e|q]; simpl; try reflexivity.
  - unfold qabs. destruct (qneg (Q2Qc (inject_Z z))) eqn:E.
    + pose proof (proj1 (xint_neg z) E). replace (Z.abs z) with (- z)%Z by lia. apply Q2Qc_inject_opp.
    + assert (0 <= z)%Z.
      { destruct (Z_lt_le_dec z 0) as [H|H]; [|exact H]. pose proof (proj2 (xint_neg z) H). congruence. }
      replace (Z.abs z) with z by lia. reflexivity.
  - unfold qabs. destruct (qneg (Q2Qc (inject_Z m) * pow10 e)) eqn:E.
    + pose proof (proj1 (xdec_neg m e) E).
      replace (Z.abs m) with (- m)%Z by lia. rewrite Q2Qc_inject_opp. ring.
    + assert (0 <= m)%Z.
      { destruct (Z_lt_le_dec m 0) as [H|H]; [|exact H]. pose proof (proj2 (xdec_neg m e) H). congruence. }
      replace (Z.abs m) with m by lia. reflexivity.
Qed.


(** ********** layout denotation: core ********** *)
Lemma mapM_res_ok {A B} (f : A → res B) (g : A → B) l :
  (∀ a, a ∈ l → f a = Ok (g a)) → mapM_res f l = Ok (map g l).
Proof.
  induction l as [|a l IH]; intros H; simpl; [reflexivity|].
  rewrite (H a) by (left). simpl. rewrite IH by (intros b Hb; apply H; right; exact Hb). reflexivity.
Qed.
Lemma sort_triples_perm sf l : sort_triples sf l ≡ₚ l.
Proof. destruct sf; simpl; try reflexivity; apply merge_sort_Permutation. Qed.

Lemma exp_of_empty k : exp_of ∅ k = 0%Qc.
Proof. unfold exp_of. rewrite lookup_empty. reflexivity. Qed.
Lemma exp_of_singleton n v k : exp_of ({[ n := v ]} : uc) k = if decide (n = k) then v else 0%Qc.
Proof.
  unfold exp_of. destruct (decide (n = k)) as [->|Hne].
  - rewrite lookup_singleton. reflexivity.
  - rewrite lookup_singleton_ne by exact Hne. reflexivity.
Qed.
Lemma wf_singleton n v : v ≠ 0%Qc → wf ({[ n := v ]} : uc).
Proof. intros Hv k x. rewrite lookup_singleton_Some. intros [_ <-]. exact Hv. Qed.

Section Denote.
  Context (den : string → uc) (k : string).
  Definition cf (d : string) : Qc := exp_of (den d) k.
  Fixpoint sume (ts : list dtriple) : Qc :=
    match ts with [] => 0%Qc | t :: ts' => (cf t.1.1 * xval t.1.2 + sume ts')%Qc end.
  Lemma sume_perm a b : a ≡ₚ b → sume a = sume b.
  Proof. induction 1; simpl; try congruence; ring. Qed.
  Lemma sume_filter (P : dtriple → bool) l :
    (sume (List.filter P l) + sume (List.filter (λ t, negb (P t)) l))%Qc = sume l.
  Proof. induction l as [|t l IH]; simpl; [ring|]. destruct (P t); simpl; rewrite <- IH; ring. Qed.

  Definition dprod (ls : list L) : uc := fold_right (λ x acc, uc_mul (denoteL den x) acc) ∅ ls.
  Lemma denote_prod ls : denoteL den (Prod ls) = dprod ls.
  Proof. reflexivity. Qed.

  Lemma exp_pos_term ar t :
    (ar = false ∨ qneg (xval t.2) = false) →
    exp_of (denoteL den (pos_term ar t)) k = (cf t.1 * xval t.2)%Qc.
  Proof.
    intros H. unfold pos_term. destruct (bool_decide (xval t.2 = 1%Qc)) eqn:E.
    - apply bool_decide_eq_true in E. rewrite E. simpl. unfold cf. ring.
    - simpl. rewrite exp_of_pow. unfold cf. destruct ar; [|reflexivity].
      destruct H as [H|H]; [discriminate|]. rewrite xval_xabs, qabs_nonneg by exact H. reflexivity.
  Qed.
  Lemma exp_neg_term t :
    qneg (xval t.2) = true →
    exp_of (denoteL den (neg_term true t)) k = (- (cf t.1 * xval t.2))%Qc.
  Proof.
    intros H. unfold neg_term. destruct (bool_decide (xval t.2 = (-1)%Qc)) eqn:E; simpl.
    - apply bool_decide_eq_true in E. rewrite E. unfold cf. ring.
    - rewrite exp_of_pow, xval_xabs, qabs_neg by exact H. unfold cf. ring.
  Qed.
  Lemma exp_dprod_pos ar (l : list dtriple) :
    Forall (λ t : dtriple, ar = false ∨ qneg (xval t.1.2) = false) l →
    exp_of (dprod (map (pos_term ar) (map extract2 l))) k = sume l.
  Proof.
    induction 1 as [|t l Ht _ IH]; simpl; [apply exp_of_empty|].
    rewrite exp_of_mul, IH. rewrite (exp_pos_term ar (extract2 t)) by exact Ht. reflexivity.
  Qed.
  Lemma exp_dprod_neg (l : list dtriple) :
    Forall (λ t : dtriple, qneg (xval t.1.2) = true) l →
    exp_of (dprod (map (neg_term true) (map extract2 l))) k = (- sume l)%Qc.
  Proof.
    induction 1 as [|t l Ht _ IH]; simpl; [rewrite exp_of_empty; ring|].
    rewrite exp_of_mul, IH. rewrite (exp_neg_term (extract2 t)) by exact Ht. unfold extract2. ring.
  Qed.
  Lemma exp_ratio_neg (l : list dtriple) a :
    Forall (λ t : dtriple, qneg (xval t.1.2) = true) l →
    exp_of (fold_left (λ acc x, uc_div acc (denoteL den x)) (map (neg_term true) (map extract2 l)) a) k
    = (exp_of a k + sume l)%Qc.
  Proof.
    intros H. revert a. induction H as [|t l Ht _ IH]; intros a; simpl; [ring|].
    rewrite IH, exp_of_div. rewrite (exp_neg_term (extract2 t)) by exact Ht. unfold extract2. ring.
  Qed.
End Denote.

(** wf of denotations *)
Lemma wf_dprod den ls : Forall (λ x, wf (denoteL den x)) ls → wf (dprod den ls).
Proof. destruct 1; simpl; [apply wf_empty | apply wf_mul; assumption]. Qed.
Lemma wf_fold_div den ds a : wf a → wf (fold_left (λ acc x, uc_div acc (denoteL den x)) ds a).
Proof. revert a. induction ds as [|d ds IH]; intros a Ha; simpl; [exact Ha|]. apply IH, wf_div, Ha. Qed.
Lemma wf_pos_term den ar t : wf (den t.1) → wf (denoteL den (pos_term ar t)).
Proof. intros H. unfold pos_term. destruct (bool_decide _); simpl; [exact H | apply wf_pow]. Qed.
Lemma wf_neg_term den ar t : wf (den t.1) → wf (denoteL den (neg_term ar t)).
Proof. intros H. unfold neg_term. destruct (_ && _); simpl; [exact H | apply wf_pow]. Qed.

(** the core: a layout built from any split of the triples into non-negative and negative ones *)
Lemma layout_terms_denotes den ar single (pos neg : list dtriple) :
  Forall (λ t : dtriple, wf (den t.1.1)) (pos ++ neg)%list →
  Forall (λ t : dtriple, ar = false ∨ qneg (xval t.1.2) = false) pos →
  Forall (λ t : dtriple, qneg (xval t.1.2) = true) neg →
  (ar = false → neg = []) →
  let l := layout_terms ar single (map extract2 pos) (map extract2 neg) in
  wf (denoteL den l) ∧ ∀ k, exp_of (denoteL den l) k = (sume den k pos + sume den k neg)%Qc.
Proof.
  intros Hwf Hp Hn Har l. apply Forall_app in Hwf as [Hwp Hwn].
  assert (Wp : Forall (λ x, wf (denoteL den x)) (map (pos_term ar) (map extract2 pos))).
  { rewrite !Forall_fmap. eapply Forall_impl; [exact Hwp|]. intros t Ht. apply wf_pos_term. exact Ht. }
  assert (Wn : Forall (λ x, wf (denoteL den x)) (map (neg_term ar) (map extract2 neg))).
  { rewrite !Forall_fmap. eapply Forall_impl; [exact Hwn|]. intros t Ht. apply wf_neg_term. exact Ht. }
  subst l. unfold layout_terms, assemble. destruct ar; simpl negb; cbv iota.
  - (* as ratio *)
    destruct (map (neg_term true) (map extract2 neg)) as [|n0 ns] eqn:En.
    + assert (neg = []) as -> by (destruct neg; [reflexivity|discriminate]).
      split; [apply wf_dprod, Wp|]. intros k. rewrite denote_prod, exp_dprod_pos by exact Hp. simpl. ring.
    + rewrite <- En in *. clear En n0 ns.
      set (n := match map (pos_term true) (map extract2 pos) with [] => One | _ => Prod (map (pos_term true) (map extract2 pos)) end).
      assert (Hn0 : wf (denoteL den n) ∧ ∀ k, exp_of (denoteL den n) k = sume den k pos).
      { subst n. destruct pos as [|p ps].
        - simpl. split; [apply wf_empty|]. intros k. apply exp_of_empty.
        - change (map (pos_term true) (map extract2 (p :: ps))) with (pos_term true (extract2 p) :: map (pos_term true) (map extract2 ps)).
          cbv iota. split; [apply (wf_dprod den _ Wp)|]. intros k.
          change (pos_term true (extract2 p) :: map (pos_term true) (map extract2 ps)) with (map (pos_term true) (map extract2 (p :: ps))).
          rewrite denote_prod. apply exp_dprod_pos. exact Hp. }
      destruct Hn0 as [Wn0 En0]. destruct single.
      * split; [simpl; apply wf_div, Wn0|]. intros k. simpl. rewrite exp_of_div, En0.
        change (fold_right (λ x acc, uc_mul (denoteL den x) acc) ∅ ?l) with (dprod den l).
        rewrite exp_dprod_neg by exact Hn. ring.
      * split; [simpl; apply wf_fold_div, Wn0|]. intros k. simpl. rewrite exp_ratio_neg by exact Hn.
        rewrite En0. reflexivity.
  - (* as product *)
    rewrite (Har eq_refl) in *. change (map (neg_term false) (map extract2 [])) with (@nil L). rewrite app_nil_r.
    split; [apply wf_dprod, Wp|]. intros k. rewrite denote_prod, exp_dprod_pos by exact Hp. simpl. ring.
Qed.


(** ********** layout denotation: theorem ********** *)
Lemma uc_of_cons nx its : uc_of (nx :: its) = <[ nx.1 := xval nx.2 ]> (uc_of its).
Proof. reflexivity. Qed.
Lemma exp_of_insert (m : uc) n v k : exp_of (<[ n := v ]> m) k = if decide (n = k) then v else exp_of m k.
Proof.
  unfold exp_of. destruct (decide (n = k)) as [->|Hne].
  - rewrite lookup_insert. reflexivity.
  - rewrite lookup_insert_ne by exact Hne. reflexivity.
Qed.
Lemma uc_of_notin its k : k ∉ map fst its → exp_of (uc_of its) k = 0%Qc.
Proof.
  intros H. unfold exp_of, uc_of. rewrite (not_elem_of_list_to_map_1 _ k); [reflexivity|].
  rewrite <- list_fmap_compose. exact H.
Qed.
Lemma wf_uc_of its : items_wf its → wf (uc_of its).
Proof.
  intros [_ Hnz] k v Hl. unfold uc_of in Hl. apply elem_of_list_to_map_2 in Hl.
  apply elem_of_list_fmap in Hl as [nx [E Hin]]. inversion E; subst.
  rewrite Forall_forall in Hnz. exact (Hnz nx Hin).
Qed.
Lemma sume_tr den disp k its :
  NoDup (map fst its) →
  (∀ nx, nx ∈ its → den (disp nx.1) = {[ nx.1 := 1%Qc ]}) →
  sume den k (map (λ nx : string * expo, (disp nx.1, nx.2, nx.1)) its) = exp_of (uc_of its) k.
Proof.
  induction its as [|nx its IH]; intros Hnd Hden; [symmetry; apply exp_of_empty|].
  simpl map in Hnd. apply NoDup_cons in Hnd as [Hnotin Hnd].
  cbn [map sume]. rewrite IH; [|exact Hnd|intros y Hy; apply Hden; right; exact Hy].
  rewrite uc_of_cons, exp_of_insert. unfold cf. cbn [fst snd]. rewrite (Hden nx) by left.
  rewrite exp_of_singleton. destruct (decide (nx.1 = k)) as [<-|Hne].
  - rewrite uc_of_notin by exact Hnotin. ring.
  - ring.
Qed.

(** what [layout] computes on a non-empty unit: a split of the display triples *)
Lemma layout_inv qk r ar single short sf (its : items) disp l :
  its ≠ [] →
  (∀ nx, nx ∈ its → display r short nx.1 = Ok (disp nx.1)) →
  layout qk r ar single short sf its = Ok l →
  let tr := map (λ nx : string * expo, (disp nx.1, nx.2, nx.1)) its in
  ∃ pos neg : list dtriple,
    l = layout_terms ar single (map extract2 pos) (map extract2 neg)
    ∧ Forall (λ t, t ∈ tr) (pos ++ neg)%list
    ∧ (pos ++ neg)%list ≡ₚ tr
    ∧ Forall (λ t : dtriple, ar = false ∨ qneg (xval t.1.2) = false) pos
    ∧ Forall (λ t : dtriple, qneg (xval t.1.2) = true) neg
    ∧ (ar = false → neg = [])
    ∧ (∀ den k, (sume den k pos + sume den k neg)%Qc = sume den k tr).
Proof.
  intros Hne Hd Hl tr. unfold layout in Hl.
  assert (Hprep : prepare r short ar sf its =
    Ok (map extract2 (sort_triples sf (if ar then List.filter (λ t : dtriple, negb (qneg (xval t.1.2))) tr else tr)),
        map extract2 (sort_triples sf (if ar then List.filter (λ t : dtriple, qneg (xval t.1.2)) tr else [])))).
  { unfold prepare. destruct its as [|nx0 its0]; [congruence|].
    rewrite (mapM_res_ok _ (λ nx : string * expo, (disp nx.1, nx.2, nx.1))).
    - reflexivity.
    - intros a Ha. rewrite (Hd a Ha). reflexivity. }
  rewrite Hprep in Hl. simpl in Hl. destruct (forallb _ _); [|discriminate]. inversion Hl; subst l. clear Hl Hprep.
  set (pos := sort_triples sf (if ar then List.filter (λ t : dtriple, negb (qneg (xval t.1.2))) tr else tr)).
  set (neg := sort_triples sf (if ar then List.filter (λ t : dtriple, qneg (xval t.1.2)) tr else [])).
  assert (Hpp : pos ≡ₚ (if ar then List.filter (λ t : dtriple, negb (qneg (xval t.1.2))) tr else tr))
    by apply sort_triples_perm.
  assert (Hnp : neg ≡ₚ (if ar then List.filter (λ t : dtriple, qneg (xval t.1.2)) tr else []))
    by apply sort_triples_perm.
  exists pos, neg. split; [reflexivity|]. split; [|split; [|split; [|split; [|split]]]].
  - rewrite Hpp, Hnp. apply Forall_app. destruct ar.
    + split; apply Forall_forall; intros t Ht; apply elem_of_list_In, filter_In in Ht as [Ht _];
        apply elem_of_list_In, Ht.
    + split; [apply Forall_forall; intros; assumption|constructor].
  - rewrite Hpp, Hnp. destruct ar; [|rewrite app_nil_r; reflexivity].
    clear. induction tr as [|t tr IH]; [reflexivity|]. simpl.
    destruct (qneg (xval t.1.2)); simpl; [|constructor; exact IH].
    rewrite <- Permutation_middle. constructor. exact IH.
  - rewrite Hpp. destruct ar; apply Forall_forall; intros t Ht.
    + apply elem_of_list_In, filter_In in Ht as [_ Ht]. right. apply negb_true_iff in Ht. exact Ht.
    + left. reflexivity.
  - rewrite Hnp. destruct ar; [|constructor]. apply Forall_forall; intros t Ht.
    apply elem_of_list_In, filter_In in Ht as [_ Ht]. exact Ht.
  - intros ->. subst neg. destruct sf; reflexivity.
  - intros den k. rewrite (sume_perm den k _ _ Hpp), (sume_perm den k _ _ Hnp). destruct ar.
    + rewrite Qcplus_comm. apply (sume_filter den k (λ t : dtriple, qneg (xval t.1.2))).
    + simpl. ring.
Qed.

Lemma layout_denotes_gen qk r ar single short sf (its : items) disp den l :
  items_wf its →
  (∀ nx, nx ∈ its → display r short nx.1 = Ok (disp nx.1) ∧ den (disp nx.1) = {[ nx.1 := 1%Qc ]}) →
  (its = [] → short = false → den "dimensionless" = ∅) →
  layout qk r ar single short sf its = Ok l →
  denoteL den l = uc_of its.
Proof.
  intros Hwf Hd Hemp Hl.
  destruct its as [|nx0 its0].
  - (* the empty unit *)
    unfold layout in Hl. simpl in Hl. destruct short; simpl in Hl.
    + inversion Hl; subst.
      unfold layout_terms, assemble. destruct ar; reflexivity.
    + specialize (Hemp eq_refl eq_refl).
      inversion Hl; subst.
      assert (E : bool_decide (xval (XInt 1) = 1%Qc) = true) by (vm_compute; reflexivity).
      assert (P : pos_term ar ("dimensionless", XInt 1) = Sym "dimensionless").
      { unfold pos_term. cbn [fst snd]. rewrite E. reflexivity. }
      unfold layout_terms. cbn [map]. rewrite P. unfold assemble.
      destruct ar; simpl; rewrite Hemp; apply uc_mul_empty_r.
  - set (its := nx0 :: its0) in *.
    destruct (layout_inv qk r ar single short sf its disp l ltac:(discriminate) (λ nx Hnx, proj1 (Hd nx Hnx)) Hl)
      as [pos [neg [-> [Hsub [_ [Hp [Hn [Har Hsum]]]]]]]].
    destruct (layout_terms_denotes den ar single pos neg) as [W E]; try assumption.
    + eapply Forall_impl; [exact Hsub|]. intros t Ht. cbv beta zeta in Ht.
      apply (elem_of_list_fmap_2 (λ nx : string * expo, (disp nx.1, nx.2, nx.1))) in Ht as [nx [-> Hnx]]. simpl.
      destruct (Hd nx Hnx) as [_ ->]. apply wf_singleton. discriminate.
    + apply uc_ext; [exact W | apply wf_uc_of, Hwf|]. intros k. rewrite E, Hsum.
      apply sume_tr; [apply Hwf|intros nx Hnx; apply (Hd nx Hnx)].
Qed.

(** long names: every name denotes itself *)
Theorem layout_denotes qk r ar single sf (its : items) l :
  items_wf its → "dimensionless" ∉ map fst its →
  layout qk r ar single false sf its = Ok l →
  denoteL den_name l = uc_of its.
Proof.
  intros Hwf Hnd. apply (layout_denotes_gen qk r ar single false sf its id den_name); [exact Hwf| |reflexivity].
  intros nx Hnx. split; [reflexivity|]. unfold den_name, id.
  destruct (String.eqb_spec nx.1 "dimensionless") as [E|_]; [|reflexivity].
  exfalso. apply Hnd. rewrite <- E. apply elem_of_list_fmap. exists nx. split; [reflexivity|exact Hnx].
Qed.


(** ********** siunitx, symbol collisions ********** *)
(** * strings *)
Lemma substring_all s : substring 0 (String.length s) s = s.
Proof. induction s as [|c s IH]; simpl; [reflexivity|]. f_equal. exact IH. Qed.
Lemma str_drop_0 s : str_drop 0 s = s.
Proof. unfold str_drop. rewrite Nat.sub_0_r. apply substring_all. Qed.
Lemma str_drop_S n c s : str_drop (S n) (String c s) = str_drop n s.
Proof. reflexivity. Qed.
Lemma prefix_split k s : String.prefix k s = true → s = k ++ str_drop (String.length k) s.
Proof.
  revert s. induction k as [|c k IH]; intros s H.
  - simpl. rewrite str_drop_0. reflexivity.
  - destruct s as [|a s]; [discriminate|]. simpl in H.
    destruct (ascii_dec c a) as [->|]; [|discriminate].
    simpl String.length. rewrite str_drop_S. change (String a k ++ ?t) with (String a (k ++ t)). f_equal. exact (IH s H).
Qed.

(** * siunitx *)
Lemma si_denote_guarded qk r its :
  (∀ nx, nx ∈ its → si_ok qk r nx.1 = true) → si_denote qk r its = Some (uc_of its).
Proof.
  intros H. unfold si_denote.
  assert (forallb (λ nx : string * expo, si_ok qk r nx.1) its = true) as ->.
  { apply forallb_forall. intros x Hx. apply H, elem_of_list_In, Hx. }
  f_equal. unfold uc_of. f_equal. apply map_ext_in. intros nx Hnx.
  specialize (H nx (proj2 (elem_of_list_In _ _) Hnx)). unfold si_ok in H.
  destruct (si_split qk r nx.1) as [p u]. apply andb_true_iff in H as [H _]. apply andb_true_iff in H as [H _].
  apply String.eqb_eq in H. rewrite H. reflexivity.
Qed.

(** without the defect: every defined unit name is rendered by macros that denote it *)
Lemma si_ok_repaired r name : is_unit_name r name = true → si_ok repaired r name = true.
Proof.
  intros Hu. unfold si_ok, si_split. simpl. unfold si_strip_fixed.
  destruct (List.find _ (r_prefix_keys r)) as [key|] eqn:F.
  - apply find_some in F as [Hin F]. destruct (r_prefixes r !! key) as [pd|] eqn:Ek; [|discriminate].
    apply andb_true_iff in F as [F Hrest]. apply andb_true_iff in F as [Hne Hpre].
    simpl. rewrite <- (prefix_split _ _ Hpre), String.eqb_refl, Hrest. simpl.
    unfold is_prefix_name. rewrite Hne. simpl. apply existsb_exists. exists key. split; [exact Hin|].
    rewrite Ek. apply String.eqb_refl.
  - simpl. rewrite String.eqb_refl, Hu. reflexivity.
Qed.
(** as found: fine for names that no prefix name is a prefix of *)
Definition no_prefix_name (r : reg) (name : string) : bool :=
  forallb (λ key, match r_prefixes r !! key with
                  | Some pd => negb (negb (String.eqb (p_name pd) "") && String.prefix (p_name pd) name)
                  | None => true end) (r_prefix_keys r).
Lemma si_strip_no_prefix r name : no_prefix_name r name = true → si_strip r name = (None, name).
Proof.
  unfold no_prefix_name, si_strip. induction (r_prefix_keys r) as [|key ks IH]; intros H; [reflexivity|].
  simpl in H. apply andb_true_iff in H as [H1 H2]. simpl.
  destruct (r_prefixes r !! key) as [pd|]; [|exact (IH H2)].
  apply negb_true_iff in H1. simpl. rewrite H1. exact (IH H2).
Qed.
Lemma si_ok_no_prefix qk r name :
  is_unit_name r name = true → no_prefix_name r name = true → si_ok qk r name = true.
Proof.
  intros Hu Hn. destruct qk as [a [|]]; [|apply (si_ok_repaired r name Hu)].
  unfold si_ok, si_split. simpl. rewrite (si_strip_no_prefix r name Hn). simpl.
  rewrite String.eqb_refl, Hu. reflexivity.
Qed.

Lemma siunitx_denotes_refuted :
  ∃ its, items_wf its ∧ Forall (λ nx : string * expo, is_unit_name default_reg nx.1 = true) its
         ∧ siunitx_format_unit as_found default_reg its = "\deca\de"
         ∧ si_denote as_found default_reg its = None.
Proof.
  exists [("decade", XInt 1)]. split; [|split; [|split]].
  - split; [apply (bool_decide_unpack _); vm_compute; exact I | repeat constructor; vm_compute; discriminate].
  - constructor; [vm_compute; reflexivity | constructor].
  - vm_compute. reflexivity.
  - vm_compute. reflexivity.
Qed.

(** * '~': the composed symbol of a prefixed unit may spell another unit (F19) *)
Lemma short_roundtrip_refuted :
  ∃ its, items_wf its ∧ Forall (λ nx : string * expo, ∃ d, resolve default_reg nx.1 = Ok d ∧ u_name d = nx.1) its
         ∧ full_format_unit as_found default_reg (FCfg "" None SortUnitName) "~" its = Ok "cd"
         ∧ back as_found default_reg FD true its = Ok {[ "candela" := 1%Qc ]}
         ∧ uc_of its ≠ {[ "candela" := 1%Qc ]}.
Proof.
  exists [("centiday", XInt 1)]. split; [|split; [|split; [|split]]].
  - split; [apply (bool_decide_unpack _); vm_compute; exact I | repeat constructor; vm_compute; discriminate].
  - constructor; [|constructor]. eexists. split; [vm_compute; reflexivity | reflexivity].
  - vm_compute. reflexivity.
  - assert (E : match back as_found default_reg FD true [("centiday", XInt 1)] with
                | Ok u => uc_eqb u {[ "candela" := 1%Qc ]} | Err _ => false end = true) by (vm_compute; reflexivity).
    destruct (back _ _ _ _ _) as [u|]; [|discriminate]. apply uc_eqb_spec in E. rewrite E. reflexivity.
  - intros E. assert (E' : uc_eqb (uc_of [("centiday", XInt 1)]) {[ "candela" := 1%Qc ]} = false) by (vm_compute; reflexivity).
    apply uc_eqb_spec in E. congruence.
Qed.

(** * totality *)
Lemma parse_params_builtin f : f ≠ FRaw → f ≠ FLx → ∃ pp, parse_params (fp_of f) = Some pp.
Proof. destruct f; intros H1 H2; try congruence; eexists; vm_compute; reflexivity. Qed.


(** ********** totality ********** *)
Lemma mapM_res_inv {A B} (f : A → res B) l bs :
  mapM_res f l = Ok bs → Forall2 (λ a b, f a = Ok b) l bs.
Proof.
  revert bs. induction l as [|a l IH]; intros bs H; simpl in H.
  - inversion H. constructor.
  - destruct (f a) as [b|] eqn:E; [|discriminate]. simpl in H.
    destruct (mapM_res f l) as [bs'|]; [|discriminate]. simpl in H. inversion H; subst.
    constructor; [exact E | apply IH; reflexivity].
Qed.
Lemma mapM_res_total {A B} (f : A → res B) l :
  Forall (λ a, ∃ b, f a = Ok b) l → ∃ bs, mapM_res f l = Ok bs.
Proof.
  induction 1 as [|a l [b Hb] _ [bs IH]]; simpl; [eexists; reflexivity|].
  rewrite Hb. simpl. rewrite IH. simpl. eexists; reflexivity.
Qed.

Lemma Forall2_elem_r {A B} (P : A → B → Prop) l k y :
  Forall2 P l k → y ∈ k → ∃ x, x ∈ l ∧ P x y.
Proof.
  induction 1 as [|a b l k Hab _ IH]; intros Hy; [inversion Hy|].
  apply elem_of_cons in Hy as [->|Hy].
  - exists a. split; [left|exact Hab].
  - destruct (IH Hy) as [x [Hx Px]]. exists x. split; [right; exact Hx|exact Px].
Qed.

(** every exponent the number formatter sees belongs to an item (or is the 1 of the placeholder) *)
Lemma prepare_exponents r short ar sf its pos neg :
  prepare r short ar sf its = Ok (pos, neg) →
  ∀ t, t ∈ (pos ++ neg)%list → t.2 = XInt 1 ∨ ∃ nx, nx ∈ its ∧ t.2 = nx.2.
Proof.
  unfold prepare. destruct its as [|nx0 its0].
  - destruct short; intros H; inversion H; subst; intros t Ht; simpl in Ht.
    + inversion Ht.
    + apply elem_of_list_singleton in Ht. subst. left. reflexivity.
  - set (its := nx0 :: its0). destruct (mapM_res _ its) as [tr|] eqn:E; [|discriminate]. simpl.
    intros H. inversion H; subst. clear H. intros t Ht. right.
    apply mapM_res_inv in E.
    assert (Hin : ∃ t3 : dtriple, t3 ∈ tr ∧ t = extract2 t3).
    { apply elem_of_app in Ht as [Ht|Ht]; apply elem_of_list_fmap in Ht as [t3 [-> Ht3]];
        rewrite sort_triples_perm in Ht3; exists t3; (split; [|reflexivity]);
        destruct ar; try (apply elem_of_list_In, filter_In in Ht3 as [Ht3 _]; apply elem_of_list_In, Ht3);
        try exact Ht3; inversion Ht3. }
    destruct Hin as [t3 [Ht3 ->]].
    destruct (Forall2_elem_r _ _ _ _ E Ht3) as [nx [Hnx P]]. exists nx. split; [exact Hnx|].
    simpl in P. destruct (display r short nx.1); [|discriminate]. simpl in P. inversion P; subst. reflexivity.
Qed.

Lemma rendered_sub ar pos neg x : x ∈ rendered ar pos neg → ∃ t, t ∈ (pos ++ neg)%list ∧ x = t.2.
Proof.
  unfold rendered. intros H. apply elem_of_app in H as [H|H]; apply elem_of_list_fmap in H as [t [-> Ht]];
    apply elem_of_list_In, filter_In in Ht as [Ht _]; exists t; (split; [|reflexivity]);
    apply elem_of_app; [left|right]; apply elem_of_list_In, Ht.
Qed.

Lemma layout_total qk r ar single short sf its :
  Forall (λ nx : string * expo, x_renderable qk nx.2 = true) its →
  (short = true → Forall (λ nx : string * expo, ∃ d, resolve r nx.1 = Ok d) its) →
  ∃ l, layout qk r ar single short sf its = Ok l.
Proof.
  intros Hx Hs. unfold layout.
  assert (P : ∃ pn, prepare r short ar sf its = Ok pn).
  { unfold prepare. destruct its as [|nx0 its0]; [destruct short; eexists; reflexivity|].
    destruct (mapM_res_total (λ nx : string * expo, d ←r display r short nx.1; Ok (d, nx.2, nx.1)) (nx0 :: its0)) as [tr ->].
    - unfold display. destruct short.
      + specialize (Hs eq_refl). eapply Forall_impl; [exact Hs|]. intros nx [d ->]. eexists; reflexivity.
      + apply Forall_forall. intros; eexists; reflexivity.
    - simpl. eexists; reflexivity. }
  destruct P as [[pos neg] P]. rewrite P. simpl.
  assert (forallb (x_renderable qk) (rendered ar pos neg) = true) as ->; [|eexists; reflexivity].
  apply forallb_forall. intros x Hin. apply elem_of_list_In, rendered_sub in Hin as [t [Ht ->]].
  destruct (prepare_exponents _ _ _ _ _ _ _ P t Ht) as [->|[nx [Hnx ->]]].
  - destruct qk; reflexivity.
  - rewrite Forall_forall in Hx. exact (Hx nx Hnx).
Qed.

(** formatting a unit never fails: on the repaired model for every valid unit, on the model as
    found for every unit without a Fraction exponent *)
Lemma format_unit_total qk r c spec its :
  let uspec := if String.eqb spec "" then c_default c else spec in
  get_formatter uspec ≠ FRaw →
  Forall (λ nx : string * expo, x_renderable qk nx.2 = true) its →
  (str_contains "~" uspec = true → Forall (λ nx : string * expo, ∃ d, resolve r nx.1 = Ok d) its) →
  ∃ s, full_format_unit qk r c spec its = Ok s.
Proof.
  intros uspec Hraw Hx Hs. unfold full_format_unit. fold uspec. unfold format_unit_with.
  destruct (get_formatter uspec) eqn:F; try congruence; try (eexists; reflexivity);
    (destruct (parse_params_builtin (get_formatter uspec)) as [pp Hpp]; [rewrite F; discriminate|rewrite F; discriminate|]);
    rewrite F in Hpp; rewrite Hpp;
    destruct (layout_total qk r (pp_as_ratio pp) (pp_single pp) (str_contains "~" uspec) (c_sort c) its Hx Hs) as [l ->];
    simpl; eexists; reflexivity.
Qed.
Lemma x_renderable_repaired x : x_renderable repaired x = true.
Proof. destruct x; reflexivity. Qed.

Lemma format_total_refuted :
  ∃ its, items_wf its ∧
    full_format_unit as_found empty_reg (FCfg "" None SortUnitName) "" its = Err EValue.
Proof.
  exists [("meter", XFrac (mkq 2 1)); ("second", XFrac (mkq (-1) 1))]. split.
  - split; [apply (bool_decide_unpack _); vm_compute; exact I | repeat constructor; vm_compute; discriminate].
  - vm_compute. reflexivity.
Qed.


(** ********** spec splitting ********** *)
Definition chars (s : string) : list ascii := list_ascii_of_string s.
Lemma chars_app a b : chars (a ++ b) = (chars a ++ chars b)%list.
Proof. induction a as [|c a IH]; simpl; [reflexivity|]. unfold chars in *. simpl. f_equal. exact IH. Qed.
Lemma length_app a b : String.length (a ++ b) = (String.length a + String.length b)%nat.
Proof. induction a as [|c a IH]; simpl; [reflexivity|]. f_equal. exact IH. Qed.

Lemma str_app_nil_r s : s ++ "" = s.
Proof. induction s as [|a s IH]; [reflexivity|]. change (String a (s ++ "") = String a s). f_equal. exact IH. Qed.

(** [u] is a concatenation of flags *)
Definition flags_concat (flags : list string) (u : string) : Prop :=
  ∃ ks, Forall (λ k, k ∈ flags) ks ∧ u = String.concat "" ks.

Lemma scan_flags_partition flags fuel s :
  (String.length s < fuel)%nat →
  chars ((scan_flags fuel flags s).1 ++ (scan_flags fuel flags s).2) ≡ₚ chars s
  ∧ flags_concat flags (scan_flags fuel flags s).1.
Proof.
  revert s. induction fuel as [|f IH]; intros s Hlen; [lia|].
  destruct s as [|c s']; simpl.
  - split; [reflexivity|]. exists []. split; [constructor|reflexivity].
  - destruct (List.find _ flags) as [k|] eqn:F.
    + apply find_some in F as [Hin F]. apply andb_true_iff in F as [Hne Hpre].
      assert (Hpre' : String.prefix k (String c s') = true) by exact Hpre.
      pose proof (prefix_split _ _ Hpre') as Hs.
      set (d := str_drop (String.length k) (String c s')) in *.
      assert (Hd : (String.length d < f)%nat).
      { assert (String.length (String c s') = (String.length k + String.length d)%nat) by (rewrite Hs at 1; apply length_app).
        destruct k; [discriminate|]. simpl in *. lia. }
      destruct (IH d Hd) as [P [ks [Hks Eu]]].
      destruct (scan_flags f flags d) as [u m]. simpl in *. split.
      * change (c :: chars s') with (chars (String c s')). rewrite Hs.
        rewrite !chars_app. rewrite chars_app in P. rewrite <- app_assoc, P. reflexivity.
      * exists (k :: ks). split; [constructor; [apply elem_of_list_In, Hin|exact Hks]|].
        rewrite Eu. destruct ks; [|reflexivity]. apply str_app_nil_r.
    + assert (Hd : (String.length s' < f)%nat) by (simpl in Hlen; lia).
      destruct (IH s' Hd) as [P Q]. destruct (scan_flags f flags s') as [u m]. simpl in *. split; [|exact Q].
      rewrite chars_app in *. unfold chars at 2. simpl. fold (chars m).
      rewrite <- Permutation_middle. unfold chars at 3. simpl. constructor. exact P.
Qed.

Lemma split_format_partition spec sep :
  flags_regular spec = true →
  chars ((split_format spec "" sep).1 ++ (split_format spec "" sep).2) ≡ₚ chars spec
  ∧ flags_concat (known_flags ++ ["~"])%list (split_format spec "" sep).2
  ∧ (split_format spec "" sep).1 = remove_custom_flags spec.
Proof.
  intros Hreg. apply String.eqb_eq in Hreg.
  assert (E : split_format spec "" sep = (remove_custom_flags spec, extract_custom_flags spec)).
  { unfold split_format.
    assert (remove_custom_flags "" = "") as -> by (vm_compute; reflexivity).
    assert (extract_custom_flags "" = "") as -> by (vm_compute; reflexivity).
    destruct sep as [[|]|].
    - destruct (String.eqb_spec (remove_custom_flags spec) "") as [->|_];
        destruct (String.eqb_spec (extract_custom_flags spec) "") as [->|_]; reflexivity.
    - destruct (String.eqb_spec spec "") as [->|_]; [vm_compute|]; reflexivity.
    - destruct (String.eqb_spec spec "") as [->|_]; [vm_compute|]; reflexivity. }
  rewrite E. simpl. rewrite Hreg.
  destruct (scan_flags_partition (known_flags ++ ["~"])%list (S (String.length spec)) spec ltac:(lia)) as [P Q].
  unfold scan_remove, extract_custom_flags. split; [|split; [exact Q|reflexivity]].
  rewrite chars_app in *. rewrite <- P. apply Permutation_app_comm.
Qed.
(** outside that region the two helpers disagree and a character is lost *)
Lemma split_format_partition_refuted :
  ∃ spec, flags_regular spec = false ∧ split_format spec "" (Some true) = ("", "Lraw")
          ∧ String.length spec = 5%nat.
Proof. exists "Lrawx". repeat split; vm_compute; reflexivity. Qed.


(** ********** the tree builder on emitted token lists ********** *)
Section TokNat.
Local Open Scope nat_scope.
(** * The tree builder on the token lists the plain formats emit *)
Section Go.
Context (toks : list tok).
Notation go := (Eval.go_p EvalTables.paren_juxt_any_priority EvalTables.pow_exempt_any_priority op_priority toks).

Lemma go_S f i d p r :
  go (S f) i d p r = ltac:(let t := eval cbn [Eval.go_p] in (Eval.go_p EvalTables.paren_juxt_any_priority EvalTables.pow_exempt_any_priority op_priority toks (S f) i d p r) in exact t).
Proof. reflexivity. Qed.

Lemma bound_ok j t : nth_error toks j = Some t → Nat.leb (ntoks toks) j = false.
Proof. intros H. apply Nat.leb_gt. unfold ntoks. apply nth_error_Some. rewrite H. discriminate. Qed.

(** where a sub-call returns: on the last token of the operand, or on ENDMARKER *)
Definition ret (i : nat) (t' : tok) : nat := match t' with TEnd => i + 1 | _ => i end.
Definition stop (t' : tok) : Prop := t' = TOp "*" ∨ t' = TOp "/" ∨ t' = TEnd.
Definition mulop (o : string) : Prop := o = "*" ∨ o = "/".

Lemma go_num_after_pow f i d e t' :
  nth_error toks i = Some (TNum e) → nth_error toks (i + 1) = Some t' → stop t' →
  go (S (S f)) i d "**" None = Ok (Leaf (TNum e), ret i t').
Proof.
  intros H0 H1 Ht. rewrite go_S. unfold tok_at. rewrite H0. cbn -[Eval.go_p Nat.leb].
  rewrite (bound_ok _ _ H1). rewrite go_S. unfold tok_at. rewrite H1.
  destruct Ht as [-> | [-> | ->]]; cbn -[Eval.go_p Nat.leb].
  - replace (Init.Nat.pred (i + 1)) with i by lia. reflexivity.
  - replace (Init.Nat.pred (i + 1)) with i by lia. reflexivity.
  - reflexivity.
Qed.

(** an operand [name] after [*] or [/] *)
Lemma go_name_operand f i d o a t' :
  mulop o → nth_error toks i = Some (TName a) → nth_error toks (i + 1) = Some t' → stop t' →
  go (S (S f)) i d o None = Ok (Leaf (TName a), ret i t').
Proof.
  intros Ho H0 H1 Ht. rewrite go_S. unfold tok_at. rewrite H0. cbn -[Eval.go_p Nat.leb].
  rewrite (bound_ok _ _ H1). rewrite go_S. unfold tok_at. rewrite H1.
  destruct Ho as [-> | ->]; destruct Ht as [-> | [-> | ->]]; cbn -[Eval.go_p Nat.leb];
    try (replace (Init.Nat.pred (i + 1)) with i by lia; reflexivity); try rewrite H1; reflexivity.
Qed.

(** an operand [name ** number] after [*] or [/] *)
Lemma go_pow_operand f i d o a e t' :
  mulop o → nth_error toks i = Some (TName a) → nth_error toks (i + 1) = Some (TOp "**") →
  nth_error toks (i + 2) = Some (TNum e) → nth_error toks (i + 3) = Some t' → stop t' →
  go (S (S (S (S (S f))))) i d o None = Ok (Bin "**" (Leaf (TName a)) (Leaf (TNum e)), ret (i + 2) t').
Proof.
  intros Ho H0 H1 H2 H3 Ht. rewrite go_S. unfold tok_at. rewrite H0. cbn -[Eval.go_p Nat.leb].
  rewrite (bound_ok _ _ H1). rewrite go_S. unfold tok_at. rewrite H1.
  replace (i + 1 + 1) with (i + 2) by lia.
  assert (P : go (S (S (S f))) (i + 2) (d + 1) "**" None = Ok (Leaf (TNum e), ret (i + 2) t')).
  { apply go_num_after_pow; [exact H2 | replace (i + 2 + 1) with (i + 3) by lia; exact H3 | exact Ht]. }
  destruct Ho as [-> | ->]; cbn -[Eval.go_p Nat.leb]; rewrite P;
    destruct Ht as [-> | [-> | ->]]; unfold ret; cbn -[Eval.go_p Nat.leb];
    try (rewrite H2; replace (i + 2 + 1) with (i + 3) by lia; rewrite (bound_ok _ _ H3);
         rewrite go_S; unfold tok_at; rewrite H3; cbn -[Eval.go_p Nat.leb];
         replace (Init.Nat.pred (i + 3)) with (i + 2) by lia; reflexivity);
    replace (i + 2 + 1) with (i + 3) by lia; try rewrite H3; reflexivity.
Qed.

(** ** token segments *)
Definition holds (i : nat) (l : list tok) : Prop :=
  ∀ k, k < length l → nth_error toks (i + k) = nth_error l k.
Lemma holds_cons i t l : holds i (t :: l) → nth_error toks i = Some t ∧ holds (i + 1) l.
Proof.
  intros H. split.
  - specialize (H 0 ltac:(simpl; lia)). rewrite Nat.add_0_r in H. exact H.
  - intros k Hk. specialize (H (S k) ltac:(simpl; lia)). replace (i + 1 + k) with (i + S k) by lia. exact H.
Qed.

Inductive operand := ONum (s : string) | OName (s : string) | OPow (a e : string).
Definition op_toks (t : operand) : list tok :=
  match t with
  | ONum s => [TNum s] | OName a => [TName a] | OPow a e => [TName a; TOp "**"; TNum e]
  end.
Definition op_tree (t : operand) : tree :=
  match t with
  | ONum s => Leaf (TNum s) | OName a => Leaf (TName a)
  | OPow a e => Bin "**" (Leaf (TName a)) (Leaf (TNum e))
  end.
Definition pairs_toks (ps : list (string * operand)) : list tok :=
  flat_map (λ ot : string * operand, TOp ot.1 :: op_toks ot.2) ps.
Definition pairs_tree (ps : list (string * operand)) (acc : tree) : tree :=
  fold_left (λ a (ot : string * operand), Bin ot.1 a (op_tree ot.2)) ps acc.
Definition mul_pair (ot : string * operand) : Prop :=
  mulop ot.1 ∧ match ot.2 with ONum _ => False | _ => True end.

(** the main loop of the outermost call, standing on an operator (or on ENDMARKER) *)
Lemma go_loop ps : ∀ i acc f,
  Forall mul_pair ps →
  holds i (pairs_toks ps ++ [TEnd]) →
  length ps + 6 ≤ f →
  go f i 0 "<none>" (Some acc) = Ok (pairs_tree ps acc, i + length (pairs_toks ps)).
Proof.
  induction ps as [|[o t] ps IH]; intros i acc f Hok Hh Hf.
  - simpl in Hh. apply holds_cons in Hh as [H0 _].
    destruct f as [|f]; [simpl in Hf; lia|]. rewrite go_S. unfold tok_at. rewrite H0.
    cbn -[Eval.go_p Nat.leb]. rewrite Nat.add_0_r. reflexivity.
  - apply Forall_cons in Hok as [[Ho Ht] Hok]. simpl in Ho, Ht.
    assert (Hnext : ∃ t', stop t' ∧ ∃ rest, (pairs_toks ps ++ [TEnd])%list = t' :: rest).
    { destruct ps as [|[o' t2] ps'].
      - exists TEnd. split; [right; right; reflexivity|]. exists []. reflexivity.
      - apply Forall_cons in Hok as [[Ho' _] _]. simpl in Ho'. exists (TOp o'). split.
        + destruct Ho' as [-> | ->]; [left|right; left]; reflexivity.
        + eexists. reflexivity. }
    destruct Hnext as [t' [Hstop [rest Erest]]].
    simpl in Hf. destruct f as [|f]; [lia|].
    change (pairs_toks ((o, t) :: ps)) with (TOp o :: op_toks t ++ pairs_toks ps)%list in *.
    rewrite <- app_comm_cons, <- app_assoc in Hh.
    apply holds_cons in Hh as [H0 Hh].
    (* the operand, parsed by the recursive call *)
    assert (Hop : ∃ tl, nth_error toks (i + length (op_toks t)) = Some tl ∧ tl ≠ TEnd
                  ∧ nth_error toks (i + length (op_toks t) + 1) = Some t'
                  ∧ holds (i + 1 + length (op_toks t)) (pairs_toks ps ++ [TEnd])
                  ∧ go f (i + 1) 1 o None = Ok (op_tree t, ret (i + length (op_toks t)) t')).
    { destruct t as [s|a|a e]; [contradiction| |].
      - simpl op_toks in *. simpl app in Hh. apply holds_cons in Hh as [H1 Hh].
        pose proof Hh as Hh'. rewrite Erest in Hh'. apply holds_cons in Hh' as [H2 _].
        exists (TName a). simpl length. split; [exact H1|]. split; [discriminate|].
        split; [exact H2|]. split; [exact Hh|].
        replace f with (S (S (f - 2))) by lia. apply go_name_operand; assumption.
      - simpl op_toks in *. simpl app in Hh. apply holds_cons in Hh as [H1 Hh].
        apply holds_cons in Hh as [H2 Hh]. apply holds_cons in Hh as [H3 Hh].
        pose proof Hh as Hh'. rewrite Erest in Hh'. apply holds_cons in Hh' as [H4 _].
        exists (TNum e). simpl length.
        replace (i + 1 + 1 + 1) with (i + 3) in * by lia. replace (i + 1 + 1) with (i + 2) in * by lia.
        split; [exact H3|]. split; [discriminate|].
        replace (i + 3 + 1) with (i + 1 + 3) in * by lia.
        split; [exact H4|]. split; [exact Hh|].
        replace f with (S (S (S (S (S (f - 5)))))) by lia.
        replace (i + 3) with (i + 1 + 2) by lia. apply go_pow_operand; try assumption.
        + replace (i + 1 + 1) with (i + 2) by lia. exact H2.
        + replace (i + 1 + 2) with (i + 3) by lia. exact H3. }
    destruct Hop as [tl [Hl [Hne [Hn [Hrest Hcall]]]]].
    rewrite go_S. unfold tok_at. rewrite H0.
    destruct Ho as [-> | ->]; cbn -[Eval.go_p Nat.leb]; rewrite Hcall.
    all: destruct Hstop as [-> | [-> | ->]]; unfold ret.
    all: try (rewrite Hl; destruct tl; try congruence; rewrite (bound_ok _ _ Hn);
              rewrite (IH (i + length (op_toks t) + 1) _ f Hok
                         ltac:(replace (i + length (op_toks t) + 1) with (i + 1 + length (op_toks t)) by lia; exact Hrest)
                         ltac:(lia));
              f_equal; f_equal; simpl; rewrite app_length; lia).
    all: rewrite Hn; simpl.
    all: destruct ps as [|[o' t2] ps']; [|simpl in Erest; inversion Erest].
    all: simpl; f_equal; f_equal; rewrite app_length; simpl; lia.
Qed.

Lemma holds_self : holds 0 toks.
Proof. intros k _. reflexivity. Qed.
Lemma holds_app i a b : holds i (a ++ b) → holds i a ∧ holds (i + length a) b.
Proof.
  intros H. split; intros k Hk.
  - rewrite (H k) by (rewrite app_length; lia). apply nth_error_app1. exact Hk.
  - replace (i + length a + k) with (i + (length a + k)) by lia.
    rewrite (H (length a + k)) by (rewrite app_length; lia).
    rewrite nth_error_app2 by lia. f_equal. lia.
Qed.

Lemma go_first first ps f :
  toks = (op_toks first ++ pairs_toks ps ++ [TEnd])%list → Forall mul_pair ps →
  length ps + 12 ≤ f →
  go f 0 0 "<none>" None = Ok (pairs_tree ps (op_tree first), length toks - 1).
Proof.
  intros Et Hok Hf. pose proof holds_self as Hh. rewrite Et in Hh at 1.
  assert (Hnext : ∃ t', stop t' ∧ ∃ rest, (pairs_toks ps ++ [TEnd])%list = t' :: rest).
  { destruct ps as [|[o' t2] ps'].
    - exists TEnd. split; [right; right; reflexivity|]. exists []. reflexivity.
    - apply Forall_cons in Hok as [[Ho' _] _]. simpl in Ho'. exists (TOp o'). split.
      + destruct Ho' as [-> | ->]; [left|right; left]; reflexivity.
      + eexists. reflexivity. }
  destruct Hnext as [t' [Hstop [rest Erest]]].
  assert (Hlen : length toks - 1 = length (op_toks first) + length (pairs_toks ps)).
  { rewrite Et, !app_length. simpl. lia. }
  rewrite Hlen. destruct f as [|f]; [lia|].
  destruct first as [s|a|a e]; simpl op_toks in *; simpl app in Hh; simpl length.
  - apply holds_cons in Hh as [H0 Hh]. pose proof Hh as Hh'. rewrite Erest in Hh'. apply holds_cons in Hh' as [H1 _].
    change (0 + 1) with 1 in *.
    rewrite go_S. unfold tok_at. rewrite H0. cbn -[Eval.go_p Nat.leb]. rewrite (bound_ok _ _ H1).
    rewrite (go_loop ps 1 _ f Hok Hh ltac:(lia)). reflexivity.
  - apply holds_cons in Hh as [H0 Hh]. pose proof Hh as Hh'. rewrite Erest in Hh'. apply holds_cons in Hh' as [H1 _].
    change (0 + 1) with 1 in *.
    rewrite go_S. unfold tok_at. rewrite H0. cbn -[Eval.go_p Nat.leb]. rewrite (bound_ok _ _ H1).
    rewrite (go_loop ps 1 _ f Hok Hh ltac:(lia)). reflexivity.
  - apply holds_cons in Hh as [H0 Hh]. apply holds_cons in Hh as [H1 Hh]. apply holds_cons in Hh as [H2 Hh].
    pose proof Hh as Hh'. rewrite Erest in Hh'. apply holds_cons in Hh' as [H3 _].
    change (0 + 1 + 1 + 1) with 3 in *. change (0 + 1 + 1) with 2 in *. change (0 + 1) with 1 in *.
    rewrite go_S. unfold tok_at. rewrite H0. cbn -[Eval.go_p Nat.leb]. rewrite (bound_ok _ _ H1).
    destruct f as [|f]; [lia|]. rewrite go_S. unfold tok_at. rewrite H1. cbn -[Eval.go_p Nat.leb].
    replace f with (S (S (f - 2))) at 1 by lia.
    rewrite (go_num_after_pow (f - 2) 2 1 e t' H2 H3 Hstop).
    destruct Hstop as [-> | [-> | ->]]; unfold ret.
    + rewrite H2. change (2 + 1) with 3. rewrite (bound_ok _ _ H3). rewrite (go_loop ps _ _ f Hok Hh ltac:(lia)). reflexivity.
    + rewrite H2. change (2 + 1) with 3. rewrite (bound_ok _ _ H3). rewrite (go_loop ps _ _ f Hok Hh ltac:(lia)). reflexivity.
    + change (2 + 1) with 3. rewrite H3. cbn. destruct ps as [|[o' t2] ps']; [|simpl in Erest; inversion Erest].
      reflexivity.
Qed.
End Go.

Lemma build_plain first ps toks :
  toks = (op_toks first ++ pairs_toks ps ++ [TEnd])%list → Forall mul_pair ps →
  build op_priority toks = Ok (pairs_tree ps (op_tree first)).
Proof.
  intros Et Hok. unfold build, build_p.
  rewrite (go_first toks first ps (build_fuel toks) Et Hok); [reflexivity|].
  unfold build_fuel. rewrite Et, !app_length. unfold pairs_toks.
  assert (length ps ≤ length (flat_map (λ ot : string * operand, TOp ot.1 :: op_toks ot.2) ps)).
  { clear. induction ps as [|x ps IH]; simpl; [lia|]. rewrite app_length. lia. }
  simpl. lia.
Qed.

End TokNat.

(** ********** digits and integer powers ********** *)
(** * decimal digits are read back *)
Lemma digit_of_char d : (0 <= d <= 9)%Z → digit_of (digit_char d) = Some d.
Proof.
  intros H. assert (d = 0 ∨ d = 1 ∨ d = 2 ∨ d = 3 ∨ d = 4 ∨ d = 5 ∨ d = 6 ∨ d = 7 ∨ d = 8 ∨ d = 9)%Z by lia.
  repeat (destruct H0 as [-> | H0]; [reflexivity|]). subst. reflexivity.
Qed.
Lemma read_digits_go fuel : ∀ n rest a k,
  (0 <= n < 10 ^ Z.of_nat fuel)%Z → (1 <= fuel)%nat →
  ∃ d, (1 <= d)%Z ∧ read_digits (digits_go fuel n rest) a k = read_digits rest (a * 10 ^ d + n)%Z (k + d)%Z.
Proof.
  induction fuel as [|f IH]; intros n rest a k Hn Hf.
  - lia.
  - cbn [digits_go]. destruct (n <? 10)%Z eqn:E.
    + exists 1%Z. split; [lia|]. cbn [read_digits]. rewrite digit_of_char by (pose proof (Z.mod_pos_bound n 10); lia).
      rewrite Z.mod_small by lia. reflexivity.
    + assert (Hq : (0 <= n / 10 < 10 ^ Z.of_nat f)%Z).
      { split; [apply Z.div_pos; lia|]. apply Z.div_lt_upper_bound; [lia|].
        replace (Z.of_nat (S f)) with (Z.succ (Z.of_nat f)) in Hn by lia. rewrite Z.pow_succ_r in Hn by lia. lia. }
      assert (Hf' : (1 <= f)%nat).
      { destruct f; [|lia]. simpl in Hq. assert (1 <= n / 10)%Z by (apply Z.div_le_lower_bound; lia). lia. }
      destruct (IH (n / 10)%Z (String (digit_char (n mod 10)) rest) a k Hq Hf') as [d [Hd E']].
      exists (d + 1)%Z. split; [lia|]. rewrite E'. cbn [read_digits].
      rewrite digit_of_char by (pose proof (Z.mod_pos_bound n 10); lia).
      f_equal; [|lia]. rewrite Z.pow_add_r by lia. pose proof (Z.div_mod n 10 ltac:(lia)). lia.
Qed.
Lemma show_pos_fuel n : (0 <= n)%Z → (0 <= n < 10 ^ Z.of_nat (S (Z.to_nat (Z.log2 n))))%Z.
Proof.
  intros H. split; [exact H|]. destruct (Z.eq_dec n 0) as [->|Hne]; [reflexivity|].
  pose proof (Z.log2_spec n ltac:(lia)) as [_ Hl]. pose proof (Z.log2_nonneg n).
  replace (Z.of_nat (S (Z.to_nat (Z.log2 n)))) with (Z.succ (Z.log2 n)) by lia.
  eapply Z.lt_le_trans; [exact Hl|]. apply Z.pow_le_mono_l. lia.
Qed.
Lemma parse_number_show_pos n : (0 <= n)%Z → parse_number (show_pos n) = Some (Q2Qc (inject_Z n)).
Proof.
  intros H. unfold parse_number, show_pos.
  destruct (read_digits_go _ n "" 0%Z 0%Z (show_pos_fuel n H) ltac:(lia)) as [d [Hd E]].
  rewrite E. cbn [read_digits]. replace (0 * 10 ^ d + n)%Z with n by lia.
  replace (0 + d + 0 =? 0)%Z with false by lia.
  f_equal. replace (0 - 0)%Z with 0%Z by lia. unfold pow10. ring.
Qed.

(** * integer exponents in the ParserHelper algebra *)
Lemma Q2Qc_int_this z : this (Q2Qc (inject_Z z)) = inject_Z z.
Proof. change (this (Q2Qc ?q)) with (Qred q). apply Qred_identity. unfold inject_Z. simpl. apply Z.gcd_1_r. Qed.
Lemma is_int_inject z : is_int (Q2Qc (inject_Z z)) = true.
Proof. unfold is_int. rewrite Q2Qc_int_this. reflexivity. Qed.
Lemma num_pow_one_int z : (0 <= z)%Z → num_pow 1 (Q2Qc (inject_Z z)) = Ok (1%Qc, false).
Proof.
  intros H. unfold num_pow. rewrite is_int_inject, Q2Qc_int_this. simpl Qnum.
  destruct z as [|p|p]; simpl; [reflexivity| |lia]. rewrite Qcpower_1. reflexivity.
Qed.


(** ********** evaluation of emitted trees ********** *)
Notation eval_t := (evaluate ph_leaf pv_binop pv_unop).
Definition den1 (s : string) : uc := {[ s := 1%Qc ]}.

(** layout terms with a non-negative integer exponent, and the operand each one is printed as *)
Inductive good_term : L → Prop :=
| GSym s : good_term (Sym s)
| GPow s n : (0 <= n)%Z → good_term (Pow (Sym s) (XInt n)).
Definition operand_of (qk : quirks) (tm : L) : operand :=
  match tm with
  | Sym s => OName s
  | Pow (Sym s) x => OPow s (fmt_n_str qk x)
  | _ => ONum "1"
  end.
Lemma term_tokens_operand qk tm : good_term tm → term_tokens qk tm = op_toks (operand_of qk tm).
Proof. destruct 1; reflexivity. Qed.
Lemma operand_not_num qk tm : good_term tm → match operand_of qk tm with ONum _ => False | _ => True end.
Proof. destruct 1; exact I. Qed.

Lemma eval_operand qk tm :
  good_term tm → eval_t (op_tree (operand_of qk tm)) = Ok (PPh (PH 1 (denoteL den1 tm)) false).
Proof.
  destruct 1 as [s|s n Hn]; [reflexivity|].
  simpl operand_of. unfold fmt_n_str, fmt_n, show_Z.
  replace (n <? 0)%Z with false by lia. simpl default. simpl op_tree.
  cbn [evaluate]. change (pv_binop "**") with (Some pv_pow).
  cbn [ph_leaf]. rewrite parse_number_show_pos by exact Hn. cbn [rbind pv_pow ph_of_word ph_scale ph_d].
  rewrite num_pow_one_int by exact Hn. reflexivity.
Qed.

Lemma eval_mul_pairs qk tms : ∀ acc A,
  Forall good_term tms → eval_t acc = Ok (PPh (PH 1 A) false) →
  eval_t (pairs_tree (map (λ tm, ("*", operand_of qk tm)) tms) acc)
  = Ok (PPh (PH 1 (fold_left (λ A tm, uc_mul A (denoteL den1 tm)) tms A)) false).
Proof.
  induction tms as [|tm tms IH]; intros acc A Hg Ha; [exact Ha|].
  apply Forall_cons in Hg as [Hg Hgs]. cbn [map pairs_tree fold_left fst snd].
  apply (IH _ _ Hgs). cbn [evaluate]. change (pv_binop "*") with (Some pv_mul).
  rewrite Ha, (eval_operand qk tm Hg). cbn [rbind pv_mul ph_mul ph_scale ph_d orb].
  replace (1 * 1)%Qc with 1%Qc by ring. reflexivity.
Qed.
Lemma eval_div_pairs qk tms : ∀ acc A,
  Forall good_term tms → eval_t acc = Ok (PPh (PH 1 A) false) →
  eval_t (pairs_tree (map (λ tm, ("/", operand_of qk tm)) tms) acc)
  = Ok (PPh (PH 1 (fold_left (λ A tm, uc_div A (denoteL den1 tm)) tms A)) false).
Proof.
  induction tms as [|tm tms IH]; intros acc A Hg Ha; [exact Ha|].
  apply Forall_cons in Hg as [Hg Hgs]. cbn [map pairs_tree fold_left fst snd].
  apply (IH _ _ Hgs). cbn [evaluate]. change (pv_binop "/") with (Some pv_div).
  rewrite Ha, (eval_operand qk tm Hg). cbn [rbind pv_div].
  unfold ph_div. cbn [ph_scale ph_d]. change (qz 1) with false. cbv iota.
  replace (1 / 1)%Qc with 1%Qc by (apply Qc_is_canon; reflexivity). reflexivity.
Qed.
(** [1 / t]: the number 1 divided by a ParserHelper *)
Lemma eval_one_over qk tm :
  good_term tm →
  eval_t (Bin "/" (Leaf (TNum "1")) (op_tree (operand_of qk tm)))
  = Ok (PPh (PH 1 (uc_pow (denoteL den1 tm) (-1))) false).
Proof.
  intros Hg. cbn [evaluate]. change (pv_binop "/") with (Some pv_div).
  rewrite (eval_operand qk tm Hg).
  change (ph_leaf (TNum "1")) with (match parse_number (show_pos 1) with Some q => Ok (PNum q false) | None => Err ESyntax end).
  rewrite parse_number_show_pos by lia. cbn [rbind pv_div ph_scale ph_d]. change (qz 1) with false. cbv iota.
  replace (Q2Qc (inject_Z 1) / 1)%Qc with 1%Qc by (apply Qc_is_canon; reflexivity). reflexivity.
Qed.

(** exponent sums of the left-nested folds *)
Lemma exp_fold_mul k tms : ∀ A,
  exp_of (fold_left (λ A tm, uc_mul A (denoteL den1 tm)) tms A) k
  = (exp_of A k + exp_of (dprod den1 tms) k)%Qc.
Proof.
  induction tms as [|tm tms IH]; intros A; simpl; [rewrite exp_of_empty; ring|].
  rewrite IH, !exp_of_mul. ring.
Qed.
Lemma exp_fold_div k tms : ∀ A,
  exp_of (fold_left (λ A tm, uc_div A (denoteL den1 tm)) tms A) k
  = (exp_of A k - exp_of (dprod den1 tms) k)%Qc.
Proof.
  induction tms as [|tm tms IH]; intros A; simpl; [rewrite exp_of_empty; ring|].
  rewrite IH, exp_of_div, exp_of_mul. ring.
Qed.
Lemma wf_fold_mul tms : ∀ A, wf A → wf (fold_left (λ A tm, uc_mul A (denoteL den1 tm)) tms A).
Proof. induction tms as [|tm tms IH]; intros A HA; simpl; [exact HA|]. apply IH, wf_mul, HA. Qed.
Lemma wf_fold_div' tms : ∀ A, wf A → wf (fold_left (λ A tm, uc_div A (denoteL den1 tm)) tms A).
Proof. induction tms as [|tm tms IH]; intros A HA; simpl; [exact HA|]. apply IH, wf_div, HA. Qed.

(** tokens of a product / of the denominators *)
Lemma prod_tokens_pairs qk tm tms :
  Forall good_term (tm :: tms) →
  prod_tokens qk (tm :: tms)
  = (op_toks (operand_of qk tm) ++ pairs_toks (map (λ t, ("*", operand_of qk t)) tms))%list.
Proof.
  revert tm. induction tms as [|t2 tms IH]; intros tm Hg; apply Forall_cons in Hg as [Hg Hgs].
  - simpl. rewrite app_nil_r. apply term_tokens_operand, Hg.
  - change (prod_tokens qk (tm :: t2 :: tms)) with (term_tokens qk tm ++ TOp "*" :: prod_tokens qk (t2 :: tms))%list.
    rewrite (IH t2 Hgs), (term_tokens_operand qk tm Hg). reflexivity.
Qed.
Lemma div_tokens_pairs qk tms :
  Forall good_term tms →
  flat_map (λ d, TOp "/" :: term_tokens qk d) tms = pairs_toks (map (λ t, ("/", operand_of qk t)) tms).
Proof.
  induction 1 as [|tm tms Hg _ IH]; [reflexivity|].
  simpl. rewrite IH, (term_tokens_operand qk tm Hg). reflexivity.
Qed.
Lemma pairs_toks_app a b : pairs_toks (a ++ b) = (pairs_toks a ++ pairs_toks b)%list.
Proof. unfold pairs_toks. apply flat_map_app. Qed.
Lemma pairs_tree_app a b acc : pairs_tree (a ++ b) acc = pairs_tree b (pairs_tree a acc).
Proof. unfold pairs_tree. apply fold_left_app. Qed.
Lemma mul_pairs_ok qk o tms : mulop o → Forall good_term tms → Forall mul_pair (map (λ t, (o, operand_of qk t)) tms).
Proof.
  intros Ho H. rewrite Forall_fmap. eapply Forall_impl; [exact H|]. intros tm Hg.
  split; [exact Ho|apply operand_not_num, Hg].
Qed.

(** the terms [formatter] builds from integer exponents are good *)
Lemma good_pos_term (t : string * expo) z : t.2 = XInt z → good_term (pos_term true t).
Proof.
  intros E. unfold pos_term. destruct (bool_decide _); [constructor|]. rewrite E. simpl. constructor. lia.
Qed.
Lemma good_neg_term (t : string * expo) z : t.2 = XInt z → good_term (neg_term true t).
Proof.
  intros E. unfold neg_term. destruct (_ && _); [constructor|]. rewrite E. simpl. constructor. lia.
Qed.


(** ********** token-level round trip ********** *)
Lemma ph_from_tokens_of first ps toks v :
  toks = (op_toks first ++ pairs_toks ps ++ [TEnd])%list → Forall mul_pair ps →
  eval_t (pairs_tree ps (op_tree first)) = Ok (PPh v false) →
  ph_from_tokens toks = Ok (v, false).
Proof.
  intros Et Hok He. unfold ph_from_tokens. rewrite (build_plain first ps toks Et Hok). simpl.
  rewrite He. reflexivity.
Qed.

Lemma pairs_tree_cons o t ps acc : pairs_tree ((o, t) :: ps) acc = pairs_tree ps (Bin o acc (op_tree t)).
Proof. reflexivity. Qed.

Lemma sume_fst den k (a b : list dtriple) : map fst a = map fst b → sume den k a = sume den k b.
Proof.
  revert b. induction a as [|x a IH]; intros [|y b] H; try discriminate; [reflexivity|].
  simpl in H. inversion H. simpl. rewrite (IH b) by assumption. congruence.
Qed.

(** for any display function (long names: the identity; '~': the symbols), provided the display
    strings are pairwise distinct: the tokens evaluate to the container over the display strings *)
Theorem plain_roundtrip_tokens_gen qk r short sf (its : items) (disp : string → string) l :
  items_wf its → its ≠ [] →
  Forall (λ nx : string * expo, ∃ z, nx.2 = XInt z) its →
  (∀ nx, nx ∈ its → display r short nx.1 = Ok (disp nx.1)) →
  NoDup (map (λ nx : string * expo, disp nx.1) its) →
  layout qk r true false short sf its = Ok l →
  ph_from_tokens (layout_tokens qk l ++ [TEnd])
  = Ok (PH 1 (uc_of (map (λ nx : string * expo, (disp nx.1, nx.2)) its)), false).
Proof.
  intros Hwf Hne Hint Hdisp Hnd Hl.
  set (its' := map (λ nx : string * expo, (disp nx.1, nx.2)) its).
  assert (Hwf' : items_wf its').
  { split.
    - unfold its'. rewrite <- list_fmap_compose. exact Hnd.
    - unfold its'. rewrite Forall_fmap. exact (proj2 Hwf). }
  destruct (layout_inv qk r true false short sf its disp l Hne Hdisp Hl)
    as [pos [neg [-> [Hsub [Hperm [Hp [Hn [_ Hsum]]]]]]]].
  set (tr := map (λ nx : string * expo, (disp nx.1, nx.2, nx.1)) its) in *.
  (* every exponent is an int *)
  assert (Hz : Forall (λ t : dtriple, ∃ z, (extract2 t).2 = XInt z) (pos ++ neg)%list).
  { eapply Forall_impl; [exact Hsub|]. intros t Ht. cbv beta in Ht.
    apply (elem_of_list_fmap_2 (λ nx : string * expo, (disp nx.1, nx.2, nx.1))) in Ht as [nx [-> Hnx]].
    rewrite Forall_forall in Hint. exact (Hint nx Hnx). }
  apply Forall_app in Hz as [Hzp Hzn].
  assert (Gp : Forall good_term (map (pos_term true) (map extract2 pos))).
  { rewrite !Forall_fmap. eapply Forall_impl; [exact Hzp|]. intros t [z Hz]. exact (good_pos_term _ z Hz). }
  assert (Gn : Forall good_term (map (neg_term true) (map extract2 neg))).
  { rewrite !Forall_fmap. eapply Forall_impl; [exact Hzn|]. intros t [z Hz]. exact (good_neg_term _ z Hz). }
  assert (Hwfd : ∀ t : dtriple, wf (den1 t.1.1)) by (intros; apply wf_singleton; discriminate).
  (* the container the tokens evaluate to, characterised by its exponents *)
  assert (Hfin : ∀ C, wf C → (∀ k, exp_of C k = (sume den1 k pos + sume den1 k neg)%Qc) → C = uc_of its').
  { intros C WC EC. apply uc_ext; [exact WC|apply wf_uc_of, Hwf'|]. intros k. rewrite EC, Hsum.
    rewrite <- (sume_tr den1 id k its'); [|apply Hwf'|reflexivity].
    apply sume_fst. unfold tr, its'. rewrite <- !list_fmap_compose. reflexivity. }
  assert (Hlen : length (pos ++ neg) = length its).
  { rewrite Hperm. subst tr. apply map_length. }
  set (P := map (pos_term true) (map extract2 pos)) in *.
  set (N := map (neg_term true) (map extract2 neg)) in *.
  unfold layout_terms, assemble. fold P N. cbn [negb].
  pose proof (exp_dprod_pos den1) as EP. pose proof (exp_dprod_neg den1) as EN.
  destruct neg as [|n1 nrest].
  - (* no denominator *)
    destruct pos as [|p1 prest]; [destruct its; [congruence|discriminate Hlen]|].
    subst N. cbn [map]. cbn [map] in P. subst P.
    set (tp := pos_term true (extract2 p1)) in *. set (P' := map (pos_term true) (map extract2 prest)) in *.
    apply Forall_cons in Gp as [Gp1 Gps].
    cbn [layout_tokens]. rewrite (prod_tokens_pairs qk tp P' ltac:(constructor; assumption)).
    rewrite <- app_assoc.
    eapply (ph_from_tokens_of (operand_of qk tp) _ _ _ eq_refl (mul_pairs_ok qk "*" P' ltac:(left; reflexivity) Gps)).
    rewrite (eval_mul_pairs qk P' _ _ Gps (eval_operand qk tp Gp1)). f_equal. f_equal. f_equal.
    apply Hfin.
    + apply wf_fold_mul. apply wf_pos_term, Hwfd.
    + intros k. rewrite exp_fold_mul. specialize (EP k true (p1 :: prest) Hp). cbn [map dprod fold_right] in EP.
      fold tp P' in EP. rewrite exp_of_mul in EP. unfold dprod. rewrite EP. simpl. ring.
  - destruct pos as [|p1 prest].
    + (* 1 / d1 / d2 ... *)
      subst P. cbn [map] in N. subst N.
      set (tn := neg_term true (extract2 n1)) in *. set (N' := map (neg_term true) (map extract2 nrest)) in *.
      apply Forall_cons in Gn as [Gn1 Gns].
      cbn [map layout_tokens term_tokens]. rewrite (div_tokens_pairs qk (tn :: N') ltac:(constructor; assumption)).
      rewrite <- app_assoc.
      eapply (ph_from_tokens_of (ONum "1") _ _ _ eq_refl (mul_pairs_ok qk "/" (tn :: N') ltac:(right; reflexivity) ltac:(constructor; assumption))).
      cbn [map]. rewrite pairs_tree_cons. cbn [op_tree].
      rewrite (eval_div_pairs qk N' _ _ Gns (eval_one_over qk tn Gn1)). f_equal. f_equal. f_equal.
      apply Hfin.
      * apply wf_fold_div', wf_pow.
      * intros k. rewrite exp_fold_div, exp_of_pow. specialize (EN k (n1 :: nrest) Hn). cbn [map dprod fold_right] in EN.
        fold tn N' in EN. rewrite exp_of_mul in EN. unfold dprod.
        replace (sume den1 k []) with 0%Qc by reflexivity.
        replace (sume den1 k (n1 :: nrest)) with (- - sume den1 k (n1 :: nrest))%Qc by ring.
        rewrite <- EN. ring.
    + (* p1 * ... / d1 / ... *)
      cbn [map] in P, N. subst P N.
      set (tp := pos_term true (extract2 p1)) in *. set (P' := map (pos_term true) (map extract2 prest)) in *.
      set (tn := neg_term true (extract2 n1)) in *. set (N' := map (neg_term true) (map extract2 nrest)) in *.
      apply Forall_cons in Gp as [Gp1 Gps].
      cbn [layout_tokens]. rewrite (prod_tokens_pairs qk tp P' ltac:(constructor; assumption)).
      rewrite (div_tokens_pairs qk (tn :: N') Gn). rewrite <- !app_assoc. rewrite (app_assoc (pairs_toks _)), <- pairs_toks_app.
      eapply (ph_from_tokens_of (operand_of qk tp) _ _ _ eq_refl).
      { apply Forall_app. split; [apply mul_pairs_ok; [left; reflexivity|exact Gps] | apply mul_pairs_ok; [right; reflexivity|exact Gn]]. }
      rewrite pairs_tree_app.
      rewrite (eval_div_pairs qk (tn :: N') _ _ Gn (eval_mul_pairs qk P' _ _ Gps (eval_operand qk tp Gp1))).
      f_equal. f_equal. f_equal. apply Hfin.
      * apply wf_fold_div', wf_fold_mul, wf_pos_term, Hwfd.
      * intros k. rewrite exp_fold_div, exp_fold_mul.
        specialize (EP k true (p1 :: prest) Hp). specialize (EN k (n1 :: nrest) Hn).
        cbn [map] in EP, EN. fold tp P' in EP. fold tn N' in EN.
        rewrite EN. cbn [dprod fold_right] in EP. rewrite exp_of_mul in EP. unfold dprod. rewrite <- EP. ring.
Qed.

Theorem plain_roundtrip_tokens qk r sf (its : items) l :
  items_wf its → its ≠ [] →
  Forall (λ nx : string * expo, ∃ z, nx.2 = XInt z) its →
  layout qk r true false false sf its = Ok l →
  ph_from_tokens (layout_tokens qk l ++ [TEnd]) = Ok (PH 1 (uc_of its), false).
Proof.
  intros Hwf Hne Hint Hl.
  rewrite (plain_roundtrip_tokens_gen qk r false sf its id l Hwf Hne Hint (λ nx _, eq_refl)); [| |exact Hl].
  - assert (E : map (λ nx : string * expo, (id nx.1, nx.2)) its = its).
    { unfold id. clear. induction its as [|[n x] its IH]; [reflexivity|]. simpl. f_equal. exact IH. }
    rewrite E. reflexivity.
  - unfold id. exact (proj1 Hwf).
Qed.


(** ********** name resolution after parsing: the guarded round trips ********** *)
(** * resolving the parsed names: [resolve_names] on the container over display strings *)
Section Resolve.
  Context (r : reg).
  Definition nm (d : string) : string := match get_name r d with Ok n => n | Err _ => "" end.
  Fixpoint sumnm (k : string) (l : list (string * Qc)) : Qc :=
    match l with [] => 0%Qc | dv :: l' => ((if decide (nm dv.1 = k) then dv.2 else 0) + sumnm k l')%Qc end.
  Lemma sumnm_perm k a b : a ≡ₚ b → sumnm k a = sumnm k b.
  Proof. induction 1; simpl; try congruence; ring. Qed.

  Definition name_ok (dv : string * Qc) : Prop :=
    ∃ n, get_name r dv.1 = Ok n ∧ n ≠ "" ∧ (∀ df, r_units r !! n = Some df → u_multiplicative df = true).

  Lemma foldM_resolve many l : ∀ acc,
    Forall name_ok l →
    foldM (λ acc (kv : string * Qc),
      let '(name, v) := kv in
      cname ←r get_name r name;
      if String.eqb cname "" then Ok acc else
      let cname' := if many || negb (bool_decide (v = 1%Qc))
                    then match r_units r !! cname with
                         | Some df => if u_multiplicative df then cname else "delta_" ++ cname
                         | None => cname end
                    else cname in
      Ok (uc_add acc cname' v)) l acc
    = Ok (fold_left (λ a (dv : string * Qc), uc_add a (nm dv.1) dv.2) l acc).
  Proof.
    induction l as [|[d v] l IH]; intros acc H; [reflexivity|].
    apply Forall_cons in H as [[n [Hn [Hne Hm]]] H]. simpl in Hn.
    cbn [foldM]. rewrite Hn. cbn [rbind].
    destruct (String.eqb_spec n "") as [->|_]; [congruence|].
    assert (E : (if many || negb (bool_decide (v = 1%Qc))
                 then match r_units r !! n with
                      | Some df => if u_multiplicative df then n else "delta_" ++ n
                      | None => n end else n) = n).
    { destruct (many || negb (bool_decide (v = 1%Qc))); [|reflexivity].
      destruct (r_units r !! n) as [df|] eqn:Eu; [|reflexivity]. rewrite (Hm df eq_refl). reflexivity. }
    rewrite E. cbn [rbind]. rewrite (IH _ H). cbn [fold_left fst snd].
    assert (nm d = n) as -> by (unfold nm; rewrite Hn; reflexivity). reflexivity.
  Qed.
  Lemma exp_fold_add k l : ∀ acc,
    exp_of (fold_left (λ a (dv : string * Qc), uc_add a (nm dv.1) dv.2) l acc) k = (exp_of acc k + sumnm k l)%Qc.
  Proof.
    induction l as [|dv l IH]; intros acc; simpl; [ring|].
    rewrite IH, exp_of_add. destruct (decide (nm dv.1 = k)) as [->|]; ring.
  Qed.
  Lemma wf_fold_add l : ∀ acc, wf acc → wf (fold_left (λ a (dv : string * Qc), uc_add a (nm dv.1) dv.2) l acc).
  Proof. induction l as [|dv l IH]; intros acc H; simpl; [exact H|]. apply IH, wf_add, H. Qed.
End Resolve.

Lemma sumnm_items r (disp : string → string) k (its : items) :
  NoDup (map fst its) →
  (∀ nx, nx ∈ its → get_name r (disp nx.1) = Ok nx.1) →
  sumnm r k (map (λ nx : string * expo, (disp nx.1, xval nx.2)) its) = exp_of (uc_of its) k.
Proof.
  induction its as [|nx its IH]; intros Hnd Hg; [simpl; rewrite exp_of_empty; reflexivity|].
  simpl map in Hnd. apply NoDup_cons in Hnd as [Hnotin Hnd].
  cbn [map sumnm fst snd]. rewrite IH; [|exact Hnd|intros y Hy; apply Hg; right; exact Hy].
  rewrite uc_of_cons, exp_of_insert. unfold nm. rewrite (Hg nx ltac:(left)).
  destruct (decide (nx.1 = k)) as [<-|Hne]; [|ring].
  rewrite (uc_of_notin its nx.1 Hnotin). ring.
Qed.

Lemma resolve_names_ok r (disp : string → string) (its : items) :
  items_wf its →
  NoDup (map (λ nx : string * expo, disp nx.1) its) →
  (∀ nx, nx ∈ its → get_name r (disp nx.1) = Ok nx.1 ∧ nx.1 ≠ ""
                    ∧ (∀ df, r_units r !! nx.1 = Some df → u_multiplicative df = true)) →
  resolve_names r (uc_of (map (λ nx : string * expo, (disp nx.1, nx.2)) its)) = Ok (uc_of its).
Proof.
  intros Hwf Hnd Hg. unfold resolve_names.
  set (p := map (λ nx : string * expo, (disp nx.1, xval nx.2)) its).
  assert (Ep : uc_of (map (λ nx : string * expo, (disp nx.1, nx.2)) its) = list_to_map p).
  { unfold uc_of, p. rewrite <- list_fmap_compose. reflexivity. }
  rewrite Ep.
  assert (Hperm : map_to_list (list_to_map p : uc) ≡ₚ p).
  { apply map_to_list_to_map. unfold p. rewrite <- list_fmap_compose. exact Hnd. }
  rewrite foldM_resolve.
  - f_equal. apply uc_ext; [apply wf_fold_add, wf_empty | apply wf_uc_of, Hwf|].
    intros k. rewrite exp_fold_add, exp_of_empty, (sumnm_perm r k _ _ Hperm).
    unfold p. rewrite (sumnm_items r disp k its (proj1 Hwf)); [ring|]. intros nx Hnx. apply (Hg nx Hnx).
  - rewrite Hperm. unfold p. rewrite Forall_fmap. apply Forall_forall. intros nx Hnx.
    destruct (Hg nx Hnx) as [H1 [H2 H3]]. exists nx.1. simpl. auto.
Qed.

(** the guard of the '~' round trip: every unit's symbol is read back as that unit (computed by
    the name-resolution model of C08), no two units share a symbol, all are multiplicative *)
Definition short_guard (r : reg) (its : items) : Prop :=
  ∃ disp : string → string,
    (∀ nx, nx ∈ its → display r true nx.1 = Ok (disp nx.1)
                      ∧ get_name r (disp nx.1) = Ok nx.1 ∧ nx.1 ≠ ""
                      ∧ (∀ df, r_units r !! nx.1 = Some df → u_multiplicative df = true))
    ∧ NoDup (map (λ nx : string * expo, disp nx.1) its).

Theorem short_roundtrip_guarded qk r sf (its : items) l :
  items_wf its → its ≠ [] →
  Forall (λ nx : string * expo, ∃ z, nx.2 = XInt z) its →
  short_guard r its →
  layout qk r true false true sf its = Ok l →
  parse_units_tokens r (layout_tokens qk l ++ [TEnd]) = Ok (uc_of its).
Proof.
  intros Hwf Hne Hint [disp [Hg Hnd]] Hl. unfold parse_units_tokens.
  rewrite (plain_roundtrip_tokens_gen qk r true sf its disp l Hwf Hne Hint (λ nx Hnx, proj1 (Hg nx Hnx)) Hnd Hl).
  cbn [rbind ph_scale ph_d negb andb].
  apply (resolve_names_ok r disp its Hwf Hnd). intros nx Hnx. destruct (Hg nx Hnx) as [_ H]. exact H.
Qed.
(** and for long names: every name must resolve to itself *)
Theorem long_roundtrip_guarded qk r sf (its : items) l :
  items_wf its → its ≠ [] →
  Forall (λ nx : string * expo, ∃ z, nx.2 = XInt z) its →
  (∀ nx, nx ∈ its → get_name r nx.1 = Ok nx.1 ∧ nx.1 ≠ ""
                    ∧ (∀ df, r_units r !! nx.1 = Some df → u_multiplicative df = true)) →
  layout qk r true false false sf its = Ok l →
  parse_units_tokens r (layout_tokens qk l ++ [TEnd]) = Ok (uc_of its).
Proof.
  intros Hwf Hne Hint Hg Hl. unfold parse_units_tokens.
  rewrite (plain_roundtrip_tokens qk r sf its l Hwf Hne Hint Hl).
  cbn [rbind ph_scale ph_d negb andb].
  assert (E : map (λ nx : string * expo, (id nx.1, nx.2)) its = its).
  { unfold id. clear. induction its as [|[n x] its IH]; [reflexivity|]. simpl. f_equal. exact IH. }
  rewrite <- E at 1. apply (resolve_names_ok r id its Hwf); [exact (proj1 Hwf)|exact Hg].
Qed.


(** ********** non-vacuity of the guard ********** *)
Lemma short_guard_example :
  let its := [("meter", XInt 1); ("second", XInt (-2)); ("kilogram", XInt 3)] in
  items_wf its ∧ short_guard default_reg its
  ∧ full_format_unit as_found default_reg (FCfg "" None SortUnitName) "~C" its = Ok "kg**3*m/s**2".
Proof.
  intros its. split; [|split].
  - split; [apply (bool_decide_unpack _); vm_compute; exact I | repeat constructor; vm_compute; discriminate].
  - exists (λ n, match resolve default_reg n with Ok d => u_symbol d | Err _ => n end). split.
    + intros nx Hnx. unfold its in Hnx.
      repeat (apply elem_of_cons in Hnx as [-> | Hnx]); try (inversion Hnx; fail);
        (split; [vm_compute; reflexivity|]; split; [vm_compute; reflexivity|]; split; [discriminate|];
         intros df H; vm_compute in H; inversion H; reflexivity).
    + apply (bool_decide_unpack _). vm_compute. exact I.
  - vm_compute. reflexivity.
Qed.

