(** Proofs/GroupsProofs.v — group membership is the reflexive-transitive closure of "uses";
    the memo is valid along every sequence of edits; [add_groups] keeps the graph acyclic and
    every walk ends within [fuel_of] steps. *)
From Coq Require Import Lia.
From stdpp Require Import relations.
From PintV Require Import Model.UC Model.Eval Model.Registry Model.Groups.
Open Scope string_scope.
Arguments reach : simpl never.
Arguments mval : simpl never.

(** * The notions of the property *)
Definition edge (next : group → sset) (st : gstate) (a b : string) : Prop :=
  ∃ g, st !! a = Some g ∧ b ∈ next g.
Notation uses := (edge g_used).
Notation usedby := (edge g_used_by).
(** [u] is a member of [n] by the declaration: some group reachable from [n] owns it *)
Definition in_closure (st : gstate) (n u : string) : Prop :=
  ∃ m g, rtc (uses st) n m ∧ st !! m = Some g ∧ u ∈ g_units g.
Definition acyclic_on (next : group → sset) (st : gstate) : Prop := ∀ a, ¬ tc (edge next st) a a.
Notation acyclic := (acyclic_on g_used).
Definition closed_on (next : group → sset) (st : gstate) : Prop :=
  ∀ a g b, st !! a = Some g → b ∈ next g → is_Some (st !! b).
(** [_used_by] mirrors [_used_groups] *)
Definition consistent (st : gstate) : Prop :=
  ∀ a b ga gb, st !! a = Some ga → st !! b = Some gb → (b ∈ g_used ga ↔ a ∈ g_used_by gb).
Definition memo_valid (st : gstate) : Prop :=
  ∀ n g M, st !! n = Some g → g_memo g = Some M → ∀ u, u ∈ M ↔ in_closure st n u.
(** the structural part of the invariant *)
Record gstruct (st : gstate) : Prop := GStruct {
  gs_closed : closed_on g_used st;
  gs_closed_by : closed_on g_used_by st;
  gs_consistent : consistent st;
  gs_acyclic : acyclic st }.
Record ginv (st : gstate) : Prop := GInv { gi_struct : gstruct st; gi_memo : memo_valid st }.

(** * foldM over unions *)
Lemma foldM_union (G : string → res sset) (l : list string) (a0 : sset) :
  (∀ m, m ∈ l → ∃ s, G m = Ok s) →
  ∃ r, foldM (λ acc m, s ←r G m; Ok (acc ∪ s)) l a0 = Ok r
       ∧ ∀ x, x ∈ r ↔ x ∈ a0 ∨ ∃ m s, m ∈ l ∧ G m = Ok s ∧ x ∈ s.
Proof.
  revert a0. induction l as [|m l IH]; intros a0 H.
  - exists a0. split; [reflexivity|]. intros x. split; [auto|]. intros [?|(m & s & Hm & _)]; [assumption|].
    inversion Hm.
  - destruct (H m) as [s Hs]; [left|].
    destruct (IH (a0 ∪ s)) as (r & Hr & Hx); [intros m' Hm'; apply H; right; exact Hm'|].
    exists r. split; [simpl; rewrite Hs; simpl; exact Hr|].
    intros x. rewrite Hx. rewrite elem_of_union. split.
    + intros [[?|?]|(m' & s' & Hm' & Hs' & Hxs)].
      * left; assumption.
      * right. exists m, s. split; [left|]. split; assumption.
      * right. exists m', s'. split; [right; assumption|]. split; assumption.
    + intros [?|(m' & s' & Hm' & Hs' & Hxs)]; [left; left; assumption|].
      apply elem_of_cons in Hm' as [->|Hm'].
      * rewrite Hs in Hs'. injection Hs' as <-. left; right; assumption.
      * right. exists m', s'. split; [assumption|]. split; assumption.
Qed.

(** * Walks: reach is the reflexive-transitive closure, within the explicit fuel bound *)
Lemma edge_dom next st a b : edge next st a b → a ∈ dom st.
Proof. intros (g & H & _). apply elem_of_dom. eauto. Qed.
Lemma closed_rtc next st a b : closed_on next st → is_Some (st !! a) → rtc (edge next st) a b → is_Some (st !! b).
Proof.
  intros C Ha R. induction R as [|x y z (g & Hx & Hy) _ IH]; [assumption|].
  apply IH. eapply C; eassumption.
Qed.

Lemma reach_spec next st :
  closed_on next st → acyclic_on next st →
  ∀ fuel (P : sset) n,
    is_Some (st !! n) → (∀ a, a ∈ P → tc (edge next st) a n) → P ⊆ dom st →
    size (dom st ∖ P) < fuel →
    ∃ r, reach next fuel st n = Ok r ∧ ∀ x, x ∈ r ↔ rtc (edge next st) n x.
Proof.
  intros C A. induction fuel as [|f IH]; intros P n [g Hn] HP Hsub Hsz; [lia|].
  assert (HnP : n ∉ P) by (intros Hin; exact (A n (HP n Hin))).
  assert (Hnd : n ∈ dom st) by (apply elem_of_dom; eauto).
  assert (Hsz' : size (dom st ∖ (P ∪ {[ n ]})) < f).
  { assert (dom st ∖ (P ∪ {[ n ]}) ⊂ dom st ∖ P) as Hss.
    { split; [set_solver|]. intros Hc. assert (n ∈ dom st ∖ (P ∪ {[ n ]})) by (apply Hc; set_solver). set_solver. }
    apply subset_size in Hss. lia. }
  unfold reach; fold reach. rewrite Hn.
  destruct (foldM_union (reach next f st) (elements (next g)) {[ n ]}) as (r & Hr & Hx).
  { intros m Hm. apply elem_of_elements in Hm.
    destruct (IH (P ∪ {[ n ]}) m) as (s & Hs & _).
    - eapply C; eassumption.
    - intros a Ha. apply elem_of_union in Ha as [Ha|Ha].
      + eapply tc_r; [apply HP; exact Ha|]. exists g. split; assumption.
      + apply elem_of_singleton in Ha as ->. apply tc_once. exists g. split; assumption.
    - set_solver.
    - exact Hsz'.
    - eauto. }
  exists r. split; [exact Hr|]. intros x. rewrite Hx. split.
  - intros [Hin|(m & s & Hm & Hs & Hxs)].
    + apply elem_of_singleton in Hin as ->. apply rtc_refl.
    + apply elem_of_elements in Hm.
      destruct (IH (P ∪ {[ n ]}) m) as (s' & Hs' & Hsp).
      * eapply C; eassumption.
      * intros a Ha. apply elem_of_union in Ha as [Ha|Ha].
        -- eapply tc_r; [apply HP; exact Ha|]. exists g. split; assumption.
        -- apply elem_of_singleton in Ha as ->. apply tc_once. exists g. split; assumption.
      * set_solver.
      * exact Hsz'.
      * rewrite Hs in Hs'. injection Hs' as <-. eapply rtc_l; [exists g; split; eassumption|]. apply Hsp. exact Hxs.
  - intros R. apply rtc_inv in R as [->|(m & (g' & Hg' & Hm) & R)]; [left; set_solver|].
    rewrite Hn in Hg'. injection Hg' as <-. right.
    destruct (IH (P ∪ {[ n ]}) m) as (s' & Hs' & Hsp).
    + eapply C; eassumption.
    + intros a Ha. apply elem_of_union in Ha as [Ha|Ha].
      * eapply tc_r; [apply HP; exact Ha|]. exists g. split; assumption.
      * apply elem_of_singleton in Ha as ->. apply tc_once. exists g. split; assumption.
    + set_solver.
    + exact Hsz'.
    + exists m, s'. split; [apply elem_of_elements; exact Hm|]. split; [exact Hs'|]. apply Hsp. exact R.
Qed.

(** the explicit measure: [fuel_of st = S (size st)] always suffices on an acyclic closed graph *)
Lemma reach_fuel_enough next st n :
  closed_on next st → acyclic_on next st → is_Some (st !! n) →
  ∃ r, reach next (fuel_of st) st n = Ok r ∧ ∀ x, x ∈ r ↔ rtc (edge next st) n x.
Proof.
  intros C A Hn. apply (reach_spec next st C A (fuel_of st) ∅ n Hn).
  - intros a Ha. set_solver.
  - set_solver.
  - unfold fuel_of. rewrite difference_empty_L, size_dom. lia.
Qed.

Lemma tc_inv_l {A} (R : relation A) x z : tc R x z → ∃ y, R x y ∧ rtc R y z.
Proof. destruct 1 as [x z H|x y z H T]; [exists z; split; [exact H|apply rtc_refl] | exists y; split; [exact H|apply tc_rtc; exact T]]. Qed.

Lemma iter_used_spec st n g :
  closed_on g_used st → acyclic st → st !! n = Some g →
  ∃ ds, iter_used st g = Ok ds ∧ ∀ x, x ∈ ds ↔ tc (uses st) n x.
Proof.
  intros C A Hn. unfold iter_used.
  destruct (foldM_union (reach g_used (fuel_of st) st) (elements (g_used g)) ∅) as (r & Hr & Hx).
  { intros m Hm. apply elem_of_elements in Hm.
    destruct (reach_fuel_enough g_used st m C A) as (s & Hs & _); [eapply C; eassumption|eauto]. }
  exists r. split; [exact Hr|]. intros x. rewrite Hx. split.
  - intros [Hin|(m & s & Hm & Hs & Hxs)]; [set_solver|].
    apply elem_of_elements in Hm.
    destruct (reach_fuel_enough g_used st m C A) as (s' & Hs' & Hsp); [eapply C; eassumption|].
    rewrite Hs in Hs'. injection Hs' as <-. eapply tc_rtc_r; [apply tc_once; exists g; split; eassumption|].
    apply Hsp. exact Hxs.
  - intros T. apply tc_inv_l in T as (m & (g' & Hg' & Hm) & R). rewrite Hn in Hg'. injection Hg' as <-.
    right. destruct (reach_fuel_enough g_used st m C A) as (s' & Hs' & Hsp); [eapply C; eassumption|].
    exists m, s'. split; [apply elem_of_elements; exact Hm|]. split; [exact Hs'|]. apply Hsp. exact R.
Qed.

(** * [members] computes the closure *)
Lemma in_closure_unfold st n g u :
  st !! n = Some g →
  in_closure st n u ↔ u ∈ g_units g ∨ ∃ d, tc (uses st) n d ∧ in_closure st d u.
Proof.
  intros Hn. split.
  - intros (m & gm & R & Hm & Hu). apply rtc_tc in R as [<-|T].
    + rewrite Hn in Hm. injection Hm as <-. left; exact Hu.
    + right. exists m. split; [exact T|]. exists m, gm. split; [apply rtc_refl|]. split; assumption.
  - intros [Hu|(d & T & (m & gm & R & Hm & Hu))].
    + exists n, g. split; [apply rtc_refl|]. split; assumption.
    + exists m, gm. split; [|split; assumption]. eapply rtc_transitive; [apply tc_rtc; exact T|exact R].
Qed.

Lemma mval_spec st :
  closed_on g_used st → acyclic st → memo_valid st →
  ∀ fuel (P : sset) n,
    is_Some (st !! n) → (∀ a, a ∈ P → tc (uses st) a n) → P ⊆ dom st →
    size (dom st ∖ P) < fuel →
    ∃ v, mval fuel st n = Ok v ∧ ∀ u, u ∈ v ↔ in_closure st n u.
Proof.
  intros C A MV. induction fuel as [|f IH]; intros P n [g Hn] HP Hsub Hsz; [lia|].
  assert (HnP : n ∉ P) by (intros Hin; exact (A n (HP n Hin))).
  assert (Hnd : n ∈ dom st) by (apply elem_of_dom; eauto).
  assert (Hsz' : size (dom st ∖ (P ∪ {[ n ]})) < f).
  { assert (dom st ∖ (P ∪ {[ n ]}) ⊂ dom st ∖ P) as Hss.
    { split; [set_solver|]. intros Hc. assert (n ∈ dom st ∖ (P ∪ {[ n ]})) by (apply Hc; set_solver). set_solver. }
    apply subset_size in Hss. lia. }
  unfold mval; fold mval. rewrite Hn.
  destruct (g_memo g) as [M|] eqn:HM.
  { exists M. split; [reflexivity|]. exact (MV n g M Hn HM). }
  destruct (iter_used_spec st n g C A Hn) as (ds & Hds & Hdsx). rewrite Hds. simpl.
  assert (Hsub' : ∀ d, d ∈ elements ds → ∃ v, mval f st d = Ok v ∧ ∀ u, u ∈ v ↔ in_closure st d u).
  { intros d Hd. apply elem_of_elements, Hdsx in Hd.
    apply (IH (P ∪ {[ n ]}) d).
    - eapply closed_rtc; [exact C| |apply tc_rtc; exact Hd]. eauto.
    - intros a Ha. apply elem_of_union in Ha as [Ha|Ha].
      + eapply tc_transitive; [apply HP; exact Ha|exact Hd].
      + apply elem_of_singleton in Ha as ->. exact Hd.
    - set_solver.
    - exact Hsz'. }
  destruct (foldM_union (mval f st) (elements ds) (g_units g)) as (r & Hr & Hx).
  { intros d Hd. destruct (Hsub' d Hd) as (v & Hv & _). eauto. }
  exists r. split; [exact Hr|]. intros u. rewrite Hx, (in_closure_unfold st n g u Hn). split.
  - intros [Hu|(d & v & Hd & Hv & Huv)]; [left; exact Hu|]. right.
    destruct (Hsub' d Hd) as (v' & Hv' & Hsp). rewrite Hv in Hv'. injection Hv' as <-.
    exists d. split; [apply Hdsx, elem_of_elements; exact Hd|]. apply Hsp. exact Huv.
  - intros [Hu|(d & T & Hc)]; [left; exact Hu|]. right.
    assert (Hd : d ∈ elements ds) by (apply elem_of_elements, Hdsx; exact T).
    destruct (Hsub' d Hd) as (v & Hv & Hsp). exists d, v. split; [exact Hd|]. split; [exact Hv|]. apply Hsp. exact Hc.
Qed.

(** [members_is_closure]: on every acyclic (closed) group graph whose memos are valid — in
    particular when there are none — the value of [members] is the closure, computed within
    the explicit fuel bound [fuel_of st]. *)
Theorem members_val_closure st n :
  closed_on g_used st → acyclic st → memo_valid st → is_Some (st !! n) →
  ∃ v, members_val st n = Ok v ∧ ∀ u, u ∈ v ↔ in_closure st n u.
Proof.
  intros C A MV Hn. apply (mval_spec st C A MV (fuel_of st) ∅ n Hn).
  - intros a Ha. set_solver.
  - set_solver.
  - unfold fuel_of. rewrite difference_empty_L, size_dom. lia.
Qed.

(** * The upward walk *)
Lemma tc_flip {A} (R S : relation A) : (∀ x y, R x y → S y x) → ∀ a b, tc R a b → tc S b a.
Proof.
  intros H a b T. induction T as [x y Hxy|x y z Hxy _ IH]; [apply tc_once, H, Hxy|].
  eapply tc_r; [exact IH|apply H, Hxy].
Qed.
Lemma rtc_flip {A} (R S : relation A) : (∀ x y, R x y → S y x) → ∀ a b, rtc R a b → rtc S b a.
Proof.
  intros H a b T. induction T as [|x y z Hxy _ IH]; [apply rtc_refl|].
  eapply rtc_r; [exact IH|apply H, Hxy].
Qed.
Lemma usedby_uses st a b : gstruct st → usedby st a b → uses st b a.
Proof.
  intros G (ga & Ha & Hb). destruct (gs_closed_by st G a ga b Ha Hb) as [gb Hgb].
  exists gb. split; [exact Hgb|]. apply (gs_consistent st G b a gb ga Hgb Ha). exact Hb.
Qed.
Lemma uses_usedby st a b : gstruct st → uses st a b → usedby st b a.
Proof.
  intros G (ga & Ha & Hb). destruct (gs_closed st G a ga b Ha Hb) as [gb Hgb].
  exists gb. split; [exact Hgb|]. apply (gs_consistent st G a b ga gb Ha Hgb). exact Hb.
Qed.
Lemma anc_spec st n :
  gstruct st → is_Some (st !! n) →
  ∃ zs, anc (fuel_of st) st n = Ok zs ∧ ∀ x, x ∈ zs ↔ rtc (uses st) x n.
Proof.
  intros G Hn. destruct (reach_fuel_enough g_used_by st n) as (zs & Hz & Hx).
  - exact (gs_closed_by st G).
  - intros a T. apply (gs_acyclic st G a). apply (tc_flip (usedby st) (uses st)); [|exact T].
    intros x y. apply usedby_uses. exact G.
  - exact Hn.
  - exists zs. split; [exact Hz|]. intros x. rewrite Hx. split.
    + apply (rtc_flip (usedby st) (uses st)). intros a b. apply usedby_uses. exact G.
    + apply (rtc_flip (uses st) (usedby st)). intros a b. apply uses_usedby. exact G.
Qed.

(** * States that differ only in memos have the same graph *)
Definition fwd (g : group) : sset * sset := (g_units g, g_used g).
Definition core (g : group) : sset * sset * sset := (g_units g, g_used g, g_used_by g).
Definition same_core (st st' : gstate) : Prop := ∀ k, core <$> (st !! k) = core <$> (st' !! k).

Lemma same_core_sym st st' : same_core st st' → same_core st' st.
Proof. intros H k. symmetry. apply H. Qed.
Lemma same_core_edge next st st' a b :
  (∀ g g', core g = core g' → next g = next g') → same_core st st' → edge next st a b → edge next st' a b.
Proof.
  intros Hn H (g & Ha & Hb). specialize (H a). rewrite Ha in H. simpl in H.
  destruct (st' !! a) as [g'|] eqn:E; [|discriminate]. simpl in H. injection H as H1 H2 H3.
  exists g'. split; [exact E|]. rewrite <- (Hn g g'); [exact Hb|]. unfold core. congruence.
Qed.
Lemma core_used g g' : core g = core g' → g_used g = g_used g'.
Proof. unfold core. congruence. Qed.
Lemma core_used_by g g' : core g = core g' → g_used_by g = g_used_by g'.
Proof. unfold core. congruence. Qed.
Lemma same_core_rtc st st' a b : same_core st st' → rtc (uses st) a b → rtc (uses st') a b.
Proof.
  intros H R. induction R as [|x y z Hxy _ IH]; [apply rtc_refl|].
  eapply rtc_l; [|exact IH]. eapply same_core_edge; [apply core_used|exact H|exact Hxy].
Qed.
Lemma same_core_tc st st' a b : same_core st st' → tc (uses st) a b → tc (uses st') a b.
Proof.
  intros H R. induction R as [x y Hxy|x y z Hxy _ IH].
  - apply tc_once. eapply same_core_edge; [apply core_used|exact H|exact Hxy].
  - eapply tc_l; [|exact IH]. eapply same_core_edge; [apply core_used|exact H|exact Hxy].
Qed.
Lemma same_core_closure st st' n u : same_core st st' → in_closure st n u → in_closure st' n u.
Proof.
  intros H (m & g & R & Hm & Hu). pose proof (H m) as Hm'. rewrite Hm in Hm'. simpl in Hm'.
  destruct (st' !! m) as [g'|] eqn:E; [|discriminate]. simpl in Hm'. injection Hm' as H1 H2 H3.
  exists m, g'. split; [eapply same_core_rtc; eassumption|]. split; [exact E|]. rewrite <- H1. exact Hu.
Qed.
Lemma same_core_struct st st' : same_core st st' → gstruct st → gstruct st'.
Proof.
  intros H [C CB K A]. pose proof (same_core_sym _ _ H) as H'.
  assert (L : ∀ k g', st' !! k = Some g' → ∃ g, st !! k = Some g ∧ core g = core g').
  { intros k g' E. specialize (H k). rewrite E in H. destruct (st !! k) as [g|]; [|discriminate].
    simpl in H. injection H as H1 H2 H3. exists g. split; [reflexivity|]. unfold core. congruence. }
  assert (L' : ∀ k, is_Some (st !! k) → is_Some (st' !! k)).
  { intros k [g E]. specialize (H k). rewrite E in H. destruct (st' !! k); [eauto|discriminate]. }
  split.
  - intros a g' b Ha Hb. destruct (L a g' Ha) as (g & Hg & Hc). apply L'. eapply C; [exact Hg|].
    rewrite (core_used g g' Hc). exact Hb.
  - intros a g' b Ha Hb. destruct (L a g' Ha) as (g & Hg & Hc). apply L'. eapply CB; [exact Hg|].
    rewrite (core_used_by g g' Hc). exact Hb.
  - intros a b ga' gb' Ha Hb. destruct (L a ga' Ha) as (ga & Hga & Hca). destruct (L b gb' Hb) as (gb & Hgb & Hcb).
    rewrite <- (core_used ga ga' Hca), <- (core_used_by gb gb' Hcb). exact (K a b ga gb Hga Hgb).
  - intros a T. apply (A a). eapply same_core_tc; [exact H'|exact T].
Qed.

Lemma lookup_clear zs st k :
  clear zs st !! k = (λ g, if bool_decide (k ∈ zs) then g_set_memo g None else g) <$> st !! k.
Proof. unfold clear. rewrite map_lookup_imap. destruct (st !! k); reflexivity. Qed.
Lemma same_core_clear zs st : same_core st (clear zs st).
Proof.
  intros k. rewrite lookup_clear. destruct (st !! k) as [g|]; [|reflexivity]. simpl.
  destruct (bool_decide (k ∈ zs)); reflexivity.
Qed.
Lemma lookup_fill st zs k :
  fill st zs !! k = (λ g, if bool_decide (k ∈ zs) then
                            match g_memo g with
                            | Some _ => g
                            | None => match members_val st k with Ok v => g_set_memo g (Some v) | Err _ => g end
                            end else g) <$> st !! k.
Proof. unfold fill. rewrite map_lookup_imap. destruct (st !! k); reflexivity. Qed.
Lemma same_core_fill st zs : same_core st (fill st zs).
Proof.
  intros k. rewrite lookup_fill. destruct (st !! k) as [g|]; [|reflexivity]. simpl.
  destruct (bool_decide (k ∈ zs)); [|reflexivity]. destruct (g_memo g); [reflexivity|].
  destruct (members_val st k); reflexivity.
Qed.

(** * One edit: what is left of the memos is still valid *)
Lemma fwd_uses st st1 j b :
  fwd <$> (st1 !! j) = fwd <$> (st !! j) → uses st j b → uses st1 j b.
Proof.
  intros E (g & Hj & Hb). rewrite Hj in E. destruct (st1 !! j) as [g1|] eqn:E0; [|discriminate].
  simpl in E. injection E as E1 E2. exists g1. split; [exact E0|]. rewrite E2. exact Hb.
Qed.
Lemma closure_agree st st1 n :
  (∀ j, j ≠ n → fwd <$> (st1 !! j) = fwd <$> (st !! j)) →
  ∀ k u, ¬ rtc (uses st1) k n → (in_closure st k u ↔ in_closure st1 k u).
Proof.
  intros E k u Hk. split.
  - intros (m & g & R & Hm & Hu).
    assert (rtc (uses st1) k m ∧ m ≠ n) as [R1 Hmn].
    { clear Hm Hu. induction R as [x|x y z Hxy _ IH].
      - split; [apply rtc_refl|]. intros ->. apply Hk, rtc_refl.
      - assert (x ≠ n) by (intros ->; apply Hk, rtc_refl).
        assert (uses st1 x y) by (apply (fwd_uses st st1); [apply E; assumption|exact Hxy]).
        destruct IH as [IH1 IH2]; [intros R'; apply Hk; eapply rtc_l; eassumption|].
        split; [eapply rtc_l; eassumption|exact IH2]. }
    pose proof (E m Hmn) as Em. rewrite Hm in Em. destruct (st1 !! m) as [g1|] eqn:E1; [|discriminate].
    simpl in Em. injection Em as Ea Eb. exists m, g1. split; [exact R1|]. split; [exact E1|]. rewrite Ea. exact Hu.
  - intros (m & g & R & Hm & Hu).
    assert (rtc (uses st) k m ∧ m ≠ n) as [R1 Hmn].
    { clear Hm Hu. induction R as [x|x y z Hxy _ IH].
      - split; [apply rtc_refl|]. intros ->. apply Hk, rtc_refl.
      - assert (x ≠ n) by (intros ->; apply Hk, rtc_refl).
        assert (uses st x y) by (apply (fwd_uses st1 st); [symmetry; apply E; assumption|exact Hxy]).
        destruct IH as [IH1 IH2]; [intros R'; apply Hk; eapply rtc_l; eassumption|].
        split; [eapply rtc_l; eassumption|exact IH2]. }
    pose proof (E m Hmn) as Em. rewrite Hm in Em. destruct (st !! m) as [g1|] eqn:E1; [|discriminate].
    simpl in Em. injection Em as Ea Eb. exists m, g1. split; [exact R1|]. split; [exact E1|]. rewrite <- Ea. exact Hu.
Qed.

Lemma memo_valid_edit st st1 n zs :
  memo_valid st →
  (∀ j, j ≠ n → fwd <$> (st1 !! j) = fwd <$> (st !! j) ∧ g_memo <$> (st1 !! j) = g_memo <$> (st !! j)) →
  (∀ x, rtc (uses st1) x n → x ∈ zs) →
  memo_valid (clear zs st1).
Proof.
  intros MV E Hz k g M Hk HM u. rewrite lookup_clear in Hk.
  destruct (st1 !! k) as [g1|] eqn:E1; [|discriminate]. simpl in Hk. injection Hk as <-.
  destruct (bool_decide (k ∈ zs)) eqn:B; [discriminate|]. apply bool_decide_eq_false in B.
  assert (Hkn : ¬ rtc (uses st1) k n) by (intros R; apply B, Hz, R).
  assert (k ≠ n) by (intros ->; apply Hkn, rtc_refl).
  destruct (E k) as [Ef Em]; [assumption|]. rewrite E1 in Em. destruct (st !! k) as [g0|] eqn:E0; [|discriminate].
  simpl in Em. injection Em as Em. rewrite Em in HM.
  rewrite (MV k g0 M E0 HM u). rewrite (closure_agree st st1 n (λ j Hj, proj1 (E j Hj)) k u Hkn).
  split; apply same_core_closure; [apply same_core_clear|apply same_core_sym, same_core_clear].
Qed.

(** * Edits of the links: what the state looks like afterwards *)
Lemma lookup_upd st n f k :
  upd st n f !! k = if decide (k = n) then f <$> st !! n else st !! k.
Proof.
  unfold upd. destruct (st !! n) as [g|] eqn:E.
  - destruct (decide (k = n)) as [->|N]; [rewrite lookup_insert; reflexivity|rewrite lookup_insert_ne by congruence; reflexivity].
  - destruct (decide (k = n)) as [->|N]; [exact E|reflexivity].
Qed.

(** a description of a state [st2] obtained from [st] by changing link sets only *)
Definition relinked (st st2 : gstate) (used' used_by' : string → sset → sset) : Prop :=
  ∀ k, match st2 !! k, st !! k with
       | Some g2, Some g => g_units g2 = g_units g ∧ g_memo g2 = g_memo g
                            ∧ g_used g2 = used' k (g_used g) ∧ g_used_by g2 = used_by' k (g_used_by g)
       | None, None => True
       | _, _ => False
       end.

Definition add_link (st : gstate) (n h : string) (gn : group) : gstate :=
  upd (<[ n := g_set_used gn (g_used gn ∪ {[ h ]}) ]> st) h (λ g, g_set_used_by g (g_used_by g ∪ {[ n ]})).
Lemma add_link_relinked st n h gn gh :
  st !! n = Some gn → st !! h = Some gh →
  relinked st (add_link st n h gn)
    (λ k s, if decide (k = n) then s ∪ {[ h ]} else s) (λ k s, if decide (k = h) then s ∪ {[ n ]} else s).
Proof.
  intros Hn Hh k. unfold add_link. rewrite lookup_upd.
  destruct (decide (k = h)) as [->|Nh].
  - destruct (decide (h = n)) as [->|Nn].
    + rewrite lookup_insert. simpl. rewrite Hn. simpl. repeat case_decide; try congruence; auto.
    + rewrite lookup_insert_ne by congruence. rewrite Hh. simpl. repeat case_decide; try congruence; auto.
  - destruct (decide (k = n)) as [->|Nn].
    + rewrite lookup_insert, Hn. simpl. repeat case_decide; try congruence; auto.
    + rewrite lookup_insert_ne by congruence. destruct (st !! k); repeat case_decide; try congruence; auto.
Qed.

Definition del_link (st : gstate) (n h : string) (gn : group) : gstate :=
  upd (<[ n := g_set_used gn (g_used gn ∖ {[ h ]}) ]> st) h (λ g, g_set_used_by g (g_used_by g ∖ {[ n ]})).
Lemma del_link_relinked st n h gn gh :
  st !! n = Some gn → st !! h = Some gh →
  relinked st (del_link st n h gn)
    (λ k s, if decide (k = n) then s ∖ {[ h ]} else s) (λ k s, if decide (k = h) then s ∖ {[ n ]} else s).
Proof.
  intros Hn Hh k. unfold del_link. rewrite lookup_upd.
  destruct (decide (k = h)) as [->|Nh].
  - destruct (decide (h = n)) as [->|Nn].
    + rewrite lookup_insert. simpl. rewrite Hn. simpl. repeat case_decide; try congruence; auto.
    + rewrite lookup_insert_ne by congruence. rewrite Hh. simpl. repeat case_decide; try congruence; auto.
  - destruct (decide (k = n)) as [->|Nn].
    + rewrite lookup_insert, Hn. simpl. repeat case_decide; try congruence; auto.
    + rewrite lookup_insert_ne by congruence. destruct (st !! k); repeat case_decide; try congruence; auto.
Qed.

Lemma relinked_Some st st2 u b k g2 :
  relinked st st2 u b → st2 !! k = Some g2 →
  ∃ g, st !! k = Some g ∧ g_units g2 = g_units g ∧ g_memo g2 = g_memo g ∧ g_used g2 = u k (g_used g) ∧ g_used_by g2 = b k (g_used_by g).
Proof. intros R E. specialize (R k). rewrite E in R. destruct (st !! k) as [g|]; [eauto|contradiction]. Qed.
Lemma relinked_Some' st st2 u b k g :
  relinked st st2 u b → st !! k = Some g →
  ∃ g2, st2 !! k = Some g2 ∧ g_units g2 = g_units g ∧ g_memo g2 = g_memo g ∧ g_used g2 = u k (g_used g) ∧ g_used_by g2 = b k (g_used_by g).
Proof. intros R E. specialize (R k). rewrite E in R. destruct (st2 !! k) as [g2|]; [eauto|contradiction]. Qed.
Lemma relinked_dom st st2 u b k : relinked st st2 u b → (is_Some (st2 !! k) ↔ is_Some (st !! k)).
Proof.
  intros R. specialize (R k). destruct (st2 !! k), (st !! k); try contradiction; split; intros [? ?]; try discriminate; eauto.
Qed.

(** adding the edge n → h to an acyclic relation in which h does not reach n *)
Lemma tc_add_edge {A} (R R' : relation A) n h :
  (∀ x y, R' x y → R x y ∨ (x = n ∧ y = h)) → ¬ rtc R h n →
  ∀ x y, tc R' x y → tc R x y ∨ (rtc R x n ∧ rtc R h y).
Proof.
  intros HR Hn x y T. induction T as [x y Hxy|x y z Hxy _ IH].
  - destruct (HR x y Hxy) as [H|[-> ->]]; [left; apply tc_once, H|right; split; apply rtc_refl].
  - destruct (HR x y Hxy) as [H|[-> ->]].
    + destruct IH as [IH|[IH1 IH2]]; [left; eapply tc_l; eassumption|right; split; [eapply rtc_l; eassumption|exact IH2]].
    + destruct IH as [IH|[IH1 IH2]]; [right; split; [apply rtc_refl|apply tc_rtc, IH]|contradiction].
Qed.
Lemma acyclic_add_edge {A} (R R' : relation A) n h :
  (∀ x y, R' x y → R x y ∨ (x = n ∧ y = h)) → ¬ rtc R h n → (∀ a, ¬ tc R a a) → ∀ a, ¬ tc R' a a.
Proof.
  intros HR Hn A0 a T. destruct (tc_add_edge R R' n h HR Hn a a T) as [T'|[R1 R2]]; [exact (A0 a T')|].
  apply Hn. eapply rtc_transitive; eassumption.
Qed.

Lemma add_link_struct st n h gn gh :
  gstruct st → st !! n = Some gn → st !! h = Some gh → ¬ rtc (uses st) h n →
  gstruct (add_link st n h gn).
Proof.
  intros [C CB K A] Hn Hh Hr. pose proof (add_link_relinked st n h gn gh Hn Hh) as RL.
  set (st2 := add_link st n h gn) in *. split.
  - intros a g2 b Ha Hb. apply (relinked_dom _ _ _ _ b RL).
    destruct (relinked_Some _ _ _ _ a g2 RL Ha) as (g & Hg & _ & _ & Hu & _). rewrite Hu in Hb.
    destruct (decide (a = n)) as [->|N]; [|eapply C; eassumption].
    apply elem_of_union in Hb as [Hb|Hb]; [eapply C; eassumption|]. apply elem_of_singleton in Hb as ->. eauto.
  - intros a g2 b Ha Hb. apply (relinked_dom _ _ _ _ b RL).
    destruct (relinked_Some _ _ _ _ a g2 RL Ha) as (g & Hg & _ & _ & _ & Hu). rewrite Hu in Hb.
    destruct (decide (a = h)) as [->|N]; [|eapply CB; eassumption].
    apply elem_of_union in Hb as [Hb|Hb]; [eapply CB; eassumption|]. apply elem_of_singleton in Hb as ->. eauto.
  - intros a b ga2 gb2 Ha Hb.
    destruct (relinked_Some _ _ _ _ a ga2 RL Ha) as (ga & Hga & _ & _ & Hua & _).
    destruct (relinked_Some _ _ _ _ b gb2 RL Hb) as (gb & Hgb & _ & _ & _ & Hub).
    rewrite Hua, Hub. pose proof (K a b ga gb Hga Hgb) as Kab.
    destruct (decide (a = n)) as [->|Na], (decide (b = h)) as [->|Nb]; set_solver.
  - refine (acyclic_add_edge (uses st) (uses st2) n h _ Hr A).
    intros x y (g2 & Hx & Hy). destruct (relinked_Some _ _ _ _ x g2 RL Hx) as (g & Hg & _ & _ & Hu & _).
    rewrite Hu in Hy. destruct (decide (x = n)) as [->|N].
    + apply elem_of_union in Hy as [Hy|Hy]; [left; exists g; split; assumption|right; split; [reflexivity|set_solver]].
    + left. exists g. split; assumption.
Qed.

Lemma del_link_struct st n h gn gh :
  gstruct st → st !! n = Some gn → st !! h = Some gh → gstruct (del_link st n h gn).
Proof.
  intros [C CB K A] Hn Hh. pose proof (del_link_relinked st n h gn gh Hn Hh) as RL.
  set (st2 := del_link st n h gn) in *.
  assert (Hsub : ∀ x y, uses st2 x y → uses st x y).
  { intros x y (g2 & Hx & Hy). destruct (relinked_Some _ _ _ _ x g2 RL Hx) as (g & Hg & _ & _ & Hu & _).
    rewrite Hu in Hy. exists g. split; [exact Hg|]. destruct (decide (x = n)); set_solver. }
  split.
  - intros a g2 b Ha Hb. apply (relinked_dom _ _ _ _ b RL).
    destruct (relinked_Some _ _ _ _ a g2 RL Ha) as (g & Hg & _ & _ & Hu & _). rewrite Hu in Hb.
    eapply C; [exact Hg|]. destruct (decide (a = n)); set_solver.
  - intros a g2 b Ha Hb. apply (relinked_dom _ _ _ _ b RL).
    destruct (relinked_Some _ _ _ _ a g2 RL Ha) as (g & Hg & _ & _ & _ & Hu). rewrite Hu in Hb.
    eapply CB; [exact Hg|]. destruct (decide (a = h)); set_solver.
  - intros a b ga2 gb2 Ha Hb.
    destruct (relinked_Some _ _ _ _ a ga2 RL Ha) as (ga & Hga & _ & _ & Hua & _).
    destruct (relinked_Some _ _ _ _ b gb2 RL Hb) as (gb & Hgb & _ & _ & _ & Hub).
    rewrite Hua, Hub. pose proof (K a b ga gb Hga Hgb) as Kab.
    destruct (decide (a = n)) as [->|Na], (decide (b = h)) as [->|Nb]; set_solver.
  - assert (Htc : ∀ x y, tc (uses st2) x y → tc (uses st) x y).
    { intros x y T. induction T as [x y H|x y z H _ IH]; [apply tc_once, Hsub, H|].
      eapply tc_l; [apply Hsub, H|exact IH]. }
    intros a T. exact (A a (Htc a a T)).
Qed.

(** changes of link sets at [n] (its [_used_groups]) and anywhere (the [_used_by] mirrors) leave the
    own units, the memos and — away from [n] — the forward view alone *)
Definition only_at (n : string) (st st' : gstate) : Prop :=
  (∀ j, is_Some (st' !! j) ↔ is_Some (st !! j))
  ∧ (∀ j, g_memo <$> (st' !! j) = g_memo <$> (st !! j))
  ∧ (∀ j, j ≠ n → fwd <$> (st' !! j) = fwd <$> (st !! j)).
Lemma only_at_refl n st : only_at n st st.
Proof. repeat split; auto. Qed.
Lemma only_at_trans n a b c : only_at n a b → only_at n b c → only_at n a c.
Proof.
  intros (D1 & M1 & F1) (D2 & M2 & F2). split; [|split].
  - intros j. rewrite D2. apply D1.
  - intros j. rewrite M2. apply M1.
  - intros j Hj. rewrite F2 by assumption. apply F1. assumption.
Qed.
Lemma relinked_only_at st st2 n u b :
  relinked st st2 u b → (∀ k s, k ≠ n → u k s = s) → only_at n st st2.
Proof.
  intros RL Hu. split; [|split].
  - intros j. apply (relinked_dom _ _ _ _ j RL).
  - intros j. specialize (RL j). destruct (st2 !! j) as [g2|], (st !! j) as [g|]; try contradiction; [|reflexivity].
    simpl. f_equal. apply RL.
  - intros j Hj. specialize (RL j). destruct (st2 !! j) as [g2|], (st !! j) as [g|]; try contradiction; [|reflexivity].
    simpl. f_equal. unfold fwd. destruct RL as (-> & _ & -> & _). rewrite Hu by assumption. reflexivity.
Qed.

(** * The operations keep the invariant *)
Definition links (g : group) : sset * sset := (g_used g, g_used_by g).
Lemma same_links_struct st st' :
  (∀ k, links <$> (st !! k) = links <$> (st' !! k)) → gstruct st → gstruct st'.
Proof.
  intros H [C CB K A].
  assert (L : ∀ k g', st' !! k = Some g' → ∃ g, st !! k = Some g ∧ g_used g = g_used g' ∧ g_used_by g = g_used_by g').
  { intros k g' E. specialize (H k). rewrite E in H. destruct (st !! k) as [g|]; [|discriminate].
    simpl in H. injection H as H1 H2. exists g. auto. }
  assert (L' : ∀ k, is_Some (st !! k) → is_Some (st' !! k)).
  { intros k [g E]. specialize (H k). rewrite E in H. destruct (st' !! k); [eauto|discriminate]. }
  assert (U : ∀ x y, uses st' x y → uses st x y).
  { intros x y (g' & Hx & Hy). destruct (L x g' Hx) as (g & Hg & Hu & _). exists g. split; [exact Hg|]. rewrite Hu. exact Hy. }
  split.
  - intros a g' b Ha Hb. destruct (L a g' Ha) as (g & Hg & Hu & _). apply L'. eapply C; [exact Hg|]. rewrite Hu. exact Hb.
  - intros a g' b Ha Hb. destruct (L a g' Ha) as (g & Hg & _ & Hu). apply L'. eapply CB; [exact Hg|]. rewrite Hu. exact Hb.
  - intros a b ga' gb' Ha Hb. destruct (L a ga' Ha) as (ga & Hga & Hua & _). destruct (L b gb' Hb) as (gb & Hgb & _ & Hub).
    rewrite <- Hua, <- Hub. exact (K a b ga gb Hga Hgb).
  - assert (Htc : ∀ x y, tc (uses st') x y → tc (uses st) x y).
    { intros x y T. induction T as [x y Hxy|x y z Hxy _ IH]; [apply tc_once, U, Hxy|eapply tc_l; [apply U, Hxy|exact IH]]. }
    intros a T. exact (A a (Htc a a T)).
Qed.

Lemma clear_ginv zs st : ginv st → ginv (clear zs st).
Proof.
  intros [G MV]. split; [eapply same_core_struct; [apply same_core_clear|exact G]|].
  intros k g M Hk HM u. rewrite lookup_clear in Hk. destruct (st !! k) as [g0|] eqn:E0; [|discriminate].
  simpl in Hk. injection Hk as <-. destruct (bool_decide (k ∈ zs)); [discriminate|].
  rewrite (MV k g0 M E0 HM u). split; apply same_core_closure; [apply same_core_clear|apply same_core_sym, same_core_clear].
Qed.

Lemma invalidate_ok st n :
  gstruct st → is_Some (st !! n) →
  ∃ zs, invalidate st n = (clear zs st, Ok tt) ∧ ∀ x, x ∈ zs ↔ rtc (uses st) x n.
Proof.
  intros G Hn. destruct (anc_spec st n G Hn) as (zs & Hz & Hx). exists zs. unfold invalidate. rewrite Hz. auto.
Qed.
Lemma invalidate_any_ginv st n : ginv st → ginv (invalidate st n).1.
Proof. intros I. unfold invalidate. destruct (anc _ _ _); simpl; apply clear_ginv, I. Qed.

Lemma edit_ginv st st1 n :
  ginv st → gstruct st1 → only_at n st st1 →
  ginv (invalidate st1 n).1 ∧ (is_Some (st1 !! n) → (invalidate st1 n).2 = Ok tt).
Proof.
  intros [G MV] G1 (D & M & Fw).
  destruct (st1 !! n) as [g1|] eqn:E1.
  - destruct (invalidate_ok st1 n G1) as (zs & Hz & Hx); [rewrite E1; eauto|]. rewrite Hz. simpl. split; [|reflexivity].
    split; [eapply same_core_struct; [apply same_core_clear|exact G1]|].
    apply (memo_valid_edit st st1 n zs MV); [|intros x R; apply Hx, R].
    intros j Hj. split; [apply Fw, Hj|apply M].
  - split; [|intros [? ?]; discriminate]. unfold invalidate.
    assert (anc (fuel_of st1) st1 n = Err EKey) as ->. { unfold anc, fuel_of, reach. rewrite E1. reflexivity. }
    simpl. (* nothing the memos can be stale about: st1 has the same closures as st away from n, and n is absent *)
    split; [eapply same_core_struct; [apply same_core_clear|exact G1]|].
    intros k g M0 Hk HM u. rewrite lookup_clear in Hk. destruct (st1 !! k) as [g0|] eqn:E0; [|discriminate].
    simpl in Hk. injection Hk as <-. destruct (bool_decide (k ∈ {[n]})) eqn:B; [discriminate|].
    assert (k ≠ n) by (intros ->; rewrite E1 in E0; discriminate).
    assert (Hkn : ¬ rtc (uses st1) k n).
    { intros R. assert (is_Some (st1 !! n)) as [? ?]; [|congruence].
      eapply closed_rtc; [exact (gs_closed st1 G1)| |exact R]. eauto. }
    pose proof (M k) as Mk. rewrite E0 in Mk. destruct (st !! k) as [g'|] eqn:E'; [|discriminate]. simpl in Mk. injection Mk as Mk.
    simpl in HM. rewrite Mk in HM. rewrite (MV k g' M0 E' HM u).
    rewrite (closure_agree st st1 n Fw k u Hkn).
    split; apply same_core_closure; [apply same_core_clear|apply same_core_sym, same_core_clear].
Qed.

Lemma finish_edit_ginv qk st st1 n r :
  ginv st → gstruct st1 → only_at n st st1 →
  (∃ u, r = Ok u) ∨ q_partial_edit qk = false →
  ginv (finish_edit qk n (st1, r)).1.
Proof.
  intros I G1 O H. unfold finish_edit. destruct r as [u|e].
  - apply (edit_ginv st st1 n I G1 O).
  - destruct H as [[u Hu]|Hq]; [discriminate|]. rewrite Hq. simpl. apply (edit_ginv st st1 n I G1 O).
Qed.

(** own units *)
Lemma set_units_struct st n g X : gstruct st → st !! n = Some g → gstruct (<[ n := g_set_units g X ]> st).
Proof.
  intros G Hn. eapply same_links_struct; [|exact G]. intros k.
  destruct (decide (k = n)) as [->|N]; [rewrite lookup_insert, Hn; reflexivity|rewrite lookup_insert_ne by congruence; reflexivity].
Qed.
Lemma set_units_only_at st n g X : st !! n = Some g → only_at n st (<[ n := g_set_units g X ]> st).
Proof.
  intros Hn. split; [|split].
  - intros j. destruct (decide (j = n)) as [->|N]; [rewrite lookup_insert, Hn; split; eauto|rewrite lookup_insert_ne by congruence; reflexivity].
  - intros j. destruct (decide (j = n)) as [->|N]; [rewrite lookup_insert, Hn; reflexivity|rewrite lookup_insert_ne by congruence; reflexivity].
  - intros j N. rewrite lookup_insert_ne by congruence. reflexivity.
Qed.
Lemma add_units_ginv st n us : ginv st → ginv (add_units st n us).1.
Proof.
  intros I. unfold add_units. destruct (st !! n) as [g|] eqn:Hn; [|exact I].
  apply (edit_ginv st _ n I); [apply set_units_struct; [apply I|exact Hn]|apply set_units_only_at, Hn].
Qed.
Lemma remove_units_ginv qk st n us :
  ginv st → (∃ u, (remove_units qk st n us).2 = Ok u) ∨ q_partial_edit qk = false →
  ginv (remove_units qk st n us).1.
Proof.
  intros I H. unfold remove_units in *. destruct (st !! n) as [g|] eqn:Hn; [|exact I].
  destruct (remove_loop (g_units g) us) as [own' r] eqn:L.
  apply (finish_edit_ginv qk st); [exact I|apply set_units_struct; [apply I|exact Hn]|apply set_units_only_at, Hn|].
  destruct H as [[u Hu]|Hq]; [|right; exact Hq]. left. unfold finish_edit in Hu.
  destruct r as [u'|e]; [eauto|]. destruct (q_partial_edit qk); simpl in Hu; discriminate.
Qed.

(** links *)
Lemma add_groups_loop_inv qk : ∀ gs st n st' r,
  gstruct st → (q_selfloop qk = false ∨ n ∉ gs) →
  add_groups_loop qk st n gs = (st', r) → gstruct st' ∧ only_at n st st'.
Proof.
  induction gs as [|h gs IH]; intros st n st' r G Hs E; simpl in E.
  { injection E as <- <-. split; [exact G|apply only_at_refl]. }
  destruct (st !! h) as [gh|] eqn:Hh; [|injection E as <- <-; split; [exact G|apply only_at_refl]].
  destruct (st !! n) as [gn|] eqn:Hn; [|injection E as <- <-; split; [exact G|apply only_at_refl]].
  destruct (negb (q_selfloop qk) && String.eqb h n) eqn:Chk; [injection E as <- <-; split; [exact G|apply only_at_refl]|].
  assert (Hhn : h ≠ n).
  { destruct Hs as [Hq|Hnin]; [|intros ->; apply Hnin; left].
    rewrite Hq in Chk. simpl in Chk. apply String.eqb_neq in Chk. exact Chk. }
  unfold is_used_group in E.
  destruct (iter_used_spec st h gh (gs_closed st G) (gs_acyclic st G) Hh) as (ds & Hds & Hx). rewrite Hds in E. simpl in E.
  destruct (bool_decide (n ∈ ds)) eqn:B; [injection E as <- <-; split; [exact G|apply only_at_refl]|].
  apply bool_decide_eq_false in B.
  assert (Hr : ¬ rtc (uses st) h n).
  { intros R. apply rtc_tc in R as [R|R]; [exact (Hhn R)|apply B, Hx, R]. }
  change (add_groups_loop qk (add_link st n h gn) n gs = (st', r)) in E.
  pose proof (add_link_struct st n h gn gh G Hn Hh Hr) as G2.
  assert (Hs' : q_selfloop qk = false ∨ n ∉ gs).
  { destruct Hs as [?|Hnin]; [left; assumption|right; intros ?; apply Hnin; right; assumption]. }
  destruct (IH _ _ _ _ G2 Hs' E) as [G' O'].
  split; [exact G'|]. eapply only_at_trans; [|exact O'].
  eapply relinked_only_at; [apply (add_link_relinked st n h gn gh Hn Hh)|].
  intros k s Hk. simpl. rewrite decide_False by assumption. reflexivity.
Qed.

Lemma remove_groups_loop_inv : ∀ gs st n st' r,
  gstruct st → remove_groups_loop st n gs = (st', r) → gstruct st' ∧ only_at n st st'.
Proof.
  induction gs as [|h gs IH]; intros st n st' r G E; simpl in E.
  { injection E as <- <-. split; [exact G|apply only_at_refl]. }
  destruct (st !! h) as [gh|] eqn:Hh; [|injection E as <- <-; split; [exact G|apply only_at_refl]].
  destruct (st !! n) as [gn|] eqn:Hn; [|injection E as <- <-; split; [exact G|apply only_at_refl]].
  destruct (bool_decide (h ∈ g_used gn)) eqn:B; simpl in E; [|injection E as <- <-; split; [exact G|apply only_at_refl]].
  apply bool_decide_eq_true in B.
  assert (Hhn : h ≠ n).
  { intros ->. apply (gs_acyclic st G n). apply tc_once. exists gn. split; assumption. }
  rewrite lookup_insert_ne in E by congruence. rewrite Hh in E.
  assert (Hin : n ∈ g_used_by gh) by (apply (gs_consistent st G n h gn gh Hn Hh); exact B).
  rewrite (bool_decide_eq_true_2 _ Hin) in E. simpl in E.
  assert (Hdl : <[h:=g_set_used_by gh (g_used_by gh ∖ {[n]})]> (<[n:=g_set_used gn (g_used gn ∖ {[h]})]> st) = del_link st n h gn).
  { unfold del_link, upd. rewrite lookup_insert_ne by congruence. rewrite Hh. reflexivity. }
  rewrite Hdl in E.
  pose proof (del_link_struct st n h gn gh G Hn Hh) as G2.
  destruct (IH _ _ _ _ G2 E) as [G' O']. split; [exact G'|]. eapply only_at_trans; [|exact O'].
  eapply relinked_only_at; [apply (del_link_relinked st n h gn gh Hn Hh)|].
  intros k s Hk. simpl. rewrite decide_False by assumption. reflexivity.
Qed.

Lemma add_groups_ginv qk st n gs :
  ginv st → (q_selfloop qk = false ∨ n ∉ gs) →
  (∃ u, (add_groups qk st n gs).2 = Ok u) ∨ q_partial_edit qk = false →
  ginv (add_groups qk st n gs).1.
Proof.
  intros I Hs H. unfold add_groups in *. destruct (add_groups_loop qk st n gs) as [st1 r] eqn:L.
  destruct (add_groups_loop_inv qk gs st n st1 r (gi_struct st I) Hs L) as [G1 O1].
  apply (finish_edit_ginv qk st st1 n r I G1 O1).
  destruct H as [[u Hu]|Hq]; [|right; exact Hq]. left. unfold finish_edit in Hu.
  destruct r as [u'|e]; [eauto|]. destruct (q_partial_edit qk); simpl in Hu; discriminate.
Qed.
Lemma remove_groups_ginv qk st n gs :
  ginv st → (∃ u, (remove_groups qk st n gs).2 = Ok u) ∨ q_partial_edit qk = false →
  ginv (remove_groups qk st n gs).1.
Proof.
  intros I H. unfold remove_groups in *. destruct (remove_groups_loop st n gs) as [st1 r] eqn:L.
  destruct (remove_groups_loop_inv gs st n st1 r (gi_struct st I) L) as [G1 O1].
  apply (finish_edit_ginv qk st st1 n r I G1 O1).
  destruct H as [[u Hu]|Hq]; [|right; exact Hq]. left. unfold finish_edit in Hu.
  destruct r as [u'|e]; [eauto|]. destruct (q_partial_edit qk); simpl in Hu; discriminate.
Qed.

(** a new, empty group *)
Lemma fresh_ginv st name : ginv st → st !! name = None → ginv (<[ name := empty_group ]> st).
Proof.
  intros [G MV] Hf. set (st1 := <[ name := empty_group ]> st).
  assert (L : ∀ k, k ≠ name → st1 !! k = st !! k) by (intros k Hk; unfold st1; rewrite lookup_insert_ne by congruence; reflexivity).
  assert (Ln : st1 !! name = Some empty_group) by (unfold st1; apply lookup_insert).
  assert (Nin : ∀ a g, st !! a = Some g → name ∉ g_used g ∧ name ∉ g_used_by g).
  { intros a g Ha. split; intros Hin.
    - destruct (gs_closed st G a g name Ha Hin) as [? ?]; congruence.
    - destruct (gs_closed_by st G a g name Ha Hin) as [? ?]; congruence. }
  assert (U : ∀ x y, uses st1 x y → uses st x y).
  { intros x y (g & Hx & Hy). destruct (decide (x = name)) as [->|N].
    - rewrite Ln in Hx. injection Hx as <-. simpl in Hy. set_solver.
    - rewrite L in Hx by assumption. exists g. split; assumption. }
  assert (G1 : gstruct st1).
  { split.
    - intros a g b Ha Hb. destruct (decide (a = name)) as [->|N].
      + rewrite Ln in Ha. injection Ha as <-. simpl in Hb. set_solver.
      + rewrite L in Ha by assumption. destruct (decide (b = name)) as [->|Nb]; [rewrite Ln; eauto|].
        rewrite L by assumption. eapply (gs_closed st G); eassumption.
    - intros a g b Ha Hb. destruct (decide (a = name)) as [->|N].
      + rewrite Ln in Ha. injection Ha as <-. simpl in Hb. set_solver.
      + rewrite L in Ha by assumption. destruct (decide (b = name)) as [->|Nb]; [rewrite Ln; eauto|].
        rewrite L by assumption. eapply (gs_closed_by st G); eassumption.
    - intros a b ga gb Ha Hb. destruct (decide (a = name)) as [->|Na], (decide (b = name)) as [->|Nb].
      + rewrite Ln in Ha, Hb. injection Ha as <-. injection Hb as <-. simpl. set_solver.
      + rewrite Ln in Ha. injection Ha as <-. rewrite L in Hb by assumption. simpl.
        destruct (Nin b gb Hb). set_solver.
      + rewrite Ln in Hb. injection Hb as <-. rewrite L in Ha by assumption. simpl.
        destruct (Nin a ga Ha). set_solver.
      + rewrite L in Ha, Hb by assumption. apply (gs_consistent st G); assumption.
    - assert (Htc : ∀ x y, tc (uses st1) x y → tc (uses st) x y).
      { intros x y T. induction T as [x y Hxy|x y z Hxy _ IH]; [apply tc_once, U, Hxy|eapply tc_l; [apply U, Hxy|exact IH]]. }
      intros a T. exact (gs_acyclic st G a (Htc a a T)). }
  split; [exact G1|].
  intros k g M Hk HM u. destruct (decide (k = name)) as [->|N].
  { rewrite Ln in Hk. injection Hk as <-. discriminate. }
  rewrite L in Hk by assumption. rewrite (MV k g M Hk HM u).
  apply (closure_agree st st1 name); [intros j Hj; rewrite L by assumption; reflexivity|].
  intros R. apply rtc_inv_r in R as [->|(y & _ & Hy)]; [exact (N eq_refl)|].
  apply U in Hy. destruct Hy as (gy & Hgy & Hin). destruct (Nin y gy Hgy) as [H1 _]. exact (H1 Hin).
Qed.

Lemma get_group_ginv qk st name :
  ginv st → (∃ u, (get_group qk st name).2 = Ok u) ∨ q_partial_edit qk = false →
  ginv (get_group qk st name).1.
Proof.
  intros I H. unfold get_group in *. destruct (st !! name) eqn:E; [exact I|].
  pose proof (fresh_ginv st name I E) as I1.
  destruct (String.eqb name "root") eqn:B; [exact I1|].
  apply add_groups_ginv; [exact I1| |exact H].
  right. intros Hin. apply elem_of_list_singleton in Hin. apply String.eqb_neq in B. congruence.
Qed.

(** reading [members] *)
Lemma fill_ginv st zs : ginv st → ginv (fill st zs).
Proof.
  intros [G MV]. split; [eapply same_core_struct; [apply same_core_fill|exact G]|].
  intros k g M Hk HM u. rewrite lookup_fill in Hk. destruct (st !! k) as [g0|] eqn:E0; [|discriminate].
  simpl in Hk. injection Hk as <-.
  assert (Hc : in_closure st k u ↔ in_closure (fill st zs) k u).
  { split; apply same_core_closure; [apply same_core_fill|apply same_core_sym, same_core_fill]. }
  rewrite <- Hc. destruct (bool_decide (k ∈ zs)); [|exact (MV k g0 M E0 HM u)].
  destruct (g_memo g0) as [M0|] eqn:HM0; [exact (MV k g0 M E0 HM u)|].
  destruct (members_val_closure st k (gs_closed st G) (gs_acyclic st G) MV) as (v & Hv & Hsp); [rewrite E0; eauto|].
  rewrite Hv in HM. simpl in HM. injection HM as <-. apply Hsp.
Qed.
Lemma members_ginv st n : ginv st → ginv (members st n).1.
Proof.
  intros I. unfold members. destruct (st !! n) as [g|]; [|exact I]. destruct (g_memo g); [exact I|].
  destruct (members_val st n); [|exact I]. destruct (iter_used st g); [|exact I]. apply fill_ginv, I.
Qed.
(** … and what it returns is the closure, whatever was memoised before *)
Lemma members_closure st n :
  ginv st → is_Some (st !! n) → ∃ v, (members st n).2 = Ok v ∧ ∀ u, u ∈ v ↔ in_closure st n u.
Proof.
  intros [G MV] [g Hn].
  destruct (members_val_closure st n (gs_closed st G) (gs_acyclic st G) MV) as (v & Hv & Hsp); [rewrite Hn; eauto|].
  unfold members. rewrite Hn. destruct (g_memo g) as [M|] eqn:HM.
  - exists M. split; [reflexivity|]. exact (MV n g M Hn HM).
  - rewrite Hv. destruct (iter_used_spec st n g (gs_closed st G) (gs_acyclic st G) Hn) as (ds & Hds & _). rewrite Hds.
    exists v. split; [reflexivity|exact Hsp].
Qed.

(** * Every edit, every sequence *)
Definition safe (qk : quirks) (o : gop) : Prop :=
  match o with GAddGroups g gs => q_selfloop qk = false ∨ g ∉ gs | _ => True end.

Lemma gstep_ginv qk st o :
  ginv st → safe qk o → (gstep qk st o).2 = Ok tt ∨ q_partial_edit qk = false → ginv (gstep qk st o).1.
Proof.
  intros I S H. destruct o as [g us|g us|g gs|g gs|g|g]; simpl in *.
  - apply add_units_ginv, I.
  - apply remove_units_ginv; [exact I|]. destruct H as [H|H]; [left; eauto|right; exact H].
  - apply add_groups_ginv; [exact I|exact S|]. destruct H as [H|H]; [left; eauto|right; exact H].
  - apply remove_groups_ginv; [exact I|]. destruct H as [H|H]; [left; eauto|right; exact H].
  - apply get_group_ginv; [exact I|]. destruct H as [H|H]; [left; eauto|right; exact H].
  - pose proof (members_ginv st g I) as M. destruct (members st g) as [st' r]. exact M.
Qed.

(** [group_memo_valid], full for the repaired behaviour: along EVERY sequence of edits — failing ones
    included — every memo is either absent or the closure *)
Theorem grun_ginv qk : q_partial_edit qk = false → q_selfloop qk = false →
  ∀ os st, ginv st → ginv (grun qk st os).
Proof.
  intros Q1 Q2. induction os as [|o os IH]; intros st I; [exact I|].
  unfold grun. simpl. apply IH. apply gstep_ginv; [exact I| |right; exact Q1].
  destruct o; simpl; auto.
Qed.
(** … and for pint as it is, along every sequence of edits that succeed and never name the group itself *)
Theorem grun_ok_ginv qk : ∀ os st st', ginv st → Forall (safe qk) os → grun_ok qk st os = Some st' → ginv st'.
Proof.
  induction os as [|o os IH]; intros st st' I F E; simpl in E; [injection E as <-; exact I|].
  inversion F as [|? ? So Fo]; subst.
  pose proof (gstep_ginv qk st o I So) as Hs. destruct (gstep qk st o) as [st1 [[]|e]] eqn:Eg; [|discriminate].
  apply (IH st1 st'); [apply Hs; left; reflexivity|exact Fo|exact E].
Qed.

Lemma ginv_init : ginv init_groups.
Proof.
  assert (L : ∀ k g, init_groups !! k = Some g → k = "root" ∧ g = empty_group).
  { intros k g H. unfold init_groups in H. apply lookup_singleton_Some in H as [<- <-]. auto. }
  assert (U : ∀ x y, ¬ uses init_groups x y).
  { intros x y (g & Hx & Hy). destruct (L x g Hx) as [_ ->]. simpl in Hy. set_solver. }
  split; [split|].
  - intros a g b Ha Hb. destruct (L a g Ha) as [_ ->]. simpl in Hb. set_solver.
  - intros a g b Ha Hb. destruct (L a g Ha) as [_ ->]. simpl in Hb. set_solver.
  - intros a b ga gb Ha Hb. destruct (L a ga Ha) as [_ ->]. destruct (L b gb Hb) as [_ ->]. simpl. set_solver.
  - intros a T. apply tc_inv_l in T as (y & Hy & _). exact (U a y Hy).
  - intros k g M Hk HM. destruct (L k g Hk) as [_ ->]. discriminate.
Qed.

(** [no_cycles]: [add_groups] keeps the graph acyclic (its cycle check is exact) … *)
Theorem add_groups_acyclic qk st n gs :
  gstruct st → (q_selfloop qk = false ∨ n ∉ gs) → acyclic (add_groups qk st n gs).1.
Proof.
  intros G Hs. unfold add_groups. destruct (add_groups_loop qk st n gs) as [st1 r] eqn:L.
  destruct (add_groups_loop_inv qk gs st n st1 r G Hs L) as [G1 _].
  assert (A : ∀ zs, acyclic (clear zs st1)) by (intros zs; apply (gs_acyclic _ (same_core_struct _ _ (same_core_clear zs st1) G1))).
  unfold finish_edit. destruct r as [u|e].
  - unfold invalidate. destruct (anc _ _ _); simpl; apply A.
  - destruct (q_partial_edit qk); simpl; [exact (gs_acyclic _ G1)|]. unfold invalidate. destruct (anc _ _ _); simpl; apply A.
Qed.
(** … except that the check does not see the group itself (F65) *)
Theorem add_groups_selfloop_refuted :
  ∃ st n, ginv st ∧ ¬ acyclic (add_groups faithful st n [n]).1.
Proof.
  exists (grun repaired init_groups [GGetGroup "g"]), "g". split.
  - apply grun_ginv; [reflexivity|reflexivity|apply ginv_init].
  - intros A. apply (A "g"). apply tc_once.
    destruct ((add_groups faithful (grun repaired init_groups [GGetGroup "g"]) "g" ["g"]).1 !! "g") as [g|] eqn:E.
    + exists g. split; [exact E|]. revert E. vm_compute. intros E. injection E as <-. vm_compute. (* "g" ∈ {["g"]} *)
      set_solver.
    + revert E. vm_compute. discriminate.
Qed.

(** F66: a failing multi-argument edit leaves a memo that is no longer the closure *)
Theorem memo_valid_refuted :
  ∃ os, Forall (safe faithful) os ∧ ¬ memo_valid (grun faithful init_groups os).
Proof.
  exists [GGetGroup "g"; GGetGroup "h"; GAddUnits "h" ["inch"]; GMembers "g"; GAddGroups "g" ["h"; "nosuch"]].
  split.
  { repeat (apply List.Forall_cons; [first [exact I | right; set_solver]|]). apply List.Forall_nil. }
  intros MV.
  set (st := grun faithful init_groups _) in MV.
  destruct (st !! "g") as [g|] eqn:E; [|revert E; vm_compute; discriminate].
  destruct (g_memo g) as [M|] eqn:EM.
  - assert (Hin : in_closure st "g" "inch").
    { destruct (st !! "h") as [h|] eqn:Eh; [|revert Eh; vm_compute; discriminate].
      exists "h", h. split; [|split; [exact Eh|]].
      + apply rtc_once. exists g. split; [exact E|]. revert E. vm_compute. intros E. injection E as <-. vm_compute. set_solver.
      + revert Eh. vm_compute. intros Eh. injection Eh as <-. vm_compute. set_solver. }
    apply (MV "g" g M E EM "inch") in Hin. revert E EM Hin. vm_compute. intros E. injection E as <-. vm_compute.
    intros EM. injection EM as <-. set_solver.
  - revert E EM. vm_compute. intros E. injection E as <-. vm_compute. discriminate.
Qed.
