(** Proofs/LogConv.v — the logarithmic converter over Coq's real numbers.

    This is the ONLY file of the C06 development that uses the standard library's real numbers,
    and hence its four standard-library assumptions (reported by Print Assumptions):
      ClassicalDedekindReals.sig_forall_dec, ClassicalDedekindReals.sig_not_dec,
      FunctionalExtensionality.functional_extensionality_dep, Classical_Prop.classic.
    No theorem outside this file depends on them.  The statements are about the FORMULAS that
    translator T4 reads from LogarithmicConverter (interpreted with ln / exp of R), not about
    the floating-point results of numpy / libm. *)
From Coq Require Import Reals Lra RealField.
From PintV Require Import Model.UC Model.Offset.
Local Open Scope R_scope.

Definition runR (f : cformula) (env : cvar → R) : R := run_fun Rplus Rminus Rmult Rdiv ln exp f env.
Definition runRi (f : cformula) (env : cvar → R) : R := run_inpl Rplus Rminus Rmult Rdiv ln exp f env.
Definition envR (scale logbase logfactor value : R) : cvar → R := mkenv scale 0 logbase logfactor value.

Lemma log_to_value s b f x : runR (cc_to log_conv) (envR s b f x) = s * exp (ln b * (x / f)).
Proof. reflexivity. Qed.
Lemma log_from_value s b f x : runR (cc_from log_conv) (envR s b f x) = f * ln (x / s) / ln b.
Proof. reflexivity. Qed.

(** from_reference (to_reference x) = x for every x; to_reference (from_reference v) = v for v > 0 *)
Theorem log_inverse s b f : 0 < s → 0 < b → b ≠ 1 → f ≠ 0 →
  (∀ x, runR (cc_from log_conv) (envR s b f (runR (cc_to log_conv) (envR s b f x))) = x)
  ∧ (∀ v, 0 < v → runR (cc_to log_conv) (envR s b f (runR (cc_from log_conv) (envR s b f v))) = v).
Proof.
  intros Hs Hb Hb1 Hf.
  assert (Hl : ln b ≠ 0) by (apply ln_neq_0; assumption).
  split.
  - intros x. rewrite log_to_value, log_from_value.
    replace (s * exp (ln b * (x / f)) / s) with (exp (ln b * (x / f))) by (field; lra).
    rewrite ln_exp. field. split; assumption.
  - intros v Hv. rewrite log_from_value, log_to_value.
    replace (ln b * (f * ln (v / s) / ln b / f)) with (ln (v / s)) by (field; split; assumption).
    rewrite exp_ln by (apply Rdiv_lt_0_compat; assumption). field. lra.
Qed.

(** the in-place statement list computes the functional expression *)
Theorem log_inplace_eq_functional s b f x : 0 < b → b ≠ 1 →
  runRi (cc_to log_conv) (envR s b f x) = runR (cc_to log_conv) (envR s b f x)
  ∧ runRi (cc_from log_conv) (envR s b f x) = runR (cc_from log_conv) (envR s b f x).
Proof.
  intros Hb Hb1. assert (Hl : ln b ≠ 0) by (apply ln_neq_0; assumption).
  split.
  - cbn. replace (x / f * ln b) with (ln b * (x / f)) by ring. ring.
  - cbn. field. exact Hl.
Qed.

(** logarithmic units convert among themselves by composing the two maps through the common
    reference: e.g. dBm -> dBW ; the composite is again invertible *)
Theorem log_to_log_roundtrip s1 b1 f1 s2 b2 f2 k x :
  0 < s1 → 0 < b1 → b1 ≠ 1 → f1 ≠ 0 → 0 < s2 → 0 < b2 → b2 ≠ 1 → f2 ≠ 0 → 0 < k →
  let fwd x := runR (cc_from log_conv) (envR s2 b2 f2 (runR (cc_to log_conv) (envR s1 b1 f1 x) * k)) in
  let bwd y := runR (cc_from log_conv) (envR s1 b1 f1 (runR (cc_to log_conv) (envR s2 b2 f2 y) * / k)) in
  bwd (fwd x) = x.
Proof.
  intros H1 H2 H3 H4 H5 H6 H7 H8 Hk fwd bwd. unfold fwd, bwd.
  destruct (log_inverse s1 b1 f1 H1 H2 H3 H4) as [A1 B1].
  destruct (log_inverse s2 b2 f2 H5 H6 H7 H8) as [A2 B2].
  rewrite B2.
  - replace (runR (cc_to log_conv) (envR s1 b1 f1 x) * k * / k) with (runR (cc_to log_conv) (envR s1 b1 f1 x)) by (field; lra).
    apply A1.
  - rewrite log_to_value. apply Rmult_lt_0_compat; [|exact Hk]. apply Rmult_lt_0_compat; [exact H1 | apply exp_pos].
Qed.
