(** Proofs/MeasureProofs.v — first-order error propagation on affine forms, conversion,
    constructor normalisation and accessors of measurements (C19).  The tokenizer part is in
    Proofs/UncTokProofs.v. *)
From Coq Require Import Qcabs.
From PintV Require Import Model.UC Model.Eval Model.Registry Model.Measure Proofs.UCProofs.
From PintV Require Import Gen.DefaultDefs Gen.DefaultReg.
Open Scope string_scope.

(** * Rationals: order, absolute value *)
Lemma qltb_spec x y : qltb x y = true ↔ (x < y)%Qc.
Proof.
  unfold qltb. rewrite negb_true_iff. split.
  - intros H. apply Qcnot_le_lt. intros L. apply Qle_bool_iff in L. congruence.
  - intros H. destruct (Qle_bool y x) eqn:E; [|reflexivity].
    apply Qle_bool_iff in E. exfalso. exact (Qclt_not_le _ _ H E).
Qed.
Lemma qltb_false x y : qltb x y = false ↔ (y <= x)%Qc.
Proof.
  unfold qltb. rewrite negb_false_iff. split; intros H; [apply Qle_bool_iff in H | apply Qle_bool_iff]; exact H.
Qed.

Lemma Qcmult_nonneg x y : (0 <= x)%Qc → (0 <= y)%Qc → (0 <= x * y)%Qc.
Proof.
  intros Hx Hy. replace 0%Qc with (0 * y)%Qc by ring. apply Qcmult_le_compat_r; assumption.
Qed.
Lemma Qcabs_sq x : (Qcabs x * Qcabs x = x * x)%Qc.
Proof.
  apply (Qcabs_case x (λ y, y * y = x * x)%Qc); intros _; ring.
Qed.
Lemma Qcabs_1 : Qcabs 1 = 1%Qc.
Proof. apply Qcabs_pos. discriminate. Qed.
Lemma Qcabs_0 : Qcabs 0 = 0%Qc.
Proof. apply Qcabs_pos. discriminate. Qed.
Lemma Qcabs_nonzero x : x ≠ 0%Qc → Qcabs x ≠ 0%Qc.
Proof. intros H E. apply H. exact (Qcabs_null x E). Qed.
Lemma Qcabs_inv x : x ≠ 0%Qc → Qcabs (/ x) = (/ Qcabs x)%Qc.
Proof.
  intros H.
  assert (E : (Qcabs (/ x) * Qcabs x = 1)%Qc).
  { rewrite <- Qcabs_Qcmult. replace (/ x * x)%Qc with 1%Qc by (field; exact H). exact Qcabs_1. }
  apply Qcabs_nonzero in H.
  replace (Qcabs (/ x)) with (Qcabs (/ x) * Qcabs x * / Qcabs x)%Qc by (field; exact H).
  rewrite E. ring.
Qed.
Lemma Qcabs_div x y : y ≠ 0%Qc → Qcabs (x / y) = (Qcabs x / Qcabs y)%Qc.
Proof. intros H. unfold Qcdiv. rewrite Qcabs_Qcmult, Qcabs_inv by exact H. reflexivity. Qed.

(** * Derivative maps *)
Lemma dcoef_dlin c1 a c2 b i :
  dcoef (dlin c1 a c2 b) i = (c1 * dcoef a i + c2 * dcoef b i)%Qc.
Proof.
  unfold dcoef, dlin. rewrite lookup_merge.
  destruct (a !! i), (b !! i); simpl; ring.
Qed.
Lemma dcoef_fmap s (d : dmap) i : dcoef (Qcmult s <$> d) i = (s * dcoef d i)%Qc.
Proof. unfold dcoef. rewrite lookup_fmap. destruct (d !! i); simpl; ring. Qed.
Lemma dcoef_empty i : dcoef ∅ i = 0%Qc.
Proof. unfold dcoef. rewrite lookup_empty. reflexivity. Qed.
Lemma dcoef_singleton i j (x : Qc) :
  dcoef {[ i := x ]} j = if decide (i = j) then x else 0%Qc.
Proof.
  unfold dcoef. destruct (decide (i = j)) as [->|N].
  - rewrite lookup_singleton. reflexivity.
  - rewrite lookup_singleton_ne by exact N. reflexivity.
Qed.

(** * Finite sums *)
Lemma qsum_ext {A} (f g : A → Qc) l : (∀ x, x ∈ l → f x = g x) → qsum f l = qsum g l.
Proof.
  induction l as [|x l IH]; intros H; simpl; [reflexivity|].
  rewrite (H x) by left. rewrite IH; [reflexivity|]. intros y Hy. apply H. right. exact Hy.
Qed.
Lemma qsum_add {A} (f g : A → Qc) l : qsum (λ x, f x + g x)%Qc l = (qsum f l + qsum g l)%Qc.
Proof. induction l as [|x l IH]; simpl; [ring | rewrite IH; ring]. Qed.
Lemma qsum_scale {A} c (f : A → Qc) l : qsum (λ x, c * f x)%Qc l = (c * qsum f l)%Qc.
Proof. induction l as [|x l IH]; simpl; [ring | rewrite IH; ring]. Qed.
Lemma qsum_zero {A} (f : A → Qc) l : (∀ x, x ∈ l → f x = 0%Qc) → qsum f l = 0%Qc.
Proof.
  induction l as [|x l IH]; intros H; simpl; [reflexivity|].
  rewrite (H x) by left. rewrite IH; [ring|]. intros y Hy. apply H. right. exact Hy.
Qed.
Lemma qsum_perm {A} (f : A → Qc) l l' : l ≡ₚ l' → qsum f l = qsum f l'.
Proof.
  induction 1 as [|x l l' _ IH|x y l|l l' l'' _ IH1 _ IH2]; simpl.
  - reflexivity.
  - rewrite IH. reflexivity.
  - ring.
  - congruence.
Qed.
Lemma qsum_nonneg {A} (f : A → Qc) l : (∀ x, x ∈ l → (0 <= f x)%Qc) → (0 <= qsum f l)%Qc.
Proof.
  induction l as [|x l IH]; intros H; simpl; [apply Qcle_refl|].
  replace 0%Qc with (0 + 0)%Qc by ring. apply Qcplus_le_compat.
  - apply H. left.
  - apply IH. intros y Hy. apply H. right. exact Hy.
Qed.

Lemma wsum_ext E w1 w2 : (∀ i, w1 i = w2 i) → wsum E w1 = wsum E w2.
Proof. intros H. unfold wsum. apply qsum_ext. intros [i v] _. simpl. rewrite H. reflexivity. Qed.
Lemma wsum_add E w1 w2 : wsum E (λ i, w1 i + w2 i)%Qc = (wsum E w1 + wsum E w2)%Qc.
Proof.
  unfold wsum. rewrite <- qsum_add. apply qsum_ext. intros [i v] _. simpl. ring.
Qed.
Lemma wsum_scale E c w : wsum E (λ i, c * w i)%Qc = (c * wsum E w)%Qc.
Proof.
  unfold wsum. rewrite <- qsum_scale. apply qsum_ext. intros [i v] _. simpl. ring.
Qed.
Lemma wsum_zero E w : (∀ i, w i = 0%Qc) → wsum E w = 0%Qc.
Proof. intros H. unfold wsum. apply qsum_zero. intros [i v] _. simpl. rewrite H. ring. Qed.
Lemma wsum_empty w : wsum ∅ w = 0%Qc.
Proof. unfold wsum. rewrite map_to_list_empty. reflexivity. Qed.
Lemma wsum_insert E i s w :
  E !! i = None → wsum (<[ i := s ]> E) w = (w i * (s * s) + wsum E w)%Qc.
Proof.
  intros H. unfold wsum. rewrite (qsum_perm _ _ _ (map_to_list_insert E i s H)). reflexivity.
Qed.
(** an indicator weight picks the σ² of one atom *)
Lemma wsum_indicator E i c :
  wsum E (λ j, if decide (i = j) then c else 0%Qc)
  = (c * (default 0 (E !! i) * default 0 (E !! i)))%Qc.
Proof.
  induction E as [|k s E Hk IH] using map_ind.
  - rewrite wsum_empty, lookup_empty. simpl. ring.
  - rewrite wsum_insert by exact Hk. rewrite IH.
    destruct (decide (i = k)) as [->|N].
    + rewrite lookup_insert, Hk. simpl. ring.
    + rewrite lookup_insert_ne by congruence. ring.
Qed.
Lemma wsum_nonneg E w : (∀ i, (0 <= w i)%Qc) → (0 <= wsum E w)%Qc.
Proof.
  intros H. unfold wsum. apply qsum_nonneg. intros [i v] _. simpl.
  apply Qcmult_nonneg; [apply H|].
  rewrite <- Qcabs_sq. apply Qcmult_nonneg; apply Qcabs_nonneg.
Qed.

(** * Variance of the four operations: exact first-order propagation *)
Section Var.
  Context (E : venv).
  Notation var := (variance E).
  Notation cov := (covariance E).

  Lemma cov_self a : cov a a = var a.
  Proof. reflexivity. Qed.
  Lemma cov_comm a b : cov a b = cov b a.
  Proof. unfold covariance. apply wsum_ext. intros i. ring. Qed.
  Lemma variance_nonneg a : (0 <= var a)%Qc.
  Proof.
    unfold variance. apply wsum_nonneg. intros i.
    rewrite <- Qcabs_sq. apply Qcmult_nonneg; apply Qcabs_nonneg.
  Qed.

  (** the general linear combination *)
  Lemma variance_lin n c1 a c2 b :
    var (Aff n (dlin c1 (der a) c2 (der b)))
    = (c1 * c1 * var a + c2 * c2 * var b + 2 * c1 * c2 * cov a b)%Qc.
  Proof.
    unfold variance, covariance. simpl.
    rewrite <- !wsum_scale, <- !wsum_add. apply wsum_ext. intros i.
    rewrite dcoef_dlin. ring.
  Qed.

  Lemma variance_add a b : var (aff_add a b) = (var a + var b + 2 * cov a b)%Qc.
  Proof. unfold aff_add. rewrite variance_lin. ring. Qed.
  Lemma variance_sub a b : var (aff_sub a b) = (var a + var b - 2 * cov a b)%Qc.
  Proof. unfold aff_sub. rewrite variance_lin. ring. Qed.
  Lemma variance_mul a b :
    var (aff_mul a b)
    = (nom b * nom b * var a + nom a * nom a * var b + 2 * nom a * nom b * cov a b)%Qc.
  Proof. unfold aff_mul. rewrite variance_lin. ring. Qed.
  Lemma variance_div a b c :
    aff_div a b = Ok c →
    nom b ≠ 0%Qc ∧ nom c = (nom a / nom b)%Qc ∧
    var c = (var a / (nom b * nom b)
             + nom a * nom a * var b / (nom b * nom b * nom b * nom b)
             - 2 * nom a * cov a b / (nom b * nom b * nom b))%Qc.
  Proof.
    unfold aff_div. destruct (qz (nom b)) eqn:Z; [discriminate|]. apply qz_false in Z.
    intros [= <-]. split; [exact Z|]. split; [reflexivity|].
    rewrite variance_lin. field. exact Z.
  Qed.
  Lemma aff_div_zero a b : nom b = 0%Qc → aff_div a b = Err EZeroDiv.
  Proof. intros H. unfold aff_div. apply qz_spec in H. rewrite H. reflexivity. Qed.

  Lemma variance_affine s o a : var (aff_affine s o a) = (s * s * var a)%Qc.
  Proof.
    unfold variance, aff_affine. simpl. rewrite <- wsum_scale. apply wsum_ext. intros i.
    rewrite dcoef_fmap. ring.
  Qed.
  Lemma covariance_affine_l s o a b : cov (aff_affine s o a) b = (s * cov a b)%Qc.
  Proof.
    unfold covariance, aff_affine. simpl. rewrite <- wsum_scale. apply wsum_ext. intros i.
    rewrite dcoef_fmap. ring.
  Qed.
  Lemma variance_const c : var (aff_const c) = 0%Qc.
  Proof. unfold variance. apply wsum_zero. intros i. simpl. rewrite dcoef_empty. ring. Qed.

  (** correlations: a form minus itself has no uncertainty *)
  Lemma variance_sub_self a : var (aff_sub a a) = 0%Qc ∧ nom (aff_sub a a) = 0%Qc.
  Proof. split; [rewrite variance_sub, cov_self; ring | simpl; ring]. Qed.
  Lemma variance_div_self a c : aff_div a a = Ok c → var c = 0%Qc ∧ nom c = 1%Qc.
  Proof.
    intros H. destruct (variance_div a a c H) as (Z & N & V). split.
    - rewrite V, cov_self. field. exact Z.
    - rewrite N. field. exact Z.
  Qed.

  (** independent operands (no shared atom): covariance vanishes *)
  Definition independent (a b : aff) : Prop := ∀ i, dcoef (der a) i = 0%Qc ∨ dcoef (der b) i = 0%Qc.
  Lemma covariance_independent a b : independent a b → cov a b = 0%Qc.
  Proof.
    intros H. unfold covariance. apply wsum_zero. intros i.
    destruct (H i) as [-> | ->]; ring.
  Qed.

  (** a fresh variable *)
  Lemma variance_var i v :
    var (aff_var i v) = (default 0 (E !! i) * default 0 (E !! i))%Qc.
  Proof.
    unfold variance. simpl.
    rewrite (wsum_ext E _ (λ j, if decide (i = j) then 1%Qc else 0%Qc)).
    - rewrite wsum_indicator. ring.
    - intros j. rewrite dcoef_singleton. destruct (decide (i = j)); ring.
  Qed.
End Var.

(** * [std1]: the rational standard deviation of forms over one atom *)
Lemma std1_var E i v : std1 E (aff_var i v) = Some (default 0 (E !! i)).
Proof.
  unfold std1, aff_var. simpl. rewrite map_to_list_singleton.
  rewrite filter_cons, filter_nil. simpl.
  rewrite Qcabs_1. f_equal. ring.
Qed.
Lemma std1_affine_var E i v a b :
  std1 E (aff_affine a b (aff_var i v)) = Some (Qcabs a * default 0 (E !! i))%Qc.
Proof.
  unfold std1, aff_affine, aff_var. simpl. rewrite map_fmap_singleton, map_to_list_singleton. simpl.
  replace (a * 1)%Qc with a by ring.
  rewrite filter_cons, filter_nil. simpl.
  destruct (qz a) eqn:Z; simpl.
  - apply qz_spec in Z. subst a. rewrite Qcabs_0. f_equal. ring.
  - reflexivity.
Qed.
(** [std1]² is the variance (for these forms) *)
Lemma std1_affine_var_sq E i v a b s :
  std1 E (aff_affine a b (aff_var i v)) = Some s →
  (s * s = variance E (aff_affine a b (aff_var i v)))%Qc.
Proof.
  rewrite std1_affine_var. intros [= <-]. rewrite variance_affine, variance_var.
  transitivity (Qcabs a * Qcabs a * (default 0 (E !! i) * default 0 (E !! i)))%Qc; [ring|].
  rewrite Qcabs_sq. reflexivity.
Qed.

(** * Conversion *)
Lemma uc_eqb_refl (u : uc) : uc_eqb u u = true.
Proof. apply uc_eqb_spec. reflexivity. Qed.
Lemma conv_affine_same r u : conv_affine r u u = Ok (1%Qc, 0%Qc).
Proof. unfold conv_affine. rewrite uc_eqb_refl. reflexivity. Qed.

(** the measurement converts like the plain quantity; σ² scales by the square of the slope *)
Lemma meas_to_spec r m dst m' :
  meas_to r m dst = Ok m' →
  ∃ a b, conv_affine r (m_units m) dst = Ok (a, b)
       ∧ m_units m' = dst
       ∧ nom (m_mag m') = (a * nom (m_mag m) + b)%Qc
       ∧ qty_to r (nom (m_mag m)) (m_units m) dst = Ok (nom (m_mag m'))
       ∧ (∀ E, variance E (m_mag m') = (a * a * variance E (m_mag m))%Qc)
       ∧ (∀ E m2, covariance E (m_mag m') m2 = (a * covariance E (m_mag m) m2)%Qc).
Proof.
  unfold meas_to, qty_to. destruct (conv_affine r (m_units m) dst) as [[a b]|e] eqn:C; simpl; [|discriminate].
  intros [= <-]. exists a, b. simpl. repeat split; try reflexivity.
  - intros E. apply variance_affine.
  - intros E m2. apply covariance_affine_l.
Qed.
Lemma meas_to_err r m dst e :
  conv_affine r (m_units m) dst = Err e → meas_to r m dst = Err e.
Proof. unfold meas_to. intros ->. reflexivity. Qed.

(** * Constructors *)
Lemma check_err_ok v e u : (0 <= e)%Qc → check_err v e u = Ok (v, e, u).
Proof. intros H. unfold check_err. apply qltb_false in H. rewrite H. reflexivity. Qed.
Lemma check_err_neg v e u : (e < 0)%Qc → check_err v e u = Err EValue.
Proof. intros H. unfold check_err. apply qltb_spec in H. rewrite H. reflexivity. Qed.
Lemma check_err_inv v e u x : check_err v e u = Ok x → x = (v, e, u) ∧ (0 <= e)%Qc.
Proof.
  unfold check_err. destruct (qltb e 0) eqn:L; [discriminate|]. intros [= <-].
  split; [reflexivity | apply qltb_false; exact L].
Qed.

Lemma err_in_same r e u : err_in r (EQty e u) u = Ok e.
Proof. unfold err_in, qty_to. rewrite conv_affine_same. simpl. f_equal. ring. Qed.

(** all forms that denote "value v, absolute error e, units u" normalise alike *)
Lemma ctor_forms_agree r v e u :
  let ref := ctor_norm r (CNums v (ENum e) u) in
  ctor_norm r (CQty v u (ENum e)) = ref
  ∧ ctor_norm r (CQty v u (EQty e u)) = ref
  ∧ ctor_norm r (CNums v (EQty e u) u) = ref
  ∧ ctor_norm r (CUfloat v e u) = ref
  ∧ ctor_norm r (CQtyU v e u) = ref
  ∧ ctor_norm r (CPlusMinus v u (ENum e) false) = ref
  ∧ ctor_norm r (CPlusMinus v u (EQty e u) false) = ref
  ∧ ctor_norm r (CBare v (ENum e)) = ctor_norm r (CNums v (ENum e) ∅)
  ∧ (v ≠ 0%Qc → ctor_norm r (CPlusMinus v u (ENum (e / Qcabs v)) true) = ref).
Proof.
  cbv beta iota zeta delta [ctor_norm]. rewrite !err_in_same. simpl. repeat split; try reflexivity.
  intros Hv. f_equal. field. apply Qcabs_nonzero. exact Hv.
Qed.
(** an error given as a Quantity in another unit is the converted number *)
Lemma ctor_error_quantity r v e eu u x :
  qty_to r e eu u = Ok x →
  ctor_norm r (CNums v (EQty e eu) u) = ctor_norm r (CNums v (ENum x) u)
  ∧ ctor_norm r (CQty v u (EQty e eu)) = ctor_norm r (CNums v (ENum x) u)
  ∧ ctor_norm r (CPlusMinus v u (EQty e eu) false) = ctor_norm r (CNums v (ENum x) u).
Proof. intros H. simpl. rewrite H. simpl. repeat split; reflexivity. Qed.

Lemma ctor_norm_nonneg r c v s u : ctor_norm r c = Ok (v, s, u) → (0 <= s)%Qc.
Proof.
  destruct c as [v0 vu e|v0 e u0|v0 e|v0 s0 u0|v0 s0 u0|v0 vu e rel]; simpl.
  - destruct (err_in r e vu); simpl; [|discriminate]. intros H. apply check_err_inv in H as [[= _ <- _] P]. exact P.
  - destruct (err_in r e u0); simpl; [|discriminate]. intros H. apply check_err_inv in H as [[= _ <- _] P]. exact P.
  - destruct (err_in r e ∅); simpl; [|discriminate]. intros H. apply check_err_inv in H as [[= _ <- _] P]. exact P.
  - intros H. apply check_err_inv in H as [[= _ <- _] P]. exact P.
  - intros H. apply check_err_inv in H as [[= _ <- _] P]. exact P.
  - destruct e as [x|x eu].
    + intros H. apply check_err_inv in H as [[= _ <- _] P]. exact P.
    + destruct rel; [discriminate|]. destruct (err_in r (EQty x eu) vu); simpl; [|discriminate].
      intros H. apply check_err_inv in H as [[= _ <- _] P]. exact P.
Qed.

Lemma ctor_negative_rejected r v e u :
  (e < 0)%Qc →
  ctor_norm r (CNums v (ENum e) u) = Err EValue
  ∧ ctor_norm r (CQty v u (ENum e)) = Err EValue
  ∧ ctor_norm r (CQty v u (EQty e u)) = Err EValue
  ∧ ctor_norm r (CBare v (ENum e)) = Err EValue
  ∧ ctor_norm r (CUfloat v e u) = Err EValue
  ∧ ctor_norm r (CQtyU v e u) = Err EValue
  ∧ ctor_norm r (CPlusMinus v u (ENum e) false) = Err EValue
  ∧ (v ≠ 0%Qc → ctor_norm r (CPlusMinus v u (ENum e) true) = Err EValue).
Proof.
  intros H. cbv beta iota zeta delta [ctor_norm]. rewrite !err_in_same. simpl. rewrite !check_err_neg by exact H.
  repeat split; try reflexivity. intros Hv. apply check_err_neg.
  assert (P : (0 < Qcabs v)%Qc).
  { destruct (Qcle_lt_or_eq _ _ (Qcabs_nonneg v)) as [L|Eq]; [exact L|].
    exfalso. apply Hv. apply Qcabs_null. symmetry. exact Eq. }
  replace 0%Qc with (0 * Qcabs v)%Qc by ring.
  apply Qcmult_lt_compat_r; assumption.
Qed.

(** accessors of a freshly constructed measurement *)
Lemma accessors_spec E i v s u :
  let m := meas_new i (v, s, u) in
  let E' := env_new E i (v, s, u) in
  m_value m = (v, u)
  ∧ m_error E' m = Some (s, u)
  ∧ variance E' (m_mag m) = (s * s)%Qc
  ∧ (v ≠ 0%Qc → m_rel E' m = Ok (Qcabs (s / v)))
  ∧ (v = 0%Qc → m_rel E' m = Err EZeroDiv).
Proof.
  simpl. unfold m_value, m_error, m_rel, meas_new, env_new. simpl.
  rewrite std1_var, variance_var, lookup_insert. simpl.
  repeat split; try reflexivity.
  - intros Hv. apply qz_false in Hv. rewrite Hv. reflexivity.
  - intros ->. reflexivity.
Qed.

(** after conversion: value like the plain quantity, σ scaled by |slope|, rel unchanged when
    the conversion is multiplicative *)
Lemma convert_fresh_spec r E i v s u dst m' :
  let m := meas_new i (v, s, u) in
  let E' := env_new E i (v, s, u) in
  meas_to r m dst = Ok m' →
  ∃ a b, conv_affine r u dst = Ok (a, b)
    ∧ m_value m' = ((a * v + b)%Qc, dst)
    ∧ qty_to r v u dst = Ok (a * v + b)%Qc
    ∧ m_error E' m' = Some ((Qcabs a * s)%Qc, dst)
    ∧ variance E' (m_mag m') = (a * a * (s * s))%Qc
    ∧ (b = 0%Qc → a ≠ 0%Qc → v ≠ 0%Qc → m_rel E' m' = m_rel E' m).
Proof.
  simpl. intros H. unfold meas_to in H. simpl in H.
  destruct (conv_affine r u dst) as [[a b]|e] eqn:C; simpl in H; [|discriminate].
  injection H as <-. exists a, b. unfold m_value, m_error, m_rel, qty_to, meas_new, env_new. simpl.
  rewrite std1_affine_var, std1_var, variance_affine, variance_var, lookup_insert. simpl.
  repeat split; try reflexivity.
  { rewrite C. reflexivity. }
  intros -> Ha Hv.
  assert (Hav : (a * v + 0)%Qc ≠ 0%Qc).
  { replace (a * v + 0)%Qc with (a * v)%Qc by ring. intros Z.
    destruct (Qcmult_integral _ _ Z); contradiction. }
  apply qz_false in Hav as Z1. apply qz_false in Hv as Z2. rewrite Z1, Z2. f_equal.
  rewrite !Qcabs_div by assumption.
  replace (a * v + 0)%Qc with (a * v)%Qc by ring.
  rewrite !Qcabs_Qcmult. rewrite (Qcabs_pos (Qcabs a)) by apply Qcabs_nonneg.
  field. split; apply Qcabs_nonzero; assumption.
Qed.

(** * Arithmetic on measurements *)
Lemma meas_muldiv_spec blind r m1 m2 m :
  meas_muldiv blind false r m1 m2 = Ok m →
  m_units m = uc_mul (m_units m1) (m_units m2)
  ∧ m_mag m = aff_mul (m_mag m1) (m_mag m2).
Proof.
  unfold meas_muldiv. destruct (has_offset r (m_units m1)); simpl; [|discriminate].
  destruct (has_offset r (m_units m2)); simpl; [|discriminate].
  destruct (negb blind && (a || a0)); [discriminate|]. intros [= <-]. split; reflexivity.
Qed.
Lemma meas_div_spec blind r m1 m2 m :
  meas_muldiv blind true r m1 m2 = Ok m →
  m_units m = uc_div (m_units m1) (m_units m2)
  ∧ aff_div (m_mag m1) (m_mag m2) = Ok (m_mag m).
Proof.
  unfold meas_muldiv. destruct (has_offset r (m_units m1)); simpl; [|discriminate].
  destruct (has_offset r (m_units m2)); simpl; [|discriminate].
  destruct (negb blind && (a || a0)); [discriminate|].
  destruct (aff_div (m_mag m1) (m_mag m2)); simpl; [|discriminate]. intros [= <-]. split; reflexivity.
Qed.

(** addition / subtraction: one operand is converted (affinely) into the other's units *)
Lemma meas_addsub_spec blind sub r m1 m2 m :
  meas_addsub blind sub r m1 m2 = Ok m →
  ∃ a1 b1 a2 b2,
    let x1 := aff_affine a1 b1 (m_mag m1) in
    let x2 := aff_affine a2 b2 (m_mag m2) in
    ((m_units m = m_units m1 ∧ a1 = 1%Qc ∧ b1 = 0%Qc ∧ conv_affine r (m_units m2) (m_units m1) = Ok (a2, b2))
     ∨ (m_units m = m_units m2 ∧ a2 = 1%Qc ∧ b2 = 0%Qc ∧ conv_affine r (m_units m1) (m_units m2) = Ok (a1, b1)))
    ∧ nom (m_mag m) = (if sub then nom x1 - nom x2 else nom x1 + nom x2)%Qc
    ∧ ∀ E, variance E (m_mag m)
           = (if sub then variance E x1 + variance E x2 - 2 * covariance E x1 x2
              else variance E x1 + variance E x2 + 2 * covariance E x1 x2)%Qc.
Proof.
  unfold meas_addsub.
  destruct (dim_of r (m_units m1)) as [d1|]; simpl; [|discriminate].
  destruct (dim_of r (m_units m2)) as [d2|]; simpl; [|discriminate].
  destruct (negb (uc_eqb d1 d2)); [discriminate|].
  destruct (has_offset r (m_units m1)) as [o1|]; simpl; [|discriminate].
  destruct (has_offset r (m_units m2)) as [o2|]; simpl; [|discriminate].
  destruct (negb blind && (o1 || o2)); [discriminate|].
  assert (Hid : ∀ a : aff, aff_affine 1 0 a = a → True) by (intros; exact I).
  assert (Naff : ∀ a, nom (aff_affine 1 0 a) = nom a) by (intros a; simpl; ring).
  assert (Vaff : ∀ E a, variance E (aff_affine 1 0 a) = variance E a)
    by (intros E a; rewrite variance_affine; ring).
  assert (Caff : ∀ E a b, covariance E (aff_affine 1 0 a) b = covariance E a b)
    by (intros E a b; rewrite covariance_affine_l; ring).
  assert (Caffr : ∀ E a b, covariance E a (aff_affine 1 0 b) = covariance E a b)
    by (intros E a b; rewrite (cov_comm E a), Caff; apply cov_comm).
  destruct (uc_eqb (m_units m1) (m_units m2)) eqn:Equ.
  - apply uc_eqb_spec in Equ. intros [= <-]. exists 1%Qc, 0%Qc, 1%Qc, 0%Qc. simpl. split.
    + left. repeat split; try reflexivity. rewrite <- Equ. apply conv_affine_same.
    + split.
      * destruct sub; simpl; ring.
      * intros E. destruct sub; [rewrite variance_sub | rewrite variance_add];
          rewrite !Vaff, Caff, Caffr; reflexivity.
  - destruct (has_delta (m_units m1) && negb (has_delta (m_units m2))).
    + unfold meas_to. destruct (conv_affine r (m_units m1) (m_units m2)) as [[a b]|] eqn:C; simpl; [|discriminate].
      intros [= <-]. exists a, b, 1%Qc, 0%Qc. simpl. split.
      * right. repeat split; reflexivity.
      * split.
        -- destruct sub; simpl; ring.
        -- intros E. destruct sub; [rewrite variance_sub | rewrite variance_add];
             rewrite !Vaff, Caffr; reflexivity.
    + unfold meas_to. destruct (conv_affine r (m_units m2) (m_units m1)) as [[a b]|] eqn:C; simpl; [|discriminate].
      intros [= <-]. exists 1%Qc, 0%Qc, a, b. simpl. split.
      * left. repeat split; reflexivity.
      * split.
        -- destruct sub; simpl; ring.
        -- intros E. destruct sub; [rewrite variance_sub | rewrite variance_add];
             rewrite !Vaff, Caff; reflexivity.
Qed.
(** the same-units case, the usual reading *)
Lemma meas_addsub_same_units blind sub r m1 m2 m :
  m_units m1 = m_units m2 → meas_addsub blind sub r m1 m2 = Ok m →
  m_units m = m_units m1
  ∧ m_mag m = (if sub then aff_sub else aff_add) (m_mag m1) (m_mag m2).
Proof.
  intros Hu. unfold meas_addsub.
  destruct (dim_of r (m_units m1)) as [d1|]; simpl; [|discriminate].
  destruct (dim_of r (m_units m2)) as [d2|]; simpl; [|discriminate].
  destruct (negb (uc_eqb d1 d2)); [discriminate|].
  destruct (has_offset r (m_units m1)) as [o1|]; simpl; [|discriminate].
  destruct (has_offset r (m_units m2)) as [o2|]; simpl; [|discriminate].
  destruct (negb blind && (o1 || o2)); [discriminate|].
  rewrite Hu, uc_eqb_refl. intros [= <-]. split; reflexivity.
Qed.
Lemma meas_addsub_dim_error blind sub r m1 m2 d1 d2 :
  dim_of r (m_units m1) = Ok d1 → dim_of r (m_units m2) = Ok d2 → d1 ≠ d2 →
  meas_addsub blind sub r m1 m2 = Err EDim.
Proof.
  intros H1 H2 N. unfold meas_addsub. rewrite H1, H2. simpl.
  destruct (uc_eqb d1 d2) eqn:Eq; [apply uc_eqb_spec in Eq; contradiction | reflexivity].
Qed.
(** m − m: nominal 0, variance 0 *)
Lemma meas_sub_self blind r m m' E :
  meas_addsub blind true r m m = Ok m' →
  nom (m_mag m') = 0%Qc ∧ variance E (m_mag m') = 0%Qc ∧ m_units m' = m_units m.
Proof.
  intros H. destruct (meas_addsub_same_units blind true r m m m' eq_refl H) as [U M].
  rewrite M. destruct (variance_sub_self E (m_mag m)) as [V N]. repeat split; assumption.
Qed.

(** * Derived measurements stay correlated with their ancestors *)
Lemma covariance_affine_r E s o a b : covariance E a (aff_affine s o b) = (s * covariance E a b)%Qc.
Proof. rewrite (cov_comm E a), covariance_affine_l. rewrite (cov_comm E b). reflexivity. Qed.
(** re-wrapping keeps the uncertain number: wrap(a) − a has no uncertainty *)
Lemma rewrap_identity E a u :
  m_mag (meas_wrap a u) = a ∧ m_units (meas_wrap a u) = u
  ∧ variance E (aff_sub (m_mag (meas_wrap a u)) a) = 0%Qc
  ∧ covariance E (m_mag (meas_wrap a u)) a = variance E a.
Proof.
  repeat split; try reflexivity. simpl. exact (proj1 (variance_sub_self E a)).
Qed.
(** c·m − m: σ = |c − 1|·σ_m, not the root sum of squares *)
Lemma derived_scale_sub E c a :
  variance E (aff_sub (aff_affine c 0 a) a) = ((c - 1) * (c - 1) * variance E a)%Qc.
Proof. rewrite variance_sub, variance_affine, covariance_affine_l, cov_self. ring. Qed.
(** (m + m) + m: σ = 3·σ_m *)
Lemma derived_add_add E a :
  variance E (aff_add (aff_add a a) a) = ((1 + 1 + 1) * (1 + 1 + 1) * variance E a)%Qc.
Proof.
  unfold variance. simpl. rewrite <- wsum_scale. apply wsum_ext. intros i.
  rewrite !dcoef_dlin. ring.
Qed.
(** m − (m converted there and back): any two conversions whose slopes multiply to one *)
Lemma derived_convert_back E a s1 o1 s2 o2 :
  (s2 * s1 = 1)%Qc →
  variance E (aff_sub a (aff_affine s2 o2 (aff_affine s1 o1 a))) = 0%Qc.
Proof.
  intros H. rewrite variance_sub, !variance_affine, !covariance_affine_r, cov_self.
  replace (s2 * s2 * (s1 * s1 * variance E a))%Qc with ((s2 * s1) * (s2 * s1) * variance E a)%Qc by ring.
  replace (2 * (s2 * (s1 * variance E a)))%Qc with (2 * (s2 * s1) * variance E a)%Qc by ring.
  rewrite H. ring.
Qed.
(** m − m.to(u): one conversion, compared in m's units (the other operand is converted back) *)
Lemma derived_convert_sub E a s o :
  variance E (aff_sub a (aff_affine s o a)) = ((1 - s) * (1 - s) * variance E a)%Qc.
Proof. rewrite variance_sub, variance_affine, covariance_affine_r, cov_self. ring. Qed.
(** (m·t)/m carries exactly t's uncertainty *)
Lemma derived_mul_div E a b c :
  aff_div (aff_mul a b) a = Ok c → variance E c = variance E b ∧ nom c = nom b.
Proof.
  unfold aff_div. simpl. destruct (qz (nom a)) eqn:Z; [discriminate|]. apply qz_false in Z.
  intros [= <-]. split.
  - unfold variance. simpl. apply wsum_ext. intros i. rewrite !dcoef_dlin.
    assert (D : (/ nom a * (nom b * dcoef (der a) i + nom a * dcoef (der b) i)
                 + - (nom a * nom b / (nom a * nom a)) * dcoef (der a) i = dcoef (der b) i)%Qc)
      by (field; exact Z).
    rewrite D. reflexivity.
  - simpl. field. exact Z.
Qed.

(** * Bare (unit-less) uncertain operands *)
Lemma Qcplus_nonneg_zero x y : (0 <= x)%Qc → (0 <= y)%Qc → (x + y = 0)%Qc → x = 0%Qc ∧ y = 0%Qc.
Proof.
  intros Hx Hy H.
  assert (Ex : x = 0%Qc).
  { apply Qcle_antisym; [|exact Hx]. rewrite <- H. replace x with (x + 0)%Qc at 1 by ring.
    apply Qcplus_le_compat; [apply Qcle_refl | exact Hy]. }
  split; [exact Ex|]. rewrite Ex in H. rewrite <- H. ring.
Qed.
Lemma qsum_nonneg_zero {A} (f : A → Qc) l :
  (∀ x, x ∈ l → (0 <= f x)%Qc) → qsum f l = 0%Qc → ∀ x, x ∈ l → f x = 0%Qc.
Proof.
  induction l as [|y l IH]; intros Hn Hs x Hx; [inversion Hx|]. simpl in Hs.
  destruct (Qcplus_nonneg_zero (f y) (qsum f l)) as [Hy Hl].
  - apply Hn. left.
  - apply qsum_nonneg. intros z Hz. apply Hn. right. exact Hz.
  - exact Hs.
  - inversion Hx; subst; [exact Hy|]. apply IH; auto. intros z Hz. apply Hn. right. exact Hz.
Qed.
Lemma Qc_sq_zero_ x : (x * x = 0)%Qc → x = 0%Qc.
Proof. intros H. destruct (Qcmult_integral _ _ H); assumption. Qed.
Lemma sq_nonneg x : (0 <= x * x)%Qc.
Proof. rewrite <- Qcabs_sq. apply Qcmult_nonneg; apply Qcabs_nonneg. Qed.
(** an uncertain number without uncertainty is uncorrelated with everything *)
Lemma covariance_zero_variance E a b : variance E b = 0%Qc → covariance E a b = 0%Qc.
Proof.
  unfold variance, covariance, wsum. intros H. apply qsum_zero. intros [i s] Hin. simpl.
  assert (Hz : (dcoef (der b) i * dcoef (der b) i * (s * s))%Qc = 0%Qc).
  { pose proof (qsum_nonneg_zero (λ iv : atom * Qc, (dcoef (der b) iv.1 * dcoef (der b) iv.1 * (iv.2 * iv.2))%Qc)
             (map_to_list E)) as Q.
    specialize (Q (λ jt _, Qcmult_nonneg _ _ (sq_nonneg _) (sq_nonneg _)) H (i, s) Hin). exact Q. }
  assert (Hp : (dcoef (der b) i * s)%Qc = 0%Qc).
  { apply Qc_sq_zero_. rewrite <- Hz. ring. }
  replace (dcoef (der a) i * dcoef (der b) i * (s * s))%Qc
    with (dcoef (der a) i * s * (dcoef (der b) i * s))%Qc by ring.
  rewrite Hp. ring.
Qed.

Lemma bare_zero_spec E b : bare_zero E b = true ↔ nom b = 0%Qc ∧ variance E b = 0%Qc.
Proof. unfold bare_zero. rewrite andb_true_iff, !qz_spec. reflexivity. Qed.
(** 0 ± s with s > 0 is not a zero *)
Lemma bare_uncertain_not_zero E b : variance E b ≠ 0%Qc → bare_zero E b = false.
Proof.
  intros H. destruct (bare_zero E b) eqn:Z; [|reflexivity]. apply bare_zero_spec in Z as [_ Z]. contradiction.
Qed.
(** a bare number that is not an exact zero cannot be added to a quantity with a dimension *)
Lemma bare_rule_refuses sub r E m b d :
  dim_of r (m_units m) = Ok d → d ≠ ∅ → bare_zero E b = false →
  meas_addsub_bare sub r E m b = Err EDim.
Proof.
  intros Hd Hn Hz. unfold meas_addsub_bare. rewrite Hz, Hd. simpl.
  destruct (uc_eqb d ∅) eqn:Eq; [apply uc_eqb_spec in Eq; contradiction | reflexivity].
Qed.
(** an exact zero is accepted whatever the units and changes neither value nor uncertainty *)
Lemma bare_rule_zero sub r E m b :
  bare_zero E b = true →
  ∃ z, meas_addsub_bare sub r E m b = Ok z ∧ m_units z = m_units m
     ∧ nom (m_mag z) = nom (m_mag m) ∧ variance E (m_mag z) = variance E (m_mag m).
Proof.
  intros Hz. unfold meas_addsub_bare. rewrite Hz. apply bare_zero_spec in Hz as [Hn Hv].
  eexists. split; [reflexivity|]. split; [reflexivity|].
  destruct sub; simpl.
  - split; [rewrite Hn; ring|]. rewrite variance_sub, Hv, (covariance_zero_variance E _ b Hv). ring.
  - split; [rewrite Hn; ring|]. rewrite variance_add, Hv, (covariance_zero_variance E _ b Hv). ring.
Qed.
(** the refusal does not depend on the class of the magnitude: what decides is the dimension *)
Lemma bare_rule_dimensionless sub r E m b m' :
  bare_zero E b = false → dim_of r (m_units m) = Ok ∅ → meas_to r m ∅ = Ok m' →
  meas_addsub_bare sub r E m b = Ok (Meas ((if sub then aff_sub else aff_add) (m_mag m') b) ∅).
Proof.
  intros Hz Hd Ht. unfold meas_addsub_bare. rewrite Hz, Hd. simpl. rewrite uc_eqb_refl, Ht. reflexivity.
Qed.

(** * Histories on one object: reads are transparent *)
Lemma mrun_reads_transparent r ops : ∀ m, mrun r m ops = mrun r m (only_ito ops).
Proof.
  unfold mrun. induction ops as [|o ops IH]; intros m; [reflexivity|].
  destruct o as [|d|]; simpl; apply IH.
Qed.
Lemma mrun_no_ito r m ops : Forall (λ o, is_ito o = false) ops → mrun r m ops = m.
Proof.
  unfold mrun. revert m. induction ops as [|o ops IH]; intros m H; [reflexivity|].
  inversion H as [|? ? Ho Hr]; subst. destruct o; try discriminate; simpl; apply IH; exact Hr.
Qed.
(** after reads and one in-place conversion the accessors report what the out-of-place
    conversion of the untouched measurement reports *)
Lemma mrun_read_ito_read r E m pre post dst m' :
  Forall (λ o, is_ito o = false) pre → Forall (λ o, is_ito o = false) post →
  meas_to r m dst = Ok m' →
  observe E (mrun r m (pre ++ OIto dst :: post)) = observe E m'.
Proof.
  intros Hpre Hpost Ht. unfold mrun. rewrite fold_left_app. fold (mrun r m pre).
  rewrite (mrun_no_ito r m pre Hpre). simpl. rewrite Ht. fold (mrun r m' post).
  rewrite (mrun_no_ito r m' post Hpost). reflexivity.
Qed.
Lemma mrun_refused_ito r m dst e : meas_to r m dst = Err e → mrun r m [OIto dst] = m.
Proof. intros H. unfold mrun. simpl. rewrite H. reflexivity. Qed.

(** * [join_unc]: parentheses are added iff absent *)
Lemma join_unc_spec sep lpar rpar m u :
  (String.prefix lpar m = false → ends_with rpar m = false →
     join_unc sep lpar rpar m u = lpar ++ m ++ rpar ++ sep ++ u)
  ∧ (String.prefix lpar m = true ∨ ends_with rpar m = true →
     join_unc sep lpar rpar m u = m ++ sep ++ u).
Proof.
  unfold join_unc. split.
  - intros -> ->. reflexivity.
  - intros [-> | ->]; [reflexivity | rewrite orb_true_r; reflexivity].
Qed.

(** * The Measurement class against the Quantity class: they agree when no offset unit is
    involved (guard of F73) *)
Lemma blind_agrees_addsub sub r m1 m2 :
  has_offset r (m_units m1) = Ok false → has_offset r (m_units m2) = Ok false →
  meas_addsub true sub r m1 m2 = meas_addsub false sub r m1 m2.
Proof. intros H1 H2. unfold meas_addsub. rewrite H1, H2. reflexivity. Qed.
Lemma blind_agrees_muldiv dv r m1 m2 :
  has_offset r (m_units m1) = Ok false → has_offset r (m_units m2) = Ok false →
  meas_muldiv true dv r m1 m2 = meas_muldiv false dv r m1 m2.
Proof. intros H1 H2. unfold meas_muldiv. rewrite H1, H2. reflexivity. Qed.

(** an error Quantity whose conversion is multiplicative (no offset shift) is scaled by the slope *)
Lemma err_in_multiplicative r e eu u a :
  conv_affine r eu u = Ok (a, 0%Qc) → err_in r (EQty e eu) u = Ok (a * e)%Qc.
Proof. intros H. unfold err_in, qty_to. rewrite H. simpl. f_equal. ring. Qed.

(** * A small registry for witnesses (temperatures with offsets, two lengths, a time) *)
Definition mini_defs : list rawdef :=
  [RUnit ["kelvin"; "K"] [TName "[temperature]"; TEnd] [];
   RUnit ["degree_Celsius"; "degC"] [TName "kelvin"; TEnd] [("offset", [TNum "273.15"; TEnd])];
   RUnit ["degree_Fahrenheit"; "degF"] [TNum "5"; TOp "/"; TNum "9"; TOp "*"; TName "kelvin"; TEnd]
         [("offset", [TNum "233.15"; TOp "+"; TNum "200"; TOp "/"; TNum "9"; TEnd])];
   RUnit ["meter"; "m"] [TName "[length]"; TEnd] [];
   RUnit ["centimeter"; "cm"] [TNum "0.01"; TOp "*"; TName "meter"; TEnd] [];
   RUnit ["second"; "s"] [TName "[time]"; TEnd] []].
Definition mini_reg : reg := match load mini_defs with Ok r => r | Err _ => empty_reg end.
Definition u1 (n : string) : uc := {[ n := 1%Qc ]}.
Definition fresh_m (i : atom) (v : Qc) (u : uc) : meas := Meas (aff_var i v) u.

Ltac by_compute := apply (bool_decide_unpack _); vm_compute; exact I.

Lemma mini_conversions :
  conv_affine mini_reg (u1 "degree_Celsius") (u1 "kelvin") = Ok (1%Qc, mkq 27315 100)
  ∧ conv_affine mini_reg (u1 "degree_Celsius") (u1 "degree_Fahrenheit") = Ok (mkq 9 5, mkq 32 1)
  ∧ conv_affine mini_reg (u1 "centimeter") (u1 "meter") = Ok (mkq 1 100, 0%Qc)
  ∧ conv_affine mini_reg (u1 "meter") (u1 "second") = Err EDim
  ∧ conv_affine mini_reg (u1 "delta_degree_Celsius") (u1 "degree_Celsius") = Err EDim.
Proof. repeat split; by_compute. Qed.

(** F72: a non-negative error given in another temperature unit is shifted by the offset *)
Lemma ctor_offset_error_refuted :
  (0 <= mkq 1 2)%Qc
  ∧ ctor_norm mini_reg (CQty (mkq 20 1) (u1 "degree_Celsius") (EQty (mkq 1 2) (u1 "kelvin"))) = Err EValue
  ∧ ctor_norm mini_reg (CPlusMinus (mkq 20 1) (u1 "degree_Celsius") (EQty (mkq 1 2) (u1 "kelvin")) false) = Err EValue
  ∧ ctor_norm mini_reg (CQty (mkq 20 1) (u1 "degree_Fahrenheit") (EQty (mkq 1 2) (u1 "degree_Celsius")))
    = Ok (mkq 20 1, mkq 329 10, u1 "degree_Fahrenheit")
  ∧ conv_affine mini_reg (u1 "degree_Celsius") (u1 "degree_Fahrenheit") = Ok (mkq 9 5, mkq 32 1)
  ∧ (mkq 9 5 * mkq 1 2)%Qc ≠ mkq 329 10.
Proof. split; [vm_compute; discriminate|]. repeat split; by_compute. Qed.

(** F73: the Measurement class adds and multiplies offset quantities that the Quantity class refuses *)
Definition is_ok {A} (x : res A) : bool := match x with Ok _ => true | Err _ => false end.
Definition res_nom (x : res meas) : option Qc := match x with Ok m => Some (nom (m_mag m)) | Err _ => None end.
Definition res_units (x : res meas) : option uc := match x with Ok m => Some (m_units m) | Err _ => None end.
Definition res_var (E : venv) (x : res meas) : option Qc :=
  match x with Ok m => Some (variance E (m_mag m)) | Err _ => None end.
Lemma offset_rules_refuted :
  let a := fresh_m 1 (mkq 20 1) (u1 "degree_Celsius") in
  let b := fresh_m 2 (mkq 10 1) (u1 "degree_Celsius") in
  res_nom (meas_addsub true false mini_reg a b) = Some (mkq 30 1)
  ∧ res_units (meas_addsub true false mini_reg a b) = Some (u1 "degree_Celsius")
  ∧ meas_addsub false false mini_reg a b = Err EOffset
  ∧ is_ok (meas_muldiv true false mini_reg a b) = true
  ∧ meas_muldiv false false mini_reg a b = Err EOffset.
Proof.
  cbv zeta. split; [by_compute|]. split; [by_compute|].
  split; [vm_compute; reflexivity|]. split; vm_compute; reflexivity.
Qed.

(** non-vacuity: 4.00 ± 0.10 m in centimetres, and twice the same measurement *)
Lemma mini_example :
  let E : venv := {[ 1%positive := mkq 1 10 ]} in
  let m := fresh_m 1 (mkq 4 1) (u1 "meter") in
  let m' := meas_to mini_reg m (u1 "centimeter") in
  res_nom m' = Some (mkq 400 1) ∧ res_units m' = Some (u1 "centimeter")
  ∧ (m'' ← (match m' with Ok x => Some x | Err _ => None end); m_error E m'') = Some (mkq 10 1, u1 "centimeter")
  ∧ (match m' with Ok x => m_rel E x | Err e => Err e end) = Ok (mkq 1 40)
  ∧ m_rel E m = Ok (mkq 1 40)
  ∧ res_var E (meas_addsub true false mini_reg m m) = Some (mkq 4 100)
  ∧ res_var E (meas_addsub true true mini_reg m m) = Some 0%Qc
  ∧ ctor_norm mini_reg (CQty (mkq 4 1) (u1 "meter") (EQty (mkq 10 1) (u1 "centimeter")))
    = Ok (mkq 4 1, mkq 1 10, u1 "meter").
Proof. cbv zeta. repeat split; by_compute. Qed.

(** on the registry regenerated from /repo *)
Lemma default_registry_example :
  conv_affine default_reg (u1 "degree_Celsius") (u1 "degree_Fahrenheit") = Ok (mkq 9 5, mkq 32 1)
  ∧ conv_affine default_reg (u1 "inch") (u1 "centimeter") = Ok (mkq 254 100, 0%Qc)
  ∧ conv_affine default_reg (u1 "degree_Celsius") (u1 "kelvin") = Ok (1%Qc, mkq 27315 100)
  ∧ ctor_norm default_reg (CQty (mkq 4 1) (u1 "meter") (EQty (mkq 10 1) (u1 "centimeter")))
    = Ok (mkq 4 1, mkq 1 10, u1 "meter").
Proof. by_compute. Qed.
