(** Proofs/NamesProofs.v — lemmas about unit-name resolution (C08). *)
From Coq Require Import Ascii String Lia.
From PintV Require Import Model.UC Model.Eval Model.Registry Model.Names.
Open Scope nat_scope.
Open Scope string_scope.

(** * Strings *)
Lemma app_cons c (a b : string) : String c a ++ b = String c (a ++ b).
Proof. reflexivity. Qed.
Lemma app_nil (b : string) : "" ++ b = b.
Proof. reflexivity. Qed.

Lemma substring_0_length s : substring 0 (String.length s) s = s.
Proof. induction s as [|c s IH]; cbn; [reflexivity | rewrite IH; reflexivity]. Qed.
Lemma substring_skip p : ∀ n t, substring (String.length p) n (p ++ t) = substring 0 n t.
Proof. induction p as [|c p IH]; intros n t; [reflexivity | rewrite app_cons; cbn; apply IH]. Qed.
Lemma substring_take t : ∀ x, substring 0 (String.length t) (t ++ x) = t.
Proof.
  induction t as [|c t IH]; intros x.
  - rewrite app_nil. destruct x; reflexivity.
  - rewrite app_cons. cbn. rewrite IH. reflexivity.
Qed.
Lemma length_app (a b : string) : String.length (a ++ b) = String.length a + String.length b.
Proof. induction a as [|c a IH]; [reflexivity | rewrite app_cons; cbn; rewrite IH; reflexivity]. Qed.
Lemma app_assoc_s (a b c : string) : (a ++ b) ++ c = a ++ (b ++ c).
Proof. induction a as [|x a IH]; [reflexivity | rewrite !app_cons, IH; reflexivity]. Qed.
Lemma app_empty_r (a : string) : a ++ "" = a.
Proof. induction a as [|x a IH]; [reflexivity | rewrite app_cons, IH; reflexivity]. Qed.

Lemma prefix_spec p : ∀ s, String.prefix p s = true ↔ ∃ t, s = p ++ t.
Proof.
  induction p as [|c p IH]; intros s.
  - split; [intros _; exists s; reflexivity | intros _; destruct s; reflexivity].
  - destruct s as [|d s]; [split; [discriminate | intros [t H]; discriminate]|].
    cbn. destruct (ascii_dec c d) as [->|N].
    + rewrite IH. split; intros [t H]; exists t; [rewrite H; reflexivity | rewrite app_cons in H; injection H; auto].
    + split; [discriminate | intros [t H]; rewrite app_cons in H; injection H; intros; congruence].
Qed.

Lemma str_drop_app p t : str_drop (String.length p) (p ++ t) = t.
Proof.
  unfold str_drop. rewrite length_app, substring_skip.
  replace (String.length p + String.length t - String.length p) with (String.length t) by lia.
  apply substring_0_length.
Qed.
Lemma str_take_app t x : str_take (String.length (t ++ x) - String.length x) (t ++ x) = t.
Proof.
  unfold str_take. rewrite length_app.
  replace (String.length t + String.length x - String.length x) with (String.length t) by lia.
  apply substring_take.
Qed.

Lemma ends_with_app t x : ends_with x (t ++ x) = true.
Proof.
  unfold ends_with. rewrite length_app.
  replace (String.length t + String.length x - String.length x) with (String.length t) by lia.
  rewrite substring_skip, substring_0_length, String.eqb_refl.
  apply andb_true_intro. split; [apply Nat.leb_le; lia | reflexivity].
Qed.
Lemma substring_split s : ∀ n, n ≤ String.length s →
  s = substring 0 n s ++ substring n (String.length s - n) s.
Proof.
  induction s as [|c s IH]; intros n Hn; cbn in *.
  - assert (n = 0) as -> by lia. reflexivity.
  - destruct n as [|n]; cbn.
    + rewrite app_nil, substring_0_length. reflexivity.
    + rewrite app_cons, <- IH by lia. reflexivity.
Qed.
Lemma ends_with_spec x s : ends_with x s = true ↔ ∃ t, s = t ++ x.
Proof.
  split.
  - unfold ends_with. intros H. apply andb_prop in H as [H1 H2].
    apply Nat.leb_le in H1. apply String.eqb_eq in H2.
    exists (substring 0 (String.length s - String.length x) s).
    pose proof (substring_split s (String.length s - String.length x) ltac:(lia)) as Hs.
    replace (String.length s - (String.length s - String.length x)) with (String.length x) in Hs by lia.
    rewrite H2 in Hs. exact Hs.
  - intros [t ->]. apply ends_with_app.
Qed.

(** if [pk ++ t] ends with [x] and [x] fits inside [t], then [t] ends with [x] *)
Lemma app_eq_app_suffix pk : ∀ t t' x, pk ++ t = t' ++ x → String.length x ≤ String.length t → ∃ n, t = n ++ x.
Proof.
  induction pk as [|c pk IH]; intros t t' x H L.
  - rewrite app_nil in H. eauto.
  - destruct t' as [|d t'].
    + rewrite app_nil in H. subst x. rewrite app_cons in L. cbn in L. rewrite length_app in L. lia.
    + rewrite !app_cons in H. injection H as _ H. eauto.
Qed.

(** the name computed by the loop body is the middle of the decomposition *)
Lemma strip_name_app pk name suffix : strip_name (pk ++ name ++ suffix) pk suffix = name.
Proof.
  unfold strip_name. rewrite str_drop_app.
  destruct (String.eqb suffix "") eqn:E.
  - apply String.eqb_eq in E. subst. apply app_empty_r.
  - apply str_take_app.
Qed.
Lemma strip_name_decomp s pk suffix :
  String.prefix pk s = true → ends_with suffix s = true →
  String.length pk + String.length suffix ≤ String.length s →
  s = pk ++ strip_name s pk suffix ++ suffix.
Proof.
  intros Hp He L. apply prefix_spec in Hp as [t ->]. apply ends_with_spec in He as [t' He].
  rewrite length_app in L.
  destruct (app_eq_app_suffix pk t t' suffix He ltac:(lia)) as [n ->].
  rewrite strip_name_app. reflexivity.
Qed.
(** overlapping prefix and suffix leave the empty name *)
Lemma strip_name_overlap s pk suffix :
  String.length s < String.length pk + String.length suffix → String.prefix pk s = true →
  strip_name s pk suffix = "" ∨ suffix = "".
Proof.
  intros L Hp. apply prefix_spec in Hp as [t ->]. rewrite length_app in L.
  unfold strip_name. rewrite str_drop_app.
  destruct (String.eqb suffix "") eqn:E; [right; apply String.eqb_eq; exact E | left].
  unfold str_take. replace (String.length t - String.length suffix) with 0 by lia.
  destruct t; reflexivity.
Qed.

(** * Pairs *)
Lemma pair_eqb_spec a b : pair_eqb a b = true ↔ a = b.
Proof.
  unfold pair_eqb. destruct a as [a1 a2], b as [b1 b2]; simpl.
  rewrite andb_true_iff, !String.eqb_eq. split; [intros [-> ->]; reflexivity | intros [= -> ->]; auto].
Qed.
Lemma pair_eqb_refl a : pair_eqb a a = true.
Proof. apply pair_eqb_spec. reflexivity. Qed.
Lemma existsb_pair x l : existsb (pair_eqb x) l = true ↔ x ∈ l.
Proof.
  rewrite existsb_exists. split.
  - intros (y & Hy & E). apply pair_eqb_spec in E. subst. apply elem_of_list_In. exact Hy.
  - intros H. exists x. split; [apply elem_of_list_In; exact H | apply pair_eqb_refl].
Qed.

(** * [triplets]: one cell of the suffix x prefix loop, and the readings it yields *)
Definition cell (r : reg) (s suffix pk : string) : list (string * string) :=
  if String.prefix pk s && ends_with suffix s then
    let name := strip_name s pk suffix in
    if plural_guard suffix name then []
    else match r_units r !! name, r_prefixes r !! pk with
         | Some d, Some p => [(p_name p, u_name d)]
         | _, _ => []
         end
  else [].
Lemma triplets_cells r s :
  triplets r s = flat_map (λ suffix, flat_map (cell r s suffix) (r_prefix_keys r)) suffixes.
Proof. reflexivity. Qed.

Definition cell_reading (r : reg) (s suffix pk p u : string) : Prop :=
  String.prefix pk s = true ∧ ends_with suffix s = true ∧
  plural_guard suffix (strip_name s pk suffix) = false ∧
  ∃ pd d, r_prefixes r !! pk = Some pd ∧ r_units r !! strip_name s pk suffix = Some d ∧
          p = p_name pd ∧ u = u_name d.
Lemma in_cell r s suffix pk p u : In (p, u) (cell r s suffix pk) ↔ cell_reading r s suffix pk p u.
Proof.
  unfold cell, cell_reading.
  destruct (String.prefix pk s) eqn:E1; simpl; [|split; [intros [] | intros (H & _); discriminate]].
  destruct (ends_with suffix s) eqn:E2; simpl; [|split; [intros [] | intros (_ & H & _); discriminate]].
  destruct (plural_guard suffix (strip_name s pk suffix)) eqn:E3; [split; [intros [] | intros (_ & _ & H & _); discriminate]|].
  destruct (r_units r !! strip_name s pk suffix) as [d|] eqn:E4.
  - destruct (r_prefixes r !! pk) as [pd|] eqn:E5.
    + split.
      * intros [[= <- <-]|[]]. repeat split; eauto 10.
      * intros (_ & _ & _ & pd' & d' & [= <-] & [= <-] & -> & ->). left. reflexivity.
    + split; [intros [] | intros (_ & _ & _ & pd' & d' & H & _); discriminate].
  - split; [intros [] | intros (_ & _ & _ & pd' & d' & _ & H & _); discriminate].
Qed.

(** the raw reading: what the loop computes, in table order *)
Definition raw_reading (r : reg) (s p u : string) : Prop :=
  ∃ suffix pk, In suffix suffixes ∧ In pk (r_prefix_keys r) ∧ cell_reading r s suffix pk p u.
Lemma in_triplets r s p u : In (p, u) (triplets r s) ↔ raw_reading r s p u.
Proof.
  rewrite triplets_cells, in_flat_map. unfold raw_reading. split.
  - intros (suffix & Hs & H). apply in_flat_map in H as (pk & Hpk & H). apply in_cell in H. eauto.
  - intros (suffix & pk & Hs & Hpk & H). exists suffix. split; [exact Hs|].
    apply in_flat_map. exists pk. split; [exact Hpk | apply in_cell; exact H].
Qed.

(** * The statement's reading: prefix spelling ++ unit spelling ++ suffix *)
Definition reading (r : reg) (s p u : string) : Prop :=
  ∃ p' u' suffix pd d,
    s = p' ++ u' ++ suffix ∧ In suffix suffixes ∧
    In p' (r_prefix_keys r) ∧ r_prefixes r !! p' = Some pd ∧ p_name pd = p ∧
    r_units r !! u' = Some d ∧ u_name d = u ∧
    ¬ (suffix ≠ "" ∧ ulen u' = 1).

Lemma plural_guard_false suffix name : plural_guard suffix name = false ↔ ¬ (suffix ≠ "" ∧ ulen name = 1).
Proof.
  unfold plural_guard. destruct (String.eqb suffix "") eqn:E; simpl.
  - apply String.eqb_eq in E. split; [intros _ [H _]; congruence | reflexivity].
  - apply String.eqb_neq in E. destruct (Nat.eqb (ulen name) 1) eqn:E2.
    + apply Nat.eqb_eq in E2. split; [discriminate | intros H; exfalso; apply H; auto].
    + apply Nat.eqb_neq in E2. split; [intros _ [_ H]; congruence | reflexivity].
Qed.

Lemma reading_raw r s p u : reading r s p u → raw_reading r s p u.
Proof.
  intros (p' & u' & suffix & pd & d & -> & Hs & Hk & Hp & <- & Hu & <- & G).
  exists suffix, p'. split; [exact Hs|]. split; [exact Hk|].
  unfold cell_reading. rewrite strip_name_app.
  split; [apply prefix_spec; eauto|]. split; [rewrite <- app_assoc_s; apply ends_with_app|].
  split; [apply plural_guard_false; exact G|]. eauto 10.
Qed.
(** conversely, provided the empty string is not a unit spelling (prefix and suffix may overlap
    on strings such as "s" when "s" is also a prefix; the loop then looks the empty name up) *)
Lemma raw_reading_reading r s p u : r_units r !! "" = None → raw_reading r s p u → reading r s p u.
Proof.
  intros Hne (suffix & pk & Hs & Hk & Hp & He & G & pd & d & Hpd & Hd & -> & ->).
  destruct (le_lt_dec (String.length pk + String.length suffix) (String.length s)) as [L|L].
  - exists pk, (strip_name s pk suffix), suffix, pd, d.
    split; [apply strip_name_decomp; assumption|]. repeat split; try assumption; try reflexivity.
    apply plural_guard_false. exact G.
  - destruct (strip_name_overlap s pk suffix L Hp) as [E| ->].
    + rewrite E in Hd. congruence.
    + simpl in L. apply prefix_spec in Hp as [t ->]. rewrite length_app in L. lia.
Qed.

(** * [dedup_candidates] *)
Lemma filter_all {A} (P : A → Prop) `{∀ x, Decision (P x)} (l : list A) : (∀ x, P x) → filter P l = l.
Proof. intros HP. induction l as [|x l IH]; [reflexivity|]. rewrite filter_cons_True by apply HP. rewrite IH. reflexivity. Qed.

Lemma in_dkf l : ∀ seen x, x ∈ dedup_keep_first l seen ↔ x ∈ l ∧ x ∉ seen.
Proof.
  induction l as [|y l IH]; intros seen x; simpl.
  - split; [intros H; inversion H | intros [H _]; inversion H].
  - destruct (existsb (pair_eqb y) seen) eqn:E.
    + apply existsb_pair in E. rewrite IH. split.
      * intros [H1 H2]. split; [right; exact H1 | exact H2].
      * intros [H1 H2]. split; [|exact H2]. apply elem_of_cons in H1 as [->|H1]; [contradiction | exact H1].
    + assert (Hy : y ∉ seen) by (intros H; apply existsb_pair in H; congruence).
      rewrite (elem_of_cons (dedup_keep_first l (y :: seen))), IH, (elem_of_cons l), (not_elem_of_cons seen).
      split.
      * intros [->|[H1 [_ H2]]]; [split; [left; reflexivity | exact Hy] | split; [right; exact H1 | exact H2]].
      * intros [[->|H1] H2]; [left; reflexivity|].
        destruct (decide (x = y)) as [->|N]; [left; reflexivity | right]. auto.
Qed.
Lemma nodup_dkf l : ∀ seen, NoDup (dedup_keep_first l seen).
Proof.
  induction l as [|y l IH]; intros seen; simpl; [constructor|].
  destruct (existsb (pair_eqb y) seen); [apply IH|]. constructor; [|apply IH].
  rewrite in_dkf. intros [_ H]. apply H. left.
Qed.

(** [c] removes the unprefixed reading [x] of the same string *)
Definition shadows (c x : string * string) : bool :=
  negb (String.eqb c.1 "") && pair_eqb x ("", c.1 ++ c.2).
Lemma shadows_spec c x : shadows c x = true ↔ c.1 ≠ "" ∧ x = ("", c.1 ++ c.2).
Proof.
  unfold shadows. rewrite andb_true_iff, negb_true_iff, String.eqb_neq, pair_eqb_spec. reflexivity.
Qed.
Definition dstep (acc : list (string * string)) (c : string * string) : list (string * string) :=
  if String.eqb c.1 "" then acc else filter (λ x, negb (pair_eqb x ("", c.1 ++ c.2))) acc.
Lemma dedup_unfold l :
  dedup_candidates l = fold_left dstep (dedup_keep_first l []) (dedup_keep_first l []).
Proof. reflexivity. Qed.
Lemma fold_dstep cs : ∀ acc,
  fold_left dstep cs acc = filter (λ x, forallb (λ c, negb (shadows c x)) cs) acc.
Proof.
  induction cs as [|c cs IH]; intros acc; simpl.
  - symmetry. apply filter_all. intros x. exact I.
  - rewrite IH. unfold dstep. destruct (String.eqb c.1 "") eqn:E.
    + apply list_filter_iff. intros x.
      replace (shadows c x) with false by (unfold shadows; rewrite E; reflexivity). reflexivity.
    + rewrite list_filter_filter. apply list_filter_iff. intros x.
      replace (shadows c x) with (pair_eqb x ("", c.1 ++ c.2)) by (unfold shadows; rewrite E; reflexivity).
      destruct (pair_eqb x ("", c.1 ++ c.2)); simpl; intuition.
Qed.

Definition unshadowed (l : list (string * string)) (x : string * string) : bool :=
  forallb (λ c, negb (shadows c x)) l.
Lemma dedup_filter l :
  dedup_candidates l = filter (λ x, unshadowed (dedup_keep_first l []) x) (dedup_keep_first l []).
Proof. rewrite dedup_unfold, fold_dstep. reflexivity. Qed.

Lemma unshadowed_spec l x :
  unshadowed l x = true ↔ ∀ c, c ∈ l → ¬ (c.1 ≠ "" ∧ x = ("", c.1 ++ c.2)).
Proof.
  unfold unshadowed. rewrite forallb_forall. split.
  - intros H c Hc [N E]. specialize (H c ltac:(apply elem_of_list_In; exact Hc)).
    unfold shadows in H. apply String.eqb_neq in N. rewrite N in H. simpl in H.
    subst x. rewrite pair_eqb_refl in H. discriminate.
  - intros H c Hc. apply elem_of_list_In in Hc. unfold shadows.
    destruct (String.eqb c.1 "") eqn:E; [reflexivity|]. simpl.
    destruct (pair_eqb x ("", c.1 ++ c.2)) eqn:E2; [|reflexivity]. exfalso.
    apply (H c Hc). split; [apply String.eqb_neq; exact E | apply pair_eqb_spec; exact E2].
Qed.
(** membership in the result: a reading that no prefixed reading of the same string shadows *)
Lemma in_dedup l x :
  x ∈ dedup_candidates l ↔ x ∈ l ∧ ∀ c, c ∈ l → ¬ (c.1 ≠ "" ∧ x = ("", c.1 ++ c.2)).
Proof.
  rewrite dedup_filter, elem_of_list_filter, in_dkf. unfold Is_true.
  split.
  - intros [H [Hx _]]. split; [exact Hx|]. intros c Hc.
    destruct (unshadowed _ x) eqn:E; [|contradiction].
    apply (proj1 (unshadowed_spec _ x) E). apply in_dkf. split; [exact Hc | apply not_elem_of_nil].
  - intros [Hx H]. split; [|split; [exact Hx | apply not_elem_of_nil]].
    replace (unshadowed (dedup_keep_first l []) x) with true; [exact I|]. symmetry.
    apply unshadowed_spec. intros c Hc. apply in_dkf in Hc as [Hc _]. auto.
Qed.
Lemma nodup_dedup l : NoDup (dedup_candidates l).
Proof. rewrite dedup_filter. apply NoDup_filter, nodup_dkf. Qed.
(** prefixed readings are never removed *)
Lemma in_dedup_prefixed l p u : p ≠ "" → (p, u) ∈ l → (p, u) ∈ dedup_candidates l.
Proof. intros N H. apply in_dedup. split; [exact H|]. intros c _ [_ E]. injection E as E _. congruence. Qed.
Lemma dedup_nil_iff l : dedup_candidates l = [] ↔ l = [].
Proof.
  split; [|intros ->; reflexivity]. intros H. destruct l as [|[p u] l]; [reflexivity|]. exfalso.
  destruct (decide (p = "")) as [->|N].
  - (* an unprefixed reading is removed only by a prefixed one, which stays *)
    destruct (existsb (λ c, shadows c ("", u)) (("", u) :: l)) eqn:Ex.
    + apply existsb_exists in Ex as (c & Hc & Hs). apply shadows_spec in Hs as [Nc E].
      apply elem_of_list_In in Hc.
      assert (Hin : c ∈ dedup_candidates (("", u) :: l)) by (destruct c as [cp cu]; apply in_dedup_prefixed; assumption).
      rewrite H in Hin. inversion Hin.
    + assert (Hin : ("", u) ∈ dedup_candidates (("", u) :: l)).
      { apply in_dedup. split; [left|]. intros c Hc HH. apply shadows_spec in HH.
        assert (existsb (λ c, shadows c ("", u)) (("", u) :: l) = true); [|congruence].
        apply existsb_exists. exists c. split; [apply elem_of_list_In; exact Hc | exact HH]. }
      rewrite H in Hin. inversion Hin.
  - assert (Hin : (p, u) ∈ dedup_candidates ((p, u) :: l)) by (apply in_dedup_prefixed; [exact N | left]).
    rewrite H in Hin. inversion Hin.
Qed.

(** * Candidates of [parse_unit_name] *)
Lemma in_parse_raw r s p u :
  (p, u) ∈ parse_unit_name r s ↔
  raw_reading r s p u ∧ ¬ (p = "" ∧ ∃ p2 u2, raw_reading r s p2 u2 ∧ p2 ≠ "" ∧ u = p2 ++ u2).
Proof.
  unfold parse_unit_name. rewrite in_dedup, elem_of_list_In, in_triplets. split.
  - intros [H1 H2]. split; [exact H1|]. intros [-> (p2 & u2 & Hr & N & ->)].
    apply (H2 (p2, u2)); [apply elem_of_list_In, in_triplets; exact Hr | split; [exact N | reflexivity]].
  - intros [H1 H2]. split; [exact H1|]. intros [p2 u2] Hc [N E]. simpl in *. injection E as -> ->.
    apply H2. split; [reflexivity|]. exists p2, u2. split; [apply in_triplets, elem_of_list_In; exact Hc | auto].
Qed.

Definition shadowed (r : reg) (s p u : string) : Prop :=
  p = "" ∧ ∃ p2 u2, reading r s p2 u2 ∧ p2 ≠ "" ∧ u = p2 ++ u2.

Theorem candidates_sound r s p u :
  r_units r !! "" = None → (p, u) ∈ parse_unit_name r s → reading r s p u ∧ ¬ shadowed r s p u.
Proof.
  intros Hne H. apply in_parse_raw in H as [H1 H2]. split; [apply raw_reading_reading; assumption|].
  intros [-> (p2 & u2 & Hr & N & ->)]. apply H2. split; [reflexivity|]. exists p2, u2. auto using reading_raw.
Qed.
Theorem candidates_complete r s p u :
  r_units r !! "" = None → reading r s p u → ¬ shadowed r s p u → (p, u) ∈ parse_unit_name r s.
Proof.
  intros Hne H1 H2. apply in_parse_raw. split; [apply reading_raw; exact H1|].
  intros [-> (p2 & u2 & Hr & N & ->)]. apply H2. split; [reflexivity|]. exists p2, u2. auto using raw_reading_reading.
Qed.
Theorem candidates_nodup r s : NoDup (parse_unit_name r s).
Proof. apply nodup_dedup. Qed.
Lemma parse_nil_iff r s : parse_unit_name r s = [] ↔ ∀ p u, ¬ raw_reading r s p u.
Proof.
  unfold parse_unit_name. rewrite dedup_nil_iff. split.
  - intros H p u Hr. apply in_triplets in Hr. rewrite H in Hr. exact Hr.
  - intros H. destruct (triplets r s) as [|[p u] l] eqn:E; [reflexivity|]. exfalso.
    apply (H p u). apply in_triplets. rewrite E. left. reflexivity.
Qed.

(** * The generic resolution functions coincide with Model/Registry.v's at the defaults
    (no exact-first [get_symbol], nothing hidden, registration replaces) *)
Lemma g_get_symbol_registry r s : g_get_symbol r false nohid (parse_unit_name r) s = get_symbol r s.
Proof. reflexivity. Qed.
Lemma g_prefixed_def_registry r p u : g_prefixed_def r false nohid (parse_unit_name r) p u = prefixed_def r p u.
Proof. reflexivity. Qed.
(** [Registry.resolve] follows the repaired pint in one respect: a definition already stored under
    prefix ++ unit is used instead of a newly built one.  It is the generic function with the
    "never replace" switch on (nothing hidden), provided the prefixed reading is well formed there:
    the prefix name is a spelling and the unit is multiplicative (the repaired pint tests that
    before it looks the composed name up). *)
Definition composed_ok (r : reg) (s : string) : Prop :=
  ∀ p u l d, parse_unit_name r s = (p, u) :: l → p ≠ "" → r_units r !! (p ++ u) = Some d →
  is_Some (r_prefixes r !! p) ∧ ∃ ud, r_units r !! u = Some ud ∧ u_multiplicative ud = true.
Lemma g_resolve_registry r sx s :
  composed_ok r s → g_resolve r sx nohid true (parse_unit_name r) s = resolve r s.
Proof.
  intros C. unfold g_resolve, resolve, g_exact, nohid. cbv beta iota.
  destruct (r_units r !! s); [reflexivity|].
  destruct (parse_unit_name r s) as [|[p u] l] eqn:El; [reflexivity|].
  destruct (String.eqb p "") eqn:Ep; [reflexivity|]. apply String.eqb_neq in Ep.
  destruct (r_units r !! (p ++ u)) as [d|] eqn:Ec.
  - destruct (C p u l d El Ep Ec) as ([pd ->] & ud & -> & ->). reflexivity.
  - unfold g_prefixed_def, prefixed_def. destruct (r_prefixes r !! p), (r_units r !! u) as [ud|]; try reflexivity.
    destruct (negb (u_multiplicative ud)); [reflexivity|].
    unfold g_get_symbol, g_exact. rewrite Ec. destruct sx; reflexivity.
Qed.
(** the old behaviour (a new definition is built and stored even when the name exists) agrees with
    [Registry.resolve] when the composed name is free *)
Lemma g_resolve_registry_free r s :
  (∀ p u l, parse_unit_name r s = (p, u) :: l → p ≠ "" → r_units r !! (p ++ u) = None) →
  g_resolve r false nohid false (parse_unit_name r) s = resolve r s.
Proof.
  intros C. unfold g_resolve, resolve, g_exact, nohid. cbv beta iota.
  destruct (r_units r !! s); [reflexivity|].
  destruct (parse_unit_name r s) as [|[p u] l] eqn:El; [reflexivity|].
  destruct (String.eqb p "") eqn:Ep; [reflexivity|]. apply String.eqb_neq in Ep.
  rewrite (C p u l eq_refl Ep). reflexivity.
Qed.
Lemma g_register_registry r s : fst (g_register r false nohid false (parse_unit_name r) s) = register r s.
Proof.
  unfold g_register, register, g_exact, nohid. cbv beta iota.
  destruct (r_units r !! s); [reflexivity|].
  destruct (parse_unit_name r s) as [|[p u] l]; [reflexivity|].
  destruct (String.eqb p ""); [reflexivity|]. cbn [andb].
  change (g_prefixed_def r false (λ _, false) (parse_unit_name r) p u) with (prefixed_def r p u).
  destruct (prefixed_def r p u); reflexivity.
Qed.

Lemma lookup_defs_true nr name :
  lookup_defs nr nohid true name = match r_units (n_reg nr) !! name with Some d => [d] | None => [] end.
Proof. reflexivity. Qed.
Lemma flat_map_nil {A B} (l : list A) : flat_map (λ _ : A, @nil B) l = [].
Proof. induction l; [reflexivity | assumption]. Qed.
Definition cell_cs (nr : nreg) (hid : string → bool) (cs : bool) (s suffix pk : string) : list (string * string) :=
  if String.prefix pk s && ends_with suffix s then
    let name := strip_name s pk suffix in
    if plural_guard suffix name then []
    else match r_prefixes (n_reg nr) !! pk with
         | Some p => map (λ d, (p_name p, u_name d)) (lookup_defs nr hid cs name)
         | None => []
         end
  else [].
Lemma triplets_cs_cells nr hid cs s :
  triplets_cs nr hid cs s = flat_map (λ suffix, flat_map (cell_cs nr hid cs s suffix) (r_prefix_keys (n_reg nr))) suffixes.
Proof.
  unfold triplets_cs. apply flat_map_ext. intros suffix. unfold cell_cs.
  destruct (ends_with suffix s).
  - apply flat_map_ext. intros pk. rewrite andb_true_r. reflexivity.
  - symmetry. etransitivity; [|apply (flat_map_nil (r_prefix_keys (n_reg nr)))].
    apply flat_map_ext. intros pk. rewrite andb_false_r. reflexivity.
Qed.
(** with case sensitivity on (and nothing hidden), the case-insensitive index is never consulted *)
Lemma triplets_cs_true nr s : triplets_cs nr nohid true s = triplets (n_reg nr) s.
Proof.
  rewrite triplets_cells, triplets_cs_cells.
  apply flat_map_ext. intros suffix. apply flat_map_ext. intros pk. unfold cell, cell_cs.
  destruct (String.prefix pk s && ends_with suffix s); [|reflexivity]. cbv zeta.
  destruct (plural_guard suffix (strip_name s pk suffix)); [reflexivity|].
  rewrite lookup_defs_true.
  destruct (r_prefixes (n_reg nr) !! pk), (r_units (n_reg nr) !! strip_name s pk suffix); reflexivity.
Qed.
Lemma n_cand_true nr s : n_cand nr nohid true s = parse_unit_name (n_reg nr) s.
Proof. unfold n_cand, parse_unit_name. rewrite triplets_cs_true. reflexivity. Qed.

(** * Exact entries first *)
Lemma resolve_exact r s d : r_units r !! s = Some d → resolve r s = Ok d.
Proof. intros H. unfold resolve. rewrite H. reflexivity. Qed.
Theorem exact_first_name r s d :
  r_units r !! s = Some d → s ≠ "dimensionless" →
  get_name r s = Ok (u_name d) ∧ resolve r s = Ok d ∧ register r s = r.
Proof.
  intros H N. unfold get_name, register. apply String.eqb_neq in N. rewrite N, (resolve_exact _ _ _ H), H.
  auto.
Qed.
(** the repaired [get_symbol] (defect switch on) reports the definition's symbol *)
Theorem exact_first_symbol_repaired r hid cand s d :
  r_units r !! s = Some d → hid s = false → g_get_symbol r true hid cand s = Ok (u_symbol d).
Proof. intros H Hh. unfold g_get_symbol, g_exact. rewrite Hh, H. reflexivity. Qed.

(** the unchanged [get_symbol] goes through the candidates: the exact reading comes first in the
    loop, and survives unless a prefixed reading of the same string shadows it (F45) *)
Lemma cell_exact r s pd0 d :
  r_prefixes r !! "" = Some pd0 → r_units r !! s = Some d → cell r s "" "" = [(p_name pd0, u_name d)].
Proof.
  intros Hp Hu. unfold cell.
  assert (E1 : String.prefix "" s = true) by (destruct s; reflexivity).
  assert (E2 : ends_with "" s = true) by (apply ends_with_spec; exists s; symmetry; apply app_empty_r).
  rewrite E1, E2. cbn [andb]. cbv zeta.
  assert (E3 : strip_name s "" "" = s) by (rewrite <- (app_empty_r s) at 1; apply (strip_name_app "" s "")).
  rewrite E3. cbn [plural_guard String.eqb negb andb]. rewrite Hu, Hp. reflexivity.
Qed.
Lemma dkf_cons_nil x l : dedup_keep_first (x :: l) [] = x :: dedup_keep_first l [x].
Proof. reflexivity. Qed.
Theorem exact_first_symbol_guarded r s d pd0 ks :
  r_prefix_keys r = "" :: ks → r_prefixes r !! "" = Some pd0 → p_name pd0 = "" → p_symbol pd0 = "" →
  r_units r !! s = Some d → r_units r !! u_name d = Some d →
  (∀ p u, raw_reading r s p u → p ≠ "" → p ++ u ≠ u_name d) →
  get_symbol r s = Ok (u_symbol d).
Proof.
  intros Hk Hp Hn Hs Hu Hc Hsh.
  assert (Hhead : ∃ l, parse_unit_name r s = ("", u_name d) :: l).
  { unfold parse_unit_name. rewrite dedup_filter, triplets_cells. cbn [suffixes flat_map]. rewrite Hk. cbn [flat_map].
    rewrite (cell_exact r s pd0 d Hp Hu), Hn. cbn [app]. rewrite dkf_cons_nil.
    rewrite filter_cons_True; [eauto|].
    match goal with |- Is_true ?b => replace b with true; [exact I|] end. symmetry.
    apply unshadowed_spec. intros [p u] Hin [N E]. simpl in *. injection E as E.
    assert (Hr : raw_reading r s p u).
    { apply in_triplets. rewrite triplets_cells. cbn [suffixes flat_map]. rewrite Hk. cbn [flat_map].
      rewrite (cell_exact r s pd0 d Hp Hu), Hn. cbn [app].
      rewrite <- dkf_cons_nil in Hin. apply in_dkf in Hin as [Hin _]. apply elem_of_list_In. exact Hin. }
    apply (Hsh p u Hr N). congruence. }
  destruct Hhead as [l Hl]. unfold get_symbol. rewrite Hl, Hp, Hc, Hs. reflexivity.
Qed.

(** * Prefixed readings *)
Theorem prefix_once r s p u l d :
  r_units r !! s = None → parse_unit_name r s = (p, u) :: l → p ≠ "" → r_units r !! (p ++ u) = None →
  resolve r s = Ok d →
  ∃ pd, r_prefixes r !! p = Some pd ∧
        u_name d = p ++ u ∧ u_scale d = p_val pd ∧ u_ref d = {[ u := 1%Qc ]} ∧ u_conv d = CScale ∧
        r_units (register r s) !! (p ++ u) = Some d.
Proof.
  intros Hs Hl N Hc. unfold resolve, register. rewrite Hs, Hl. apply String.eqb_neq in N. rewrite N, Hc.
  unfold prefixed_def. destruct (r_prefixes r !! p) as [pd|] eqn:Ep; [|discriminate].
  destruct (r_units r !! u) as [ud|] eqn:Eu; [|discriminate].
  destruct (negb (u_multiplicative ud)); [discriminate|].
  destruct (get_symbol r (p ++ u)) as [sym|e]; simpl; [|discriminate].
  intros [= <-]. exists pd. simpl. repeat split; try reflexivity. apply lookup_insert.
Qed.
(** the symbol stored with the lazily registered definition is prefix symbol ++ unit symbol *)
Theorem registered_symbol r p u l d pd ud :
  prefixed_def r p u = Ok d → parse_unit_name r (p ++ u) = (p, u) :: l →
  r_prefixes r !! p = Some pd → r_units r !! u = Some ud → p_symbol pd ++ u_symbol ud ≠ "" →
  u_symbol d = p_symbol pd ++ u_symbol ud.
Proof.
  intros Hd Hl Hp Hu Hne. unfold prefixed_def in Hd. rewrite Hp, Hu in Hd.
  destruct (negb (u_multiplicative ud)); [discriminate|].
  unfold get_symbol in Hd. rewrite Hl, Hp, Hu in Hd. simpl in Hd. injection Hd as <-.
  unfold u_symbol at 1. simpl.
  destruct (String.eqb (p_symbol pd ++ u_symbol ud) "") eqn:E; [|reflexivity].
  apply String.eqb_eq in E. contradiction.
Qed.
Theorem offset_not_prefixable r s p u l pd ud :
  s ≠ "dimensionless" → r_units r !! s = None → parse_unit_name r s = (p, u) :: l → p ≠ "" →
  r_units r !! (p ++ u) = None →
  r_prefixes r !! p = Some pd → r_units r !! u = Some ud → u_multiplicative ud = false →
  get_name r s = Err EOffset ∧ register r s = r.
Proof.
  intros Nd Hs Hl N Hc Hp Hu Hm. unfold get_name, resolve, register.
  apply String.eqb_neq in Nd. apply String.eqb_neq in N.
  rewrite Nd, Hs, Hl, N, Hc. unfold prefixed_def. rewrite Hp, Hu, Hm. auto.
Qed.

(** * Registries whose canonical names are spellings *)
Record wf_canon (r : reg) : Prop := {
  wf_pkeys : ∀ k pd, In k (r_prefix_keys r) → r_prefixes r !! k = Some pd →
             In (p_name pd) (r_prefix_keys r) ∧ ∃ pd', r_prefixes r !! p_name pd = Some pd' ∧ p_name pd' = p_name pd;
  wf_p0 : ∀ pd, r_prefixes r !! "" = Some pd → p_name pd = "";
  wf_units : ∀ k d, r_units r !! k = Some d → ∃ d', r_units r !! u_name d = Some d' ∧ u_name d' = u_name d;
  wf_noempty : r_units r !! "" = None }.
(** … and no canonical unit name is a single character (the plural rule treats those specially) *)
Definition wf_names (r : reg) : Prop :=
  wf_canon r ∧ ∀ k d, r_units r !! k = Some d → ulen (u_name d) ≠ 1.

(** a candidate's components are canonical names that are themselves spellings *)
Lemma raw_reading_canonical r s p u :
  wf_canon r → raw_reading r s p u →
  (In p (r_prefix_keys r) ∧ ∃ pd, r_prefixes r !! p = Some pd ∧ p_name pd = p) ∧
  (∃ d, r_units r !! u = Some d ∧ u_name d = u).
Proof.
  intros W (suffix & pk & _ & Hk & _ & _ & _ & pd & d & Hpd & Hd & -> & ->).
  split; [exact (wf_pkeys r W pk pd Hk Hpd) | exact (wf_units r W _ d Hd)].
Qed.
Lemma canonical_self_reading r p u pd d :
  In p (r_prefix_keys r) → r_prefixes r !! p = Some pd → p_name pd = p →
  r_units r !! u = Some d → u_name d = u → raw_reading r (p ++ u) p u.
Proof.
  intros Hk Hp Hn Hu Hd. apply reading_raw. exists p, u, "", pd, d.
  rewrite app_empty_r. repeat split; try assumption; [left; reflexivity | intros [H _]; congruence].
Qed.
Lemma get_symbol_ok r p u :
  wf_canon r → p ≠ "" →
  (In p (r_prefix_keys r) ∧ ∃ pd, r_prefixes r !! p = Some pd ∧ p_name pd = p) →
  (∃ d, r_units r !! u = Some d ∧ u_name d = u) →
  ∃ sym, get_symbol r (p ++ u) = Ok sym.
Proof.
  intros W N (Hk & pd & Hp & Hn) (d & Hu & Hd).
  assert (Hin : (p, u) ∈ parse_unit_name r (p ++ u)).
  { apply in_parse_raw. split; [eapply canonical_self_reading; eassumption | intros [E _]; congruence]. }
  unfold get_symbol. destruct (parse_unit_name r (p ++ u)) as [|[p3 u3] l] eqn:E; [inversion Hin|].
  assert (H3 : (p3, u3) ∈ parse_unit_name r (p ++ u)) by (rewrite E; left).
  apply in_parse_raw in H3 as [H3 _].
  destruct (raw_reading_canonical r _ _ _ W H3) as [(_ & pd3 & -> & _) (d3 & -> & _)]. eauto.
Qed.

(** the possible outcomes of [get_name] on such a registry *)
Theorem get_name_cases r s :
  wf_canon r → s ≠ "dimensionless" →
  match get_name r s with
  | Ok n => (∃ d, r_units r !! s = Some d ∧ n = u_name d)
            ∨ (r_units r !! s = None ∧ ∃ p u l, parse_unit_name r s = (p, u) :: l ∧
               (n = p ++ u ∨ (p ≠ "" ∧ ∃ d, r_units r !! (p ++ u) = Some d ∧ n = u_name d)))
  | Err e => r_units r !! s = None ∧
             ((e = EUndefined s ∧ parse_unit_name r s = [])
              ∨ (e = EOffset ∧ ∃ p u l ud, parse_unit_name r s = (p, u) :: l ∧ p ≠ "" ∧
                                          r_units r !! (p ++ u) = None ∧
                                          r_units r !! u = Some ud ∧ u_multiplicative ud = false))
  end.
Proof.
  intros W Nd. unfold get_name, resolve. apply String.eqb_neq in Nd. rewrite Nd.
  destruct (r_units r !! s) as [d|] eqn:Es; simpl; [left; eauto|].
  destruct (parse_unit_name r s) as [|[p u] l] eqn:El; simpl; [auto|].
  assert (Hin : (p, u) ∈ parse_unit_name r s) by (rewrite El; left).
  apply in_parse_raw in Hin as [Hr _].
  destruct (raw_reading_canonical r _ _ _ W Hr) as [Hp Hu].
  destruct (String.eqb p "") eqn:Ep.
  - apply String.eqb_eq in Ep. subst p. destruct Hu as (d & Hu & Hd). rewrite Hu. simpl.
    right. split; [reflexivity|]. exists "", u, l. rewrite Hd. auto.
  - apply String.eqb_neq in Ep.
    destruct (r_units r !! (p ++ u)) as [dc|] eqn:Ec; simpl.
    { right. split; [reflexivity|]. exists p, u, l. split; [reflexivity|]. right. eauto. }
    unfold prefixed_def.
    destruct Hp as (Hk & pd & Hp & Hn). destruct Hu as (d & Hu & Hd). rewrite Hp, Hu.
    destruct (u_multiplicative d) eqn:Em; simpl.
    + destruct (get_symbol_ok r p u W Ep) as [sym Hsym]; [eauto | eauto |]. rewrite Hsym. simpl.
      right. split; [reflexivity|]. exists p, u, l. auto.
    + split; [reflexivity|]. right. split; [reflexivity|]. exists p, u, l, d. auto.
Qed.

Theorem undefined_iff r s :
  wf_canon r → s ≠ "dimensionless" →
  (get_name r s = Err (EUndefined s) ↔ r_units r !! s = None ∧ ∀ p u, ¬ reading r s p u).
Proof.
  intros W Nd. pose proof (get_name_cases r s W Nd) as H. split.
  - intros E. rewrite E in H. destruct H as [Hs [[_ Hp]|[HH _]]]; [|discriminate].
    split; [exact Hs|]. intros p u Hr. apply reading_raw in Hr.
    apply (proj1 (parse_nil_iff r s) Hp p u Hr).
  - intros [Hs Hno]. destruct (get_name r s) as [n|e].
    + destruct H as [(d & Hd & _)|(_ & p & u & l & Hl & _)]; [congruence|]. exfalso.
      assert (Hin : (p, u) ∈ parse_unit_name r s) by (rewrite Hl; left).
      apply in_parse_raw in Hin as [Hr _]. apply (Hno p u). apply raw_reading_reading; [apply W | exact Hr].
    + destruct H as [_ [[-> _]|(-> & p & u & l & ud & Hl & _)]]; [reflexivity|]. exfalso.
      assert (Hin : (p, u) ∈ parse_unit_name r s) by (rewrite Hl; left).
      apply in_parse_raw in Hin as [Hr _]. apply (Hno p u). apply raw_reading_reading; [apply W | exact Hr].
Qed.

(** * History: what lookups leave behind *)
Definition reg_with_units (r : reg) (m : gmap string udef) : reg :=
  Reg m (r_unit_names r) (r_prefixes r) (r_prefix_keys r) (r_dims r) (r_base_units r).

Lemma register_cases r s :
  register r s = r ∨
  ∃ p u l d, r_units r !! s = None ∧ parse_unit_name r s = (p, u) :: l ∧ p ≠ "" ∧
             prefixed_def r p u = Ok d ∧ register r s = reg_with_units r (<[p ++ u := d]> (r_units r)).
Proof.
  unfold register. destruct (r_units r !! s) eqn:Es; [left; reflexivity|].
  destruct (parse_unit_name r s) as [|[p u] l] eqn:El; [left; reflexivity|].
  destruct (String.eqb p "") eqn:Ep; [left; reflexivity|].
  destruct (prefixed_def r p u) as [d|e] eqn:Ed; [|left; reflexivity].
  right. exists p, u, l, d. apply String.eqb_neq in Ep. auto.
Qed.
Lemma prefixed_def_shape r p u d :
  prefixed_def r p u = Ok d → u_name d = p ++ u ∧ u_multiplicative d = true.
Proof.
  unfold prefixed_def. destruct (r_prefixes r !! p), (r_units r !! u) as [ud|]; try discriminate.
  destruct (negb (u_multiplicative ud)); [discriminate|].
  destruct (get_symbol r (p ++ u)); simpl; [|discriminate]. intros [= <-]. auto.
Qed.

(** the step stores its definition under a key that was free, or replaces an entry of the same
    canonical name and kind (looking "km" up re-registers "kilometer") *)
Definition register_fresh (r : reg) (s : string) : bool :=
  match r_units r !! s with
  | Some _ => true
  | None =>
      match parse_unit_name r s with
      | (p, u) :: _ =>
          if String.eqb p "" then true else
          match prefixed_def r p u with
          | Ok _ => match r_units r !! (p ++ u) with
                    | None => true
                    | Some d0 => String.eqb (u_name d0) (p ++ u) && u_multiplicative d0
                    end
          | Err _ => true
          end
      | [] => true
      end
  end.
Fixpoint no_overwrite (r : reg) (hist : list string) : bool :=
  match hist with
  | [] => true
  | s :: h => register_fresh r s && no_overwrite (register r s) h
  end.

(** [r'] extends the fresh registry [r] by lazily registered prefix+unit names only *)
Definition canon_prefix (r : reg) (p : string) : Prop :=
  In p (r_prefix_keys r) ∧ ∃ pd, r_prefixes r !! p = Some pd ∧ p_name pd = p.
Definition same_kind (d d' : udef) : Prop :=
  u_name d' = u_name d ∧ u_multiplicative d' = u_multiplicative d.
Record ext (r r' : reg) : Prop := {
  ext_prefixes : r_prefixes r' = r_prefixes r;
  ext_keys : r_prefix_keys r' = r_prefix_keys r;
  ext_old : ∀ k d, r_units r !! k = Some d → ∃ d', r_units r' !! k = Some d' ∧ same_kind d d';
  ext_new : ∀ k d, r_units r' !! k = Some d → r_units r !! k = None →
            u_name d = k ∧ u_multiplicative d = true ∧
            ∃ p u, k = p ++ u ∧ p ≠ "" ∧ canon_prefix r p ∧ ∃ du, r_units r' !! u = Some du ∧ u_name du = u }.

Lemma ext_refl r : ext r r.
Proof. split; auto; [intros k d H; exists d; split; [exact H | split; reflexivity] | intros k d H1 H2; congruence]. Qed.

Lemma app_nonempty (p u : string) : p ≠ "" → p ++ u ≠ "".
Proof. destruct p; [congruence | rewrite app_cons; discriminate]. Qed.

Lemma ext_wf_canon r r' : wf_canon r → ext r r' → wf_canon r'.
Proof.
  intros W E. split.
  - intros k pd. rewrite (ext_keys _ _ E), (ext_prefixes _ _ E). apply (wf_pkeys r W).
  - intros pd. rewrite (ext_prefixes _ _ E). apply (wf_p0 r W).
  - intros k d Hd. destruct (r_units r !! k) as [d0|] eqn:Ek.
    + destruct (ext_old _ _ E k d0 Ek) as (dd & H & Hk1 & _). rewrite H in Hd. injection Hd as <-.
      destruct (wf_units r W k d0 Ek) as (d' & H1 & H2).
      destruct (ext_old _ _ E _ d' H1) as (d'' & H3 & Hk3 & _). exists d''. rewrite Hk1. split; [exact H3 | congruence].
    + destruct (ext_new _ _ E k d Hd Ek) as (Hn & _). exists d. rewrite Hn. auto.
  - destruct (r_units r' !! "") as [d|] eqn:Ed; [|reflexivity]. exfalso.
    destruct (ext_new _ _ E "" d Ed (wf_noempty r W)) as (_ & _ & p & u & Hk & Np & _).
    symmetry in Hk. exact (app_nonempty p u Np Hk).
Qed.

Lemma ext_step r r' s : wf_canon r → ext r r' → register_fresh r' s = true → ext r (register r' s).
Proof.
  intros W E F. destruct (register_cases r' s) as [->|(p & u & l & d & Hs & Hl & Np & Hd & ->)]; [exact E|].
  unfold register_fresh in F. rewrite Hs, Hl in F. apply String.eqb_neq in Np as Np'. rewrite Np', Hd in F.
  pose proof (ext_wf_canon r r' W E) as W'.
  assert (Hin : (p, u) ∈ parse_unit_name r' s) by (rewrite Hl; left).
  apply in_parse_raw in Hin as [Hr _].
  destruct (raw_reading_canonical r' _ _ _ W' Hr) as [Hp (du & Hu & Hdu)].
  destruct (prefixed_def_shape r' p u d Hd) as [Hn Hm].
  (* the entry that may be replaced has the same name and kind as the new one *)
  assert (Hrep : ∀ d0, r_units r' !! (p ++ u) = Some d0 → u_name d0 = p ++ u ∧ u_multiplicative d0 = true).
  { intros d0 H0. rewrite H0 in F. apply andb_prop in F as [F1 F2]. apply String.eqb_eq in F1. auto. }
  (* a canonical unit name stays a spelling of a definition with that name *)
  assert (Hsurv : ∀ x dx, r_units r' !! x = Some dx → u_name dx = x →
                  ∃ dx', <[p ++ u := d]> (r_units r') !! x = Some dx' ∧ u_name dx' = x).
  { intros x dx Hx Hnx. destruct (decide (p ++ u = x)) as [<-|Nx].
    - exists d. rewrite lookup_insert. auto.
    - exists dx. rewrite lookup_insert_ne by exact Nx. auto. }
  split; simpl.
  - apply (ext_prefixes _ _ E).
  - apply (ext_keys _ _ E).
  - intros k d0 Hk. destruct (ext_old _ _ E k d0 Hk) as (d' & Hd' & Hk1 & Hk2).
    destruct (decide (p ++ u = k)) as [<-|Nk].
    + exists d. rewrite lookup_insert. split; [reflexivity|].
      destruct (Hrep d' Hd') as [Hr1 Hr2]. split; congruence.
    + exists d'. rewrite lookup_insert_ne by exact Nk. split; [exact Hd' | split; assumption].
  - intros k d0 Hk Hnone. destruct (decide (p ++ u = k)) as [<-|Nk].
    + rewrite lookup_insert in Hk. injection Hk as <-. split; [exact Hn|]. split; [exact Hm|].
      exists p, u. split; [reflexivity|]. split; [exact Np|]. split.
      * unfold canon_prefix. rewrite <- (ext_keys _ _ E), <- (ext_prefixes _ _ E). exact Hp.
      * exact (Hsurv u du Hu Hdu).
    + rewrite lookup_insert_ne in Hk by exact Nk.
      destruct (ext_new _ _ E k d0 Hk Hnone) as (H1 & H2 & p2 & u2 & H3 & H4 & H5 & du2 & H6 & H7).
      split; [exact H1|]. split; [exact H2|]. exists p2, u2. split; [exact H3|]. split; [exact H4|]. split; [exact H5|].
      exact (Hsurv u2 du2 H6 H7).
Qed.
Lemma ext_history r : ∀ hist r', wf_canon r → ext r r' → no_overwrite r' hist = true → ext r (fold_left register hist r').
Proof.
  induction hist as [|s h IH]; intros r' W E H; simpl in *; [exact E|].
  apply andb_prop in H as [H1 H2]. apply IH; [exact W | apply ext_step; assumption | exact H2].
Qed.

(** * Lists that differ by insertions *)
Inductive ins {A} (X : A → Prop) : list A → list A → Prop :=
| ins_nil : ins X [] []
| ins_keep x l l' : ins X l l' → ins X (x :: l) (x :: l')
| ins_add x l l' : X x → ins X l l' → ins X l (x :: l').
Lemma ins_refl {A} (X : A → Prop) l : ins X l l.
Proof. induction l; constructor; assumption. Qed.
Lemma ins_app {A} (X : A → Prop) a a' b b' : ins X a a' → ins X b b' → ins X (a ++ b)%list (a' ++ b')%list.
Proof. intros Ha Hb. induction Ha; simpl; [exact Hb | constructor; assumption | constructor; assumption]. Qed.
Lemma ins_flat_map {A B} (X : B → Prop) (f g : A → list B) l :
  (∀ a, In a l → ins X (f a) (g a)) → ins X (flat_map f l) (flat_map g l).
Proof.
  induction l as [|a l IH]; intros H; simpl; [constructor|].
  apply ins_app; [apply H; left; reflexivity | apply IH; intros b Hb; apply H; right; exact Hb].
Qed.
Lemma ins_sub {A} (X : A → Prop) l l' x : ins X l l' → x ∈ l → x ∈ l'.
Proof.
  intros H. induction H; intros Hx; [exact Hx | | right; auto].
  apply elem_of_cons in Hx as [->|Hx]; [left | right; auto].
Qed.
Lemma ins_sup {A} (X : A → Prop) l l' x : ins X l l' → x ∈ l' → x ∈ l ∨ X x.
Proof.
  intros H. induction H; intros Hx; [left; exact Hx | |].
  - apply elem_of_cons in Hx as [->|Hx]; [left; left | destruct (IHins Hx); [left; right; assumption | right; assumption]].
  - apply elem_of_cons in Hx as [->|Hx]; [right; assumption | auto].
Qed.

Lemma dkf_cons x l seen :
  dedup_keep_first (x :: l) seen =
  if existsb (pair_eqb x) seen then dedup_keep_first l seen else x :: dedup_keep_first l (x :: seen).
Proof. reflexivity. Qed.

Lemma filter_dkf_ins (P : string * string → bool) (X : string * string → Prop) l l' :
  ins X l l' → (∀ x, X x → P x = false) →
  ∀ seen seen', (∀ y, P y = true → (y ∈ seen ↔ y ∈ seen')) →
  filter (λ x, P x) (dedup_keep_first l' seen') = filter (λ x, P x) (dedup_keep_first l seen).
Proof.
  intros Hins HX. induction Hins as [|x l l' Hins IH|x l l' Hx Hins IH]; intros seen seen' Hs.
  - reflexivity.
  - rewrite !dkf_cons. destruct (P x) eqn:Px.
    + assert (Hb : existsb (pair_eqb x) seen' = existsb (pair_eqb x) seen).
      { destruct (existsb (pair_eqb x) seen') eqn:E1, (existsb (pair_eqb x) seen) eqn:E2; try reflexivity.
        - apply existsb_pair in E1. apply (Hs x Px) in E1. apply existsb_pair in E1. congruence.
        - apply existsb_pair in E2. apply (Hs x Px) in E2. apply existsb_pair in E2. congruence. }
      rewrite Hb. destruct (existsb (pair_eqb x) seen); [apply IH; exact Hs|].
      rewrite !filter_cons_True by (rewrite Px; exact I). f_equal. apply IH.
      intros y Py. rewrite !elem_of_cons, (Hs y Py). reflexivity.
    + assert (Hs' : ∀ a b, (a = seen ∨ a = x :: seen) → (b = seen' ∨ b = x :: seen') →
                           ∀ y, P y = true → (y ∈ a ↔ y ∈ b)).
      { intros a b Ha Hb y Py. assert (y ≠ x) by (intros ->; congruence).
        destruct Ha as [->| ->], Hb as [->| ->]; rewrite ?elem_of_cons, (Hs y Py); intuition. }
      destruct (existsb (pair_eqb x) seen'), (existsb (pair_eqb x) seen);
        rewrite ?filter_cons_False by (rewrite Px; exact id); apply IH; apply Hs'; auto.
  - rewrite dkf_cons. pose proof (HX x Hx) as Px.
    assert (Hs' : ∀ y, P y = true → (y ∈ seen ↔ y ∈ x :: seen')).
    { intros y Py. assert (y ≠ x) by (intros ->; congruence). rewrite elem_of_cons, (Hs y Py). intuition. }
    destruct (existsb (pair_eqb x) seen'); [apply IH; exact Hs|].
    rewrite filter_cons_False by (rewrite Px; exact id). apply IH. exact Hs'.
Qed.

(** inserting unprefixed readings that a prefixed reading shadows does not change the result *)
Lemma dedup_ins l l' :
  ins (λ x, x.1 = "" ∧ ∃ c, c ∈ l ∧ c.1 ≠ "" ∧ x = ("", c.1 ++ c.2)) l l' →
  dedup_candidates l' = dedup_candidates l.
Proof.
  intros Hins. rewrite !dedup_filter.
  set (o := dedup_keep_first l []). set (o' := dedup_keep_first l' []).
  transitivity (filter (λ x, unshadowed o x) o').
  - apply list_filter_iff. intros x.
    assert (Heq : unshadowed o' x = unshadowed o x); [|rewrite Heq; reflexivity].
    destruct (unshadowed o' x) eqn:E1, (unshadowed o x) eqn:E2; try reflexivity.
    + exfalso. assert (unshadowed o x = true); [|congruence]. apply unshadowed_spec.
      intros c Hc. apply (proj1 (unshadowed_spec o' x) E1). apply in_dkf. apply in_dkf in Hc as [Hc _].
      split; [eapply ins_sub; eassumption | apply not_elem_of_nil].
    + exfalso. assert (unshadowed o' x = true); [|congruence]. apply unshadowed_spec.
      intros c Hc [N Ex]. apply in_dkf in Hc as [Hc _].
      destruct (ins_sup _ _ _ c Hins Hc) as [Hl|[H0 _]]; [|contradiction].
      apply (proj1 (unshadowed_spec o x) E2 c); [apply in_dkf; split; [exact Hl | apply not_elem_of_nil] | auto].
  - apply (filter_dkf_ins (unshadowed o) _ l l' Hins); [|intros y _; reflexivity].
    intros x (_ & c & Hc & N & ->). destruct (unshadowed o ("", c.1 ++ c.2)) eqn:E; [|reflexivity]. exfalso.
    apply (proj1 (unshadowed_spec o _) E c); [apply in_dkf; split; [exact Hc | apply not_elem_of_nil] | auto].
Qed.

(** * History independence under the guard *)
(** the guard on the string asked, relative to the fresh registry [r] and the warmed one [r']:
    (a) no reading of [s] with a non-empty prefix goes through a name that only [r'] knows
        (no doubly-prefixed reading);
    (b) if [s] itself is such a name, the fresh registry resolves it to itself. *)
Definition hi_guard (r r' : reg) (s : string) : bool :=
  forallb (λ suffix, forallb (λ pk,
      String.eqb pk "" || negb (String.prefix pk s && ends_with suffix s)
      || bool_decide (is_Some (r_units r !! strip_name s pk suffix))
      || bool_decide (r_units r' !! strip_name s pk suffix = None))
    (r_prefix_keys r)) suffixes
  && (bool_decide (is_Some (r_units r !! s)) || bool_decide (r_units r' !! s = None)
      || match get_name r s with Ok n => String.eqb n s | Err _ => false end)
  (* (c) if the name composed from the first reading was registered by the history, its unit is
         multiplicative in the fresh registry ([Registry.resolve] uses a stored prefix+unit
         definition without that test) *)
  && match parse_unit_name r s with
     | (p, u) :: _ =>
         String.eqb p "" || bool_decide (is_Some (r_units r !! (p ++ u)))
         || bool_decide (r_units r' !! (p ++ u) = None)
         || match r_units r !! u with Some d => u_multiplicative d | None => false end
     | [] => true
     end.

Lemma hi_guard_a r r' s suffix pk :
  hi_guard r r' s = true → In suffix suffixes → In pk (r_prefix_keys r) → pk ≠ "" →
  String.prefix pk s = true → ends_with suffix s = true →
  r_units r !! strip_name s pk suffix = None → r_units r' !! strip_name s pk suffix = None.
Proof.
  intros H Hs Hk N Hp He Hn. apply andb_prop in H as [H _]. apply andb_prop in H as [H _].
  rewrite forallb_forall in H. specialize (H suffix Hs). rewrite forallb_forall in H. specialize (H pk Hk).
  apply String.eqb_neq in N. rewrite N, Hp, He, Hn in H. simpl in H.
  apply bool_decide_eq_true in H. exact H.
Qed.
Lemma hi_guard_b r r' s d :
  hi_guard r r' s = true → r_units r !! s = None → r_units r' !! s = Some d → get_name r s = Ok s.
Proof.
  intros H Hn Hd. apply andb_prop in H as [H _]. apply andb_prop in H as [_ H].
  rewrite bool_decide_eq_false_2 in H by (rewrite Hn; apply is_Some_None).
  rewrite bool_decide_eq_false_2 in H by congruence. simpl in H.
  destruct (get_name r s) as [n|e]; [|discriminate]. apply String.eqb_eq in H. congruence.
Qed.

Definition shadowed_by (l : list (string * string)) (x : string * string) : Prop :=
  x.1 = "" ∧ ∃ c, c ∈ l ∧ c.1 ≠ "" ∧ x = ("", c.1 ++ c.2).

Lemma cell_ins r r' s suffix pk :
  wf_names r → ext r r' → hi_guard r r' s = true → In suffix suffixes → In pk (r_prefix_keys r) →
  ins (shadowed_by (triplets r s)) (cell r s suffix pk) (cell r' s suffix pk).
Proof.
  intros [W WL] E G Hs Hk. unfold cell. rewrite (ext_prefixes _ _ E).
  destruct (String.prefix pk s && ends_with suffix s) eqn:Ec; [|constructor]. cbv zeta.
  destruct (plural_guard suffix (strip_name s pk suffix)) eqn:Eg; [constructor|].
  apply andb_prop in Ec as [Hp He].
  set (name := strip_name s pk suffix) in *.
  destruct (r_units r !! name) as [d|] eqn:Ed.
  { destruct (ext_old _ _ E _ _ Ed) as (d' & -> & -> & _). apply ins_refl. }
  destruct (r_units r' !! name) as [d'|] eqn:Ed'; [|apply ins_refl].
  destruct (r_prefixes r !! pk) as [pd|] eqn:Epd; [|constructor].
  destruct (decide (pk = "")) as [->|Npk].
  2:{ exfalso. pose proof (hi_guard_a r r' s suffix pk G Hs Hk Npk Hp He Ed) as H. fold name in H. congruence. }
  apply ins_add; [|constructor].
  destruct (ext_new _ _ E name d' Ed' Ed) as (Hn & _ & p0 & u0 & Hname & Np0 & [Hk0 (pd0 & Hpd0 & Hpn0)] & du & Hdu & Hdun).
  assert (Hdecomp : s = name ++ suffix).
  { pose proof (strip_name_decomp s "" suffix Hp He) as H. rewrite app_nil in H. apply H.
    apply ends_with_spec in He as [t ->]. rewrite length_app. simpl. lia. }
  assert (Hs2 : s = p0 ++ u0 ++ suffix) by (rewrite Hdecomp at 1; rewrite Hname; apply app_assoc_s).
  assert (Hu0 : ∃ du0, r_units r !! u0 = Some du0 ∧ u_name du0 = u0).
  { destruct (r_units r !! u0) as [du0|] eqn:Eu0.
    { exists du0. split; [reflexivity|]. destruct (ext_old _ _ E _ _ Eu0) as (dd & Hdd & Hk1 & _). congruence. }
    exfalso.
    assert (Hp0 : String.prefix p0 s = true) by (apply prefix_spec; eauto).
    pose proof (hi_guard_a r r' s suffix p0 G Hs Hk0 Np0 Hp0 He) as H.
    rewrite Hs2 in H at 1 2. rewrite strip_name_app in H. specialize (H Eu0). congruence. }
  destruct Hu0 as (du0 & Hu0 & Hdun0).
  split; [simpl; apply (wf_p0 r W); exact Epd|].
  exists (p0, u0). split; [|split; [exact Np0|]].
  - apply elem_of_list_In, in_triplets, reading_raw.
    exists p0, u0, suffix, pd0, du0. repeat split; try assumption.
    intros [_ H1]. apply (WL u0 du0 Hu0). rewrite Hdun0. exact H1.
  - simpl. rewrite (wf_p0 r W pd Epd), Hn, Hname. reflexivity.
Qed.

Lemma parse_ext r r' s :
  wf_names r → ext r r' → hi_guard r r' s = true → parse_unit_name r' s = parse_unit_name r s.
Proof.
  intros W E G. unfold parse_unit_name. apply dedup_ins. rewrite !triplets_cells, (ext_keys _ _ E).
  apply ins_flat_map. intros suffix Hs. apply ins_flat_map. intros pk Hk.
  rewrite <- triplets_cells. apply cell_ins; assumption.
Qed.

Lemma hi_guard_c r r' s p u l d0 dc :
  hi_guard r r' s = true → parse_unit_name r s = (p, u) :: l → p ≠ "" →
  r_units r !! (p ++ u) = None → r_units r' !! (p ++ u) = Some dc → r_units r !! u = Some d0 →
  u_multiplicative d0 = true.
Proof.
  intros H Hl Np Hn Hc Hu. apply andb_prop in H as [_ H]. rewrite Hl in H.
  apply String.eqb_neq in Np. rewrite Np, Hu in H.
  rewrite bool_decide_eq_false_2 in H by (rewrite Hn; apply is_Some_None).
  rewrite bool_decide_eq_false_2 in H by congruence. exact H.
Qed.

Lemma get_name_head r s p u l :
  wf_canon r → s ≠ "dimensionless" → r_units r !! s = None → parse_unit_name r s = (p, u) :: l →
  ∃ d0, r_units r !! u = Some d0 ∧
        get_name r s = (if String.eqb p "" then Ok u
                        else match r_units r !! (p ++ u) with
                             | Some d => Ok (u_name d)
                             | None => if u_multiplicative d0 then Ok (p ++ u) else Err EOffset
                             end).
Proof.
  intros W Nd Es El.
  assert (Hin : (p, u) ∈ parse_unit_name r s) by (rewrite El; left).
  apply in_parse_raw in Hin as [Hr _].
  destruct (raw_reading_canonical r _ _ _ W Hr) as [Hp (d0 & Hd0 & Hn0)].
  exists d0. split; [exact Hd0|].
  unfold get_name, resolve. apply String.eqb_neq in Nd. rewrite Nd, Es, El.
  destruct (String.eqb p "") eqn:Ep.
  - rewrite Hd0. simpl. rewrite Hn0. reflexivity.
  - apply String.eqb_neq in Ep. destruct (r_units r !! (p ++ u)) as [dc|]; [reflexivity|].
    unfold prefixed_def. destruct Hp as (Hk & pd & Hpd & Hpn). rewrite Hpd, Hd0.
    destruct (u_multiplicative d0) eqn:Em; simpl; [|reflexivity].
    destruct (get_symbol_ok r p u W Ep) as [sym Hsym]; [split; eauto | eauto |]. rewrite Hsym. reflexivity.
Qed.

Theorem history_independent_guarded r hist s :
  wf_names r → no_overwrite r hist = true → hi_guard r (run_history r hist) s = true →
  get_name (run_history r hist) s = get_name r s.
Proof.
  intros W NO G. set (r' := run_history r hist) in *.
  assert (E : ext r r') by (apply ext_history; [apply W | apply ext_refl | exact NO]).
  pose proof (ext_wf_canon r r' (proj1 W) E) as W'.
  destruct (String.eqb s "dimensionless") eqn:Ed; [unfold get_name; rewrite Ed; reflexivity|].
  apply String.eqb_neq in Ed.
  destruct (r_units r !! s) as [d|] eqn:Es.
  { rewrite (proj1 (exact_first_name r s d Es Ed)).
    destruct (ext_old _ _ E _ _ Es) as (d' & Hd' & Hk1 & _).
    rewrite (proj1 (exact_first_name r' s d' Hd' Ed)), Hk1. reflexivity. }
  destruct (r_units r' !! s) as [d'|] eqn:Es'.
  { rewrite (hi_guard_b r r' s d' G Es Es').
    rewrite (proj1 (exact_first_name r' s d' Es' Ed)).
    destruct (ext_new _ _ E s d' Es' Es) as [-> _]. reflexivity. }
  pose proof (parse_ext r r' s W E G) as Hparse.
  destruct (parse_unit_name r s) as [|[p u] l] eqn:El.
  - unfold get_name, resolve. apply String.eqb_neq in Ed. rewrite Ed, Es, Es', Hparse, El. reflexivity.
  - destruct (get_name_head r s p u l (proj1 W) Ed Es El) as (d0 & Hd0 & ->).
    destruct (get_name_head r' s p u l W' Ed Es' Hparse) as (d1 & Hd1 & ->).
    destruct (ext_old _ _ E _ _ Hd0) as (dd & Hdd & _ & Hk2). rewrite Hdd in Hd1. injection Hd1 as <-.
    destruct (String.eqb p "") eqn:Ep; [reflexivity|]. apply String.eqb_neq in Ep.
    destruct (r_units r !! (p ++ u)) as [dc|] eqn:Ec.
    + destruct (ext_old _ _ E _ _ Ec) as (dc' & -> & Hn & _). rewrite Hn. reflexivity.
    + destruct (r_units r' !! (p ++ u)) as [dc'|] eqn:Ec'.
      * destruct (ext_new _ _ E _ _ Ec' Ec) as [-> _].
        rewrite (hi_guard_c r r' s p u l d0 dc' G El Ep Ec Ec' Hd0). reflexivity.
      * rewrite Hk2. reflexivity.
Qed.

(** * A decidable check of [wf_names] *)
Definition wf_namesb (r : reg) : bool :=
  forallb (λ k, match r_prefixes r !! k with
                | Some pd =>
                    existsb (String.eqb (p_name pd)) (r_prefix_keys r)
                    && match r_prefixes r !! p_name pd with
                       | Some pd' => String.eqb (p_name pd') (p_name pd)
                       | None => false
                       end
                | None => true
                end) (r_prefix_keys r)
  && match r_prefixes r !! "" with Some pd => String.eqb (p_name pd) "" | None => true end
  && forallb (λ kd : string * udef,
        match r_units r !! u_name kd.2 with
        | Some d' => String.eqb (u_name d') (u_name kd.2)
        | None => false
        end && negb (Nat.eqb (ulen (u_name kd.2)) 1)) (map_to_list (r_units r))
  && bool_decide (r_units r !! "" = None).

Lemma wf_namesb_spec r : wf_namesb r = true → wf_names r.
Proof.
  unfold wf_namesb. intros H.
  apply andb_prop in H as [H H4]. apply andb_prop in H as [H H3]. apply andb_prop in H as [H1 H2].
  rewrite forallb_forall in H1, H3. apply bool_decide_eq_true in H4.
  assert (HU : ∀ k d, r_units r !! k = Some d →
               (∃ d', r_units r !! u_name d = Some d' ∧ u_name d' = u_name d) ∧ ulen (u_name d) ≠ 1).
  { intros k d Hd. specialize (H3 (k, d)). simpl in H3.
    assert (Hin : In (k, d) (map_to_list (r_units r))) by (apply elem_of_list_In, elem_of_map_to_list; exact Hd).
    apply H3 in Hin. apply andb_prop in Hin as [Ha Hb].
    destruct (r_units r !! u_name d) as [d'|]; [|discriminate]. apply String.eqb_eq in Ha.
    split; [eauto|]. apply negb_true_iff, Nat.eqb_neq in Hb. exact Hb. }
  split; [split|].
  - intros k pd Hk Hpd. specialize (H1 k Hk). rewrite Hpd in H1. apply andb_prop in H1 as [Ha Hb]. split.
    + apply existsb_exists in Ha as (x & Hx & Ex). apply String.eqb_eq in Ex. subst. exact Hx.
    + destruct (r_prefixes r !! p_name pd) as [pd'|]; [|discriminate]. apply String.eqb_eq in Hb. eauto.
  - intros pd Hpd. rewrite Hpd in H2. apply String.eqb_eq in H2. exact H2.
  - intros k d Hd. exact (proj1 (HU k d Hd)).
  - exact H4.
  - intros k d Hd. exact (proj2 (HU k d Hd)).
Qed.

(** * Case-insensitive lookup *)
Lemma casei_add_lookup k m l x :
  x ∈ default [] (casei_add k m !! l) ↔ (x = k ∧ lower k = l) ∨ x ∈ default [] (m !! l).
Proof.
  unfold casei_add. destruct (decide (lower k = l)) as [<-|N].
  - rewrite lookup_insert. simpl. rewrite elem_of_cons. intuition.
  - rewrite lookup_insert_ne by exact N. split; [auto | intros [[_ H]|H]; [contradiction | exact H]].
Qed.
(** the index lists, under a lower-cased spelling, exactly the spellings that fold to it *)
Lemma casei_index_spec r l x :
  x ∈ default [] (casei_index r !! l) ↔ is_Some (r_units r !! x) ∧ lower x = l.
Proof.
  unfold casei_index.
  assert (H : ∀ kvs : list (string * udef),
               x ∈ default [] (foldr (λ kv m, casei_add kv.1 m) ∅ kvs !! l)
               ↔ (∃ d : udef, (x, d) ∈ kvs) ∧ lower x = l).
  { induction kvs as [|[k d] kvs IH]; simpl.
    - rewrite lookup_empty. simpl. split; [intros H; inversion H | intros [[d H] _]; inversion H].
    - rewrite casei_add_lookup, IH. split.
      + intros [[-> E]|[[d' H] E]]; (split; [|exact E]); [exists d; left | exists d'; right; exact H].
      + intros [[d' H] E]. apply elem_of_cons in H as [[= -> ->]|H]; [left; auto | right; eauto]. }
  rewrite H. split.
  - intros [[d Hd] E]. apply elem_of_map_to_list in Hd. split; [eauto | exact E].
  - intros [[d Hd] E]. split; [exists d; apply elem_of_map_to_list; exact Hd | exact E].
Qed.

(** candidates found with case sensitivity off: the unit part may be any indexed spelling that
    folds to the same lower-cased text; prefix and suffix are matched letter for letter *)
Definition raw_reading_ci (nr : nreg) (s p u : string) : Prop :=
  ∃ suffix pk pd real d, In suffix suffixes ∧ In pk (r_prefix_keys (n_reg nr)) ∧
    String.prefix pk s = true ∧ ends_with suffix s = true ∧
    plural_guard suffix (strip_name s pk suffix) = false ∧
    r_prefixes (n_reg nr) !! pk = Some pd ∧
    real ∈ default [] (n_casei nr !! lower (strip_name s pk suffix)) ∧
    r_units (n_reg nr) !! real = Some d ∧ p = p_name pd ∧ u = u_name d.
Lemma in_triplets_ci nr hid s p u : In (p, u) (triplets_cs nr hid false s) ↔ raw_reading_ci nr s p u.
Proof.
  rewrite triplets_cs_cells, in_flat_map. unfold raw_reading_ci. split.
  - intros (suffix & Hs & H). apply in_flat_map in H as (pk & Hk & H). unfold cell_cs in H.
    destruct (String.prefix pk s) eqn:E1; [|destruct H]. destruct (ends_with suffix s) eqn:E2; [|destruct H].
    cbn [andb] in H. cbv zeta in H.
    destruct (plural_guard suffix (strip_name s pk suffix)) eqn:E3; [destruct H|].
    destruct (r_prefixes (n_reg nr) !! pk) as [pd|] eqn:E4; [|destruct H].
    apply in_map_iff in H as (d & [= <- <-] & Hd). unfold lookup_defs in Hd.
    apply elem_of_list_In, elem_of_list_omap in Hd as (real & Hreal & Hd).
    exists suffix, pk, pd, real, d. repeat split; assumption.
  - intros (suffix & pk & pd & real & d & Hs & Hk & E1 & E2 & E3 & E4 & Hreal & Hd & -> & ->).
    exists suffix. split; [exact Hs|]. apply in_flat_map. exists pk. split; [exact Hk|].
    unfold cell_cs. rewrite E1, E2. cbn [andb]. cbv zeta. rewrite E3, E4.
    apply in_map_iff. exists d. split; [reflexivity|]. unfold lookup_defs.
    apply elem_of_list_In, elem_of_list_omap. eauto.
Qed.

(** the index covers every spelling of the unit table (true for a registry as constructed minus
    the lazily registered names; false after lazy registration — see F3) *)
Definition casei_covers (nr : nreg) : Prop :=
  ∀ k d, r_units (n_reg nr) !! k = Some d → k ∈ default [] (n_casei nr !! lower k).
Definition casei_sound (nr : nreg) : Prop :=
  ∀ l x, x ∈ default [] (n_casei nr !! l) → lower x = l.

Theorem casei_superset nr hid s p u :
  casei_covers nr → In (p, u) (triplets_cs nr nohid true s) → In (p, u) (triplets_cs nr hid false s).
Proof.
  intros C. rewrite triplets_cs_true, in_triplets, in_triplets_ci.
  intros (suffix & pk & Hs & Hk & E1 & E2 & E3 & pd & d & Hpd & Hd & -> & ->).
  exists suffix, pk, pd, (strip_name s pk suffix), d. repeat split; try assumption. apply (C _ d Hd).
Qed.
(** every case-insensitive candidate is a letter-for-letter reading of a string that differs from
    [s] only in the case of the unit part *)
Theorem casei_only_case nr hid s p u :
  casei_sound nr → In (p, u) (triplets_cs nr hid false s) →
  ∃ suffix pk real, In suffix suffixes ∧ In pk (r_prefix_keys (n_reg nr)) ∧
    String.prefix pk s = true ∧ ends_with suffix s = true ∧
    lower real = lower (strip_name s pk suffix) ∧
    ∃ pd d, r_prefixes (n_reg nr) !! pk = Some pd ∧ r_units (n_reg nr) !! real = Some d ∧
            p = p_name pd ∧ u = u_name d.
Proof.
  intros S. rewrite in_triplets_ci.
  intros (suffix & pk & pd & real & d & Hs & Hk & E1 & E2 & E3 & E4 & Hreal & Hd & -> & ->).
  exists suffix, pk, real. repeat split; try assumption; [apply (S _ _ Hreal) | eauto 10].
Qed.
Lemma nload_casei ds nr : nload ds = Ok nr → casei_sound nr.
Proof.
  unfold nload. destruct (elab ds) as [r|e]; simpl; [|discriminate]. intros [= <-] l x H. simpl in H.
  apply casei_index_spec in H. apply H.
Qed.

Lemma nreg_of_casei ds : casei_sound (nreg_of ds).
Proof.
  unfold nreg_of. destruct (nload ds) as [nr|e] eqn:E; [exact (nload_casei ds nr E)|].
  intros l x H. simpl in H. rewrite lookup_empty in H. inversion H.
Qed.

(** * Delta substitution in compound expressions *)
Theorem delta_name_off r many v c : delta_name r false many v c = Ok c.
Proof. reflexivity. Qed.
Theorem delta_name_single r ad c : delta_name r ad false 1%Qc c = Ok c.
Proof. unfold delta_name. rewrite bool_decide_eq_true_2 by reflexivity. destruct ad; reflexivity. Qed.
Theorem delta_name_compound r many v c d :
  (many = true ∨ v ≠ 1%Qc) → r_units r !! c = Some d →
  delta_name r true many v c = Ok (if u_multiplicative d then c else "delta_" ++ c).
Proof.
  intros H Hd. unfold delta_name. rewrite Hd.
  destruct H as [->|N]; [reflexivity|]. rewrite bool_decide_eq_false_2 by exact N.
  destruct many; reflexivity.
Qed.
(** one factor of the expression: resolve the name (registering it), skip "dimensionless",
    substitute the delta unit, accumulate the exponent *)
Theorem pu_fold_step c cs ad many nr acc n v l :
  pu_fold c cs ad many nr acc ((n, v) :: l) =
  match n_get_name nr c cs n with
  | Err e => (nr, Err e)
  | Ok cname =>
      let nr' := n_register nr c cs n in
      if String.eqb cname "" then pu_fold c cs ad many nr' acc l
      else match delta_name (n_reg nr') ad many v cname with
           | Err e => (nr', Err e)
           | Ok k => pu_fold c cs ad many nr' (uc_add acc k v) l
           end
  end.
Proof. reflexivity. Qed.

(** * [in] is "does not raise UndefinedUnitError" *)
Theorem contains_spec nr c text toks :
  snd (n_contains nr c text toks) =
  match snd (n_getattr nr c text toks) with
  | UOk _ => UOk true
  | UErr KUndefined => UOk false
  | UErr k => UErr k
  end.
Proof. unfold n_contains. destruct (n_getattr nr c text toks) as [nr' x]. reflexivity. Qed.
Theorem getattr_refused nr c text toks :
  attr_refused text = true → n_getattr nr c text toks = (nr, UErr KAttribute).
Proof. intros H. unfold n_getattr. rewrite H. reflexivity. Qed.
