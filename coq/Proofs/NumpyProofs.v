(** Proofs/NumpyProofs.v — lemmas behind Properties/C16.v. *)
From PintV Require Import Model.UC Proofs.UCProofs Model.Numpy Model.NumpyClasses Gen.NumpyTables
  Model.NumpyRun.
From Coq Require Import Lia.
Open Scope string_scope.

(** * 1. The regenerated tables against the hand-written class table (finite, vm_compute) *)
Lemma mem_In n l : mem n l = true ↔ In n l.
Proof.
  unfold mem. rewrite existsb_exists. split.
  - intros (x & Hx & E). apply String.eqb_eq in E. subst. exact Hx.
  - intros H. exists n. split; [exact H | apply String.eqb_refl].
Qed.

Lemma table_ok_sound classes exc t :
  table_ok classes exc t = true →
  ∀ n r, In (n, r) t → mem n exc = false → ∃ c, assoc n classes = Some c ∧ reg_ok c r = true.
Proof.
  unfold table_ok. rewrite forallb_forall. intros H n r Hin Hex.
  specialize (H (n, r) Hin). simpl in H. rewrite Hex in H. simpl in H.
  destruct (assoc n classes) as [c|]; [|discriminate]. exists c. split; [reflexivity | exact H].
Qed.
Lemma table_bad_sound classes t n :
  In n (table_bad classes t) →
  ∃ r, In (n, r) t ∧ ¬ ∃ c, assoc n classes = Some c ∧ reg_ok c r = true.
Proof.
  unfold table_bad. rewrite in_map_iff. intros ([n' r] & E & Hin). simpl in E. subst n'.
  apply filter_In in Hin. destruct Hin as [Hin Hb]. simpl in Hb.
  exists r. split; [exact Hin|]. intros (c & Hc & Hok). rewrite Hc, Hok in Hb. discriminate.
Qed.

Lemma ufunc_table_checked : table_ok ufunc_classes ufunc_exceptions ufunc_registrations = true.
Proof. vm_compute. reflexivity. Qed.
Lemma function_table_checked : table_ok function_classes function_exceptions function_registrations = true.
Proof. vm_compute. reflexivity. Qed.
(** every registration the class table rejects is inside the guard (so the guard hides nothing
    else); holds before and after a repair of the excepted entries *)
Lemma table_rejections_within_guard :
  (∀ n, In n (table_bad ufunc_classes ufunc_registrations) → In n ufunc_exceptions)
  ∧ (∀ n, In n (table_bad function_classes function_registrations) → In n function_exceptions).
Proof.
  assert (H : ∀ l1 l2, subset l1 l2 = true → ∀ n, In n l1 → In n l2).
  { intros l1 l2 H n Hin. unfold subset in H. rewrite forallb_forall in H. apply mem_In, H, Hin. }
  split; apply H; vm_compute; reflexivity.
Qed.
(** the registrations of the unchanged tree (frozen in Model/NumpyClasses.v) are all rejected *)
Lemma defective_ufuncs_rejected :
  table_bad ufunc_classes defective_ufunc_registrations = ufunc_exceptions.
Proof. vm_compute. reflexivity. Qed.
Lemma defective_functions_rejected :
  table_bad function_classes defective_function_registrations = function_exceptions.
Proof. vm_compute. reflexivity. Qed.

Lemma table_matches_class_guarded :
  length ufunc_registrations = 92%nat ∧ length function_registrations = 110%nat ∧
  (∀ n r, In (n, r) ufunc_registrations → mem n ufunc_exceptions = false →
          ∃ c, assoc n ufunc_classes = Some c ∧ reg_ok c r = true) ∧
  (∀ n r, In (n, r) function_registrations → mem n function_exceptions = false →
          ∃ c, assoc n function_classes = Some c ∧ reg_ok c r = true).
Proof.
  split; [vm_compute; reflexivity|]. split; [vm_compute; reflexivity|]. split.
  - exact (table_ok_sound _ _ _ ufunc_table_checked).
  - exact (table_ok_sound _ _ _ function_table_checked).
Qed.

Lemma table_matches_class_refuted_ufuncs :
  ∀ n, In n ["fmod"; "mod"; "remainder"; "floor_divide"] →
       ∃ r, In (n, r) defective_ufunc_registrations
            ∧ ¬ ∃ c, assoc n ufunc_classes = Some c ∧ reg_ok c r = true.
Proof. intros n H. apply table_bad_sound. rewrite defective_ufuncs_rejected. exact H. Qed.
Lemma table_matches_class_refuted_functions :
  ∀ n, In n ["sum"; "nansum"; "std"; "nanstd"; "var"; "nanvar"; "diff"; "ediff1d"; "gradient"] →
       ∃ r, In (n, r) defective_function_registrations
            ∧ ¬ ∃ c, assoc n function_classes = Some c ∧ reg_ok c r = true.
Proof. intros n H. apply table_bad_sound. rewrite defective_functions_rejected. exact H. Qed.

(** the faithful model exhibits F13 on the frozen registration of the unchanged tree: an
    incompatible second operand is neither converted nor refused; with the behaviour its class
    requires ("all_consistent", "match_input") it is a DimensionalityError *)
Definition env_ms : uenv :=
  [("meter", UI {[ "[length]" := q1 ]} false); ("second", UI {[ "[time]" := q1 ]} false);
   ("centimeter", UI {[ "[length]" := q1 ]} false)].
Definition u_m : uc := {[ "meter" := q1 ]}.
Definition u_cm : uc := {[ "centimeter" := q1 ]}.
Definition u_s : uc := {[ "second" := q1 ]}.
Lemma mod_model_refuted :
  convert_ok env_ms u_s u_m = false ∧
  run_registered defective_ufunc_registrations env_ms "mod" [("x1", A1 (SQ u_m)); ("x2", A1 (SQ u_s))] []
  = Ok (PAll (Some u_m)) ∧
  run_registered [("mod", RTable (Beh InAllConsistent OutMatchInput))] env_ms "mod"
                 [("x1", A1 (SQ u_m)); ("x2", A1 (SQ u_s))] []
  = Err EDim.
Proof. repeat split; vm_compute; reflexivity. Qed.

(** * 2. Ties between the hand-written mirrors and the source (re-checked on every run) *)
Definition same_set (a b : list string) : bool := subset a b && subset b a.
Lemma op_branches_tie :
  same_set op_branches model_op_branches = true ∧ same_set implement_func_ops model_op_branches = true.
Proof. split; vm_compute; reflexivity. Qed.
Definition special_impls (t : list (string * registration)) : list string :=
  omap (λ nr : string * registration, match nr.2 with RSpecial i => Some i | _ => None end) t.
Lemma specials_tie :
  same_set (special_impls ufunc_registrations ++ special_impls function_registrations) modelled_specials = true.
Proof. vm_compute. reflexivity. Qed.
Lemma keywords_tie : kw_all_consistent = "all_consistent" ∧ kw_match_input = "match_input"
  ∧ elementwise_fallback = ["multiply"; "true_divide"; "divide"; "floor_divide"]
  ∧ wrapped_numpy_methods = ["flatten"; "astype"; "item"].
Proof. repeat split; vm_compute; reflexivity. Qed.

(** * 3. [get_op_output_unit] computes what its names say *)
Lemma is_mult_non_mult env u : is_mult env u = true ↔ non_mult env u = [].
Proof. unfold is_mult. destruct (non_mult env u); split; intros; congruence. Qed.

Lemma op_sum env u args sz :
  get_op_output_unit env "sum" u args sz = if is_mult env u then Ok u else Err EOffset.
Proof. reflexivity. Qed.
Lemma op_variance env u args sz :
  get_op_output_unit env "variance" u args sz = if is_mult env u then Ok (uc_pow u q2) else Err EOffset.
Proof. unfold get_op_output_unit. simpl. unfold sum_units. destruct (is_mult env u); reflexivity. Qed.
Lemma op_delta_mult env u args sz :
  is_mult env u = true → get_op_output_unit env "delta" u args sz = Ok u.
Proof.
  intros H. apply is_mult_non_mult in H. unfold get_op_output_unit. simpl. unfold delta_units.
  rewrite H. reflexivity.
Qed.
Lemma op_delta_offset env u k args sz :
  non_mult env u = [(k, q1)] →
  get_op_output_unit env "delta" u args sz = Ok (<[ "delta_" ++ k := q1 ]> (delete k u)).
Proof.
  intros H. unfold get_op_output_unit. simpl. unfold delta_units. rewrite H.
  rewrite bool_decide_eq_true_2 by reflexivity.
  assert (Hk : u !! k = Some q1).
  { assert (Hin : In (k, q1) (non_mult env u)) by (rewrite H; left; reflexivity).
    unfold non_mult in Hin. apply filter_In in Hin. destruct Hin as [Hin _].
    apply elem_of_list_In, elem_of_map_to_list in Hin. exact Hin. }
  unfold uc_rename. rewrite Hk. reflexivity.
Qed.
Lemma op_delta_refused env u k e args sz :
  non_mult env u = [(k, e)] → e ≠ q1 → get_op_output_unit env "delta" u args sz = Err EOffset.
Proof.
  intros H He. unfold get_op_output_unit. simpl. unfold delta_units. rewrite H.
  rewrite bool_decide_eq_false_2 by exact He. reflexivity.
Qed.
Lemma op_powers env u args n :
  get_op_output_unit env "square" u args None = Ok (uc_pow u q2)
  ∧ get_op_output_unit env "sqrt" u args None = Ok (uc_pow u qhalf)
  ∧ get_op_output_unit env "cbrt" u args None = Ok (uc_pow u qthird)
  ∧ get_op_output_unit env "reciprocal" u args None = Ok (uc_pow u qm1)
  ∧ get_op_output_unit env "size" u args (Some n) = Ok (uc_pow u n)
  ∧ get_op_output_unit env "size" u args None = Err EValue.
Proof. repeat split; reflexivity. Qed.
Lemma op_binary env f a b sz :
  wf a →
  get_op_output_unit env "mul" f [Some a; Some b] sz = Ok (uc_mul a b)
  ∧ get_op_output_unit env "div" f [Some a; Some b] sz = Ok (uc_div a b)
  ∧ get_op_output_unit env "invdiv" f [Some a; Some b] sz = Ok (uc_pow (uc_div a b) qm1)
  ∧ get_op_output_unit env "div" f [None; Some b] sz = Ok (uc_div ∅ b)
  ∧ get_op_output_unit env "mul" f [Some a; None] sz = Ok a.
Proof.
  intros Ha. unfold get_op_output_unit, mul_units, div_units. simpl.
  rewrite (uc_mul_empty_l a Ha). repeat split; reflexivity.
Qed.
Lemma op_delta_div env a b sz :
  is_mult env a = true → get_op_output_unit env "delta,div" a [Some a; Some b] sz = Ok (uc_div a b).
Proof.
  intros H. apply is_mult_non_mult in H. unfold get_op_output_unit. simpl. unfold delta_units.
  rewrite H. reflexivity.
Qed.
(** n-ary product / quotient, exponent by exponent *)
Lemma exp_of_mul_units l k :
  exp_of (mul_units l) k = fold_left (λ acc x, (acc + match x with Some u => exp_of u k | None => 0 end)%Qc) l 0%Qc.
Proof.
  unfold mul_units.
  assert (G : ∀ (acc : uc) (s : Qc), exp_of acc k = s →
    exp_of (fold_left (λ acc x, match x with Some u => uc_mul acc u | None => acc end) l acc) k
    = fold_left (λ acc x, (acc + match x with Some u => exp_of u k | None => 0 end)%Qc) l s).
  { induction l as [|x l IH]; intros acc s Hs; simpl; [exact Hs|].
    apply IH. destruct x as [u|]; [rewrite exp_of_mul, Hs; reflexivity | rewrite Hs; ring]. }
  apply G. unfold exp_of. rewrite lookup_empty. reflexivity.
Qed.
Lemma exp_of_div_units start l k :
  exp_of (div_units start l) k
  = fold_left (λ acc x, (acc - match x with Some u => exp_of u k | None => 0 end)%Qc) l (exp_of start k).
Proof.
  unfold div_units. revert start. induction l as [|x l IH]; intros start; simpl; [reflexivity|].
  rewrite IH. destruct x as [u|]; [rewrite exp_of_div; reflexivity|].
  f_equal. ring.
Qed.
Lemma op_unknown env op u args sz :
  ¬ In op model_op_branches → get_op_output_unit env op u args sz = Err EValue.
Proof.
  intros H. unfold get_op_output_unit.
  repeat match goal with |- context [String.eqb op ?s] =>
    let E := fresh "E" in
    destruct (String.eqb op s) eqn:E; [apply String.eqb_eq in E; subst; exfalso; apply H; simpl; tauto|] end.
  reflexivity.
Qed.

(** [Quantity.__pow__] with a scalar exponent: multiplicative units are raised to the exponent,
    offset units are refused (except for the exponents 1 and 0, which return self / dimensionless) *)
Lemma pow_units_spec env u p :
  p ≠ q1 → qz p = false →
  pow_units env u p = if is_mult env u then Ok (uc_pow u p) else Err EOffset.
Proof.
  intros H1 H0. unfold pow_units. rewrite bool_decide_eq_false_2 by exact H1. rewrite H0.
  destruct (is_mult env u); reflexivity.
Qed.
Lemma pow_units_trivial env u : pow_units env u q1 = Ok u ∧ pow_units env u qc0 = Ok ∅.
Proof. split; reflexivity. Qed.

(** * 4. [convert_arg]: bare numbers are accepted iff the target is dimensionless or the
    number is zero / NaN; incompatible quantities are DimensionalityErrors *)
Lemma convert_bare_dimensioned env t zn :
  dimensionless env t = false →
  convert_sarg env (Some t) (SNum zn) = if zn then Ok tt else Err EDim.
Proof. intros H. simpl. rewrite H. reflexivity. Qed.
Lemma validate_mult env u : is_mult env u = true → validate_extract env u = Some None.
Proof. intros H. apply is_mult_non_mult in H. unfold validate_extract. rewrite H. reflexivity. Qed.
Lemma dim_of_empty env : dim_of env ∅ = ∅.
Proof. unfold dim_of. rewrite map_to_list_empty. reflexivity. Qed.
Lemma convert_bare_dimensionless env t zn :
  dimensionless env t = true → is_mult env t = true →
  convert_sarg env (Some t) (SNum zn) = Ok tt.
Proof.
  intros Hd Hm. simpl. rewrite Hd. unfold convert_q, convert_ok.
  assert (He : is_mult env ∅ = true) by (unfold is_mult, non_mult; rewrite map_to_list_empty; reflexivity).
  rewrite (validate_mult _ _ He), (validate_mult _ _ Hm).
  unfold dimensionless in Hd. apply uc_eqb_spec in Hd. rewrite Hd, dim_of_empty.
  replace (uc_eqb ∅ ∅) with true by (symmetry; apply uc_eqb_spec; reflexivity).
  rewrite !bool_decide_eq_false_2 by (intros X; apply X; reflexivity).
  simpl. rewrite orb_true_r. reflexivity.
Qed.
Lemma convert_quantity_ok env u t :
  convert_sarg env (Some t) (SQ u) = Ok tt → u = t ∨ dim_of env u = dim_of env t.
Proof.
  simpl. unfold convert_q. destruct (convert_ok env u t) eqn:E; [|discriminate]. intros _.
  unfold convert_ok in E. apply orb_true_iff in E. destruct E as [E|E].
  - left. apply uc_eqb_spec. exact E.
  - right. destruct (validate_extract env u), (validate_extract env t); try discriminate.
    apply andb_true_iff in E. destruct E as [E _]. apply andb_true_iff in E. destruct E as [E _].
    apply uc_eqb_spec. exact E.
Qed.
Lemma convert_quantity_incompatible env u t :
  dim_of env u ≠ dim_of env t → convert_sarg env (Some t) (SQ u) = Err EDim.
Proof.
  intros H. destruct (convert_sarg env (Some t) (SQ u)) as [[]|e] eqn:E.
  - apply convert_quantity_ok in E. destruct E as [->|E]; exfalso; apply H; [reflexivity | exact E].
  - simpl in E. unfold convert_q in E. destruct (convert_ok env u t); [discriminate|]. congruence.
Qed.
Lemma convert_passthrough env pre a :
  convert_sarg env pre SBool = Ok tt ∧ convert_sarg env None a = Ok tt ∧ convert_sarg env pre SNone = Ok tt.
Proof. repeat split; destruct pre, a; reflexivity. Qed.

(** * 5. Covariance per signature class.
    Magnitudes live in an arbitrary set [V] on which an abelian group [G] of scale factors acts;
    [fac u] is the factor of unit [u] to root units and is a homomorphism.  Everything about
    NumPy (the homogeneity law of the kernel [f]) and about the registry (the laws of [fac]) is
    a Section hypothesis; nothing is assumed globally. *)
Section Covariance.
  Context {G V : Type}.
  Variables (gmul : G → G → G) (gone : G) (ginv : G → G) (gpow : G → Qc → G).
  Variable act : G → V → V.
  Variable fac : uc → G.
  Hypothesis gmul_assoc : ∀ a b c, gmul a (gmul b c) = gmul (gmul a b) c.
  Hypothesis gmul_comm : ∀ a b, gmul a b = gmul b a.
  Hypothesis gmul_one : ∀ a, gmul gone a = a.
  Hypothesis gmul_inv : ∀ a, gmul a (ginv a) = gone.
  Hypothesis gpow_mul : ∀ a b k, gpow (gmul a b) k = gmul (gpow a k) (gpow b k).
  Hypothesis gpow_one : ∀ a, gpow a q1 = a.
  Hypothesis gpow_neg1 : ∀ a, gpow a qm1 = ginv a.
  Hypothesis act_one : ∀ v, act gone v = v.
  Hypothesis act_mul : ∀ a b v, act (gmul a b) v = act a (act b v).
  Hypothesis fac_mul : ∀ a b, fac (uc_mul a b) = gmul (fac a) (fac b).
  Hypothesis fac_div : ∀ a b, fac (uc_div a b) = gmul (fac a) (ginv (fac b)).
  Hypothesis fac_pow : ∀ a k, fac (uc_pow a k) = gpow (fac a) k.

  Definition qty : Type := V * uc.
  (** the physical value: the magnitude expressed in root units *)
  Definition phys (q : qty) : V := act (fac q.2) q.1.
  (** [Quantity.m_as]: magnitude of a quantity in units [u], re-expressed in units [t] *)
  Definition conv (u t : uc) (v : V) : V := act (gmul (fac u) (ginv (fac t))) v.

  Lemma g_cancel a b : gmul a (gmul b (ginv a)) = b.
  Proof. rewrite (gmul_comm b), gmul_assoc, gmul_inv, gmul_one. reflexivity. Qed.
  Lemma phys_conv v u t : phys (conv u t v, t) = phys (v, u).
  Proof. unfold phys, conv. simpl. rewrite <- act_mul, g_cancel. reflexivity. Qed.
  Lemma conv_phys v u t : conv u t v = act (ginv (fac t)) (phys (v, u)).
  Proof. unfold phys, conv. simpl. rewrite <- act_mul, (gmul_comm (fac u)). reflexivity. Qed.
  Lemma conv_same v u : conv u u v = v.
  Proof. unfold conv. rewrite gmul_inv. apply act_one. Qed.
  Lemma ginv_unique a x : gmul a x = gone → x = ginv a.
  Proof.
    intros H. rewrite <- (gmul_one x), <- (gmul_inv a), (gmul_comm a), <- gmul_assoc, H.
    rewrite gmul_comm. apply gmul_one.
  Qed.
  Lemma ginv_ratio a b : ginv (gmul a (ginv b)) = gmul b (ginv a).
  Proof.
    symmetry. apply ginv_unique.
    rewrite gmul_assoc, <- (gmul_assoc a), (gmul_comm (ginv b)), gmul_inv.
    rewrite (gmul_comm a gone), gmul_one. apply gmul_inv.
  Qed.

  (** ** classes [CHomog k others] / inputs "all_consistent" (or converted to any one unit [t]),
      output unit of degree [k] in [t] *)
  Section Joint.
    Variable f : list V → V.
    Variable k : Qc.
    Hypothesis f_homog : ∀ g xs, xs ≠ [] → f (map (act g) xs) = act (gpow g k) (f xs).
    Definition joint_run (t uo : uc) (args : list qty) : qty :=
      (f (map (λ q : qty, conv q.2 t q.1) args), uo).
    (** the result is the kernel applied to the physical values *)
    Lemma joint_correct t uo args :
      args ≠ [] → fac uo = gpow (fac t) k → phys (joint_run t uo args) = f (map phys args).
    Proof.
      intros Hne Hu. unfold joint_run, phys at 1. simpl. rewrite Hu, <- f_homog.
      - f_equal. rewrite map_map. apply map_ext. intros [v u]. simpl. apply (phys_conv v u t).
      - destruct args; [contradiction | discriminate].
    Qed.
    (** ... hence unchanged when any argument is re-expressed, and whatever the common unit is *)
    Lemma joint_covariant t t' uo uo' args args' :
      args ≠ [] → args' ≠ [] → fac uo = gpow (fac t) k → fac uo' = gpow (fac t') k →
      map phys args = map phys args' →
      phys (joint_run t uo args) = phys (joint_run t' uo' args').
    Proof. intros H1 H2 Hu Hu' E. rewrite !joint_correct by assumption. rewrite E. reflexivity. Qed.
    (** a single unit argument needs no conversion: "strip" with output [u^k] *)
    Lemma unary_strip_correct v u :
      phys (f [v], uc_pow u k) = f [phys (v, u)].
    Proof.
      pose proof (joint_correct u (uc_pow u k) [(v, u)]) as H. unfold joint_run in H. simpl in H.
      rewrite conv_same in H. apply H; [discriminate | apply fac_pow].
    Qed.
  End Joint.
  (** degree 1 with the input unit copied ("match_input", and "sum"/"delta" on multiplicative units) *)
  Lemma joint_match_input_correct (f : list V → V) :
    (∀ g xs, xs ≠ [] → f (map (act g) xs) = act g (f xs)) →
    ∀ t args, args ≠ [] → phys (joint_run f t t args) = f (map phys args).
  Proof.
    intros Hf t args Hne. apply (joint_correct f q1); [|exact Hne|symmetry; apply gpow_one].
    intros g xs Hx. rewrite gpow_one. apply Hf. exact Hx.
  Qed.

  (** ** class [CPred]: bare result invariant under a common rescaling *)
  Section Pred.
    Context {B : Type}.
    Variable p : list V → B.
    Hypothesis p_inv : ∀ g xs, p (map (act g) xs) = p xs.
    Lemma pred_correct t args :
      p (map (λ q : qty, conv q.2 t q.1) args) = p (map phys args).
    Proof.
      rewrite <- (p_inv (fac t)). f_equal. rewrite map_map. apply map_ext.
      intros [v u]. simpl. apply (phys_conv v u t).
    Qed.
    Lemma pred_covariant t t' args args' :
      map phys args = map phys args' →
      p (map (λ q : qty, conv q.2 t q.1) args) = p (map (λ q : qty, conv q.2 t' q.1) args').
    Proof. intros E. rewrite !pred_correct, E. reflexivity. Qed.
  End Pred.

  (** ** class [CJointFixed o]: degree 0, result in a fixed unit *)
  Lemma joint_fixed_correct (f : list V → V) (o t : uc) args :
    (∀ g xs, f (map (act g) xs) = f xs) →
    phys (f (map (λ q : qty, conv q.2 t q.1) args), o) = act (fac o) (f (map phys args)).
  Proof. intros Hf. unfold phys at 1. simpl. f_equal. apply (pred_correct f Hf). Qed.

  (** ** classes [CBilinear], [CRatio], [CInvRatio]: no conversion, units combined *)
  Section Binary.
    Variable f : V → V → V.
    Lemma bilinear_correct x u y w :
      (∀ g h a b, f (act g a) (act h b) = act (gmul g h) (f a b)) →
      phys (f x y, uc_mul u w) = f (phys (x, u)) (phys (y, w)).
    Proof. intros Hf. unfold phys. simpl. rewrite Hf, fac_mul. reflexivity. Qed.
    Lemma ratio_correct x u y w :
      (∀ g h a b, f (act g a) (act h b) = act (gmul g (ginv h)) (f a b)) →
      phys (f x y, uc_div u w) = f (phys (x, u)) (phys (y, w)).
    Proof. intros Hf. unfold phys. simpl. rewrite Hf, fac_div. reflexivity. Qed.
    Lemma invratio_correct x u y w :
      (∀ g h a b, f (act g a) (act h b) = act (gmul h (ginv g)) (f a b)) →
      phys (f x y, uc_pow (uc_div u w) qm1) = f (phys (x, u)) (phys (y, w)).
    Proof. intros Hf. unfold phys. simpl. rewrite Hf, fac_pow, gpow_neg1, fac_div, ginv_ratio. reflexivity. Qed.
    Lemma binary_covariant (out : uc → uc → uc) :
      (∀ x u y w, phys (f x y, out u w) = f (phys (x, u)) (phys (y, w))) →
      ∀ x u y w x' u' y' w', phys (x, u) = phys (x', u') → phys (y, w) = phys (y', w') →
      phys (f x y, out u w) = phys (f x' y', out u' w').
    Proof. intros H x u y w x' u' y' w' E1 E2. rewrite !H, E1, E2. reflexivity. Qed.
  End Binary.

  (** ** class [CFixed i o]: converted to unit [i], result in unit [o]; no law on the kernel *)
  Lemma fixed_correct (f : V → V) (ti to : uc) v u :
    phys (f (conv u ti v), to) = act (fac to) (f (act (ginv (fac ti)) (phys (v, u)))).
  Proof. unfold phys at 1. simpl. rewrite conv_phys. reflexivity. Qed.
  Lemma fixed_covariant (f : V → V) (ti to : uc) v u v' u' :
    phys (v, u) = phys (v', u') → phys (f (conv u ti v), to) = phys (f (conv u' ti v'), to).
  Proof. intros E. rewrite !fixed_correct, E. reflexivity. Qed.

  (** ** what goes wrong in F13: "strip" + "match_input" on a jointly homogeneous binary kernel
      computes [f x y] in the first unit whatever the second unit is; it is correct only if the
      second factor equals the first *)
  Lemma strip_match_only_same_unit (f : list V → V) x u y w :
    (∀ g xs, xs ≠ [] → f (map (act g) xs) = act g (f xs)) →
    fac w = fac u → phys (f [x; y], u) = f [phys (x, u); phys (y, w)].
  Proof.
    intros Hf E. unfold phys. simpl. rewrite E. rewrite <- (Hf (fac u) [x; y]) by discriminate. reflexivity.
  Qed.
End Covariance.

(** ** the Section hypotheses are satisfiable: scale factors on a logarithmic scale
    (G = (Qc, +), rational powers = multiplication), magnitudes V = Qc translated by the factor,
    and [fac u] = (exponent of "meter" in u) · c. *)
Definition log_fac (c : Qc) (u : uc) : Qc := (exp_of u "meter" * c)%Qc.
Lemma log_instance_joint_correct (c k : Qc) t uo (args : list (Qc * uc)) :
  let f := λ xs : list Qc, (hd 0 xs * k)%Qc in
  args ≠ [] → log_fac c uo = (log_fac c t * k)%Qc →
  phys Qcplus (log_fac c) (joint_run Qcplus Qcopp Qcplus (log_fac c) f t uo args)
  = f (map (phys Qcplus (log_fac c)) args).
Proof.
  intros f Hne Hu.
  apply (joint_correct Qcplus 0%Qc Qcopp (λ g e, (g * e)%Qc) Qcplus (log_fac c)) with (k := k);
    try assumption; try (intros; ring).
  intros g xs Hx. destruct xs as [|x xs]; [contradiction|]. unfold f. simpl. ring.
Qed.
Lemma log_fac_laws c :
  (∀ a b, log_fac c (uc_mul a b) = (log_fac c a + log_fac c b)%Qc)
  ∧ (∀ a b, log_fac c (uc_div a b) = (log_fac c a + - log_fac c b)%Qc)
  ∧ (∀ a k, log_fac c (uc_pow a k) = (log_fac c a * k)%Qc).
Proof.
  unfold log_fac. repeat split; intros.
  - rewrite exp_of_mul. ring.
  - rewrite exp_of_div. ring.
  - rewrite exp_of_pow. ring.
Qed.

(** a concrete counterexample to "strip + match_input" for a jointly homogeneous kernel
    (V = Qc with multiplicative factors, kernel x + y): 5 m and 300 cm *)
Lemma strip_match_refuted :
  ∃ (x y gm gcm : Qc), (gm * (x + y) ≠ gm * x + gcm * y)%Qc ∧ gm ≠ gcm.
Proof.
  exists (qc_of_Z 5), (qc_of_Z 300), q1, (Q2Qc (1 # 100)). split.
  - intros H. apply (f_equal (λ q, Qeq_bool (this q) (8 # 1))) in H. vm_compute in H. discriminate.
  - intros H. apply (f_equal (λ q, Qeq_bool (this q) (1 # 100))) in H. vm_compute in H. discriminate.
Qed.

(** * 6. The same lemmas with the Section hypotheses bundled, for Properties/C16.v *)
Record scale_laws {G V : Type} (gmul : G → G → G) (gone : G) (ginv : G → G) (gpow : G → Qc → G)
    (act : G → V → V) (fac : uc → G) : Prop := ScaleLaws {
  sl_assoc : ∀ a b c, gmul a (gmul b c) = gmul (gmul a b) c;
  sl_comm : ∀ a b, gmul a b = gmul b a;
  sl_one : ∀ a, gmul gone a = a;
  sl_inv : ∀ a, gmul a (ginv a) = gone;
  sl_pow_mul : ∀ a b k, gpow (gmul a b) k = gmul (gpow a k) (gpow b k);
  sl_pow_one : ∀ a, gpow a q1 = a;
  sl_pow_neg1 : ∀ a, gpow a qm1 = ginv a;
  sl_act_one : ∀ v, act gone v = v;
  sl_act_mul : ∀ a b v, act (gmul a b) v = act a (act b v);
  sl_fac_mul : ∀ a b, fac (uc_mul a b) = gmul (fac a) (fac b);
  sl_fac_div : ∀ a b, fac (uc_div a b) = gmul (fac a) (ginv (fac b));
  sl_fac_pow : ∀ a k, fac (uc_pow a k) = gpow (fac a) k;
}.

Section Bundled.
  Context {G V : Type} {gmul : G → G → G} {gone : G} {ginv : G → G} {gpow : G → Qc → G}
          {act : G → V → V} {fac : uc → G}.
  Hypothesis L : scale_laws gmul gone ginv gpow act fac.
  Notation ph := (phys act fac).
  Notation cv := (conv gmul ginv act fac).

  Lemma cc_conversion_preserves v u t : ph (cv u t v, t) = ph (v, u).
  Proof. destruct L. eapply phys_conv; eauto. Qed.

  Lemma cc_homog (f : list V → V) (k : Qc) :
    (∀ g xs, xs ≠ [] → f (map (act g) xs) = act (gpow g k) (f xs)) →
    ∀ t t' uo uo' args args', args ≠ [] → args' ≠ [] →
      fac uo = gpow (fac t) k → fac uo' = gpow (fac t') k →
      map ph args = map ph args' →
      ph (f (map (λ q : V * uc, cv q.2 t q.1) args), uo) = f (map ph args)
      ∧ ph (f (map (λ q : V * uc, cv q.2 t q.1) args), uo)
        = ph (f (map (λ q : V * uc, cv q.2 t' q.1) args'), uo').
  Proof.
    intros Hf t t' uo uo' args args' H1 H2 Hu Hu' E. destruct L. split.
    - eapply (joint_correct gmul gone ginv gpow act fac); eauto.
    - eapply (joint_covariant gmul gone ginv gpow act fac); eauto.
  Qed.
  Lemma cc_homog_unary (f : list V → V) (k : Qc) :
    (∀ g xs, xs ≠ [] → f (map (act g) xs) = act (gpow g k) (f xs)) →
    ∀ v u v' u', ph (v, u) = ph (v', u') →
      ph (f [v], uc_pow u k) = f [ph (v, u)] ∧ ph (f [v], uc_pow u k) = ph (f [v'], uc_pow u' k).
  Proof.
    intros Hf v u v' u' E. destruct L.
    assert (H : ∀ v u, ph (f [v], uc_pow u k) = f [ph (v, u)]).
    { intros. eapply (unary_strip_correct gmul gone ginv gpow act fac); eauto. }
    split; [apply H | rewrite !H, E; reflexivity].
  Qed.
  Lemma cc_match_input (f : list V → V) :
    (∀ g xs, xs ≠ [] → f (map (act g) xs) = act g (f xs)) →
    ∀ t t' args args', args ≠ [] → args' ≠ [] → map ph args = map ph args' →
      ph (f (map (λ q : V * uc, cv q.2 t q.1) args), t) = f (map ph args)
      ∧ ph (f (map (λ q : V * uc, cv q.2 t q.1) args), t) = ph (f (map (λ q : V * uc, cv q.2 t' q.1) args'), t').
  Proof.
    intros Hf t t' args args' H1 H2 E. destruct L.
    assert (H : ∀ t args, args ≠ [] → ph (f (map (λ q : V * uc, cv q.2 t q.1) args), t) = f (map ph args)).
    { intros. eapply (joint_match_input_correct gmul gone ginv gpow act fac); eauto. }
    split; [apply H; assumption | rewrite !H by assumption; rewrite E; reflexivity].
  Qed.
  Lemma cc_pred {B} (p : list V → B) :
    (∀ g xs, p (map (act g) xs) = p xs) →
    ∀ t t' args args', map ph args = map ph args' →
      p (map (λ q : V * uc, cv q.2 t q.1) args) = p (map ph args)
      ∧ p (map (λ q : V * uc, cv q.2 t q.1) args) = p (map (λ q : V * uc, cv q.2 t' q.1) args').
  Proof.
    intros Hp t t' args args' E. destruct L. split.
    - eapply (pred_correct gmul gone ginv act fac); eauto.
    - eapply (pred_covariant gmul gone ginv act fac); eauto.
  Qed.
  Lemma cc_joint_fixed (f : list V → V) (o : uc) :
    (∀ g xs, f (map (act g) xs) = f xs) →
    ∀ t t' args args', map ph args = map ph args' →
      ph (f (map (λ q : V * uc, cv q.2 t q.1) args), o) = ph (f (map (λ q : V * uc, cv q.2 t' q.1) args'), o).
  Proof.
    intros Hf t t' args args' E. destruct L.
    rewrite !(joint_fixed_correct gmul gone ginv act fac) by eauto. rewrite E. reflexivity.
  Qed.
  Lemma cc_bilinear (f : V → V → V) :
    (∀ g h a b, f (act g a) (act h b) = act (gmul g h) (f a b)) →
    ∀ x u y w x' u' y' w', ph (x, u) = ph (x', u') → ph (y, w) = ph (y', w') →
      ph (f x y, uc_mul u w) = f (ph (x, u)) (ph (y, w))
      ∧ ph (f x y, uc_mul u w) = ph (f x' y', uc_mul u' w').
  Proof.
    intros Hf x u y w x' u' y' w' E1 E2. destruct L.
    assert (H : ∀ x u y w, ph (f x y, uc_mul u w) = f (ph (x, u)) (ph (y, w))).
    { intros. eapply (bilinear_correct gmul act fac); eauto. }
    split; [apply H | rewrite !H, E1, E2; reflexivity].
  Qed.
  Lemma cc_ratio (f : V → V → V) :
    (∀ g h a b, f (act g a) (act h b) = act (gmul g (ginv h)) (f a b)) →
    ∀ x u y w x' u' y' w', ph (x, u) = ph (x', u') → ph (y, w) = ph (y', w') →
      ph (f x y, uc_div u w) = f (ph (x, u)) (ph (y, w))
      ∧ ph (f x y, uc_div u w) = ph (f x' y', uc_div u' w').
  Proof.
    intros Hf x u y w x' u' y' w' E1 E2. destruct L.
    assert (H : ∀ x u y w, ph (f x y, uc_div u w) = f (ph (x, u)) (ph (y, w))).
    { intros. eapply (ratio_correct gmul ginv act fac); eauto. }
    split; [apply H | rewrite !H, E1, E2; reflexivity].
  Qed.
  Lemma cc_invratio (f : V → V → V) :
    (∀ g h a b, f (act g a) (act h b) = act (gmul h (ginv g)) (f a b)) →
    ∀ x u y w x' u' y' w', ph (x, u) = ph (x', u') → ph (y, w) = ph (y', w') →
      ph (f x y, uc_pow (uc_div u w) qm1) = f (ph (x, u)) (ph (y, w))
      ∧ ph (f x y, uc_pow (uc_div u w) qm1) = ph (f x' y', uc_pow (uc_div u' w') qm1).
  Proof.
    intros Hf x u y w x' u' y' w' E1 E2. destruct L.
    assert (H : ∀ x u y w, ph (f x y, uc_pow (uc_div u w) qm1) = f (ph (x, u)) (ph (y, w))).
    { intros. eapply (invratio_correct gmul gone ginv gpow act fac); eauto. }
    split; [apply H | rewrite !H, E1, E2; reflexivity].
  Qed.
  Lemma cc_fixed (f : V → V) (ti to : uc) v u v' u' :
    ph (v, u) = ph (v', u') → ph (f (cv u ti v), to) = ph (f (cv u' ti v'), to).
  Proof. intros E. destruct L. eapply (fixed_covariant gmul ginv act fac); eauto. Qed.
End Bundled.

Lemma scale_laws_satisfiable (c : Qc) :
  scale_laws Qcplus 0%Qc Qcopp (λ g e, (g * e)%Qc) Qcplus (log_fac c).
Proof.
  destruct (log_fac_laws c) as (H1 & H2 & H3).
  split; [intros; ring | intros; ring | intros; ring | intros; ring | intros; ring
         | intros; unfold q1; ring | intros a | intros; ring | intros; ring
         | exact H1 | exact H2 | exact H3].
  unfold qm1, qc_of_Z. replace (Q2Qc (-1 # 1)) with (- (1))%Qc by (apply Qc_is_canon; reflexivity). ring.
Qed.

(** * 7. The regenerated table drives the model on concrete units *)
Definition example_env : uenv :=
  [("meter", UI {[ "[length]" := q1 ]} false); ("centimeter", UI {[ "[length]" := q1 ]} false);
   ("degree_Celsius", UI {[ "[temperature]" := q1 ]} true)].
Definition example_cases : list c16case :=
  let m := {[ "meter" := q1 ]} : uc in
  let cm := {[ "centimeter" := q1 ]} : uc in
  let degC := {[ "degree_Celsius" := q1 ]} : uc in
  [ K16 example_env KUfunc "hypot" None [("x1", A1 (SQ m)); ("x2", A1 (SQ cm))] [] (OVal [Some m] None);
    K16 example_env KUfunc "sqrt" None [("x", A1 (SQ m))] [] (OVal [Some {[ "meter" := qhalf ]}] None);
    K16 example_env KFunction "var" None [("a", A1 (SQ degC))] [] (OErr EOffset);
    K16 example_env KFunction "diff" None [("a", A1 (SQ degC))] []
        (OVal [Some {[ "delta_degree_Celsius" := q1 ]}] None);
    K16 example_env KUfunc "maximum" None [("x1", A1 (SQ m)); ("x2", A1 (SNum false))] [] (OErr EDim);
    K16 example_env KUfunc "maximum" None [("x1", A1 (SQ m)); ("x2", A1 (SNum true))] [] (OVal [Some m] None);
    K16 example_env KMethodWrap "var" (Some m) [] [("size", qc_of_Z 3)] (OVal [Some {[ "meter" := q2 ]}] (Some m)) ].
Lemma model_runs : forallb c16_ok example_cases = true.
Proof. vm_compute. reflexivity. Qed.

(** * 8. Defect switches: F122 (np.unwrap refused NumPy's keyword period, repaired in /repo) *)
Definition unwrap_period_case (obs : outcome) : c16case :=
  K16 [("degree", UI ∅ false)] KFunction "unwrap" None
      [("p", A1 (SQ {[ "degree" := q1 ]})); ("period", A1 (SNum false))] [] obs.
Lemma unwrap_period_switch :
  c16_ok_q (Quirks true) (unwrap_period_case (OErr EType)) = true
  ∧ c16_ok_q repaired (unwrap_period_case (OVal [Some {[ "degree" := q1 ]}] None)) = true
  ∧ c16_ok_q repaired (unwrap_period_case (OErr EType)) = false.
Proof. repeat split; vm_compute; reflexivity. Qed.
(** a period or discont given as a Quantity must be an angle *)
Lemma unwrap_quantity_keywords :
  let m := A1 (SQ {[ "meter" := q1 ]}) in
  let env := [("degree", UI ∅ false); ("meter", UI {[ "[length]" := q1 ]} false)] in
  run_registered function_registrations env "unwrap" [("p", A1 (SQ {[ "degree" := q1 ]})); ("period", m)] [] = Err EDim
  ∧ run_registered function_registrations env "unwrap" [("p", A1 (SQ {[ "degree" := q1 ]})); ("discont", m)] [] = Err EDim.
Proof. split; vm_compute; reflexivity. Qed.
