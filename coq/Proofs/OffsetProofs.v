(** Proofs/OffsetProofs.v — lemmas for property C06 (offset units). *)
From Coq Require Import Field Qcanon.
From PintV Require Import Model.UC Model.Eval Model.Registry Model.Offset.
From PintV Require Import Proofs.UCProofs Proofs.RegistryProofs Proofs.RootProofs Proofs.FactorProofs.
From PintV Require Import Gen.Converters Gen.DefaultDefs Gen.DefaultReg.
Open Scope string_scope.

(** * Tie T4: the formulas regenerated from the converter classes are the ones the model interprets *)
Lemma tie_scale_conv : gen_scale_conv = scale_conv. Proof. reflexivity. Qed.
Lemma tie_offset_conv : gen_offset_conv = offset_conv. Proof. reflexivity. Qed.
Lemma tie_log_conv : gen_log_conv = log_conv. Proof. reflexivity. Qed.

(** * The scale and offset converters over ANY field *)
Section AnyField.
  Context {F : Type} (rO rI : F) (radd rmul rsub : F → F → F) (ropp : F → F)
          (rdiv : F → F → F) (rinv : F → F)
          (Fth : field_theory rO rI radd rmul rsub ropp rdiv rinv eq).
  Context (flog fexp : F → F).
  Add Field anyF : Fth.
  Notation runF := (run_fun radd rsub rmul rdiv flog fexp).
  Notation runI := (run_inpl radd rsub rmul rdiv flog fexp).
  Notation env := (mkenv).

  (** the affine map and its inverse, as the ASTs compute them *)
  Lemma offset_to_value s o b f x : runF (cc_to offset_conv) (env s o b f x) = radd (rmul x s) o.
  Proof. reflexivity. Qed.
  Lemma offset_from_value s o b f x : runF (cc_from offset_conv) (env s o b f x) = rdiv (rsub x o) s.
  Proof. reflexivity. Qed.
  Lemma scale_to_value s o b f x : runF (cc_to scale_conv) (env s o b f x) = rmul x s.
  Proof. reflexivity. Qed.
  Lemma scale_from_value s o b f x : runF (cc_from scale_conv) (env s o b f x) = rdiv x s.
  Proof. reflexivity. Qed.

  Theorem offset_inverse_field s o b f x : s ≠ rO →
    runF (cc_from offset_conv) (env s o b f (runF (cc_to offset_conv) (env s o b f x))) = x
    ∧ runF (cc_to offset_conv) (env s o b f (runF (cc_from offset_conv) (env s o b f x))) = x.
  Proof. intros H. rewrite !offset_to_value, !offset_from_value. split; field; exact H. Qed.
  Theorem scale_inverse_field s o b f x : s ≠ rO →
    runF (cc_from scale_conv) (env s o b f (runF (cc_to scale_conv) (env s o b f x))) = x
    ∧ runF (cc_to scale_conv) (env s o b f (runF (cc_from scale_conv) (env s o b f x))) = x.
  Proof. intros H. rewrite !scale_to_value, !scale_from_value. split; field; exact H. Qed.

  (** the in-place statement lists compute the functional expressions *)
  Theorem inplace_eq_functional_field s o b f x :
    runI (cc_to offset_conv) (env s o b f x) = runF (cc_to offset_conv) (env s o b f x)
    ∧ runI (cc_from offset_conv) (env s o b f x) = runF (cc_from offset_conv) (env s o b f x)
    ∧ runI (cc_to scale_conv) (env s o b f x) = runF (cc_to scale_conv) (env s o b f x)
    ∧ runI (cc_from scale_conv) (env s o b f x) = runF (cc_from scale_conv) (env s o b f x).
  Proof. repeat split; reflexivity. Qed.
  (** logarithmic converter: in-place = functional needs only field laws (and [log logbase <> 0]
      for the division by it) — [log] and [exp] stay uninterpreted *)
  Theorem log_inplace_eq_functional_field s o b f x : flog b ≠ rO →
    runI (cc_to log_conv) (env s o b f x) = runF (cc_to log_conv) (env s o b f x)
    ∧ runI (cc_from log_conv) (env s o b f x) = runF (cc_from log_conv) (env s o b f x).
  Proof.
    intros H. split.
    - cbn. replace (rmul (rdiv x f) (flog b)) with (rmul (flog b) (rdiv x f)) by ring. ring.
    - cbn. field. exact H.
  Qed.
End AnyField.

(** * The rational instance *)
Lemma runQ_inplace f env :
  f = cc_to offset_conv ∨ f = cc_from offset_conv ∨ f = cc_to scale_conv ∨ f = cc_from scale_conv →
  runQ true f env = runQ false f env.
Proof. intros [-> | [-> | [-> | ->]]]; reflexivity. Qed.

Lemma to_ref_offset inpl d o x : u_conv d = COffset o → to_ref inpl d x = Ok (x * u_scale d + o)%Qc.
Proof. intros H. unfold to_ref, is_log, conv_of, envQ. rewrite H. destruct inpl; reflexivity. Qed.
Lemma from_ref_offset inpl d o x : u_conv d = COffset o → u_scale d ≠ 0%Qc →
  from_ref inpl d x = Ok ((x - o) / u_scale d)%Qc.
Proof.
  intros H S. unfold from_ref, is_log, conv_of, envQ. rewrite H.
  apply qz_false in S. rewrite S. destruct inpl; reflexivity.
Qed.
Lemma to_ref_inplace d x : to_ref true d x = to_ref false d x.
Proof. unfold to_ref, conv_of, is_log, envQ. destruct (u_conv d); reflexivity. Qed.
Lemma from_ref_inplace d x : from_ref true d x = from_ref false d x.
Proof.
  unfold from_ref, conv_of, is_log, envQ. destruct (u_conv d); try reflexivity; destruct (qz (u_scale d)); reflexivity.
Qed.
Lemma apply_plan_inplace p x : apply_plan true p x = apply_plan false p x.
Proof.
  unfold apply_plan. destruct (pl_src p) as [d|]; simpl.
  - rewrite to_ref_inplace. destruct (to_ref false d x); simpl; [|reflexivity].
    destruct (pl_dst p); [apply from_ref_inplace | reflexivity].
  - destruct (pl_dst p); [apply from_ref_inplace | reflexivity].
Qed.

Section Q.
Context (qk : quirks).

(** the in-place twins compute what the functional forms compute *)
Lemma convert_gen_inplace r auto x s d : convert_gen qk true r auto x s d = convert_gen qk false r auto x s d.
Proof. unfold convert_gen. destruct (conv_plan qk r auto s d); simpl; [apply apply_plan_inplace | reflexivity]. Qed.
Lemma to_root_gen_inplace r auto q : to_root_gen qk true r auto q = to_root_gen qk false r auto q.
Proof.
  unfold to_root_gen. destruct (root_of r q.2) as [[[f B] ex]|]; simpl; [|reflexivity].
  rewrite convert_gen_inplace. reflexivity.
Qed.
Lemma auto_root_inplace r auto n q : auto_root qk true r auto n q = auto_root qk false r auto n q.
Proof. unfold auto_root. destruct (_ && _); [apply to_root_gen_inplace | reflexivity]. Qed.
Theorem iadd_sub_eq r auto sub a b : iadd_sub qk r auto sub a b = add_sub qk r auto sub a b.
Proof.
  unfold iadd_sub, add_sub, add_sub_gen, add_sub_num.
  repeat (rewrite ?convert_gen_inplace; first [reflexivity | match goal with |- context [match ?x with _ => _ end] => destruct x end]).
Qed.
Theorem imul_div_eq r auto div a b : imul_div qk r auto div a b = mul_div qk r auto div a b.
Proof.
  unfold imul_div, mul_div, mul_div_gen.
  repeat (rewrite ?auto_root_inplace; first [reflexivity | match goal with |- context [match ?x with _ => _ end] => destruct x end]).
Qed.
Theorem q_ipow_eq r auto q e : q_ipow qk r auto q e = q_pow qk r auto q e.
Proof.
  unfold q_ipow, q_pow, q_pow_gen.
  repeat (rewrite ?to_root_gen_inplace; first [reflexivity | match goal with |- context [match ?x with _ => _ end] => destruct x end]).
Qed.
End Q.

(** * Conversions between single units *)
Local Arguments uc_remove : simpl never.
Local Arguments add_ref : simpl never.
Local Arguments has_delta : simpl never.
Local Arguments plain_factor : simpl never.
Local Arguments dim_of : simpl never.
Local Arguments validate_dim : simpl never.
Record offset_unit (r : reg) (X : string) (d : udef) (o : Qc) : Prop := {
  ou_lookup : r_units r !! X = Some d;
  ou_conv : u_conv d = COffset o;
  ou_off : o ≠ 0%Qc;
  ou_scale : u_scale d ≠ 0%Qc;
  ou_wfref : wf (u_ref d);
  ou_refnodelta : has_delta (u_ref d) = false;
  ou_nodelta : is_delta_name X = false }.
(** a multiplicative unit (absolute or delta) *)
Definition plain_unit (r : reg) (X : string) (d : udef) : Prop :=
  r_units r !! X = Some d ∧ u_multiplicative d = true.

Definition U1 (X : string) : uc := {[ X := 1%Qc ]}.

Lemma resolve_lookup r X d : r_units r !! X = Some d → resolve r X = Ok d.
Proof. intros H. unfold resolve. rewrite H. reflexivity. Qed.
Lemma offset_unit_nonmult r X d o : offset_unit r X d o → u_multiplicative d = false.
Proof. intros H. unfold u_multiplicative. rewrite (ou_conv _ _ _ _ H). apply qz_false. exact (ou_off _ _ _ _ H). Qed.
Lemma U1_neq X Y : X ≠ Y → uc_eqb (U1 X) (U1 Y) = false.
Proof.
  intros N. unfold uc_eqb. apply bool_decide_eq_false. intros E.
  assert (H : U1 Y !! X = Some 1%Qc) by (rewrite <- E; apply lookup_singleton).
  unfold U1 in H. apply lookup_singleton_Some in H. destruct H as [H _]. congruence.
Qed.
Lemma nonmult_U1_offset r X d o : offset_unit r X d o → nonmult_units r (U1 X) = Ok [(X, 1%Qc)].
Proof.
  intros H. unfold nonmult_units, U1. rewrite map_to_list_singleton. simpl.
  rewrite (resolve_lookup _ _ _ (ou_lookup _ _ _ _ H)). simpl. rewrite (offset_unit_nonmult _ _ _ _ H). reflexivity.
Qed.
Lemma nonmult_U1_plain r X d : plain_unit r X d → nonmult_units r (U1 X) = Ok [].
Proof.
  intros [H M]. unfold nonmult_units, U1. rewrite map_to_list_singleton. simpl.
  rewrite (resolve_lookup _ _ _ H). simpl. rewrite M. reflexivity.
Qed.
Lemma validate_U1_offset r auto X d o : offset_unit r X d o → validate_dim r auto (U1 X) = Ok (Some X).
Proof.
  intros H. unfold validate_dim, validate_extract. rewrite (nonmult_U1_offset _ _ _ _ H). simpl.
  unfold U1. rewrite map_size_singleton. reflexivity.
Qed.
Lemma validate_U1_plain r auto X d : plain_unit r X d → validate_dim r auto (U1 X) = Ok None.
Proof. intros H. unfold validate_dim, validate_extract. rewrite (nonmult_U1_plain _ _ _ H). reflexivity. Qed.
Lemma has_delta_U1 X : has_delta (U1 X) = is_delta_name X.
Proof. unfold has_delta, U1. rewrite map_to_list_singleton. simpl. apply orb_false_r. Qed.
Lemma remove_U1 X : uc_remove (U1 X) [X] = Some ∅.
Proof. unfold uc_remove, U1. rewrite lookup_singleton. rewrite delete_singleton. reflexivity. Qed.

Section Q2.
Context (qk : quirks).
Lemma add_ref_offset r X d o : offset_unit r X d o → add_ref qk r X ∅ = Ok (u_ref d).
Proof.
  intros H. unfold add_ref. rewrite (ou_lookup _ _ _ _ H). unfold is_log. rewrite (ou_conv _ _ _ _ H).
  rewrite (offset_unit_nonmult _ _ _ _ H). simpl.
  destruct (q_ref_drops_units qk); [reflexivity|]. rewrite uc_mul_empty_l by exact (ou_wfref _ _ _ _ H). reflexivity.
Qed.

(** what one side of a conversion contributes: its converter (offset unit) or nothing, and the
    multiplicative container that takes part in the factor *)
Inductive side (r : reg) (X : string) : option udef → uc → Prop :=
| side_offset d o : offset_unit r X d o → side r X (Some d) (u_ref d)
| side_plain d : plain_unit r X d → side r X None (U1 X).

Theorem conv_plan_single r auto X Y ox mx oy my d f :
  X ≠ Y → side r X ox mx → side r Y oy my →
  dim_of r (U1 X) = Ok d → dim_of r (U1 Y) = Ok d →
  (is_Some ox ∨ is_Some oy → is_delta_name X = false ∧ is_delta_name Y = false) →
  plain_factor r mx my = Ok f →
  conv_plan qk r auto (U1 X) (U1 Y) = Ok (Plan ox f oy).
Proof.
  intros N SX SY DX DY ND PF. unfold conv_plan. rewrite (U1_neq _ _ N).
  destruct SX as [dx ox HX|dx HX], SY as [dy oy HY|dy HY].
  - destruct ND as [NX NY]; [left; eauto|].
    rewrite (validate_U1_offset _ _ _ _ _ HX), (validate_U1_offset _ _ _ _ _ HY). simpl.
    rewrite DX, DY. simpl. unfold uc_eqb at 1. rewrite bool_decide_eq_true_2 by reflexivity. simpl.
    rewrite has_delta_U1, NY. unfold lookup_unit. rewrite (ou_lookup _ _ _ _ HX). simpl. rewrite remove_U1. simpl.
    rewrite (add_ref_offset _ _ _ _ HX). simpl. rewrite (ou_refnodelta _ _ _ _ HX).
    rewrite (ou_lookup _ _ _ _ HY). simpl. rewrite remove_U1. simpl. rewrite (add_ref_offset _ _ _ _ HY). simpl.
    rewrite PF. reflexivity.
  - destruct ND as [NX NY]; [left; eauto|].
    rewrite (validate_U1_offset _ _ _ _ _ HX), (validate_U1_plain _ _ _ _ HY). simpl.
    rewrite DX, DY. simpl. unfold uc_eqb at 1. rewrite bool_decide_eq_true_2 by reflexivity. simpl.
    rewrite has_delta_U1, NY. unfold lookup_unit. rewrite (ou_lookup _ _ _ _ HX). simpl. rewrite remove_U1. simpl.
    rewrite (add_ref_offset _ _ _ _ HX). simpl. rewrite PF. reflexivity.
  - destruct ND as [NX NY]; [right; eauto|].
    rewrite (validate_U1_plain _ _ _ _ HX), (validate_U1_offset _ _ _ _ _ HY). simpl.
    rewrite DX, DY. simpl. unfold uc_eqb at 1. rewrite bool_decide_eq_true_2 by reflexivity. simpl.
    rewrite has_delta_U1, NX. unfold lookup_unit. rewrite (ou_lookup _ _ _ _ HY). simpl. rewrite remove_U1. simpl.
    rewrite (add_ref_offset _ _ _ _ HY). simpl. rewrite PF. reflexivity.
  - rewrite (validate_U1_plain _ _ _ _ HX), (validate_U1_plain _ _ _ _ HY). simpl. rewrite PF. reflexivity.
Qed.

(** degX -> degY is the affine map x |-> ((s_X x + o_X) f - o_Y) / s_Y, with f the factor between
    the two reference units (f = 1 when both are defined over the same reference) *)
Theorem offset_conv_affine r auto inpl X Y dx ox dy oy d f x :
  X ≠ Y → offset_unit r X dx ox → offset_unit r Y dy oy →
  dim_of r (U1 X) = Ok d → dim_of r (U1 Y) = Ok d →
  plain_factor r (u_ref dx) (u_ref dy) = Ok f →
  convert_gen qk inpl r auto x (U1 X) (U1 Y) = Ok (((x * u_scale dx + ox) * f - oy) / u_scale dy)%Qc.
Proof.
  intros N HX HY DX DY PF. unfold convert_gen.
  rewrite (conv_plan_single r auto X Y (Some dx) (u_ref dx) (Some dy) (u_ref dy) d f); try assumption.
  - unfold apply_plan. simpl. rewrite (to_ref_offset _ _ _ _ (ou_conv _ _ _ _ HX)). simpl.
    rewrite (from_ref_offset _ _ _ _ (ou_conv _ _ _ _ HY) (ou_scale _ _ _ _ HY)). reflexivity.
  - econstructor; eassumption.
  - econstructor; eassumption.
  - intros _. split; [exact (ou_nodelta _ _ _ _ HX) | exact (ou_nodelta _ _ _ _ HY)].
Qed.
(** offset -> absolute (kelvin, degR): x |-> (s_X x + o_X) f ;  absolute -> offset: x |-> (x f - o_Y) / s_Y *)
Theorem offset_to_plain r auto inpl X Y dx ox dy d f x :
  offset_unit r X dx ox → plain_unit r Y dy → is_delta_name Y = false →
  dim_of r (U1 X) = Ok d → dim_of r (U1 Y) = Ok d →
  plain_factor r (u_ref dx) (U1 Y) = Ok f →
  convert_gen qk inpl r auto x (U1 X) (U1 Y) = Ok ((x * u_scale dx + ox) * f)%Qc.
Proof.
  intros HX HY NY DX DY PF. unfold convert_gen.
  assert (N : X ≠ Y).
  { intros ->. destruct HY as [L M]. rewrite (ou_lookup _ _ _ _ HX) in L. injection L as <-.
    rewrite (offset_unit_nonmult _ _ _ _ HX) in M. discriminate. }
  rewrite (conv_plan_single r auto X Y (Some dx) (u_ref dx) None (U1 Y) d f); try assumption.
  - unfold apply_plan. simpl. rewrite (to_ref_offset _ _ _ _ (ou_conv _ _ _ _ HX)). reflexivity.
  - econstructor; eassumption.
  - econstructor; eassumption.
  - intros _. split; [exact (ou_nodelta _ _ _ _ HX) | exact NY].
Qed.
Theorem plain_to_offset r auto inpl X Y dx dy oy d f x :
  plain_unit r X dx → offset_unit r Y dy oy → is_delta_name X = false →
  dim_of r (U1 X) = Ok d → dim_of r (U1 Y) = Ok d →
  plain_factor r (U1 X) (u_ref dy) = Ok f →
  convert_gen qk inpl r auto x (U1 X) (U1 Y) = Ok ((x * f - oy) / u_scale dy)%Qc.
Proof.
  intros HX HY NX DX DY PF. unfold convert_gen.
  assert (N : X ≠ Y).
  { intros ->. destruct HX as [L M]. rewrite (ou_lookup _ _ _ _ HY) in L. injection L as <-.
    rewrite (offset_unit_nonmult _ _ _ _ HY) in M. discriminate. }
  rewrite (conv_plan_single r auto X Y None (U1 X) (Some dy) (u_ref dy) d f); try assumption.
  - unfold apply_plan. simpl. rewrite (from_ref_offset _ _ _ _ (ou_conv _ _ _ _ HY) (ou_scale _ _ _ _ HY)). reflexivity.
  - econstructor; eassumption.
  - econstructor; eassumption.
  - intros _. split; [exact NX | exact (ou_nodelta _ _ _ _ HY)].
Qed.
(** delta units (and every other pair of multiplicative units) convert by a scale factor only:
    no converter is applied on either side — in particular 0 maps to 0 *)
Theorem delta_conv_scale_only r auto inpl X Y dx dy f x :
  X ≠ Y → plain_unit r X dx → plain_unit r Y dy →
  plain_factor r (U1 X) (U1 Y) = Ok f →
  convert_gen qk inpl r auto x (U1 X) (U1 Y) = Ok (x * f)%Qc.
Proof.
  intros N HX HY PF. unfold convert_gen, conv_plan. rewrite (U1_neq _ _ N).
  rewrite (validate_U1_plain _ _ _ _ HX), (validate_U1_plain _ _ _ _ HY). simpl. rewrite PF. reflexivity.
Qed.
(** an offset unit never converts to or from a delta unit *)
Theorem offset_delta_refused r auto inpl X Y dx ox dy a b x :
  offset_unit r X dx ox → plain_unit r Y dy → is_delta_name Y = true →
  dim_of r (U1 X) = Ok a → dim_of r (U1 Y) = Ok b →
  convert_gen qk inpl r auto x (U1 X) (U1 Y) = Err EDim ∧ convert_gen qk inpl r auto x (U1 Y) (U1 X) = Err EDim.
Proof.
  intros HX HY DY E1 E2.
  assert (N : X ≠ Y) by (intros ->; rewrite (ou_nodelta _ _ _ _ HX) in DY; discriminate).
  assert (N' : Y ≠ X) by congruence.
  unfold convert_gen, conv_plan. rewrite (U1_neq _ _ N), (U1_neq _ _ N').
  rewrite (validate_U1_offset _ _ _ _ _ HX), (validate_U1_plain _ _ _ _ HY). simpl. rewrite E1, E2. simpl. split.
  - destruct (negb (uc_eqb a b)); [reflexivity|]. rewrite has_delta_U1, DY. reflexivity.
  - destruct (negb (uc_eqb b a)); [reflexivity|]. simpl. rewrite has_delta_U1, DY. reflexivity.
Qed.

(** round trip and path independence, given the corresponding facts about the multiplicative
    factors between the reference units (C02: [conv_factor_inverse], [conv_factor_path]) *)
Theorem conv_offset_roundtrip_f r auto inpl X Y dx ox dy oy d f g x :
  X ≠ Y → offset_unit r X dx ox → offset_unit r Y dy oy →
  dim_of r (U1 X) = Ok d → dim_of r (U1 Y) = Ok d →
  plain_factor r (u_ref dx) (u_ref dy) = Ok f → plain_factor r (u_ref dy) (u_ref dx) = Ok g → (f * g = 1)%Qc →
  (y ←r convert_gen qk inpl r auto x (U1 X) (U1 Y); convert_gen qk inpl r auto y (U1 Y) (U1 X)) = Ok x.
Proof.
  intros N HX HY DX DY F G FG.
  rewrite (offset_conv_affine r auto inpl X Y dx ox dy oy d f x N HX HY DX DY F). simpl.
  rewrite (offset_conv_affine r auto inpl Y X dy oy dx ox d g _ (not_eq_sym N) HY HX DY DX G). f_equal.
  assert (Fn : f ≠ 0%Qc) by (intros ->; rewrite Qcmult_0_l in FG; discriminate).
  assert (Gv : g = (/ f)%Qc) by (transitivity ((f * g) * / f)%Qc; [field; exact Fn | rewrite FG; ring]).
  pose proof (ou_scale _ _ _ _ HX). pose proof (ou_scale _ _ _ _ HY).
  rewrite Gv. field. repeat split; assumption.
Qed.
Theorem conv_offset_path_f r auto inpl X Y Z dx ox dy oy dz oz d f g h x :
  X ≠ Y → Y ≠ Z → X ≠ Z → offset_unit r X dx ox → offset_unit r Y dy oy → offset_unit r Z dz oz →
  dim_of r (U1 X) = Ok d → dim_of r (U1 Y) = Ok d → dim_of r (U1 Z) = Ok d →
  plain_factor r (u_ref dx) (u_ref dy) = Ok f → plain_factor r (u_ref dy) (u_ref dz) = Ok g →
  plain_factor r (u_ref dx) (u_ref dz) = Ok h → (f * g = h)%Qc →
  (y ←r convert_gen qk inpl r auto x (U1 X) (U1 Y); convert_gen qk inpl r auto y (U1 Y) (U1 Z))
  = convert_gen qk inpl r auto x (U1 X) (U1 Z).
Proof.
  intros N1 N2 N3 HX HY HZ DX DY DZ F G H FG.
  rewrite (offset_conv_affine r auto inpl X Y dx ox dy oy d f x N1 HX HY DX DY F). simpl.
  rewrite (offset_conv_affine r auto inpl Y Z dy oy dz oz d g _ N2 HY HZ DY DZ G).
  rewrite (offset_conv_affine r auto inpl X Z dx ox dz oz d h x N3 HX HZ DX DZ H). f_equal.
  pose proof (ou_scale _ _ _ _ HZ). pose proof (ou_scale _ _ _ _ HY).
  rewrite <- FG. field. repeat split; assumption.
Qed.
End Q2.

Local Arguments convert_gen : simpl never.
(** * [nonmult_units] is the filter of the non-multiplicative entries *)
Definition is_nm (r : reg) (k : string) : bool :=
  match resolve r k with Ok d => negb (u_multiplicative d) | Err _ => false end.
Definition nm_step (r : reg) (acc : list (string * Qc)) (kv : string * Qc) : res (list (string * Qc)) :=
  d ←r resolve r kv.1; Ok (if u_multiplicative d then acc else app acc [kv]).
Lemma nonmult_units_unfold r u : nonmult_units r u = foldM (nm_step r) (map_to_list u) [].
Proof. reflexivity. Qed.
Lemma nm_fold r l : ∀ acc out, foldM (nm_step r) l acc = Ok out →
  out = app acc (filter (λ kv, is_nm r kv.1 = true) l).
Proof.
  induction l as [|kv l IH]; intros acc out H; simpl in H.
  - injection H as <-. rewrite filter_nil, app_nil_r. reflexivity.
  - unfold nm_step at 1 in H. destruct (resolve r kv.1) as [d|e] eqn:E; simpl in H; [|discriminate].
    assert (N : is_nm r kv.1 = negb (u_multiplicative d)) by (unfold is_nm; rewrite E; reflexivity).
    rewrite filter_cons. destruct (decide (is_nm r kv.1 = true)) as [T|T]; rewrite N in T.
    + destruct (u_multiplicative d); [discriminate|]. apply IH in H. rewrite H, <- app_assoc. reflexivity.
    + destruct (u_multiplicative d); [|exfalso; apply T; reflexivity]. apply IH. exact H.
Qed.
Lemma nonmult_units_filter r u l : nonmult_units r u = Ok l →
  l = filter (λ kv, is_nm r kv.1 = true) (map_to_list u).
Proof. intros H. rewrite nonmult_units_unfold in H. apply nm_fold in H. exact H. Qed.
Lemma nonmult_units_elem r u l k e : nonmult_units r u = Ok l →
  ((k, e) ∈ l ↔ u !! k = Some e ∧ is_nm r k = true).
Proof.
  intros H. rewrite (nonmult_units_filter _ _ _ H). rewrite elem_of_list_filter, elem_of_map_to_list. simpl. tauto.
Qed.

Lemma uc_eqb_refl (a : uc) : uc_eqb a a = true.
Proof. unfold uc_eqb. apply bool_decide_eq_true_2. reflexivity. Qed.
Lemma uneq_of_nm r a b x y : nonmult_units r a = Ok x → nonmult_units r b = Ok y → x ≠ y → uc_eqb a b = false.
Proof.
  intros Ha Hb N. unfold uc_eqb. apply bool_decide_eq_false. intros ->. rewrite Ha in Hb. injection Hb as ->. apply N. reflexivity.
Qed.

Definition ambiguous (nm : list (string * Qc)) : Prop := nm ≠ [] ∧ single_order1 nm = None.
Lemma validate_ambig r auto u nm : nonmult_units r u = Ok nm → ambiguous nm → validate_dim r auto u = Err EDim.
Proof.
  intros H [N S]. unfold validate_dim, validate_extract. rewrite H. simpl.
  destruct nm as [|[n e] [|p l]]; [contradiction| |reflexivity].
  simpl in S. destruct (bool_decide (e = 1%Qc)); [discriminate|]. reflexivity.
Qed.
Lemma validate_cases r auto u nm : nonmult_units r u = Ok nm →
  validate_dim r auto u = Err EDim ∨ validate_dim r auto u = Ok (single_order1 nm).
Proof.
  intros H. unfold validate_dim, validate_extract. rewrite H. simpl.
  destruct nm as [|[n e] [|p l]]; [right; reflexivity| |left; reflexivity].
  simpl. destruct (bool_decide (e = 1%Qc)); simpl; [|left; reflexivity].
  destruct (_ && _); [left|right]; reflexivity.
Qed.

Section Tconv.
Context (qk : quirks).

Lemma convert_same inpl r auto x u : convert_gen qk inpl r auto x u u = Ok x.
Proof.
  unfold convert_gen, conv_plan. rewrite uc_eqb_refl. simpl. unfold apply_plan. simpl. f_equal. ring.
Qed.
Lemma convert_src_ambig inpl r auto x src dst nm :
  nonmult_units r src = Ok nm → ambiguous nm → uc_eqb src dst = false →
  convert_gen qk inpl r auto x src dst = Err EDim.
Proof.
  intros H A N. unfold convert_gen, conv_plan. rewrite N, (validate_ambig _ _ _ _ H A). reflexivity.
Qed.
Lemma convert_dst_ambig inpl r auto x src dst nms nmd :
  nonmult_units r src = Ok nms → nonmult_units r dst = Ok nmd → ambiguous nmd → uc_eqb src dst = false →
  convert_gen qk inpl r auto x src dst = Err EDim.
Proof.
  intros Hs Hd A N. unfold convert_gen, conv_plan. rewrite N.
  destruct (validate_cases r auto src nms Hs) as [-> | ->]; [reflexivity|]. simpl.
  rewrite (validate_ambig _ _ _ _ Hd A). reflexivity.
Qed.
Lemma convert_delta_to_offset inpl r auto x src dst n a b :
  nonmult_units r src = Ok [] → has_delta src = true → nonmult_units r dst = Ok [(n, 1%Qc)] →
  dim_of r src = Ok a → dim_of r dst = Ok b →
  convert_gen qk inpl r auto x src dst = Err EDim.
Proof.
  intros Hs D Hd Da Db. unfold convert_gen, conv_plan.
  rewrite (uneq_of_nm r src dst _ _ Hs Hd) by discriminate.
  destruct (validate_cases r auto src _ Hs) as [-> | ->]; [reflexivity|]. simpl.
  destruct (validate_cases r auto dst _ Hd) as [-> | ->]; [reflexivity|]. simpl.
  rewrite Da, Db. simpl. destruct (negb (uc_eqb a b)); [reflexivity|]. simpl. rewrite D. reflexivity.
Qed.
Lemma convert_offset_to_delta inpl r auto x src dst n a b :
  nonmult_units r src = Ok [(n, 1%Qc)] → nonmult_units r dst = Ok [] → has_delta dst = true →
  dim_of r src = Ok a → dim_of r dst = Ok b →
  convert_gen qk inpl r auto x src dst = Err EDim.
Proof.
  intros Hs Hd D Da Db. unfold convert_gen, conv_plan.
  rewrite (uneq_of_nm r src dst _ _ Hs Hd) by discriminate.
  destruct (validate_cases r auto src _ Hs) as [-> | ->]; [reflexivity|]. simpl.
  destruct (validate_cases r auto dst _ Hd) as [-> | ->]; [reflexivity|]. simpl.
  rewrite Da, Db. simpl. destruct (negb (uc_eqb a b)); [reflexivity|]. simpl. rewrite D. reflexivity.
Qed.

Lemma has_delta_units u : has_delta u = false → delta_units u = [].
Proof.
  unfold has_delta, delta_units. induction (map_to_list u) as [|[k v] l IH]; simpl; [reflexivity|].
  intros H. apply orb_false_iff in H as [H1 H2]. rewrite filter_cons. simpl. rewrite decide_False by (rewrite H1; discriminate).
  apply IH. exact H2.
Qed.
Lemma compat_no_delta r u n : has_delta u = false → has_compatible_delta qk r u n = false.
Proof.
  intros H. unfold has_compatible_delta. rewrite (has_delta_units _ H). simpl. destruct (r_units r !! n); reflexivity.
Qed.

(** the delta_ counterpart of an offset unit is itself multiplicative *)
Definition delta_mult (r : reg) (n : string) : Prop := is_nm r ("delta_" ++ n) = false.
Lemma rename_neq r ua ub na nmb :
  nonmult_units r ua = Ok [(na, 1%Qc)] → delta_mult r na → nonmult_units r ub = Ok nmb → nmb ≠ [] →
  uc_eqb ub (rename_delta ua na) = false.
Proof.
  intros Ha Dm Hb N. unfold uc_eqb. apply bool_decide_eq_false. intros E.
  destruct nmb as [|[k e] l]; [contradiction|].
  assert (K : (k, e) ∈ (k, e) :: l) by left.
  apply (nonmult_units_elem _ _ _ k e Hb) in K as [K1 K2].
  assert (A : ua !! na = Some 1%Qc).
  { apply (nonmult_units_elem _ _ _ na 1%Qc Ha). left. }
  rewrite E in K1. unfold rename_delta, uc_rename in K1. rewrite A in K1. simpl in K1.
  destruct (decide (k = "delta_" ++ na)) as [->|Nk].
  - unfold delta_mult in Dm. congruence.
  - rewrite lookup_insert_ne in K1 by congruence.
    destruct (decide (k = na)) as [->|Nk2]; [rewrite lookup_delete in K1; discriminate|].
    rewrite lookup_delete_ne in K1 by congruence.
    assert (M : (k, e) ∈ [(na, 1%Qc)]) by (apply (nonmult_units_elem _ _ _ k e Ha); split; assumption).
    apply elem_of_list_singleton in M. congruence.
Qed.
End Tconv.

(** * The add/sub decision table *)
Local Arguments has_compatible_delta : simpl never.
Local Arguments sub_ok : simpl never.
Local Arguments convert_gen : simpl never.
Local Arguments rename_delta : simpl never.

Section Ttable.
Context (qk : quirks).

Lemma snd_if {A B} (b : bool) (x y : A * B) : (if b then x else y).2 = if b then x.2 else y.2.
Proof. destruct b; reflexivity. Qed.
Ltac push := repeat rewrite snd_if; cbn [snd]; rewrite ?andb_false_r, ?andb_true_r; cbn [andb negb].

Definition refused (x : res quantity) : Prop := ∃ e, x = Err e ∧ (e = EOffset ∨ e = EDim).
Lemma refused_offset : refused (Err EOffset). Proof. exists EOffset. split; [reflexivity | left; reflexivity]. Qed.
Lemma refused_bind_dim {A} (c : res A) (k : A → res quantity) : c = Err EDim → refused (x ←r c; k x).
Proof. intros ->. exists EDim. split; [reflexivity | right; reflexivity]. Qed.

Definition table_claim (r : reg) (auto sub : bool) (w : row) xa ua xb ub : Prop :=
  match w with
  | RUndocumented => True
  | RRefuse => refused (add_sub qk r auto sub (OQty xa ua) (OQty xb ub)).2
  | _ => (add_sub qk r auto sub (OQty xa ua) (OQty xb ub)).2 = row_result qk r auto sub w xa ua xb ub
  end.

Theorem add_sub_table r auto sub xa ua xb ub d nma nmb :
  dim_of r ua = Ok d → dim_of r ub = Ok d →
  nonmult_units r ua = Ok nma → nonmult_units r ub = Ok nmb →
  (∀ n, single_order1 nma = Some n → delta_mult r n) →
  (∀ n, single_order1 nmb = Some n → delta_mult r n) →
  let ca := classify qk r nma ua in
  let cb := classify qk r nmb ub in
  let cab := match ca with KOffset n _ => has_compatible_delta qk r ub n | _ => false end in
  let cba := match cb with KOffset n _ => has_compatible_delta qk r ua n | _ => false end in
  table_claim r auto sub (offset_table sub ca cb cab cba) xa ua xb ub.
Proof.
  intros Da Db Na Nb Ma Mb. unfold table_claim, add_sub, add_sub_gen. rewrite Da, Db, Na, Nb, uc_eqb_refl.
  cbv zeta. simpl negb. cbv iota.
  destruct nma as [|[na ea] [|pa la]].
  - (* a multiplicative *)
    destruct nmb as [|[nb eb] [|pb lb]].
    + simpl. push. destruct (has_delta ua) eqn:Ha, (has_delta ub) eqn:Hb; simpl; rewrite ?Ha, ?Hb; reflexivity.
    + simpl. destruct (bool_decide (eb = 1%Qc)) eqn:Eb.
      * apply bool_decide_eq_true_1 in Eb. subst eb.
        destruct (has_delta ub) eqn:Hb; [destruct (has_delta ua); exact I|].
        destruct (has_delta ua) eqn:Ha; simpl.
        -- (* KDelta, KOffset *)
           destruct (has_compatible_delta qk r ua nb) eqn:C; simpl; push.
           ++ rewrite ?andb_false_r. simpl. reflexivity.
           ++ rewrite ?andb_true_r. destruct (sub && sub_ok qk r nb); simpl.
              ** apply refused_bind_dim. eapply convert_offset_to_delta; eassumption.
              ** apply refused_offset.
        -- (* KMult, KOffset *)
           rewrite (compat_no_delta qk r ua nb Ha). simpl. push. rewrite ?andb_true_r.
           destruct (sub && sub_ok qk r nb); simpl; [reflexivity | apply refused_offset].
      * destruct (has_delta ua); simpl; push; apply refused_offset.
    + simpl. destruct (has_delta ua); simpl; push; apply refused_offset.
  - (* a has exactly one non-multiplicative unit *)
    simpl single_order1. simpl classify.
    destruct (bool_decide (ea = 1%Qc)) eqn:Ea.
    + apply bool_decide_eq_true_1 in Ea. subst ea.
      assert (Dm : delta_mult r na) by (apply Ma; simpl; reflexivity).
      destruct (has_delta ua) eqn:Ha; [exact I|].
      assert (SL : ∀ y, (if uc_eqb ua ub then Ok y else convert qk r auto y ub ua) = convert qk r auto y ub ua).
      { intros y. destruct (uc_eqb ua ub) eqn:E; [|reflexivity]. apply uc_eqb_spec in E. subst ub.
        unfold convert. rewrite convert_same. reflexivity. }
      destruct nmb as [|[nb eb] [|pb lb]].
      * (* b multiplicative *)
        simpl. destruct (has_delta ub) eqn:Hb; simpl.
        -- destruct (has_compatible_delta qk r ub na) eqn:C; simpl; push.
           ++ rewrite ?andb_false_r. simpl. reflexivity.
           ++ rewrite ?andb_true_r. destruct (sub && sub_ok qk r na); simpl.
              ** rewrite SL. apply refused_bind_dim. eapply convert_delta_to_offset; eassumption.
              ** apply refused_offset.
        -- rewrite (compat_no_delta qk r ub na Hb). simpl. push. rewrite ?andb_true_r.
           destruct (sub && sub_ok qk r na); simpl; [rewrite SL; reflexivity | apply refused_offset].
      * simpl single_order1. simpl classify.
        destruct (bool_decide (eb = 1%Qc)) eqn:Eb.
        -- apply bool_decide_eq_true_1 in Eb. subst eb.
           destruct (has_delta ub) eqn:Hb; [exact I|].
           rewrite (compat_no_delta qk r ub na Hb), (compat_no_delta qk r ua nb Ha). simpl. push.
           rewrite ?andb_true_r. destruct sub; simpl; [|apply refused_offset].
           destruct (sub_ok qk r na); simpl; [rewrite SL; reflexivity|].
           destruct (sub_ok qk r nb); simpl; [reflexivity | apply refused_offset].
        -- (* b ambiguous: exponent <> 1 *)
           assert (Ab : ambiguous [(nb, eb)]) by (split; [discriminate | simpl; rewrite Eb; reflexivity]).
           assert (Nab : uc_eqb ub ua = false) by (eapply uneq_of_nm; try eassumption; intros [= -> ->]; apply bool_decide_eq_false_1 in Eb; apply Eb; reflexivity).
           simpl. push. rewrite ?andb_false_r. simpl.
           destruct (sub && sub_ok qk r na && negb (has_compatible_delta qk r ub na)); simpl.
           ++ rewrite SL. apply refused_bind_dim. eapply convert_src_ambig; eassumption.
           ++ destruct (has_compatible_delta qk r ub na); simpl; [|apply refused_offset].
              apply refused_bind_dim. eapply convert_src_ambig; try eassumption.
              eapply rename_neq; try eassumption. discriminate.
      * (* b ambiguous: two or more *)
        assert (Ab : ambiguous ((nb, eb) :: pb :: lb)) by (split; [discriminate | reflexivity]).
        assert (Nab : uc_eqb ub ua = false) by (eapply uneq_of_nm; try eassumption; discriminate).
        simpl. push. rewrite ?andb_false_r. simpl.
        destruct (sub && sub_ok qk r na && negb (has_compatible_delta qk r ub na)); simpl.
        -- rewrite SL. apply refused_bind_dim. eapply convert_src_ambig; eassumption.
        -- destruct (has_compatible_delta qk r ub na); simpl; [|apply refused_offset].
           apply refused_bind_dim. eapply convert_src_ambig; try eassumption.
           eapply rename_neq; try eassumption. discriminate.
    + assert (Aa : ambiguous [(na, ea)]) by (split; [discriminate | simpl; rewrite Ea; reflexivity]).

      (* a ambiguous *)
      destruct nmb as [|[nb eb] [|pb lb]].
      * simpl. destruct (has_delta ub); simpl; push; apply refused_offset.
      * simpl single_order1. simpl classify.
        destruct (bool_decide (eb = 1%Qc)) eqn:Eb.
        -- apply bool_decide_eq_true_1 in Eb. subst eb.
           assert (Dm : delta_mult r nb) by (apply Mb; simpl; reflexivity).
           destruct (has_delta ub) eqn:Hb; [exact I|].
           simpl. push.
           destruct (sub && sub_ok qk r nb && negb (has_compatible_delta qk r ua nb)); simpl.
           ++ apply refused_bind_dim. eapply convert_dst_ambig; try eassumption.
              eapply uneq_of_nm; try eassumption. intros [= <- <-]; apply bool_decide_eq_false_1 in Ea; apply Ea; reflexivity.
           ++ destruct (has_compatible_delta qk r ua nb); simpl; [|apply refused_offset].
              apply refused_bind_dim. eapply convert_src_ambig; try eassumption.
              eapply rename_neq; try eassumption. discriminate.
        -- simpl. push. apply refused_offset.
      * simpl. push. apply refused_offset.
  - assert (Aa : ambiguous ((na, ea) :: pa :: la)) by (split; [discriminate | reflexivity]).
    simpl single_order1. simpl classify.

      (* a ambiguous *)
      destruct nmb as [|[nb eb] [|pb lb]].
      * simpl. destruct (has_delta ub); simpl; push; apply refused_offset.
      * simpl single_order1. simpl classify.
        destruct (bool_decide (eb = 1%Qc)) eqn:Eb.
        -- apply bool_decide_eq_true_1 in Eb. subst eb.
           assert (Dm : delta_mult r nb) by (apply Mb; simpl; reflexivity).
           destruct (has_delta ub) eqn:Hb; [exact I|].
           simpl. push.
           destruct (sub && sub_ok qk r nb && negb (has_compatible_delta qk r ua nb)); simpl.
           ++ apply refused_bind_dim. eapply convert_dst_ambig; try eassumption.
              eapply uneq_of_nm; try eassumption. discriminate.
           ++ destruct (has_compatible_delta qk r ua nb); simpl; [|apply refused_offset].
              apply refused_bind_dim. eapply convert_src_ambig; try eassumption.
              eapply rename_neq; try eassumption. discriminate.
        -- simpl. push. apply refused_offset.
      * simpl. push. apply refused_offset.
Qed.
End Ttable.

(** * Multiplication, division, powers *)
Local Arguments to_root_gen : simpl never.
Local Arguments size : simpl never.

Lemma size1_list (u : uc) n e : size u = 1%nat → u !! n = Some e → map_to_list u = [(n, e)].
Proof.
  intros S L. assert (Len : length (map_to_list u) = 1%nat) by exact S.
  apply elem_of_map_to_list in L.
  destruct (map_to_list u) as [|p [|p' l]]; simpl in Len; try discriminate.
  apply elem_of_list_singleton in L. subst p. reflexivity.
Qed.
Lemma size_pos (u : uc) n e : u !! n = Some e → size u ≠ 0%nat.
Proof. intros L S. apply map_size_empty_inv in S. subst u. rewrite lookup_empty in L. discriminate. Qed.

Section Tmuldiv.
Context (qk : quirks).

Lemma ok_class r auto u nm : nonmult_units r u = Ok nm →
  match mclassify nm u with
  | MCMult => nm = [] ∧ ok_for_muldiv auto u (length nm) = true
  | MCSingle _ => length nm = 1%nat ∧ size u = 1%nat ∧ ok_for_muldiv auto u (length nm) = auto
  | MCAmbig => nm ≠ [] ∧ ok_for_muldiv auto u (length nm) = false
  end.
Proof.
  intros H. destruct nm as [|[n e] [|p l]]; simpl mclassify.
  - split; reflexivity.
  - assert (L : u !! n = Some e) by (apply (nonmult_units_elem _ _ _ n e H); left).
    unfold ok_for_muldiv. simpl length. simpl Nat.ltb. simpl Nat.eqb. cbv iota.
    destruct (Nat.eqb (size u) 1) eqn:S.
    + apply Nat.eqb_eq in S. rewrite (size1_list u n e S L), S. simpl.
      destruct (bool_decide (e = 1%Qc)) eqn:E; simpl.
      * split; [reflexivity|]. split; [reflexivity|]. destruct auto; reflexivity.
      * split; [discriminate|]. destruct auto; reflexivity.
    + rewrite andb_false_r. split; [discriminate|].
      apply Nat.eqb_neq in S. pose proof (size_pos u n e L).
      assert (T : Nat.ltb 1 (size u) = true) by (apply Nat.ltb_lt; lia). rewrite T. reflexivity.
  - split; [discriminate|]. reflexivity.
Qed.

Theorem muldiv_table r auto div xa ua xb ub nma nmb :
  nonmult_units r ua = Ok nma → nonmult_units r ub = Ok nmb →
  (mul_div qk r auto div (OQty xa ua) (OQty xb ub)).2
  = spec_mul_div qk r auto div (mclassify nma ua) (mclassify nmb ub) (xa, ua) (xb, ub).
Proof.
  intros Na Nb. unfold mul_div, mul_div_gen. rewrite Na, Nb.
  pose proof (ok_class r auto ua nma Na) as Ha. pose proof (ok_class r auto ub nmb Nb) as Hb.
  unfold spec_mul_div, mprep, auto_root.
  destruct (mclassify nma ua).
  - destruct Ha as [-> Oa]. rewrite Oa. simpl.
    destruct (mclassify nmb ub).
    + destruct Hb as [-> Ob]. rewrite Ob. reflexivity.
    + destruct Hb as (Lb & Sb & Ob). rewrite Ob, Lb, Sb. simpl. destruct auto; reflexivity.
    + destruct Hb as [_ Ob]. rewrite Ob. reflexivity.
  - destruct Ha as (La & Sa & Oa). rewrite Oa, La. simpl. rewrite Sa. simpl.
    destruct auto; simpl; [|reflexivity]. unfold to_root.
    destruct (to_root_gen qk false r true (xa, ua)) as [a'|e]; simpl; [|reflexivity].
    destruct (mclassify nmb ub).
    + destruct Hb as [-> Ob]. rewrite Ob. reflexivity.
    + destruct Hb as (Lb & Sb & Ob). rewrite Ob, Lb, Sb. reflexivity.
    + destruct Hb as [_ Ob]. rewrite Ob. reflexivity.
  - destruct Ha as [_ Oa]. rewrite Oa. reflexivity.
Qed.

(** quantity (op) number, and number * quantity *)
Theorem mul_num_table r auto div xa ua y nma :
  nonmult_units r ua = Ok nma →
  (mul_div qk r auto div (OQty xa ua) (ONum y)).2 = spec_mul_num auto div (mclassify nma ua) (xa, ua) y
  ∧ (mul_div qk r auto false (ONum y) (OQty xa ua)).2 = spec_mul_num auto false (mclassify nma ua) (xa, ua) y.
Proof.
  intros Na. unfold mul_div, mul_div_gen. rewrite Na. simpl negb. cbv iota.
  pose proof (ok_class r auto ua nma Na) as Ha. unfold spec_mul_num.
  destruct nma as [|[n e] [|p l]]; simpl mclassify in *.
  - destruct Ha as [_ Oa]. rewrite Oa. split; reflexivity.
  - destruct (bool_decide (e = 1%Qc) && Nat.eqb (size ua) 1) eqn:C.
    + destruct Ha as (_ & _ & Oa). rewrite Oa. apply andb_true_iff in C as [C _]. rewrite C.
      destruct auto, div; split; reflexivity.
    + destruct Ha as [_ Oa]. rewrite Oa. split; reflexivity.
  - destruct Ha as [_ Oa]. rewrite Oa. split; reflexivity.
Qed.
(** number / quantity ([__rtruediv__]) *)
Theorem rdiv_table r auto y xb ub nmb :
  nonmult_units r ub = Ok nmb →
  (mul_div qk r auto true (ONum y) (OQty xb ub)).2
  = (b' ←r mprep qk r auto (mclassify nmb ub) (xb, ub); m ←r mop2 true y b'.1; Ok (m, uc_inv b'.2)).
Proof.
  intros Nb. unfold mul_div, mul_div_gen. rewrite Nb. simpl negb. cbv iota.
  pose proof (ok_class r auto ub nmb Nb) as Hb. unfold mprep, auto_root. cbn [snd fst].
  destruct (mclassify nmb ub).
  - destruct Hb as [-> Ob]. rewrite Ob. reflexivity.
  - destruct Hb as (Lb & Sb & Ob). rewrite Ob, Lb, Sb. destruct auto; reflexivity.
  - destruct Hb as [_ Ob]. rewrite Ob. reflexivity.
Qed.

(** powers *)
Theorem pow_table r auto q e nm :
  nonmult_units r q.2 = Ok nm →
  (q_pow qk r auto q e).2 =
    if (e =? 1)%Z then Ok q
    else if (e =? 0)%Z then Ok (1%Qc, ∅)
    else match nm with
         | [] => pow_plain q e
         | _ => if auto then (q' ←r to_root qk r auto q; pow_plain q' e) else Err EOffset
         end.
Proof.
  intros H. unfold q_pow, q_pow_gen. rewrite H.
  destruct (e =? 1)%Z; [reflexivity|]. destruct (e =? 0)%Z; [reflexivity|].
  destruct nm; [reflexivity|]. destruct auto; reflexivity.
Qed.

(** * Refusal of ambiguity, as corollaries *)
Theorem refuse_add_sub r auto sub xa ua xb ub d nma nmb :
  dim_of r ua = Ok d → dim_of r ub = Ok d →
  nonmult_units r ua = Ok nma → nonmult_units r ub = Ok nmb →
  (∀ n, single_order1 nma = Some n → delta_mult r n) →
  (∀ n, single_order1 nmb = Some n → delta_mult r n) →
  offset_table sub (classify qk r nma ua) (classify qk r nmb ub)
    (match classify qk r nma ua with KOffset n _ => has_compatible_delta qk r ub n | _ => false end)
    (match classify qk r nmb ub with KOffset n _ => has_compatible_delta qk r ua n | _ => false end) = RRefuse →
  refused (add_sub qk r auto sub (OQty xa ua) (OQty xb ub)).2.
Proof.
  intros Da Db Na Nb Ma Mb W.
  pose proof (add_sub_table qk r auto sub xa ua xb ub d nma nmb Da Db Na Nb Ma Mb) as T.
  cbv zeta in T. rewrite W in T. exact T.
Qed.
Theorem refuse_add_sub_dim r auto sub xa ua xb ub da db nma nmb :
  dim_of r ua = Ok da → dim_of r ub = Ok db → da ≠ db →
  nonmult_units r ua = Ok nma → nonmult_units r ub = Ok nmb →
  (add_sub qk r auto sub (OQty xa ua) (OQty xb ub)).2 = Err EDim.
Proof.
  intros Da Db N Na Nb. unfold add_sub, add_sub_gen. rewrite Da, Db, Na, Nb.
  assert (E : uc_eqb da db = false) by (unfold uc_eqb; apply bool_decide_eq_false; exact N).
  rewrite E. reflexivity.
Qed.
Theorem refuse_mul_div r auto div xa ua xb ub nma nmb :
  nonmult_units r ua = Ok nma → nonmult_units r ub = Ok nmb →
  mclassify nma ua = MCAmbig ∨ (mclassify nmb ub = MCAmbig ∧ mclassify nma ua = MCMult)
  ∨ (auto = false ∧ (nma ≠ [] ∨ (nma = [] ∧ nmb ≠ []))) →
  (mul_div qk r auto div (OQty xa ua) (OQty xb ub)).2 = Err EOffset.
Proof.
  intros Na Nb H. rewrite (muldiv_table r auto div xa ua xb ub nma nmb Na Nb).
  unfold spec_mul_div, mprep. destruct H as [-> | [[-> ->] | [-> H]]]; try reflexivity.
  destruct H as [H | [-> H]].
  - destruct nma as [|[n e] [|p l]]; [contradiction| |reflexivity]. simpl.
    destruct (_ && _); reflexivity.
  - simpl. destruct nmb as [|[n e] [|p l]]; [contradiction| |reflexivity]. simpl.
    destruct (_ && _); reflexivity.
Qed.
End Tmuldiv.

(** * Corollaries on single units *)
Local Arguments add_sub : simpl never.
Local Arguments convert : simpl never.
Local Arguments rename_delta : simpl never.
Local Arguments has_compatible_delta : simpl never.
Local Arguments U1 : simpl never.
Local Arguments aop2 : simpl never.

Lemma plain_factor_of r a b x e : conv_factor r a b = Ok (Some x, e) → plain_factor r a b = Ok x.
Proof. intros H. unfold plain_factor. rewrite H. reflexivity. Qed.
Lemma plain_factor_id r a d : dim_of r a = Ok d → plain_factor r a a = Ok 1%Qc.
Proof. intros H. eapply plain_factor_of. eapply conv_factor_id. exact H. Qed.

Section Trows.
Context (qk : quirks).

(** both units defined over the same reference unit: x |-> (s_X x + o_X - o_Y) / s_Y *)
Theorem offset_conv_affine_same_ref r auto inpl X Y dx ox dy oy d d' x :
  X ≠ Y → offset_unit r X dx ox → offset_unit r Y dy oy →
  dim_of r (U1 X) = Ok d → dim_of r (U1 Y) = Ok d →
  u_ref dx = u_ref dy → dim_of r (u_ref dx) = Ok d' →
  convert_gen qk inpl r auto x (U1 X) (U1 Y) = Ok ((x * u_scale dx + ox - oy) / u_scale dy)%Qc.
Proof.
  intros N HX HY DX DY E D'.
  rewrite (offset_conv_affine qk r auto inpl X Y dx ox dy oy d 1%Qc x N HX HY DX DY).
  - f_equal. pose proof (ou_scale _ _ _ _ HY). field. assumption.
  - rewrite <- E. eapply plain_factor_id. exact D'.
Qed.

(** with the facts of property C02 about the reference units: round trip and path independence *)
Theorem conv_offset_roundtrip r auto inpl X Y dx ox dy oy d d' Fa Ba Fb Bb x :
  X ≠ Y → offset_unit r X dx ox → offset_unit r Y dy oy →
  dim_of r (U1 X) = Ok d → dim_of r (U1 Y) = Ok d →
  reg_nz r → exact_unit r (u_ref dx) Fa Ba → exact_unit r (u_ref dy) Fb Bb →
  dim_of r (u_ref dx) = Ok d' → dim_of r (u_ref dy) = Ok d' →
  (y ←r convert_gen qk inpl r auto x (U1 X) (U1 Y); convert_gen qk inpl r auto y (U1 Y) (U1 X)) = Ok x.
Proof.
  intros N HX HY DX DY Hnz Ea Eb Ra Rb.
  destruct (conv_factor_inverse r (u_ref dx) (u_ref dy) Fa Ba Fb Bb d' Hnz (ou_wfref _ _ _ _ HX) (ou_wfref _ _ _ _ HY) Ea Eb Ra Rb)
    as (f & g & e1 & e2 & H1 & H2 & FG).
  eapply conv_offset_roundtrip_f; try eassumption; eapply plain_factor_of; eassumption.
Qed.
Theorem conv_offset_path_independent r auto inpl X Y Z dx ox dy oy dz oz d d' Fa Ba Fb Bb Fc Bc x :
  X ≠ Y → Y ≠ Z → X ≠ Z → offset_unit r X dx ox → offset_unit r Y dy oy → offset_unit r Z dz oz →
  dim_of r (U1 X) = Ok d → dim_of r (U1 Y) = Ok d → dim_of r (U1 Z) = Ok d →
  reg_nz r → exact_unit r (u_ref dx) Fa Ba → exact_unit r (u_ref dy) Fb Bb → exact_unit r (u_ref dz) Fc Bc →
  dim_of r (u_ref dx) = Ok d' → dim_of r (u_ref dy) = Ok d' → dim_of r (u_ref dz) = Ok d' →
  (y ←r convert_gen qk inpl r auto x (U1 X) (U1 Y); convert_gen qk inpl r auto y (U1 Y) (U1 Z))
  = convert_gen qk inpl r auto x (U1 X) (U1 Z).
Proof.
  intros N1 N2 N3 HX HY HZ DX DY DZ Hnz Ea Eb Ec Ra Rb Rc.
  destruct (conv_factor_path r (u_ref dx) (u_ref dy) (u_ref dz) Fa Ba Fb Bb Fc Bc d' Hnz
              (ou_wfref _ _ _ _ HX) (ou_wfref _ _ _ _ HY) Ea Eb Ec Ra Rb Rc)
    as (f & g & h & e1 & e2 & e3 & H1 & H2 & H3 & FG).
  eapply (conv_offset_path_f qk r auto inpl X Y Z dx ox dy oy dz oz d f g h); try eassumption;
    eapply plain_factor_of; eassumption.
Qed.

(** * The documented rows on single units, with explicit values *)
Lemma rename_U1 X : rename_delta (U1 X) X = U1 ("delta_" ++ X).
Proof. unfold rename_delta, uc_rename, U1. rewrite lookup_singleton. simpl. rewrite delete_singleton. apply insert_empty. Qed.
Lemma sub_ok_offset r X d o : offset_unit r X d o → sub_ok qk r X = true.
Proof.
  intros H. unfold sub_ok. rewrite (ou_lookup _ _ _ _ H). unfold is_log. rewrite (ou_conv _ _ _ _ H). apply orb_true_r.
Qed.
Lemma classify_offset r X d o : offset_unit r X d o → classify qk r [(X, 1%Qc)] (U1 X) = KOffset X true.
Proof.
  intros H. unfold classify. rewrite bool_decide_eq_true_2 by reflexivity.
  rewrite has_delta_U1, (ou_nodelta _ _ _ _ H), (sub_ok_offset _ _ _ _ H). reflexivity.
Qed.

(** offset - offset = delta of the left unit; offset + offset is refused *)
Theorem offset_minus_offset r auto X Y dx ox dy oy d xa xb :
  offset_unit r X dx ox → offset_unit r Y dy oy → delta_mult r X → delta_mult r Y →
  dim_of r (U1 X) = Ok d → dim_of r (U1 Y) = Ok d →
  (add_sub qk r auto true (OQty xa (U1 X)) (OQty xb (U1 Y))).2
  = (y ←r convert qk r auto xb (U1 Y) (U1 X); Ok ((xa - y)%Qc, U1 ("delta_" ++ X)))
  ∧ refused (add_sub qk r auto false (OQty xa (U1 X)) (OQty xb (U1 Y))).2.
Proof.
  intros HX HY MX MY DX DY.
  pose proof (nonmult_U1_offset _ _ _ _ HX) as NX. pose proof (nonmult_U1_offset _ _ _ _ HY) as NY.
  split.
  - pose proof (add_sub_table qk r auto true xa (U1 X) xb (U1 Y) d _ _ DX DY NX NY) as T.
    cbv zeta in T. rewrite (classify_offset _ _ _ _ HX), (classify_offset _ _ _ _ HY) in T. simpl in T.
    rewrite rename_U1 in T. apply T; intros n [= <-]; assumption.
  - pose proof (add_sub_table qk r auto false xa (U1 X) xb (U1 Y) d _ _ DX DY NX NY) as T.
    cbv zeta in T. rewrite (classify_offset _ _ _ _ HX), (classify_offset _ _ _ _ HY) in T. simpl in T.
    apply T; intros n [= <-]; assumption.
Qed.
(** offset +- absolute: the difference is a delta, the sum is refused; absolute - offset stays absolute *)
Theorem offset_and_absolute r auto X Y dx ox dy d xa xb :
  offset_unit r X dx ox → plain_unit r Y dy → is_delta_name Y = false → delta_mult r X →
  dim_of r (U1 X) = Ok d → dim_of r (U1 Y) = Ok d →
  (add_sub qk r auto true (OQty xa (U1 X)) (OQty xb (U1 Y))).2
  = (y ←r convert qk r auto xb (U1 Y) (U1 X); Ok ((xa - y)%Qc, U1 ("delta_" ++ X)))
  ∧ refused (add_sub qk r auto false (OQty xa (U1 X)) (OQty xb (U1 Y))).2
  ∧ (add_sub qk r auto true (OQty xb (U1 Y)) (OQty xa (U1 X))).2
    = (y ←r convert qk r auto xa (U1 X) (U1 Y); Ok ((xb - y)%Qc, U1 Y))
  ∧ refused (add_sub qk r auto false (OQty xb (U1 Y)) (OQty xa (U1 X))).2.
Proof.
  intros HX HY ND MX DX DY.
  pose proof (nonmult_U1_offset _ _ _ _ HX) as NX. pose proof (nonmult_U1_plain _ _ _ HY) as NY.
  assert (CY : classify qk r [] (U1 Y) = KMult) by (unfold classify; rewrite has_delta_U1, ND; reflexivity).
  repeat split.
  - pose proof (add_sub_table qk r auto true xa (U1 X) xb (U1 Y) d _ _ DX DY NX NY) as T.
    cbv zeta in T. rewrite (classify_offset _ _ _ _ HX), CY in T. simpl in T.
    rewrite rename_U1 in T. apply T; [intros n [= <-]; assumption | intros n [=]].
  - pose proof (add_sub_table qk r auto false xa (U1 X) xb (U1 Y) d _ _ DX DY NX NY) as T.
    cbv zeta in T. rewrite (classify_offset _ _ _ _ HX), CY in T. simpl in T.
    apply T; [intros n [= <-]; assumption | intros n [=]].
  - pose proof (add_sub_table qk r auto true xb (U1 Y) xa (U1 X) d _ _ DY DX NY NX) as T.
    cbv zeta in T. rewrite (classify_offset _ _ _ _ HX), CY in T. simpl in T.
    apply T; [intros n [=] | intros n [= <-]; assumption].
  - pose proof (add_sub_table qk r auto false xb (U1 Y) xa (U1 X) d _ _ DY DX NY NX) as T.
    cbv zeta in T. rewrite (classify_offset _ _ _ _ HX), CY in T. simpl in T.
    apply T; [intros n [=] | intros n [= <-]; assumption].
Qed.
(** offset +- compatible delta = offset, in both operand orders *)
Theorem offset_pm_delta r auto sub X D dx ox dd d xa xb :
  offset_unit r X dx ox → plain_unit r D dd → is_delta_name D = true → delta_mult r X →
  has_compatible_delta qk r (U1 D) X = true →
  dim_of r (U1 X) = Ok d → dim_of r (U1 D) = Ok d →
  (add_sub qk r auto sub (OQty xa (U1 X)) (OQty xb (U1 D))).2
  = (y ←r convert qk r auto xb (U1 D) (U1 ("delta_" ++ X)); Ok (aop2 sub xa y, U1 X))
  ∧ (add_sub qk r auto sub (OQty xb (U1 D)) (OQty xa (U1 X))).2
  = (y ←r convert qk r auto xb (U1 D) (U1 ("delta_" ++ X)); Ok (aop2 sub y xa, U1 X)).
Proof.
  intros HX HD ND MX C DX DD.
  pose proof (nonmult_U1_offset _ _ _ _ HX) as NX. pose proof (nonmult_U1_plain _ _ _ HD) as NY.
  assert (CY : classify qk r [] (U1 D) = KDelta) by (unfold classify; rewrite has_delta_U1, ND; reflexivity).
  split.
  - pose proof (add_sub_table qk r auto sub xa (U1 X) xb (U1 D) d _ _ DX DD NX NY) as T.
    cbv zeta in T. rewrite (classify_offset _ _ _ _ HX), CY in T. simpl in T. rewrite C in T. simpl in T.
    rewrite rename_U1 in T. apply T; [intros n [= <-]; assumption | intros n [=]].
  - pose proof (add_sub_table qk r auto sub xb (U1 D) xa (U1 X) d _ _ DD DX NY NX) as T.
    cbv zeta in T. rewrite (classify_offset _ _ _ _ HX), CY in T. simpl in T. rewrite C in T. simpl in T.
    rewrite rename_U1 in T. apply T; [intros n [=] | intros n [= <-]; assumption].
Qed.
End Trows.

(** * Decidable side conditions *)
Definition offset_unitb (r : reg) (X : string) : bool :=
  match r_units r !! X with
  | Some d =>
      match u_conv d with
      | COffset o => negb (qz o) && negb (qz (u_scale d)) && wfb (u_ref d) && negb (has_delta (u_ref d))
                     && negb (is_delta_name X)
      | _ => false
      end
  | None => false
  end.
Lemma offset_unitb_spec r X : offset_unitb r X = true → ∃ d o, offset_unit r X d o.
Proof.
  unfold offset_unitb. destruct (r_units r !! X) as [d|] eqn:L; [|discriminate].
  destruct (u_conv d) as [|o|] eqn:C; try discriminate. intros H.
  repeat (apply andb_true_iff in H as [H ?]).
  exists d, o. split; try assumption.
  - apply qz_false. apply negb_true_iff. assumption.
  - apply qz_false. apply negb_true_iff. assumption.
  - apply wfb_spec. assumption.
  - apply negb_true_iff. assumption.
  - apply negb_true_iff. assumption.
Qed.
Definition plain_unitb (r : reg) (X : string) : bool :=
  match r_units r !! X with Some d => u_multiplicative d | None => false end.
Lemma plain_unitb_spec r X : plain_unitb r X = true → ∃ d, plain_unit r X d.
Proof. unfold plain_unitb. destruct (r_units r !! X) as [d|] eqn:L; [|discriminate]. intros H. exists d. split; [exact L | exact H]. Qed.
(** every offset unit of a registry has its automatic delta_ unit: same scale, same reference,
    ScaleConverter *)
Definition deltas_okb (r : reg) : bool :=
  forallb (λ kv : string * udef,
    let d := kv.2 in
    match u_conv d with
    | COffset o =>
        if qz o then true else
        match r_units r !! ("delta_" ++ u_name d) with
        | Some dd => bool_decide (u_scale dd = u_scale d) && uc_eqb (u_ref dd) (u_ref d)
                     && match u_conv dd with CScale => true | _ => false end
        | None => false
        end
    | _ => true
    end) (map_to_list (r_units r)).

Definition degC := "degree_Celsius". Definition degF := "degree_Fahrenheit". Definition kel := "kelvin".
Definition ddegC := "delta_degree_Celsius". Definition ddegF := "delta_degree_Fahrenheit".
Definition q_is (x : res quantity) (m : Qc) (u : uc) : bool :=
  match x with Ok (y, v) => bool_decide (y = m) && uc_eqb v u | Err _ => false end.
Definition n_is (x : res Qc) (m : Qc) : bool := match x with Ok y => bool_decide (y = m) | Err _ => false end.
Definition same_err (a b : err) : bool :=
  match a, b with EDim, EDim | EOffset, EOffset | EZeroDiv, EZeroDiv | EValue, EValue => true | _, _ => false end.
Definition err_is {A} (x : res A) (e : err) : bool := match x with Err e' => same_err e' e | Ok _ => false end.

Example ex_units :
  offset_unitb default_reg degC && offset_unitb default_reg degF && plain_unitb default_reg kel
  && plain_unitb default_reg ddegC && deltas_okb default_reg
  && negb (is_nm default_reg ("delta_" ++ degC)) = true.
Proof. vm_compute. reflexivity. Qed.

Example ex_conv :
  n_is (convert as_found default_reg false (mkq 10 1) (U1 degC) (U1 degF)) (mkq 50 1)
  && n_is (convert as_found default_reg false (mkq 10 1) (U1 degC) (U1 kel)) (mkq 5663 20)
  && n_is (convert as_found default_reg false (mkq 10 1) (U1 ddegC) (U1 ddegF)) (mkq 18 1)
  && n_is (iconvert as_found default_reg false (mkq 50 1) (U1 degF) (U1 degC)) (mkq 10 1)
  && err_is (convert as_found default_reg false (mkq 10 1) (U1 degC) (U1 ddegC)) EDim = true.
Proof. vm_compute. reflexivity. Qed.

Example ex_table :
  q_is (add_sub as_found default_reg false true (OQty (mkq 10 1) (U1 degC)) (OQty (mkq 5 1) (U1 degC))).2 (mkq 5 1) (U1 ddegC)
  && q_is (add_sub as_found default_reg false false (OQty (mkq 10 1) (U1 degC)) (OQty (mkq 5 1) (U1 ddegC))).2 (mkq 15 1) (U1 degC)
  && err_is (add_sub as_found default_reg false false (OQty (mkq 10 1) (U1 degC)) (OQty (mkq 5 1) (U1 degC))).2 EOffset
  && err_is (add_sub as_found default_reg false false (OQty (mkq 10 1) (U1 degC)) (OQty (mkq 5 1) (U1 kel))).2 EOffset
  && err_is (mul_div as_found default_reg false false (OQty (mkq 10 1) (U1 degC)) (ONum (mkq 2 1))).2 EOffset
  && q_is (mul_div as_found default_reg true false (OQty (mkq 10 1) (U1 degC)) (ONum (mkq 2 1))).2 (mkq 20 1) (U1 degC)
  && q_is (mul_div as_found default_reg true false (OQty (mkq 10 1) (U1 degC)) (OQty (mkq 2 1) (U1 "meter"))).2
          (mkq 5663 10) (mkuc [(kel, mkq 1 1); ("meter", mkq 1 1)])
  && err_is (q_pow as_found default_reg false (mkq 10 1, U1 degC) 2).2 EOffset
  && q_is (q_pow as_found default_reg true (mkq 10 1, U1 degC) (-1)).2 (mkq 20 5663) (mkuc [(kel, mkq (-1) 1)]) = true.
Proof. vm_compute. reflexivity. Qed.

(** * The three findings: witnesses for the behaviour as found, and the repaired behaviour *)
Definition degW_def : rawdef :=
  RUnit ["degW"] [TNum "3"; TOp "/"; TNum "2"; TOp "*"; TName "degree_Rankine"; TEnd] [("offset", [TNum "10"; TEnd])].
Definition reg_W : reg := match load (app default_raw [degW_def]) with Ok r => r | Err _ => empty_reg end.
Example ex_F90 :
  offset_unitb reg_W degC && plain_unitb reg_W "delta_degW"
  && match dim_of reg_W (U1 degC), dim_of reg_W (U1 "delta_degW") with Ok a, Ok b => uc_eqb a b | _, _ => false end
  && err_is (add_sub as_found reg_W false false (OQty (mkq 1 1) (U1 degC)) (OQty (mkq 6 1) (U1 "delta_degW"))).2 EOffset
  && err_is (add_sub as_found reg_W false true (OQty (mkq 1 1) (U1 degC)) (OQty (mkq 6 1) (U1 "delta_degW"))).2 EDim
  && q_is (add_sub repaired reg_W false false (OQty (mkq 1 1) (U1 degC)) (OQty (mkq 6 1) (U1 "delta_degW"))).2 (mkq 6 1) (U1 degC) = true.
Proof. vm_compute. reflexivity. Qed.
Definition degC_m := mkuc [(degC, mkq 1 1); ("meter", mkq 1 1)].
Definition degF_in := mkuc [(degF, mkq 1 1); ("inch", mkq 1 1)].
Definition degF_m := mkuc [(degF, mkq 1 1); ("meter", mkq 1 1)].
Example ex_F91 :
  n_is (convert as_found default_reg true (mkq 10 1) degC_m degF_in) (mkq 50 1)
  && n_is (convert as_found default_reg true (mkq 10 1) degC_m degF_m) (mkq 50 1)
  && n_is (convert repaired default_reg true (mkq 10 1) degC_m degF_in) (mkq 248997191 12700)
  && n_is (convert repaired default_reg true (mkq 10 1) degC_m degF_m) (mkq 50 1)
  && err_is (convert as_found default_reg false (mkq 10 1) degC_m degF_in) EDim = true.
Proof. vm_compute. reflexivity. Qed.
Definition dBm := "decibelmilliwatt".
Example ex_F92 :
  q_is (add_sub as_found default_reg false true (OQty (mkq 10 1) (U1 dBm)) (OQty (mkq 4 1) (U1 dBm))).2 (mkq 6 1) (U1 ("delta_" ++ dBm))
  && bool_decide (r_units default_reg !! ("delta_" ++ dBm) = None)
  && err_is (add_sub repaired default_reg false true (OQty (mkq 10 1) (U1 dBm)) (OQty (mkq 4 1) (U1 dBm))).2 EOffset
  && err_is (add_sub as_found default_reg false false (OQty (mkq 10 1) (U1 dBm)) (OQty (mkq 4 1) (U1 dBm))).2 EOffset = true.
Proof. vm_compute. reflexivity. Qed.
Example ex_hyps :
  (∃ d o, offset_unit default_reg degC d o) ∧ (∃ d o, offset_unit default_reg degF d o)
  ∧ (∃ d, plain_unit default_reg kel d) ∧ delta_mult default_reg degC.
Proof.
  split; [|split; [|split]];
    [apply offset_unitb_spec | apply offset_unitb_spec | apply plain_unitb_spec | unfold delta_mult];
    vm_compute; reflexivity.
Qed.
