(** Proofs/OffsetProofs.v — lemmas for property C06 (offset units). *)
From PintV Require Import Model.UC Model.Eval Model.Registry Model.Offset.
From PintV Require Import Proofs.UCProofs Proofs.RegistryProofs Proofs.RootProofs Proofs.FactorProofs.
From PintV Require Import Gen.Converters.
Open Scope string_scope.

(** * Tie T4: the formulas regenerated from the converter classes are the ones the model interprets *)
Lemma tie_scale_conv : gen_scale_conv = scale_conv. Proof. reflexivity. Qed.
Lemma tie_offset_conv : gen_offset_conv = offset_conv. Proof. reflexivity. Qed.
Lemma tie_log_conv : gen_log_conv = log_conv. Proof. reflexivity. Qed.
