(** Proofs/PiBasisProofs.v — the vectors returned by the Buckingham-pi model form a BASIS of the
    dimensionless exponent vectors: they are linearly independent and every v with
    Σ_i v_i · A_i = 0 is a linear combination of them.  No size bound. *)
From PintV Require Import Model.UC Model.Pi Proofs.UCProofs Proofs.PiProofs.
From Coq Require Import Lia.

Local Open Scope Qc_scope.

Notation zeros n := (repeat 0%Qc n).
Definition allz (s : vec) : Prop := Forall (λ x, x = 0%Qc) s.

Lemma Qcinv_nonzero x : x ≠ 0 → / x ≠ 0.
Proof.
  intros Hx H0. pose proof (Qcmult_inv_r x Hx) as H. rewrite H0 in H.
  replace (x * 0) with 0 in H by ring. discriminate.
Qed.

(** * Vector algebra (the laws that hold without length side conditions first) *)
Lemma vadd_comm v w : vadd v w = vadd w v.
Proof. revert w. induction v as [|x v IH]; intros [|y w]; simpl; try reflexivity. rewrite IH. f_equal. ring. Qed.
Lemma vadd_assoc a b c : vadd (vadd a b) c = vadd a (vadd b c).
Proof.
  revert b c. induction a as [|x a IH]; intros [|y b] [|z c]; simpl; try reflexivity.
  rewrite IH. f_equal. ring.
Qed.
Lemma vadd_swap a b c : vadd a (vadd b c) = vadd b (vadd a c).
Proof. rewrite <- !vadd_assoc. rewrite (vadd_comm a b). reflexivity. Qed.
Lemma vadd_interchange a b c d : vadd (vadd a b) (vadd c d) = vadd (vadd a c) (vadd b d).
Proof. rewrite !vadd_assoc. f_equal. apply vadd_swap. Qed.
Lemma zeros_length n : length (zeros n) = n.
Proof. apply repeat_length. Qed.
Lemma vadd_zeros_l' n v : length v = n → vadd (zeros n) v = v.
Proof. intros <-. apply vadd_zeros_l. Qed.
Lemma vadd_zeros_r' n v : length v = n → vadd v (zeros n) = v.
Proof. intros <-. apply vadd_zeros_r. Qed.
Lemma vscale_0' n a : length a = n → vscale 0 a = zeros n.
Proof. intros <-. apply vscale_0. Qed.

Lemma vnth_zeros j n : vnth j (zeros n) = 0.
Proof. unfold vnth. revert j. induction n; intros [|j]; simpl; auto. Qed.
Lemma vnth_vscale j c v : vnth j (vscale c v) = c * vnth j v.
Proof.
  unfold vnth. revert j. induction v as [|x v IH]; intros [|j]; simpl; try ring. apply IH.
Qed.
Lemma vnth_vsub j v w : length v = length w → vnth j (vsub v w) = vnth j v - vnth j w.
Proof.
  unfold vnth. revert w j. induction v as [|x v IH]; intros [|y w] [|j] H; simpl in *; try discriminate; try ring.
  apply IH. congruence.
Qed.
Lemma vnth_vadd j v w : length v = length w → vnth j (vadd v w) = vnth j v + vnth j w.
Proof.
  unfold vnth. revert w j. induction v as [|x v IH]; intros [|y w] [|j] H; simpl in *; try discriminate; try ring.
  apply IH. congruence.
Qed.
Lemma vnth_beyond j v : (length v ≤ j)%nat → vnth j v = 0.
Proof. intros H. unfold vnth. apply nth_overflow. exact H. Qed.
Lemma vec_ext (v w : vec) : length v = length w → (∀ j, (j < length v)%nat → vnth j v = vnth j w) → v = w.
Proof. intros L H. apply (nth_ext v w 0 0 L). exact H. Qed.
Lemma allz_zeros s : allz s → s = zeros (length s).
Proof. induction 1 as [|x s -> _ IH]; simpl; [reflexivity|]. rewrite <- IH. reflexivity. Qed.
Lemma zeros_allz n : allz (zeros n).
Proof. induction n; constructor; auto. Qed.
Lemma is_zero_vec_intro v : (∀ j, (j < length v)%nat → vnth j v = 0) → is_zero_vec v = true.
Proof.
  unfold is_zero_vec. induction v as [|x v IH]; intros H; simpl; [reflexivity|].
  apply andb_true_iff. split.
  - apply qz_spec. apply (H 0%nat). simpl. lia.
  - apply IH. intros j Hj. apply (H (S j)). simpl. lia.
Qed.

Lemma vadd_len n v w : length v = n → length w = n → length (vadd v w) = n.
Proof. intros H1 H2. rewrite vadd_length; congruence. Qed.
Lemma vsub_len n v w : length v = n → length w = n → length (vsub v w) = n.
Proof. intros H1 H2. rewrite vsub_length; congruence. Qed.
Lemma vscale_len n c v : length v = n → length (vscale c v) = n.
Proof. intros H. rewrite vscale_length. exact H. Qed.
Lemma vnth_vadd' n j v w : length v = n → length w = n → vnth j (vadd v w) = vnth j v + vnth j w.
Proof. intros. apply vnth_vadd. congruence. Qed.
Lemma vnth_vsub' n j v w : length v = n → length w = n → vnth j (vsub v w) = vnth j v - vnth j w.
Proof. intros. apply vnth_vsub. congruence. Qed.
Ltac vlen :=
  repeat first [ assumption | apply vadd_len | apply vsub_len | apply vscale_len | apply lincomb_length
               | apply zeros_length ].
Ltac vnth_norm n :=
  repeat first [ rewrite (vnth_vadd' n) by vlen | rewrite (vnth_vsub' n) by vlen | rewrite vnth_vscale
               | rewrite vnth_zeros ].
Lemma vec_ext' n (v w : vec) : length v = n → length w = n → (∀ j, vnth j v = vnth j w) → v = w.
Proof. intros L1 L2 H. apply vec_ext; [congruence | auto]. Qed.

(** dot product of a coefficient list with a list of scalars *)
Fixpoint dot (s u : vec) : Qc :=
  match s, u with x :: s', y :: u' => x * y + dot s' u' | _, _ => 0 end.
Lemma dot_allz_l s u : allz s → dot s u = 0.
Proof. intros H. revert u. induction H as [|x s -> _ IH]; intros [|y u]; simpl; try reflexivity. rewrite IH. ring. Qed.
Lemma dot_zero_r s u : (∀ j, nth j u 0 = 0) → dot s u = 0.
Proof.
  revert u. induction s as [|x s IH]; intros [|y u] H; simpl; try reflexivity.
  rewrite IH by (intros j; apply (H (S j))). rewrite (H 0%nat : y = 0). ring.
Qed.
Lemma dot_single s u i :
  nth i u 0 = 1 → (∀ j, j ≠ i → nth j u 0 = 0) → dot s u = nth i s 0.
Proof.
  revert u i. induction s as [|x s IH]; intros [|y u] i H1 H0; simpl.
  - destruct i; reflexivity.
  - destruct i; reflexivity.
  - destruct i; simpl in H1; discriminate.
  - destruct i as [|i]; simpl in *.
    + subst y. rewrite dot_zero_r by (intros j; apply (H0 (S j)); lia). ring.
    + rewrite (H0 0%nat) by lia. rewrite (IH u i H1) by (intros j Hj; apply (H0 (S j)); lia). ring.
Qed.

(** * lincomb *)
Lemma lincomb_length' n T s : rect n T → length (lincomb n s T) = n.
Proof. apply lincomb_length. Qed.
Lemma lincomb_nil_l n T : lincomb n [] T = zeros n.
Proof. reflexivity. Qed.
Lemma lincomb_nil_r n s : lincomb n s [] = zeros n.
Proof. destruct s; reflexivity. Qed.
Lemma vnth_lincomb n j s T : rect n T → vnth j (lincomb n s T) = dot s (map (vnth j) T).
Proof.
  intros HT. revert s. induction HT as [|a T Ha HT IH]; intros [|c s]; simpl; try apply vnth_zeros.
  rewrite vnth_vadd by (rewrite vscale_length, lincomb_length by assumption; exact Ha).
  rewrite vnth_vscale, IH. reflexivity.
Qed.
Lemma lincomb_vadd cols A t1 t2 :
  rect cols A → length t1 = length t2 →
  lincomb cols (vadd t1 t2) A = vadd (lincomb cols t1 A) (lincomb cols t2 A).
Proof.
  intros HA. revert t1 t2. induction HA as [|a A' Ha HA' IH]; intros [|c t1] [|d t2]; simpl; try discriminate;
    try (intros _; symmetry; apply vadd_zeros_l'; apply zeros_length).
  intros [= Hl]. rewrite IH by assumption. rewrite vadd_interchange. f_equal.
  clear. induction a as [|x a IHa]; simpl; [reflexivity|]. rewrite IHa. f_equal. ring.
Qed.
Lemma lincomb_zeros cols A n : rect cols A → lincomb cols (zeros n) A = zeros cols.
Proof.
  intros HA. revert n. induction HA as [|a A' Ha HA' IH]; intros [|n]; simpl; try reflexivity.
  rewrite IH. rewrite (vscale_0' cols) by exact Ha. apply vadd_zeros_l'. apply zeros_length.
Qed.
Lemma lincomb_allz n s T : rect n T → allz s → lincomb n s T = zeros n.
Proof. intros HT Hs. rewrite (allz_zeros s Hs). apply lincomb_zeros. exact HT. Qed.
(** φ(Σ s_i T_i) = Σ s_i φ(T_i) for φ t := lincomb cols t A *)
Lemma lincomb_assoc cols A s T :
  rect cols A → rect (length A) T →
  lincomb cols (lincomb (length A) s T) A = lincomb cols s (map (λ t, lincomb cols t A) T).
Proof.
  intros HA HT. revert s. induction HT as [|t T Ht HT IH]; intros [|c s]; simpl;
    try (apply lincomb_zeros; exact HA).
  rewrite lincomb_vadd by (try assumption; rewrite vscale_length, lincomb_length by assumption; exact Ht).
  rewrite lincomb_vscale, IH. reflexivity.
Qed.

(** * Independence and spanning of a list of vectors of Q^n *)
Definition indep (n : nat) (T : list vec) : Prop :=
  ∀ s, length s = length T → lincomb n s T = zeros n → allz s.
Definition spans (n : nat) (T : list vec) : Prop :=
  ∀ v, length v = n → ∃ s, length s = length T ∧ v = lincomb n s T.
Definition basis (n : nat) (T : list vec) : Prop := indep n T ∧ spans n T.

(** a combination of a permuted list is a combination of the list, with permuted coefficients *)
Lemma lincomb_perm n T T' : T ≡ₚ T' → ∀ s, length s = length T →
  ∃ s', length s' = length T' ∧ lincomb n s T = lincomb n s' T' ∧ (allz s' → allz s).
Proof.
  induction 1 as [|x T T' HP IH|x y T|T T' T'' HP1 IH1 HP2 IH2]; intros s Hs.
  - exists []. destruct s; [|discriminate]. auto.
  - destruct s as [|c s]; [discriminate|]. injection Hs as Hs. destruct (IH s Hs) as (s' & L & E & Z).
    exists (c :: s'). simpl. rewrite L, E. repeat split; try reflexivity.
    intros H. inversion H as [|? ? H0 H']; subst. constructor; [reflexivity | exact (Z H')].
  - destruct s as [|c [|d s]]; try discriminate. injection Hs as Hs.
    exists (d :: c :: s). simpl. rewrite Hs. repeat split; [apply vadd_swap|].
    intros H. inversion H as [|? ? ? H']; subst. inversion H'; subst. repeat constructor; auto.
  - destruct (IH1 s Hs) as (s1 & L1 & E1 & Z1). destruct (IH2 s1 L1) as (s2 & L2 & E2 & Z2).
    exists s2. repeat split; [exact L2 | congruence | auto].
Qed.
Lemma indep_perm n T T' : T ≡ₚ T' → indep n T → indep n T'.
Proof.
  intros HP HI s Hs Hz. symmetry in HP. destruct (lincomb_perm n T' T HP s Hs) as (s' & L & E & Z).
  apply Z. apply HI; [exact L | congruence].
Qed.
Lemma spans_perm n T T' : T ≡ₚ T' → spans n T → spans n T'.
Proof.
  intros HP HS v Hv. destruct (HS v Hv) as (s & L & E).
  destruct (lincomb_perm n T T' HP s L) as (s' & L' & E' & _). exists s'. split; [exact L' | congruence].
Qed.
Lemma basis_perm n T T' : T ≡ₚ T' → basis n T → basis n T'.
Proof. intros HP [H1 H2]. split; [eapply indep_perm | eapply spans_perm]; eauto. Qed.

(** a sub-list of an independent list is independent *)
Lemma lincomb_sublist n T1 T2 : T1 `sublist_of` T2 → rect n T2 → ∀ c, length c = length T1 →
  ∃ s, length s = length T2 ∧ lincomb n s T2 = lincomb n c T1 ∧ (allz s → allz c).
Proof.
  induction 1 as [|x T1 T2 HS IH|x T1 T2 HS IH]; intros HR c Hc.
  - exists []. destruct c; [|discriminate]. auto.
  - destruct c as [|y c]; [discriminate|]. injection Hc as Hc. apply Forall_cons in HR as [Hx HR].
    destruct (IH HR c Hc) as (s & L & E & Z). exists (y :: s). simpl. rewrite L, E. repeat split; try reflexivity.
    intros H. inversion H as [|? ? H0 H']; subst. constructor; [reflexivity | exact (Z H')].
  - apply Forall_cons in HR as [Hx HR]. destruct (IH HR c Hc) as (s & L & E & Z).
    exists (0 :: s). simpl. rewrite L. repeat split; try reflexivity.
    + rewrite (vscale_0' n) by exact Hx. rewrite vadd_zeros_l' by (apply lincomb_length; exact HR). exact E.
    + intros H. inversion H as [|? ? H0 H']; subst. exact (Z H').
Qed.
Lemma indep_sublist n T1 T2 : T1 `sublist_of` T2 → rect n T2 → indep n T2 → indep n T1.
Proof.
  intros HS HR HI c Hc Hz. destruct (lincomb_sublist n T1 T2 HS HR c Hc) as (s & L & E & Z).
  apply Z. apply HI; [exact L | congruence].
Qed.

(** rescaling every vector by its own non-zero factor *)
Lemma lincomb_rescale n (k : vec → Qc) T : (∀ v, v ∈ T → k v ≠ 0) → ∀ c,
  (∃ c', length c' = length c ∧ lincomb n c (map (λ v, vscale (k v) v) T) = lincomb n c' T ∧ (allz c' → allz c))
  ∧ (∃ c', length c' = length c ∧ lincomb n c T = lincomb n c' (map (λ v, vscale (k v) v) T)).
Proof.
  induction T as [|t T IH]; intros Hk c.
  - split; exists c; rewrite ?lincomb_nil_r; auto.
  - destruct c as [|x c].
    + split; exists []; auto.
    + assert (Hkt : k t ≠ 0) by (apply Hk; left).
      destruct (IH (λ v Hv, Hk v (elem_of_list_further _ _ _ Hv)) c) as [(c1 & L1 & E1 & Z1) (c2 & L2 & E2)]. split.
      * exists (x * k t :: c1). simpl. rewrite L1, E1, vscale_vscale. repeat split; try reflexivity.
        intros H. inversion H as [|? ? H0 H']; subst. constructor; [|exact (Z1 H')].
        apply Qcmult_integral in H0 as [H0|H0]; [exact H0 | contradiction].
      * exists (x / k t :: c2). simpl. rewrite L2, E2, vscale_vscale. split; [reflexivity|].
        f_equal. f_equal. field. exact Hkt.
Qed.

(** * One Gauss–Jordan step on the second components *)
(** rows of the shape (d, v): the new vector is v − d·t' *)
Definition gj (t' : vec) (dv : Qc * vec) : vec := vsub dv.2 (vscale dv.1 t').
Lemma lincomb_gj n t' rest s :
  length t' = n → rect n rest.*2 →
  lincomb n s (map (gj t') rest) = vsub (lincomb n s rest.*2) (vscale (dot s rest.*1) t').
Proof.
  intros Ht HR. revert s. induction rest as [|[d v] rest IH]; intros s.
  - rewrite !lincomb_nil_r. destruct s; simpl; rewrite (vscale_0' n) by exact Ht; symmetry; apply vsub_zeros.
  - rewrite !fmap_cons in *. apply Forall_cons in HR as [Hv HR]. cbn [fst snd] in *.
    destruct s as [|x s]; cbn [lincomb dot map].
    + rewrite (vscale_0' n) by exact Ht. symmetry; apply vsub_zeros.
    + rewrite IH by exact HR. unfold gj. cbn [fst snd].
      apply (vec_ext' n); [vlen | vlen |]. intros j.
      vnth_norm n. ring.
Qed.
Lemma gj_head_eq n c t rest y s :
  length t = n → rect n rest.*2 →
  lincomb n (y :: s) (vscale c t :: map (gj (vscale c t)) rest)
  = lincomb n ((y - dot s rest.*1) * c :: s) (t :: rest.*2).
Proof.
  intros Ht HR. cbn [lincomb]. rewrite (lincomb_gj n) by (vlen).
  pose proof (lincomb_length n rest.*2 s HR) as LL.
  apply (vec_ext' n); [vlen | vlen |]. intros j. vnth_norm n. ring.
Qed.
Lemma gj_step_basis n c t rest :
  c ≠ 0 → length t = n → rect n rest.*2 →
  basis n (t :: rest.*2) → basis n (vscale c t :: map (gj (vscale c t)) rest).
Proof.
  intros Hc Ht HR [HI HS]. split.
  - intros [|y s] Hs Hz; [discriminate|]. cbn [length] in Hs. rewrite map_length in Hs. injection Hs as Hs.
    rewrite (gj_head_eq n) in Hz by assumption.
    apply HI in Hz; [|cbn [length]; rewrite fmap_length; congruence].
    inversion Hz as [|? ? H0 H']; subst. constructor; [|exact H'].
    rewrite (dot_allz_l s _ H') in H0. apply Qcmult_integral in H0 as [H0|H0]; [|contradiction].
    rewrite <- H0. ring.
  - intros v Hv. destruct (HS v Hv) as ([|x s] & L & E); [discriminate|].
    cbn [length] in L. rewrite fmap_length in L. injection L as L.
    exists (x / c + dot s rest.*1 :: s). split; [cbn [length]; rewrite map_length; congruence|].
    rewrite (gj_head_eq n) by assumption. rewrite E. f_equal. f_equal. field. exact Hc.
Qed.

(** * The row operations of the model, as list surgery *)
Lemma insert_head_perm {A} (l : list A) j x y : l !! j = Some y → y :: <[j:=x]> l ≡ₚ x :: l.
Proof.
  revert j. induction l as [|z l IH]; intros [|j] H; simpl in *; try discriminate.
  - injection H as ->. apply perm_swap.
  - rewrite perm_swap. rewrite (IH j H). apply perm_swap.
Qed.
Lemma insert_swap_perm {A} (l : list A) i j x y :
  l !! i = Some x → l !! j = Some y → <[j:=x]> (<[i:=y]> l) ≡ₚ l.
Proof.
  revert i j. induction l as [|z l IH]; intros [|i] [|j] Hi Hj; simpl in *; try discriminate.
  - injection Hi as ->. injection Hj as ->. reflexivity.
  - injection Hi as ->. apply insert_head_perm. exact Hj.
  - injection Hj as ->. apply insert_head_perm. exact Hi.
  - f_equiv. apply IH; assumption.
Qed.
Lemma swap_rows_perm rows s r : swap_rows rows s r ≡ₚ rows.
Proof.
  unfold swap_rows. destruct (rows !! s) as [a|] eqn:Es; [|reflexivity].
  destruct (rows !! r) as [b|] eqn:Er; [|reflexivity]. apply insert_swap_perm; assumption.
Qed.

Definition elim_f (lead : nat) (pr' : prow) (row : prow) : prow := row_sub row (vnth lead row.1) pr'.
Lemma imap_elim lead (pr' : prow) pre (pr : prow) post :
  imap (λ i row, if Nat.eqb i (length pre) then pr' else row_sub row (vnth lead row.1) pr') (pre ++ pr :: post)
  = (elim_f lead pr' <$> pre) ++ pr' :: (elim_f lead pr' <$> post).
Proof.
  rewrite imap_app, imap_cons. f_equal; [|f_equal].
  - rewrite <- imap_const. apply imap_ext. intros i x Hi. apply lookup_lt_Some in Hi.
    replace (Nat.eqb i (length pre)) with false by (symmetry; apply Nat.eqb_neq; lia). reflexivity.
  - rewrite Nat.add_0_r, Nat.eqb_refl. reflexivity.
  - rewrite <- imap_const. apply imap_ext. intros i x Hi. simpl.
    replace (Nat.eqb (length pre + S i) (length pre)) with false by (symmetry; apply Nat.eqb_neq; lia). reflexivity.
Qed.
Lemma eliminate_split rows r lead pr :
  rows !! r = Some pr →
  let pr' := row_scale (/ vnth lead pr.1) pr in
  eliminate rows r lead = (elim_f lead pr' <$> take r rows) ++ pr' :: (elim_f lead pr' <$> drop (S r) rows).
Proof.
  intros H pr'. unfold eliminate. rewrite H. fold pr'.
  pose proof (take_drop_middle rows r pr H) as E.
  pose proof (imap_elim lead pr' (take r rows) pr (drop (S r) rows)) as I.
  rewrite E in I. rewrite take_length_le in I by (apply Nat.lt_le_incl, (lookup_lt_Some _ _ _ H)). exact I.
Qed.

Definition tlen (n : nat) (rows : list prow) : Prop := Forall (λ row : prow, length row.2 = n) rows.
Lemma tlen_rect n rows : tlen n rows → rect n rows.*2.
Proof. intros H. unfold rect. apply Forall_fmap. exact H. Qed.

Lemma eliminate_basis n rows r lead pr :
  rows !! r = Some pr → vnth lead pr.1 ≠ 0 → tlen n rows →
  basis n rows.*2 → basis n (eliminate rows r lead).*2.
Proof.
  intros Hr Hnz HL HB. rewrite (eliminate_split rows r lead pr Hr). cbn zeta.
  set (c := / vnth lead pr.1). set (pr' := row_scale c pr).
  set (rest := take r rows ++ drop (S r) rows).
  assert (HP : rows ≡ₚ pr :: rest).
  { rewrite <- (take_drop_middle rows r pr Hr) at 1. unfold rest. symmetry. apply Permutation_middle. }
  assert (HL' : tlen n (pr :: rest)) by (unfold tlen; rewrite <- HP; exact HL).
  apply Forall_cons in HL' as [Hpr Hrest]. cbn beta in Hpr.
  apply (basis_perm n (pr'.2 :: (elim_f lead pr' <$> rest).*2)).
  { unfold rest. rewrite ?fmap_app, ?fmap_cons, ?fmap_app. apply Permutation_middle. }
  set (rest' := (λ row : prow, (vnth lead row.1, row.2)) <$> rest).
  assert (E2 : rest'.*2 = rest.*2).
  { unfold rest'. rewrite <- list_fmap_compose. apply list_fmap_ext. intros; reflexivity. }
  assert (E1 : (elim_f lead pr' <$> rest).*2 = map (gj (vscale c pr.2)) rest').
  { unfold rest'. change (map (gj (vscale c pr.2))) with (fmap (M:=list) (gj (vscale c pr.2))).
    rewrite <- !list_fmap_compose. apply list_fmap_ext. intros; reflexivity. }
  rewrite E1. change (pr'.2) with (vscale c pr.2).
  apply gj_step_basis.
  - unfold c. apply Qcinv_nonzero. exact Hnz.
  - exact Hpr.
  - rewrite E2. apply tlen_rect. exact Hrest.
  - rewrite E2. apply (basis_perm n rows.*2); [|exact HB]. rewrite HP. reflexivity.
Qed.

(** * What the pivot search returns *)
Lemma find_row_some rs lead i s :
  find_row rs lead i = Some s →
  ∃ j row, s = (i + j)%nat ∧ rs !! j = Some row ∧ vnth lead row.1 ≠ 0.
Proof.
  revert i. induction rs as [|[e t] rs IH]; intros i H; simpl in H; [discriminate|].
  destruct (qz (vnth lead e)) eqn:E; simpl in H.
  - destruct (IH _ H) as (j & row & -> & L & N). exists (S j), row. split; [lia|]. split; assumption.
  - injection H as <-. exists 0%nat, (e, t). split; [lia|]. split; [reflexivity|]. apply qz_false. exact E.
Qed.
Lemma find_row_none rs lead i :
  find_row rs lead i = None → ∀ j row, rs !! j = Some row → vnth lead row.1 = 0.
Proof.
  revert i. induction rs as [|[e t] rs IH]; intros i H j row L; [discriminate|]. simpl in H.
  destruct (qz (vnth lead e)) eqn:E; simpl in H; [|discriminate].
  destruct j as [|j]; simpl in L.
  - injection L as <-. apply qz_spec. exact E.
  - eapply IH; eassumption.
Qed.
(** rows r.. vanish in the columns [lo, hi) *)
Definition below_zero (rows : list prow) (r lo hi : nat) : Prop :=
  ∀ i row j, (r ≤ i)%nat → rows !! i = Some row → (lo ≤ j < hi)%nat → vnth j row.1 = 0.
Lemma find_pivot_some fuel rows r lead cols s lead' :
  find_pivot fuel rows r lead cols = Some (s, lead') →
  (lead ≤ lead' < cols)%nat ∧ (r ≤ s)%nat ∧ below_zero rows r lead lead'
  ∧ ∃ row, rows !! s = Some row ∧ vnth lead' row.1 ≠ 0.
Proof.
  revert lead. induction fuel as [|f IH]; intros lead H; simpl in H; [discriminate|].
  destruct (Nat.leb cols lead) eqn:EL; [discriminate|]. apply Nat.leb_gt in EL.
  destruct (find_row (drop r rows) lead r) as [s0|] eqn:ER.
  - injection H as -> ->. destruct (find_row_some _ _ _ _ ER) as (j & row & -> & L & N).
    rewrite lookup_drop in L. split; [lia|]. split; [lia|]. split; [intros i ? j' _ _ ?; lia|]. eauto.
  - destruct (IH _ H) as (H1 & H2 & H3 & H4). split; [lia|]. split; [exact H2|]. split; [|exact H4].
    intros i row j Hi L Hj. destruct (decide (j = lead)) as [->|Hne].
    + apply (find_row_none _ _ _ ER (i - r)%nat). rewrite lookup_drop. replace (r + (i - r))%nat with i by lia. exact L.
    + apply (H3 i row j Hi L). lia.
Qed.
Lemma find_pivot_none fuel rows r lead cols :
  find_pivot fuel rows r lead cols = None → (cols ≤ lead + fuel)%nat → below_zero rows r lead cols.
Proof.
  revert lead. induction fuel as [|f IH]; intros lead H Hf.
  - intros i row j _ _ ?. lia.
  - simpl in H. destruct (Nat.leb cols lead) eqn:EL.
    + apply Nat.leb_le in EL. intros i row j _ _ ?. lia.
    + destruct (find_row (drop r rows) lead r) as [s0|] eqn:ER; [discriminate|].
      intros i row j Hi L Hj. destruct (decide (j = lead)) as [->|Hne].
      * apply (find_row_none _ _ _ ER (i - r)%nat). rewrite lookup_drop. replace (r + (i - r))%nat with i by lia. exact L.
      * apply (IH (S lead) H ltac:(lia) i row j Hi L). lia.
Qed.

(** * Echelon structure *)
(** row k has a private column: 1 there, every other row 0 there *)
Definition private (rows : list prow) (k : nat) (row : prow) : Prop :=
  ∃ p, vnth p row.1 = 1 ∧ ∀ i row', rows !! i = Some row' → i ≠ k → vnth p row'.1 = 0.
Definition ech_inv (rows : list prow) (r lead : nat) : Prop :=
  (∀ k row, (k < r)%nat → rows !! k = Some row → private rows k row) ∧ below_zero rows r 0 lead.
Definition ech_final (rows : list prow) : Prop :=
  ∀ k row, rows !! k = Some row → is_zero_vec row.1 = false → private rows k row.
Definition elen (cols : nat) (rows : list prow) : Prop := Forall (λ row : prow, length row.1 = cols) rows.

Lemma ech_inv_extend rows r lead lead' :
  (lead ≤ lead')%nat → ech_inv rows r lead → below_zero rows r lead lead' → ech_inv rows r lead'.
Proof.
  intros Hl [Ha Hb] Hc. split; [exact Ha|]. intros i row j Hi L Hj.
  destruct (decide (j < lead)%nat); [apply (Hb i row j Hi L); lia | apply (Hc i row j Hi L); lia].
Qed.

Lemma swap_rows_lookup rows s r a b i row :
  rows !! s = Some a → rows !! r = Some b → (r ≤ s)%nat →
  swap_rows rows s r !! i = Some row →
  ∃ i', rows !! i' = Some row ∧ ((i < r)%nat → i' = i) ∧ ((r ≤ i)%nat → (r ≤ i')%nat) ∧ (i = r → i' = s).
Proof.
  intros Hs Hr Hle. unfold swap_rows. rewrite Hs, Hr.
  pose proof (lookup_lt_Some _ _ _ Hs) as Ls. pose proof (lookup_lt_Some _ _ _ Hr) as Lr.
  destruct (decide (i = r)) as [->|Hir].
  - rewrite list_lookup_insert by (rewrite insert_length; exact Lr). intros [= <-].
    exists s. repeat split; [exact Hs | lia | lia].
  - rewrite list_lookup_insert_ne by congruence. destruct (decide (i = s)) as [->|His].
    + rewrite list_lookup_insert by exact Ls. intros [= <-]. exists r. repeat split; [exact Hr | lia | lia | lia].
    + rewrite list_lookup_insert_ne by congruence. intros H. exists i. repeat split; [exact H | lia | lia].
Qed.
Lemma swap_rows_length rows s r : length (swap_rows rows s r) = length rows.
Proof. unfold swap_rows. destruct (rows !! s), (rows !! r); rewrite ?insert_length; reflexivity. Qed.

Lemma ech_inv_swap rows s r lead a b :
  rows !! s = Some a → rows !! r = Some b → (r ≤ s)%nat →
  ech_inv rows r lead → ech_inv (swap_rows rows s r) r lead.
Proof.
  intros Hs Hr Hle [Ha Hb]. split.
  - intros k row Hk L. destruct (swap_rows_lookup _ _ _ _ _ _ _ Hs Hr Hle L) as (k' & L' & E & _). rewrite (E Hk) in L'.
    destruct (Ha k row Hk L') as (p & P1 & P0). exists p. split; [exact P1|].
    intros i row' Li Hik. destruct (swap_rows_lookup _ _ _ _ _ _ _ Hs Hr Hle Li) as (i' & Li' & E1 & E2 & _).
    apply (P0 i' row' Li'). destruct (decide (i < r)%nat) as [Hlt|Hge]; [rewrite (E1 Hlt); exact Hik | specialize (E2 ltac:(lia)); lia].
  - intros i row j Hi L Hj. destruct (swap_rows_lookup _ _ _ _ _ _ _ Hs Hr Hle L) as (i' & L' & _ & E2 & _).
    apply (Hb i' row j (E2 Hi) L' Hj).
Qed.

Lemma vnth_row_sub cols j (row q : prow) d :
  length row.1 = cols → length q.1 = cols → vnth j (row_sub row d q).1 = vnth j row.1 - d * vnth j q.1.
Proof. intros H1 H2. unfold row_sub. cbn [fst]. vnth_norm cols. reflexivity. Qed.
Lemma eliminate_lookup rows r lead pr i row2 :
  rows !! r = Some pr → eliminate rows r lead !! i = Some row2 →
  (i = r ∧ row2 = row_scale (/ vnth lead pr.1) pr)
  ∨ (i ≠ r ∧ ∃ row, rows !! i = Some row ∧ row2 = row_sub row (vnth lead row.1) (row_scale (/ vnth lead pr.1) pr)).
Proof.
  intros Hr. unfold eliminate. rewrite Hr. rewrite list_lookup_imap.
  destruct (rows !! i) as [row|] eqn:Ei; simpl; [|discriminate]. intros [= <-].
  destruct (Nat.eqb i r) eqn:E.
  - apply Nat.eqb_eq in E. left. auto.
  - apply Nat.eqb_neq in E. right. split; [exact E|]. exists row. auto.
Qed.
Lemma eliminate_length rows r lead : length (eliminate rows r lead) = length rows.
Proof. unfold eliminate. destruct (rows !! r); [apply imap_length | reflexivity]. Qed.

Lemma ech_inv_eliminate cols rows r lead pr :
  elen cols rows → rows !! r = Some pr → vnth lead pr.1 ≠ 0 →
  ech_inv rows r lead → ech_inv (eliminate rows r lead) (S r) (S lead).
Proof.
  intros HE Hr Hnz [Ha Hb].
  set (c := / vnth lead pr.1). set (pr' := row_scale c pr).
  assert (Elen : ∀ i row, rows !! i = Some row → length row.1 = cols).
  { intros i row L. unfold elen in HE. rewrite Forall_lookup in HE. exact (HE i row L). }
  assert (Lpr' : length pr'.1 = cols) by (unfold pr', row_scale; cbn [fst]; apply vscale_len; eauto).
  assert (F1 : vnth lead pr'.1 = 1).
  { unfold pr', row_scale, c. cbn [fst]. rewrite vnth_vscale. apply Qcmult_inv_l. exact Hnz. }
  assert (F2 : ∀ j, (j < lead)%nat → vnth j pr'.1 = 0).
  { intros j Hj. unfold pr', row_scale. cbn [fst]. rewrite vnth_vscale.
    rewrite (Hb r pr j (le_n _) Hr) by lia. ring. }
  assert (F3 : ∀ p, vnth p pr.1 = 0 → vnth p pr'.1 = 0).
  { intros p Hp. unfold pr', row_scale. cbn [fst]. rewrite vnth_vscale, Hp. ring. }
  split.
  - intros k row2 Hk L. destruct (eliminate_lookup _ _ _ _ _ _ Hr L) as [[-> ->]|[Hne (row & Lk & ->)]]; fold c; fold pr'.
    + exists lead. split; [exact F1|]. intros i row2' Li Hi.
      destruct (eliminate_lookup _ _ _ _ _ _ Hr Li) as [[-> ->]|[_ (row & Lrow & ->)]]; [congruence|]. fold c; fold pr'.
      rewrite (vnth_row_sub cols) by eauto. rewrite F1. ring.
    + destruct (Ha k row ltac:(lia) Lk) as (p & P1 & P0).
      assert (Fp : vnth p pr'.1 = 0) by (apply F3; apply (P0 r pr Hr); congruence).
      exists p. split.
      * rewrite (vnth_row_sub cols) by eauto. rewrite P1, Fp. ring.
      * intros i row2' Li Hi.
        destruct (eliminate_lookup _ _ _ _ _ _ Hr Li) as [[-> ->]|[_ (row' & Lrow & ->)]]; fold c; fold pr'; [exact Fp|].
        rewrite (vnth_row_sub cols) by eauto. rewrite (P0 i row' Lrow Hi), Fp. ring.
  - intros i row2 j Hi L Hj.
    destruct (eliminate_lookup _ _ _ _ _ _ Hr L) as [[-> ->]|[_ (row & Lrow & ->)]]; [lia|]. fold c; fold pr'.
    rewrite (vnth_row_sub cols) by eauto. destruct (decide (j = lead)) as [->|Hne].
    + rewrite F1. ring.
    + rewrite (Hb i row j ltac:(lia) Lrow) by lia. rewrite F2 by lia. ring.
Qed.

Lemma ech_inv_final cols rows r lead :
  elen cols rows → ech_inv rows r lead → ((length rows ≤ r)%nat ∨ below_zero rows r lead cols) → ech_final rows.
Proof.
  intros HE [Ha Hb] Hend k row L Hz. destruct (decide (k < r)%nat) as [Hk|Hk]; [exact (Ha k row Hk L)|].
  exfalso. destruct Hend as [Hend|Hend]; [apply lookup_lt_Some in L; unfold prow in *; lia|].
  assert (is_zero_vec row.1 = true); [|congruence].
  apply is_zero_vec_intro. intros j Hj.
  unfold elen in HE. rewrite Forall_lookup in HE. rewrite (HE k row L) in Hj.
  destruct (decide (j < lead)%nat); [apply (Hb k row j ltac:(lia) L); lia | apply (Hend k row j ltac:(lia) L); lia].
Qed.

(** * The loop *)
Lemma rows_inv_elen cols n A rows : rows_inv cols n A rows → elen cols rows.
Proof. intros H0. eapply Forall_impl; [exact H0|]. intros row (H & _). exact H. Qed.
Lemma rows_inv_tlen cols n A rows : rows_inv cols n A rows → tlen n rows.
Proof. intros H0. eapply Forall_impl; [exact H0|]. intros row (_ & H & _). exact H. Qed.
Lemma swap_rows_at_r rows s r a b :
  rows !! s = Some a → rows !! r = Some b → swap_rows rows s r !! r = Some a.
Proof.
  intros Hs Hr. unfold swap_rows. rewrite Hs, Hr. apply list_lookup_insert.
  rewrite insert_length. exact (lookup_lt_Some _ _ _ Hr).
Qed.

Lemma ech_loop_correct cols n A fuel : ∀ rows r lead,
  rect cols A → rows_inv cols n A rows → basis n rows.*2 → ech_inv rows r lead →
  (length rows ≤ r + fuel)%nat →
  let rows' := ech_loop fuel rows r lead cols in
  rows_inv cols n A rows' ∧ basis n rows'.*2 ∧ ech_final rows'.
Proof.
  induction fuel as [|f IH]; intros rows r lead HA H1 H2 H3 Hf; cbn [ech_loop]; cbn zeta.
  - split; [assumption | split; [assumption|]].
    apply (ech_inv_final cols rows r lead); [eapply rows_inv_elen; eassumption | exact H3 | left; lia].
  - destruct (Nat.leb (length rows) r) eqn:EL.
    { apply Nat.leb_le in EL. split; [assumption | split; [assumption|]].
      apply (ech_inv_final cols rows r lead); [eapply rows_inv_elen; eassumption | exact H3 | left; exact EL]. }
    apply Nat.leb_gt in EL.
    destruct (find_pivot (S cols) rows r lead cols) as [[s lead']|] eqn:EP.
    2:{ split; [assumption | split; [assumption|]].
        apply (ech_inv_final cols rows r lead); [eapply rows_inv_elen; eassumption | exact H3 | right].
        apply (find_pivot_none _ _ _ _ _ EP). lia. }
    destruct (find_pivot_some _ _ _ _ _ _ _ EP) as (Hl & Hrs & Hbz & a & Hs & Hnz).
    destruct (lookup_lt_is_Some_2 rows r EL) as [b Hr].
    set (rows1 := swap_rows rows s r).
    assert (R1 : rows_inv cols n A rows1) by (apply rows_inv_swap; exact H1).
    assert (B1 : basis n rows1.*2).
    { apply (basis_perm n rows.*2); [|exact H2]. apply fmap_Permutation. symmetry. apply swap_rows_perm. }
    assert (E1 : ech_inv rows1 r lead').
    { apply (ech_inv_swap rows s r lead' a b Hs Hr Hrs). apply (ech_inv_extend rows r lead lead'); [lia | exact H3 | exact Hbz]. }
    assert (L1 : rows1 !! r = Some a) by (apply (swap_rows_at_r rows s r a b Hs Hr)).
    apply IH.
    + exact HA.
    + apply rows_inv_eliminate; assumption.
    + apply (eliminate_basis n rows1 r lead' a L1 Hnz); [eapply rows_inv_tlen; eassumption | exact B1].
    + apply (ech_inv_eliminate cols rows1 r lead' a); [eapply rows_inv_elen; eassumption | exact L1 | exact Hnz | exact E1].
    + rewrite eliminate_length. unfold rows1. rewrite swap_rows_length. lia.
Qed.

(** * The initial state: the identity matrix is a basis *)
Lemma vnth_unit_vec' n i k j :
  vnth j (unit_vec' n i k) = if (Nat.ltb j n && Nat.eqb i (k + j))%bool then 1 else 0.
Proof.
  unfold vnth. revert k j. induction n as [|n IH]; intros k [|j]; simpl; try reflexivity.
  - rewrite Nat.add_0_r. reflexivity.
  - rewrite IH. replace (S k + j)%nat with (k + S j)%nat by lia. reflexivity.
Qed.
Definition ident {X} (n : nat) (A : list X) : list vec := imap (λ i _, unit_vec' n i 0) A.
Lemma ident_rect {X} n (A : list X) : rect n (ident n A).
Proof.
  unfold rect, ident. apply Forall_lookup. intros i v. rewrite list_lookup_imap.
  destruct (A !! i); simpl; [|discriminate]. intros [= <-]. apply unit_vec'_length.
Qed.
Lemma ident_length {X} n (A : list X) : length (ident n A) = length A.
Proof. apply imap_length. Qed.
Lemma lincomb_ident {X} (A : list X) s :
  length s = length A → lincomb (length A) s (ident (length A) A) = s.
Proof.
  intros Hs. set (n := length A) in *.
  apply (vec_ext' n); [apply lincomb_length, ident_rect | exact Hs |]. intros j.
  rewrite vnth_lincomb by apply ident_rect.
  destruct (decide (j < n)%nat) as [Hj|Hj].
  - apply dot_single.
    + rewrite nth_lookup, list_lookup_fmap. unfold ident. rewrite list_lookup_imap.
      destruct (lookup_lt_is_Some_2 A j Hj) as [x ->]. simpl. rewrite vnth_unit_vec'.
      replace (Nat.ltb j n) with true by (symmetry; apply Nat.ltb_lt; exact Hj). rewrite Nat.eqb_refl. reflexivity.
    + intros i Hi. rewrite nth_lookup, list_lookup_fmap. unfold ident. rewrite list_lookup_imap.
      destruct (A !! i); simpl; [|reflexivity]. rewrite vnth_unit_vec'.
      replace (Nat.eqb i (0 + j)) with false by (symmetry; apply Nat.eqb_neq; simpl; exact Hi).
      rewrite andb_false_r. reflexivity.
  - rewrite (vnth_beyond j s) by lia. apply dot_zero_r. intros i.
    rewrite nth_lookup, list_lookup_fmap. unfold ident. rewrite list_lookup_imap.
    destruct (A !! i); simpl; [|reflexivity]. rewrite vnth_unit_vec'.
    replace (Nat.ltb j n) with false by (symmetry; apply Nat.ltb_ge; lia). reflexivity.
Qed.
Lemma ident_basis {X} (A : list X) : basis (length A) (ident (length A) A).
Proof.
  split.
  - intros s Hs Hz. rewrite ident_length in Hs. rewrite lincomb_ident in Hz by exact Hs. rewrite Hz. apply zeros_allz.
  - intros v Hv. exists v. rewrite ident_length. split; [exact Hv|]. symmetry. apply lincomb_ident. exact Hv.
Qed.
Lemma ech_init_snd A : (ech_init A).*2 = ident (length A) A.
Proof.
  unfold ech_init, ident. apply list_eq. intros i. rewrite list_lookup_fmap, !list_lookup_imap.
  destruct (A !! i); reflexivity.
Qed.
Lemma ech_inv_init rows : ech_inv rows 0 0.
Proof. split; [intros k row Hk; lia | intros i row j _ _ Hj; lia]. Qed.

Theorem column_echelon_correct cols A :
  rect cols A →
  let rows := column_echelon A cols in
  rows_inv cols (length A) A rows ∧ basis (length A) rows.*2 ∧ ech_final rows.
Proof.
  intros HA. unfold column_echelon. apply ech_loop_correct.
  - exact HA.
  - apply rows_inv_init. exact HA.
  - rewrite ech_init_snd. apply ident_basis.
  - apply ech_inv_init.
  - unfold ech_init. rewrite imap_length. lia.
Qed.

(** * The returned vectors form a basis of the dimensionless exponent vectors *)
Notation zrow := (λ p : prow, is_zero_vec p.1).
Lemma filter_sublist {X} (P : X → Prop) `{∀ x, Decision (P x)} (l : list X) : filter P l `sublist_of` l.
Proof.
  induction l as [|x l IH]; [constructor|]. rewrite filter_cons.
  destruct (decide (P x)); [apply sublist_skip | apply sublist_cons]; exact IH.
Qed.
Lemma pi_raw_sublist A cols : pi_raw A cols `sublist_of` (column_echelon A cols).*2.
Proof. unfold pi_raw. apply (fmap_sublist snd). apply filter_sublist. Qed.

Theorem pi_raw_independent cols A c :
  rect cols A → length c = length (pi_raw A cols) →
  lincomb (length A) c (pi_raw A cols) = zeros (length A) → c = zeros (length c).
Proof.
  intros HA Hc Hz. destruct (column_echelon_correct cols A HA) as (R & [HI _] & _).
  apply allz_zeros.
  apply (indep_sublist (length A) _ _ (pi_raw_sublist A cols) (tlen_rect _ _ (rows_inv_tlen _ _ _ _ R)) HI c Hc Hz).
Qed.

Lemma rows_inv_fst cols n A rows :
  rows_inv cols n A rows → (λ t, lincomb cols t A) <$> rows.*2 = rows.*1.
Proof.
  induction 1 as [|row rows (_ & _ & E) _ IH]; [reflexivity|]. rewrite !fmap_cons, IH, <- E. reflexivity.
Qed.
Lemma elen_rect cols rows : elen cols rows → rect cols rows.*1.
Proof. intros H. unfold rect. apply Forall_fmap. exact H. Qed.
(** a coefficient list that is zero on the rows whose e-component is non-zero only uses the others *)
Lemma lincomb_filter n rows s :
  tlen n rows → Forall2 (λ x (row : prow), is_zero_vec row.1 = false → x = 0) s rows →
  ∃ c, length c = length (filter zrow rows) ∧ lincomb n s rows.*2 = lincomb n c (filter zrow rows).*2.
Proof.
  intros HL HF. induction HF as [|x row s rows Hx HF IH].
  - exists []. split; reflexivity.
  - apply Forall_cons in HL as [Hrow HL]. destruct (IH HL) as (c & Lc & Ec). rewrite filter_cons.
    destruct (decide (zrow row)) as [Hz|Hz].
    + exists (x :: c). split; [simpl; congruence|]. rewrite !fmap_cons. cbn [lincomb]. rewrite Ec. reflexivity.
    + exists c. split; [exact Lc|]. rewrite fmap_cons. cbn [lincomb].
      rewrite Hx by (cbn beta in Hz; destruct (is_zero_vec row.1); [exfalso; apply Hz; exact I | reflexivity]).
      rewrite (vscale_0' n) by exact Hrow.
      rewrite vadd_zeros_l' by (apply lincomb_length, tlen_rect; exact HL). exact Ec.
Qed.

Theorem pi_raw_spans cols A v :
  rect cols A → length v = length A → lincomb cols v A = zeros cols →
  ∃ c, length c = length (pi_raw A cols) ∧ v = lincomb (length A) c (pi_raw A cols).
Proof.
  intros HA Hv Hz. destruct (column_echelon_correct cols A HA) as (R & [_ HS] & HF).
  set (rows := column_echelon A cols) in *. set (n := length A) in *.
  pose proof (rows_inv_tlen _ _ _ _ R) as HT. pose proof (rows_inv_elen _ _ _ _ R) as HE.
  destruct (HS v Hv) as (s & Ls & Es). rewrite fmap_length in Ls.
  assert (Z : lincomb cols s rows.*1 = zeros cols).
  { rewrite <- (rows_inv_fst cols n A rows R).
    change (list_fmap vec vec (λ t, lincomb cols t A)) with (map (λ t, lincomb cols t A)).
    unfold n. rewrite <- lincomb_assoc by (try exact HA; apply tlen_rect; exact HT). fold n. rewrite <- Es. exact Hz. }
  assert (F2 : Forall2 (λ x (row : prow), is_zero_vec row.1 = false → x = 0) s rows).
  { apply Forall2_same_length_lookup_2; [exact Ls|]. intros k x row Lx Lrow Hnz.
    destruct (HF k row Lrow Hnz) as (p & P1 & P0).
    assert (E : vnth p (lincomb cols s rows.*1) = nth k s 0).
    { unfold prow in *. rewrite vnth_lincomb by (apply elen_rect; exact HE). apply dot_single.
      - rewrite nth_lookup. change (map (vnth p) rows.*1) with (vnth p <$> rows.*1).
        rewrite !list_lookup_fmap, Lrow. exact P1.
      - intros j Hj. rewrite nth_lookup. change (map (vnth p) rows.*1) with (vnth p <$> rows.*1).
        rewrite !list_lookup_fmap. destruct (rows !! j) as [row'|] eqn:Lj; [|reflexivity].
        simpl. apply (P0 j row' Lj Hj). }
    rewrite Z, vnth_zeros, nth_lookup, Lx in E. simpl in E. congruence. }
  destruct (lincomb_filter n rows s HT F2) as (c & Lc & Ec).
  exists c. unfold pi_raw. fold rows. split.
  - rewrite map_length. exact Lc.
  - rewrite Es. exact Ec.
Qed.

(** pint's cosmetic rescaling multiplies each vector by a non-zero factor *)
Definition pi_factor (v : vec) : Qc :=
  (if Nat.ltb (count qpos v) (count qneg v) then (-1)%Qc else 1%Qc) * Q2Qc (Zpos (max_den v) # 1).
Lemma pi_scale_factor v : pi_scale v = vscale (pi_factor v) v.
Proof. reflexivity. Qed.
Lemma pi_factor_nonzero v : pi_factor v ≠ 0.
Proof.
  unfold pi_factor. intros H. apply Qcmult_integral in H as [H|H].
  - destruct (Nat.ltb (count qpos v) (count qneg v)); discriminate H.
  - change 0 with (Q2Qc 0) in H. apply Q2Qc_eq_iff in H. unfold Qeq in H. simpl in H. lia.
Qed.
Lemma pi_theorem_rescale A cols : pi_theorem A cols = map (λ v, vscale (pi_factor v) v) (pi_raw A cols).
Proof. reflexivity. Qed.

Theorem pi_theorem_independent cols A c :
  rect cols A → length c = length (pi_theorem A cols) →
  lincomb (length A) c (pi_theorem A cols) = zeros (length A) → c = zeros (length c).
Proof.
  intros HA Hc Hz. rewrite pi_theorem_rescale in *. rewrite map_length in Hc.
  destruct (lincomb_rescale (length A) pi_factor (pi_raw A cols) (λ v _, pi_factor_nonzero v) c) as [(c' & L & E & Z) _].
  apply allz_zeros. apply Z. rewrite (pi_raw_independent cols A c' HA); [rewrite L; apply zeros_allz | congruence | congruence].
Qed.
Theorem pi_theorem_spans cols A v :
  rect cols A → length v = length A → lincomb cols v A = zeros cols →
  ∃ c, length c = length (pi_theorem A cols) ∧ v = lincomb (length A) c (pi_theorem A cols).
Proof.
  intros HA Hv Hz. destruct (pi_raw_spans cols A v HA Hv Hz) as (c & L & E).
  destruct (lincomb_rescale (length A) pi_factor (pi_raw A cols) (λ v _, pi_factor_nonzero v) c) as [_ (c' & L' & E')].
  exists c'. rewrite pi_theorem_rescale, map_length. split; congruence.
Qed.

(** boolean check used by the concrete examples *)
Lemma zero_vec_check v n : is_zero_vec v = true → length v = n → v = zeros n.
Proof. intros H <-. apply is_zero_vec_spec. exact H. Qed.
