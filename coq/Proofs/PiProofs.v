From PintV Require Import Model.UC Model.Pi Proofs.UCProofs.

Lemma vscale_length c v : length (vscale c v) = length v.
Proof. apply map_length. Qed.
Lemma vsub_length v w : length v = length w → length (vsub v w) = length v.
Proof. revert w. induction v as [|x v IH]; intros [|y w]; simpl; try discriminate; auto. Qed.
Lemma vadd_length v w : length v = length w → length (vadd v w) = length v.
Proof. revert w. induction v as [|x v IH]; intros [|y w]; simpl; try discriminate; auto. Qed.
Lemma vscale_vscale c d v : vscale c (vscale d v) = vscale (c * d) v.
Proof. unfold vscale. rewrite map_map. apply map_ext. intros. ring. Qed.
Lemma vscale_vadd c v w : vscale c (vadd v w) = vadd (vscale c v) (vscale c w).
Proof. revert w. induction v as [|x v IH]; intros [|y w]; simpl; try reflexivity. rewrite IH. f_equal. ring. Qed.
Lemma vscale_zeros c n : vscale c (repeat 0%Qc n) = repeat 0%Qc n.
Proof. induction n; simpl; [reflexivity|]. rewrite IHn. f_equal. ring. Qed.
Lemma vsub_zeros n : vsub (repeat 0%Qc n) (repeat 0%Qc n) = repeat 0%Qc n.
Proof. induction n; simpl; [reflexivity|]. rewrite IHn. f_equal. Qed.
Lemma vadd_zeros_r v : vadd v (repeat 0%Qc (length v)) = v.
Proof. induction v as [|x v IH]; simpl; [reflexivity|]. rewrite IH. f_equal. ring. Qed.
Lemma vadd_vsub a b c d :
  length a = length b → length b = length c → length c = length d →
  vsub (vadd a b) (vadd c d) = vadd (vsub a c) (vsub b d).
Proof.
  revert b c d. induction a as [|x a IH]; intros [|y b] [|z c] [|w d]; simpl; try discriminate; try reflexivity.
  intros [= H1] [= H2] [= H3]. rewrite IH by assumption. f_equal. ring.
Qed.
Lemma vscale_vsub_l c d a : vsub (vscale c a) (vscale d a) = vscale (c - d) a.
Proof. induction a as [|x a IH]; simpl; [reflexivity|]. rewrite IH. f_equal. ring. Qed.

Definition rect (cols : nat) (A : list vec) : Prop := Forall (λ a, length a = cols) A.
Lemma lincomb_length cols A t : rect cols A → length (lincomb cols t A) = cols.
Proof.
  intros HA. revert t. induction HA as [|a A' Ha HA' IH]; intros [|c t]; simpl; try apply repeat_length.
  rewrite vadd_length; rewrite vscale_length; [exact Ha | rewrite IH; exact Ha].
Qed.
Lemma lincomb_vscale cols A c t : lincomb cols (vscale c t) A = vscale c (lincomb cols t A).
Proof.
  revert t. induction A as [|a A' IH]; intros [|d t]; simpl; try (symmetry; apply vscale_zeros).
  rewrite IH, vscale_vadd, vscale_vscale. reflexivity.
Qed.
Lemma lincomb_vsub cols A t1 t2 :
  rect cols A → length t1 = length t2 →
  lincomb cols (vsub t1 t2) A = vsub (lincomb cols t1 A) (lincomb cols t2 A).
Proof.
  intros HA. revert t1 t2. induction HA as [|a A' Ha HA' IH]; intros [|c t1] [|d t2]; simpl; try discriminate;
    try (intros _; symmetry; apply vsub_zeros).
  intros [= Hl]. rewrite IH by assumption.
  rewrite vadd_vsub; rewrite ?vscale_length, ?(lincomb_length cols A') by assumption; try congruence.
  rewrite vscale_vsub_l. reflexivity.
Qed.

(** * The loop invariant: every row pair (e, t) satisfies e = Σ_k t_k · A_k *)
Definition row_inv (cols n : nat) (A : list vec) (p : prow) : Prop :=
  length p.1 = cols ∧ length p.2 = n ∧ p.1 = lincomb cols p.2 A.
Definition rows_inv cols n A (rows : list prow) : Prop := Forall (row_inv cols n A) rows.

Lemma row_inv_scale cols n A c p : row_inv cols n A p → row_inv cols n A (row_scale c p).
Proof.
  intros (H1 & H2 & H3). unfold row_inv, row_scale. simpl. rewrite !vscale_length.
  repeat split; try assumption. rewrite lincomb_vscale. congruence.
Qed.
Lemma row_inv_sub cols n A c p q : rect cols A → row_inv cols n A p → row_inv cols n A q → row_inv cols n A (row_sub p c q).
Proof.
  intros HA (P1 & P2 & P3) (Q1 & Q2 & Q3). unfold row_inv, row_sub. simpl.
  rewrite !vsub_length by (rewrite vscale_length; congruence). repeat split; try assumption.
  rewrite lincomb_vsub by (try assumption; rewrite vscale_length; congruence).
  rewrite lincomb_vscale. congruence.
Qed.
Lemma rows_inv_swap cols n A rows s r : rows_inv cols n A rows → rows_inv cols n A (swap_rows rows s r).
Proof.
  intros H. unfold swap_rows. destruct (rows !! s) as [a|] eqn:Es; [|exact H].
  destruct (rows !! r) as [b|] eqn:Er; [|exact H].
  unfold rows_inv in *. rewrite Forall_lookup in H.
  apply Forall_insert; [apply Forall_insert; [apply Forall_lookup; exact H | eauto] | eauto].
Qed.
Lemma rows_inv_eliminate cols n A rows r lead :
  rect cols A → rows_inv cols n A rows → rows_inv cols n A (eliminate rows r lead).
Proof.
  intros HA H. unfold eliminate. destruct (rows !! r) as [pr|] eqn:Er; [|exact H].
  unfold rows_inv in *. rewrite Forall_lookup in H.
  assert (Hp : row_inv cols n A (row_scale (/ vnth lead pr.1) pr)) by (apply row_inv_scale; eauto).
  apply Forall_lookup. intros i p. rewrite list_lookup_imap.
  destruct (rows !! i) as [row|] eqn:Ei; simpl; [|discriminate]. intros [= <-].
  destruct (Nat.eqb i r); [exact Hp | apply row_inv_sub; eauto].
Qed.
Lemma rows_inv_loop cols n A fuel : ∀ rows r lead,
  rect cols A → rows_inv cols n A rows → rows_inv cols n A (ech_loop fuel rows r lead cols).
Proof.
  induction fuel as [|f IH]; intros rows r lead HA H; cbn [ech_loop]; [exact H|].
  destruct (Nat.leb (length rows) r); [exact H|].
  destruct (find_pivot (S cols) rows r lead cols) as [[s lead']|]; [|exact H].
  apply IH; [exact HA|]. apply rows_inv_eliminate; [exact HA|]. apply rows_inv_swap. exact H.
Qed.

(** the initial pairing: row i is (A_i, e_i) *)
Lemma unit_vec'_length n i k : length (unit_vec' n i k) = n.
Proof. revert k. induction n; intros k; simpl; auto. Qed.
Lemma vscale_0 a : vscale 0 a = repeat 0%Qc (length a).
Proof. induction a; simpl; [reflexivity|]. rewrite IHa. f_equal. ring. Qed.
Lemma vscale_1 a : vscale 1 a = a.
Proof. induction a; simpl; [reflexivity|]. rewrite IHa. f_equal. ring. Qed.
Lemma vadd_zeros_l v : vadd (repeat 0%Qc (length v)) v = v.
Proof. induction v as [|x v IH]; simpl; [reflexivity|]. rewrite IH. f_equal. ring. Qed.
Definition pick (cols : nat) (A : list vec) (i k : nat) : vec :=
  match (if Nat.leb k i then A !! (i - k)%nat else None) with Some a => a | None => repeat 0%Qc cols end.
Lemma pick_length cols A i k : rect cols A → length (pick cols A i k) = cols.
Proof.
  intros HA. unfold pick. destruct (Nat.leb k i); [|apply repeat_length].
  destruct (A !! (i - k)%nat) eqn:E; [|apply repeat_length].
  unfold rect in HA. rewrite Forall_lookup in HA. eauto.
Qed.
Lemma lincomb_unit cols A : rect cols A → ∀ i k, lincomb cols (unit_vec' (length A) i k) A = pick cols A i k.
Proof.
  intros HA. induction HA as [|a A' Ha HA' IH]; intros i k.
  - simpl. unfold pick. destruct (Nat.leb k i); reflexivity.
  - simpl. rewrite IH. pose proof (pick_length cols A' i (S k) HA') as PL.
    destruct (Nat.eqb i k) eqn:E.
    + apply Nat.eqb_eq in E. subst k. rewrite vscale_1.
      unfold pick at 1. replace (Nat.leb (S i) i) with false by (symmetry; apply Nat.leb_gt; lia).
      rewrite <- Ha. rewrite vadd_zeros_r. unfold pick. rewrite Nat.leb_refl, Nat.sub_diag. reflexivity.
    + apply Nat.eqb_neq in E. rewrite vscale_0, Ha. rewrite <- PL at 1. rewrite vadd_zeros_l.
      unfold pick. destruct (Nat.leb (S k) i) eqn:L.
      * apply Nat.leb_le in L. replace (Nat.leb k i) with true by (symmetry; apply Nat.leb_le; lia).
        replace (i - k)%nat with (S (i - S k)) by lia. reflexivity.
      * apply Nat.leb_gt in L. replace (Nat.leb k i) with false by (symmetry; apply Nat.leb_gt; lia). reflexivity.
Qed.
Lemma rows_inv_init cols A : rect cols A → rows_inv cols (length A) A (ech_init A).
Proof.
  intros HA. unfold rows_inv, ech_init. apply Forall_lookup. intros i p. rewrite list_lookup_imap.
  destruct (A !! i) as [a|] eqn:E; simpl; [|discriminate]. intros [= <-].
  unfold row_inv. simpl. unfold rect in HA. pose proof HA as HA2. rewrite Forall_lookup in HA2.
  split; [eauto|]. split; [apply unit_vec'_length|].
  rewrite lincomb_unit by assumption. unfold pick. simpl. rewrite Nat.sub_0_r, E. reflexivity.
Qed.

(** * Every monomial returned is dimensionless *)
Lemma is_zero_vec_spec v : is_zero_vec v = true → v = repeat 0%Qc (length v).
Proof.
  unfold is_zero_vec. induction v as [|x v IH]; simpl; [reflexivity|].
  intros H. apply andb_true_iff in H as [H1 H2]. apply qz_spec in H1. subst. rewrite <- IH by assumption. reflexivity.
Qed.
Theorem pi_raw_dimensionless cols A v :
  rect cols A → v ∈ pi_raw A cols → length v = length A ∧ lincomb cols v A = repeat 0%Qc cols.
Proof.
  intros HA Hin. unfold pi_raw in Hin. apply elem_of_list_fmap in Hin as ([e t] & -> & Hin).
  apply elem_of_list_filter in Hin as [Hz Hin]. simpl in Hz.
  pose proof (rows_inv_loop cols (length A) A (length A) (ech_init A) 0 0 HA (rows_inv_init cols A HA)) as H.
  unfold rows_inv in H. rewrite Forall_forall in H. destruct (H _ Hin) as (H1 & H2 & H3). simpl in *.
  split; [exact H2|]. rewrite <- H3. rewrite (is_zero_vec_spec e) by (destruct (is_zero_vec e); [reflexivity | contradiction]).
  rewrite H1. reflexivity.
Qed.
Theorem pi_theorem_dimensionless cols A v :
  rect cols A → v ∈ pi_theorem A cols → length v = length A ∧ lincomb cols v A = repeat 0%Qc cols.
Proof.
  intros HA Hin. unfold pi_theorem in Hin. apply elem_of_list_fmap in Hin as (w & -> & Hin).
  destruct (pi_raw_dimensionless cols A w HA Hin) as [L Z]. unfold pi_scale.
  rewrite vscale_length, lincomb_vscale, Z, vscale_zeros. auto.
Qed.
