From PintV Require Import Model.UC Model.Eval Model.Registry Proofs.UCProofs Proofs.RegistryProofs Proofs.RootProofs Proofs.FactorProofs.
Open Scope string_scope.
Arguments dim_rec : simpl never.
Arguments root_rec : simpl never.
Arguments reg_fuel : simpl never.

(** * More fuel never changes a defined row *)
Lemma sem_list2_ext row row' l :
  (∀ k x, row k = Some x → row' k = Some x) → ∀ D, sem_list2 row l = Some D → sem_list2 row' l = Some D.
Proof.
  intros H. induction l as [|[k v] l IH]; simpl; intros D; [auto|].
  destruct (row k) as [[x1 x2]|] eqn:E; simpl; [|discriminate].
  rewrite (H _ _ E). simpl. destruct (sem_list2 row l) as [[y1 y2]|]; simpl; [|discriminate].
  rewrite (IH _ eq_refl). simpl. auto.
Qed.
Lemma root_row_step f r k :
  root_row (S f) r k =
  match resolve r k with
  | Err _ => None
  | Ok d =>
      if u_base d then Some (∅, {[ u_name d := 1%Qc ]})
      else match sem_list2 (root_row f r) (map_to_list (u_ref d)) with
           | Some (F, B) => Some (uc_mul (gen_of d) F, B)
           | None => None
           end
  end.
Proof.
  unfold root_row at 1. unfold lin2_val, root_step. cbn [ra_F ra_B ra_exact].
  destruct (resolve r k) as [d|er]; simpl; [|reflexivity].
  destruct (u_base d) eqn:Eb.
  - simpl. unfold uc_add, exp_of. rewrite lookup_empty. simpl.
    replace (0 + 1 * 1)%Qc with 1%Qc by ring. reflexivity.
  - pose proof (root_rec_sem f r (map_to_list (u_ref d))) as H.
    destruct (sem_list2 (root_row f r) (map_to_list (u_ref d))) as [[F B]|]; unfold lin2_spec in H.
    + destruct H as (WF & WB & H).
      match goal with |- context [root_rec _ _ _ ?e ?a] => destruct (H e a) as [ex Hex] end.
      { split; simpl; [|apply wf_empty]. destruct (_ && _); [apply wf_empty | apply wf_add, wf_empty]. }
      rewrite Hex. simpl. replace (1 * 1)%Qc with 1%Qc by ring.
      rewrite !uc_pow_one by assumption. rewrite uc_mul_empty_l by assumption. unfold gen_of.
      destruct (bool_decide (u_scale d = 1%Qc) && negb (u_float d)); simpl.
      * reflexivity.
      * unfold uc_add, exp_of. rewrite lookup_empty. simpl. replace (0 + 1)%Qc with 1%Qc by ring. reflexivity.
    + match goal with |- context [root_rec _ _ _ ?e ?a] => destruct (H e a) as [er ->] end. reflexivity.
Qed.
Lemma root_row_0 r k x : root_row 0 r k = Some x → root_row 1 r k = Some x.
Proof.
  unfold root_row, lin2_val, root_step. destruct (resolve r k) as [d|]; simpl; [|discriminate].
  destruct (u_base d); [auto|]. rewrite root_rec_0. discriminate.
Qed.
Lemma root_row_mono f : ∀ r k x, root_row f r k = Some x → root_row (S f) r k = Some x.
Proof.
  induction f as [|f IH]; intros r k x; [apply root_row_0|].
  rewrite !root_row_step. destruct (resolve r k) as [d|]; [|discriminate].
  destruct (u_base d); [auto|].
  destruct (sem_list2 (root_row f r) (map_to_list (u_ref d))) as [[F B]|] eqn:E; [|discriminate].
  rewrite (sem_list2_ext _ (root_row (S f) r) _ (IH r) _ E). auto.
Qed.

(** * A prefix is applied exactly once *)
Theorem prefix_once r p u pd ud sym F B :
  r_units r !! (p ++ u) = None →
  parse_unit_name r (p ++ u) = (p, u) :: nil ∨ (∃ l, parse_unit_name r (p ++ u) = (p, u) :: l) →
  String.eqb p "" = false →
  r_prefixes r !! p = Some pd → r_units r !! u = Some ud → u_multiplicative ud = true →
  get_symbol r (p ++ u) = Ok sym →
  rrow r (p ++ u) = Some (F, B) →
  ∃ Fu, rrow r u = Some (Fu, B)
        ∧ F = uc_mul (if bool_decide (p_val pd = 1%Qc) then ∅ else {[ p ++ u := 1%Qc ]}) Fu.
Proof.
  intros Hn Hp Hpe Hpd Hud Hm Hs.
  assert (Hres : resolve r (p ++ u) = Ok (UDef (p ++ u) (Some sym) [] (p_val pd) false CScale {[ u := 1%Qc ]} false)).
  { unfold resolve. rewrite Hn. destruct Hp as [Hp|[l Hp]]; rewrite Hp, Hpe, Hn; unfold prefixed_def;
      rewrite Hpd, Hud, Hm; simpl; rewrite Hs; reflexivity. }
  unfold rrow. rewrite (root_row_step 62 r (p ++ u)), Hres. simpl u_base. cbv iota.
  simpl u_ref. rewrite map_to_list_singleton. simpl sem_list2.
  destruct (root_row 62 r u) as [[Fu Bu]|] eqn:E; simpl; [|discriminate].
  intros [= <- <-]. exists (uc_pow Fu 1). rewrite (root_row_mono 62 r u _ E).
  pose proof (root_step_lin 62 r u) as HL. rewrite E in HL. destruct HL as (W1 & W2 & _).
  rewrite !uc_pow_one by assumption. rewrite !uc_mul_empty_r. split; [reflexivity|].
  unfold gen_of. simpl. rewrite andb_true_r. reflexivity.
Qed.

Lemma pw_1 s : pw s 1 = s.
Proof. unfold pw. simpl. ring. Qed.
Lemma mprod_singleton sc g : mprod sc {[ g := 1%Qc ]} = sc g.
Proof.
  rewrite <- insert_empty. rewrite mprod_insert by apply lookup_empty. rewrite mprod_empty.
  unfold weight. change (inum 1) with 1%Z. rewrite pw_1. ring.
Qed.
Theorem prefix_factor r p u pd ud sym F B :
  reg_nz r →
  r_units r !! (p ++ u) = None →
  (∃ l, parse_unit_name r (p ++ u) = (p, u) :: l) →
  String.eqb p "" = false →
  r_prefixes r !! p = Some pd → r_units r !! u = Some ud → u_multiplicative ud = true →
  get_symbol r (p ++ u) = Ok sym →
  rrow r (p ++ u) = Some (F, B) →
  ∃ Fu, rrow r u = Some (Fu, B) ∧
        (integral Fu → mprod (gscale r) F = (p_val pd * mprod (gscale r) Fu)%Qc).
Proof.
  intros Hnz Hn Hp Hpe Hpd Hud Hm Hs Hrow.
  destruct (prefix_once r p u pd ud sym F B Hn (or_intror Hp) Hpe Hpd Hud Hm Hs Hrow) as (Fu & Hu & ->).
  exists Fu. split; [exact Hu|]. intros Hi.
  assert (WFu : wf Fu).
  { pose proof (root_step_lin 63 r u) as HL. fold (rrow r u) in HL. rewrite Hu in HL. destruct HL as (W & _). exact W. }
  destruct (bool_decide (p_val pd = 1%Qc)) eqn:E.
  - apply bool_decide_eq_true in E. rewrite E, uc_mul_empty_l by assumption. ring.
  - rewrite mprod_mul; [| apply gscale_nz; assumption | | assumption].
    + rewrite mprod_singleton. unfold gscale at 1.
      assert (Hres : resolve r (p ++ u) = Ok (UDef (p ++ u) (Some sym) [] (p_val pd) false CScale {[ u := 1%Qc ]} false)).
      { unfold resolve. rewrite Hn. destruct Hp as [l Hp]. rewrite Hp, Hpe, Hn. unfold prefixed_def.
        rewrite Hpd, Hud, Hm. simpl. rewrite Hs. reflexivity. }
      rewrite Hres. reflexivity.
    + intros k e He. apply lookup_singleton_Some in He as [_ <-]. reflexivity.
Qed.
