(** Proofs/QCompareProofs.v — C05: [q_eq] decides physical equality (outside two explicit
    regions), hashing respects it when root-unit containers agree, ordering is the order of
    root-unit magnitudes, the bare-number rule.  For EVERY registry satisfying the decidable
    side conditions bundled in [mult_unit] / [offs_unit] / [root_unit]. *)
From Coq Require Import Qcanon.
From PintV Require Import Model.UC Model.Eval Model.Registry Model.QCompare.
From PintV Require Import Proofs.UCProofs Proofs.RegistryProofs Proofs.RootProofs Proofs.FactorProofs.
Open Scope string_scope.
Arguments dim_rec : simpl never.
Arguments root_rec : simpl never.
Arguments reg_fuel : simpl never.
Arguments dim_of : simpl never.
Arguments root_of : simpl never.
Arguments conv_factor : simpl never.
Arguments resolve : simpl never.

Ltac qcnz := repeat split; first [assumption | discriminate | (let X := fresh in intros X; inversion X)].
Ltac qcfield := field; qcnz.

(** * Magnitudes *)
Lemma mag_eqb_Fin x y : mag_eqb (Fin x) (Fin y) = true ↔ x = y.
Proof. simpl. apply bool_decide_eq_true. Qed.
Lemma mag_eqb_NaN_l m : mag_eqb NaN m = false. Proof. reflexivity. Qed.
Lemma mag_eqb_NaN_r m : mag_eqb m NaN = false. Proof. destruct m; reflexivity. Qed.
Lemma mag_zero_Fin m : mag_zero m = true → m = Fin 0%Qc.
Proof. destruct m as [x|]; simpl; [|discriminate]. intros H. apply qz_spec in H. subst. reflexivity. Qed.
Lemma mag_map_ext f g m : (∀ x, f x = g x) → mag_map f m = mag_map g m.
Proof. intros H. destruct m; simpl; [rewrite H|]; reflexivity. Qed.
Lemma mag_map_id f m : (∀ x, f x = x) → mag_map f m = m.
Proof. intros H. destruct m; simpl; [rewrite H|]; reflexivity. Qed.

Lemma Qc_cmp_mul_pos (x y f : Qc) : (0 < f)%Qc → (x * f ?= y * f)%Qc = (x ?= y)%Qc.
Proof.
  intros Hf. destruct (x ?= y)%Qc eqn:E.
  - apply Qceq_alt in E. subst. apply Qceq_alt. reflexivity.
  - apply Qclt_alt in E. apply Qclt_alt. apply Qcmult_lt_compat_r; assumption.
  - apply Qcgt_alt in E. apply Qcgt_alt. apply Qcmult_lt_compat_r; assumption.
Qed.

(** * The unit classes the theorems speak about *)
Definition fac (r : reg) (F : uc) : Qc := mprod (gscale r) F.
Lemma fac_nz r F : reg_nz r → fac r F ≠ 0%Qc.
Proof. intros H. apply mprod_neq0. apply gscale_nz. exact H. Qed.

(** a multiplicative container with dimensionality [d] and exact factor [f] to root units *)
Record mult_unit (r : reg) (u d : uc) (f : Qc) : Prop := MultUnit {
  mu_wf : wf u;
  mu_val : validate_extract r u = Ok None;
  mu_dim : dim_of r u = Ok d;
  mu_exact : ∃ F B, exact_unit r u F B ∧ f = fac r F }.
(** a single offset unit [x ↦ s·x + o] onto the multiplicative reference *)
Record offs_unit (r : reg) (u d : uc) (s o f : Qc) : Prop := OffsUnit {
  ou_wf : wf u;
  ou_def : ∃ k df, validate_extract r u = Ok (Some k) ∧ resolve r k = Ok df ∧ u_conv df = COffset o
                   ∧ u_scale df = s ∧ mult_unit r (u_ref df) d f ∧ has_delta (u_ref df) = false;
  ou_dim : dim_of r u = Ok d;
  ou_s : s ≠ 0%Qc }.
(** an operand unit: value in root units is [(s·x + o)·f] *)
Definition opnd (r : reg) (u d : uc) (s o f : Qc) : Prop :=
  (s = 1%Qc ∧ o = 0%Qc ∧ mult_unit r u d f) ∨ offs_unit r u d s o f.

Lemma mult_unit_f_nz r u d f : reg_nz r → mult_unit r u d f → f ≠ 0%Qc.
Proof. intros Hnz [_ _ _ (F & B & _ & ->)]. apply fac_nz. exact Hnz. Qed.
Lemma opnd_nz r u d s o f : reg_nz r → opnd r u d s o f → s ≠ 0%Qc ∧ f ≠ 0%Qc.
Proof.
  intros Hnz [(-> & _ & H)|H].
  - split; [discriminate | eapply mult_unit_f_nz; eassumption].
  - destruct H as [_ (k & df & _ & _ & _ & _ & Hm & _) _ Hs]. split; [exact Hs | eapply mult_unit_f_nz; eassumption].
Qed.
Lemma opnd_dim r u d s o f : opnd r u d s o f → dim_of r u = Ok d.
Proof. intros [(_ & _ & [])|[]]; assumption. Qed.
Lemma opnd_wf r u d s o f : opnd r u d s o f → wf u.
Proof. intros [(_ & _ & [])|[]]; assumption. Qed.

Lemma mult_unit_empty r : mult_unit r ∅ ∅ 1.
Proof.
  split.
  - apply wf_empty.
  - unfold validate_extract, nonmult_list. rewrite map_to_list_empty. reflexivity.
  - apply dim_of_empty.
  - exists ∅, ∅. split; [|unfold fac; rewrite mprod_empty; reflexivity].
    split; [apply rsem_empty|]. split; [apply integral_empty|]. intros g e H. rewrite lookup_empty in H. discriminate.
Qed.

(** * [validate_extract], [q_is_mult], [unit_kind] *)
Lemma validate_None_nonmult r u : validate_extract r u = Ok None → nonmult_list r u = Ok [].
Proof.
  unfold validate_extract. destruct (nonmult_list r u) as [l|e]; simpl; [|discriminate].
  destruct l as [|[k e] [|? ?]]; try discriminate; [reflexivity|].
  destruct (negb _); [discriminate|]. destruct (Nat.ltb _ _); discriminate.
Qed.
Lemma validate_Some_nonmult r u k : validate_extract r u = Ok (Some k) → ∃ e, nonmult_list r u = Ok [(k, e)].
Proof.
  unfold validate_extract. destruct (nonmult_list r u) as [l|e]; simpl; [|discriminate].
  destruct l as [|[k' e] [|? ?]]; try discriminate.
  destruct (negb _); [discriminate|]. destruct (Nat.ltb _ _); [discriminate|]. intros [= <-]. eauto.
Qed.
Lemma validate_of_nonmult r u l : nonmult_list r u = Ok l → validate_extract r u = Err EDim ∨ ∃ o, validate_extract r u = Ok o.
Proof.
  intros H. unfold validate_extract. rewrite H. simpl.
  destruct l as [|[k e] [|? ?]]; eauto. destruct (negb _); eauto. destruct (Nat.ltb _ _); eauto.
Qed.
Lemma q_is_mult_mult r u d f m : mult_unit r u d f → q_is_mult r (Qty m u) = Ok true.
Proof. intros [_ H _ _]. unfold q_is_mult. simpl. rewrite (validate_None_nonmult _ _ H). reflexivity. Qed.
Lemma q_is_mult_offs r u d s o f m : offs_unit r u d s o f → q_is_mult r (Qty m u) = Ok false.
Proof.
  intros [_ (k & df & H & _) _ _]. unfold q_is_mult. simpl.
  destruct (validate_Some_nonmult _ _ _ H) as [e ->]. reflexivity.
Qed.
Lemma unit_kind_mult r u d f : mult_unit r u d f → unit_kind r u = KMult.
Proof. intros [_ H _ _]. unfold unit_kind. rewrite H. reflexivity. Qed.
Lemma unit_kind_offs r u d s o f : offs_unit r u d s o f → ∃ ref, unit_kind r u = KOffset s o ref.
Proof.
  intros [_ (k & df & H & Hr & Hc & Hs & _) _ _]. unfold unit_kind. rewrite H, Hr, Hc, Hs. eauto.
Qed.
Lemma is_offset_mult r u d f : mult_unit r u d f → is_offset_unit r u = false.
Proof. intros H. unfold is_offset_unit. rewrite (unit_kind_mult _ _ _ _ H). reflexivity. Qed.
Lemma is_offset_offs r u d s o f : offs_unit r u d s o f → is_offset_unit r u = true.
Proof. intros H. unfold is_offset_unit. destruct (unit_kind_offs _ _ _ _ _ _ H) as [ref ->]. reflexivity. Qed.

(** * Root factor and physical value *)
Lemma root_of_exact r u F B : reg_nz r → exact_unit r u F B → ∃ ex, root_of r u = Ok (Some (fac r F), B, ex).
Proof.
  intros Hnz (Hs & Hi & Hg). eapply root_of_from_sem; [exact Hs|]. apply eval_factor_exact; assumption.
Qed.
Lemma root_factor_mult r u d f : reg_nz r → mult_unit r u d f → root_factor r u = Some f.
Proof.
  intros Hnz [_ _ _ (F & B & He & ->)]. unfold root_factor.
  destruct (root_of_exact _ _ _ _ Hnz He) as [ex ->]. reflexivity.
Qed.
Lemma phys_opnd r u d s o f x : reg_nz r → opnd r u d s o f → phys r (Qty (Fin x) u) = Some (d, ((x * s + o) * f)%Qc).
Proof.
  intros Hnz H. unfold phys. simpl. rewrite (opnd_dim _ _ _ _ _ _ H). unfold to_common. simpl.
  destruct H as [(-> & -> & H)|H].
  - rewrite (unit_kind_mult _ _ _ _ H), (root_factor_mult _ _ _ _ Hnz H). simpl. do 2 f_equal. ring.
  - destruct H as [Hw (k & df & Hv & Hr & Hc & Hs & Hm & Hd) Hdim Hsn].
    unfold unit_kind. rewrite Hv, Hr, Hc, Hs, (root_factor_mult _ _ _ _ Hnz Hm). reflexivity.
Qed.
Lemma phys_NaN r u : phys r (Qty NaN u) = None.
Proof. unfold phys. simpl. destruct (dim_of r u); reflexivity. Qed.
(** the parameters of an operand are determined by the unit (as far as values go) *)
Lemma opnd_fun r u d s o f d' s' o' f' :
  reg_nz r → opnd r u d s o f → opnd r u d' s' o' f' → d = d' ∧ ∀ x, ((x * s + o) * f = (x * s' + o') * f')%Qc.
Proof.
  intros Hnz H1 H2. split.
  - pose proof (phys_opnd r u d s o f 0 Hnz H1) as P1. rewrite (phys_opnd r u d' s' o' f' 0 Hnz H2) in P1. congruence.
  - intros x. pose proof (phys_opnd r u d s o f x Hnz H1) as P1. rewrite (phys_opnd r u d' s' o' f' x Hnz H2) in P1. congruence.
Qed.

(** * Conversion *)
Lemma convert_plain_mult r m ua ub d fa fb :
  reg_nz r → mult_unit r ua d fa → mult_unit r ub d fb →
  convert_plain r m ua ub = Ok (mag_map (λ x, x * (fa / fb))%Qc m).
Proof.
  intros Hnz [Wa _ Da (Fa & Ba & Ea & ->)] [Wb _ Db (Fb & Bb & Eb & ->)].
  unfold convert_plain. destruct (conv_factor_value r ua ub _ _ _ _ d Hnz Wa Ea Eb Da Db) as [ex ->]. reflexivity.
Qed.
Lemma convert_plain_edim r m ua ub da db :
  dim_of r ua = Ok da → dim_of r ub = Ok db → da ≠ db → convert_plain r m ua ub = Err EDim.
Proof.
  intros Da Db Hne. unfold convert_plain. rewrite (proj2 (conv_factor_edim r ua ub da db Da Db) Hne). reflexivity.
Qed.

Lemma to_reference_offs df o m : u_conv df = COffset o → to_reference df m = Ok (mag_map (λ x, x * u_scale df + o)%Qc m).
Proof. intros H. unfold to_reference. rewrite H. reflexivity. Qed.
Lemma from_reference_offs df o m : u_conv df = COffset o → u_scale df ≠ 0%Qc →
  from_reference df m = Ok (mag_map (λ x, (x - o) / u_scale df)%Qc m).
Proof. intros H Hs. unfold from_reference. rewrite H. apply qz_false in Hs. rewrite Hs. reflexivity. Qed.
Lemma mag_map_map f g m : mag_map g (mag_map f m) = mag_map (λ x, g (f x)) m.
Proof. destruct m; reflexivity. Qed.

(** the affine conversion formula, for every pair of operand units of one dimensionality that is
    not an offset unit against a delta_ unit *)
Theorem convert_nm_opnd r m ua ub d sa oa fa sb ob fb :
  reg_nz r → opnd r ua d sa oa fa → opnd r ub d sb ob fb →
  (is_offset_unit r ua = true → has_delta ub = false) →
  (is_offset_unit r ub = true → has_delta ua = false) →
  convert_nm r m ua ub = Ok (mag_map (λ x, ((x * sa + oa) * fa / fb - ob) / sb)%Qc m).
Proof.
  intros Hnz Ha Hb Ga Gb.
  destruct (opnd_nz _ _ _ _ _ _ Hnz Ha) as [Hsa Hfa]. destruct (opnd_nz _ _ _ _ _ _ Hnz Hb) as [Hsb Hfb].
  unfold convert_nm.
  destruct Ha as [(-> & -> & Ma)|Oa], Hb as [(-> & -> & Mb)|Ob].
  - (* multiplicative → multiplicative *)
    rewrite (mu_val _ _ _ _ Ma), (mu_val _ _ _ _ Mb). simpl.
    rewrite (convert_plain_mult _ _ _ _ _ _ _ Hnz Ma Mb). f_equal. apply mag_map_ext. intros x. qcfield.
  - (* multiplicative → offset *)
    pose proof (is_offset_offs _ _ _ _ _ _ Ob) as Io. specialize (Gb Io).
    destruct Ob as [Wb (k & df & Hv & Hr & Hc & Hs & Hm & Hd) Db _].
    rewrite (mu_val _ _ _ _ Ma), Hv. simpl. rewrite (mu_dim _ _ _ _ Ma), Db. simpl.
    unfold uc_eqb. rewrite bool_decide_eq_true_2 by reflexivity. simpl.
    rewrite Gb. rewrite Hr. simpl.
    rewrite (convert_plain_mult _ _ _ _ _ _ _ Hnz Ma Hm). simpl.
    rewrite (from_reference_offs _ _ _ Hc) by (rewrite Hs; assumption). rewrite mag_map_map. f_equal.
    apply mag_map_ext. intros x. rewrite Hs. qcfield.
  - (* offset → multiplicative *)
    pose proof (is_offset_offs _ _ _ _ _ _ Oa) as Io. specialize (Ga Io).
    destruct Oa as [Wa (k & df & Hv & Hr & Hc & Hs & Hm & Hd) Da _].
    rewrite Hv, (mu_val _ _ _ _ Mb). simpl. rewrite Da, (mu_dim _ _ _ _ Mb). simpl.
    unfold uc_eqb. rewrite bool_decide_eq_true_2 by reflexivity. simpl.
    rewrite Ga, Hr. simpl. rewrite (to_reference_offs _ _ _ Hc). simpl.
    rewrite (convert_plain_mult _ _ _ _ _ _ _ Hnz Hm Mb). simpl. rewrite mag_map_map. f_equal.
    apply mag_map_ext. intros x. rewrite Hs. qcfield.
  - (* offset → offset *)
    pose proof (is_offset_offs _ _ _ _ _ _ Oa) as Ioa. specialize (Ga Ioa).
    pose proof (is_offset_offs _ _ _ _ _ _ Ob) as Iob. specialize (Gb Iob).
    destruct Oa as [Wa (ka & dfa & Hva & Hra & Hca & Hsa' & Hma & Hda) Da _].
    destruct Ob as [Wb (kb & dfb & Hvb & Hrb & Hcb & Hsb' & Hmb & Hdb) Db _].
    rewrite Hva, Hvb. simpl. rewrite Da, Db. simpl.
    unfold uc_eqb. rewrite bool_decide_eq_true_2 by reflexivity. simpl.
    rewrite Ga, Hra. simpl. rewrite (to_reference_offs _ _ _ Hca). simpl.
    rewrite Hda, Hrb. simpl.
    rewrite (convert_plain_mult _ _ _ _ _ _ _ Hnz Hma Hmb). simpl.
    rewrite (from_reference_offs _ _ _ Hcb) by (rewrite Hsb'; assumption). rewrite !mag_map_map. f_equal.
    apply mag_map_ext. intros x. rewrite Hsa', Hsb'. qcfield.
Qed.

Lemma convert_nm_edim r m ua ub da db sa oa fa sb ob fb :
  opnd r ua da sa oa fa → opnd r ub db sb ob fb → da ≠ db → convert_nm r m ua ub = Err EDim.
Proof.
  intros Ha Hb Hne. unfold convert_nm.
  pose proof (opnd_dim _ _ _ _ _ _ Ha) as Da. pose proof (opnd_dim _ _ _ _ _ _ Hb) as Db.
  assert (E : uc_eqb da db = false) by (unfold uc_eqb; apply bool_decide_eq_false_2; exact Hne).
  destruct Ha as [(_ & _ & Ma)|Oa], Hb as [(_ & _ & Mb)|Ob].
  - rewrite (mu_val _ _ _ _ Ma), (mu_val _ _ _ _ Mb). simpl. eapply convert_plain_edim; eassumption.
  - destruct Ob as [_ (k & df & Hv & _) _ _]. rewrite (mu_val _ _ _ _ Ma), Hv. simpl. rewrite Da, Db. simpl. rewrite E. reflexivity.
  - destruct Oa as [_ (k & df & Hv & _) _ _]. rewrite Hv, (mu_val _ _ _ _ Mb). simpl. rewrite Da, Db. simpl. rewrite E. reflexivity.
  - destruct Oa as [_ (k & df & Hv & _) _ _]. destruct Ob as [_ (k' & df' & Hv' & _) _ _].
    rewrite Hv, Hv'. simpl. rewrite Da, Db. simpl. rewrite E. reflexivity.
Qed.

Lemma clash_false r ua ub : delta_offset_clash r ua ub = false →
  (is_offset_unit r ua = true → has_delta ub = false) ∧ (is_offset_unit r ub = true → has_delta ua = false).
Proof.
  unfold delta_offset_clash. intros H. apply orb_false_iff in H as [H1 H2].
  apply andb_false_iff in H1. apply andb_false_iff in H2.
  split; intros E; rewrite E in *; [destruct H1 | destruct H2]; congruence.
Qed.

Theorem convert_opnd r m ua ub d sa oa fa sb ob fb :
  reg_nz r → opnd r ua d sa oa fa → opnd r ub d sb ob fb → delta_offset_clash r ua ub = false →
  convert r m ua ub = Ok (mag_map (λ x, ((x * sa + oa) * fa / fb - ob) / sb)%Qc m).
Proof.
  intros Hnz Ha Hb Hc. unfold convert.
  destruct (opnd_nz _ _ _ _ _ _ Hnz Hb) as [Hsb Hfb].
  destruct (uc_eqb ua ub) eqn:E.
  - apply uc_eqb_spec in E. subst ub. destruct (opnd_fun _ _ _ _ _ _ _ _ _ _ Hnz Ha Hb) as [_ Hx].
    f_equal. symmetry. apply mag_map_id. intros x. rewrite Hx. qcfield.
  - destruct (clash_false _ _ _ Hc) as [G1 G2]. apply (convert_nm_opnd r m ua ub d); assumption.
Qed.

(** * Physical equality on operand units *)
Lemma phys_eq_opnd r ma mb ua ub da db sa oa fa sb ob fb :
  reg_nz r → opnd r ua da sa oa fa → opnd r ub db sb ob fb →
  (phys_eq r (Qty ma ua) (Qty mb ub) ↔
   ∃ x y, ma = Fin x ∧ mb = Fin y ∧ da = db ∧ ((x * sa + oa) * fa = (y * sb + ob) * fb)%Qc).
Proof.
  intros Hnz Ha Hb. unfold phys_eq. split.
  - intros (p & P1 & P2). destruct ma as [x|]; [|rewrite phys_NaN in P1; discriminate].
    destruct mb as [y|]; [|rewrite phys_NaN in P2; discriminate].
    rewrite (phys_opnd _ _ _ _ _ _ x Hnz Ha) in P1. rewrite (phys_opnd _ _ _ _ _ _ y Hnz Hb) in P2.
    exists x, y. rewrite <- P1 in P2. apply Some_inj in P2. apply pair_equal_spec in P2 as [E1 E2]. repeat split; congruence.
  - intros (x & y & -> & -> & -> & E). eexists. split; [apply (phys_opnd _ _ _ _ _ _ x Hnz Ha)|].
    rewrite (phys_opnd _ _ _ _ _ _ y Hnz Hb). rewrite E. reflexivity.
Qed.

(** * [__eq__] *)
Definition eq_tail (r : reg) (ma mb : mag) (ua ub : uc) : res bool :=
  if uc_eqb ua ub then Ok (mag_eqb ma mb)
  else match convert r ma ua ub with
       | Ok v => Ok (mag_eqb v mb)
       | Err EDim => Ok false
       | Err e => Err e
       end.
Definition eq_shortcut (qk : quirks) (r : reg) (a b : qty) : res bool :=
  if mag_zero (q_m a) && mag_zero (q_m b) then
    if zero_shortcut_any_unit qk then Ok true
    else ma ←r q_is_mult r a; mb ←r q_is_mult r b; Ok (ma && mb)
  else Ok false.
Lemma q_eq_unfold qk r a b :
  q_eq qk r a (OQty b) =
  (sc ←r eq_shortcut qk r a b;
   if sc then da ←r dim_of r (q_u a); db ←r dim_of r (q_u b); Ok (uc_eqb da db)
   else eq_tail r (q_m a) (q_m b) (q_u a) (q_u b)).
Proof. reflexivity. Qed.

Lemma eq_tail_opnd r ma mb ua ub da db sa oa fa sb ob fb :
  reg_nz r → opnd r ua da sa oa fa → opnd r ub db sb ob fb → delta_offset_clash r ua ub = false →
  ∃ bb, eq_tail r ma mb ua ub = Ok bb ∧ (bb = true ↔ phys_eq r (Qty ma ua) (Qty mb ub)).
Proof.
  intros Hnz Ha Hb Hc. setoid_rewrite (phys_eq_opnd _ _ _ _ _ _ _ _ _ _ _ _ _ Hnz Ha Hb).
  destruct (opnd_nz _ _ _ _ _ _ Hnz Ha) as [Hsa Hfa]. destruct (opnd_nz _ _ _ _ _ _ Hnz Hb) as [Hsb Hfb].
  unfold eq_tail. destruct (uc_eqb ua ub) eqn:E.
  - apply uc_eqb_spec in E. subst ub. destruct (opnd_fun _ _ _ _ _ _ _ _ _ _ Hnz Ha Hb) as [Hd Hx].
    eexists. split; [reflexivity|]. destruct ma as [x|], mb as [y|]; cbn [mag_eqb mag_map];
      try (split; [discriminate | intros (? & ? & ? & ? & _); discriminate]).
    rewrite bool_decide_eq_true. split.
    + intros ->. exists y, y. auto.
    + intros (x' & y' & [= <-] & [= <-] & _ & Ev). rewrite <- Hx in Ev.
      assert (X : x = (((x * sa + oa) * fa / fa - oa) / sa)%Qc) by qcfield.
      rewrite X, Ev. qcfield.
  - destruct (decide (da = db)) as [->|Hne].
    + unfold convert. rewrite E. destruct (clash_false _ _ _ Hc) as [G1 G2].
      rewrite (convert_nm_opnd _ ma _ _ _ _ _ _ _ _ _ Hnz Ha Hb G1 G2).
      eexists. split; [reflexivity|]. destruct ma as [x|], mb as [y|]; cbn [mag_eqb mag_map];
        try (split; [discriminate | intros (? & ? & ? & ? & _); discriminate]).
      rewrite bool_decide_eq_true. split.
      * intros <-. exists x. eexists. split; [reflexivity|]. split; [reflexivity|]. split; [reflexivity|]. qcfield.
      * intros (x' & y' & [= <-] & [= <-] & _ & Ev). rewrite Ev. qcfield.
    + unfold convert. rewrite E. rewrite (convert_nm_edim _ ma _ _ _ _ _ _ _ _ _ _ Ha Hb Hne).
      exists false. split; [reflexivity|]. split; [discriminate|]. intros (? & ? & _ & _ & Hd & _). contradiction.
Qed.

Theorem q_eq_opnd qk r ma mb ua ub da db sa oa fa sb ob fb :
  reg_nz r → opnd r ua da sa oa fa → opnd r ub db sb ob fb →
  (zero_shortcut_any_unit qk = true → both_zero_offset r (Qty ma ua) (Qty mb ub) = false) →
  delta_offset_clash r ua ub = false →
  ∃ bb, q_eq qk r (Qty ma ua) (OQty (Qty mb ub)) = Ok bb ∧ (bb = true ↔ phys_eq r (Qty ma ua) (Qty mb ub)).
Proof.
  intros Hnz Ha Hb Hz Hc. rewrite q_eq_unfold. simpl q_m. simpl q_u.
  pose proof (eq_tail_opnd r ma mb ua ub _ _ _ _ _ _ _ _ Hnz Ha Hb Hc) as Tail.
  unfold eq_shortcut. simpl q_m. destruct (mag_zero ma && mag_zero mb) eqn:Z; [|exact Tail].
  apply andb_true_iff in Z as [Za Zb]. apply mag_zero_Fin in Za, Zb. subst ma mb.
  (* both magnitudes are zero *)
  assert (Both : ∀ fa' fb', mult_unit r ua da fa' → mult_unit r ub db fb' →
            ∃ bb, (da0 ←r dim_of r ua; db0 ←r dim_of r ub; Ok (uc_eqb da0 db0)) = Ok bb
                  ∧ (bb = true ↔ phys_eq r (Qty (Fin 0) ua) (Qty (Fin 0) ub))).
  { intros fa' fb' Ma Mb. rewrite (mu_dim _ _ _ _ Ma), (mu_dim _ _ _ _ Mb). simpl. eexists. split; [reflexivity|].
    rewrite (phys_eq_opnd r _ _ ua ub da db 1 0 fa' 1 0 fb' Hnz) by (left; auto).
    rewrite uc_eqb_spec. split.
    - intros ->. exists 0%Qc, 0%Qc. repeat split; ring.
    - intros (_ & _ & _ & _ & -> & _). reflexivity. }
  destruct (zero_shortcut_any_unit qk) eqn:Q.
  - specialize (Hz eq_refl). unfold both_zero_offset in Hz. simpl in Hz. apply orb_false_iff in Hz as [Ia Ib].
    destruct Ha as [(-> & -> & Ma)|Oa]; [|rewrite (is_offset_offs _ _ _ _ _ _ Oa) in Ia; discriminate].
    destruct Hb as [(-> & -> & Mb)|Ob]; [|rewrite (is_offset_offs _ _ _ _ _ _ Ob) in Ib; discriminate].
    simpl. eapply Both; eassumption.
  - destruct Ha as [(-> & -> & Ma)|Oa], Hb as [(-> & -> & Mb)|Ob].
    + rewrite (q_is_mult_mult _ _ _ _ _ Ma), (q_is_mult_mult _ _ _ _ _ Mb). simpl. eapply Both; eassumption.
    + rewrite (q_is_mult_mult _ _ _ _ _ Ma), (q_is_mult_offs _ _ _ _ _ _ _ Ob). simpl. exact Tail.
    + rewrite (q_is_mult_offs _ _ _ _ _ _ _ Oa), (q_is_mult_mult _ _ _ _ _ Mb). simpl. exact Tail.
    + rewrite (q_is_mult_offs _ _ _ _ _ _ _ Oa), (q_is_mult_offs _ _ _ _ _ _ _ Ob). simpl. exact Tail.
Qed.

(** * Root units *)
(** a root-unit container: multiplicative, its own root with factor 1, no delta_ name *)
Record root_unit (r : reg) (B d : uc) : Prop := RootUnit {
  ru_mult : mult_unit r B d 1;
  ru_fix : ∃ ex, root_of r B = Ok (Some 1%Qc, B, ex);
  ru_nodelta : has_delta B = false }.
(** an operand unit together with its root container *)
Record rooted (r : reg) (u d : uc) (s o f : Qc) (B : uc) : Prop := Rooted {
  rt_opnd : opnd r u d s o f;
  rt_root : ∃ ff ex, root_of r u = Ok (ff, B, ex);
  rt_B : root_unit r B d }.

Lemma root_unit_opnd r B d : root_unit r B d → opnd r B d 1 0 1.
Proof. intros [H _ _]. left. auto. Qed.
Lemma clash_root r u B d : root_unit r B d → delta_offset_clash r u B = false.
Proof.
  intros [Hm _ Hd]. unfold delta_offset_clash. rewrite Hd, (is_offset_mult _ _ _ _ Hm). simpl.
  rewrite andb_false_r. reflexivity.
Qed.

Theorem to_root_rooted r m u d s o f B :
  reg_nz r → rooted r u d s o f B →
  to_root r (Qty m u) = Ok (Qty (mag_map (λ x, (x * s + o) * f)%Qc m) B).
Proof.
  intros Hnz [Ho (ff & ex & Hr) HB]. unfold to_root. simpl. rewrite Hr. simpl.
  rewrite (convert_opnd r m u B d s o f 1 0 1 Hnz Ho (root_unit_opnd _ _ _ HB) (clash_root _ _ _ _ HB)). simpl.
  do 2 f_equal. apply mag_map_ext. intros x. qcfield.
Qed.
Theorem dimensionless_rooted r m u d s o f B :
  reg_nz r → rooted r u d s o f B → dimensionless r (Qty m u) = Ok (uc_eqb d ∅).
Proof.
  intros Hnz H. unfold dimensionless. rewrite (to_root_rooted _ m _ _ _ _ _ _ Hnz H). simpl.
  destruct H as [_ _ [[_ _ Hd _] _ _]]. rewrite Hd. reflexivity.
Qed.
Lemma rooted_root r B d : root_unit r B d → rooted r B d 1 0 1 B.
Proof. intros H. split; [apply root_unit_opnd; exact H | destruct H as [_ (ex & Hx) _]; eauto | exact H]. Qed.

(** * [__hash__] *)
Theorem q_hash_rooted qk r m u d s o f B :
  reg_nz r → rooted r u d s o f B →
  q_hash qk r (Qty m u) =
  Ok (let v := mag_map (λ x, (x * s + o) * f)%Qc m in
      if uc_eqb d ∅ then HNum v else if hash_on_units qk then HUnits v B else HDim v d).
Proof.
  intros Hnz H. unfold q_hash. rewrite (to_root_rooted _ m _ _ _ _ _ _ Hnz H). simpl.
  pose proof (rooted_root _ _ _ (rt_B _ _ _ _ _ _ _ H)) as HB.
  rewrite (dimensionless_rooted _ _ _ _ _ _ _ _ Hnz HB). simpl.
  destruct (uc_eqb d ∅); [reflexivity|]. destruct (hash_on_units qk); [reflexivity|].
  destruct H as [_ _ [[_ _ Hd _] _ _]]. rewrite Hd. reflexivity.
Qed.

Theorem hash_respects_eq qk r ma mb ua ub da db sa oa fa sb ob fb Ba Bb :
  reg_nz r → rooted r ua da sa oa fa Ba → rooted r ub db sb ob fb Bb →
  (zero_shortcut_any_unit qk = true → both_zero_offset r (Qty ma ua) (Qty mb ub) = false) →
  delta_offset_clash r ua ub = false →
  (hash_on_units qk = true → Ba = Bb ∨ da = ∅) →
  q_eq qk r (Qty ma ua) (OQty (Qty mb ub)) = Ok true →
  ∃ h, q_hash qk r (Qty ma ua) = Ok h ∧ q_hash qk r (Qty mb ub) = Ok h.
Proof.
  intros Hnz Ha Hb Hz Hc Hh He.
  destruct (q_eq_opnd qk r ma mb ua ub _ _ _ _ _ _ _ _ Hnz (rt_opnd _ _ _ _ _ _ _ Ha) (rt_opnd _ _ _ _ _ _ _ Hb) Hz Hc)
    as (bb & Hq & Hiff).
  rewrite Hq in He. injection He as ->. destruct Hiff as [Hiff _]. specialize (Hiff eq_refl).
  apply (phys_eq_opnd _ _ _ _ _ _ _ _ _ _ _ _ _ Hnz (rt_opnd _ _ _ _ _ _ _ Ha) (rt_opnd _ _ _ _ _ _ _ Hb)) in Hiff.
  destruct Hiff as (x & y & -> & -> & <- & Ev).
  rewrite (q_hash_rooted qk _ _ _ _ _ _ _ _ Hnz Ha), (q_hash_rooted qk _ _ _ _ _ _ _ _ Hnz Hb). simpl.
  rewrite Ev. eexists. split; [reflexivity|].
  destruct (uc_eqb da ∅) eqn:E; [reflexivity|]. destruct (hash_on_units qk); [|reflexivity].
  destruct (Hh eq_refl) as [-> | ->]; [reflexivity|]. unfold uc_eqb in E. rewrite bool_decide_eq_true_2 in E by reflexivity. discriminate.
Qed.

(** * [compare] *)
Theorem q_compare_rooted r ma mb ua ub d sa oa fa sb ob fb Ba Bb :
  reg_nz r → rooted r ua d sa oa fa Ba → rooted r ub d sb ob fb Bb → ua ≠ ub →
  q_compare r (Qty ma ua) (OQty (Qty mb ub)) =
  Ok (mag_cmp (mag_map (λ x, (x * sa + oa) * fa)%Qc ma) (mag_map (λ x, (x * sb + ob) * fb)%Qc mb)).
Proof.
  intros Hnz Ha Hb Hne. unfold q_compare. simpl q_u. simpl q_m.
  unfold uc_eqb at 1. rewrite bool_decide_eq_false_2 by exact Hne.
  rewrite (opnd_dim _ _ _ _ _ _ (rt_opnd _ _ _ _ _ _ _ Ha)), (opnd_dim _ _ _ _ _ _ (rt_opnd _ _ _ _ _ _ _ Hb)). simpl.
  unfold uc_eqb. rewrite bool_decide_eq_true_2 by reflexivity. simpl.
  rewrite (to_root_rooted _ ma _ _ _ _ _ _ Hnz Ha), (to_root_rooted _ mb _ _ _ _ _ _ Hnz Hb). reflexivity.
Qed.

Definition exactly_one (a b c : bool) : Prop :=
  (a = true ∧ b = false ∧ c = false) ∨ (a = false ∧ b = true ∧ c = false) ∨ (a = false ∧ b = false ∧ c = true).
Lemma ord_exactly_one c : c ≠ OUn → exactly_one (ord_lt c) (ord_eq c) (ord_gt c).
Proof. unfold exactly_one. destruct c; simpl; intros H; auto 10; try contradiction. Qed.
Lemma mag_cmp_Fin_not_un x y : mag_cmp (Fin x) (Fin y) ≠ OUn.
Proof. simpl. destruct (x ?= y)%Qc; discriminate. Qed.
Lemma mag_cmp_eq x y : ord_eq (mag_cmp (Fin x) (Fin y)) = true ↔ x = y.
Proof.
  simpl. destruct (x ?= y)%Qc eqn:E; simpl.
  - apply Qceq_alt in E. split; auto.
  - split; [discriminate|]. intros ->. apply Qclt_alt in E. exfalso. exact (Qclt_not_eq _ _ E eq_refl).
  - split; [discriminate|]. intros ->. apply Qcgt_alt in E. exfalso. exact (Qclt_not_eq _ _ E eq_refl).
Qed.

(** multiplicative, positively scaled units of one dimensionality *)
Theorem trichotomy_mult qk r x y ua ub d fa fb Ba Bb :
  reg_nz r → rooted r ua d 1 0 fa Ba → rooted r ub d 1 0 fb Bb →
  mult_unit r ua d fa → mult_unit r ub d fb → (0 < fa)%Qc → (0 < fb)%Qc →
  let a := Qty (Fin x) ua in let b := Qty (Fin y) ub in
  let c := mag_cmp (Fin (x * fa)%Qc) (Fin (y * fb)%Qc) in
  q_compare r a (OQty b) = Ok c
  ∧ q_eq qk r a (OQty b) = Ok (ord_eq c)
  ∧ q_lt r a (OQty b) = Ok (ord_lt c) ∧ q_gt r a (OQty b) = Ok (ord_gt c)
  ∧ q_le r a (OQty b) = Ok (ord_le c) ∧ q_ge r a (OQty b) = Ok (ord_ge c)
  ∧ exactly_one (ord_lt c) (ord_eq c) (ord_gt c).
Proof.
  intros Hnz Ha Hb Ma Mb Pa Pb a b c.
  assert (Hc : q_compare r a (OQty b) = Ok c).
  { destruct (decide (ua = ub)) as [<-|Hne].
    - unfold q_compare, a, b. simpl q_u. unfold uc_eqb. rewrite bool_decide_eq_true_2 by reflexivity.
      simpl q_m. f_equal. unfold c.
      destruct (opnd_fun r ua d 1 0 fa d 1 0 fb Hnz) as [_ Hx]; [left; auto | left; auto|].
      assert (fa = fb) as <- by (specialize (Hx 1%Qc); ring_simplify in Hx; exact Hx).
      simpl. rewrite Qc_cmp_mul_pos by assumption. reflexivity.
    - unfold a, b. rewrite (q_compare_rooted r _ _ ua ub d _ _ _ _ _ _ _ _ Hnz Ha Hb Hne). f_equal. unfold c. simpl.
      replace ((x * 1 + 0) * fa)%Qc with (x * fa)%Qc by ring. replace ((y * 1 + 0) * fb)%Qc with (y * fb)%Qc by ring. reflexivity. }
  split; [exact Hc|]. split.
  - assert (Hz : zero_shortcut_any_unit qk = true → both_zero_offset r a b = false).
    { intros _. unfold both_zero_offset, a, b. simpl q_u. rewrite (is_offset_mult _ _ _ _ Ma), (is_offset_mult _ _ _ _ Mb). apply andb_false_r. }
    assert (Hcl : delta_offset_clash r ua ub = false).
    { unfold delta_offset_clash. rewrite (is_offset_mult _ _ _ _ Ma), (is_offset_mult _ _ _ _ Mb). reflexivity. }
    destruct (q_eq_opnd qk r (Fin x) (Fin y) ua ub d d 1 0 fa 1 0 fb Hnz) as (bb & Hq & Hiff); try (left; auto); try assumption.
    unfold a, b. rewrite Hq. f_equal.
    rewrite (phys_eq_opnd r (Fin x) (Fin y) ua ub d d 1 0 fa 1 0 fb Hnz) in Hiff by (left; auto).
    apply eq_true_iff_eq. rewrite Hiff. unfold c. rewrite mag_cmp_eq. split.
    + intros (x' & y' & [= <-] & [= <-] & _ & E). ring_simplify in E. exact E.
    + intros E. exists x, y. repeat split. ring_simplify. exact E.
  - unfold q_lt, q_gt, q_le, q_ge. rewrite Hc. simpl. repeat split; try reflexivity.
    apply ord_exactly_one. apply mag_cmp_Fin_not_un.
Qed.

(** ordering across dimensions raises DimensionalityError while == answers False — for all units
    whose names resolve (offset units included) *)
Theorem cmp_dim_mismatch qk r ma mb ua ub da db la lb :
  dim_of r ua = Ok da → dim_of r ub = Ok db → da ≠ db →
  nonmult_list r ua = Ok la → nonmult_list r ub = Ok lb →
  q_compare r (Qty ma ua) (OQty (Qty mb ub)) = Err EDim
  ∧ q_eq qk r (Qty ma ua) (OQty (Qty mb ub)) = Ok false.
Proof.
  intros Da Db Hne La Lb.
  assert (Hu : ua ≠ ub) by (intros ->; rewrite Da in Db; injection Db; exact Hne).
  assert (E : uc_eqb da db = false) by (unfold uc_eqb; apply bool_decide_eq_false_2; exact Hne).
  assert (Eu : uc_eqb ua ub = false) by (unfold uc_eqb; apply bool_decide_eq_false_2; exact Hu).
  split.
  - unfold q_compare. simpl q_u. rewrite Eu, Da, Db. simpl. rewrite E. reflexivity.
  - rewrite q_eq_unfold. simpl q_u. simpl q_m.
    assert (Tail : eq_tail r ma mb ua ub = Ok false).
    { unfold eq_tail. rewrite Eu. unfold convert. rewrite Eu. unfold convert_nm.
      destruct (validate_of_nonmult _ _ _ La) as [Va|[oa Va]]; rewrite Va; simpl; [reflexivity|].
      destruct (validate_of_nonmult _ _ _ Lb) as [Vb|[ob Vb]]; rewrite Vb; simpl; [reflexivity|].
      destruct oa as [ka|], ob as [kb|]; simpl; rewrite ?Da, ?Db; simpl; rewrite ?E; simpl; try reflexivity.
      rewrite (convert_plain_edim r ma ua ub da db Da Db Hne). reflexivity. }
    unfold eq_shortcut. simpl q_m. destruct (mag_zero ma && mag_zero mb).
    + destruct (zero_shortcut_any_unit qk).
      * simpl. rewrite Da, Db. simpl. rewrite E. reflexivity.
      * unfold q_is_mult. simpl q_u. rewrite La, Lb. simpl.
        destruct (_ && _); [rewrite Da, Db; simpl; rewrite E; reflexivity | exact Tail].
    + exact Tail.
Qed.

(** * Bare numbers *)
Lemma convert_to_empty r m u f B :
  reg_nz r → rooted r u ∅ 1 0 f B → convert r m u ∅ = Ok (mag_map (λ x, x * f)%Qc m).
Proof.
  intros Hnz [Ho _ _].
  assert (He : opnd r ∅ ∅ 1 0 1) by (left; split; [reflexivity|]; split; [reflexivity|]; apply mult_unit_empty).
  assert (Hc : delta_offset_clash r u ∅ = false).
  { unfold delta_offset_clash. rewrite (is_offset_mult _ _ _ _ (mult_unit_empty r)).
    assert (has_delta ∅ = false) as -> by (unfold has_delta; rewrite map_to_list_empty; reflexivity).
    rewrite andb_false_r. reflexivity. }
  rewrite (convert_opnd r m u ∅ ∅ 1 0 f 1 0 1 Hnz Ho He Hc). f_equal. apply mag_map_ext. intros x. qcfield.
Qed.

Theorem number_rule qk r ma n u d f B :
  reg_nz r → rooted r u d 1 0 f B → mult_unit r u d f →
  q_compare r (Qty ma u) (ONum n) =
    (if uc_eqb d ∅ then Ok (mag_cmp (mag_map (λ x, x * f)%Qc ma) n)
     else if zero_or_nan n then Ok (mag_cmp ma n) else Err EValue)
  ∧ q_eq qk r (Qty ma u) (ONum n) =
    (if zero_or_nan n then Ok (mag_eqb ma n)
     else if uc_eqb d ∅ then Ok (mag_eqb (mag_map (λ x, x * f)%Qc ma) n) else Ok false).
Proof.
  intros Hnz Hr Mu.
  assert (Cv : d = ∅ → convert r ma u ∅ = Ok (mag_map (λ x, x * f)%Qc ma)).
  { intros ->. eapply convert_to_empty; eassumption. }
  split.
  - unfold q_compare. rewrite (dimensionless_rooted _ ma _ _ _ _ _ _ Hnz Hr). simpl.
    destruct (uc_eqb d ∅) eqn:E.
    + apply uc_eqb_spec in E. rewrite (Cv E). reflexivity.
    + destruct (zero_or_nan n); [|reflexivity]. rewrite (q_is_mult_mult _ _ _ _ _ Mu). reflexivity.
  - unfold q_eq. destruct (zero_or_nan n).
    + rewrite (q_is_mult_mult _ _ _ _ _ Mu). reflexivity.
    + rewrite (dimensionless_rooted _ ma _ _ _ _ _ _ Hnz Hr). simpl.
      destruct (uc_eqb d ∅) eqn:E; [|reflexivity]. apply uc_eqb_spec in E. rewrite (Cv E). reflexivity.
Qed.

(** * Equality on multiplicative units: specification and equivalence laws *)
Lemma mult_guards qk r ma mb ua ub da db fa fb :
  mult_unit r ua da fa → mult_unit r ub db fb →
  (zero_shortcut_any_unit qk = true → both_zero_offset r (Qty ma ua) (Qty mb ub) = false)
  ∧ delta_offset_clash r ua ub = false.
Proof.
  intros Ma Mb. unfold both_zero_offset, delta_offset_clash. simpl q_u.
  rewrite (is_offset_mult _ _ _ _ Ma), (is_offset_mult _ _ _ _ Mb). split; [intros _; apply andb_false_r | reflexivity].
Qed.
Theorem eq_spec_mult qk r ma mb ua ub da db fa fb :
  reg_nz r → mult_unit r ua da fa → mult_unit r ub db fb →
  ∃ bb, q_eq qk r (Qty ma ua) (OQty (Qty mb ub)) = Ok bb ∧ (bb = true ↔ phys_eq r (Qty ma ua) (Qty mb ub)).
Proof.
  intros Hnz Ma Mb. destruct (mult_guards qk r ma mb ua ub _ _ _ _ Ma Mb) as [Hz Hc].
  apply (q_eq_opnd qk r ma mb ua ub da db 1 0 fa 1 0 fb); try assumption; left; auto.
Qed.
Lemma phys_eq_sym r a b : phys_eq r a b → phys_eq r b a.
Proof. intros (p & H1 & H2). exists p. auto. Qed.
Lemma phys_eq_trans r a b c : phys_eq r a b → phys_eq r b c → phys_eq r a c.
Proof. intros (p & H1 & H2) (p' & H3 & H4). exists p. split; [exact H1|]. congruence. Qed.
Lemma phys_eq_refl r a p : phys r a = Some p → phys_eq r a a.
Proof. intros H. exists p. auto. Qed.

Theorem eq_refl_mult qk r x u d f :
  reg_nz r → mult_unit r u d f → q_eq qk r (Qty (Fin x) u) (OQty (Qty (Fin x) u)) = Ok true.
Proof.
  intros Hnz M. destruct (eq_spec_mult qk r (Fin x) (Fin x) u u d d f f Hnz M M) as (bb & Hq & Hiff).
  rewrite Hq. f_equal. apply Hiff. eapply phys_eq_refl. apply (phys_opnd r u d 1 0 f x Hnz). left. auto.
Qed.
Theorem eq_sym_mult qk r ma mb ua ub da db fa fb :
  reg_nz r → mult_unit r ua da fa → mult_unit r ub db fb →
  q_eq qk r (Qty ma ua) (OQty (Qty mb ub)) = q_eq qk r (Qty mb ub) (OQty (Qty ma ua)).
Proof.
  intros Hnz Ma Mb.
  destruct (eq_spec_mult qk r ma mb ua ub _ _ _ _ Hnz Ma Mb) as (b1 & H1 & I1).
  destruct (eq_spec_mult qk r mb ma ub ua _ _ _ _ Hnz Mb Ma) as (b2 & H2 & I2).
  rewrite H1, H2. f_equal. apply eq_true_iff_eq. rewrite I1, I2. split; apply phys_eq_sym.
Qed.
Theorem eq_trans_mult qk r ma mb mc ua ub uc' da db dc fa fb fc :
  reg_nz r → mult_unit r ua da fa → mult_unit r ub db fb → mult_unit r uc' dc fc →
  q_eq qk r (Qty ma ua) (OQty (Qty mb ub)) = Ok true →
  q_eq qk r (Qty mb ub) (OQty (Qty mc uc')) = Ok true →
  q_eq qk r (Qty ma ua) (OQty (Qty mc uc')) = Ok true.
Proof.
  intros Hnz Ma Mb Mc E1 E2.
  destruct (eq_spec_mult qk r ma mb ua ub _ _ _ _ Hnz Ma Mb) as (b1 & H1 & I1).
  destruct (eq_spec_mult qk r mb mc ub uc' _ _ _ _ Hnz Mb Mc) as (b2 & H2 & I2).
  destruct (eq_spec_mult qk r ma mc ua uc' _ _ _ _ Hnz Ma Mc) as (b3 & H3 & I3).
  rewrite H1 in E1. rewrite H2 in E2. injection E1 as ->. injection E2 as ->.
  rewrite H3. f_equal. apply I3. eapply phys_eq_trans; [apply I1 | apply I2]; reflexivity.
Qed.

(** the same three laws for all operand units (offset units included) outside the two regions *)
Theorem eq_trans_opnd qk r ma mb mc ua ub uc' da db dc sa oa fa sb ob fb sc oc fc :
  reg_nz r → opnd r ua da sa oa fa → opnd r ub db sb ob fb → opnd r uc' dc sc oc fc →
  (zero_shortcut_any_unit qk = true →
     both_zero_offset r (Qty ma ua) (Qty mb ub) = false ∧ both_zero_offset r (Qty mb ub) (Qty mc uc') = false
     ∧ both_zero_offset r (Qty ma ua) (Qty mc uc') = false) →
  delta_offset_clash r ua ub = false → delta_offset_clash r ub uc' = false → delta_offset_clash r ua uc' = false →
  q_eq qk r (Qty ma ua) (OQty (Qty mb ub)) = Ok true →
  q_eq qk r (Qty mb ub) (OQty (Qty mc uc')) = Ok true →
  q_eq qk r (Qty ma ua) (OQty (Qty mc uc')) = Ok true.
Proof.
  intros Hnz Ha Hb Hc Hz C1 C2 C3 E1 E2.
  destruct (q_eq_opnd qk r ma mb ua ub _ _ _ _ _ _ _ _ Hnz Ha Hb) as (b1 & H1 & I1); [intros Q; apply (Hz Q) | assumption |].
  destruct (q_eq_opnd qk r mb mc ub uc' _ _ _ _ _ _ _ _ Hnz Hb Hc) as (b2 & H2 & I2); [intros Q; apply (Hz Q) | assumption |].
  destruct (q_eq_opnd qk r ma mc ua uc' _ _ _ _ _ _ _ _ Hnz Ha Hc) as (b3 & H3 & I3); [intros Q; apply (Hz Q) | assumption |].
  rewrite H1 in E1. rewrite H2 in E2. injection E1 as ->. injection E2 as ->.
  rewrite H3. f_equal. apply I3. eapply phys_eq_trans; [apply I1 | apply I2]; reflexivity.
Qed.

Lemma phys_eqb_spec r a b : phys_eqb r a b = true ↔ phys_eq r a b.
Proof.
  unfold phys_eqb, phys_eq. destruct (phys r a) as [[d x]|], (phys r b) as [[e y]|]; simpl.
  - rewrite andb_true_iff, uc_eqb_spec, bool_decide_eq_true. split.
    + intros [-> ->]. eauto.
    + intros (p & [= <-] & [= -> ->]). auto.
  - split; [discriminate | intros (p & _ & ?); discriminate].
  - split; [discriminate | intros (p & ? & _); discriminate].
  - split; [discriminate | intros (p & ? & _); discriminate].
Qed.

(** the bare-number rule as an "iff" *)
Corollary number_rule_defined r ma n u d f B :
  reg_nz r → rooted r u d 1 0 f B → mult_unit r u d f →
  ((∃ c, q_compare r (Qty ma u) (ONum n) = Ok c) ↔ (d = ∅ ∨ zero_or_nan n = true))
  ∧ (d ≠ ∅ → zero_or_nan n = false → ∀ qk, q_eq qk r (Qty ma u) (ONum n) = Ok false)
  ∧ (d ≠ ∅ → zero_or_nan n = false → q_compare r (Qty ma u) (ONum n) = Err EValue).
Proof.
  intros Hnz Hr Mu. destruct (number_rule as_coded r ma n u d f B Hnz Hr Mu) as [Hc _]. rewrite Hc.
  split; [|split].
  - destruct (uc_eqb d ∅) eqn:E.
    + apply uc_eqb_spec in E. split; eauto.
    + assert (d ≠ ∅) by (intros ->; unfold uc_eqb in E; rewrite bool_decide_eq_true_2 in E by reflexivity; discriminate).
      destruct (zero_or_nan n); split; eauto.
      * intros [c Hx]. discriminate.
      * intros [?|?]; [contradiction | discriminate].
  - intros Hd Hn qk. destruct (number_rule qk r ma n u d f B Hnz Hr Mu) as [_ He]. rewrite He, Hn.
    unfold uc_eqb. rewrite bool_decide_eq_false_2 by exact Hd. reflexivity.
  - intros Hd Hn. rewrite Hn. unfold uc_eqb. rewrite bool_decide_eq_false_2 by exact Hd. reflexivity.
Qed.

(** * Decidable side conditions (checked by computation on a concrete registry) *)
Definition mult_unitb (r : reg) (u : uc) : bool :=
  wfb u && match validate_extract r u with Ok None => true | _ => false end
  && match dim_of r u with Ok _ => true | Err _ => false end && exact_unitb r u.
Lemma mult_unitb_spec r u d f :
  reg_nz r → mult_unitb r u = true → dim_of r u = Ok d → root_factor r u = Some f → mult_unit r u d f.
Proof.
  intros Hnz H Hd Hf. unfold mult_unitb in H.
  apply andb_true_iff in H as [H H4]. apply andb_true_iff in H as [H H3]. apply andb_true_iff in H as [H H2].
  apply wfb_spec in H. destruct (validate_extract r u) as [[k|]|] eqn:V; try discriminate H2.
  destruct (exact_unitb_spec r u) as (F & B & He); [assumption|].
  split; try assumption. exists F, B. split; [exact He|].
  unfold root_factor in Hf. destruct (root_of_exact _ _ _ _ Hnz He) as [ex Hr]. rewrite Hr in Hf. congruence.
Qed.
Definition offs_unitb (r : reg) (u : uc) : bool :=
  wfb u &&
  match unit_kind r u, dim_of r u with
  | KOffset s o ref, Ok d =>
      negb (qz s) && mult_unitb r ref && negb (has_delta ref)
      && match dim_of r ref with Ok d' => uc_eqb d d' | Err _ => false end
  | _, _ => false
  end.
Lemma offs_unitb_spec r u d s o ref f :
  reg_nz r → offs_unitb r u = true → dim_of r u = Ok d → unit_kind r u = KOffset s o ref →
  root_factor r ref = Some f → offs_unit r u d s o f.
Proof.
  intros Hnz H Hd Hk Hf. unfold offs_unitb in H. rewrite Hk, Hd in H. cbv beta iota in H.
  apply andb_true_iff in H as [Hw H]. apply andb_true_iff in H as [H H4]. apply andb_true_iff in H as [H H3].
  apply andb_true_iff in H as [H1 H2]. apply wfb_spec in Hw.
  destruct (dim_of r ref) as [d'|] eqn:Dr; [|discriminate H4].
  apply uc_eqb_spec in H4. subst d'.
  apply negb_true_iff in H3. apply negb_true_iff, qz_false in H1.
  unfold unit_kind in Hk. destruct (validate_extract r u) as [[k|]|] eqn:V; try discriminate Hk.
  destruct (resolve r k) as [df|] eqn:Rk; [|discriminate Hk].
  destruct (u_conv df) as [|o'|] eqn:Cv; try discriminate Hk. injection Hk as <- <- <-.
  split; try assumption.
  exists k, df. split; [exact V|]. split; [exact Rk|]. split; [exact Cv|]. split; [reflexivity|].
  split; [apply mult_unitb_spec; assumption | exact H3].
Qed.
Definition root_container (r : reg) (u : uc) : option uc :=
  match root_of r u with Ok (_, B, _) => Some B | Err _ => None end.
Definition root_unitb (r : reg) (B : uc) : bool :=
  mult_unitb r B && negb (has_delta B)
  && match root_of r B with Ok (Some f, B', _) => bool_decide (f = 1%Qc) && uc_eqb B B' | _ => false end.
Lemma root_unitb_spec r B d : reg_nz r → root_unitb r B = true → dim_of r B = Ok d → root_unit r B d.
Proof.
  intros Hnz H Hd. unfold root_unitb in H.
  apply andb_true_iff in H as [H H3]. apply andb_true_iff in H as [H1 H2]. apply negb_true_iff in H2.
  destruct (root_of r B) as [[[[f|] B'] ex]|] eqn:R; try discriminate H3.
  apply andb_true_iff in H3 as [X1 X2]. apply bool_decide_eq_true in X1. apply uc_eqb_spec in X2. subst f B'.
  split; [|eauto|exact H2].
  apply mult_unitb_spec; try assumption. unfold root_factor. rewrite R. reflexivity.
Qed.
Lemma rooted_intro r u d s o f B :
  opnd r u d s o f → root_container r u = Some B → root_unit r B d → rooted r u d s o f B.
Proof.
  intros Ho Hc Hb. split; try assumption. unfold root_container in Hc.
  destruct (root_of r u) as [[[ff B'] ex]|]; [|discriminate]. injection Hc as ->. eauto.
Qed.
Lemma rooted_mult_intro r u d f B :
  reg_nz r → mult_unitb r u = true → dim_of r u = Ok d → root_factor r u = Some f →
  root_container r u = Some B → root_unitb r B = true → dim_of r B = Ok d →
  rooted r u d 1 0 f B ∧ mult_unit r u d f.
Proof.
  intros Hnz H1 H2 H3 H4 H5 H6. pose proof (mult_unitb_spec r u d f Hnz H1 H2 H3) as M.
  split; [|exact M]. apply rooted_intro; [left; auto | exact H4 | apply root_unitb_spec; assumption].
Qed.
Lemma rooted_offs_intro r u d s o ref f B :
  reg_nz r → offs_unitb r u = true → dim_of r u = Ok d → unit_kind r u = KOffset s o ref →
  root_factor r ref = Some f → root_container r u = Some B → root_unitb r B = true → dim_of r B = Ok d →
  rooted r u d s o f B.
Proof.
  intros Hnz H1 H2 H3 H4 H5 H6 H7. apply rooted_intro; [right; eapply offs_unitb_spec; eassumption | exact H5 |].
  apply root_unitb_spec; assumption.
Qed.

(** boolean forms of the premises, so that a concrete instance is one [vm_compute] (values
    holding [Qc] numbers are compared by decision, never syntactically) *)
Definition dim_is (r : reg) (u d : uc) : bool :=
  match dim_of r u with Ok d' => uc_eqb d' d | Err _ => false end.
Definition factor_is (r : reg) (u : uc) (f : Qc) : bool :=
  match root_factor r u with Some f' => bool_decide (f' = f) | None => false end.
Definition root_is (r : reg) (u B : uc) : bool :=
  match root_container r u with Some B' => uc_eqb B' B | None => false end.
Definition kind_is (r : reg) (u : uc) (s o f : Qc) : bool :=
  match unit_kind r u with
  | KOffset s' o' ref => bool_decide (s' = s) && bool_decide (o' = o) && factor_is r ref f
  | _ => false
  end.
Lemma dim_is_spec r u d : dim_is r u d = true → dim_of r u = Ok d.
Proof. unfold dim_is. destruct (dim_of r u); [|discriminate]. intros H. apply uc_eqb_spec in H. congruence. Qed.
Lemma factor_is_spec r u f : factor_is r u f = true → root_factor r u = Some f.
Proof. unfold factor_is. destruct (root_factor r u); [|discriminate]. intros H. apply bool_decide_eq_true in H. congruence. Qed.
Lemma root_is_spec r u B : root_is r u B = true → root_container r u = Some B.
Proof. unfold root_is. destruct (root_container r u); [|discriminate]. intros H. apply uc_eqb_spec in H. congruence. Qed.
Definition rooted_mult_check (r : reg) (u d : uc) (f : Qc) (B : uc) : bool :=
  mult_unitb r u && dim_is r u d && factor_is r u f && root_is r u B && root_unitb r B && dim_is r B d.
Lemma rooted_mult_check_spec r u d f B :
  reg_nz r → rooted_mult_check r u d f B = true → rooted r u d 1 0 f B ∧ mult_unit r u d f.
Proof.
  intros Hnz H. unfold rooted_mult_check in H.
  apply andb_true_iff in H as [H H6]. apply andb_true_iff in H as [H H5]. apply andb_true_iff in H as [H H4].
  apply andb_true_iff in H as [H H3]. apply andb_true_iff in H as [H1 H2].
  apply rooted_mult_intro; auto using dim_is_spec, factor_is_spec, root_is_spec.
Qed.
Definition rooted_offs_check (r : reg) (u d : uc) (s o f : Qc) (B : uc) : bool :=
  offs_unitb r u && dim_is r u d && kind_is r u s o f && root_is r u B && root_unitb r B && dim_is r B d.
Lemma rooted_offs_check_spec r u d s o f B :
  reg_nz r → rooted_offs_check r u d s o f B = true → rooted r u d s o f B.
Proof.
  intros Hnz H. unfold rooted_offs_check in H.
  apply andb_true_iff in H as [H H6]. apply andb_true_iff in H as [H H5]. apply andb_true_iff in H as [H H4].
  apply andb_true_iff in H as [H H3]. apply andb_true_iff in H as [H1 H2].
  unfold kind_is in H3. destruct (unit_kind r u) as [|s' o' ref|] eqn:K; try discriminate H3.
  apply andb_true_iff in H3 as [H3 Hf]. apply andb_true_iff in H3 as [Hs Ho].
  apply bool_decide_eq_true in Hs, Ho. subst s' o'.
  eapply rooted_offs_intro; eauto using dim_is_spec, factor_is_spec, root_is_spec.
Qed.
(** [hash(a) == hash(b)] in the model *)
Definition hash_agree (qk : quirks) (r : reg) (a b : qty) : bool :=
  match q_hash qk r a, q_hash qk r b with Ok x, Ok y => hashv_eqb x y | _, _ => false end.
(** literals for the examples *)
Definition Qn (n : Z) (d : positive) (u : string) : qty := Qty (Fin (mkq n d)) {[ u := 1%Qc ]}.
Definition U (n : string) : uc := {[ n := 1%Qc ]}.
Definition Dlen : uc := mkuc [("[length]", mkq 1 1)].
Definition Dtemp : uc := mkuc [("[temperature]", mkq 1 1)].

Lemma some_pair_inj {A B} (a a' : A) (b b' : B) : Some (a, b) = Some (a', b') → a = a' ∧ b = b'.
Proof. intros H. apply Some_inj in H. apply pair_equal_spec in H. exact H. Qed.
(** [<] is the specification's [phys_lt] on positively scaled multiplicative units *)
Theorem lt_is_phys_lt qk r x y ua ub d fa fb Ba Bb :
  reg_nz r → rooted r ua d 1 0 fa Ba → rooted r ub d 1 0 fb Bb →
  mult_unit r ua d fa → mult_unit r ub d fb → (0 < fa)%Qc → (0 < fb)%Qc →
  let a := Qty (Fin x) ua in let b := Qty (Fin y) ub in
  (q_lt r a (OQty b) = Ok true ↔ phys_lt r a b) ∧ (q_gt r a (OQty b) = Ok true ↔ phys_lt r b a)
  ∧ (q_eq qk r a (OQty b) = Ok true ↔ phys_eq r a b).
Proof.
  intros Hnz Ha Hb Ma Mb Pa Pb a b.
  destruct (trichotomy_mult qk r x y ua ub d fa fb Ba Bb Hnz Ha Hb Ma Mb Pa Pb) as (Hc & He & Hl & Hg & _).
  fold a b in Hc, He, Hl, Hg. rewrite Hl, Hg, He.
  assert (Pha : phys r a = Some (d, (x * fa)%Qc)).
  { unfold a. rewrite (phys_opnd r ua d 1 0 fa x Hnz) by (left; auto). do 2 f_equal. ring. }
  assert (Phb : phys r b = Some (d, (y * fb)%Qc)).
  { unfold b. rewrite (phys_opnd r ub d 1 0 fb y Hnz) by (left; auto). do 2 f_equal. ring. }
  assert (LT : phys_lt r a b ↔ (x * fa < y * fb)%Qc).
  { unfold phys_lt. rewrite Pha, Phb. split.
    - intros (? & ? & ? & H1 & H2 & Hlt). apply some_pair_inj in H1 as [<- <-]. apply some_pair_inj in H2 as [_ <-]. exact Hlt.
    - intros Hlt. exists d, (x * fa)%Qc, (y * fb)%Qc. auto. }
  assert (GT : phys_lt r b a ↔ (y * fb < x * fa)%Qc).
  { unfold phys_lt. rewrite Pha, Phb. split.
    - intros (? & ? & ? & H1 & H2 & Hlt). apply some_pair_inj in H1 as [<- <-]. apply some_pair_inj in H2 as [_ <-]. exact Hlt.
    - intros Hlt. exists d, (y * fb)%Qc, (x * fa)%Qc. auto. }
  assert (EQ : phys_eq r a b ↔ (x * fa = y * fb)%Qc).
  { unfold phys_eq. rewrite Pha, Phb. split.
    - intros (? & H1 & H2). rewrite <- H1 in H2. apply some_pair_inj in H2 as [_ H2]. symmetry. exact H2.
    - intros E. rewrite E. eauto. }
  rewrite LT, GT, EQ. cbn [mag_cmp].
  destruct (x * fa ?= y * fb)%Qc eqn:E; cbn [ord_lt ord_gt ord_eq].
  - apply Qceq_alt in E. rewrite E. split; [|split].
    + split; [discriminate|]. intros Hlt. exfalso. exact (Qclt_not_eq _ _ Hlt eq_refl).
    + split; [discriminate|]. intros Hlt. exfalso. exact (Qclt_not_eq _ _ Hlt eq_refl).
    + split; reflexivity.
  - apply Qclt_alt in E. split; [|split].
    + split; [intros _; exact E | reflexivity].
    + split; [discriminate|]. intros Hlt. exfalso. exact (Qclt_not_le _ _ Hlt (Qclt_le_weak _ _ E)).
    + split; [discriminate|]. intros X. rewrite X in E. exfalso. exact (Qclt_not_eq _ _ E eq_refl).
  - apply Qcgt_alt in E. split; [|split].
    + split; [discriminate|]. intros Hlt. exfalso. exact (Qclt_not_le _ _ Hlt (Qclt_le_weak _ _ E)).
    + split; [intros _; exact E | reflexivity].
    + split; [discriminate|]. intros X. rewrite X in E. exfalso. exact (Qclt_not_eq _ _ E eq_refl).
Qed.

(** * The mode [autoconvert_offset_to_baseunit] does not touch operand units *)
Lemma validate_extract_mode_off r u : validate_extract_mode false r u = validate_extract r u.
Proof.
  unfold validate_extract_mode, validate_extract. destruct (nonmult_list r u) as [l|e]; simpl; [|reflexivity].
  destruct l as [|[k e] [|? ?]]; try reflexivity. rewrite andb_true_r. reflexivity.
Qed.
Theorem validate_extract_mode_opnd ac r u d s o f :
  opnd r u d s o f → validate_extract_mode ac r u = validate_extract r u.
Proof.
  intros H.
  assert (V : ∃ x, validate_extract r u = Ok x).
  { destruct H as [(_ & _ & [_ Hv _ _])|[_ (k & df & Hv & _) _ _]]; eauto. }
  destruct V as [x V]. revert V. unfold validate_extract_mode, validate_extract.
  destruct (nonmult_list r u) as [l|e]; simpl; [|reflexivity].
  destruct l as [|[k e] [|? ?]]; try reflexivity.
  destruct (negb (bool_decide (e = 1%Qc))); [reflexivity|].
  destruct (Nat.ltb 1 (size u)); [discriminate | reflexivity].
Qed.
(** [_ok_for_muldiv] is not a substitute for "multiplicative": with the flag set it accepts a single
    offset unit, whose zero is [o·f ≠ 0] in root units *)
Theorem ok_for_muldiv_offs r u d s o f m :
  offs_unit r u d s o f → size u = 1%nat → ok_for_muldiv true r (Qty m u) = Ok true ∧ q_is_mult r (Qty m u) = Ok false.
Proof.
  intros H Hs. split; [|eapply q_is_mult_offs; exact H].
  destruct H as [_ (k & df & Hv & _) _ _]. unfold ok_for_muldiv. simpl q_u.
  pose proof Hv as Hv'. unfold validate_extract in Hv'.
  destruct (nonmult_list r u) as [l|e]; simpl in *; [|discriminate].
  destruct l as [|[k' e] [|? ?]]; try discriminate.
  destruct (bool_decide (e = 1%Qc)); simpl in *; [|discriminate]. rewrite Hs. reflexivity.
Qed.
