(** Proofs/QuantityProofs.v — unit covariance of quantity arithmetic (C03).
    Shape: every operator form is a homomorphism into the algebra of physical values
    ([pval]: bare numbers, or (magnitude · factor, dimensionality)); covariance, agreement of
    reflected / in-place forms and the expression-level theorem are corollaries. *)
From Coq Require Import Qpower Qround.
From PintV Require Import Model.UC Model.Eval Model.Registry Model.Quantity.
From PintV Require Import Proofs.UCProofs Proofs.RegistryProofs Proofs.RootProofs Proofs.FactorProofs.
Open Scope string_scope.
Arguments dim_rec : simpl never.
Arguments root_rec : simpl never.
Arguments reg_fuel : simpl never.
Arguments dim_of : simpl never.
Arguments root_of : simpl never.
Arguments conv_factor : simpl never.

(** * Rationals *)
Lemma Qc_this_mult (x y : Qc) : (this (x * y) == this x * this y)%Q.
Proof. unfold Qcmult. apply this_Q2Qc. Qed.
Lemma Qclt_this (x y : Qc) : (x < y)%Qc ↔ (this x < this y)%Q.
Proof. reflexivity. Qed.
Lemma Qc_mult_pos (x y : Qc) : (0 < x)%Qc → (0 < y)%Qc → (0 < x * y)%Qc.
Proof.
  unfold Qclt. intros Hx Hy. rewrite Qc_this_mult. simpl (this 0).
  setoid_replace 0%Q with (0 * this y)%Q by ring. apply Qmult_lt_compat_r; assumption.
Qed.
Lemma Qc_pos_neq0 (x : Qc) : (0 < x)%Qc → x ≠ 0%Qc.
Proof. intros H ->. exact (Qlt_irrefl _ H). Qed.
Lemma qz_mult x c : c ≠ 0%Qc → qz (x * c) = qz x.
Proof.
  intros Hc. destruct (qz x) eqn:E.
  - apply qz_spec in E. subst. apply qz_spec. ring.
  - apply qz_false in E. apply qz_false. intros H. apply Qcmult_integral in H as [H|H]; contradiction.
Qed.
Lemma Qcinv_neq0 (c : Qc) : c ≠ 0%Qc → (/ c)%Qc ≠ 0%Qc.
Proof.
  intros Hc H. pose proof (Qcmult_inv_r c Hc) as E. rewrite H in E.
  replace (c * 0)%Qc with 0%Qc in E by ring. discriminate E.
Qed.
Lemma qz_div x c : c ≠ 0%Qc → qz (x / c) = qz x.
Proof. intros Hc. unfold Qcdiv. apply qz_mult. apply Qcinv_neq0. exact Hc. Qed.

(** * Powers of factors *)
Lemma pw_1 n : pw 1 n = 1%Qc.
Proof. apply Qc_is_canon. rewrite pw_Q by discriminate. apply Qpower_1. Qed.
Lemma Qcmult_neq0 (a b : Qc) : a ≠ 0%Qc → b ≠ 0%Qc → (a * b)%Qc ≠ 0%Qc.
Proof. intros Ha Hb H. apply Qcmult_integral in H as [H|H]; contradiction. Qed.
Lemma pw_one s : pw s 1 = s.
Proof. unfold pw. simpl. ring. Qed.
Lemma pw_mult_distr a b n : a ≠ 0%Qc → b ≠ 0%Qc → pw (a * b) n = (pw a n * pw b n)%Qc.
Proof.
  intros Ha Hb. apply Qc_is_canon. rewrite Qc_this_mult, !pw_Q by auto using Qcmult_neq0.
  rewrite Qc_this_mult. apply Qmult_power.
Qed.
Lemma pw_pos s n : (0 < s)%Qc → (0 < pw s n)%Qc.
Proof.
  intros H. unfold Qclt. rewrite pw_Q by (apply Qc_pos_neq0; exact H). apply Qpower_0_lt. exact H.
Qed.
Lemma weight_pow sc (Hnz : ∀ g, sc g ≠ 0%Qc) i x e :
  is_int x = true → is_int e = true → weight sc i (x * e) = pw (weight sc i x) (inum e).
Proof.
  intros Hx He. unfold weight. rewrite (proj2 (is_int_mul x e Hx He)). apply pw_mul. apply Hnz.
Qed.
Lemma mprod_pow sc (Hnz : ∀ g, sc g ≠ 0%Qc) F e :
  integral F → is_int e = true → mprod sc (uc_pow F e) = pw (mprod sc F) (inum e).
Proof.
  intros HF He. induction F as [|i x F Hi IH] using map_ind.
  - rewrite uc_pow_empty, mprod_empty. symmetry. apply pw_1.
  - assert (HF' : integral F) by (eapply map_Forall_insert_1_2; eassumption).
    assert (Hx : is_int x = true) by (apply (HF i x); apply lookup_insert).
    unfold uc_pow. rewrite omap_insert. fold (uc_pow F e).
    assert (Hn : uc_pow F e !! i = None) by (rewrite lookup_uc_pow, Hi; reflexivity).
    rewrite (mprod_insert sc F) by assumption.
    rewrite pw_mult_distr by (try apply weight_neq0; try apply mprod_neq0; assumption).
    rewrite <- weight_pow, <- IH by assumption. simpl. qz_cases.
    + rewrite delete_notin by assumption. rewrite E. rewrite weight_0. ring.
    + rewrite mprod_insert by assumption. reflexivity.
Qed.
Lemma mprod_pos sc (Hp : ∀ g, (0 < sc g)%Qc) F : (0 < mprod sc F)%Qc.
Proof.
  induction F as [|i x F Hi IH] using map_ind.
  - rewrite mprod_empty. reflexivity.
  - rewrite mprod_insert by assumption. apply Qc_mult_pos; [|exact IH]. apply pw_pos. apply Hp.
Qed.
Lemma gens_ok_pow r F e : gens_ok r F → gens_ok r (uc_pow F e).
Proof. intros HF g x H. destruct (uc_pow_dom F e g) as [y Hy]; [rewrite H; eauto | eauto]. Qed.

(** * Units the exact, multiplicative model speaks about *)
Definition mult_only (r : reg) (u : uc) : Prop := ∀ k, is_Some (u !! k) → is_nonmult r k = false.
(** [uinfo r u f d]: container [u] is canonical, multiplicative, rational ([exact_unit]),
    has factor [f] to root units and dimensionality [d] *)
Definition base_ok (r : reg) (B d : uc) : Prop :=
  wf B ∧ mult_only r B ∧ exact_unit r B ∅ B ∧ dim_of r B = Ok d.
Definition uinfo (r : reg) (u : uc) (f : Qc) (d : uc) : Prop :=
  wf u ∧ mult_only r u ∧ (∃ F B, exact_unit r u F B ∧ f = mprod (gscale r) F ∧ base_ok r B d) ∧ dim_of r u = Ok d.
Definition reg_pos (r : reg) : Prop := ∀ s d, resolve r s = Ok d → u_float d = false → (0 < u_scale d)%Qc.
Lemma reg_pos_nz r : reg_pos r → reg_nz r.
Proof. intros H s d E F. apply Qc_pos_neq0. eapply H; eassumption. Qed.
Lemma gscale_pos r : reg_pos r → ∀ g, (0 < gscale r g)%Qc.
Proof.
  intros H g. unfold gscale. destruct (resolve r g) eqn:E; [|reflexivity].
  destruct (u_float a) eqn:Ef; [reflexivity | eapply H; eassumption].
Qed.

Lemma filter_nil_iff {A} (p : A → bool) l : List.filter p l = [] ↔ ∀ x, x ∈ l → p x = false.
Proof.
  induction l as [|a l IH]; simpl.
  - split; [intros _ x H; inversion H | reflexivity].
  - destruct (p a) eqn:E.
    + split; [discriminate|]. intros H. rewrite H in E; [discriminate | left].
    + rewrite IH. split.
      * intros H x Hx. apply elem_of_cons in Hx as [->|Hx]; auto.
      * intros H x Hx. apply H. right. exact Hx.
Qed.
Lemma nonmult_nil r u : nonmult_units r u = [] ↔ mult_only r u.
Proof.
  unfold nonmult_units, mult_only. rewrite filter_nil_iff. split.
  - intros H k [v Hv]. apply H. apply elem_of_list_fmap. exists (k, v). split; [reflexivity|].
    apply elem_of_map_to_list. exact Hv.
  - intros H k Hk. apply elem_of_list_fmap in Hk as [[k' v] [-> Hin]]. apply elem_of_map_to_list in Hin.
    apply H. simpl. eauto.
Qed.

Section Units.
  Context (r : reg) (Hnz : reg_nz r).
  Local Notation gs := (gscale r).

  Lemma uinfo_fac u f d : uinfo r u f d → ∃ B ex, root_of r u = Ok (Some f, B, ex).
  Proof.
    intros (_ & _ & (F & B & (Hs & Hi & Hg) & -> & _) & _).
    destruct (root_of_from_sem r u F B (Some (mprod gs F)) Hs) as [ex H].
    { apply eval_factor_exact; assumption. }
    eauto.
  Qed.
  Lemma uinfo_fac_eq u f d : uinfo r u f d → fac r u = f.
  Proof. intros H. destruct (uinfo_fac u f d H) as (B & ex & E). unfold fac. rewrite E. reflexivity. Qed.
  Lemma uinfo_dimv u f d : uinfo r u f d → dimv r u = d.
  Proof. intros (_ & _ & _ & H). unfold dimv. rewrite H. reflexivity. Qed.
  Lemma uinfo_nz u f d : uinfo r u f d → f ≠ 0%Qc.
  Proof. intros (_ & _ & (F & B & _ & -> & _) & _). apply mprod_neq0. apply gscale_nz. exact Hnz. Qed.
  Lemma uinfo_pos u f d : reg_pos r → uinfo r u f d → (0 < f)%Qc.
  Proof. intros Hp (_ & _ & (F & B & _ & -> & _) & _). apply mprod_pos. apply gscale_pos. exact Hp. Qed.
  Lemma uinfo_nonmult u f d : uinfo r u f d → nonmult_units r u = [].
  Proof. intros (_ & H & _). apply nonmult_nil. exact H. Qed.
  Lemma uinfo_dim u f d : uinfo r u f d → dim_of r u = Ok d.
  Proof. intros (_ & _ & _ & H). exact H. Qed.
  Lemma uinfo_wf u f d : uinfo r u f d → wf u.
  Proof. intros (H & _). exact H. Qed.
  Lemma uinfo_wfd u f d : uinfo r u f d → wf d.
  Proof. intros (_ & _ & _ & H). exact (proj1 (dim_of_canonical _ _ _ H)). Qed.
  (** the factor and the dimensionality are functions of the container *)
  Lemma uinfo_fun u f d f' d' : uinfo r u f d → uinfo r u f' d' → f = f' ∧ d = d'.
  Proof.
    intros H H'. split.
    - rewrite <- (uinfo_fac_eq _ _ _ H), <- (uinfo_fac_eq _ _ _ H'). reflexivity.
    - rewrite <- (uinfo_dimv _ _ _ H), <- (uinfo_dimv _ _ _ H'). reflexivity.
  Qed.

  Lemma exact_unit_empty : exact_unit r ∅ ∅ ∅.
  Proof.
    split; [apply rsem_empty|]. split; [apply integral_empty|]. intros g e H. rewrite lookup_empty in H. discriminate.
  Qed.
  Lemma mult_only_empty : mult_only r ∅.
  Proof. intros k [v Hv]. rewrite lookup_empty in Hv. discriminate. Qed.
  Lemma exact_unit_div u v Fu Bu Fv Bv :
    wf u → exact_unit r u Fu Bu → exact_unit r v Fv Bv → exact_unit r (uc_div u v) (uc_div Fu Fv) (uc_div Bu Bv).
  Proof.
    intros Wu (Su & Iu & Gu) (Sv & Iv & Gv). destruct (rsem_wf _ _ _ _ Su) as [WFu _].
    split; [apply rsem_div; assumption|]. split; [apply integral_div; assumption | apply gens_ok_div; assumption].
  Qed.
  Lemma exact_unit_pow u Fu Bu q :
    is_int q = true → exact_unit r u Fu Bu → exact_unit r (uc_pow u q) (uc_pow Fu q) (uc_pow Bu q).
  Proof.
    intros Hq (Su & Iu & Gu).
    split; [apply rsem_pow; assumption|]. split; [apply integral_pow; assumption | apply gens_ok_pow; assumption].
  Qed.
  Lemma base_ok_empty : base_ok r ∅ ∅.
  Proof. split; [apply wf_empty|]. split; [apply mult_only_empty|]. split; [apply exact_unit_empty | apply dim_of_empty]. Qed.
  Lemma base_ok_mul B C d e : base_ok r B d → base_ok r C e → base_ok r (uc_mul B C) (uc_mul d e).
  Proof.
    intros (WB & MB & EB & DB) (WC & MC & EC & DC). split; [apply wf_mul; assumption|]. split.
    { intros k Hk. destruct (uc_mul_dom _ _ _ Hk); auto. }
    split; [|apply dim_of_mul; assumption].
    pose proof (exact_unit_mul _ _ _ _ _ _ _ EB EC) as H. rewrite uc_mul_empty_r in H. exact H.
  Qed.
  Lemma base_ok_div B C d e : base_ok r B d → base_ok r C e → base_ok r (uc_div B C) (uc_div d e).
  Proof.
    intros (WB & MB & EB & DB) (WC & MC & EC & DC). split; [apply wf_div; assumption|]. split.
    { intros k Hk. destruct (uc_div_dom _ _ _ Hk); auto. }
    split; [|apply dim_of_div; assumption].
    pose proof (exact_unit_div _ _ _ _ _ _ WB EB EC) as H. rewrite uc_div_self in H. exact H.
  Qed.
  Lemma base_ok_pow B d q : is_int q = true → base_ok r B d → base_ok r (uc_pow B q) (uc_pow d q).
  Proof.
    intros Hq (WB & MB & EB & DB). split; [apply wf_pow|]. split.
    { intros k Hk. apply MB. eapply uc_pow_dom. exact Hk. }
    split; [|apply dim_of_pow; assumption].
    pose proof (exact_unit_pow _ _ _ _ Hq EB) as H. rewrite uc_pow_empty in H. exact H.
  Qed.
  Lemma base_ok_uinfo B d : base_ok r B d → uinfo r B 1 d.
  Proof.
    intros (WB & MB & EB & DB). split; [exact WB|]. split; [exact MB|]. split; [|exact DB].
    exists ∅, B. split; [exact EB|]. split; [symmetry; apply mprod_empty|]. split; auto.
  Qed.

  Lemma uinfo_empty : uinfo r ∅ 1 ∅.
  Proof. apply base_ok_uinfo. apply base_ok_empty. Qed.
  Lemma uinfo_mul u v f g d e : uinfo r u f d → uinfo r v g e → uinfo r (uc_mul u v) (f * g) (uc_mul d e).
  Proof.
    intros (Wu & Mu & (Fu & Bu & Eu & -> & Ku) & Du) (Wv & Mv & (Fv & Bv & Ev & -> & Kv) & Dv).
    split; [apply wf_mul; assumption|]. split.
    { intros k Hk. destruct (uc_mul_dom _ _ _ Hk); auto. }
    split; [|apply dim_of_mul; assumption].
    exists (uc_mul Fu Fv), (uc_mul Bu Bv). split; [apply exact_unit_mul; assumption|].
    split; [|apply base_ok_mul; assumption]. symmetry. eapply factor_mul; eassumption.
  Qed.
  Lemma uinfo_div u v f g d e : uinfo r u f d → uinfo r v g e → uinfo r (uc_div u v) (f / g) (uc_div d e).
  Proof.
    intros (Wu & Mu & (Fu & Bu & Eu & -> & Ku) & Du) (Wv & Mv & (Fv & Bv & Ev & -> & Kv) & Dv).
    split; [apply wf_div; assumption|]. split.
    { intros k Hk. destruct (uc_div_dom _ _ _ Hk); auto. }
    split; [|apply dim_of_div; assumption].
    exists (uc_div Fu Fv), (uc_div Bu Bv). split; [apply exact_unit_div; assumption|].
    split; [|apply base_ok_div; assumption].
    destruct Eu as (Su & Iu & Gu), Ev as (Sv & Iv & Gv). destruct (rsem_wf _ _ _ _ Su) as [WFu _].
    symmetry. apply mprod_div; try assumption. apply gscale_nz. exact Hnz.
  Qed.
  Lemma uinfo_pow u f d q : is_int q = true → uinfo r u f d → uinfo r (uc_pow u q) (pw f (inum q)) (uc_pow d q).
  Proof.
    intros Hq (Wu & Mu & (Fu & Bu & Eu & -> & Ku) & Du).
    split; [apply wf_pow|]. split.
    { intros k Hk. apply Mu. eapply uc_pow_dom. exact Hk. }
    split; [|apply dim_of_pow; assumption].
    exists (uc_pow Fu q), (uc_pow Bu q). split; [apply exact_unit_pow; assumption|].
    split; [|apply base_ok_pow; assumption].
    destruct Eu as (Su & Iu & Gu).
    symmetry. apply mprod_pow; try assumption. apply gscale_nz. exact Hnz.
  Qed.
  Lemma uinfo_inv u f d : uinfo r u f d → uinfo r (uc_inv u) (/ f) (uc_inv d).
  Proof.
    intros H. pose proof (uinfo_pow u f d (-1)%Qc eq_refl H) as H'.
    replace (pw f (inum (-1))) with (/ f)%Qc in H'; [exact H'|].
    symmetry. change (inum (-1)) with (- (1))%Z. rewrite (pw_opp f 1 (uinfo_nz _ _ _ H)), pw_one. reflexivity.
  Qed.
End Units.

(** * Conversions between exact units *)
Section Conv.
  Context (r : reg) (Hnz : reg_nz r).

  Lemma conv_info u v f g d : uinfo r u f d → uinfo r v g d → ∃ ex, conv_factor r u v = Ok (Some (f / g)%Qc, ex).
  Proof.
    intros (Wu & _ & (Fu & Bu & Eu & -> & _) & Du) (Wv & _ & (Fv & Bv & Ev & -> & _) & Dv).
    eapply conv_factor_value; eassumption.
  Qed.
  Lemma mscale_1 m c : c = 1%Qc → mscale m c = m.
  Proof. intros ->. destruct m; simpl; [f_equal; ring | reflexivity]. Qed.
  Lemma q_to_ok m u v f g d : uinfo r u f d → uinfo r v g d → q_to r (Qn m u) v = Ok (Qn (mscale m (f / g)) v).
  Proof.
    intros Hu Hv. unfold q_to. simpl. destruct (uc_eqb u v) eqn:E.
    - apply uc_eqb_spec in E. subst v. destruct (uinfo_fun r Hnz _ _ _ _ _ Hu Hv) as [<- _].
      rewrite mscale_1; [reflexivity|]. field. eapply uinfo_nz; eassumption.
    - destruct (conv_info _ _ _ _ _ Hu Hv) as [ex ->]. reflexivity.
  Qed.
  Lemma q_to_dimerr m u v f g d e : uinfo r u f d → uinfo r v g e → d ≠ e → q_to r (Qn m u) v = Err EDim.
  Proof.
    intros Hu Hv N. unfold q_to. simpl. destruct (uc_eqb u v) eqn:E.
    - apply uc_eqb_spec in E. subst v. destruct (uinfo_fun r Hnz _ _ _ _ _ Hu Hv) as [_ <-]. contradiction.
    - unfold conv_factor. rewrite (uinfo_dim _ _ _ _ Hu), (uinfo_dim _ _ _ _ Hv). simpl.
      unfold uc_eqb. rewrite bool_decide_eq_false_2 by assumption. reflexivity.
  Qed.
  Lemma is_dimless_info u f d : uinfo r u f d → is_dimless r u = Ok (uc_eqb d ∅).
  Proof. intros H. unfold is_dimless. rewrite (uinfo_dim _ _ _ _ H). reflexivity. Qed.
  Lemma ophys_info m u f d : uinfo r u f d → ophys r (Qty (Qn m u)) = PQ (mscale m f) d.
  Proof.
    intros H. unfold ophys, phys. simpl. rewrite (uinfo_fac_eq r Hnz _ _ _ H), (uinfo_dimv r _ _ _ H). reflexivity.
  Qed.
  (** root units of an exact multiplicative unit *)
  Lemma q_to_root_ok m u f d : uinfo r u f d → ∃ B, q_to_root r (Qn m u) = Ok (Qn (mscale m f) B) ∧ uinfo r B 1 d.
  Proof.
    intros H. pose proof H as (_ & _ & (F & B & (Hs & Hi & Hg) & -> & KB) & _).
    destruct (root_of_from_sem r u F B (Some (mprod (gscale r) F)) Hs) as [ex E].
    { apply eval_factor_exact; assumption. }
    exists B. split; [|apply base_ok_uinfo; assumption].
    unfold q_to_root. simpl. rewrite E. simpl. rewrite (uinfo_nonmult _ _ _ _ H).
    rewrite (q_to_ok m u B _ 1 d H) by (apply base_ok_uinfo; assumption).
    do 2 f_equal. destruct m; simpl; [f_equal; field; discriminate | reflexivity].
  Qed.
End Conv.

(** * Every operator form is a homomorphism into the algebra of physical values.
      The development is parametric in a predicate [P] on factors that is closed under the
      operations on factors ([P := True] for the general theorems, [P := (0 <)] where the sign of
      the factor matters: [abs], ordering). *)
Record pclosed (P : Qc → Prop) : Prop := PClosed {
  HP1 : P 1%Qc; HPm : ∀ a b, P a → P b → P (a * b)%Qc; HPd : ∀ a b, P a → P b → P (a / b)%Qc;
  HPw : ∀ a n, P a → P (pw a n); HPi : ∀ a, P a → P (/ a)%Qc }.
Section WithP.
Context (P : Qc → Prop) (HP : pclosed P).
Definition unit_ok (r : reg) (u : uc) : Prop := ∃ f d, uinfo r u f d ∧ P f.
Definition ogood (r : reg) (o : operand) : Prop :=
  match o with Num _ => True | Qty a => unit_ok r (q_u a) end.
Definition qhom (r : reg) (x : res quantity) (y : res pval) : Prop :=
  match x with Ok q => unit_ok r (q_u q) ∧ y = Ok (ophys r (Qty q)) | Err e => y = Err e end.
Definition ohom (r : reg) (x : res operand) (y : res pval) : Prop :=
  match x with Ok v => ogood r v ∧ y = Ok (ophys r v) | Err e => y = Err e end.

Lemma zero_or_nan_cases n : zero_or_nan n = true → n = Fin 0 ∨ n = NaN.
Proof. destruct n; simpl; [|auto]. intros H. apply qz_spec in H. subst. auto. Qed.
Lemma uc_eqb_refl (a : uc) : uc_eqb a a = true.
Proof. apply uc_eqb_spec. reflexivity. Qed.
Lemma uc_eqb_false (a b : uc) : uc_eqb a b = false ↔ a ≠ b.
Proof. unfold uc_eqb. apply bool_decide_eq_false. Qed.

Ltac mag_simpl :=
  repeat match goal with m : mag |- _ => destruct m end; simpl; try reflexivity.

Section Hom.
  Context (r : reg) (Hnz : reg_nz r).

  Lemma qhom_ok m u f d y : uinfo r u f d → P f → y = Ok (PQ (mscale m f) d) → qhom r (Ok (Qn m u)) y.
  Proof. intros H Pf ->. split; [exists f, d; split; assumption|]. rewrite (ophys_info r Hnz m u f d H). reflexivity. Qed.
  Local Ltac pok := first [assumption | apply (HP1 P HP) | apply (HPm P HP); pok | apply (HPd P HP); pok | apply (HPw P HP); pok | apply (HPi P HP); pok].

  Lemma add_sub_hom sub a o :
    unit_ok r (q_u a) → ogood r o →
    qhom r (q_add_sub r sub a o) (p_add_sub sub (ophys r (Qty a)) (ophys r o)).
  Proof.
    destruct a as [m u]. intros (f & d & Hu & Pf) Ho. cbn [q_u] in Hu. rewrite (ophys_info r Hnz m u f d Hu).
    pose proof (uinfo_nz r Hnz _ _ _ Hu) as Hf.
    unfold q_add_sub. cbn [q_m q_u]. destruct o as [n|[m' v]].
    - cbn [ophys p_add_sub]. destruct (zero_or_nan n) eqn:Z; cbn [orb].
      + eapply qhom_ok; [exact Hu| pok |]. f_equal. f_equal.
        destruct (zero_or_nan_cases n Z) as [-> | ->]; destruct sub, m; simpl; try reflexivity; f_equal; ring.
      + rewrite (is_dimless_info r u f d Hu). cbn [rbind]. destruct (uc_eqb d ∅) eqn:E; [|reflexivity].
        apply uc_eqb_spec in E. subst d.
        rewrite (q_to_ok r Hnz m u ∅ f 1 ∅ Hu (uinfo_empty r)). cbn [rbind q_m].
        eapply qhom_ok; [apply uinfo_empty| pok |]. f_equal. f_equal.
        destruct sub, m, n; simpl; try reflexivity; f_equal; field; discriminate.
    - destruct Ho as (g & e & Hv & Pg). cbn [q_u] in Hv. rewrite (ophys_info r Hnz m' v g e Hv). cbn [p_add_sub].
      pose proof (uinfo_nz r Hnz _ _ _ Hv) as Hg. cbn [q_m q_u].
      rewrite (uinfo_dim _ _ _ _ Hu), (uinfo_dim _ _ _ _ Hv). cbn [rbind].
      destruct (uc_eqb d e) eqn:E; cbn [negb]; [|reflexivity].
      apply uc_eqb_spec in E. subst e.
      rewrite (uinfo_nonmult _ _ _ _ Hu), (uinfo_nonmult _ _ _ _ Hv).
      destruct (uc_eqb u v) eqn:Euv.
      + apply uc_eqb_spec in Euv. subst v. destruct (uinfo_fun r Hnz _ _ _ _ _ Hu Hv) as [<- _].
        eapply qhom_ok; [exact Hu| pok |]. f_equal. f_equal. destruct sub, m, m'; simpl; try reflexivity; f_equal; ring.
      + destruct (has_delta u && negb (has_delta v)).
        * rewrite (q_to_ok r Hnz m u v f g d Hu Hv). cbn [rbind q_m].
          eapply qhom_ok; [exact Hv| pok |]. f_equal. f_equal.
          destruct sub, m, m'; simpl; try reflexivity; f_equal; field; assumption.
        * rewrite (q_to_ok r Hnz m' v u g f d Hv Hu). cbn [rbind q_m].
          eapply qhom_ok; [exact Hu| pok |]. f_equal. f_equal.
          destruct sub, m, m'; simpl; try reflexivity; f_equal; field; assumption.
  Qed.

  (** ** magnitude-level scaling laws *)
  Lemma mscale_div1 m f : mscale m (f / 1) = mscale m f.
  Proof. destruct m; simpl; [f_equal; field; discriminate | reflexivity]. Qed.
  Lemma q_to_empty m u f : uinfo r u f ∅ → q_to r (Qn m u) ∅ = Ok (Qn (mscale m f) ∅).
  Proof. intros H. rewrite (q_to_ok r Hnz m u ∅ f 1 ∅ H (uinfo_empty r)), mscale_div1. reflexivity. Qed.
  Lemma mscale_one m : mscale m 1 = m.
  Proof. apply mscale_1. reflexivity. Qed.
  Lemma mzero_scale m f : f ≠ 0%Qc → mzero (mscale m f) = mzero m.
  Proof. intros H. destruct m; simpl; [apply qz_mult; exact H | reflexivity]. Qed.
  Lemma mdiv_hom m m' f g : f ≠ 0%Qc → g ≠ 0%Qc →
    mdiv (mscale m f) (mscale m' g) = (x ←r mdiv m m'; Ok (mscale x (f / g))).
  Proof.
    intros Hf Hg. destruct m as [x|], m' as [y|]; simpl; rewrite ?qz_mult by assumption; try reflexivity;
      destruct (qz y) eqn:E; simpl; try reflexivity.
    apply qz_false in E. do 2 f_equal. field. auto.
  Qed.
  Lemma mdiv_hom_l m n f : mdiv (mscale m f) n = (x ←r mdiv m n; Ok (mscale x f)).
  Proof.
    destruct m as [x|], n as [y|]; simpl; try reflexivity; destruct (qz y) eqn:E; simpl; try reflexivity.
    apply qz_false in E. do 2 f_equal. field. auto.
  Qed.
  Lemma mdiv_hom_r n m g : g ≠ 0%Qc → mdiv n (mscale m g) = (x ←r mdiv n m; Ok (mscale x (/ g))).
  Proof.
    intros Hg. destruct m as [y|], n as [x|]; simpl; rewrite ?qz_mult by assumption; try reflexivity;
      destruct (qz y) eqn:E; simpl; try reflexivity.
    apply qz_false in E. do 2 f_equal. field. auto.
  Qed.
  Lemma mfloordiv_hom m m' f g : f ≠ 0%Qc → g ≠ 0%Qc →
    mfloordiv m (mscale m' (g / f)) = mfloordiv (mscale m f) (mscale m' g).
  Proof.
    intros Hf Hg. assert (Hc : (g / f)%Qc ≠ 0%Qc) by (apply Qcmult_neq0; [assumption | apply Qcinv_neq0; assumption]).
    destruct m as [x|], m' as [y|]; simpl; rewrite ?qz_mult by assumption; try reflexivity;
      destruct (qz y) eqn:E; simpl; try reflexivity.
    apply qz_false in E. do 3 f_equal. field. auto.
  Qed.
  Lemma mmod_hom m m' f g : f ≠ 0%Qc → g ≠ 0%Qc →
    mmod (mscale m f) (mscale m' g) = (z ←r mmod m (mscale m' (g / f)); Ok (mscale z f)).
  Proof.
    intros Hf Hg. assert (Hc : (g / f)%Qc ≠ 0%Qc) by (apply Qcmult_neq0; [assumption | apply Qcinv_neq0; assumption]).
    destruct m as [x|], m' as [y|]; simpl; rewrite ?qz_mult by assumption; try reflexivity;
      destruct (qz y) eqn:E; simpl; try reflexivity.
    apply qz_false in E. do 2 f_equal.
    replace (x / (y * (g / f)))%Qc with (x * f / (y * g))%Qc by (field; auto).
    field. auto.
  Qed.
  Lemma mmod_hom_l m n f : f ≠ 0%Qc →
    mmod (mscale m f) n = (z ←r mmod m (mscale n (1 / f)); Ok (mscale z f)).
  Proof.
    intros Hf. rewrite <- (mscale_one n) at 1. apply mmod_hom; [assumption | discriminate].
  Qed.
  Lemma Qcpower_mult (a b : Qc) n : Qcpower (a * b) n = (Qcpower a n * Qcpower b n)%Qc.
  Proof. induction n as [|n IH]; simpl; [ring | rewrite IH; ring]. Qed.
  Lemma Qcpower_neq0 (a : Qc) n : a ≠ 0%Qc → Qcpower a n ≠ 0%Qc.
  Proof. intros Ha. induction n as [|n IH]; simpl; [discriminate | apply Qcmult_neq0; assumption]. Qed.
  Lemma mpowZ_hom m f n : f ≠ 0%Qc →
    mpowZ (mscale m f) n = (x ←r mpowZ m n; Ok (mscale x (pw f n))).
  Proof.
    intros Hf. destruct m as [x|]; simpl.
    - destruct n as [|p|p]; simpl.
      + do 2 f_equal; unfold pw; simpl; try ring.
      + do 2 f_equal; unfold pw; simpl; try apply Qcpower_mult.
      + rewrite qz_mult by assumption. destruct (qz x) eqn:E; simpl; [reflexivity|]. apply qz_false in E.
        do 2 f_equal. unfold pw. simpl. rewrite (proj2 (qz_false f) Hf). simpl. rewrite Qcpower_mult.
        field. split; apply Qcpower_neq0; assumption.
    - destruct (n =? 0)%Z eqn:E; simpl; [|reflexivity]. apply Z.eqb_eq in E. subst n. do 2 f_equal; unfold pw; simpl; try ring.
  Qed.

  (** ** [*], [/] *)
  Lemma ok_muldiv_info cfg u f d : uinfo r u f d → ok_for_muldiv cfg r u = true ∧ lone_offset r u = false.
  Proof. intros H. unfold ok_for_muldiv, lone_offset. rewrite (uinfo_nonmult _ _ _ _ H). auto. Qed.
  Lemma mul_div_hom cfg div a o :
    unit_ok r (q_u a) → ogood r o →
    qhom r (q_mul_div cfg r div a o) (p_mul_div div (ophys r (Qty a)) (ophys r o)).
  Proof.
    destruct a as [m u]. intros (f & d & Hu & Pf) Ho. cbn [q_u] in Hu. rewrite (ophys_info r Hnz m u f d Hu).
    pose proof (uinfo_nz r Hnz _ _ _ Hu) as Hf.
    unfold q_mul_div. cbn [q_m q_u]. destruct (ok_muldiv_info cfg u f d Hu) as [-> L]. cbn [negb].
    destruct o as [n|[m' v]].
    - rewrite (uinfo_nonmult _ _ _ _ Hu). cbn [length Nat.eqb andb ophys p_mul_div].
      destruct div; cbn [mmuldiv umuldiv].
      + rewrite uc_div_empty_r, mdiv_hom_l. destruct (mdiv m n); cbn [rbind]; [|reflexivity].
        eapply qhom_ok; [exact Hu | pok | reflexivity].
      + rewrite uc_mul_empty_r. cbn [rbind]. eapply qhom_ok; [exact Hu| pok |]. do 2 f_equal.
        destruct m, n; simpl; try reflexivity. f_equal. ring.
    - destruct Ho as (g & e & Hv & Pg). cbn [q_u] in Hv. rewrite (ophys_info r Hnz m' v g e Hv). cbn [p_mul_div q_u].
      pose proof (uinfo_nz r Hnz _ _ _ Hv) as Hg.
      rewrite L. destruct (ok_muldiv_info cfg v g e Hv) as [-> ->]. cbn [rbind negb q_m q_u].
      destruct div; cbn [mmuldiv umuldiv].
      + rewrite mdiv_hom by assumption. destruct (mdiv m m'); cbn [rbind]; [|reflexivity].
        eapply qhom_ok; [apply uinfo_div; eassumption | pok | reflexivity].
      + cbn [rbind]. eapply qhom_ok; [apply uinfo_mul; eassumption| pok |]. do 2 f_equal.
        destruct m, m'; simpl; try reflexivity. f_equal. ring.
  Qed.
  Lemma rtruediv_hom cfg b n :
    unit_ok r (q_u b) → qhom r (q_rtruediv cfg r b n) (p_mul_div true (PN n) (ophys r (Qty b))).
  Proof.
    destruct b as [m v]. intros (g & e & Hv & Pg). cbn [q_u] in Hv. rewrite (ophys_info r Hnz m v g e Hv).
    pose proof (uinfo_nz r Hnz _ _ _ Hv) as Hg.
    unfold q_rtruediv. cbn [q_m q_u]. destruct (ok_muldiv_info cfg v g e Hv) as [-> ->]. cbn [negb rbind p_mul_div mmuldiv q_m q_u].
    rewrite mdiv_hom_r by assumption. destruct (mdiv n m); cbn [rbind]; [|reflexivity].
    eapply qhom_ok; [apply uinfo_inv; eassumption | pok | reflexivity].
  Qed.
  Definition pwf (x : pval) : Prop := match x with PN _ => True | PQ _ d => wf d end.
  Lemma ophys_wf o : ogood r o → pwf (ophys r o).
  Proof.
    destruct o as [n|[m u]]; [exact (λ _, I)|]. intros (f & d & H & _). cbn [q_u] in H.
    rewrite (ophys_info r Hnz m u f d H). exact (uinfo_wfd r _ _ _ H).
  Qed.
  Lemma mmul_comm x y : mmul x y = mmul y x.
  Proof. destruct x, y; simpl; try reflexivity. f_equal. ring. Qed.
  Lemma madd_comm x y : madd x y = madd y x.
  Proof. destruct x, y; simpl; try reflexivity. f_equal. ring. Qed.
  Lemma p_mul_comm l rt : pwf l → pwf rt → p_mul_div false l rt = p_mul_div false rt l.
  Proof.
    destruct l as [x|x d], rt as [y|y e]; cbn [p_mul_div mmuldiv rbind umuldiv pwf]; intros Wl Wr;
      rewrite (mmul_comm x y); try reflexivity.
    rewrite (uc_mul_comm d e) by assumption. reflexivity.
  Qed.
  Lemma uc_eqb_sym (a b : uc) : uc_eqb a b = uc_eqb b a.
  Proof. destruct (uc_eqb a b) eqn:E.
    - apply uc_eqb_spec in E. subst. symmetry. apply uc_eqb_refl.
    - symmetry. apply uc_eqb_false. apply uc_eqb_false in E. congruence.
  Qed.
  Lemma p_add_comm l rt : p_add_sub false l rt = p_add_sub false rt l.
  Proof.
    destruct l as [x|x d], rt as [y|y e]; cbn [p_add_sub]; rewrite (madd_comm x y); try reflexivity.
    rewrite (uc_eqb_sym d e). destruct (uc_eqb e d) eqn:E; [|reflexivity]. apply uc_eqb_spec in E. subst. reflexivity.
  Qed.
  Definition p_neg (x : pval) : pval := p_un UNeg x.
  Lemma msub_swap x y : msub y x = mneg (msub x y).
  Proof. destruct x, y; simpl; try reflexivity. f_equal. ring. Qed.
  Lemma p_sub_swap l rt : p_add_sub true rt l = (x ←r p_add_sub true l rt; Ok (p_neg x)).
  Proof.
    destruct l as [x|x d], rt as [y|y e]; cbn [p_add_sub]; rewrite (msub_swap x y).
    - reflexivity.
    - destruct (zero_or_nan x || uc_eqb e ∅); reflexivity.
    - destruct (zero_or_nan y || uc_eqb d ∅); reflexivity.
    - rewrite (uc_eqb_sym e d). destruct (uc_eqb d e) eqn:E; [|reflexivity]. apply uc_eqb_spec in E. subst. reflexivity.
  Qed.
  Lemma neg_hom a : unit_ok r (q_u a) → qhom r (Ok (q_neg a)) (Ok (p_neg (ophys r (Qty a)))).
  Proof.
    destruct a as [m u]. intros (f & d & Hu & Pf). cbn [q_u] in Hu. rewrite (ophys_info r Hnz m u f d Hu).
    eapply qhom_ok; [exact Hu| pok |]. cbn. do 2 f_equal. destruct m; simpl; [f_equal; ring | reflexivity].
  Qed.
  Lemma rsub_hom b o :
    unit_ok r (q_u b) → ogood r o →
    qhom r (q_rsub r b o) (p_add_sub true (ophys r o) (ophys r (Qty b))).
  Proof.
    intros Hb Ho. rewrite p_sub_swap. unfold q_rsub.
    pose proof (add_sub_hom true b o Hb Ho) as H. destruct (q_add_sub r true b o) as [x|er]; cbn [qhom rbind] in *.
    - destruct H as [Hx ->]. cbn [rbind]. apply (neg_hom x Hx).
    - rewrite H. reflexivity.
  Qed.
  Lemma radd_hom b o :
    unit_ok r (q_u b) → ogood r o →
    qhom r (q_add_sub r false b o) (p_add_sub false (ophys r o) (ophys r (Qty b))).
  Proof. intros Hb Ho. rewrite p_add_comm. apply add_sub_hom; assumption. Qed.
  Lemma rmul_hom cfg b o :
    unit_ok r (q_u b) → ogood r o →
    qhom r (q_mul_div cfg r false b o) (p_mul_div false (ophys r o) (ophys r (Qty b))).
  Proof.
    intros Hb Ho. rewrite p_mul_comm by (apply ophys_wf; assumption). apply mul_div_hom; assumption.
  Qed.

  (** ** [//], [%], [divmod] *)
  Lemma floordiv_hom a o :
    unit_ok r (q_u a) → ogood r o →
    qhom r (q_floordiv r a o) (p_floordiv (ophys r (Qty a)) (ophys r o)).
  Proof.
    destruct a as [m u]. intros (f & d & Hu & Pf) Ho. cbn [q_u] in Hu. rewrite (ophys_info r Hnz m u f d Hu).
    pose proof (uinfo_nz r Hnz _ _ _ Hu) as Hf.
    unfold q_floordiv. cbn [q_m q_u]. destruct o as [n|[m' v]].
    - cbn [ophys p_floordiv]. rewrite (is_dimless_info r u f d Hu). cbn [rbind].
      destruct (uc_eqb d ∅) eqn:E; [|reflexivity]. apply uc_eqb_spec in E. subst d.
      rewrite (q_to_empty m u f Hu). cbn [rbind q_m].
      destruct (mfloordiv (mscale m f) n); cbn [rbind]; [|reflexivity].
      eapply qhom_ok; [apply uinfo_empty| pok |]. rewrite mscale_one. reflexivity.
    - destruct Ho as (g & e & Hv & Pg). cbn [q_u] in Hv. rewrite (ophys_info r Hnz m' v g e Hv). cbn [p_floordiv].
      pose proof (uinfo_nz r Hnz _ _ _ Hv) as Hg.
      destruct (uc_eqb d e) eqn:E.
      + apply uc_eqb_spec in E. subst e. rewrite (q_to_ok r Hnz m' v u g f d Hv Hu). cbn [rbind q_m].
        rewrite mfloordiv_hom by assumption.
        destruct (mfloordiv (mscale m f) (mscale m' g)); cbn [rbind]; [|reflexivity].
        eapply qhom_ok; [apply uinfo_empty| pok |]. rewrite mscale_one. reflexivity.
      + apply uc_eqb_false in E. rewrite (q_to_dimerr r Hnz m' v u g f e d Hv Hu) by congruence. reflexivity.
  Qed.
  Lemma rfloordiv_num_hom b n :
    unit_ok r (q_u b) → qhom r (q_rfloordiv r b (Num n)) (p_floordiv (PN n) (ophys r (Qty b))).
  Proof.
    destruct b as [m v]. intros (g & e & Hv & Pg). cbn [q_u] in Hv. rewrite (ophys_info r Hnz m v g e Hv).
    unfold q_rfloordiv. cbn [q_m q_u p_floordiv]. rewrite (is_dimless_info r v g e Hv). cbn [rbind].
    destruct (uc_eqb e ∅) eqn:E; [|reflexivity]. apply uc_eqb_spec in E. subst e.
    rewrite (q_to_empty m v g Hv). cbn [rbind q_m].
    destruct (mfloordiv n (mscale m g)); cbn [rbind]; [|reflexivity].
    eapply qhom_ok; [apply uinfo_empty| pok |]. rewrite mscale_one. reflexivity.
  Qed.
  Lemma divmod_hom a o :
    unit_ok r (q_u a) → ogood r o →
    match q_divmod r a o with
    | Ok (q, m) => unit_ok r (q_u q) ∧ unit_ok r (q_u m) ∧
                   p_divmod (ophys r (Qty a)) (ophys r o) = Ok (ophys r (Qty q), ophys r (Qty m))
    | Err e => p_divmod (ophys r (Qty a)) (ophys r o) = Err e
    end.
  Proof.
    destruct a as [m u]. intros (f & d & Hu & Pf) Ho. cbn [q_u] in Hu. rewrite (ophys_info r Hnz m u f d Hu).
    pose proof (uinfo_nz r Hnz _ _ _ Hu) as Hf.
    unfold q_divmod. cbn [q_m q_u]. destruct o as [n|[m' v]].
    - change (ophys r (Num n)) with (PN n). cbn [p_divmod wrap].
      destruct (uc_eqb d ∅) eqn:E.
      + apply uc_eqb_spec in E. subst d.
        rewrite (q_to_ok r Hnz n ∅ u 1 f ∅ (uinfo_empty r) Hu). cbn [rbind q_m].
        replace (mfloordiv m (mscale n (1 / f))) with (mfloordiv (mscale m f) n)
          by (rewrite mfloordiv_hom by (assumption || discriminate); rewrite mscale_one; reflexivity).
        rewrite (mmod_hom_l m n f Hf).
        destruct (mfloordiv (mscale m f) n); cbn [rbind]; [|reflexivity].
        destruct (mmod m (mscale n (1 / f))); cbn [rbind]; [|reflexivity].
        split; [exists 1%Qc, ∅; split; [apply uinfo_empty | exact (HP1 P HP)]|]. split; [exists f, ∅; split; assumption|].
        rewrite (ophys_info r Hnz _ _ _ _ (uinfo_empty r)), (ophys_info r Hnz _ _ _ _ Hu), mscale_one. reflexivity.
      + apply uc_eqb_false in E. rewrite (q_to_dimerr r Hnz n ∅ u 1 f ∅ d (uinfo_empty r) Hu) by congruence. reflexivity.
    - destruct Ho as (g & e & Hv & Pg). cbn [q_u] in Hv. rewrite (ophys_info r Hnz m' v g e Hv). cbn [p_divmod wrap].
      pose proof (uinfo_nz r Hnz _ _ _ Hv) as Hg.
      destruct (uc_eqb d e) eqn:E.
      + apply uc_eqb_spec in E. subst e. rewrite (q_to_ok r Hnz m' v u g f d Hv Hu). cbn [rbind q_m].
        rewrite mfloordiv_hom by assumption. rewrite (mmod_hom m m' f g Hf Hg).
        destruct (mfloordiv (mscale m f) (mscale m' g)); cbn [rbind]; [|reflexivity].
        destruct (mmod m (mscale m' (g / f))); cbn [rbind]; [|reflexivity].
        split; [exists 1%Qc, ∅; split; [apply uinfo_empty | exact (HP1 P HP)]|]. split; [exists f, d; split; assumption|].
        rewrite (ophys_info r Hnz _ _ _ _ (uinfo_empty r)), (ophys_info r Hnz _ _ _ _ Hu), mscale_one. reflexivity.
      + apply uc_eqb_false in E. rewrite (q_to_dimerr r Hnz m' v u g f e d Hv Hu) by congruence. reflexivity.
  Qed.

  Lemma mod_of_divmod x y : mmod x y = (q ←r mfloordiv x y; m ←r mmod x y; Ok m).
  Proof. destruct x as [x|], y as [y|]; simpl; try reflexivity; destruct (qz y); reflexivity. Qed.
  Lemma floordiv_of_divmod x y : mfloordiv x y = (q ←r mfloordiv x y; m ←r mmod x y; Ok q).
  Proof. destruct x as [x|], y as [y|]; simpl; try reflexivity; destruct (qz y); reflexivity. Qed.
  Lemma q_mod_divmod a o : q_mod r a o = (x ←r q_divmod r a o; Ok x.2).
  Proof.
    unfold q_mod, q_divmod. destruct (q_to r (wrap o) (q_u a)) as [b'|]; cbn [rbind]; [|reflexivity].
    rewrite mod_of_divmod. destruct (mfloordiv (q_m a) (q_m b')); cbn [rbind]; [|reflexivity].
    destruct (mmod (q_m a) (q_m b')); reflexivity.
  Qed.
  Lemma p_mod_divmod l rt : p_mod l rt = (x ←r p_divmod l rt; Ok x.2).
  Proof.
    destruct l as [x|x d], rt as [y|y e]; cbn [p_mod p_divmod]; try (destruct (uc_eqb _ _); [|reflexivity]);
      rewrite mod_of_divmod; destruct (mfloordiv x y); cbn [rbind]; try reflexivity; destruct (mmod x y); reflexivity.
  Qed.
  Lemma mod_hom a o :
    unit_ok r (q_u a) → ogood r o → qhom r (q_mod r a o) (p_mod (ophys r (Qty a)) (ophys r o)).
  Proof.
    intros Ha Ho. rewrite q_mod_divmod, p_mod_divmod. pose proof (divmod_hom a o Ha Ho) as H.
    destruct (q_divmod r a o) as [[q m]|er]; cbn [rbind qhom].
    - destruct H as (_ & Hm & ->). cbn [rbind snd]. auto.
    - rewrite H. reflexivity.
  Qed.
  (** reflected forms with a bare left operand *)
  Lemma rdivmod_num_hom b n :
    unit_ok r (q_u b) →
    match q_rdivmod r b (Num n) with
    | Ok (q, m) => unit_ok r (q_u q) ∧ unit_ok r (q_u m) ∧
                   p_divmod (PN n) (ophys r (Qty b)) = Ok (ophys r (Qty q), ophys r (Qty m))
    | Err e => p_divmod (PN n) (ophys r (Qty b)) = Err e
    end.
  Proof.
    destruct b as [m v]. intros (g & e & Hv & Pg). cbn [q_u] in Hv. rewrite (ophys_info r Hnz m v g e Hv).
    unfold q_rdivmod. cbn [q_m q_u p_divmod]. rewrite (is_dimless_info r v g e Hv). cbn [rbind].
    destruct (uc_eqb e ∅) eqn:E; [|reflexivity]. apply uc_eqb_spec in E. subst e.
    rewrite (q_to_empty m v g Hv). cbn [rbind q_m].
    destruct (mfloordiv n (mscale m g)); cbn [rbind]; [|reflexivity].
    destruct (mmod n (mscale m g)); cbn [rbind]; [|reflexivity].
    split; [exists 1%Qc, ∅; split; [apply uinfo_empty | exact (HP1 P HP)]|]. split; [exists 1%Qc, ∅; split; [apply uinfo_empty | exact (HP1 P HP)]|].
    rewrite !(ophys_info r Hnz _ _ _ _ (uinfo_empty r)), !mscale_one. reflexivity.
  Qed.
  Lemma q_rmod_rdivmod b n : q_rmod r b (Num n) = (x ←r q_rdivmod r b (Num n); Ok x.2).
  Proof.
    unfold q_rmod, q_rdivmod. destruct (is_dimless r (q_u b)) as [[|]|]; cbn [rbind]; try reflexivity.
    destruct (q_to r b ∅) as [b'|]; cbn [rbind]; [|reflexivity].
    rewrite mod_of_divmod. destruct (mfloordiv n (q_m b')); cbn [rbind]; [|reflexivity].
    destruct (mmod n (q_m b')); reflexivity.
  Qed.
  Lemma rmod_num_hom b n :
    unit_ok r (q_u b) → qhom r (q_rmod r b (Num n)) (p_mod (PN n) (ophys r (Qty b))).
  Proof.
    intros Hb. rewrite q_rmod_rdivmod, p_mod_divmod. pose proof (rdivmod_num_hom b n Hb) as H.
    destruct (q_rdivmod r b (Num n)) as [[q m]|er]; cbn [rbind qhom].
    - destruct H as (_ & Hm & ->). cbn [rbind snd]. auto.
    - rewrite H. reflexivity.
  Qed.

  (** ** powers *)
  Lemma meq_scale m f : f ≠ 0%Qc → meq (mscale m f) (Fin 0) = meq m (Fin 0).
  Proof.
    intros Hf. destruct m as [x|]; simpl; [|reflexivity].
    destruct (bool_decide (x = 0%Qc)) eqn:E.
    - apply bool_decide_eq_true in E. subst. apply bool_decide_eq_true. ring.
    - apply bool_decide_eq_false in E. apply bool_decide_eq_false. apply Qcmult_neq0; assumption.
  Qed.
  Lemma o_eq_one o : ogood r o → o_eq_num r o (Fin 1) = Ok (p_is_one (ophys r o)).
  Proof.
    destruct o as [n|[m v]]; [reflexivity|]. intros (g & e & Hv & Pg). cbn [q_u] in Hv.
    rewrite (ophys_info r Hnz m v g e Hv). cbn [o_eq_num p_is_one]. unfold q_eq_num.
    change (zero_or_nan (Fin 1)) with false. cbn [q_u q_m]. rewrite (is_dimless_info r v g e Hv). cbn [rbind].
    destruct (uc_eqb e ∅) eqn:E; [|reflexivity]. apply uc_eqb_spec in E. subst e.
    rewrite (q_to_empty m v g Hv). reflexivity.
  Qed.
  Lemma o_eq_zero o : ogood r o → o_eq_num r o (Fin 0) = Ok (p_is_zero (ophys r o)).
  Proof.
    destruct o as [n|[m v]]; [reflexivity|]. intros (g & e & Hv & Pg). cbn [q_u] in Hv.
    rewrite (ophys_info r Hnz m v g e Hv). cbn [o_eq_num p_is_zero]. unfold q_eq_num.
    change (zero_or_nan (Fin 0)) with true. cbn [q_m]. rewrite (meq_scale m g) by (eapply uinfo_nz; eassumption).
    reflexivity.
  Qed.
  Lemma exponent_hom o : ogood r o → exponent_of r o = p_exponent (ophys r o).
  Proof.
    destruct o as [n|[m v]]; [reflexivity|]. intros (g & e & Hv & Pg). cbn [q_u] in Hv.
    rewrite (ophys_info r Hnz m v g e Hv). cbn [exponent_of p_exponent q_u]. rewrite (is_dimless_info r v g e Hv). cbn [rbind].
    destruct (uc_eqb e ∅); [|reflexivity].
    destruct (q_to_root_ok r Hnz m v g e Hv) as (B & -> & _). reflexivity.
  Qed.
  Lemma pow_core_hom m u f d e :
    uinfo r u f d → P f →
    qhom r (pow_core (Qn m u) e)
         (match e with Fin q => x ←r mpow (mscale m f) e; Ok (PQ x (uc_pow d q)) | NaN => Err EIrrational end).
  Proof.
    intros Hu Pf. destruct e as [q|]; [|reflexivity]. unfold pow_core. cbn [q_m q_u mpow].
    destruct (is_int q) eqn:Hq; [|reflexivity].
    rewrite (mpowZ_hom m f _ (uinfo_nz r Hnz _ _ _ Hu)).
    destruct (mpowZ m (Qnum (this q))); cbn [rbind]; [|reflexivity].
    eapply qhom_ok; [apply (uinfo_pow r Hnz u f d q Hq Hu) | pok | reflexivity].
  Qed.
  Lemma pow_hom a o :
    unit_ok r (q_u a) → ogood r o → qhom r (q_pow r a o) (p_pow (ophys r (Qty a)) (ophys r o)).
  Proof.
    destruct a as [m u]. intros (f & d & Hu & Pf) Ho. cbn [q_u] in Hu. rewrite (ophys_info r Hnz m u f d Hu).
    unfold q_pow. cbn [p_pow]. rewrite (o_eq_one o Ho). cbn [rbind].
    destruct (p_is_one (ophys r o)).
    { eapply qhom_ok; [exact Hu | pok | reflexivity]. }
    rewrite (o_eq_zero o Ho). cbn [rbind]. destruct (p_is_zero (ophys r o)).
    { replace (mpowZ (q_m (Qn m u)) 0) with (@Ok mag (Fin 1)) by (destruct m; reflexivity). cbn [rbind].
      eapply qhom_ok; [apply uinfo_empty| pok |]. rewrite mscale_one. reflexivity. }
    cbn [q_u]. rewrite (uinfo_nonmult _ _ _ _ Hu). rewrite bool_decide_eq_true_2 by reflexivity. cbn [negb].
    rewrite (exponent_hom o Ho). destruct (p_exponent (ophys r o)) as [e|er]; cbn [rbind]; [|reflexivity].
    apply pow_core_hom; assumption.
  Qed.
  Lemma rpow_hom b n :
    unit_ok r (q_u b) →
    match q_rpow r b n with
    | Ok x => p_pow (PN n) (ophys r (Qty b)) = Ok (PN x)
    | Err e => p_pow (PN n) (ophys r (Qty b)) = Err e
    end.
  Proof.
    destruct b as [m v]. intros (g & e & Hv & Pg). cbn [q_u] in Hv. rewrite (ophys_info r Hnz m v g e Hv).
    unfold q_rpow. cbn [q_u p_pow]. rewrite (is_dimless_info r v g e Hv). cbn [rbind].
    destruct (uc_eqb e ∅); [|reflexivity].
    destruct (q_to_root_ok r Hnz m v g e Hv) as (B & -> & _). cbn [rbind q_m].
    destruct (mpow n (mscale m g)); reflexivity.
  Qed.

  (** ** negation, abs *)
  Lemma qneg_spec x : qneg x = true ↔ (x < 0)%Qc.
  Proof. unfold qneg, Qclt, Qlt. simpl. rewrite Z.ltb_lt. lia. Qed.
  Lemma qneg_scale x f : (0 < f)%Qc → qneg (x * f) = qneg x.
  Proof.
    intros Hf. destruct (qneg x) eqn:E.
    - apply qneg_spec. apply qneg_spec in E. replace 0%Qc with (0 * f)%Qc by ring.
      apply Qcmult_lt_compat_r; assumption.
    - destruct (qneg (x * f)) eqn:E2; [|reflexivity]. exfalso.
      apply qneg_spec in E2. assert (Hx : ¬ (x < 0)%Qc) by (rewrite <- qneg_spec, E; discriminate).
      apply Qcnot_lt_le in Hx. apply (Qcle_not_lt _ _ (Qcmult_le_compat_r 0 x f Hx (Qclt_le_weak _ _ Hf))).
      replace (0 * f)%Qc with 0%Qc by ring. exact E2.
  Qed.
  Lemma mabs_scale m f : (0 < f)%Qc → mscale (mabs m) f = mabs (mscale m f).
  Proof.
    intros Hf. destruct m as [x|]; simpl; [|reflexivity]. rewrite (qneg_scale x f Hf).
    destruct (qneg x); f_equal; ring.
  Qed.
  Lemma un_hom op x :
    (op = UAbs → ∀ f, P f → (0 < f)%Qc) → ogood r x →
    ogood r (apply_un op x) ∧ ophys r (apply_un op x) = p_un op (ophys r x).
  Proof.
    intros Hp. destruct x as [n|[m u]]; [split; [exact I | reflexivity]|].
    intros (f & d & Hu & Pf). cbn [q_u] in Hu.
    assert (G : ∀ m', ogood r (Qty (Qn m' u))) by (intros m'; exists f, d; split; assumption).
    rewrite (ophys_info r Hnz m u f d Hu). destruct op.
    - change (apply_un UNeg (Qty (Qn m u))) with (Qty (Qn (mneg m) u)). split; [apply G|].
      rewrite (ophys_info r Hnz (mneg m) u f d Hu). cbn [p_un]. f_equal.
      destruct m; simpl; [f_equal; ring | reflexivity].
    - change (apply_un UAbs (Qty (Qn m u))) with (Qty (Qn (mabs m) u)). split; [apply G|].
      rewrite (ophys_info r Hnz (mabs m) u f d Hu). cbn [p_un]. f_equal.
      apply mabs_scale. apply (Hp eq_refl f Pf).
    - change (apply_un UPos (Qty (Qn m u))) with (Qty (Qn m u)). split; [apply G|].
      rewrite (ophys_info r Hnz m u f d Hu). reflexivity.
  Qed.

  (** ** the three operator forms *)
  Lemma lift_q x y : qhom r x y → ohom r (q ←r x; Ok (Qty q)) y.
  Proof. destruct x; exact id. Qed.
  Lemma q_bin_hom cfg op a o :
    unit_ok r (q_u a) → ogood r o → ohom r (q_bin cfg r op a o) (p_bin op (ophys r (Qty a)) (ophys r o)).
  Proof.
    intros Ha Ho. destruct op; cbn [q_bin p_bin].
    - apply lift_q. apply add_sub_hom; assumption.
    - apply lift_q. apply add_sub_hom; assumption.
    - apply lift_q. apply mul_div_hom; assumption.
    - apply lift_q. apply mul_div_hom; assumption.
    - apply lift_q. apply floordiv_hom; assumption.
    - apply lift_q. apply mod_hom; assumption.
    - pose proof (divmod_hom a o Ha Ho) as H. destruct (q_divmod r a o) as [[q m]|]; cbn [rbind ohom].
      + destruct H as (Hq & _ & ->). auto.
      + rewrite H. reflexivity.
    - pose proof (divmod_hom a o Ha Ho) as H. destruct (q_divmod r a o) as [[q m]|]; cbn [rbind ohom].
      + destruct H as (_ & Hm & ->). auto.
      + rewrite H. reflexivity.
    - apply lift_q. apply pow_hom; assumption.
  Qed.
  Lemma rfloordiv_qty a b : q_rfloordiv r b (Qty a) = q_floordiv r a (Qty b).
  Proof. reflexivity. Qed.
  Lemma rmod_qty a b : q_rmod r b (Qty a) = q_mod r a (Qty b).
  Proof. reflexivity. Qed.
  Lemma rdivmod_qty a b : q_rdivmod r b (Qty a) = q_divmod r a (Qty b).
  Proof. reflexivity. Qed.
  Lemma not_a_path_qq op a b :
    not_a_path op FRefl (ophys r (Qty a)) (ophys r (Qty b)) = match op with ODiv | OPow => true | _ => false end.
  Proof. reflexivity. Qed.
  Lemma p_apply_refl cfg op l rt :
    p_apply cfg op FRefl l rt = if not_a_path op FRefl l rt then Err EType else p_bin op l rt.
  Proof. unfold p_apply, f80_case. rewrite andb_false_r. reflexivity. Qed.
  Lemma q_rbin_num_hom cfg op b n :
    unit_ok r (q_u b) → ohom r (q_rbin cfg r op b (Num n)) (p_bin op (PN n) (ophys r (Qty b))).
  Proof.
    intros Hb. destruct op; cbn [q_rbin p_bin].
    - apply lift_q. apply (radd_hom b (Num n) Hb I).
    - apply lift_q. apply (rsub_hom b (Num n) Hb I).
    - apply lift_q. apply (rmul_hom cfg b (Num n) Hb I).
    - apply lift_q. apply rtruediv_hom; assumption.
    - apply lift_q. apply rfloordiv_num_hom; assumption.
    - apply lift_q. apply rmod_num_hom; assumption.
    - pose proof (rdivmod_num_hom b n Hb) as H. destruct (q_rdivmod r b (Num n)) as [[q m]|]; cbn [rbind ohom].
      + destruct H as (Hq & _ & ->). auto.
      + rewrite H. reflexivity.
    - pose proof (rdivmod_num_hom b n Hb) as H. destruct (q_rdivmod r b (Num n)) as [[q m]|]; cbn [rbind ohom].
      + destruct H as (_ & Hm & ->). auto.
      + rewrite H. reflexivity.
    - pose proof (rpow_hom b n Hb) as H. destruct (q_rpow r b n) as [m|]; cbn [rbind ohom].
      + split; [exact I|]. rewrite H. reflexivity.
      + exact H.
  Qed.
  Lemma q_rbin_qty_hom cfg op b a :
    unit_ok r (q_u b) → unit_ok r (q_u a) →
    ohom r (q_rbin cfg r op b (Qty a))
         (if match op with ODiv | OPow => true | _ => false end then Err EType
          else p_bin op (ophys r (Qty a)) (ophys r (Qty b))).
  Proof.
    intros Hb Ho. destruct op; cbn [q_rbin p_bin].
    - apply lift_q. apply (radd_hom b (Qty a) Hb Ho).
    - apply lift_q. apply (rsub_hom b (Qty a) Hb Ho).
    - apply lift_q. apply (rmul_hom cfg b (Qty a) Hb Ho).
    - reflexivity.
    - rewrite rfloordiv_qty. apply lift_q. apply (floordiv_hom a (Qty b) Ho Hb).
    - rewrite rmod_qty. apply lift_q. apply (mod_hom a (Qty b) Ho Hb).
    - rewrite rdivmod_qty. pose proof (divmod_hom a (Qty b) Ho Hb) as H.
      destruct (q_divmod r a (Qty b)) as [[q m]|]; cbn [rbind ohom].
      + destruct H as (Hq & _ & ->). auto.
      + rewrite H. reflexivity.
    - rewrite rdivmod_qty. pose proof (divmod_hom a (Qty b) Ho Hb) as H.
      destruct (q_divmod r a (Qty b)) as [[q m]|]; cbn [rbind ohom].
      + destruct H as (_ & Hm & ->). auto.
      + rewrite H. reflexivity.
    - reflexivity.
  Qed.
  Lemma q_rbin_hom cfg op b o :
    unit_ok r (q_u b) → ogood r o →
    ohom r (q_rbin cfg r op b o) (p_apply cfg op FRefl (ophys r o) (ophys r (Qty b))).
  Proof.
    intros Hb Ho. rewrite p_apply_refl. destruct o as [n|a].
    - apply (q_rbin_num_hom cfg op b n Hb).
    - rewrite not_a_path_qq. apply (q_rbin_qty_hom cfg op b a Hb Ho).
  Qed.

  (** ** in-place forms compute what the plain forms compute *)
  Lemma q_to_units a dst a' : q_to r a dst = Ok a' → q_u a' = dst.
  Proof.
    unfold q_to. destruct (uc_eqb (q_u a) dst); [intros [= <-]; reflexivity|].
    destruct (conv_factor r (q_u a) dst) as [[[f|] ex]|]; cbn [rbind]; try discriminate. intros [= <-]. reflexivity.
  Qed.
  Lemma iadd_sub_agree sub a o : q_iadd_sub r sub a o = (x ←r q_add_sub r sub a o; Ok (x, o)).
  Proof.
    unfold q_iadd_sub, q_add_sub. destruct o as [n|b].
    - destruct (zero_or_nan n); [reflexivity|]. destruct (is_dimless r (q_u a)) as [[|]|]; cbn [rbind]; try reflexivity.
      destruct (q_to r a ∅) as [a'|] eqn:E; cbn [rbind]; [|reflexivity]. rewrite (q_to_units _ _ _ E). reflexivity.
    - destruct (dim_of r (q_u a)) as [da|]; cbn [rbind]; [|reflexivity].
      destruct (dim_of r (q_u b)) as [db|]; cbn [rbind]; [|reflexivity].
      destruct (negb (uc_eqb da db)); [reflexivity|].
      destruct (nonmult_units r (q_u a)) as [|? ?]; [|reflexivity].
      destruct (nonmult_units r (q_u b)) as [|? ?]; [|reflexivity].
      destruct (uc_eqb (q_u a) (q_u b)); [reflexivity|].
      destruct (has_delta (q_u a) && negb (has_delta (q_u b))).
      + destruct (q_to r a (q_u b)); reflexivity.
      + destruct (q_to r b (q_u a)); reflexivity.
  Qed.
  Lemma imul_div_agree cfg div a o : (x ←r q_imul_div cfg r div a o; Ok x.1) = q_mul_div cfg r div a o.
  Proof.
    unfold q_imul_div, q_mul_div. destruct o as [n|b].
    - destruct (negb (ok_for_muldiv cfg r (q_u a))); [reflexivity|].
      destruct (Nat.eqb (length (nonmult_units r (q_u a))) 1 && div); [reflexivity|].
      destruct (mmuldiv div (q_m a) n); reflexivity.
    - destruct (negb (ok_for_muldiv cfg r (q_u a))); [reflexivity|].
      destruct (if lone_offset r (q_u a) then q_to_root r a else Ok a) as [a1|]; cbn [rbind]; [|reflexivity].
      destruct (negb (ok_for_muldiv cfg r (q_u b))); [reflexivity|].
      destruct (if lone_offset r (q_u b) then q_to_root r b else Ok b) as [b1|]; cbn [rbind]; [|reflexivity].
      destruct (mmuldiv div (q_m a1) (q_m b1)); reflexivity.
  Qed.
  Lemma ifloordiv_agree a o : q_ifloordiv r a o = (x ←r q_floordiv r a o; Ok (x, o)).
  Proof.
    unfold q_ifloordiv, q_floordiv. destruct o as [n|b].
    - destruct (is_dimless r (q_u a)) as [[|]|]; cbn [rbind]; try reflexivity.
      destruct (q_to r a ∅) as [a'|]; cbn [rbind]; [|reflexivity]. destruct (mfloordiv (q_m a') n); reflexivity.
    - destruct (q_to r b (q_u a)) as [b'|]; cbn [rbind]; [|reflexivity]. destruct (mfloordiv (q_m a) (q_m b')); reflexivity.
  Qed.
  Lemma imod_agree a o : q_imod r a o = (x ←r q_mod r a o; Ok (x, o)).
  Proof.
    unfold q_imod, q_mod. destruct (q_to r (wrap o) (q_u a)) as [b'|]; cbn [rbind]; [|reflexivity].
    destruct (mmod (q_m a) (q_m b')); reflexivity.
  Qed.
  (** [**=] differs from [**] exactly where F80 strikes *)
  Definition f80_hit (cfg : qcfg) (o : operand) : bool :=
    c_f80 cfg &&
    match o with
    | Qty _ => match o_eq_num r o (Fin 1), o_eq_num r o (Fin 0) with Ok false, Ok true => true | _, _ => false end
    | Num _ => false
    end.
  Lemma ipow_agree cfg a o : f80_hit cfg o = false → q_ipow cfg r a o = (x ←r q_pow r a o; Ok (x, o)).
  Proof.
    unfold f80_hit, q_ipow, q_pow. intros H.
    destruct (o_eq_num r o (Fin 1)) as [[|]|]; cbn [rbind]; try reflexivity.
    destruct (o_eq_num r o (Fin 0)) as [[|]|]; cbn [rbind]; try reflexivity.
    - destruct o as [n|b].
      + destruct (mpowZ (q_m a) 0); reflexivity.
      + rewrite andb_true_r in H. rewrite H. destruct (mpowZ (q_m a) 0); reflexivity.
    - destruct (negb (bool_decide (nonmult_units r (q_u a) = []))); [reflexivity|].
      destruct (exponent_of r o) as [e|]; cbn [rbind]; [|reflexivity]. destruct (pow_core a e); reflexivity.
  Qed.
  Lemma ibin_agree cfg op a o :
    (op = OPow → f80_hit cfg o = false) → (x ←r q_ibin cfg r op a o; Ok x.1) = q_bin cfg r op a o.
  Proof.
    intros H. destruct op; cbn [q_ibin q_bin].
    - rewrite iadd_sub_agree. destruct (q_add_sub r false a o); reflexivity.
    - rewrite iadd_sub_agree. destruct (q_add_sub r true a o); reflexivity.
    - rewrite <- imul_div_agree. destruct (q_imul_div cfg r false a o); reflexivity.
    - rewrite <- imul_div_agree. destruct (q_imul_div cfg r true a o); reflexivity.
    - rewrite ifloordiv_agree. destruct (q_floordiv r a o); reflexivity.
    - rewrite imod_agree. destruct (q_mod r a o); reflexivity.
    - destruct (q_divmod r a o); reflexivity.
    - destruct (q_divmod r a o); reflexivity.
    - rewrite (ipow_agree cfg a o (H eq_refl)). destruct (q_pow r a o); reflexivity.
  Qed.
  Lemma f80_hit_phys cfg a o :
    unit_ok r (q_u a) → ogood r o →
    f80_hit cfg o = f80_case cfg OPow FInpl (ophys r (Qty a)) (ophys r o).
  Proof.
    intros Ha Ho. unfold f80_hit, f80_case. f_equal. destruct o as [n|b]; [reflexivity|].
    rewrite (o_eq_one _ Ho), (o_eq_zero _ Ho). cbn [ophys].
    destruct (p_is_one _), (p_is_zero _); reflexivity.
  Qed.

  Lemma num_bin_hom op x y : ohom r (m ←r num_bin op x y; Ok (Num m)) (p_bin op (PN x) (PN y)).
  Proof.
    destruct op; cbn [num_bin p_bin p_add_sub p_mul_div p_floordiv p_mod p_divmod p_pow mmuldiv rbind ohom].
    - split; [exact I | reflexivity].
    - split; [exact I | reflexivity].
    - split; [exact I | reflexivity].
    - destruct (mdiv x y); cbn [rbind ohom]; [split; [exact I | reflexivity] | reflexivity].
    - destruct (mfloordiv x y); cbn [rbind ohom]; [split; [exact I | reflexivity] | reflexivity].
    - destruct (mmod x y); cbn [rbind ohom]; [split; [exact I | reflexivity] | reflexivity].
    - rewrite (floordiv_of_divmod x y) at 1.
      destruct (mfloordiv x y); cbn [rbind ohom]; [|reflexivity].
      destruct (mmod x y); cbn [rbind ohom]; [split; [exact I | reflexivity] | reflexivity].
    - rewrite (mod_of_divmod x y) at 1.
      destruct (mfloordiv x y); cbn [rbind ohom]; [|reflexivity].
      destruct (mmod x y); cbn [rbind ohom]; [split; [exact I | reflexivity] | reflexivity].
    - destruct (mpow x y); cbn [rbind ohom]; [split; [exact I | reflexivity] | reflexivity].
  Qed.

  Lemma f80_case_num_l cfg op f x rt : f80_case cfg op f (PN x) rt = false.
  Proof. unfold f80_case. destruct f, op; rewrite ?andb_false_r; reflexivity. Qed.
  Lemma f80_case_not_inpl cfg op f l rt : f ≠ FInpl → f80_case cfg op f l rt = false.
  Proof. unfold f80_case. destruct f; try contradiction; rewrite ?andb_false_r; reflexivity. Qed.
  Lemma not_a_path_num_num op f x y : f ≠ FRefl → not_a_path op f (PN x) (PN y) = false.
  Proof. destruct f; try contradiction; reflexivity. Qed.
  Lemma not_a_path_l_qty op f l y e : f ≠ FRefl → not_a_path op f l (PQ y e) = false.
  Proof. destruct f; try contradiction; destruct l; reflexivity. Qed.
  Lemma not_a_path_plain op f l rt : f ≠ FRefl → not_a_path op f l rt = false.
  Proof. destruct f; try contradiction; destruct l, rt; reflexivity. Qed.

  (** ** Python's dispatch *)
  Theorem apply_bin_hom cfg op f l rt :
    ogood r l → ogood r rt →
    ohom r (apply_bin cfg r op f l rt) (p_apply cfg op f (ophys r l) (ophys r rt)).
  Proof.
    intros Hl Hr.
    assert (Plain : ∀ f', f' ≠ FRefl → (f' = FInpl → ∃ x, l = Num x) →
              ohom r (match l, rt with
                      | Qty a, _ => q_bin cfg r op a rt
                      | Num x, Qty b => q_rbin cfg r op b (Num x)
                      | Num x, Num y => m ←r num_bin op x y; Ok (Num m)
                      end) (p_apply cfg op f' (ophys r l) (ophys r rt))).
    { intros f' Nf Hi. unfold p_apply. rewrite (not_a_path_plain op f' _ _ Nf). destruct l as [x|a].
      - change (ophys r (Num x)) with (PN x). rewrite f80_case_num_l. destruct rt as [y|b].
        + apply num_bin_hom.
        + pose proof (q_rbin_hom cfg op b (Num x) Hr I) as H. rewrite p_apply_refl in H.
          change (ophys r (Num x)) with (PN x) in H.
          replace (not_a_path op FRefl (PN x) (ophys r (Qty b))) with false in H by reflexivity. exact H.
      - rewrite f80_case_not_inpl.
        + apply q_bin_hom; assumption.
        + intros ->. destruct (Hi eq_refl) as [x Hx]. discriminate Hx. }
    destruct f.
    - change (apply_bin cfg r op FPlain l rt) with
        (match l, rt with Qty a, _ => q_bin cfg r op a rt | Num x, Qty b => q_rbin cfg r op b (Num x)
                        | Num x, Num y => m ←r num_bin op x y; Ok (Num m) end).
      apply Plain; [discriminate | discriminate].
    - destruct rt as [y|b].
      + cbn [apply_bin]. unfold p_apply. cbn [ophys not_a_path]. destruct l; reflexivity.
      + replace (apply_bin cfg r op FRefl l (Qty b)) with (q_rbin cfg r op b l) by (destruct l; reflexivity).
        apply q_rbin_hom; assumption.
    - destruct l as [x|a].
      + change (apply_bin cfg r op FInpl (Num x) rt) with
          (match Num x, rt with Qty a, _ => q_bin cfg r op a rt | Num x, Qty b => q_rbin cfg r op b (Num x)
                          | Num x, Num y => m ←r num_bin op x y; Ok (Num m) end).
        apply Plain; [discriminate | eauto].
      + cbn [apply_bin].
        destruct (f80_case cfg op FInpl (ophys r (Qty a)) (ophys r rt)) eqn:E80.
        * (* F80: zero-valued Quantity exponent *)
          assert (op = OPow) as -> by (unfold f80_case in E80; destruct op; cbn in E80; rewrite ?andb_false_r in E80; try discriminate; reflexivity).
          rewrite <- (f80_hit_phys cfg a rt Hl Hr) in E80.
          unfold p_apply. rewrite (f80_hit_phys cfg a rt Hl Hr) in E80. rewrite E80.
          replace (not_a_path OPow FInpl (ophys r (Qty a)) (ophys r rt)) with false by (cbn [ophys not_a_path]; destruct (ophys r rt); reflexivity).
          rewrite <- (f80_hit_phys cfg a rt Hl Hr) in E80. unfold f80_hit in E80.
          apply andb_true_iff in E80 as [C E80]. destruct rt as [n|b]; [discriminate|].
          cbn [q_ibin]. unfold q_ipow.
          destruct (o_eq_num r (Qty b) (Fin 1)) as [[|]|]; try discriminate.
          destruct (o_eq_num r (Qty b) (Fin 0)) as [[|]|]; try discriminate.
          cbn [rbind]. rewrite C. reflexivity.
        * assert (Hh : op = OPow → f80_hit cfg rt = false) by (intros ->; rewrite (f80_hit_phys cfg a rt Hl Hr); exact E80).
          rewrite (ibin_agree cfg op a rt Hh).
          replace (p_apply cfg op FInpl (ophys r (Qty a)) (ophys r rt)) with (p_bin op (ophys r (Qty a)) (ophys r rt)).
          { apply q_bin_hom; assumption. }
          unfold p_apply. rewrite E80. cbn [ophys not_a_path]. destruct (ophys r rt); reflexivity.
  Qed.
End Hom.

(** * Expression trees *)
Section Trees.
  Context (r : reg) (Hnz : reg_nz r).

  Theorem eval_hom cfg (t : expr operand) :
    (uses_abs t = true → ∀ f, P f → (0 < f)%Qc) → Forall (ogood r) (eleaves t) →
    ohom r (eval cfg r t) (peval cfg (emap (ophys r) t)).
  Proof.
    induction t as [x|op f l IHl rt IHr|op e IHe]; cbn [uses_abs eleaves eval peval emap]; intros Hp Hg.
    - rewrite Forall_singleton in Hg. split; [exact Hg | reflexivity].
    - rewrite Forall_app in Hg. destruct Hg as [Hgl Hgr].
      specialize (IHl (λ H, Hp (orb_true_intro _ _ (or_introl H))) Hgl).
      specialize (IHr (λ H, Hp (orb_true_intro _ _ (or_intror H))) Hgr).
      destruct (eval cfg r l) as [a|]; cbn [ohom rbind] in *.
      + destruct IHl as [Ga ->]. cbn [rbind]. destruct (eval cfg r rt) as [b|]; cbn [ohom rbind] in *.
        * destruct IHr as [Gb ->]. cbn [rbind]. apply apply_bin_hom; assumption.
        * rewrite IHr. reflexivity.
      + rewrite IHl. reflexivity.
    - assert (Hp' : uses_abs e = true → ∀ f, P f → (0 < f)%Qc) by (intros H; apply Hp; destruct op; auto).
      specialize (IHe Hp' Hg). destruct (eval cfg r e) as [a|]; cbn [ohom rbind] in *.
      + destruct IHe as [Ga ->]. cbn [rbind].
        destruct (un_hom r Hnz op a) as [G E]; [intros ->; apply Hp; reflexivity | exact Ga|].
        split; [exact G | rewrite E; reflexivity].
      + rewrite IHe. reflexivity.
  Qed.

  (** same physical value: both operands are well-formed and have the same image *)
  Definition oequiv (a b : operand) : Prop := ogood r a ∧ ogood r b ∧ ophys r a = ophys r b.
  Definition res_equiv (x y : res operand) : Prop :=
    match x, y with
    | Ok a, Ok b => oequiv a b
    | Err e, Err e' => e = e'
    | _, _ => False
    end.
  Lemma hom_equiv x x' y : ohom r x y → ohom r x' y → res_equiv x x'.
  Proof.
    destruct x as [a|e], x' as [a'|e']; cbn [ohom res_equiv].
    - intros [G ->] [G' E]. injection E as E. split; [exact G|]. split; [exact G' | exact E].
    - intros [_ ->]. discriminate.
    - intros -> [_ E]. discriminate.
    - intros -> [= ->]. reflexivity.
  Qed.
  Lemma emap_equiv (t : expr (operand * operand)) :
    Forall (λ p, oequiv p.1 p.2) (eleaves t) → emap (ophys r) (emap fst t) = emap (ophys r) (emap snd t).
  Proof.
    induction t as [[a b]|op f l IHl rt IHr|op e IHe]; cbn [eleaves emap]; intros H.
    - rewrite Forall_singleton in H. destruct H as (_ & _ & H). cbn [emap fst snd] in *. rewrite H. reflexivity.
    - rewrite Forall_app in H. destruct H as [Hl Hr]. rewrite IHl, IHr by assumption. reflexivity.
    - rewrite IHe by assumption. reflexivity.
  Qed.
  Lemma eleaves_emap {L M} (g : L → M) (t : expr L) : eleaves (emap g t) = map g (eleaves t).
  Proof.
    induction t as [x|op f l IHl rt IHr|op e IHe]; cbn [eleaves emap]; [reflexivity | | exact IHe].
    rewrite IHl, IHr, map_app. reflexivity.
  Qed.
  Lemma uses_abs_emap {L M} (g : L → M) (t : expr L) : uses_abs (emap g t) = uses_abs t.
  Proof.
    induction t as [x|op f l IHl rt IHr|op e IHe]; cbn [uses_abs emap]; [reflexivity | | ].
    - rewrite IHl, IHr. reflexivity.
    - destruct op; auto.
  Qed.
  Theorem eval_cov cfg (t : expr (operand * operand)) :
    (uses_abs t = true → ∀ f, P f → (0 < f)%Qc) → Forall (λ p, oequiv p.1 p.2) (eleaves t) →
    res_equiv (eval cfg r (emap fst t)) (eval cfg r (emap snd t)).
  Proof.
    intros Hp H. eapply hom_equiv.
    - apply eval_hom.
      + rewrite uses_abs_emap. exact Hp.
      + rewrite eleaves_emap. apply Forall_fmap. eapply Forall_impl; [exact H|]. intros p (G & _ & _). exact G.
    - rewrite (emap_equiv t H). apply eval_hom.
      + rewrite uses_abs_emap. exact Hp.
      + rewrite eleaves_emap. apply Forall_fmap. eapply Forall_impl; [exact H|]. intros p (_ & G & _). exact G.
  Qed.
  (** per-operator covariance, every form *)
  Theorem bin_cov cfg op f a a' b b' :
    oequiv a a' → oequiv b b' → res_equiv (apply_bin cfg r op f a b) (apply_bin cfg r op f a' b').
  Proof.
    intros (Ga & Ga' & Ea) (Gb & Gb' & Eb). eapply hom_equiv.
    - apply apply_bin_hom; assumption.
    - rewrite Ea, Eb. apply apply_bin_hom; assumption.
  Qed.
  Theorem un_cov op a a' :
    (op = UAbs → ∀ f, P f → (0 < f)%Qc) → oequiv a a' → oequiv (apply_un op a) (apply_un op a').
  Proof.
    intros Hp (Ga & Ga' & Ea). destruct (un_hom r Hnz op a Hp Ga) as [G E], (un_hom r Hnz op a' Hp Ga') as [G' E'].
    split; [exact G|]. split; [exact G'|]. rewrite E, E', Ea. reflexivity.
  Qed.
End Trees.

(** * Frame, the bare-number rule, dimension mismatch, comparisons *)
Section Rules.
  Context (r : reg) (Hnz : reg_nz r).

  (** an in-place form leaves its right operand alone — unless F14 strikes *)
  Theorem ibin_frame cfg op a o x o' :
    q_ibin cfg r op a o = Ok (x, o') →
    c_f14 cfg = false ∨ (∀ b, o = Qty b → lone_offset r (q_u b) = false) → o' = o.
  Proof.
    intros H G. destruct op; cbn [q_ibin] in H.
    - rewrite iadd_sub_agree in H. destruct (q_add_sub r false a o); cbn [rbind fst snd] in H; [|discriminate]. congruence.
    - rewrite iadd_sub_agree in H. destruct (q_add_sub r true a o); cbn [rbind fst snd] in H; [|discriminate]. congruence.
    - revert H. unfold q_imul_div. destruct o as [n|b].
      + destruct (negb _); [discriminate|]. destruct (_ && _); [discriminate|].
        destruct (mmuldiv false (q_m a) n); cbn [rbind fst snd]; [|discriminate]. congruence.
      + destruct (negb _); [discriminate|].
        destruct (if lone_offset r (q_u a) then q_to_root r a else Ok a) as [a1|]; cbn [rbind]; [|discriminate].
        destruct (negb _); [discriminate|].
        destruct (if lone_offset r (q_u b) then q_to_root r b else Ok b) as [b1|] eqn:Eb; cbn [rbind]; [|discriminate].
        destruct (mmuldiv false (q_m a1) (q_m b1)); cbn [rbind fst snd]; [|discriminate].
        intros [= _ <-]. destruct G as [-> | G]; [reflexivity|].
        rewrite (G b eq_refl) in Eb. injection Eb as <-. destruct (c_f14 cfg); reflexivity.
    - revert H. unfold q_imul_div. destruct o as [n|b].
      + destruct (negb _); [discriminate|]. destruct (_ && _); [discriminate|].
        destruct (mmuldiv true (q_m a) n); cbn [rbind fst snd]; [|discriminate]. congruence.
      + destruct (negb _); [discriminate|].
        destruct (if lone_offset r (q_u a) then q_to_root r a else Ok a) as [a1|]; cbn [rbind]; [|discriminate].
        destruct (negb _); [discriminate|].
        destruct (if lone_offset r (q_u b) then q_to_root r b else Ok b) as [b1|] eqn:Eb; cbn [rbind]; [|discriminate].
        destruct (mmuldiv true (q_m a1) (q_m b1)); cbn [rbind fst snd]; [|discriminate].
        intros [= _ <-]. destruct G as [-> | G]; [reflexivity|].
        rewrite (G b eq_refl) in Eb. injection Eb as <-. destruct (c_f14 cfg); reflexivity.
    - rewrite ifloordiv_agree in H. destruct (q_floordiv r a o); cbn [rbind fst snd] in H; [|discriminate]. congruence.
    - rewrite imod_agree in H. destruct (q_mod r a o); cbn [rbind fst snd] in H; [|discriminate]. congruence.
    - destruct (q_bin cfg r ODivmodQ a o); cbn [rbind fst snd] in H; [|discriminate]. congruence.
    - destruct (q_bin cfg r ODivmodR a o); cbn [rbind fst snd] in H; [|discriminate]. congruence.
    - revert H. unfold q_ipow.
      destruct (o_eq_num r o (Fin 1)) as [[|]|]; cbn [rbind fst snd]; try discriminate; [congruence|].
      destruct (o_eq_num r o (Fin 0)) as [[|]|]; cbn [rbind]; try discriminate.
      + destruct o as [n|b].
        * destruct (mpowZ (q_m a) 0); cbn [rbind fst snd]; [|discriminate]. congruence.
        * destruct (c_f80 cfg); [discriminate|]. destruct (mpowZ (q_m a) 0); cbn [rbind fst snd]; [|discriminate]. congruence.
      + destruct (negb _); [discriminate|]. destruct (exponent_of r o) as [e|]; cbn [rbind]; [|discriminate].
        destruct (pow_core a e); cbn [rbind fst snd]; [|discriminate]. congruence.
  Qed.
  Lemma lone_offset_mult u : nonmult_units r u = [] → lone_offset r u = false.
  Proof. intros H. unfold lone_offset. rewrite H. reflexivity. Qed.

  (** a bare number is accepted by [+], [-] iff the quantity is dimensionless or the number is
      zero / NaN; otherwise DimensionalityError *)
  Theorem bare_number_rule sub a n :
    unit_ok r (q_u a) →
    if zero_or_nan n || uc_eqb (dimv r (q_u a)) ∅
    then ∃ q, q_add_sub r sub a (Num n) = Ok q
    else q_add_sub r sub a (Num n) = Err EDim.
  Proof.
    intros Ha. pose proof (add_sub_hom r Hnz sub a (Num n) Ha I) as H.
    destruct a as [m u]. destruct Ha as (f & d & Hu & Pf). cbn [q_u] in *.
    rewrite (ophys_info r Hnz m u f d Hu) in H. rewrite (uinfo_dimv r _ _ _ Hu).
    cbn [ophys p_add_sub] in H. destruct (zero_or_nan n || uc_eqb d ∅).
    - destruct (q_add_sub r sub (Qn m u) (Num n)) as [q|e]; [eauto | discriminate H].
    - destruct (q_add_sub r sub (Qn m u) (Num n)) as [q|e]; cbn [qhom] in H; [destruct H as [_ H]; discriminate H | congruence].
  Qed.
  (** different dimensionality: DimensionalityError, never a number *)
  Theorem add_dim_mismatch sub a b :
    unit_ok r (q_u a) → unit_ok r (q_u b) → dimv r (q_u a) ≠ dimv r (q_u b) →
    q_add_sub r sub a (Qty b) = Err EDim.
  Proof.
    intros Ha Hb N. pose proof (add_sub_hom r Hnz sub a (Qty b) Ha Hb) as H.
    destruct a as [m u], b as [m' v]. destruct Ha as (f & d & Hu & Pf), Hb as (g & e & Hv & Pg). cbn [q_u] in *.
    rewrite (ophys_info r Hnz m u f d Hu), (ophys_info r Hnz m' v g e Hv) in H.
    rewrite (uinfo_dimv r _ _ _ Hu), (uinfo_dimv r _ _ _ Hv) in N.
    cbn [p_add_sub] in H. rewrite (proj2 (uc_eqb_false d e) N) in H.
    destruct (q_add_sub r sub (Qn m u) (Qty (Qn m' v))) as [q|er]; cbn [qhom] in H; [destruct H as [_ H]; discriminate H | congruence].
  Qed.

  (** ** [==] *)
  Lemma meq_zero_scale m f n : f ≠ 0%Qc → zero_or_nan n = true → meq (mscale m f) n = meq m n.
  Proof.
    intros Hf Hn. destruct (zero_or_nan_cases n Hn) as [-> | ->]; [apply meq_scale; exact Hf | destruct m; reflexivity].
  Qed.
  Lemma meq_cross m m' f g : f ≠ 0%Qc → g ≠ 0%Qc → meq (mscale m (f / g)) m' = meq (mscale m f) (mscale m' g).
  Proof.
    intros Hf Hg. destruct m as [x|], m' as [y|]; simpl; try reflexivity.
    destruct (bool_decide (x * (f / g) = y)%Qc) eqn:E.
    - apply bool_decide_eq_true in E. symmetry. apply bool_decide_eq_true. rewrite <- E. field. exact Hg.
    - apply bool_decide_eq_false in E. symmetry. apply bool_decide_eq_false. intros H. apply E.
      replace (x * (f / g))%Qc with ((x * f) / g)%Qc by (field; exact Hg). rewrite H. field. exact Hg.
  Qed.
  Lemma meq_same m m' f : f ≠ 0%Qc → meq (mscale m f) (mscale m' f) = meq m m'.
  Proof.
    intros Hf. rewrite <- (meq_cross m m' f f Hf Hf). f_equal. apply mscale_1. field. exact Hf.
  Qed.
  Theorem eq_hom a o :
    unit_ok r (q_u a) → ogood r o → q_eq r a o = Ok (p_eq (ophys r (Qty a)) (ophys r o)).
  Proof.
    destruct a as [m u]. intros (f & d & Hu & Pf) Ho. cbn [q_u] in Hu. rewrite (ophys_info r Hnz m u f d Hu).
    pose proof (uinfo_nz r Hnz _ _ _ Hu) as Hf. destruct o as [n|[m' v]].
    - change (ophys r (Num n)) with (PN n). cbn [q_eq p_eq]. unfold q_eq_num. cbn [q_m q_u].
      destruct (zero_or_nan n) eqn:Z.
      + rewrite (meq_zero_scale m f n Hf Z). reflexivity.
      + rewrite (is_dimless_info r u f d Hu). cbn [rbind]. destruct (uc_eqb d ∅) eqn:E; [|reflexivity].
        apply uc_eqb_spec in E. subst d. rewrite (q_to_empty r Hnz m u f Hu). reflexivity.
    - destruct Ho as (g & e & Hv & Pg). cbn [q_u] in Hv. rewrite (ophys_info r Hnz m' v g e Hv).
      pose proof (uinfo_nz r Hnz _ _ _ Hv) as Hg. cbn [q_eq p_eq q_m q_u].
      rewrite (mzero_scale m f Hf), (mzero_scale m' g Hg).
      destruct (mzero m && mzero m').
      { rewrite (uinfo_dim _ _ _ _ Hu), (uinfo_dim _ _ _ _ Hv). reflexivity. }
      destruct (uc_eqb u v) eqn:Euv.
      + apply uc_eqb_spec in Euv. subst v. destruct (uinfo_fun r Hnz _ _ _ _ _ Hu Hv) as [<- <-].
        rewrite uc_eqb_refl, (meq_same m m' f Hf). reflexivity.
      + destruct (uc_eqb d e) eqn:E.
        * apply uc_eqb_spec in E. subst e. rewrite (q_to_ok r Hnz m u v f g d Hu Hv). cbn [q_m andb].
          rewrite (meq_cross m m' f g Hf Hg). reflexivity.
        * apply uc_eqb_false in E. rewrite (q_to_dimerr r Hnz m u v f g d e Hu Hv E). reflexivity.
  Qed.

  (** ** ordering (needs positive scales) *)
  Lemma qle_scale (x y f : Qc) : (0 < f)%Qc → Qle_bool (this (x * f)) (this (y * f)) = Qle_bool (this x) (this y).
  Proof.
    intros Hf. destruct (Qle_bool (this x) (this y)) eqn:E.
    - apply Qle_bool_iff. apply Qle_bool_iff in E. rewrite !Qc_this_mult. apply Qmult_le_compat_r; [exact E|].
      apply Qlt_le_weak. exact Hf.
    - destruct (Qle_bool (this (x * f)) (this (y * f))) eqn:E2; [|reflexivity]. exfalso.
      apply Qle_bool_iff in E2. rewrite !Qc_this_mult in E2. apply Qmult_le_r in E2; [|exact Hf].
      apply Qle_bool_iff in E2. congruence.
  Qed.
  Lemma mcmp_scale op m m' f : (0 < f)%Qc → mcmp op (mscale m f) (mscale m' f) = mcmp op m m'.
  Proof.
    intros Hf. destruct m as [x|], m' as [y|]; cbn [mcmp mscale]; try reflexivity.
    destruct op; cbn [qcmp]; rewrite qle_scale by assumption; reflexivity.
  Qed.
  Lemma mcmp_scale_zero op m f n : (0 < f)%Qc → zero_or_nan n = true → mcmp op (mscale m f) n = mcmp op m n.
  Proof.
    intros Hf Hn. destruct (zero_or_nan_cases n Hn) as [-> | ->]; [|destruct m; reflexivity].
    replace (Fin 0) with (mscale (Fin 0) f) at 1 by (simpl; f_equal; ring). apply mcmp_scale. exact Hf.
  Qed.
  Theorem cmp_hom op a o x0 d0 :
    (∀ f, P f → (0 < f)%Qc) → unit_ok r (q_u a) → ogood r o → ophys r (Qty a) = PQ x0 d0 →
    q_cmp r op a o = p_cmp op x0 d0 (ophys r o).
  Proof.
    intros Hp. destruct a as [m u]. intros (f & d & Hu & Pf) Ho Ea. cbn [q_u] in Hu.
    rewrite (ophys_info r Hnz m u f d Hu) in Ea. injection Ea as <- <-.
    pose proof (Hp f Pf) as Hf. destruct o as [n|[m' v]].
    - change (ophys r (Num n)) with (PN n). cbn [q_cmp p_cmp q_m q_u].
      rewrite (is_dimless_info r u f d Hu). cbn [rbind]. destruct (uc_eqb d ∅) eqn:E.
      + apply uc_eqb_spec in E. subst d. rewrite (q_to_empty r Hnz m u f Hu). reflexivity.
      + cbn [orb]. destruct (zero_or_nan n) eqn:Z; [|reflexivity]. rewrite (mcmp_scale_zero op m f n Hf Z). reflexivity.
    - destruct Ho as (g & e & Hv & Pg). cbn [q_u] in Hv. rewrite (ophys_info r Hnz m' v g e Hv). cbn [q_cmp p_cmp q_m q_u].
      destruct (uc_eqb u v) eqn:Euv.
      + apply uc_eqb_spec in Euv. subst v. destruct (uinfo_fun r Hnz _ _ _ _ _ Hu Hv) as [<- <-].
        rewrite uc_eqb_refl, (mcmp_scale op m m' f Hf). reflexivity.
      + rewrite (uinfo_dim _ _ _ _ Hu), (uinfo_dim _ _ _ _ Hv). cbn [rbind].
        destruct (uc_eqb d e); cbn [negb]; [|reflexivity].
        destruct (q_to_root_ok r Hnz m u f d Hu) as (B & -> & _).
        destruct (q_to_root_ok r Hnz m' v g e Hv) as (B' & -> & _). reflexivity.
  Qed.
  Theorem cmp_dim_mismatch op a b :
    (∀ f, P f → (0 < f)%Qc) → unit_ok r (q_u a) → unit_ok r (q_u b) → dimv r (q_u a) ≠ dimv r (q_u b) →
    q_cmp r op a (Qty b) = Err EDim.
  Proof.
    intros Hp Ha Hb N. pose proof Ha as (f & d & Hu & Pf). pose proof Hb as (g & e & Hv & Pg).
    destruct a as [m u], b as [m' v]. cbn [q_u] in *.
    rewrite (cmp_hom op (Qn m u) (Qty (Qn m' v)) _ _ Hp Ha Hb (ophys_info r Hnz m u f d Hu)).
    rewrite (ophys_info r Hnz m' v g e Hv).
    rewrite (uinfo_dimv r _ _ _ Hu), (uinfo_dimv r _ _ _ Hv) in N. cbn [p_cmp].
    rewrite (proj2 (uc_eqb_false d e) N). reflexivity.
  Qed.
  Theorem eq_cov a a' o o' :
    oequiv r (Qty a) (Qty a') → oequiv r o o' → q_eq r a o = q_eq r a' o'.
  Proof.
    intros (Ga & Ga' & Ea) (Go & Go' & Eo). rewrite (eq_hom a o Ga Go), (eq_hom a' o' Ga' Go'), Ea, Eo. reflexivity.
  Qed.
  Theorem cmp_cov op a a' o o' :
    (∀ f, P f → (0 < f)%Qc) → oequiv r (Qty a) (Qty a') → oequiv r o o' → q_cmp r op a o = q_cmp r op a' o'.
  Proof.
    intros Hp (Ga & Ga' & Ea) (Go & Go' & Eo).
    rewrite (cmp_hom op a o _ _ Hp Ga Go eq_refl), (cmp_hom op a' o' _ _ Hp Ga' Go' (eq_sym Ea)), Eo. reflexivity.
  Qed.
End Rules.

End WithP.

(** * Decidable side conditions *)
Definition mult_onlyb (r : reg) (u : uc) : bool := forallb (λ kv, negb (is_nonmult r kv.1)) (map_to_list u).
Lemma mult_onlyb_spec r u : mult_onlyb r u = true → mult_only r u.
Proof.
  unfold mult_onlyb. rewrite forallb_forall. intros H k [v Hv].
  specialize (H (k, v)). simpl in H. apply negb_true_iff. apply H. apply elem_of_list_In, elem_of_map_to_list, Hv.
Qed.
Definition base_okb (r : reg) (B d : uc) : bool :=
  wfb B && mult_onlyb r B &&
  match root_sym r B with Ok acc => uc_eqb (ra_F acc) ∅ && uc_eqb (ra_B acc) B | Err _ => false end &&
  match dim_of r B with Ok d' => uc_eqb d' d | Err _ => false end.
Lemma base_okb_spec r B d : base_okb r B d = true → base_ok r B d.
Proof.
  unfold base_okb. intros H. apply andb_true_iff in H as [H H4]. apply andb_true_iff in H as [H H3].
  apply andb_true_iff in H as [H1 H2].
  split; [apply wfb_spec; exact H1|]. split; [apply mult_onlyb_spec; exact H2|]. split.
  - destruct (root_sym r B) as [acc|] eqn:E; [|discriminate]. apply andb_true_iff in H3 as [HF HB].
    apply uc_eqb_spec in HF, HB. apply root_sym_Ok in E. rewrite HF, HB in E.
    split; [exact E|]. split; [apply integral_empty|]. intros g e Hg. rewrite lookup_empty in Hg. discriminate.
  - destruct (dim_of r B) as [d'|]; [|discriminate]. apply uc_eqb_spec in H4. subst. reflexivity.
Qed.
Definition ptrue : Qc → Prop := λ _, True.
Definition ppos : Qc → Prop := λ f, (0 < f)%Qc.
Lemma ptrue_closed : pclosed ptrue.
Proof. split; intros; exact I. Qed.
Lemma Qcinv_pos (a : Qc) : (0 < a)%Qc → (0 < / a)%Qc.
Proof.
  intros H. assert (E : (this (/ a)%Qc == / this a)%Q) by (unfold Qcinv; apply this_Q2Qc).
  unfold Qclt. rewrite E. apply Qinv_lt_0_compat. exact H.
Qed.
Lemma ppos_closed : pclosed ppos.
Proof.
  split; unfold ppos.
  - reflexivity.
  - apply Qc_mult_pos.
  - intros a b Ha Hb. unfold Qcdiv. apply Qc_mult_pos; [exact Ha | apply Qcinv_pos; exact Hb].
  - intros a n Ha. apply pw_pos. exact Ha.
  - apply Qcinv_pos.
Qed.
Lemma ppos_pos : ∀ f, ppos f → (0 < f)%Qc.
Proof. intros f H. exact H. Qed.
(** a positive-factor unit is in particular a unit *)
Lemma unit_ok_weaken r u : unit_ok ppos r u → unit_ok ptrue r u.
Proof. intros (f & d & H & _). exists f, d. split; [exact H | exact I]. Qed.

Definition qpos (x : Qc) : bool := (0 <? Qnum (this x))%Z.
Lemma qpos_spec x : qpos x = true → (0 < x)%Qc.
Proof. unfold qpos, Qclt, Qlt. simpl. rewrite Z.ltb_lt. lia. Qed.
Definition unit_okb (r : reg) (u : uc) : bool :=
  wfb u && mult_onlyb r u &&
  match root_sym r u, dim_of r u with
  | Ok acc, Ok d => integralb (ra_F acc) && gens_okb r (ra_F acc) && base_okb r (ra_B acc) d
  | _, _ => false
  end.
Lemma unit_okb_uinfo r u : unit_okb r u = true → ∃ acc d, root_sym r u = Ok acc ∧ uinfo r u (mprod (gscale r) (ra_F acc)) d.
Proof.
  unfold unit_okb. intros H. apply andb_true_iff in H as [H H3]. apply andb_true_iff in H as [H1 H2].
  destruct (root_sym r u) as [acc|] eqn:E; [|discriminate]. destruct (dim_of r u) as [d|] eqn:Ed; [|discriminate].
  apply andb_true_iff in H3 as [H3 H5]. apply andb_true_iff in H3 as [H3 H4].
  exists acc, d. split; [reflexivity|].
  split; [apply wfb_spec; exact H1|]. split; [apply mult_onlyb_spec; exact H2|]. split; [|exact Ed].
  exists (ra_F acc), (ra_B acc). split.
  - split; [apply root_sym_Ok; exact E|]. split; [apply integralb_spec; exact H3 | apply gens_okb_spec; exact H4].
  - split; [reflexivity | apply base_okb_spec; exact H5].
Qed.
Lemma unit_okb_spec r u : unit_okb r u = true → unit_ok ptrue r u.
Proof. intros H. destruct (unit_okb_uinfo r u H) as (acc & d & _ & Hu). exists (mprod (gscale r) (ra_F acc)), d. split; [exact Hu | exact I]. Qed.
(** … with a positive factor *)
Definition unit_okpb (r : reg) (u : uc) : bool := unit_okb r u && qpos (fac r u).
Lemma unit_okpb_spec r u : reg_nz r → unit_okpb r u = true → unit_ok ppos r u.
Proof.
  intros Hnz H. apply andb_true_iff in H as [H Hp]. destruct (unit_okb_uinfo r u H) as (acc & d & _ & Hu).
  exists (mprod (gscale r) (ra_F acc)), d. split; [exact Hu|]. unfold ppos. rewrite <- (uinfo_fac_eq r Hnz _ _ _ Hu). apply qpos_spec. exact Hp.
Qed.
Definition ogoodb (r : reg) (o : operand) : bool := match o with Num _ => true | Qty a => unit_okb r (q_u a) end.
Lemma ogoodb_spec r o : ogoodb r o = true → ogood ptrue r o.
Proof. destruct o; [intros _; exact I | apply unit_okb_spec]. Qed.
Definition ogoodpb (r : reg) (o : operand) : bool := match o with Num _ => true | Qty a => unit_okpb r (q_u a) end.
Lemma ogoodpb_spec r o : reg_nz r → ogoodpb r o = true → ogood ppos r o.
Proof. intros Hnz. destruct o; [intros _; exact I | apply unit_okpb_spec; exact Hnz]. Qed.

Definition reg_posb (r : reg) : bool :=
  forallb (λ kv, qpos (u_scale kv.2) || u_float kv.2) (map_to_list (r_units r)) &&
  forallb (λ kv, qpos (p_val kv.2)) (map_to_list (r_prefixes r)).
Lemma reg_posb_spec r : reg_posb r = true → reg_pos r.
Proof.
  unfold reg_posb. intros H. apply andb_true_iff in H as [HU HP].
  rewrite forallb_forall in HU, HP.
  assert (U : ∀ k d, r_units r !! k = Some d → u_float d = false → (0 < u_scale d)%Qc).
  { intros k d E Hf. apply qpos_spec. specialize (HU (k, d)). simpl in HU. rewrite Hf, orb_false_r in HU.
    apply HU. apply elem_of_list_In, elem_of_map_to_list, E. }
  assert (P : ∀ k p, r_prefixes r !! k = Some p → (0 < p_val p)%Qc).
  { intros k p E. apply qpos_spec. apply (HP (k, p)). apply elem_of_list_In, elem_of_map_to_list, E. }
  intros s d. unfold resolve. destruct (r_units r !! s) eqn:E1; [intros [= <-]; eauto|].
  destruct (parse_unit_name r s) as [|[p u] l]; [discriminate|].
  destruct (String.eqb p "").
  - destruct (r_units r !! u) eqn:E2; [intros [= <-]; eauto | discriminate].
  - destruct (r_units r !! (p ++ u)) eqn:E5; [intros [= <-]; eauto|].
    unfold prefixed_def. destruct (r_prefixes r !! p) eqn:E3; [|discriminate].
    destruct (r_units r !! u) as [ud|] eqn:E4; [|discriminate].
    destruct (negb (u_multiplicative ud)); [discriminate|].
    destruct (get_symbol r (p ++ u)); simpl; [|discriminate]. intros [= <-] _. simpl. eauto.
Qed.

(** boolean equality of physical values (for concrete examples) *)
Definition pval_eqb (x y : pval) : bool :=
  match x, y with
  | PN a, PN b => bool_decide (a = b)
  | PQ a d, PQ b e => bool_decide (a = b) && uc_eqb d e
  | _, _ => false
  end.
Lemma pval_eqb_spec x y : pval_eqb x y = true → x = y.
Proof.
  destruct x as [a|a d], y as [b|b e]; simpl; try discriminate.
  - intros H. apply bool_decide_eq_true in H. congruence.
  - intros H. apply andb_true_iff in H as [H1 H2]. apply bool_decide_eq_true in H1. apply uc_eqb_spec in H2. congruence.
Qed.
Definition oequivb (r : reg) (a b : operand) : bool :=
  ogoodb r a && ogoodb r b && pval_eqb (ophys r a) (ophys r b).
Lemma oequivb_spec r a b : oequivb r a b = true → oequiv ptrue r a b.
Proof.
  unfold oequivb. intros H. apply andb_true_iff in H as [H H3]. apply andb_true_iff in H as [H1 H2].
  split; [apply ogoodb_spec; exact H1|]. split; [apply ogoodb_spec; exact H2 | apply pval_eqb_spec; exact H3].
Qed.
Definition oequivpb (r : reg) (a b : operand) : bool :=
  ogoodpb r a && ogoodpb r b && pval_eqb (ophys r a) (ophys r b).
Lemma oequivpb_spec r a b : reg_nz r → oequivpb r a b = true → oequiv ppos r a b.
Proof.
  unfold oequivpb. intros Hnz H. apply andb_true_iff in H as [H H3]. apply andb_true_iff in H as [H1 H2].
  split; [apply ogoodpb_spec; assumption|]. split; [apply ogoodpb_spec; assumption | apply pval_eqb_spec; exact H3].
Qed.
Lemma pval_eqb_complete x y : x = y → pval_eqb x y = true.
Proof.
  intros <-. destruct x as [a|a d]; simpl.
  - apply bool_decide_eq_true. reflexivity.
  - rewrite bool_decide_eq_true_2 by reflexivity. apply uc_eqb_spec. reflexivity.
Qed.

(** * Ordering across different units — offset units included.
      Whatever the units (multiplicative or a lone offset unit such as degC), ordering two
      quantities of the same dimensionality written in different containers is ordering their
      magnitudes in root units, offsets applied. *)
Theorem cmp_via_root r op a b d a' b' :
  uc_eqb (q_u a) (q_u b) = false →
  dim_of r (q_u a) = Ok d → dim_of r (q_u b) = Ok d →
  q_to_root r a = Ok a' → q_to_root r b = Ok b' →
  q_cmp r op a (Qty b) = Ok (mcmp op (q_m a') (q_m b')).
Proof.
  intros E Da Db Ra Rb. unfold q_cmp. rewrite E, Da, Db. cbn [rbind]. rewrite uc_eqb_refl. cbn [negb].
  rewrite Ra, Rb. reflexivity.
Qed.
(** hence covariance of <, <=, >, >= under re-expression in ANY unit with the same root-unit magnitude *)
Corollary cmp_cov_root r op a b a2 b2 d a' b' a2' b2' :
  uc_eqb (q_u a) (q_u b) = false → uc_eqb (q_u a2) (q_u b2) = false →
  dim_of r (q_u a) = Ok d → dim_of r (q_u b) = Ok d → dim_of r (q_u a2) = Ok d → dim_of r (q_u b2) = Ok d →
  q_to_root r a = Ok a' → q_to_root r b = Ok b' → q_to_root r a2 = Ok a2' → q_to_root r b2 = Ok b2' →
  q_m a' = q_m a2' → q_m b' = q_m b2' →
  q_cmp r op a (Qty b) = q_cmp r op a2 (Qty b2).
Proof.
  intros E E2 Da Db Da2 Db2 Ra Rb Ra2 Rb2 Ma Mb.
  rewrite (cmp_via_root r op a b d a' b' E Da Db Ra Rb), (cmp_via_root r op a2 b2 d a2' b2' E2 Da2 Db2 Ra2 Rb2), Ma, Mb.
  reflexivity.
Qed.
