From PintV Require Import Model.UC Model.Eval Model.Registry Proofs.UCProofs.
Open Scope string_scope.
Arguments dim_rec : simpl never.
Arguments root_rec : simpl never.
Arguments reg_fuel : simpl never.

(** * Linear accumulators *)
Definition lin_spec (F : Qc → uc → res uc) (D : option uc) : Prop :=
  match D with
  | Some D => wf D ∧ ∀ e acc, wf acc → F e acc = Ok (uc_mul acc (uc_pow D e))
  | None => ∀ e acc, ∃ er, F e acc = Err er
  end.

Lemma lin_ret : lin_spec (λ _ acc, Ok acc) (Some ∅).
Proof.
  split; [apply wf_empty|]. intros e acc _. rewrite uc_pow_empty, uc_mul_empty_r. reflexivity.
Qed.
Lemma lin_err er : lin_spec (λ _ _, Err er) None.
Proof. intros e acc. eauto. Qed.

Definition opt_mul (a b : option uc) : option uc :=
  match a, b with Some x, Some y => Some (uc_mul x y) | _, _ => None end.

Lemma lin_bind F G Df Dg :
  lin_spec F Df → lin_spec G Dg → lin_spec (λ e acc, a ←r F e acc; G e a) (opt_mul Df Dg).
Proof.
  destruct Df as [df|], Dg as [dg|]; simpl.
  - intros [Wf Hf] [Wg Hg]. split; [apply wf_mul; assumption|].
    intros e acc Wa. rewrite Hf by assumption. simpl. rewrite Hg by (apply wf_mul; assumption).
    f_equal. rewrite uc_pow_mul_distr by assumption. apply uc_mul_assoc; [assumption|apply wf_pow].
  - intros [Wf Hf] Hg e acc. destruct (Hg e (uc_mul acc (uc_pow df e))) as [er Her].
    (* acc need not be wf here: F may still succeed; either way the bind is an error or... *)
    destruct (F e acc) eqn:E; simpl; eauto.
  - intros Hf _ e acc. destruct (Hf e acc) as [er ->]. simpl. eauto.
  - intros Hf _ e acc. destruct (Hf e acc) as [er ->]. simpl. eauto.
Qed.

Definition opt_pow (a : option uc) (v : Qc) : option uc :=
  match a with Some x => Some (uc_pow x v) | None => None end.
Lemma lin_scale F D v : lin_spec F D → lin_spec (λ e acc, F (e * v)%Qc acc) (opt_pow D v).
Proof.
  destruct D as [d|]; simpl.
  - intros [Wd H]. split; [apply wf_pow|]. intros e acc Wa. rewrite H by assumption.
    rewrite uc_pow_pow. do 3 f_equal. ring.
  - intros H e acc. apply H.
Qed.
Lemma lin_ext F G D : (∀ e acc, F e acc = G e acc) → lin_spec F D → lin_spec G D.
Proof.
  intros E. destruct D as [d|]; simpl.
  - intros [W H]. split; [exact W|]. intros e acc Wa. rewrite <- E. auto.
  - intros H e acc. rewrite <- E. auto.
Qed.

Lemma wf_singleton k (v : Qc) : v ≠ 0%Qc → wf {[ k := v ]}.
Proof. intros H. apply map_Forall_singleton. exact H. Qed.
Lemma exp_of_singleton k (v : Qc) j : exp_of {[ k := v ]} j = if decide (k = j) then v else 0%Qc.
Proof.
  unfold exp_of. destruct (decide (k = j)) as [->|N].
  - rewrite lookup_singleton. reflexivity.
  - rewrite lookup_singleton_ne by assumption. reflexivity.
Qed.
Lemma uc_add_as_mul acc k x : wf acc → uc_add acc k x = uc_mul acc (uc_pow {[ k := 1%Qc ]} x).
Proof.
  intros Wa. apply uc_ext; [apply wf_add; assumption | apply wf_mul; assumption |].
  intros j. rewrite exp_of_add, exp_of_mul, exp_of_pow, exp_of_singleton.
  destruct (decide (k = j)) as [->|N]; ring.
Qed.
Lemma lin_add k v : lin_spec (λ e acc, Ok (uc_add acc k (e * v)%Qc)) (Some (uc_pow {[ k := 1%Qc ]} v)).
Proof.
  split; [apply wf_pow|]. intros e acc Wa. rewrite uc_add_as_mul by assumption.
  rewrite uc_pow_pow. do 3 f_equal. ring.
Qed.

(** the step of [dim_rec] at fuel [S f], given the recursion at fuel [f] *)
Definition dim_step (f : nat) (r : reg) (exp : Qc) (acc : uc) (kv : string * Qc) : res uc :=
  let '(key, v) := kv in
  let exp2 := (exp * v)%Qc in
  if is_dim key then
    match r_dims r !! key with
    | None => Err EValue
    | Some (DDerived dref) => dim_rec f r (map_to_list dref) exp2 acc
    | Some DBase => Ok (uc_add acc key exp2)
    end
  else d ←r resolve r key; dim_rec f r (map_to_list (u_ref d)) exp2 acc.
Lemma dim_rec_S f r l e acc : dim_rec (S f) r l e acc = foldM (dim_step f r e) l acc.
Proof. reflexivity. Qed.
Lemma foldM_cons {A B} (g : A → B → res A) b l a : foldM g (b :: l) a = (a' ←r g a b; foldM g l a').
Proof. reflexivity. Qed.

Lemma dim_rec_lin f : ∀ r l, ∃ D, lin_spec (dim_rec f r l) D.
Proof.
  induction f as [|f IHf]; intros r l.
  - exists None. intros e acc. exists EFuel. reflexivity.
  - assert (Hstep : ∀ kv, ∃ D, lin_spec (λ e acc, dim_step f r e acc kv) D).
    { intros [k v]. unfold dim_step. destruct (is_dim k).
      - destruct (r_dims r !! k) as [[|dref]|].
        + eexists. apply (lin_add k v).
        + destruct (IHf r (map_to_list dref)) as [D HD]. exists (opt_pow D v).
          apply (lin_scale _ _ v HD).
        + exists None. apply lin_err.
      - destruct (resolve r k) as [d|er]; simpl.
        + destruct (IHf r (map_to_list (u_ref d))) as [D HD]. exists (opt_pow D v).
          apply (lin_scale _ _ v HD).
        + exists None. apply lin_err. }
    induction l as [|kv l IHl].
    + exists (Some ∅). apply lin_ret.
    + destruct (Hstep kv) as [Dk Hk]. destruct IHl as [Dl Hl]. exists (opt_mul Dk Dl).
      eapply lin_ext; [|apply (lin_bind _ _ _ _ Hk Hl)].
      intros e acc. rewrite !dim_rec_S, foldM_cons. reflexivity.
Qed.

(** uniqueness of the linear coefficient *)
Definition lin_val (F : Qc → uc → res uc) : option uc :=
  match F 1%Qc ∅ with Ok d => Some d | Err _ => None end.
Lemma lin_unique F D : lin_spec F D → D = lin_val F.
Proof.
  unfold lin_val. destruct D as [d|]; simpl.
  - intros [W H]. rewrite H by apply wf_empty. rewrite uc_pow_one by assumption.
    rewrite uc_mul_empty_l by assumption. reflexivity.
  - intros H. destruct (H 1%Qc ∅) as [er ->]. reflexivity.
Qed.

(** * Weighted sums over containers *)
Definition msum (g : string → Qc) (a : uc) : Qc := map_fold (λ k v s, (v * g k + s)%Qc) 0%Qc a.
Lemma msum_empty g : msum g ∅ = 0%Qc.
Proof. apply map_fold_empty. Qed.
Lemma msum_insert g a i x : a !! i = None → msum g (<[i:=x]> a) = (x * g i + msum g a)%Qc.
Proof.
  intros H. unfold msum. apply (map_fold_insert_L (λ k v s, (v * g k + s)%Qc)); [|exact H].
  intros. ring.
Qed.
Lemma msum_delete g a i x : a !! i = Some x → msum g a = (x * g i + msum g (delete i a))%Qc.
Proof.
  intros H. rewrite <- (insert_delete a i x H) at 1. apply msum_insert. apply lookup_delete.
Qed.
Lemma msum_add g a i x : msum g (uc_add a i x) = (msum g a + x * g i)%Qc.
Proof.
  unfold uc_add, exp_of. destruct (a !! i) as [y|] eqn:E; simpl.
  - rewrite (msum_delete g a i y E). qz_cases.
    + replace (x * g i)%Qc with ((y + x) * g i - y * g i)%Qc by ring. rewrite E0. ring.
    + rewrite <- (insert_delete_insert a). rewrite msum_insert by apply lookup_delete. ring.
  - qz_cases.
    + rewrite delete_notin by assumption. replace x with (0 + x)%Qc at 1 by ring. rewrite E0. ring.
    + rewrite msum_insert by assumption. ring.
Qed.
Lemma uc_mul_insert_r a b i x : b !! i = None → uc_mul a (<[i:=x]> b) = uc_add (uc_mul a b) i x.
Proof.
  intros H. apply map_eq. intros j. rewrite lookup_uc_mul. unfold uc_add, exp_of.
  destruct (decide (i = j)) as [->|N].
  - rewrite lookup_insert, lookup_uc_mul, H. simpl.
    destruct (qz (default 0%Qc (a !! j) + x)); [rewrite lookup_delete | rewrite lookup_insert]; reflexivity.
  - rewrite lookup_insert_ne by assumption.
    destruct (qz _); [rewrite lookup_delete_ne | rewrite lookup_insert_ne]; try assumption;
      rewrite lookup_uc_mul; reflexivity.
Qed.
Lemma msum_mul g a b : msum g (uc_mul a b) = (msum g a + msum g b)%Qc.
Proof.
  induction b as [|i x b Hi IH] using map_ind.
  - rewrite uc_mul_empty_r, msum_empty. ring.
  - rewrite uc_mul_insert_r by assumption. rewrite msum_add, IH, msum_insert by assumption. ring.
Qed.
Lemma msum_pow g a e : msum g (uc_pow a e) = (e * msum g a)%Qc.
Proof.
  induction a as [|i x a Hi IH] using map_ind.
  - rewrite uc_pow_empty, msum_empty. ring.
  - unfold uc_pow. rewrite omap_insert. fold (uc_pow a e).
    assert (Hn : uc_pow a e !! i = None) by (rewrite lookup_uc_pow, Hi; reflexivity).
    rewrite msum_insert by assumption. simpl. qz_cases.
    + rewrite delete_notin by assumption. rewrite IH.
      replace (e * (x * g i + msum g a))%Qc with ((x * e) * g i + e * msum g a)%Qc by ring.
      rewrite E. ring.
    + rewrite msum_insert by assumption. rewrite IH. ring.
Qed.
Lemma msum_div g a b : wf a → msum g (uc_div a b) = (msum g a - msum g b)%Qc.
Proof.
  intros Wa. rewrite uc_div_as_mul_inv by assumption. unfold uc_inv.
  rewrite msum_mul, msum_pow. ring.
Qed.
Lemma msum_ext g h a : (∀ k, is_Some (a !! k) → g k = h k) → msum g a = msum h a.
Proof.
  induction a as [|i x a Hi IH] using map_ind; intros H.
  - rewrite !msum_empty. reflexivity.
  - rewrite !msum_insert by assumption. rewrite H by (rewrite lookup_insert; eauto).
    rewrite IH; [reflexivity|]. intros k Hk. apply H.
    destruct (decide (i = k)) as [->|N]; [rewrite lookup_insert | rewrite lookup_insert_ne]; eauto.
Qed.
(** list form: what [foldM] walks over *)
Definition lsumw (g : string → Qc) (l : list (string * Qc)) : Qc :=
  foldr (λ kv s, (kv.2 * g kv.1 + s)%Qc) 0%Qc l.
Lemma msum_list g a : msum g a = lsumw g (map_to_list a).
Proof. unfold msum, map_fold, lsumw. simpl. induction (map_to_list a) as [|[k v] l IH]; simpl; congruence. Qed.

(** * Closed form of [dim_rec] over a list of entries *)
Fixpoint sem_list (row : string → option uc) (l : list (string * Qc)) : option uc :=
  match l with
  | [] => Some ∅
  | kv :: l' => opt_mul (opt_pow (row kv.1) kv.2) (sem_list row l')
  end.
Definition dim_row (f : nat) (r : reg) (k : string) : option uc :=
  lin_val (λ e acc, dim_step f r e acc (k, 1%Qc)).

Lemma dim_step_scale f r e acc k v : dim_step f r e acc (k, v) = dim_step f r (e * v)%Qc acc (k, 1%Qc).
Proof. unfold dim_step. rewrite Qcmult_1_r. reflexivity. Qed.
Lemma dim_step_lin f r k : lin_spec (λ e acc, dim_step f r e acc (k, 1%Qc)) (dim_row f r k).
Proof.
  destruct (dim_rec_lin (S f) r [(k, 1%Qc)]) as [D HD].
  assert (H : lin_spec (λ e acc, dim_step f r e acc (k, 1%Qc)) D).
  { eapply lin_ext; [|exact HD]. intros e acc. rewrite dim_rec_S, foldM_cons.
    destruct (dim_step f r e acc (k, 1%Qc)); reflexivity. }
  unfold dim_row. rewrite <- (lin_unique _ _ H). exact H.
Qed.
Lemma dim_rec_sem f r l : lin_spec (dim_rec (S f) r l) (sem_list (dim_row f r) l).
Proof.
  induction l as [|[k v] l IH].
  - apply lin_ret.
  - cbn [sem_list fst snd]. eapply lin_ext; [|apply lin_bind; [apply (lin_scale _ _ v (dim_step_lin f r k)) | exact IH]].
    intros e acc. cbv beta. rewrite (dim_rec_S f r ((k, v) :: l)), foldM_cons, <- dim_step_scale. reflexivity.
Qed.

Lemma sem_list_Some row l D :
  sem_list row l = Some D →
  (∀ kv, kv ∈ l → is_Some (row kv.1)) ∧
  ∀ j, exp_of D j = lsumw (λ k, exp_of (default ∅ (row k)) j) l.
Proof.
  revert D. induction l as [|[k v] l IH]; simpl; intros D.
  - intros [= <-]. split; [intros kv H; inversion H|]. intros j. unfold exp_of. rewrite lookup_empty. reflexivity.
  - destruct (row k) as [dk|] eqn:Ek; simpl; [|discriminate].
    destruct (sem_list row l) as [dl|]; simpl; [|discriminate]. intros [= <-].
    destruct (IH dl eq_refl) as [H1 H2]. split.
    + intros kv Hin. apply elem_of_cons in Hin as [->|Hin]; [simpl; rewrite Ek; eauto | auto].
    + intros j. rewrite exp_of_mul, exp_of_pow, H2. simpl. ring.
Qed.
Lemma sem_list_None row l :
  sem_list row l = None → ∃ kv, kv ∈ l ∧ row kv.1 = None.
Proof.
  induction l as [|[k v] l IH]; simpl; [discriminate|].
  destruct (row k) as [dk|] eqn:Ek; simpl.
  - destruct (sem_list row l); simpl; [discriminate|]. intros _.
    destruct (IH eq_refl) as [kv [Hin Hn]]. exists kv. split; [right; exact Hin | exact Hn].
  - intros _. exists (k, v). split; [left | exact Ek].
Qed.
Lemma sem_list_is_Some row l :
  (∀ kv, kv ∈ l → is_Some (row kv.1)) → is_Some (sem_list row l).
Proof.
  intros H. destruct (sem_list row l) eqn:E; [eauto|].
  destruct (sem_list_None _ _ E) as [kv [Hin Hn]]. destruct (H kv Hin) as [x Hx]. congruence.
Qed.

(** * [dim_raw]: the recursion as the registry runs it, and its homomorphism laws *)
Definition dim_raw (r : reg) (a : uc) : res uc := dim_rec (reg_fuel r) r (map_to_list a) 1 ∅.
Definition drow (r : reg) : string → option uc := dim_row 63 r.
Definition dsem (r : reg) (a : uc) : option uc := sem_list (drow r) (map_to_list a).

Lemma dim_raw_sem r a : dim_raw r a = match dsem r a with Some d => Ok d | None => dim_raw r a end
                        ∧ (dsem r a = None → ∃ er, dim_raw r a = Err er)
                        ∧ (∀ d, dsem r a = Some d → wf d).
Proof.
  unfold dim_raw, dsem. change (reg_fuel r) with (S 63).
  pose proof (dim_rec_sem 63 r (map_to_list a)) as H. fold (drow r) in H.
  destruct (sem_list (drow r) (map_to_list a)) as [d|]; unfold lin_spec in H.
  - destruct H as [W H]. rewrite H by apply wf_empty. rewrite uc_pow_one, uc_mul_empty_l by assumption.
    split; [reflexivity|]. split; [discriminate | intros d' [= <-]; exact W].
  - split; [reflexivity|]. split; [intros _; apply H | discriminate].
Qed.
Lemma dim_raw_Ok r a d : dim_raw r a = Ok d ↔ dsem r a = Some d.
Proof.
  destruct (dim_raw_sem r a) as (H1 & H2 & _). destruct (dsem r a) as [d'|].
  - rewrite H1. split; congruence.
  - destruct (H2 eq_refl) as [er ->]. split; discriminate.
Qed.
Lemma dsem_wf r a d : dsem r a = Some d → wf d.
Proof. intros H. exact (proj2 (proj2 (dim_raw_sem r a)) d H). Qed.
Lemma dsem_exp r a d j : dsem r a = Some d → exp_of d j = msum (λ k, exp_of (default ∅ (drow r k)) j) a.
Proof. intros H. rewrite msum_list. exact (proj2 (sem_list_Some _ _ _ H) j). Qed.
Lemma dsem_rows r a d k : dsem r a = Some d → is_Some (a !! k) → is_Some (drow r k).
Proof.
  intros H [v Hv]. apply (proj1 (sem_list_Some _ _ _ H) (k, v)). apply elem_of_map_to_list. exact Hv.
Qed.
Lemma dsem_is_Some r a : (∀ k, is_Some (a !! k) → is_Some (drow r k)) → is_Some (dsem r a).
Proof.
  intros H. apply sem_list_is_Some. intros [k v] Hin. apply elem_of_map_to_list in Hin. apply H. eauto.
Qed.

Lemma uc_mul_dom a b k : is_Some (uc_mul a b !! k) → is_Some (a !! k) ∨ is_Some (b !! k).
Proof. rewrite lookup_uc_mul. destruct (a !! k), (b !! k); simpl; intros [x Hx]; eauto; discriminate. Qed.
Lemma uc_div_dom a b k : is_Some (uc_div a b !! k) → is_Some (a !! k) ∨ is_Some (b !! k).
Proof. rewrite lookup_uc_div. destruct (a !! k), (b !! k); simpl; intros [x Hx]; eauto; discriminate. Qed.
Lemma uc_pow_dom a e k : is_Some (uc_pow a e !! k) → is_Some (a !! k).
Proof. rewrite lookup_uc_pow. destruct (a !! k); simpl; intros [x Hx]; eauto; discriminate. Qed.

Theorem dsem_mul r a b da db : dsem r a = Some da → dsem r b = Some db → dsem r (uc_mul a b) = Some (uc_mul da db).
Proof.
  intros Ha Hb.
  destruct (dsem_is_Some r (uc_mul a b)) as [d Hd].
  { intros k Hk. destruct (uc_mul_dom _ _ _ Hk); eauto using dsem_rows. }
  rewrite Hd. f_equal. apply uc_ext; [eauto using dsem_wf | apply wf_mul; eauto using dsem_wf |].
  intros j. rewrite exp_of_mul, (dsem_exp _ _ _ j Hd), (dsem_exp _ _ _ j Ha), (dsem_exp _ _ _ j Hb).
  apply msum_mul.
Qed.
Theorem dsem_div r a b da db : wf a → dsem r a = Some da → dsem r b = Some db → dsem r (uc_div a b) = Some (uc_div da db).
Proof.
  intros Wa Ha Hb.
  destruct (dsem_is_Some r (uc_div a b)) as [d Hd].
  { intros k Hk. destruct (uc_div_dom _ _ _ Hk); eauto using dsem_rows. }
  rewrite Hd. f_equal. apply uc_ext; [eauto using dsem_wf | apply wf_div; eauto using dsem_wf |].
  intros j. rewrite exp_of_div, (dsem_exp _ _ _ j Hd), (dsem_exp _ _ _ j Ha), (dsem_exp _ _ _ j Hb).
  apply msum_div. exact Wa.
Qed.
Theorem dsem_pow r a e da : dsem r a = Some da → dsem r (uc_pow a e) = Some (uc_pow da e).
Proof.
  intros Ha.
  destruct (dsem_is_Some r (uc_pow a e)) as [d Hd].
  { intros k Hk. eauto using dsem_rows, uc_pow_dom. }
  rewrite Hd. f_equal. apply uc_ext; [eauto using dsem_wf | apply wf_pow |].
  intros j. rewrite exp_of_pow, (dsem_exp _ _ _ j Hd), (dsem_exp _ _ _ j Ha), msum_pow. ring.
Qed.
Theorem dsem_empty r : dsem r ∅ = Some ∅.
Proof. unfold dsem. rewrite map_to_list_empty. reflexivity. Qed.

(** * [dim_of]: the "[]" placeholder is dropped at the end *)
Lemma delete_uc_mul k a b : delete k (uc_mul a b) = uc_mul (delete k a) (delete k b).
Proof.
  apply map_eq. intros j. rewrite lookup_uc_mul. destruct (decide (k = j)) as [->|N].
  - rewrite !lookup_delete. reflexivity.
  - rewrite !lookup_delete_ne by assumption. rewrite lookup_uc_mul. reflexivity.
Qed.
Lemma delete_uc_div k a b : delete k (uc_div a b) = uc_div (delete k a) (delete k b).
Proof.
  apply map_eq. intros j. rewrite lookup_uc_div. destruct (decide (k = j)) as [->|N].
  - rewrite !lookup_delete. reflexivity.
  - rewrite !lookup_delete_ne by assumption. rewrite lookup_uc_div. reflexivity.
Qed.
Lemma delete_uc_pow k a e : delete k (uc_pow a e) = uc_pow (delete k a) e.
Proof.
  apply map_eq. intros j. rewrite lookup_uc_pow. destruct (decide (k = j)) as [->|N].
  - rewrite !lookup_delete. reflexivity.
  - rewrite !lookup_delete_ne by assumption. rewrite lookup_uc_pow. reflexivity.
Qed.
Lemma wf_delete k a : wf a → wf (delete k a).
Proof. apply map_Forall_delete. Qed.

Lemma dim_of_unfold r a : dim_of r a = (d ←r dim_raw r a; Ok (delete "[]" d)).
Proof. unfold dim_of, dim_raw. reflexivity. Qed.
Lemma dim_of_Ok r a d : dim_of r a = Ok d ↔ ∃ d0, dsem r a = Some d0 ∧ d = delete "[]" d0.
Proof.
  rewrite dim_of_unfold. split.
  - destruct (dim_raw r a) as [d0|er] eqn:E; simpl; [|discriminate]. intros [= <-].
    exists d0. split; [apply dim_raw_Ok; exact E | reflexivity].
  - intros (d0 & H & ->). apply dim_raw_Ok in H. rewrite H. reflexivity.
Qed.

Theorem dim_of_mul r a b da db :
  dim_of r a = Ok da → dim_of r b = Ok db → dim_of r (uc_mul a b) = Ok (uc_mul da db).
Proof.
  rewrite !dim_of_Ok. intros (a0 & Ha & ->) (b0 & Hb & ->).
  exists (uc_mul a0 b0). split; [apply dsem_mul; assumption | symmetry; apply delete_uc_mul].
Qed.
Theorem dim_of_div r a b da db :
  wf a → dim_of r a = Ok da → dim_of r b = Ok db → dim_of r (uc_div a b) = Ok (uc_div da db).
Proof.
  intros Wa. rewrite !dim_of_Ok. intros (a0 & Ha & ->) (b0 & Hb & ->).
  exists (uc_div a0 b0). split; [apply dsem_div; assumption | symmetry; apply delete_uc_div].
Qed.
Theorem dim_of_pow r a e da :
  dim_of r a = Ok da → dim_of r (uc_pow a e) = Ok (uc_pow da e).
Proof.
  rewrite !dim_of_Ok. intros (a0 & Ha & ->).
  exists (uc_pow a0 e). split; [apply dsem_pow; assumption | symmetry; apply delete_uc_pow].
Qed.
Theorem dim_of_empty r : dim_of r ∅ = Ok ∅.
Proof. apply dim_of_Ok. exists ∅. split; [apply dsem_empty | rewrite delete_empty; reflexivity]. Qed.
Theorem dim_of_canonical r a d : dim_of r a = Ok d → wf d ∧ d !! "[]" = None.
Proof.
  rewrite dim_of_Ok. intros (d0 & H & ->). split; [apply wf_delete; eauto using dsem_wf | apply lookup_delete].
Qed.

(** * Errors: the expansion never reports a dimensionality error by itself *)
Definition not_edim (e : err) : Prop := e ≠ EDim.
Lemma get_symbol_err r s e : get_symbol r s = Err e → not_edim e.
Proof.
  unfold get_symbol. destruct (parse_unit_name r s) as [|[p u] l]; [intros [= <-]; discriminate|].
  destruct (r_prefixes r !! p), (r_units r !! u); intros [= <-]; discriminate.
Qed.
Lemma resolve_err r s e : resolve r s = Err e → not_edim e.
Proof.
  unfold resolve. destruct (r_units r !! s); [discriminate|].
  destruct (parse_unit_name r s) as [|[p u] l]; [intros [= <-]; discriminate|].
  destruct (String.eqb p "").
  - destruct (r_units r !! u); [discriminate | intros [= <-]; discriminate].
  - destruct (r_units r !! (p ++ u)); [discriminate|].
    unfold prefixed_def. destruct (r_prefixes r !! p), (r_units r !! u) as [ud|]; try (intros [= <-]; discriminate).
    destruct (negb (u_multiplicative ud)); [intros [= <-]; discriminate|].
    destruct (get_symbol r (p ++ u)) eqn:E; simpl; [discriminate|]. intros [= <-]. eauto using get_symbol_err.
Qed.
Lemma foldM_err {A B} (g : A → B → res A) (P : err → Prop) l a e :
  (∀ a b e, g a b = Err e → P e) → foldM g l a = Err e → P e.
Proof.
  intros Hg. revert a. induction l as [|b l IH]; intros a; simpl; [discriminate|].
  destruct (g a b) eqn:E; simpl; [apply IH | intros [= <-]; eauto].
Qed.
Lemma root_rec_err f : ∀ r l x acc e, root_rec f r l x acc = Err e → not_edim e.
Proof.
  induction f as [|f IH]; intros r l x acc e.
  { change (root_rec 0 r l x acc) with (@Err racc EFuel). intros [= <-]; discriminate. }
  change (root_rec (S f) r l x acc) with
    (foldM (λ acc kv, let '(key, v) := kv in let exp2 := (x * v)%Qc in
       d ←r resolve r key;
       if u_base d then Ok (RAcc (ra_F acc) (uc_add (ra_B acc) (u_name d) exp2) (ra_exact acc))
       else root_rec f r (map_to_list (u_ref d)) exp2
              (RAcc (if bool_decide (u_scale d = 1%Qc) && negb (u_float d) then ra_F acc else uc_add (ra_F acc) (u_name d) exp2)
                    (ra_B acc) (ra_exact acc && (is_int exp2 && negb (u_float d))))) l acc).
  apply foldM_err. intros a [k v] e'. destruct (resolve r k) as [d|er] eqn:E; simpl.
  - destruct (u_base d); [discriminate | apply IH].
  - intros [= <-]. eauto using resolve_err.
Qed.
Lemma eval_factor_err r F e : eval_factor r F = Err e → not_edim e.
Proof.
  unfold eval_factor. apply foldM_err. intros a [g x] e'.
  destruct (resolve r g) as [d|er] eqn:E; simpl.
  - destruct a; [|discriminate]. destruct (u_float d); [discriminate|].
    destruct (is_int x); [|discriminate]. destruct (Qc_powZ _ _); [discriminate | intros [= <-]; discriminate].
  - intros [= <-]. eauto using resolve_err.
Qed.
Lemma root_of_err r a e : root_of r a = Err e → not_edim e.
Proof.
  unfold root_of, root_sym. destruct (root_rec _ _ _ _ _) eqn:E; simpl.
  - destruct (eval_factor r (ra_F a0)) eqn:E2; simpl; [discriminate | intros [= <-]; eauto using eval_factor_err].
  - intros [= <-]. eauto using root_rec_err.
Qed.

(** conversion reports a dimensionality error exactly when the dimensionalities differ *)
Theorem conv_factor_edim r src dst ds dd :
  dim_of r src = Ok ds → dim_of r dst = Ok dd → (conv_factor r src dst = Err EDim ↔ ds ≠ dd).
Proof.
  intros Hs Hd. unfold conv_factor. rewrite Hs, Hd. simpl. unfold uc_eqb.
  destruct (bool_decide (ds = dd)) eqn:E; simpl.
  - apply bool_decide_eq_true in E. split; [|congruence].
    destruct (root_of r (uc_div src dst)) as [[[f b] ex]|er] eqn:Er; simpl; [discriminate|].
    intros [= ->]. exfalso. exact (root_of_err _ _ _ Er eq_refl).
  - apply bool_decide_eq_false in E. split; auto.
Qed.
Theorem conv_factor_number_only_if_same_dim r src dst ds dd y :
  dim_of r src = Ok ds → dim_of r dst = Ok dd → conv_factor r src dst = Ok y → ds = dd.
Proof.
  intros Hs Hd. unfold conv_factor. rewrite Hs, Hd. simpl. unfold uc_eqb.
  destruct (bool_decide (ds = dd)) eqn:E; simpl; [|discriminate].
  intros _. apply bool_decide_eq_true in E. exact E.
Qed.

(** * The compatibility relation *)
Definition compat (r : reg) (a b : uc) : Prop := ∃ d, dim_of r a = Ok d ∧ dim_of r b = Ok d.
Lemma compat_refl r a d : dim_of r a = Ok d → compat r a a.
Proof. intros H. exists d. auto. Qed.
Lemma compat_sym r a b : compat r a b → compat r b a.
Proof. intros (d & H1 & H2). exists d. auto. Qed.
Lemma compat_trans r a b c : compat r a b → compat r b c → compat r a c.
Proof. intros (d & H1 & H2) (d' & H3 & H4). exists d. split; [exact H1|]. congruence. Qed.
Lemma compat_mul r a b c d : compat r a b → compat r c d → compat r (uc_mul a c) (uc_mul b d).
Proof.
  intros (x & H1 & H2) (y & H3 & H4). exists (uc_mul x y). split; apply dim_of_mul; assumption.
Qed.
Lemma compat_div r a b c d : wf a → wf b → compat r a b → compat r c d → compat r (uc_div a c) (uc_div b d).
Proof.
  intros Wa Wb (x & H1 & H2) (y & H3 & H4). exists (uc_div x y). split; apply dim_of_div; assumption.
Qed.
Lemma compat_pow r a b e : compat r a b → compat r (uc_pow a e) (uc_pow b e).
Proof. intros (x & H1 & H2). exists (uc_pow x e). split; apply dim_of_pow; assumption. Qed.
