(** Proofs/RewriteProofs.v — lemmas about the unit-rewriting helpers (C15). *)
From Coq Require Import ZArith Lia Qpower Qcabs QArith Qabs.
From stdpp Require Import sorting.
From PintV Require Import Model.UC Model.Eval Model.Registry Model.Rewrite.
From PintV Require Import Proofs.UCProofs Proofs.RegistryProofs Proofs.RootProofs Proofs.FactorProofs.
Open Scope string_scope.
Arguments dim_rec : simpl never.
Arguments root_rec : simpl never.
Arguments reg_fuel : simpl never.
Arguments dim_of : simpl never.
Arguments root_of : simpl never.
Arguments root_sym : simpl never.
Arguments conv_factor : simpl never.
Arguments dim1 : simpl never.
Arguments resolve : simpl never.
Arguments parse_unit_name : simpl never.

(** * Same physical quantity: same dimensionality, and magnitude x factor-to-root-units equal.
    Stated for finite magnitudes and NaN (an infinite magnitude keeps its sign only for positive
    scales, which is not part of the side conditions). *)
Definition same_quantity (r : reg) (q q' : rq) : Prop :=
  ∃ d Fs Bs Fd Bd,
    dim_of r (rq_u q) = Ok d ∧ dim_of r (rq_u q') = Ok d ∧
    exact_unit r (rq_u q) Fs Bs ∧ exact_unit r (rq_u q') Fd Bd ∧
    match rq_m q with
    | MFin x => ∃ x', rq_m q' = MFin x' ∧ (x' * mprod (gscale r) Fd = x * mprod (gscale r) Fs)%Qc
    | MNaN => rq_m q' = MNaN
    | _ => True
    end.

Lemma exact_unit_fun r a F B F' B' : exact_unit r a F B → exact_unit r a F' B' → F = F' ∧ B = B'.
Proof. intros (H & _) (H' & _). rewrite H in H'. injection H' as -> ->. auto. Qed.

(** the generic step: converting to a container of the same dimensionality *)
Lemma to_same_quantity r q ord dst d Fs Bs Fd Bd :
  reg_nz r → wf (rq_u q) →
  exact_unit r (rq_u q) Fs Bs → exact_unit r dst Fd Bd →
  dim_of r (rq_u q) = Ok d → dim_of r dst = Ok d →
  ∃ q', rq_to r q ord dst = Ok q' ∧ rq_u q' = dst ∧ rq_ord q' = ord ∧ same_quantity r q q'.
Proof.
  intros Hnz Wq Es Ed Ds Dd.
  destruct (conv_factor_value r (rq_u q) dst Fs Bs Fd Bd d Hnz Wq Es Ed Ds Dd) as [ex Hc].
  unfold rq_to, convert_mag. destruct (uc_eqb (rq_u q) dst) eqn:E.
  - apply uc_eqb_spec in E. subst dst. destruct (exact_unit_fun _ _ _ _ _ _ Es Ed) as [-> ->].
    eexists. simpl. split; [reflexivity|]. split; [reflexivity|]. split; [reflexivity|].
    exists d, Fd, Bd, Fd, Bd. simpl. split; [exact Ds|]. split; [exact Ds|]. split; [exact Ed|]. split; [exact Ed|].
    destruct (rq_m q) as [x| | | |]; simpl; auto. exists x. split; reflexivity.
  - rewrite Hc. simpl. eexists. split; [reflexivity|]. split; [reflexivity|]. split; [reflexivity|].
    exists d, Fs, Bs, Fd, Bd. simpl. split; [exact Ds|]. split; [exact Dd|]. split; [exact Es|]. split; [exact Ed|].
    destruct (rq_m q) as [x| | | |]; simpl; auto.
    eexists. split; [reflexivity|]. field. apply mprod_neq0. apply gscale_nz. exact Hnz.
Qed.

(** * In-place twins: the two code paths compute the same object *)
Lemma rq_ito_eq_to r q ord dst : rq_ito r q ord dst = rq_to r q ord dst.
Proof. unfold rq_ito, rq_to. destruct (convert_mag r (rq_m q) (rq_u q) dst); reflexivity. Qed.
Lemma ito_root_eq_to r q : ito_root_units r q = to_root_units r q.
Proof.
  unfold ito_root_units, to_root_units. destruct (root_of r (rq_u q)) as [[[f b] ex]|]; simpl; [apply rq_ito_eq_to | reflexivity].
Qed.
Lemma ito_base_eq_to r gbu q : ito_base_units r gbu q = to_base_units r gbu q.
Proof. unfold ito_base_units, to_base_units. destruct (gbu (rq_u q)); simpl; [apply rq_ito_eq_to | reflexivity]. Qed.
Lemma ito_reduced_eq_to r q : ito_reduced_units r q = to_reduced_units r q.
Proof.
  unfold ito_reduced_units, to_reduced_units. destruct (dimensionless r q) as [[|]|]; simpl; [apply rq_ito_eq_to | | reflexivity].
  destruct (size (rq_u q) =? 1)%nat; [reflexivity|].
  destruct (get_reduced_units r (rq_ord q) (rq_u q)); simpl; [apply rq_ito_eq_to | reflexivity].
Qed.
Lemma ito_preferred_eq_to mip pd r q prefs : ito_preferred mip pd r q prefs = to_preferred mip pd r q prefs.
Proof. unfold ito_preferred, to_preferred. destruct (get_preferred mip pd r q prefs); simpl; [apply rq_ito_eq_to | reflexivity]. Qed.

(** * Row equations: one level of [dim_rec] / [root_rec] in closed form *)
Lemma sem_list_wf row l D : sem_list row l = Some D → wf D.
Proof.
  destruct l as [|[k v] l]; simpl.
  - intros [= <-]. apply wf_empty.
  - destruct (row k); simpl; [|discriminate]. destruct (sem_list row l); simpl; [|discriminate].
    intros [= <-]. apply wf_mul. apply wf_pow.
Qed.
Lemma opt_pow_one D : (∀ x, D = Some x → wf x) → opt_pow D 1 = D.
Proof. destruct D as [x|]; simpl; [|reflexivity]. intros H. rewrite uc_pow_one by (apply H; reflexivity). reflexivity. Qed.
Lemma sem_list_ext row1 row2 l : (∀ kv, kv ∈ l → row1 kv.1 = row2 kv.1) → sem_list row1 l = sem_list row2 l.
Proof.
  induction l as [|[k v] l IH]; intros H; simpl; [reflexivity|].
  pose proof (H (k, v) ltac:(left)) as Hk. simpl in Hk. rewrite Hk. rewrite IH; [reflexivity|]. intros kv Hin. apply H. right. exact Hin.
Qed.
Lemma sem_list_mono row1 row2 l D :
  (∀ k x, row1 k = Some x → row2 k = Some x) → sem_list row1 l = Some D → sem_list row2 l = Some D.
Proof.
  intros H. revert D. induction l as [|[k v] l IH]; simpl; intros D; [auto|].
  destruct (row1 k) as [x|] eqn:E1; simpl; [|discriminate].
  destruct (sem_list row1 l) as [y|]; simpl; [|discriminate]. intros [= <-].
  rewrite (H _ _ E1), (IH y eq_refl). reflexivity.
Qed.

Definition dim_row_next (r : reg) (prev : string → option uc) (k : string) : option uc :=
  if is_dim k then
    match r_dims r !! k with
    | None => None
    | Some DBase => Some {[ k := 1%Qc ]}
    | Some (DDerived dref) => sem_list prev (map_to_list dref)
    end
  else match resolve r k with Ok d => sem_list prev (map_to_list (u_ref d)) | Err _ => None end.

Lemma lin_spec_eq F D D' : D = D' → lin_spec F D → lin_spec F D'.
Proof. intros ->. exact id. Qed.

Lemma dim_row_S f r k : dim_row (S f) r k = dim_row_next r (dim_row f r) k.
Proof.
  symmetry. apply lin_unique. unfold dim_row_next, dim_step. destruct (is_dim k).
  - destruct (r_dims r !! k) as [[|dref]|].
    + eapply lin_spec_eq; [|apply (lin_add k 1)]. f_equal. apply uc_pow_one. apply wf_singleton. discriminate.
    + eapply lin_spec_eq; [|apply (lin_scale _ _ 1 (dim_rec_sem f r (map_to_list dref)))].
      apply opt_pow_one. intros x Hx. eapply sem_list_wf. exact Hx.
    + apply lin_err.
  - destruct (resolve r k) as [d|er]; simpl.
    + eapply lin_spec_eq; [|apply (lin_scale _ _ 1 (dim_rec_sem f r (map_to_list (u_ref d))))].
      apply opt_pow_one. intros x Hx. eapply sem_list_wf. exact Hx.
    + apply lin_err.
Qed.
Lemma dim_row_basedim f r k : is_dim k = true → r_dims r !! k = Some DBase → dim_row f r k = Some {[ k := 1%Qc ]}.
Proof.
  intros Hd Hk. symmetry. apply lin_unique. unfold dim_step. rewrite Hd, Hk.
  eapply lin_spec_eq; [|apply (lin_add k 1)]. f_equal. apply uc_pow_one. apply wf_singleton. discriminate.
Qed.
Lemma dim_row_0 r k D : dim_row 0 r k = Some D → is_dim k = true ∧ r_dims r !! k = Some DBase.
Proof.
  unfold dim_row, lin_val, dim_step. destruct (is_dim k).
  - destruct (r_dims r !! k) as [[|dref]|]; [auto | | discriminate].
    change (dim_rec 0 r (map_to_list dref) (1 * 1)%Qc ∅) with (@Err uc EFuel). discriminate.
  - destruct (resolve r k) as [d|]; simpl; [|discriminate].
    change (dim_rec 0 r (map_to_list (u_ref d)) (1 * 1)%Qc ∅) with (@Err uc EFuel). discriminate.
Qed.
Lemma dim_row_mono f r : ∀ k D, dim_row f r k = Some D → dim_row (S f) r k = Some D.
Proof.
  induction f as [|f IH]; intros k D H.
  - destruct (dim_row_0 _ _ _ H) as [Hd Hk]. rewrite (dim_row_basedim 0 r k Hd Hk) in H.
    rewrite (dim_row_basedim 1 r k Hd Hk). exact H.
  - rewrite dim_row_S in H. rewrite dim_row_S. unfold dim_row_next in *. destruct (is_dim k).
    + destruct (r_dims r !! k) as [[|dref]|]; [exact H | | exact H]. eapply sem_list_mono; [apply IH | exact H].
    + destruct (resolve r k) as [d|]; [|exact H]. eapply sem_list_mono; [apply IH | exact H].
Qed.

Lemma sem_list2_wf row l DF DB : sem_list2 row l = Some (DF, DB) → wf DF ∧ wf DB.
Proof.
  rewrite sem_list2_split. destruct (sem_list (rowF row) l) eqn:E1; [|discriminate].
  destruct (sem_list (rowB row) l) eqn:E2; [|discriminate]. intros [= <- <-]. eauto using sem_list_wf.
Qed.
Lemma lin2_spec_eq G D D' : D = D' → lin2_spec G D → lin2_spec G D'.
Proof. intros ->. exact id. Qed.
Lemma gen_of_wf d : wf (gen_of d).
Proof. unfold gen_of. destruct (_ && _); [apply wf_empty | apply wf_singleton; discriminate]. Qed.

Lemma root_row_err f r k e : resolve r k = Err e → root_row f r k = None.
Proof.
  intros H. symmetry. apply lin2_unique. eapply lin2_ext; [|apply (lin2_err e)].
  intros x acc. unfold root_step. rewrite H. reflexivity.
Qed.
Lemma root_row_base f r k d : resolve r k = Ok d → u_base d = true → root_row f r k = Some (∅, {[ u_name d := 1%Qc ]}).
Proof.
  intros H Hb. symmetry. apply lin2_unique. eapply lin2_ext; cycle 1.
  - eapply lin2_spec_eq; [|apply (lin2_addB (u_name d) 1)]. do 2 f_equal. apply uc_pow_one. apply wf_singleton. discriminate.
  - intros e acc. unfold root_step. rewrite H. simpl. rewrite Hb. reflexivity.
Qed.
Lemma root_row_nonbase_0 r k d : resolve r k = Ok d → u_base d = false → root_row 0 r k = None.
Proof.
  intros H Hb. unfold root_row, lin2_val, root_step. rewrite H. simpl. rewrite Hb. reflexivity.
Qed.
Lemma root_row_nonbase f r k d :
  resolve r k = Ok d → u_base d = false →
  root_row (S f) r k = match sem_list2 (root_row f r) (map_to_list (u_ref d)) with
                       | Some (DF, DB) => Some (uc_mul (gen_of d) DF, DB)
                       | None => None
                       end.
Proof.
  intros H Hb. symmetry. apply lin2_unique.
  pose proof (root_rec_sem f r (map_to_list (u_ref d))) as HD.
  eapply lin2_spec_eq; [|eapply lin2_ext; [|apply (lin2_bind _ _ _ _
     (lin2_addF d 1 (λ e x, x && (is_int (e * 1) && negb (u_float d)))) (lin2_scale _ _ 1 HD))]].
  - destruct (sem_list2 (root_row f r) (map_to_list (u_ref d))) as [[DF DB]|] eqn:E; simpl; [|reflexivity].
    destruct (sem_list2_wf _ _ _ _ E) as [W1 W2].
    rewrite !uc_pow_one by (assumption || apply gen_of_wf). rewrite uc_mul_empty_l by assumption. reflexivity.
  - intros e acc. unfold root_step. rewrite H. simpl. rewrite Hb. reflexivity.
Qed.

(** * Registry well-formedness used by the root-units theorem (decidable: [reg_okb]) *)
Record reg_ok (r : reg) : Prop := RegOk {
  rk_base_self : ∀ s d, resolve r s = Ok d → u_base d = true →
    is_dim (u_name d) = false ∧
    ∃ d', resolve r (u_name d) = Ok d' ∧ u_base d' = true ∧ u_name d' = u_name d ∧ u_ref d' = u_ref d;
  rk_base_ref : ∀ s d, resolve r s = Ok d → u_base d = true →
    ∀ k v, u_ref d !! k = Some v → is_dim k = true ∧ r_dims r !! k = Some DBase;
  rk_ref_nodim : ∀ s d, resolve r s = Ok d → u_base d = false →
    ∀ k v, u_ref d !! k = Some v → is_dim k = false }.

Definition def_okb (r : reg) (d : udef) : bool :=
  if u_base d then
    negb (is_dim (u_name d)) &&
    match r_units r !! (u_name d) with
    | Some d' => u_base d' && String.eqb (u_name d') (u_name d) && uc_eqb (u_ref d') (u_ref d)
    | None => false
    end &&
    forallb (λ kv : string * Qc, is_dim kv.1 && match r_dims r !! kv.1 with Some DBase => true | _ => false end)
            (map_to_list (u_ref d))
  else forallb (λ kv : string * Qc, negb (is_dim kv.1)) (map_to_list (u_ref d)).
Definition reg_okb (r : reg) : bool :=
  forallb (λ kd : string * udef, negb (is_dim kd.1) && def_okb r kd.2) (map_to_list (r_units r)).

Lemma resolve_cases r s d :
  resolve r s = Ok d →
  (∃ k, r_units r !! k = Some d) ∨
  (u_base d = false ∧ ∃ u ud, u_ref d = {[ u := 1%Qc ]} ∧ r_units r !! u = Some ud).
Proof.
  unfold resolve. destruct (r_units r !! s) eqn:E1; [intros [= <-]; eauto|].
  destruct (parse_unit_name r s) as [|[p u] l]; [discriminate|].
  destruct (String.eqb p "").
  - destruct (r_units r !! u) eqn:E2; [intros [= <-]; eauto | discriminate].
  - destruct (r_units r !! (p ++ u)) eqn:E5; [intros [= <-]; eauto|].
    unfold prefixed_def. destruct (r_prefixes r !! p); [|discriminate].
    destruct (r_units r !! u) as [ud|] eqn:E4; [|discriminate].
    destruct (negb (u_multiplicative ud)); [discriminate|].
    destruct (get_symbol r (p ++ u)); simpl; [|discriminate]. intros [= <-]. right. simpl. eauto.
Qed.
Lemma reg_okb_spec r : reg_okb r = true → reg_ok r.
Proof.
  unfold reg_okb. rewrite forallb_forall. intros H.
  assert (U : ∀ k d, r_units r !! k = Some d → is_dim k = false ∧ def_okb r d = true).
  { intros k d E. specialize (H (k, d)). simpl in H. apply andb_true_iff in H as [H1 H2].
    - split; [apply negb_true_iff; exact H1 | exact H2].
    - apply elem_of_list_In, elem_of_map_to_list, E. }
  assert (L : ∀ (P : string * Qc → bool) (a : uc) k v, forallb P (map_to_list a) = true → a !! k = Some v → P (k, v) = true).
  { intros P a k v HP E. rewrite forallb_forall in HP. apply HP. apply elem_of_list_In, elem_of_map_to_list, E. }
  split.
  - intros s d Hr Hb. destruct (resolve_cases _ _ _ Hr) as [[k E]|[Hnb _]]; [|congruence].
    destruct (U k d E) as [_ Hd]. unfold def_okb in Hd. rewrite Hb in Hd.
    apply andb_true_iff in Hd as [Hd _]. apply andb_true_iff in Hd as [Hn Hd].
    split; [apply negb_true_iff; exact Hn|].
    destruct (r_units r !! u_name d) as [d'|] eqn:E'; [|discriminate].
    apply andb_true_iff in Hd as [Hd H3]. apply andb_true_iff in Hd as [H1 H2].
    exists d'. split; [unfold resolve; rewrite E'; reflexivity|]. split; [exact H1|].
    split; [apply String.eqb_eq; exact H2 | apply uc_eqb_spec; exact H3].
  - intros s d Hr Hb k v Ek. destruct (resolve_cases _ _ _ Hr) as [[k' E]|[Hnb _]]; [|congruence].
    destruct (U k' d E) as [_ Hd]. unfold def_okb in Hd. rewrite Hb in Hd.
    apply andb_true_iff in Hd as [_ Hd]. pose proof (L _ _ _ _ Hd Ek) as Hk. simpl in Hk.
    apply andb_true_iff in Hk as [H1 H2]. split; [exact H1|].
    destruct (r_dims r !! k) as [[|?]|]; try discriminate. reflexivity.
  - intros s d Hr Hb k v Ek. destruct (resolve_cases _ _ _ Hr) as [[k' E]|[_ (u & ud & Hu & Eu)]].
    + destruct (U k' d E) as [_ Hd]. unfold def_okb in Hd. rewrite Hb in Hd.
      pose proof (L _ _ _ _ Hd Ek) as Hk. simpl in Hk. apply negb_true_iff. exact Hk.
    + rewrite Hu in Ek. apply lookup_singleton_Some in Ek as [<- _]. exact (proj1 (U u ud Eu)).
Qed.

(** * The root units of a container have the container's dimensionality, and are their own
      root units with factor 1 *)
Lemma sem_lift r (rowR : string → option (uc * uc)) (rowD : string → option uc) :
  (∀ k F B, is_dim k = false → rowR k = Some (F, B) →
     ∃ D, rowD k = Some D ∧ dsem r B = Some D ∧ rsem r B = Some (∅, B)) →
  ∀ l, (∀ kv : string * Qc, kv ∈ l → is_dim kv.1 = false) → ∀ F B, sem_list2 rowR l = Some (F, B) →
  ∃ D, sem_list rowD l = Some D ∧ dsem r B = Some D ∧ rsem r B = Some (∅, B).
Proof.
  intros Hrow. induction l as [|[k v] l IH]; intros Hl F B; simpl.
  - intros [= <- <-]. exists ∅. split; [reflexivity|]. split; [apply dsem_empty | apply rsem_empty].
  - destruct (rowR k) as [[Fk Bk]|] eqn:Ek; simpl; [|discriminate].
    destruct (sem_list2 rowR l) as [[F' B']|] eqn:El; simpl; [|discriminate]. intros [= <- <-].
    destruct (Hrow k Fk Bk (Hl (k, v) ltac:(left)) Ek) as (Dk & H1 & H2 & H3).
    destruct (IH (λ kv Hin, Hl kv ltac:(right; exact Hin)) F' B' eq_refl) as (D' & H4 & H5 & H6).
    exists (uc_mul (uc_pow Dk v) D'). rewrite H1, H4. simpl. split; [reflexivity|]. split.
    + apply dsem_mul; [apply dsem_pow; exact H2 | exact H5].
    + rewrite (rsem_mul r (uc_pow Bk v) B' (uc_pow ∅ v) (uc_pow Bk v) ∅ B'); [|apply rsem_pow; exact H3 | exact H6].
      rewrite uc_pow_empty, uc_mul_empty_r. reflexivity.
Qed.

Lemma root_dim_row r : reg_ok r → ∀ g k F B, is_dim k = false → root_row g r k = Some (F, B) →
  ∃ D, dim_row (S g) r k = Some D ∧ dsem r B = Some D ∧ rsem r B = Some (∅, B).
Proof.
  intros Hok. induction g as [|g IH]; intros k F B Hk H;
    (destruct (resolve r k) as [d|er] eqn:Er; [|rewrite (root_row_err _ _ _ _ Er) in H; discriminate]);
    (destruct (u_base d) eqn:Hb;
     [ (* base unit: any fuel *)
       rewrite (root_row_base _ _ _ _ Er Hb) in H; injection H as <- <-;
       destruct (rk_base_self r Hok k d Er Hb) as (Hn & d' & Er' & Hb' & Hn' & Href);
       pose proof (rk_base_ref r Hok k d Er Hb) as Hdims;
       assert (Hrow : ∀ f, dim_row (S f) r k = sem_list (λ key, Some {[ key := 1%Qc ]}) (map_to_list (u_ref d)));
       [ intros f; rewrite dim_row_S; unfold dim_row_next; rewrite Hk, Er; apply sem_list_ext;
         intros [key v] Hin; apply elem_of_map_to_list in Hin; destruct (Hdims key v Hin) as [Hd1 Hd2];
         simpl; apply dim_row_basedim; assumption |];
       assert (Hrow' : ∀ f, dim_row (S f) r (u_name d) = sem_list (λ key, Some {[ key := 1%Qc ]}) (map_to_list (u_ref d)));
       [ intros f; rewrite dim_row_S; unfold dim_row_next; rewrite Hn, Er', Href; apply sem_list_ext;
         intros [key v] Hin; apply elem_of_map_to_list in Hin; destruct (Hdims key v Hin) as [Hd1 Hd2];
         simpl; apply dim_row_basedim; assumption |];
       destruct (sem_list (λ key, Some {[ key := 1%Qc ]}) (map_to_list (u_ref d))) as [D|] eqn:ED;
       [ exists D; split; [apply Hrow|]; pose proof (sem_list_wf _ _ _ ED) as WD; split;
         [ unfold dsem; rewrite map_to_list_singleton; simpl; unfold drow; rewrite (Hrow' 62%nat); simpl;
           rewrite uc_pow_one, uc_mul_empty_r by assumption; reflexivity
         | unfold rsem; rewrite map_to_list_singleton; simpl; unfold rrow;
           rewrite (root_row_base 63%nat r (u_name d) d' Er' Hb'), Hn'; simpl;
           rewrite uc_pow_empty, uc_mul_empty_r, uc_mul_empty_r, uc_pow_one by (apply wf_singleton; discriminate); reflexivity ]
       | exfalso; destruct (sem_list_None _ _ ED) as [kv [_ Hkv]]; discriminate ]
     | ]).
  - rewrite (root_row_nonbase_0 _ _ _ Er Hb) in H. discriminate.
  - rewrite (root_row_nonbase _ _ _ _ Er Hb) in H.
    destruct (sem_list2 (root_row g r) (map_to_list (u_ref d))) as [[DF DB]|] eqn:E; [|discriminate].
    injection H as <- <-.
    destruct (sem_lift r (root_row g r) (dim_row (S g) r) IH (map_to_list (u_ref d))) with (F := DF) (B := DB) as (D & H1 & H2 & H3).
    + intros [key v] Hin. apply elem_of_map_to_list in Hin. simpl. exact (rk_ref_nodim r Hok k d Er Hb key v Hin).
    + exact E.
    + exists D. split; [|split; assumption]. rewrite dim_row_S. unfold dim_row_next. rewrite Hk, Er. exact H1.
Qed.

Definition nodim (a : uc) : Prop := ∀ k, is_Some (a !! k) → is_dim k = false.
Definition nodimb (a : uc) : bool := forallb (λ kv : string * Qc, negb (is_dim kv.1)) (map_to_list a).
Lemma nodimb_spec a : nodimb a = true → nodim a.
Proof.
  unfold nodimb. rewrite forallb_forall. intros H k [v Hv]. apply negb_true_iff.
  apply (H (k, v)). apply elem_of_list_In, elem_of_map_to_list, Hv.
Qed.

Theorem root_units_dim r a F B d :
  reg_ok r → nodim a → rsem r a = Some (F, B) → dim_of r a = Ok d →
  dim_of r B = Ok d ∧ rsem r B = Some (∅, B).
Proof.
  intros Hok Hnd Hr Hd. apply dim_of_Ok in Hd as (d0 & Hd0 & ->).
  destruct (sem_lift r (rrow r) (dim_row 64%nat r) (root_dim_row r Hok 63%nat) (map_to_list a)) with (F := F) (B := B)
    as (D & H1 & H2 & H3).
  - intros [k v] Hin. apply elem_of_map_to_list in Hin. apply Hnd. simpl. eauto.
  - exact Hr.
  - assert (D = d0) as ->.
    { unfold dsem, drow in Hd0. apply (sem_list_mono _ (dim_row 64%nat r)) in Hd0; [congruence | apply dim_row_mono]. }
    split; [|exact H3]. apply dim_of_Ok. exists d0. auto.
Qed.

Lemma exact_unit_root r B : rsem r B = Some (∅, B) → exact_unit r B ∅ B.
Proof.
  intros H. split; [exact H|]. split; [apply integral_empty|]. intros g e Hg. rewrite lookup_empty in Hg. discriminate.
Qed.
Lemma exact_unit_root_of r a F B : reg_nz r → exact_unit r a F B → ∃ f ex, root_of r a = Ok (f, B, ex).
Proof.
  intros Hnz (Hs & Hi & Hg). pose proof (eval_factor_exact r F Hnz Hg Hi) as E.
  destruct (root_of_from_sem _ _ _ _ _ Hs E) as [ex Hr]. eauto.
Qed.

Theorem to_root_same_quantity r q F B d :
  reg_nz r → reg_ok r → wf (rq_u q) → nodim (rq_u q) → exact_unit r (rq_u q) F B → dim_of r (rq_u q) = Ok d →
  ∃ q', to_root_units r q = Ok q' ∧ rq_u q' = B ∧ same_quantity r q q'.
Proof.
  intros Hnz Hok Wq Hnd Ex Hd. destruct (exact_unit_root_of _ _ _ _ Hnz Ex) as (f & ex & Hr).
  destruct (root_units_dim r (rq_u q) F B d Hok Hnd (proj1 Ex) Hd) as [HdB HrB].
  destruct (to_same_quantity r q (keys B) B d F B ∅ B Hnz Wq Ex (exact_unit_root _ _ HrB) Hd HdB) as (q' & H1 & H2 & _ & H3).
  exists q'. unfold to_root_units. rewrite Hr. simpl. auto.
Qed.
(** [to_base_units]: the target comes from the active system (C14); whatever it is, if it has the
    input's dimensionality the value is preserved *)
Theorem to_base_same_quantity r gbu q b d Fs Bs Fd Bd :
  reg_nz r → wf (rq_u q) → gbu (rq_u q) = Ok b →
  exact_unit r (rq_u q) Fs Bs → exact_unit r b Fd Bd → dim_of r (rq_u q) = Ok d → dim_of r b = Ok d →
  ∃ q', to_base_units r gbu q = Ok q' ∧ rq_u q' = b ∧ same_quantity r q q'.
Proof.
  intros Hnz Wq Hg Es Ed Ds Dd.
  destruct (to_same_quantity r q (keys b) b d Fs Bs Fd Bd Hnz Wq Es Ed Ds Dd) as (q' & H1 & H2 & _ & H3).
  exists q'. unfold to_base_units. rewrite Hg. simpl. auto.
Qed.

(** * [to_reduced_units] *)
Lemma elem_of_keys (a : uc) k : k ∈ keys a ↔ is_Some (a !! k).
Proof.
  unfold keys. rewrite elem_of_list_fmap. split.
  - intros [[k' v] [-> Hin]]. apply elem_of_map_to_list in Hin. simpl. eauto.
  - intros [v Hv]. exists (k, v). split; [reflexivity | apply elem_of_map_to_list; exact Hv].
Qed.
Lemma forallb_keys (P : string → bool) (a : uc) k : forallb P (keys a) = true → is_Some (a !! k) → P k = true.
Proof. rewrite forallb_forall. intros H Hk. apply H. apply elem_of_list_In, elem_of_keys, Hk. Qed.

(** the ratio returned solves dim2 = dim1 ** p *)
Lemma ratio_of_dims_spec d1 d2 p : wf d1 → wf d2 → ratio_of_dims d1 d2 = Some p → uc_pow d1 p = d2.
Proof.
  intros W1 W2. unfold ratio_of_dims. destruct (uc_eqb d1 d2) eqn:E.
  - intros [= <-]. apply uc_eqb_spec in E. subst. apply uc_pow_one; assumption.
  - destruct (uc_eqb d1 ∅ || uc_eqb d2 ∅ || negb (same_keys d1 d2)) eqn:E2; [discriminate|].
    apply orb_false_iff in E2 as [_ E3]. apply negb_false_iff in E3.
    unfold same_keys in E3. apply andb_true_iff in E3 as [K12 K21].
    destruct (map (λ kv : string * Qc, (exp_of d2 kv.1 / kv.2)%Qc) (map_to_list d1)) as [|f rs] eqn:Em; [discriminate|].
    destruct (forallb (λ x : Qc, bool_decide (x = f)) rs) eqn:Ef; [|discriminate]. intros [= <-].
    assert (All : ∀ k v, d1 !! k = Some v → (exp_of d2 k / v = f)%Qc).
    { intros k v Hk.
      assert (Hin : (exp_of d2 k / v)%Qc ∈ f :: rs).
      { rewrite <- Em. apply elem_of_list_fmap. exists (k, v). split; [reflexivity | apply elem_of_map_to_list; exact Hk]. }
      apply elem_of_cons in Hin as [->|Hin]; [reflexivity|].
      rewrite forallb_forall in Ef. apply elem_of_list_In in Hin. apply Ef in Hin. apply bool_decide_eq_true in Hin. exact Hin. }
    apply uc_ext; [apply wf_pow | exact W2 |]. intros k. rewrite exp_of_pow.
    unfold exp_of at 1. destruct (d1 !! k) as [v|] eqn:Ek; simpl.
    + rewrite <- (All k v Ek). field. exact (wf_lookup _ _ _ W1 Ek).
    + unfold exp_of. destruct (d2 !! k) as [w|] eqn:Ek2; simpl; [|ring].
      pose proof (forallb_keys _ _ k K21 ltac:(eauto)) as Hc. apply bool_decide_eq_true in Hc.
      rewrite Ek in Hc. destruct Hc as [? [=]].
Qed.

Definition mergeable (r : reg) (u1 u2 : string) : Prop := ∃ p, dim_ratio r u1 u2 = Ok (Some p) ∧ p ≠ 0%Qc.

Lemma dim1_unfold r u : dim1 r u = dim_of r {[ u := 1%Qc ]}.
Proof. reflexivity. Qed.
Lemma dim1_wf r u D : dim1 r u = Ok D → wf D.
Proof. rewrite dim1_unfold. intros H. exact (proj1 (dim_of_canonical r _ _ H)). Qed.
Lemma dim_ratio_unfold r u1 u2 : dim_ratio r u1 u2 =
  if String.eqb u1 u2 then Ok (Some 1%Qc)
  else d1 ←r dim1 r u1; d2 ←r dim1 r u2; Ok (ratio_of_dims d1 d2).
Proof. reflexivity. Qed.
Lemma dim_ratio_spec r u1 u2 p :
  u1 ≠ u2 → dim_ratio r u1 u2 = Ok (Some p) →
  ∃ D1 D2, dim1 r u1 = Ok D1 ∧ dim1 r u2 = Ok D2 ∧ uc_pow D1 p = D2.
Proof.
  intros Hne. rewrite dim_ratio_unfold. destruct (String.eqb u1 u2) eqn:E; [apply String.eqb_eq in E; contradiction|].
  destruct (dim1 r u1) as [D1|] eqn:E1; [|discriminate].
  destruct (dim1 r u2) as [D2|] eqn:E2; [|discriminate]. cbn [rbind]. intros H. injection H as H.
  exists D1, D2. split; [reflexivity|]. split; [reflexivity|].
  apply (ratio_of_dims_spec D1 D2 p (dim1_wf _ _ _ E1) (dim1_wf _ _ _ E2) H).
Qed.

Lemma find_merge_Some r u1 cands u2 p :
  find_merge r u1 cands = Ok (Some (u2, p)) →
  u2 ∈ cands ∧ u1 ≠ u2 ∧ dim_ratio r u1 u2 = Ok (Some p) ∧ p ≠ 0%Qc.
Proof.
  induction cands as [|c cs IH]; simpl; [discriminate|].
  destruct (String.eqb u1 c) eqn:E.
  - intros H. destruct (IH H) as (H1 & H2). split; [right; exact H1 | exact H2].
  - apply String.eqb_neq in E. destruct (dim_ratio r u1 c) as [[x|]|] eqn:Er; simpl; [| |discriminate].
    + destruct (qz x) eqn:Ez.
      * intros H. destruct (IH H) as (H1 & H2). split; [right; exact H1 | exact H2].
      * intros [= <- <-]. apply qz_false in Ez. split; [left|]. auto.
    + intros H. destruct (IH H) as (H1 & H2). split; [right; exact H1 | exact H2].
Qed.
Lemma find_merge_None r u1 cands :
  find_merge r u1 cands = Ok None → ∀ u2, u2 ∈ cands → u1 ≠ u2 → ¬ mergeable r u1 u2.
Proof.
  induction cands as [|c cs IH]; simpl; intros H u2 Hin Hne; [inversion Hin|].
  destruct (String.eqb u1 c) eqn:E.
  - apply String.eqb_eq in E. subst c. apply elem_of_cons in Hin as [->|Hin]; [contradiction | exact (IH H u2 Hin Hne)].
  - destruct (dim_ratio r u1 c) as [[x|]|] eqn:Er; simpl in H; [| |discriminate].
    + destruct (qz x) eqn:Ez; [|discriminate]. apply qz_spec in Ez. subst x.
      apply elem_of_cons in Hin as [->|Hin]; [|exact (IH H u2 Hin Hne)].
      intros (p & Hp & Hnz). rewrite Er in Hp. injection Hp as <-. contradiction.
    + apply elem_of_cons in Hin as [->|Hin]; [|exact (IH H u2 Hin Hne)].
      intros (p & Hp & _). rewrite Er in Hp. discriminate.
Qed.

Lemma exp_of_delete (a : uc) u k : exp_of (delete u a) k = if decide (u = k) then 0%Qc else exp_of a k.
Proof.
  unfold exp_of. destruct (decide (u = k)) as [->|N]; [rewrite lookup_delete | rewrite lookup_delete_ne by assumption]; reflexivity.
Qed.
Lemma dim_of_sub r a b d : dim_of r a = Ok d → (∀ k, is_Some (b !! k) → is_Some (a !! k)) → ∃ d', dim_of r b = Ok d'.
Proof.
  intros Hd Hsub. apply dim_of_Ok in Hd as (d0 & Hd0 & _).
  destruct (dsem_is_Some r b) as [x Hx]; [intros k Hk; eapply dsem_rows; eauto|].
  exists (delete "[]" x). apply dim_of_Ok. eauto.
Qed.

(** one merge keeps the dimensionality *)
Lemma merge_dim r a u1 u2 e p D1 D2 d :
  wf a → a !! u1 = Some e → u1 ≠ u2 → dim1 r u1 = Ok D1 → dim1 r u2 = Ok D2 → uc_pow D1 p = D2 → p ≠ 0%Qc →
  dim_of r a = Ok d → dim_of r (delete u1 (uc_add a u2 (e / p))) = Ok d.
Proof.
  intros Wa Ea Hne H1 H2 HD Hp Hd. rewrite dim1_unfold in H1, H2.
  set (a' := delete u1 a).
  assert (Wa' : wf a') by (apply wf_delete; exact Wa).
  assert (Ha : a = uc_mul a' (uc_pow {[ u1 := 1%Qc ]} e)).
  { apply uc_ext; [exact Wa | apply wf_mul; exact Wa' |]. intros k.
    rewrite exp_of_mul, exp_of_pow, exp_of_singleton. unfold a'. rewrite exp_of_delete.
    destruct (decide (u1 = k)) as [<-|N]; [unfold exp_of; rewrite Ea; simpl; ring | ring]. }
  assert (Hn : delete u1 (uc_add a u2 (e / p)) = uc_mul a' (uc_pow {[ u2 := 1%Qc ]} (e / p))).
  { apply uc_ext; [apply wf_delete, wf_add; exact Wa | apply wf_mul; exact Wa' |]. intros k.
    rewrite exp_of_delete, exp_of_mul, exp_of_pow, exp_of_singleton. unfold a'. rewrite exp_of_delete, exp_of_add.
    destruct (decide (u1 = k)) as [<-|N].
    - destruct (decide (u2 = u1)) as [->|N2]; [contradiction | ring].
    - destruct (decide (u2 = k)) as [<-|N2]; ring. }
  destruct (dim_of_sub r a a' d Hd) as [da' Hda'].
  { intros k. unfold a'. destruct (decide (u1 = k)) as [->|N]; [rewrite lookup_delete; intros [? [=]] | rewrite lookup_delete_ne by assumption; auto]. }
  pose proof (dim_of_mul r a' _ _ _ Hda' (dim_of_pow r _ e _ H1)) as Ha2. rewrite <- Ha, Hd in Ha2. injection Ha2 as ->.
  rewrite Hn. rewrite (dim_of_mul r a' _ _ _ Hda' (dim_of_pow r _ (e / p) _ H2)). do 2 f_equal.
  rewrite <- HD, uc_pow_pow. f_equal. field. exact Hp.
Qed.

Lemma lookup_add_Some (a : uc) u x k : is_Some (a !! u) → is_Some (uc_add a u x !! k) → is_Some (a !! k).
Proof.
  intros Hu. unfold uc_add. destruct (qz _).
  - destruct (decide (u = k)) as [->|N]; [rewrite lookup_delete; intros [? [=]] | rewrite lookup_delete_ne by assumption; auto].
  - destruct (decide (u = k)) as [->|N]; [auto | rewrite lookup_insert_ne by assumption; auto].
Qed.
Lemma elem_of_present a ord k : k ∈ present a ord ↔ k ∈ ord ∧ is_Some (a !! k).
Proof.
  unfold present. rewrite elem_of_list_filter. rewrite bool_decide_spec. tauto.
Qed.

(** what one step of the outer loop can do *)
Lemma reduce_step_cases r ord a u1 a' :
  reduce_step r ord a u1 = Ok a' →
  (a' = a ∧ (a !! u1 = None ∨ find_merge r u1 (present a ord) = Ok None)) ∨
  (∃ e u2 p, a !! u1 = Some e ∧ find_merge r u1 (present a ord) = Ok (Some (u2, p)) ∧ a' = delete u1 (uc_add a u2 (e / p))).
Proof.
  unfold reduce_step. destruct (a !! u1) as [e|] eqn:E; [|intros [= <-]; auto].
  destruct (find_merge r u1 (present a ord)) as [[[u2 p]|]|] eqn:F; simpl; [| |discriminate].
  - intros [= <-]. right. eauto 10.
  - intros [= <-]. auto.
Qed.
Lemma reduce_step_keys r ord a u1 a' : reduce_step r ord a u1 = Ok a' → ∀ k, is_Some (a' !! k) → is_Some (a !! k).
Proof.
  intros H. destruct (reduce_step_cases _ _ _ _ _ H) as [[-> _]|(e & u2 & p & E & F & ->)]; [auto|].
  intros k. destruct (decide (u1 = k)) as [->|N]; [rewrite lookup_delete; intros [? [=]]|].
  rewrite lookup_delete_ne by assumption. apply lookup_add_Some.
  apply find_merge_Some in F as (Hin & _). apply elem_of_present in Hin. tauto.
Qed.
Lemma reduce_step_inv r ord a u1 a' d :
  reduce_step r ord a u1 = Ok a' → wf a → dim_of r a = Ok d → wf a' ∧ dim_of r a' = Ok d.
Proof.
  intros H Wa Hd. destruct (reduce_step_cases _ _ _ _ _ H) as [[-> _]|(e & u2 & p & E & F & ->)]; [auto|].
  split; [apply wf_delete, wf_add; exact Wa|].
  apply find_merge_Some in F as (_ & Hne & Hr & Hp).
  destruct (dim_ratio_spec _ _ _ _ Hne Hr) as (D1 & D2 & H1 & H2 & HD).
  exact (merge_dim r a u1 u2 e p D1 D2 d Wa E Hne H1 H2 HD Hp Hd).
Qed.
Lemma reduce_fold_keys r ord : ∀ L a b, foldM (reduce_step r ord) L a = Ok b → ∀ k, is_Some (b !! k) → is_Some (a !! k).
Proof.
  induction L as [|u L IH]; simpl; intros a b; [intros [= <-]; auto|].
  destruct (reduce_step r ord a u) as [a1|] eqn:E; simpl; [|discriminate].
  intros H k Hk. eapply reduce_step_keys; [exact E|]. eapply IH; eauto.
Qed.
Lemma reduce_fold_inv r ord d : ∀ L a b, foldM (reduce_step r ord) L a = Ok b → wf a → dim_of r a = Ok d → wf b ∧ dim_of r b = Ok d.
Proof.
  induction L as [|u L IH]; simpl; intros a b; [intros [= <-]; auto|].
  destruct (reduce_step r ord a u) as [a1|] eqn:E; simpl; [|discriminate].
  intros H Wa Hd. destruct (reduce_step_inv _ _ _ _ _ _ E Wa Hd). eapply IH; eauto.
Qed.

(** the result of [_get_reduced_units] has the dimensionality of the input … *)
Theorem reduced_units_dim r ord a b d :
  get_reduced_units r ord a = Ok b → wf a → dim_of r a = Ok d → wf b ∧ dim_of r b = Ok d.
Proof. apply reduce_fold_inv. Qed.
Theorem reduced_units_subset r ord a b : get_reduced_units r ord a = Ok b → ∀ k, is_Some (b !! k) → is_Some (a !! k).
Proof. apply reduce_fold_keys. Qed.

(** … and contains no two distinct units with a dimensionality ratio: a surviving unit was
    present when the other was visited, which would have merged it *)
Lemma reduce_fold_nomerge r ord : ∀ L a b,
  foldM (reduce_step r ord) L a = Ok b → (∀ k, is_Some (a !! k) → k ∈ ord) →
  ∀ u1, u1 ∈ L → is_Some (b !! u1) → ∀ u2, is_Some (b !! u2) → u1 ≠ u2 → ¬ mergeable r u1 u2.
Proof.
  induction L as [|u L IH]; simpl; intros a b H Hord u1 Hin; [inversion Hin|].
  destruct (reduce_step r ord a u) as [a1|] eqn:E; simpl in H; [|discriminate].
  intros Hb1 u2 Hb2 Hne.
  assert (Hord1 : ∀ k, is_Some (a1 !! k) → k ∈ ord) by (intros k Hk; apply Hord; eapply reduce_step_keys; eauto).
  destruct (decide (u1 ∈ L)) as [HinL|HninL]; [exact (IH a1 b H Hord1 u1 HinL Hb1 u2 Hb2 Hne)|].
  apply elem_of_cons in Hin as [->|?]; [|contradiction].
  pose proof (reduce_fold_keys _ _ _ _ _ H u Hb1) as Ha1u.
  pose proof (reduce_fold_keys _ _ _ _ _ H u2 Hb2) as Ha1u2.
  destruct (reduce_step_cases _ _ _ _ _ E) as [[-> [En|Fn]]|(e & u2' & p & _ & _ & ->)].
  - rewrite En in Ha1u. destruct Ha1u as [? [=]].
  - apply (find_merge_None _ _ _ Fn u2); [|exact Hne]. apply elem_of_present. split; [apply Hord; exact Ha1u2 | exact Ha1u2].
  - rewrite lookup_delete in Ha1u. destruct Ha1u as [? [=]].
Qed.
Theorem reduced_no_mergeable_pair r ord a b :
  get_reduced_units r ord a = Ok b → (∀ k, is_Some (a !! k) → k ∈ ord) →
  ∀ u1 u2, is_Some (b !! u1) → is_Some (b !! u2) → u1 ≠ u2 → ¬ mergeable r u1 u2.
Proof.
  intros H Hord u1 u2 H1 H2 Hne. apply (reduce_fold_nomerge r ord ord a b H Hord u1); try assumption.
  apply Hord. eapply reduced_units_subset; eauto.
Qed.

Lemma same_quantity_refl r q d F B : dim_of r (rq_u q) = Ok d → exact_unit r (rq_u q) F B → same_quantity r q q.
Proof.
  intros Hd Ex. exists d, F, B, F, B. split; [exact Hd|]. split; [exact Hd|]. split; [exact Ex|]. split; [exact Ex|].
  destruct (rq_m q) as [x| | | |]; auto. exists x. split; reflexivity.
Qed.

(** converting to the reduced container is defined and keeps the quantity *)
Theorem reduced_units_same_quantity r q new d F B F' B' :
  reg_nz r → wf (rq_u q) → exact_unit r (rq_u q) F B → dim_of r (rq_u q) = Ok d →
  get_reduced_units r (rq_ord q) (rq_u q) = Ok new → exact_unit r new F' B' →
  ∃ q', rq_to r q (present new (rq_ord q)) new = Ok q' ∧ rq_u q' = new ∧ same_quantity r q q'.
Proof.
  intros Hnz Wq Ex Hd Hred Ex'.
  destruct (reduced_units_dim _ _ _ _ _ Hred Wq Hd) as [_ Hd'].
  destruct (to_same_quantity r q (present new (rq_ord q)) new d F B F' B' Hnz Wq Ex Ex' Hd Hd') as (q' & H1 & H2 & _ & H3).
  eauto.
Qed.

Lemma dimensionless_true r q F B d :
  reg_ok r → nodim (rq_u q) → exact_unit r (rq_u q) F B → dim_of r (rq_u q) = Ok d →
  dimensionless r q = Ok true → d = ∅.
Proof.
  intros Hok Hnd Ex Hd. unfold dimensionless, to_root_units.
  destruct (root_of r (rq_u q)) as [[[f b] ex]|] eqn:Er; [|discriminate]. cbn [rbind].
  destruct (root_of_sem _ _ _ _ _ Er) as (F0 & Hs & _).
  destruct Ex as (Hs' & _). rewrite Hs' in Hs. injection Hs as <- <-.
  destruct (root_units_dim r (rq_u q) F B d Hok Hnd Hs' Hd) as [HdB _].
  unfold rq_to. destruct (convert_mag r (rq_m q) (rq_u q) B); [|discriminate]. cbn [rbind rq_u].
  rewrite HdB. cbn [rbind]. intros [= H]. apply uc_eqb_spec in H. exact H.
Qed.

Theorem to_reduced_same_quantity r q q' d F B :
  reg_nz r → reg_ok r → wf (rq_u q) → nodim (rq_u q) → exact_unit r (rq_u q) F B → dim_of r (rq_u q) = Ok d →
  to_reduced_units r q = Ok q' → (∃ F' B', exact_unit r (rq_u q') F' B') → same_quantity r q q'.
Proof.
  intros Hnz Hok Wq Hnd Ex Hd. unfold to_reduced_units.
  destruct (dimensionless r q) as [[|]|] eqn:Edl; [| |discriminate]; cbn [rbind].
  - pose proof (dimensionless_true r q F B d Hok Hnd Ex Hd Edl) as ->.
    intros H _.
    destruct (to_same_quantity r q [] ∅ ∅ F B ∅ ∅ Hnz Wq Ex (exact_unit_root r ∅ (rsem_empty r)) Hd (dim_of_empty r)) as (q0 & H1 & _ & _ & H3).
    rewrite H1 in H. injection H as <-. exact H3.
  - destruct (size (rq_u q) =? 1)%nat.
    + intros [= <-] _. eapply same_quantity_refl; eauto.
    + destruct (get_reduced_units r (rq_ord q) (rq_u q)) as [new|] eqn:Er; [|discriminate]. cbn [rbind].
      intros H (F' & B' & Ex').
      assert (Hu : rq_u q' = new).
      { unfold rq_to in H. destruct (convert_mag r (rq_m q) (rq_u q) new); [|discriminate]. injection H as <-. reflexivity. }
      rewrite Hu in Ex'.
      destruct (reduced_units_same_quantity r q new d F B F' B' Hnz Wq Ex Hd Er Ex') as (q0 & H1 & _ & H3).
      rewrite H1 in H. injection H as <-. exact H3.
Qed.

(** * The integer logarithm and the exact exponent of [to_compact] *)
Section Ilog.
Local Open Scope Z_scope.
Lemma zlog10_aux_spec fuel : ∀ z, 1 ≤ z → z < 2 ^ Z.of_nat fuel →
  0 ≤ zlog10_aux fuel z ∧ 10 ^ zlog10_aux fuel z ≤ z < 10 ^ (zlog10_aux fuel z + 1).
Proof.
  induction fuel as [|f IH]; intros z H1 H2.
  - simpl in H2. lia.
  - cbn [zlog10_aux]. destruct (z <? 10) eqn:E.
    + apply Z.ltb_lt in E. simpl. lia.
    + apply Z.ltb_ge in E.
      assert (Hq : 1 ≤ z / 10) by (apply Z.div_le_lower_bound; lia).
      assert (Hq2 : z / 10 < 2 ^ Z.of_nat f).
      { apply Z.div_lt_upper_bound; [lia|]. rewrite Nat2Z.inj_succ, Z.pow_succ_r in H2 by lia. lia. }
      destruct (IH (z / 10) Hq Hq2) as (P0 & P1 & P2).
      pose proof (Z.div_mod z 10 ltac:(lia)) as Hdm. pose proof (Z.mod_pos_bound z 10 ltac:(lia)) as Hm.
      set (r := zlog10_aux f (z / 10)) in *.
      replace (1 + r + 1) with (Z.succ (r + 1)) by lia. replace (1 + r) with (Z.succ r) by lia.
      rewrite !Z.pow_succ_r by lia. lia.
Qed.
Lemma zlog10_spec z : 1 ≤ z → 0 ≤ zlog10 z ∧ 10 ^ zlog10 z ≤ z < 10 ^ (zlog10 z + 1).
Proof.
  intros H. unfold zlog10. apply zlog10_aux_spec; [exact H|].
  rewrite Nat2Z.inj_succ, Z2Nat.id by apply Z.log2_nonneg.
  apply (Z.log2_spec z). lia.
Qed.

(** powers of ten in Q *)
Definition p10 (k : Z) : Q := Qpower (10 # 1) k.
Lemma p10_pos k : (0 < p10 k)%Q.
Proof. apply Qpower_0_lt. reflexivity. Qed.
Lemma p10_nonneg_inject k : 0 ≤ k → (inject_Z (10 ^ k) == p10 k)%Q.
Proof. intros H. unfold p10. rewrite Zpower_Qpower by exact H. reflexivity. Qed.
Lemma p10_add a b : (p10 (a + b) == p10 a * p10 b)%Q.
Proof. unfold p10. apply Qpower_plus. discriminate. Qed.
Lemma p10_opp a : (p10 (- a) == / p10 a)%Q.
Proof. unfold p10. apply Qpower_opp. Qed.
Lemma pow10_Q k : (this (pow10 k) == p10 k)%Q.
Proof.
  destruct k as [|p|p]; unfold pow10.
  - reflexivity.
  - rewrite this_Q2Qc. apply p10_nonneg_inject. lia.
  - rewrite this_Q2Qc. change (Z.neg p) with (- Z.pos p). rewrite p10_opp, <- p10_nonneg_inject by lia.
    assert (H : 0 < 10 ^ Z.pos p) by (apply Z.pow_pos_nonneg; lia).
    destruct (10 ^ Z.pos p) as [|z|z]; try lia. reflexivity.
Qed.

Lemma ilog10_spec_Q q : q ≠ 0%Qc →
  (p10 (ilog10 q) <= Qabs (this q))%Q ∧ (Qabs (this q) < p10 (ilog10 q + 1))%Q.
Proof.
  intros Hq. unfold ilog10. destruct q as [[n d] Hc]. cbn [this Qnum Qden].
  assert (Hn : 1 ≤ Z.abs n).
  { destruct (Z.eq_dec n 0) as [->|]; [|lia]. exfalso. apply Hq. apply Qc_is_canon. reflexivity. }
  set (s := Z.log2 (Z.pos d) + 1). set (t := Z.abs n * 10 ^ s / Z.pos d). set (z := zlog10 t).
  assert (Hs : 0 ≤ s) by (pose proof (Z.log2_nonneg (Z.pos d)); lia).
  assert (H10 : Z.pos d < 10 ^ s).
  { pose proof (Z.log2_spec (Z.pos d) ltac:(lia)) as [_ H]. fold (Z.succ (Z.log2 (Z.pos d))) in *.
    replace (Z.succ (Z.log2 (Z.pos d))) with s in H by (unfold s; lia).
    apply (Z.lt_le_trans _ _ _ H). apply Z.pow_le_mono_l. lia. }
  assert (Ht : 1 ≤ t). { apply Z.div_le_lower_bound; [lia|]. nia. }
  destruct (zlog10_spec t Ht) as (Hz0 & Hz1 & Hz2). fold z in Hz0, Hz1, Hz2.
  pose proof (Z.div_mod (Z.abs n * 10 ^ s) (Z.pos d) ltac:(lia)) as Hdm. fold t in Hdm.
  pose proof (Z.mod_pos_bound (Z.abs n * 10 ^ s) (Z.pos d) ltac:(lia)) as Hm.
  assert (L : 10 ^ z * Z.pos d ≤ Z.abs n * 10 ^ s) by nia.
  assert (U : Z.abs n * 10 ^ s < 10 ^ (z + 1) * Z.pos d) by nia.
  assert (Habs : (Qabs (n # d) == inject_Z (Z.abs n) / inject_Z (Z.pos d))%Q).
  { unfold Qabs. apply Qmake_Qdiv. }
  assert (HD : (0 < inject_Z (Z.pos d))%Q) by reflexivity.
  assert (Pm : ∀ k, (p10 (k - s) == p10 k / p10 s)%Q).
  { intros k. unfold Z.sub. rewrite p10_add, p10_opp. reflexivity. }
  rewrite Habs. split.
  - rewrite Pm. apply Qle_shift_div_r; [apply p10_pos|].
    unfold Qdiv. rewrite <- Qmult_assoc, (Qmult_comm (/ _)), Qmult_assoc. apply Qle_shift_div_l; [exact HD|].
    rewrite <- !p10_nonneg_inject by lia. rewrite <- !inject_Z_mult. rewrite <- Zle_Qle. exact L.
  - replace (z - s + 1) with (z + 1 - s) by lia. rewrite Pm. apply Qlt_shift_div_l; [apply p10_pos|].
    unfold Qdiv. rewrite <- Qmult_assoc, (Qmult_comm (/ _)), Qmult_assoc. apply Qlt_shift_div_r; [exact HD|].
    rewrite <- !p10_nonneg_inject by lia. rewrite <- !inject_Z_mult. rewrite <- Zlt_Qlt. exact U.
Qed.
Lemma ilog10_spec q : q ≠ 0%Qc → (pow10 (ilog10 q) <= Qcabs q)%Qc ∧ (Qcabs q < pow10 (ilog10 q + 1))%Qc.
Proof.
  intros Hq. destruct (ilog10_spec_Q q Hq) as [H1 H2]. unfold Qcle, Qclt. rewrite !pow10_Q. split; assumption.
Qed.

Lemma p10_mono a b : a ≤ b → (p10 a <= p10 b)%Q.
Proof.
  intros H. replace b with (a + (b - a)) by lia. rewrite p10_add.
  rewrite <- (Qmult_1_r (p10 a)) at 1. apply Qmult_le_l; [apply p10_pos|].
  rewrite <- p10_nonneg_inject by lia. change 1%Q with (inject_Z 1). rewrite <- Zle_Qle.
  pose proof (Z.pow_pos_nonneg 10 (b - a) ltac:(lia) ltac:(lia)). lia.
Qed.

Lemma qlt_0_int p : is_int p = true → qlt 0 p = (0 <? inum p).
Proof.
  intros H. unfold qlt, Qle_bool. rewrite (is_int_this p H). simpl.
  rewrite Z.mul_1_r. destruct (inum p); reflexivity.
Qed.
Lemma Qcpower_1 (m : Qc) : Qcpower m 1 = m.
Proof. simpl. ring. Qed.
Lemma compact_power_int m p : is_int p = true →
  compact_power m p = let n := ilog10 m / (3 * Z.abs (inum p)) in if 0 <? inum p then 3 * n else - (3 * n).
Proof.
  intros H. unfold compact_power, mag_abs_pow. rewrite (qlt_0_int p H).
  assert (Hd : Qden (this p) = 1%positive) by (unfold is_int in H; apply Pos.eqb_eq in H; exact H).
  rewrite Hd. change (Pos.to_nat 1) with 1%nat. rewrite Qcpower_1. reflexivity.
Qed.

(** the exact exponent puts the magnitude into [1, 1000^|p|): with e = power * p,
    10^e <= |m| < 10^e * 10^(3|p|) *)
Theorem compact_power_range m p :
  m ≠ 0%Qc → is_int p = true → inum p ≠ 0 →
  let e := compact_power m p * inum p in
  (pow10 e <= Qcabs m)%Qc ∧ (Qcabs m < pow10 e * pow10 (3 * Z.abs (inum p)))%Qc.
Proof.
  intros Hm Hi Hp e. subst e. rewrite (compact_power_int m p Hi). cbv zeta.
  set (a := Z.abs (inum p)). set (k := ilog10 m). set (n := k / (3 * a)).
  assert (Ha : 0 < a) by (unfold a; lia).
  assert (He : (if 0 <? inum p then 3 * n else - (3 * n)) * inum p = 3 * a * n).
  { destruct (0 <? inum p) eqn:E; [apply Z.ltb_lt in E | apply Z.ltb_ge in E]; unfold a; lia. }
  rewrite He. pose proof (Z.div_mod k (3 * a) ltac:(lia)) as Hdm. fold n in Hdm.
  pose proof (Z.mod_pos_bound k (3 * a) ltac:(lia)) as Hmod.
  destruct (ilog10_spec_Q m Hm) as [L U]. fold k in L, U.
  unfold Qcle, Qclt. cbn [this Qcabs Qcmult Q2Qc]. rewrite Qred_correct, !pow10_Q. split.
  - eapply Qle_trans; [|exact L]. apply p10_mono. lia.
  - eapply Qlt_le_trans; [exact U|]. rewrite <- p10_add. apply p10_mono. lia.
Qed.
(** the division form: a magnitude x with |x| * 10^e = |m| lies in [1, 10^w) *)
Lemma range_of_scaled (x m : Qc) e w :
  (Qcabs x * pow10 e = Qcabs m)%Qc → (pow10 e <= Qcabs m)%Qc → (Qcabs m < pow10 e * pow10 w)%Qc →
  (1 <= Qcabs x)%Qc ∧ (Qcabs x < pow10 w)%Qc.
Proof.
  intros E L U. rewrite <- E in L, U. unfold Qcle, Qclt in *. cbn [this Qcabs Qcmult Q2Qc] in *.
  rewrite !Qred_correct in *. rewrite !pow10_Q in *.
  pose proof (p10_pos e) as Hpos. split.
  - apply (Qmult_le_r _ _ (p10 e) Hpos). rewrite Qmult_1_l. exact L.
  - apply (Qmult_lt_r _ _ (p10 e) Hpos). rewrite (Qmult_comm (p10 w)). exact U.
Qed.
End Ilog.

(** * [to_compact]: fixed points, shape of the result, value, range *)
Lemma mag_fixed_iff m : mag_fixed m = true ↔ m = MFin 0 ∨ m = MNaN ∨ m = MPInf ∨ m = MNInf.
Proof.
  destruct m as [x| | | |]; simpl; split; intros H; try discriminate; auto 6.
  - apply qz_spec in H. subst. auto.
  - destruct H as [[= ->]|[H|[H|H]]]; try discriminate. reflexivity.
  - destruct H as [H|[H|[H|H]]]; discriminate.
Qed.
Theorem compact_fixed_unitless r q : unitless r q = Ok true → to_compact r q = Ok q.
Proof. intros H. unfold to_compact, compact_target. rewrite H. reflexivity. Qed.
Theorem compact_fixed_special r q b : unitless r q = Ok b → mag_fixed (rq_m q) = true → to_compact r q = Ok q.
Proof. intros H Hm. unfold to_compact, compact_target. rewrite H. cbn [rbind]. rewrite Hm, orb_true_r. reflexivity. Qed.

Lemma compact_target_inv r q o d' :
  compact_target r q = Ok (Some (o, d')) →
  ∃ bo bd qb mb u p kk pname,
    infer_base_unit r (rq_ord q) (rq_u q) = Ok (bo, bd) ∧ rq_to r q bo bd = Ok qb ∧ rq_m qb = MFin mb ∧
    mb ≠ 0%Qc ∧ leading_unit bo bd = Some (u, p) ∧ p ≠ 0%Qc ∧
    pick_prefix (si_table r) (compact_power mb p) = Some (kk, pname) ∧
    uc_rename bd u (pname ++ u) = Some d'.
Proof.
  unfold compact_target. destruct (unitless r q) as [ul|]; [|discriminate]. cbn [rbind].
  destruct (ul || mag_fixed (rq_m q)); [discriminate|].
  destruct (infer_base_unit r (rq_ord q) (rq_u q)) as [[bo bd]|] eqn:Ei; [|discriminate]. cbn [rbind].
  destruct (rq_to r q bo bd) as [qb|] eqn:Et; [|discriminate]. cbn [rbind].
  destruct (rq_m qb) as [mb| | | |] eqn:Em; try discriminate;
    destruct (leading_unit bo bd) as [[u p]|] eqn:El; try discriminate.
  destruct (qz mb) eqn:E1; [discriminate|]. destruct (qz p) eqn:E2; [discriminate|]. cbn [orb].
  destruct (pick_prefix (si_table r) (compact_power mb p)) as [[kk pname]|] eqn:Ep; [|discriminate].
  destruct (uc_rename bd u (pname ++ u)) as [nd|] eqn:Er; [|discriminate]. intros [= <- <-].
  apply qz_false in E1, E2. exists bo, bd, qb, mb, u, p, kk, pname. repeat split; try reflexivity; assumption.
Qed.

Lemma tbl_insert_in k n t x : x ∈ tbl_insert k n t → x = (k, n) ∨ x ∈ t.
Proof.
  induction t as [|[k' n'] t IH]; simpl.
  - rewrite elem_of_list_singleton. auto.
  - destruct (k <? k')%Z; [rewrite elem_of_cons; auto|].
    destruct (k =? k')%Z; rewrite !elem_of_cons; [tauto|]. intros [H|H]; [auto|]. destruct (IH H); auto.
Qed.
Lemma is_pow10_spec v k : is_pow10 v = Some k → pow10 k = v.
Proof.
  unfold is_pow10. destruct (qlt 0 v); [|discriminate].
  destruct (bool_decide (pow10 (ilog10 v) = v)) eqn:E; [|discriminate].
  intros [= <-]. apply bool_decide_eq_true in E. exact E.
Qed.
(** every entry of the table is a decimal prefix of the registry (or the [""] fallback) *)
Lemma si_table_decimal r k pname :
  (k, pname) ∈ si_table r →
  (k = 0%Z ∧ pname = "") ∨ ∃ key p, r_prefixes r !! key = Some p ∧ p_name p = pname ∧ p_val p = pow10 k.
Proof.
  unfold si_table.
  set (P := λ x : Z * string, (x.1 = 0%Z ∧ x.2 = "") ∨ ∃ key p, r_prefixes r !! key = Some p ∧ p_name p = x.2 ∧ p_val p = pow10 x.1).
  assert (G : ∀ keys t, (∀ x, x ∈ t → P x) → ∀ x, x ∈ fold_left (λ t key,
    match r_prefixes r !! key with
    | None => t
    | Some p => if qlt 0 (p_val p) then match is_pow10 (p_val p) with Some k => tbl_insert k (p_name p) t | None => t end
                else tbl_insert 0 "" t
    end) keys t → P x).
  { induction keys as [|key keys IH]; simpl; intros t Ht x Hx; [auto|].
    apply (IH _) in Hx; [exact Hx|]. intros y Hy.
    destruct (r_prefixes r !! key) as [p|] eqn:Ek; [|auto].
    destruct (qlt 0 (p_val p)).
    - destruct (is_pow10 (p_val p)) as [k'|] eqn:Ei; [|auto].
      apply tbl_insert_in in Hy as [->|Hy]; [|auto]. right. exists key, p. simpl.
      split; [exact Ek|]. split; [reflexivity|]. symmetry. apply is_pow10_spec. exact Ei.
    - apply tbl_insert_in in Hy as [->|Hy]; [left; auto | auto]. }
  intros H. apply (G (r_prefix_keys r) [] ltac:(intros x Hx; inversion Hx) (k, pname) H).
Qed.
Lemma pick_prefix_in t power x : pick_prefix t power = Some x → x ∈ t.
Proof.
  unfold pick_prefix. destruct (length t <=? bisect_left t power)%nat.
  - intros H. apply last_Some in H as [l' ->]. apply elem_of_app. right. left.
  - apply elem_of_list_lookup_2.
Qed.

(** [to_compact] changes exactly one unit of the prefix-free container by exactly one decimal
    prefix of the registry (possibly the empty one) *)
Theorem compact_only_prefix r q q' :
  to_compact r q = Ok q' →
  q' = q ∨
  ∃ bo bd u pname k,
    infer_base_unit r (rq_ord q) (rq_u q) = Ok (bo, bd) ∧ is_Some (bd !! u) ∧
    uc_rename bd u (pname ++ u) = Some (rq_u q') ∧
    ((k = 0%Z ∧ pname = "") ∨ ∃ key p, r_prefixes r !! key = Some p ∧ p_name p = pname ∧ p_val p = pow10 k).
Proof.
  unfold to_compact. destruct (compact_target r q) as [[[o d']|]|] eqn:E; [| |discriminate]; cbn [rbind].
  - intros H. right.
    destruct (compact_target_inv _ _ _ _ E) as (bo & bd & qb & mb & u & p & kk & pname & H1 & _ & _ & _ & _ & _ & H7 & H8).
    assert (Hu : rq_u q' = d').
    { unfold rq_to in H. destruct (convert_mag r (rq_m q) (rq_u q) d'); [|discriminate]. injection H as <-. reflexivity. }
    exists bo, bd, u, pname, kk. rewrite Hu. split; [exact H1|]. split.
    + unfold uc_rename in H8. destruct (bd !! u); [eauto | discriminate].
    + split; [exact H8|]. apply si_table_decimal. eapply pick_prefix_in. exact H7.
  - intros [= <-]. left. reflexivity.
Qed.

(** renaming a unit into a name of the same dimensionality keeps the dimensionality *)
Lemma rename_dim r bd u nu nd d :
  wf bd → (nu = u ∨ bd !! nu = None) → dim1 r nu = dim1 r u →
  dim_of r bd = Ok d → uc_rename bd u nu = Some nd → dim_of r nd = Ok d.
Proof.
  intros Wb Hnu H1 Hd. unfold uc_rename. destruct (bd !! u) as [e|] eqn:Eu; [|discriminate]. intros [= <-].
  rewrite !dim1_unfold in H1.
  set (b' := delete u bd). assert (Wb' : wf b') by (apply wf_delete; exact Wb).
  assert (He : e ≠ 0%Qc) by exact (wf_lookup _ _ _ Wb Eu).
  assert (Hb'nu : exp_of b' nu = 0%Qc).
  { unfold b'. rewrite exp_of_delete. destruct (decide (u = nu)); [reflexivity|].
    destruct Hnu as [->|Hn]; [contradiction | unfold exp_of; rewrite Hn; reflexivity]. }
  assert (Ha : bd = uc_mul b' (uc_pow {[ u := 1%Qc ]} e)).
  { apply uc_ext; [exact Wb | apply wf_mul; exact Wb' |]. intros k.
    rewrite exp_of_mul, exp_of_pow, exp_of_singleton. unfold b'. rewrite exp_of_delete.
    destruct (decide (u = k)) as [<-|N]; [unfold exp_of; rewrite Eu; simpl; ring | ring]. }
  assert (Hn : <[nu := e]> b' = uc_mul b' (uc_pow {[ nu := 1%Qc ]} e)).
  { apply uc_ext; [apply map_Forall_insert_2; assumption | apply wf_mul; exact Wb' |]. intros k.
    rewrite exp_of_mul, exp_of_pow, exp_of_singleton.
    destruct (decide (nu = k)) as [<-|N].
    - unfold exp_of at 1. rewrite lookup_insert. simpl. rewrite Hb'nu. ring.
    - unfold exp_of at 1. rewrite lookup_insert_ne by assumption. fold (exp_of b' k). ring. }
  destruct (dim_of_sub r bd b' d Hd) as [db' Hdb'].
  { intros k. unfold b'. destruct (decide (u = k)) as [->|N]; [rewrite lookup_delete; intros [? [=]] | rewrite lookup_delete_ne by assumption; auto]. }
  destruct (dim_of_sub r bd {[ u := 1%Qc ]} d Hd) as [du Hdu].
  { intros k Hk. destruct (decide (u = k)) as [<-|N]; [eauto | rewrite lookup_singleton_ne in Hk by assumption; destruct Hk as [? [=]]]. }
  pose proof (dim_of_mul r b' _ _ _ Hdb' (dim_of_pow r _ e _ Hdu)) as Ha2. rewrite <- Ha, Hd in Ha2. injection Ha2 as ->.
  rewrite Hn. rewrite <- H1 in Hdu. exact (dim_of_mul r b' _ _ _ Hdb' (dim_of_pow r _ e _ Hdu)).
Qed.

Theorem compact_same_quantity r q q' d F B F' B' :
  reg_nz r → wf (rq_u q) → exact_unit r (rq_u q) F B → dim_of r (rq_u q) = Ok d →
  to_compact r q = Ok q' → dim_of r (rq_u q') = Ok d → exact_unit r (rq_u q') F' B' → same_quantity r q q'.
Proof.
  intros Hnz Wq Ex Hd. unfold to_compact. destruct (compact_target r q) as [[[o d']|]|]; [| |discriminate]; cbn [rbind].
  - intros H Hd' Ex'.
    assert (Hu : rq_u q' = d').
    { unfold rq_to in H. destruct (convert_mag r (rq_m q) (rq_u q) d'); [|discriminate]. injection H as <-. reflexivity. }
    rewrite Hu in Hd', Ex'.
    destruct (to_same_quantity r q o d' d F B F' B' Hnz Wq Ex Ex' Hd Hd') as (q0 & H1 & _ & _ & H3).
    rewrite H1 in H. injection H as <-. exact H3.
  - intros [= <-] _ _. eapply same_quantity_refl; eauto.
Qed.

Lemma infer_base_wf r ord a bo bd : infer_base_unit r ord a = Ok (bo, bd) → wf bd.
Proof.
  unfold infer_base_unit, infer_base_unit_with.
  assert (G : ∀ l acc acc', foldM (infer_step r) l acc = Ok acc' → wf acc.2 → wf acc'.2).
  { induction l as [|kv l IH]; simpl; intros acc acc'; [intros [= <-]; auto|].
    unfold infer_step at 1. destruct (parse_unit_name r kv.1) as [|[? base] ?]; simpl; try discriminate.
    intros H W. apply (IH _ _ H). simpl. apply wf_add. exact W. }
  destruct (foldM (infer_step r) _ ([], ∅)) as [[o d]|] eqn:E; [|discriminate]. cbn [rbind].
  intros [= <- <-]. apply (G _ _ _ E). apply wf_empty.
Qed.

Lemma convert_mag_fin r m src dst x : convert_mag r m src dst = Ok (MFin x) → ∃ y, m = MFin y.
Proof.
  unfold convert_mag. destruct (uc_eqb src dst); [intros [= ->]; eauto|].
  destruct (conv_factor r src dst) as [[f ex]|]; [|discriminate]. cbn [rbind].
  destruct f as [f|]; destruct m as [y| | | |]; simpl; try discriminate; eauto;
    repeat match goal with |- context [if ?b then _ else _] => destruct b end; discriminate.
Qed.

(** range: with an available prefix (the table holds the requested power) the magnitude of the
    result lies in [1, 1000^|p|), p the power of the leading unit; p = 1: [1, 1000) *)
Theorem compact_range r q q' d F B Fb Bb F' B' bo bd qb mb u p pname f ex :
  reg_nz r → wf (rq_u q) →
  exact_unit r (rq_u q) F B → dim_of r (rq_u q) = Ok d →
  infer_base_unit r (rq_ord q) (rq_u q) = Ok (bo, bd) → exact_unit r bd Fb Bb → dim_of r bd = Ok d →
  rq_to r q bo bd = Ok qb → rq_m qb = MFin mb → mb ≠ 0%Qc →
  leading_unit bo bd = Some (u, p) → is_int p = true → inum p ≠ 0%Z →
  pick_prefix (si_table r) (compact_power mb p) = Some (compact_power mb p, pname) →
  to_compact r q = Ok q' → exact_unit r (rq_u q') F' B' → dim_of r (rq_u q') = Ok d →
  conv_factor r bd (rq_u q') = Ok (Some f, ex) → (f * pow10 (compact_power mb p * inum p) = 1)%Qc →
  ∃ x', rq_m q' = MFin x' ∧ (1 <= Qcabs x')%Qc ∧ (Qcabs x' < pow10 (3 * Z.abs (inum p)))%Qc.
Proof.
  intros Hnz Wq Ex Hd Hinf Exb Hdb Htb Hmb Hmb0 _ Hi Hp0 _ Hc Ex' Hd' Hf Hf1.
  pose proof (infer_base_wf _ _ _ _ _ Hinf) as Wb.
  assert (Hm : ∃ m, rq_m q = MFin m).
  { unfold rq_to in Htb. destruct (convert_mag r (rq_m q) (rq_u q) bd) as [mm|] eqn:Ec; [|discriminate].
    injection Htb as <-. simpl in Hmb. subst mm. eapply convert_mag_fin. exact Ec. }
  destruct Hm as [m Hm].
  (* value in the prefix-free container *)
  destruct (to_same_quantity r q bo bd d F B Fb Bb Hnz Wq Ex Exb Hd Hdb) as (q0 & H1 & Hu0 & _ & S1).
  rewrite Htb in H1. injection H1 as <-.
  destruct S1 as (d1 & F1 & B1 & F2 & B2 & _ & _ & E1 & E2 & S1). rewrite Hm in S1. rewrite Hu0 in E2.
  destruct (exact_unit_fun _ _ _ _ _ _ E1 Ex) as [-> ->]. destruct (exact_unit_fun _ _ _ _ _ _ E2 Exb) as [-> ->].
  destruct S1 as (xb & Hxb & S1). rewrite Hmb in Hxb. injection Hxb as <-.
  (* value in the result *)
  pose proof (compact_same_quantity r q q' d F B F' B' Hnz Wq Ex Hd Hc Hd' Ex') as S2.
  destruct S2 as (d2 & F3 & B3 & F4 & B4 & _ & _ & E3 & E4 & S2). rewrite Hm in S2.
  destruct (exact_unit_fun _ _ _ _ _ _ E3 Ex) as [-> ->]. destruct (exact_unit_fun _ _ _ _ _ _ E4 Ex') as [-> ->].
  destruct S2 as (x' & Hx' & S2). exists x'. split; [exact Hx'|].
  (* the factor between the two containers *)
  destruct (conv_factor_value r bd (rq_u q') Fb Bb F' B' d Hnz Wb Exb Ex' Hdb Hd') as [ex2 Hv].
  assert (Hf0 : (mprod (gscale r) Fb / mprod (gscale r) F' = f)%Qc) by congruence.
  clear Hf Hv. rename Hf0 into Hf.
  set (e := (compact_power mb p * inum p)%Z) in *.
  set (fb := mprod (gscale r) Fb) in *. set (f' := mprod (gscale r) F') in *.
  assert (Hfb : fb ≠ 0%Qc) by (apply mprod_neq0, gscale_nz, Hnz).
  assert (Hf' : f' ≠ 0%Qc) by (apply mprod_neq0, gscale_nz, Hnz).
  assert (Hpe : pow10 e ≠ 0%Qc).
  { intros E0. pose proof (pow10_Q e) as Hq. rewrite E0 in Hq. pose proof (p10_pos e) as Hpos. rewrite <- Hq in Hpos. discriminate Hpos. }
  assert (Hrel : (x' * pow10 e = mb)%Qc).
  { assert (Hff : (f' = fb * pow10 e)%Qc).
    { transitivity (f' * (f * pow10 e))%Qc; [rewrite Hf1; ring | rewrite <- Hf; field; exact Hf']. }
    transitivity (x' * pow10 e * fb / fb)%Qc; [field; exact Hfb|].
    replace (x' * pow10 e * fb)%Qc with (mb * fb)%Qc; [field; exact Hfb|].
    rewrite S1, <- S2, Hff. ring. }
  assert (Hpos : (0 <= pow10 e)%Qc).
  { unfold Qcle. rewrite pow10_Q. apply Qlt_le_weak. apply p10_pos. }
  assert (Habs : (Qcabs x' * pow10 e = Qcabs mb)%Qc).
  { rewrite <- Hrel, Qcabs_Qcmult, (Qcabs_pos (pow10 e) Hpos). reflexivity. }
  destruct (compact_power_range mb p Hmb0 Hi Hp0) as [L U]. fold e in L, U.
  exact (range_of_scaled x' mb e _ Habs L U).
Qed.

(** * [to_preferred] *)
Lemma elem_of_sorted_keys d k : k ∈ sorted_keys d ↔ is_Some (d !! k).
Proof. unfold sorted_keys. rewrite merge_sort_Permutation. apply elem_of_keys. Qed.

Lemma simple_check_true sd pd h tl :
  simple_check false sd pd (h :: tl) = Ok true →
  ∀ k, k ∈ tl → (exp_of sd k * exp_of pd h = exp_of pd k * exp_of sd h)%Qc.
Proof.
  unfold simple_check.
  assert (G : ∀ l b, foldM (λ (ok : bool) k,
      if ok then rhs ←r Ok (exp_of pd k * exp_of sd h)%Qc; Ok (bool_decide ((exp_of sd k * exp_of pd h)%Qc = rhs))
      else Ok false) l b = Ok true →
      b = true ∧ ∀ k, k ∈ l → (exp_of sd k * exp_of pd h = exp_of pd k * exp_of sd h)%Qc).
  { induction l as [|k l IH]; simpl; intros b.
    - intros [= ->]. split; [reflexivity|]. intros k Hk. inversion Hk.
    - destruct b; simpl.
      + intros H. destruct (IH _ H) as [Hb Hl]. apply bool_decide_eq_true in Hb.
        split; [reflexivity|]. intros k' Hk'. apply elem_of_cons in Hk' as [->|Hk']; auto.
      + intros H. destruct (IH _ H) as [Hb _]. discriminate. }
  intros H. exact (proj2 (G tl true H)).
Qed.

(** with the product in the proportionality test (the repaired [find_simple]) the unit found
    has the quantity's dimensionality *)
Lemma find_simple_sound r sd prefs u :
  wf sd → find_simple false r sd prefs = Ok (Some u) → dim_of r u = Ok sd.
Proof.
  intros Wsd. unfold find_simple. destruct (sorted_keys sd) as [|h tl] eqn:Ek; [discriminate|].
  set (step := λ (best : option (Qc * uc)) (pu : uc), _).
  assert (G : ∀ l best best', foldM step l best = Ok best' →
                (∀ br bu, best = Some (br, bu) → dim_of r bu = Ok sd) →
                (∀ br bu, best' = Some (br, bu) → dim_of r bu = Ok sd)).
  { induction l as [|pu l IH]; simpl; intros best best'; [intros [= <-]; auto|].
    destruct (step best pu) as [b1|] eqn:Es; simpl; [|discriminate]. intros H Hb. apply (IH _ _ H).
    clear IH H. unfold step in Es. destruct (dim_of r pu) as [pd|] eqn:Epd; [|discriminate]. cbn [rbind] in Es.
    destruct (bool_decide (sorted_keys pd = h :: tl)) eqn:Eks; [|injection Es as <-; exact Hb].
    apply bool_decide_eq_true in Eks.
    destruct (simple_check false sd pd (h :: tl)) as [[|]|] eqn:Ec; [| injection Es as <-; exact Hb | discriminate].
    cbn [rbind] in Es.
    assert (Hnew : dim_of r (uc_pow pu (exp_of sd h / exp_of pd h)) = Ok sd).
    { rewrite (dim_of_pow r pu _ pd Epd). f_equal.
      pose proof (proj1 (dim_of_canonical _ _ _ Epd)) as Wpd.
      assert (Hph : exp_of pd h ≠ 0%Qc).
      { assert (Hin : h ∈ sorted_keys pd) by (rewrite Eks; left).
        apply elem_of_sorted_keys in Hin as [v Hv]. unfold exp_of. rewrite Hv. simpl. exact (wf_lookup _ _ _ Wpd Hv). }
      apply uc_ext; [apply wf_pow | exact Wsd |]. intros k. rewrite exp_of_pow.
      destruct (decide (k ∈ h :: tl)) as [Hin|Hnin].
      - apply elem_of_cons in Hin as [->|Hin]; [field; exact Hph|].
        pose proof (simple_check_true _ _ _ _ Ec k Hin) as Hk.
        transitivity (exp_of sd k * exp_of pd h / exp_of pd h)%Qc; [rewrite Hk; field; exact Hph | field; exact Hph].
      - assert (N1 : sd !! k = None).
        { destruct (sd !! k) eqn:E; [|reflexivity]. exfalso. apply Hnin. rewrite <- Ek. apply elem_of_sorted_keys. eauto. }
        assert (N2 : pd !! k = None).
        { destruct (pd !! k) eqn:E; [|reflexivity]. exfalso. apply Hnin. rewrite <- Eks. apply elem_of_sorted_keys. eauto. }
        assert (Z1 : exp_of sd k = 0%Qc) by (unfold exp_of; rewrite N1; reflexivity).
        assert (Z2 : exp_of pd k = 0%Qc) by (unfold exp_of; rewrite N2; reflexivity).
        rewrite Z1, Z2. ring. }
    destruct best as [[br bu]|].
    - destruct (qlt _ br); injection Es as <-; [|exact Hb]. intros br' bu' [= <- <-]. exact Hnew.
    - injection Es as <-. intros br' bu' [= <- <-]. exact Hnew. }
  destruct (foldM step prefs None) as [best|] eqn:Ef; [|discriminate]. cbn [rbind].
  destruct best as [[br bu]|]; simpl; [|discriminate]. intros [= <-].
  exact (G _ _ _ Ef ltac:(discriminate) br bu eq_refl).
Qed.

Section PreferredProofs.
  Context (mip : reg → rq → list uc → uc).
  (** all that is assumed of the integer programme *)
  Hypothesis mip_ok : ∀ r q prefs, mip r q prefs = rq_u q ∨ dim_of r (mip r q prefs) = dim_of r (rq_u q).

  Lemma get_preferred_dim r q prefs u d :
    dim_of r (rq_u q) = Ok d → get_preferred mip false r q prefs = Ok u → dim_of r u = Ok d.
  Proof.
    intros Hd. unfold get_preferred. rewrite Hd. cbn [rbind].
    destruct (uc_eqb d ∅); [intros [= <-]; exact Hd|].
    destruct (find_simple false r d prefs) as [[s|]|] eqn:Es; [| |discriminate]; cbn [rbind]; intros [= <-].
    - apply find_simple_sound in Es; [exact Es | exact (proj1 (dim_of_canonical _ _ _ Hd))].
    - destruct (mip_ok r q prefs) as [->| ->]; exact Hd.
  Qed.
  Theorem to_preferred_same_quantity r q q' prefs d F B :
    reg_nz r → wf (rq_u q) → exact_unit r (rq_u q) F B → dim_of r (rq_u q) = Ok d →
    to_preferred mip false r q prefs = Ok q' → (∃ F' B', exact_unit r (rq_u q') F' B') → same_quantity r q q'.
  Proof.
    intros Hnz Wq Ex Hd. unfold to_preferred.
    destruct (get_preferred mip false r q prefs) as [u|] eqn:Eg; [|discriminate]. cbn [rbind].
    intros H (F' & B' & Ex').
    assert (Hu : rq_u q' = u).
    { unfold rq_to in H. destruct (convert_mag r (rq_m q) (rq_u q) u); [|discriminate]. injection H as <-. reflexivity. }
    rewrite Hu in Ex'. pose proof (get_preferred_dim _ _ _ _ _ Hd Eg) as Hdu.
    destruct (to_same_quantity r q (keys u) u d F B F' B' Hnz Wq Ex Ex' Hd Hdu) as (q0 & H1 & _ & _ & H3).
    rewrite H1 in H. injection H as <-. exact H3.
  Qed.
End PreferredProofs.

(** the test as coded ([**]) coincides with the product when the quantity's first dimension
    (alphabetically) has exponent 1 — the guard of the guarded theorem *)
Definition simple_guard (sd : uc) : Prop :=
  match sorted_keys sd with h :: _ => exp_of sd h = 1%Qc | [] => True end.
Definition simple_guardb (sd : uc) : bool :=
  match sorted_keys sd with h :: _ => bool_decide (exp_of sd h = 1%Qc) | [] => true end.
Lemma simple_guardb_spec sd : simple_guardb sd = true → simple_guard sd.
Proof. unfold simple_guardb, simple_guard. destruct (sorted_keys sd); [auto|]. apply bool_decide_eq_true. Qed.
Lemma foldM_ext {A B} (f g : A → B → res A) l a : (∀ a b, f a b = g a b) → foldM f l a = foldM g l a.
Proof. intros H. revert a. induction l as [|b l IH]; intros a; simpl; [reflexivity|]. rewrite H. destruct (g a b); simpl; auto. Qed.
Lemma qpow_int_1 b : qpow_int b 1 = Ok (b * 1)%Qc.
Proof. reflexivity. Qed.
Lemma find_simple_guard r sd prefs : simple_guard sd → find_simple true r sd prefs = find_simple false r sd prefs.
Proof.
  unfold simple_guard, find_simple. destruct (sorted_keys sd) as [|h tl]; [reflexivity|]. intros Hg.
  f_equal. apply foldM_ext. intros best pu. destruct (dim_of r pu) as [pd|]; [|reflexivity]. cbn [rbind].
  destruct (bool_decide (sorted_keys pd = h :: tl)); [|reflexivity].
  assert (Hc : simple_check true sd pd (h :: tl) = simple_check false sd pd (h :: tl)).
  { unfold simple_check. apply foldM_ext. intros ok k. destruct ok; [|reflexivity]. rewrite Hg, qpow_int_1. reflexivity. }
  rewrite Hc. reflexivity.
Qed.

(** guarded form for the test as coded *)
Section PreferredGuarded.
  Context (mip : reg → rq → list uc → uc).
  Hypothesis mip_ok : ∀ r q prefs, mip r q prefs = rq_u q ∨ dim_of r (mip r q prefs) = dim_of r (rq_u q).
  Theorem to_preferred_same_quantity_guarded r q q' prefs d F B :
    reg_nz r → wf (rq_u q) → exact_unit r (rq_u q) F B → dim_of r (rq_u q) = Ok d → simple_guard d →
    to_preferred mip true r q prefs = Ok q' → (∃ F' B', exact_unit r (rq_u q') F' B') → same_quantity r q q'.
  Proof.
    intros Hnz Wq Ex Hd Hg H. apply (to_preferred_same_quantity mip mip_ok r q q' prefs d F B Hnz Wq Ex Hd).
    revert H. unfold to_preferred, get_preferred. rewrite Hd. cbn [rbind].
    destruct (uc_eqb d ∅); [exact id|]. rewrite (find_simple_guard r d prefs Hg). exact id.
  Qed.
End PreferredGuarded.

(** * The automatic wrapper of [*] and [/] *)
Lemma same_quantity_trans r q1 q2 q3 : same_quantity r q1 q2 → same_quantity r q2 q3 → same_quantity r q1 q3.
Proof.
  intros (d & F1 & B1 & F2 & B2 & D1 & D2 & E1 & E2 & M1) (d' & F2' & B2' & F3 & B3 & D2' & D3 & E2' & E3 & M2).
  destruct (exact_unit_fun _ _ _ _ _ _ E2 E2') as [<- <-]. rewrite D2 in D2'. injection D2' as <-.
  exists d, F1, B1, F3, B3. split; [exact D1|]. split; [exact D3|]. split; [exact E1|]. split; [exact E3|].
  destruct (rq_m q1) as [x| | | |]; auto.
  - destruct M1 as (x2 & H2 & M1). rewrite H2 in M2. destruct M2 as (x3 & H3 & M2).
    exists x3. split; [exact H3|]. congruence.
  - rewrite M1 in M2. exact M2.
Qed.
Lemma ireduce_reduce_only mip pd r o q : ireduce mip pd r (AutoCfg false o true) q = to_reduced_units r q.
Proof. unfold ireduce. cbn [ac_preferred ac_reduce rbind]. apply ito_reduced_eq_to. Qed.
Lemma ireduce_off mip pd r o q : ireduce mip pd r (AutoCfg false o false) q = Ok q.
Proof. reflexivity. Qed.
Lemma ireduce_unset_list mip pd r red q : ireduce mip pd r (AutoCfg true None red) q = ireduce mip pd r (AutoCfg false None red) q.
Proof. reflexivity. Qed.
Lemma ireduce_preferred_only mip pd r prefs q : ireduce mip pd r (AutoCfg true (Some prefs) false) q = to_preferred mip pd r q prefs.
Proof.
  unfold ireduce. cbn [ac_preferred ac_default_pref ac_reduce]. rewrite ito_preferred_eq_to.
  destruct (to_preferred mip pd r q prefs); reflexivity.
Qed.

Lemma nodim_mul a b : nodim a → nodim b → nodim (uc_mul a b).
Proof. intros Ha Hb k Hk. destruct (uc_mul_dom _ _ _ Hk); auto. Qed.
Lemma nodim_div a b : nodim a → nodim b → nodim (uc_div a b).
Proof. intros Ha Hb k Hk. destruct (uc_div_dom _ _ _ Hk); auto. Qed.

(** with [auto_reduce_dimensions] the product is the plain product, rewritten without changing it *)
Theorem auto_reduce_mul_preserves mip pd r o a b q' da db Fa Ba Fb Bb :
  reg_nz r → reg_ok r → wf (rq_u a) → nodim (rq_u a) → nodim (rq_u b) →
  exact_unit r (rq_u a) Fa Ba → exact_unit r (rq_u b) Fb Bb → dim_of r (rq_u a) = Ok da → dim_of r (rq_u b) = Ok db →
  auto_mul mip pd r (AutoCfg false o true) a b = Ok q' → (∃ F' B', exact_unit r (rq_u q') F' B') →
  dim_of r (rq_u (raw_mul a b)) = Ok (uc_mul da db)
  ∧ exact_unit r (rq_u (raw_mul a b)) (uc_mul Fa Fb) (uc_mul Ba Bb)
  ∧ same_quantity r (raw_mul a b) q'.
Proof.
  intros Hnz Hok Wa Na Nb Ea Eb Da Db H Ex'.
  pose proof (dim_of_mul r _ _ _ _ Da Db) as Dm. pose proof (exact_unit_mul r _ _ _ _ _ _ Ea Eb) as Em.
  split; [exact Dm|]. split; [exact Em|].
  unfold auto_mul in H. rewrite ireduce_reduce_only in H.
  eapply (to_reduced_same_quantity r (raw_mul a b) q' _ _ _ Hnz Hok); try eassumption.
  - apply wf_mul. exact Wa.
  - apply nodim_mul; assumption.
Qed.
Theorem auto_reduce_div_preserves mip pd r o a b q0 q' da db Fa Ba Fb Bb :
  reg_nz r → reg_ok r → wf (rq_u a) → nodim (rq_u a) → nodim (rq_u b) →
  exact_unit r (rq_u a) Fa Ba → exact_unit r (rq_u b) Fb Bb → dim_of r (rq_u a) = Ok da → dim_of r (rq_u b) = Ok db →
  raw_div a b = Ok q0 →
  auto_div mip pd r (AutoCfg false o true) a b = Ok q' → (∃ F' B', exact_unit r (rq_u q') F' B') →
  dim_of r (rq_u q0) = Ok (uc_div da db) ∧ same_quantity r q0 q'.
Proof.
  intros Hnz Hok Wa Na Nb (Sa & Ia & Ga) (Sb & Ib & Gb) Da Db H0 H Ex'.
  assert (Hu : rq_u q0 = uc_div (rq_u a) (rq_u b)).
  { unfold raw_div in H0. destruct (mag_div (rq_m a) (rq_m b)); [|discriminate]. injection H0 as <-. reflexivity. }
  pose proof (dim_of_div r _ _ _ _ Wa Da Db) as Dm.
  destruct (rsem_wf _ _ _ _ Sa) as [WFa _].
  assert (Em : exact_unit r (uc_div (rq_u a) (rq_u b)) (uc_div Fa Fb) (uc_div Ba Bb)).
  { split; [apply rsem_div; assumption|]. split; [apply integral_div; assumption | apply gens_ok_div; assumption]. }
  rewrite Hu. split; [exact Dm|].
  unfold auto_div in H. rewrite H0 in H. cbn [rbind] in H. rewrite ireduce_reduce_only in H.
  eapply (to_reduced_same_quantity r q0 q' _ _ _ Hnz Hok); try eassumption; rewrite Hu.
  - apply wf_div. exact Wa.
  - apply nodim_div; assumption.
  - exact Em.
  - exact Dm.
Qed.

(** * Concrete quantities used by the non-vacuity Examples of Properties/C15.v *)
Definition ex_speed := RQ (MFin (mkq 3 1)) ["mile"; "hour"] (mkuc [("mile", mkq 1 1); ("hour", mkq (-1) 1)]).
Definition ex_area := RQ (MFin (mkq 2 1)) ["meter"; "inch"; "second"]
                         (mkuc [("meter", mkq 1 1); ("inch", mkq 1 1); ("second", mkq (-2) 1)]).
(** the hypotheses of [C15_compact_range] are satisfiable: 1500 m -> 1.5 km, obtained BY the theorem *)
Definition ex_len := RQ (MFin (mkq 1500 1)) ["meter"] (mkuc [("meter", mkq 1 1)]).
Definition get_ok {A} (x : res A) (dflt : A) : A := match x with Ok a => a | Err _ => dflt end.
Definition is_ok {A} (x : res A) : bool := match x with Ok _ => true | Err _ => false end.
Lemma get_ok_spec {A} (x : res A) dflt : is_ok x = true → x = Ok (get_ok x dflt).
Proof. destruct x; [reflexivity | discriminate]. Qed.
Lemma default_spec {A} (o : option A) dflt : bool_decide (is_Some o) = true → o = Some (default dflt o).
Proof. destruct o; [reflexivity|]. intros H. apply bool_decide_eq_true in H. destruct H as [? [=]]. Qed.
Definition fin_of (m : mag) : Qc := match m with MFin x => x | _ => 0%Qc end.
Definition is_fin (m : mag) : bool := match m with MFin _ => true | _ => false end.
Lemma fin_of_spec m : is_fin m = true → m = MFin (fin_of m).
Proof. destruct m; try discriminate. reflexivity. Qed.
Section CompactExample.
  Variable r : reg.
  Notation q := ex_len (only parsing).
  Definition cx_q' := get_ok (to_compact r q) q.
  Definition cx_d := get_ok (dim_of r (rq_u q)) ∅.
  Definition cx_bb := get_ok (infer_base_unit r (rq_ord q) (rq_u q)) ([], ∅).
  Definition cx_qb := get_ok (rq_to r q cx_bb.1 cx_bb.2) q.
  Definition cx_mb := fin_of (rq_m cx_qb).
  Definition cx_up := default ("", 0%Qc) (leading_unit cx_bb.1 cx_bb.2).
  Definition cx_pk := default (0%Z, "") (pick_prefix (si_table r) (compact_power cx_mb cx_up.2)).
  Definition cx_cf := get_ok (conv_factor r cx_bb.2 (rq_u cx_q')) (None, false).
  Definition cx_checks : list bool :=
    [ is_ok (to_compact r q); is_ok (dim_of r (rq_u q)); is_ok (infer_base_unit r (rq_ord q) (rq_u q));
      is_ok (dim_of r cx_bb.2); uc_eqb (get_ok (dim_of r cx_bb.2) ∅) cx_d;
      is_ok (dim_of r (rq_u cx_q')); uc_eqb (get_ok (dim_of r (rq_u cx_q')) ∅) cx_d;
      is_ok (rq_to r q cx_bb.1 cx_bb.2); is_fin (rq_m cx_qb);
      bool_decide (is_Some (leading_unit cx_bb.1 cx_bb.2));
      Z.eqb cx_pk.1 (compact_power cx_mb cx_up.2);
      bool_decide (is_Some (pick_prefix (si_table r) (compact_power cx_mb cx_up.2)));
      is_ok (conv_factor r cx_bb.2 (rq_u cx_q')); bool_decide (is_Some cx_cf.1);
      exact_unitb r (rq_u q); exact_unitb r cx_bb.2; exact_unitb r (rq_u cx_q');
      reg_nzb r; wfb (rq_u q); negb (qz cx_mb); is_int cx_up.2; negb (Z.eqb (inum cx_up.2) 0);
      Qc_eq_bool (default 0%Qc cx_cf.1 * pow10 (compact_power cx_mb cx_up.2 * inum cx_up.2)) 1;
      uc_eqb (rq_u cx_q') (mkuc [("kilometer", mkq 1 1)]); Z.eqb (3 * Z.abs (inum cx_up.2)) 3 ].
End CompactExample.
Lemma cx_q'_eq r : get_ok (to_compact r ex_len) ex_len = cx_q' r. Proof. unfold cx_q'. reflexivity. Qed.
Lemma cx_d_eq r : get_ok (dim_of r (rq_u ex_len)) ∅ = cx_d r. Proof. unfold cx_d. reflexivity. Qed.
Lemma cx_bb_eq r : get_ok (infer_base_unit r (rq_ord ex_len) (rq_u ex_len)) ([], ∅) = cx_bb r. Proof. unfold cx_bb. reflexivity. Qed.
Lemma cx_qb_eq r : get_ok (rq_to r ex_len (cx_bb r).1 (cx_bb r).2) ex_len = cx_qb r. Proof. unfold cx_qb. reflexivity. Qed.
Lemma cx_mb_eq r : fin_of (rq_m (cx_qb r)) = cx_mb r. Proof. unfold cx_mb. reflexivity. Qed.
Lemma cx_up_eq r : default ("", 0%Qc) (leading_unit (cx_bb r).1 (cx_bb r).2) = cx_up r. Proof. unfold cx_up. reflexivity. Qed.
Lemma cx_pk_eq r : default (0%Z, "") (pick_prefix (si_table r) (compact_power (cx_mb r) (cx_up r).2)) = cx_pk r. Proof. unfold cx_pk. reflexivity. Qed.
Lemma cx_cf_eq r : get_ok (conv_factor r (cx_bb r).2 (rq_u (cx_q' r))) (None, false) = cx_cf r. Proof. unfold cx_cf. reflexivity. Qed.
Lemma forallb_nth (l : list bool) i : forallb id l = true → nth i l true = true.
Proof. revert i. induction l as [|b l IH]; intros [|i]; simpl; auto; intros H; apply andb_true_iff in H as [H1 H2]; auto. Qed.

Lemma cx_generic r :
  forallb id (cx_checks r) = true →
  ∃ q' x', to_compact r ex_len = Ok q' ∧ uc_eqb (rq_u q') (mkuc [("kilometer", mkq 1 1)]) = true
           ∧ rq_m q' = MFin x' ∧ (1 <= Qcabs x')%Qc ∧ (Qcabs x' < pow10 3)%Qc.
Proof.
  intros Hall. unfold cx_checks in Hall. cbn [forallb id] in Hall.
  repeat (let H := fresh "C" in apply andb_true_iff in Hall as [H Hall]).
  pose proof (get_ok_spec (to_compact r ex_len) ex_len C) as Hc. rewrite cx_q'_eq in Hc.
  pose proof (get_ok_spec (dim_of r (rq_u ex_len)) ∅ C0) as Hd. rewrite cx_d_eq in Hd.
  pose proof (get_ok_spec (infer_base_unit r (rq_ord ex_len) (rq_u ex_len)) ([], ∅) C1) as Hinf. rewrite cx_bb_eq in Hinf.
  rewrite (surjective_pairing (cx_bb r)) in Hinf.
  pose proof (get_ok_spec (dim_of r (cx_bb r).2) ∅ C2) as Hdb. apply uc_eqb_spec in C3. rewrite C3 in Hdb.
  pose proof (get_ok_spec (dim_of r (rq_u (cx_q' r))) ∅ C4) as Hd'. apply uc_eqb_spec in C5. rewrite C5 in Hd'.
  pose proof (get_ok_spec (rq_to r ex_len (cx_bb r).1 (cx_bb r).2) ex_len C6) as Htb. rewrite cx_qb_eq in Htb.
  pose proof (fin_of_spec (rq_m (cx_qb r)) C7) as Hmb. rewrite cx_mb_eq in Hmb.
  pose proof (default_spec (leading_unit (cx_bb r).1 (cx_bb r).2) ("", 0%Qc) C8) as Hlead. rewrite cx_up_eq in Hlead.
  rewrite (surjective_pairing (cx_up r)) in Hlead.
  pose proof (default_spec (pick_prefix (si_table r) (compact_power (cx_mb r) (cx_up r).2)) (0%Z, "") C10) as Hpick.
  rewrite cx_pk_eq in Hpick. rewrite (surjective_pairing (cx_pk r)) in Hpick. apply Z.eqb_eq in C9. rewrite C9 in Hpick.
  pose proof (get_ok_spec (conv_factor r (cx_bb r).2 (rq_u (cx_q' r))) (None, false) C11) as Hcf. rewrite cx_cf_eq in Hcf.
  rewrite (surjective_pairing (cx_cf r)) in Hcf. rewrite (default_spec (cx_cf r).1 0%Qc C12) in Hcf.
  destruct (exact_unitb_spec r _ C13) as (F & B & Ex).
  destruct (exact_unitb_spec r _ C14) as (Fb & Bb & Exb).
  destruct (exact_unitb_spec r _ C15) as (F' & B' & Ex').
  apply reg_nzb_spec in C16. apply wfb_spec in C17. apply negb_true_iff, qz_false in C18.
  apply negb_true_iff, Z.eqb_neq in C20. apply Qc_eq_bool_correct in C21. apply Z.eqb_eq in C23.
  destruct (compact_range r ex_len (cx_q' r) (cx_d r) F B Fb Bb F' B' (cx_bb r).1 (cx_bb r).2 (cx_qb r) (cx_mb r)
              (cx_up r).1 (cx_up r).2 (cx_pk r).2 (default 0%Qc (cx_cf r).1) (cx_cf r).2
              C16 C17 Ex Hd Hinf Exb Hdb Htb Hmb C18 Hlead C19 C20 Hpick Hc Ex' Hd' Hcf C21) as (x' & H1 & H2 & H3).
  exists (cx_q' r), x'. split; [exact Hc|]. split; [exact C22|]. split; [exact H1|]. split; [exact H2|].
  rewrite C23 in H3. exact H3.
Qed.


(** * [infer_base_unit] is defined as soon as every unit name has a reading (since the repair of
      F21; the asserting variant needed exactly one) *)
Lemma infer_base_defined r ord a :
  (∀ k, k ∈ present a ord → parse_unit_name r k ≠ nil) →
  ∃ res, infer_base_unit r ord a = Ok res.
Proof.
  intros H. unfold infer_base_unit, infer_base_unit_with.
  assert (G : ∀ l acc, (∀ kv : string * Qc, kv ∈ l → parse_unit_name r kv.1 ≠ nil) →
                       ∃ acc', foldM (infer_step r) l acc = Ok acc').
  { induction l as [|kv l IH]; intros acc Hl; simpl; [eauto|].
    pose proof (Hl kv ltac:(left)) as Hp. unfold infer_step at 1.
    destruct (parse_unit_name r kv.1) as [|[p b] rest]; [contradiction|]. cbn [rbind].
    apply IH. intros kv' Hin. apply Hl. right. exact Hin. }
  destruct (G (map (λ k, (k, exp_of a k)) (present a ord)) ([], ∅)) as [[o d] Hod].
  - intros kv Hin. apply elem_of_list_fmap in Hin as (k & -> & Hk). simpl. apply H. exact Hk.
  - rewrite Hod. cbn [rbind]. eauto.
Qed.
Lemma infer_base_assert_defined r ord a :
  (∀ k, k ∈ present a ord → ∃ p b, parse_unit_name r k = (p, b) :: nil) →
  ∃ res, infer_base_unit_assert r ord a = Ok res.
Proof.
  intros H. unfold infer_base_unit_assert, infer_base_unit_with.
  assert (G : ∀ l acc, (∀ kv : string * Qc, kv ∈ l → ∃ p b, parse_unit_name r kv.1 = (p, b) :: nil) →
                       ∃ acc', foldM (infer_step_assert r) l acc = Ok acc').
  { induction l as [|kv l IH]; intros acc Hl; simpl; [eauto|].
    destruct (Hl kv ltac:(left)) as (p & b & Hp). unfold infer_step_assert at 1. rewrite Hp. cbn [rbind].
    apply IH. intros kv' Hin. apply Hl. right. exact Hin. }
  destruct (G (map (λ k, (k, exp_of a k)) (present a ord)) ([], ∅)) as [[o d] Hod].
  - intros kv Hin. apply elem_of_list_fmap in Hin as (k & -> & Hk). simpl. apply H. exact Hk.
  - rewrite Hod. cbn [rbind]. eauto.
Qed.

Definition ex_dtex := RQ (MFin (mkq 1500 1)) ["dtex"] (mkuc [("dtex", mkq 1 1)]).
Definition ex_thirds := RQ (MFin (mkq 1 1)) ["hand"; "quart"; "survey_mile"; "gill"]
  (mkuc [("hand", mkq 2 1); ("quart", mkq 2 1); ("survey_mile", mkq 2 1); ("gill", mkq (-3) 1)]).
Definition ex_acre := RQ (MFin (mkq 1 1)) ["acre"] (mkuc [("acre", mkq 1 1)]).
Definition ex_m := RQ (MFin (mkq 1 1)) ["meter"] (mkuc [("meter", mkq 1 1)]).
Definition ex_in := RQ (MFin (mkq 3 1)) ["inch"] (mkuc [("inch", mkq 1 1)]).
