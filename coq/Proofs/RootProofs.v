From PintV Require Import Model.UC Model.Eval Model.Registry Proofs.UCProofs Proofs.RegistryProofs.
Open Scope string_scope.
Arguments dim_rec : simpl never.
Arguments root_rec : simpl never.
Arguments reg_fuel : simpl never.

(** * Linear accumulators over the two containers of a root-unit accumulator
      (symbolic factor F, base units B); the exactness flag is not tracked here. *)
Definition racc_wf (a : racc) : Prop := wf (ra_F a) ∧ wf (ra_B a).
Definition lin2_spec (G : Qc → racc → res racc) (D : option (uc * uc)) : Prop :=
  match D with
  | Some (DF, DB) =>
      wf DF ∧ wf DB ∧
      ∀ e acc, racc_wf acc →
        ∃ ex, G e acc = Ok (RAcc (uc_mul (ra_F acc) (uc_pow DF e)) (uc_mul (ra_B acc) (uc_pow DB e)) ex)
  | None => ∀ e acc, ∃ er, G e acc = Err er
  end.
Definition opt2_mul (a b : option (uc * uc)) : option (uc * uc) :=
  match a, b with Some (x1, x2), Some (y1, y2) => Some (uc_mul x1 y1, uc_mul x2 y2) | _, _ => None end.
Definition opt2_pow (a : option (uc * uc)) (v : Qc) : option (uc * uc) :=
  match a with Some (x1, x2) => Some (uc_pow x1 v, uc_pow x2 v) | None => None end.

Lemma lin2_ret : lin2_spec (λ _ acc, Ok acc) (Some (∅, ∅)).
Proof.
  split; [apply wf_empty|]. split; [apply wf_empty|]. intros e [F B ex] _. exists ex. simpl.
  rewrite !uc_pow_empty, !uc_mul_empty_r. reflexivity.
Qed.
Lemma lin2_err er : lin2_spec (λ _ _, Err er) None.
Proof. intros e acc. eauto. Qed.
Lemma lin2_ext G H D : (∀ e acc, G e acc = H e acc) → lin2_spec G D → lin2_spec H D.
Proof.
  intros E. destruct D as [[df db]|]; simpl.
  - intros (W1 & W2 & HG). repeat split; try assumption. intros e acc Wa. rewrite <- E. auto.
  - intros HG e acc. rewrite <- E. auto.
Qed.
Lemma lin2_bind G H Dg Dh :
  lin2_spec G Dg → lin2_spec H Dh → lin2_spec (λ e acc, a ←r G e acc; H e a) (opt2_mul Dg Dh).
Proof.
  destruct Dg as [[gf gb]|], Dh as [[hf hb]|]; simpl.
  - intros (Wgf & Wgb & HG) (Whf & Whb & HH). split; [apply wf_mul; assumption|]. split; [apply wf_mul; assumption|].
    intros e acc [WF WB]. destruct (HG e acc (conj WF WB)) as [ex1 ->]. simpl.
    edestruct (HH e) as [ex2 ->]; [split; simpl; apply wf_mul; assumption|]. exists ex2. simpl.
    rewrite !uc_pow_mul_distr by assumption.
    rewrite !(uc_mul_assoc _ (uc_pow _ e) (uc_pow _ e)) by (assumption || apply wf_pow). reflexivity.
  - intros (Wgf & Wgb & HG) HH e acc. destruct (G e acc) eqn:E; simpl; eauto.
  - intros HG _ e acc. destruct (HG e acc) as [er ->]. simpl. eauto.
  - intros HG _ e acc. destruct (HG e acc) as [er ->]. simpl. eauto.
Qed.
Lemma lin2_scale G D v : lin2_spec G D → lin2_spec (λ e acc, G (e * v)%Qc acc) (opt2_pow D v).
Proof.
  destruct D as [[df db]|]; simpl.
  - intros (W1 & W2 & HG). split; [apply wf_pow|]. split; [apply wf_pow|]. intros e acc Wa.
    destruct (HG (e * v)%Qc acc Wa) as [ex ->]. exists ex. rewrite !uc_pow_pow.
    replace (v * e)%Qc with (e * v)%Qc by ring. reflexivity.
  - intros HG e acc. apply HG.
Qed.
Definition lin2_val (G : Qc → racc → res racc) : option (uc * uc) :=
  match G 1%Qc (RAcc ∅ ∅ true) with Ok a => Some (ra_F a, ra_B a) | Err _ => None end.
Lemma lin2_unique G D : lin2_spec G D → D = lin2_val G.
Proof.
  unfold lin2_val. destruct D as [[df db]|]; simpl.
  - intros (W1 & W2 & HG). destruct (HG 1%Qc (RAcc ∅ ∅ true)) as [ex ->]; [split; apply wf_empty|].
    simpl. rewrite !uc_pow_one, !uc_mul_empty_l by assumption. reflexivity.
  - intros HG. destruct (HG 1%Qc (RAcc ∅ ∅ true)) as [er ->]. reflexivity.
Qed.

(** the step of [root_rec] at fuel [S f] *)
Definition root_step (f : nat) (r : reg) (exp : Qc) (acc : racc) (kv : string * Qc) : res racc :=
  let '(key, v) := kv in
  let exp2 := (exp * v)%Qc in
  d ←r resolve r key;
  if u_base d then Ok (RAcc (ra_F acc) (uc_add (ra_B acc) (u_name d) exp2) (ra_exact acc))
  else root_rec f r (map_to_list (u_ref d)) exp2
         (RAcc (if bool_decide (u_scale d = 1%Qc) && negb (u_float d) then ra_F acc
                else uc_add (ra_F acc) (u_name d) exp2)
               (ra_B acc) (ra_exact acc && (is_int exp2 && negb (u_float d)))).
Lemma root_rec_S f r l e acc : root_rec (S f) r l e acc = foldM (root_step f r e) l acc.
Proof. reflexivity. Qed.
Lemma root_rec_0 r l e acc : root_rec 0 r l e acc = Err EFuel.
Proof. reflexivity. Qed.

(** the generator contributed by a non-base definition *)
Definition gen_of (d : udef) : uc :=
  if bool_decide (u_scale d = 1%Qc) && negb (u_float d) then ∅ else {[ u_name d := 1%Qc ]}.
Lemma lin2_addB n v :
  lin2_spec (λ e acc, Ok (RAcc (ra_F acc) (uc_add (ra_B acc) n (e * v)%Qc) (ra_exact acc)))
            (Some (∅, uc_pow {[ n := 1%Qc ]} v)).
Proof.
  split; [apply wf_empty|]. split; [apply wf_pow|]. intros e [F B ex] [WF WB]. exists ex. simpl in *.
  rewrite uc_pow_empty, uc_mul_empty_r, uc_add_as_mul by assumption. rewrite uc_pow_pow.
  replace (v * e)%Qc with (e * v)%Qc by ring. reflexivity.
Qed.
Lemma lin2_addF d v (ex' : Qc → bool → bool) :
  lin2_spec (λ e acc, Ok (RAcc (if bool_decide (u_scale d = 1%Qc) && negb (u_float d) then ra_F acc
                                else uc_add (ra_F acc) (u_name d) (e * v)%Qc)
                               (ra_B acc) (ex' e (ra_exact acc))))
            (Some (uc_pow (gen_of d) v, ∅)).
Proof.
  split; [apply wf_pow|]. split; [apply wf_empty|]. intros e [F B ex] [WF WB]. eexists. simpl in *.
  rewrite uc_pow_empty, uc_mul_empty_r. unfold gen_of.
  destruct (bool_decide (u_scale d = 1%Qc) && negb (u_float d)).
  - rewrite !uc_pow_empty, uc_mul_empty_r. reflexivity.
  - rewrite uc_add_as_mul by assumption. rewrite uc_pow_pow.
    replace (v * e)%Qc with (e * v)%Qc by ring. reflexivity.
Qed.

Lemma root_rec_lin f : ∀ r l, ∃ D, lin2_spec (root_rec f r l) D.
Proof.
  induction f as [|f IHf]; intros r l.
  - exists None. intros e acc. exists EFuel. reflexivity.
  - assert (Hstep : ∀ kv, ∃ D, lin2_spec (λ e acc, root_step f r e acc kv) D).
    { intros [k v]. unfold root_step. destruct (resolve r k) as [d|er]; simpl.
      - destruct (u_base d).
        + eexists. apply (lin2_addB (u_name d) v).
        + destruct (IHf r (map_to_list (u_ref d))) as [D HD].
          eexists. eapply lin2_ext; [|apply (lin2_bind _ _ _ _
             (lin2_addF d v (λ e x, x && (is_int (e * v) && negb (u_float d)))) (lin2_scale _ _ v HD))].
          intros e acc. reflexivity.
      - exists None. apply lin2_err. }
    induction l as [|kv l IHl].
    + exists (Some (∅, ∅)). apply lin2_ret.
    + destruct (Hstep kv) as [Dk Hk]. destruct IHl as [Dl Hl]. exists (opt2_mul Dk Dl).
      eapply lin2_ext; [|apply (lin2_bind _ _ _ _ Hk Hl)].
      intros e acc. rewrite (root_rec_S f r (kv :: l)), foldM_cons. reflexivity.
Qed.

(** * Closed form over lists and containers *)
Fixpoint sem_list2 (row : string → option (uc * uc)) (l : list (string * Qc)) : option (uc * uc) :=
  match l with
  | [] => Some (∅, ∅)
  | kv :: l' => opt2_mul (opt2_pow (row kv.1) kv.2) (sem_list2 row l')
  end.
Definition root_row (f : nat) (r : reg) (k : string) : option (uc * uc) :=
  lin2_val (λ e acc, root_step f r e acc (k, 1%Qc)).
Lemma root_step_scale f r e acc k v : root_step f r e acc (k, v) = root_step f r (e * v)%Qc acc (k, 1%Qc).
Proof. unfold root_step. rewrite Qcmult_1_r. reflexivity. Qed.
Lemma root_step_lin f r k : lin2_spec (λ e acc, root_step f r e acc (k, 1%Qc)) (root_row f r k).
Proof.
  destruct (root_rec_lin (S f) r [(k, 1%Qc)]) as [D HD].
  assert (H : lin2_spec (λ e acc, root_step f r e acc (k, 1%Qc)) D).
  { eapply lin2_ext; [|exact HD]. intros e acc. rewrite root_rec_S, foldM_cons.
    destruct (root_step f r e acc (k, 1%Qc)); reflexivity. }
  unfold root_row. rewrite <- (lin2_unique _ _ H). exact H.
Qed.
Lemma root_rec_sem f r l : lin2_spec (root_rec (S f) r l) (sem_list2 (root_row f r) l).
Proof.
  induction l as [|[k v] l IH].
  - apply lin2_ret.
  - cbn [sem_list2 fst snd]. eapply lin2_ext; [|apply lin2_bind; [apply (lin2_scale _ _ v (root_step_lin f r k)) | exact IH]].
    intros e acc. cbv beta. rewrite (root_rec_S f r ((k, v) :: l)), foldM_cons, <- root_step_scale. reflexivity.
Qed.

Definition rowF (row : string → option (uc * uc)) (k : string) : option uc := option_map fst (row k).
Definition rowB (row : string → option (uc * uc)) (k : string) : option uc := option_map snd (row k).
Lemma sem_list2_split row l :
  sem_list2 row l = match sem_list (rowF row) l, sem_list (rowB row) l with
                    | Some f, Some b => Some (f, b) | _, _ => None end.
Proof.
  induction l as [|[k v] l IH]; simpl; [reflexivity|].
  rewrite IH. destruct (sem_list (rowF row) l), (sem_list (rowB row) l);
    unfold rowF, rowB; destruct (row k) as [[x1 x2]|]; reflexivity.
Qed.
Lemma sem_list_FB_None row l : sem_list (rowF row) l = None ↔ sem_list (rowB row) l = None.
Proof.
  induction l as [|[k v] l IH]; simpl; [split; discriminate|].
  destruct (sem_list (rowF row) l), (sem_list (rowB row) l); unfold rowF, rowB;
    destruct (row k) as [[x1 x2]|]; simpl; split; try discriminate; try reflexivity;
    intros _; exfalso; destruct IH as [I1 I2];
    first [discriminate (I1 eq_refl) | discriminate (I2 eq_refl)].
Qed.

Definition rrow (r : reg) : string → option (uc * uc) := root_row 63 r.
Definition rsem (r : reg) (a : uc) : option (uc * uc) := sem_list2 (rrow r) (map_to_list a).

Lemma root_sym_sem r a :
  match rsem r a with
  | Some (F, B) => wf F ∧ wf B ∧ ∃ ex, root_sym r a = Ok (RAcc F B ex)
  | None => ∃ er, root_sym r a = Err er
  end.
Proof.
  unfold root_sym, rsem. change (reg_fuel r) with (S 63).
  pose proof (root_rec_sem 63 r (map_to_list a)) as H. fold (rrow r) in H.
  destruct (sem_list2 (rrow r) (map_to_list a)) as [[F B]|]; unfold lin2_spec in H.
  - destruct H as (W1 & W2 & H). repeat split; try assumption.
    destruct (H 1%Qc (RAcc ∅ ∅ true)) as [ex Hex]; [split; apply wf_empty|]. exists ex. rewrite Hex. simpl.
    rewrite !uc_pow_one, !uc_mul_empty_l by assumption. reflexivity.
  - apply H.
Qed.
Lemma root_sym_Ok r a acc : root_sym r a = Ok acc → rsem r a = Some (ra_F acc, ra_B acc).
Proof.
  intros H. pose proof (root_sym_sem r a) as S. destruct (rsem r a) as [[F B]|].
  - destruct S as (_ & _ & ex & E). rewrite E in H. injection H as <-. reflexivity.
  - destruct S as [er E]. congruence.
Qed.

(** per-component characterisation through [msum], as for dimensions *)
Lemma rsem_F r a F B : rsem r a = Some (F, B) → sem_list (rowF (rrow r)) (map_to_list a) = Some F
                                                ∧ sem_list (rowB (rrow r)) (map_to_list a) = Some B.
Proof.
  unfold rsem. rewrite sem_list2_split.
  destruct (sem_list (rowF (rrow r)) (map_to_list a)), (sem_list (rowB (rrow r)) (map_to_list a)); try discriminate.
  intros [= -> ->]. auto.
Qed.
Lemma rsem_rows r a FB k : rsem r a = Some FB → is_Some (a !! k) → is_Some (rrow r k).
Proof.
  destruct FB as [F B]. intros H [v Hv]. destruct (rsem_F _ _ _ _ H) as [HF _].
  destruct (proj1 (sem_list_Some _ _ _ HF) (k, v)) as [x Hx]; [apply elem_of_map_to_list; exact Hv|].
  unfold rowF in Hx. simpl in Hx. destruct (rrow r k); [eauto | discriminate].
Qed.
Lemma rsem_is_Some r a : (∀ k, is_Some (a !! k) → is_Some (rrow r k)) → is_Some (rsem r a).
Proof.
  intros H. unfold rsem. rewrite sem_list2_split.
  assert (HF : is_Some (sem_list (rowF (rrow r)) (map_to_list a))).
  { apply sem_list_is_Some. intros [k v] Hin. apply elem_of_map_to_list in Hin.
    destruct (H k) as [x Hx]; [eauto|]. unfold rowF. simpl. rewrite Hx. simpl. eauto. }
  destruct HF as [f Hf]. rewrite Hf.
  destruct (sem_list (rowB (rrow r)) (map_to_list a)) eqn:EB; [eauto|].
  apply sem_list_FB_None in EB. congruence.
Qed.
Lemma rsem_wf r a F B : rsem r a = Some (F, B) → wf F ∧ wf B.
Proof. intros H. pose proof (root_sym_sem r a) as S. rewrite H in S. destruct S as (W1 & W2 & _). auto. Qed.
Lemma rsem_exp r a F B j : rsem r a = Some (F, B) →
  exp_of F j = msum (λ k, exp_of (default ∅ (rowF (rrow r) k)) j) a ∧
  exp_of B j = msum (λ k, exp_of (default ∅ (rowB (rrow r) k)) j) a.
Proof.
  intros H. destruct (rsem_F _ _ _ _ H) as [HF HB]. rewrite !msum_list.
  split; [exact (proj2 (sem_list_Some _ _ _ HF) j) | exact (proj2 (sem_list_Some _ _ _ HB) j)].
Qed.

Theorem rsem_mul r a b Fa Ba Fb Bb :
  rsem r a = Some (Fa, Ba) → rsem r b = Some (Fb, Bb) →
  rsem r (uc_mul a b) = Some (uc_mul Fa Fb, uc_mul Ba Bb).
Proof.
  intros Ha Hb. destruct (rsem_is_Some r (uc_mul a b)) as [[F B] H].
  { intros k Hk. destruct (uc_mul_dom _ _ _ Hk); eauto using rsem_rows. }
  rewrite H. destruct (rsem_wf _ _ _ _ H), (rsem_wf _ _ _ _ Ha), (rsem_wf _ _ _ _ Hb).
  f_equal. f_equal; (apply uc_ext; [assumption | apply wf_mul; assumption |]); intros j;
    rewrite exp_of_mul;
    [ rewrite (proj1 (rsem_exp _ _ _ _ j H)), (proj1 (rsem_exp _ _ _ _ j Ha)), (proj1 (rsem_exp _ _ _ _ j Hb))
    | rewrite (proj2 (rsem_exp _ _ _ _ j H)), (proj2 (rsem_exp _ _ _ _ j Ha)), (proj2 (rsem_exp _ _ _ _ j Hb)) ];
    apply msum_mul.
Qed.
Theorem rsem_div r a b Fa Ba Fb Bb :
  wf a → rsem r a = Some (Fa, Ba) → rsem r b = Some (Fb, Bb) →
  rsem r (uc_div a b) = Some (uc_div Fa Fb, uc_div Ba Bb).
Proof.
  intros Wa Ha Hb. destruct (rsem_is_Some r (uc_div a b)) as [[F B] H].
  { intros k Hk. destruct (uc_div_dom _ _ _ Hk); eauto using rsem_rows. }
  rewrite H. destruct (rsem_wf _ _ _ _ H), (rsem_wf _ _ _ _ Ha), (rsem_wf _ _ _ _ Hb).
  f_equal. f_equal; (apply uc_ext; [assumption | apply wf_div; assumption |]); intros j;
    rewrite exp_of_div;
    [ rewrite (proj1 (rsem_exp _ _ _ _ j H)), (proj1 (rsem_exp _ _ _ _ j Ha)), (proj1 (rsem_exp _ _ _ _ j Hb))
    | rewrite (proj2 (rsem_exp _ _ _ _ j H)), (proj2 (rsem_exp _ _ _ _ j Ha)), (proj2 (rsem_exp _ _ _ _ j Hb)) ];
    apply msum_div; assumption.
Qed.
Theorem rsem_pow r a e Fa Ba :
  rsem r a = Some (Fa, Ba) → rsem r (uc_pow a e) = Some (uc_pow Fa e, uc_pow Ba e).
Proof.
  intros Ha. destruct (rsem_is_Some r (uc_pow a e)) as [[F B] H].
  { intros k Hk. eauto using rsem_rows, uc_pow_dom. }
  rewrite H. destruct (rsem_wf _ _ _ _ H), (rsem_wf _ _ _ _ Ha).
  f_equal. f_equal; (apply uc_ext; [assumption | apply wf_pow |]); intros j; rewrite exp_of_pow;
    [ rewrite (proj1 (rsem_exp _ _ _ _ j H)), (proj1 (rsem_exp _ _ _ _ j Ha))
    | rewrite (proj2 (rsem_exp _ _ _ _ j H)), (proj2 (rsem_exp _ _ _ _ j Ha)) ];
    rewrite msum_pow; ring.
Qed.
Theorem rsem_empty r : rsem r ∅ = Some (∅, ∅).
Proof. unfold rsem. rewrite map_to_list_empty. reflexivity. Qed.
