(** Proofs/SerialHeapProofs.v — separation of a registry graph and its deep copy; the lazy wrapper. *)
From PintV Require Import Model.UC Model.Serial Model.SerialHeap.
From Coq Require Import Lia.
Open Scope string_scope.

(** ** cells *)
Lemma elem_refs c l : l ∈ refs c ↔ ∃ k, (k, HRef l) ∈ c.
Proof.
  unfold refs. rewrite elem_of_list_omap. split.
  - intros ([k v] & Hin & Hv). simpl in Hv. destruct v; [discriminate|]. injection Hv as ->. eauto.
  - intros (k & Hin). exists (k, HRef l). auto.
Qed.
Lemma alookup_elem {A} k (v : A) l : alookup k l = Some v → (k, v) ∈ l.
Proof.
  induction l as [|[k' v'] l IH]; simpl; [discriminate|].
  destruct (String.eqb k k') eqn:E.
  - apply String.eqb_eq in E. subst. intros [= ->]. left.
  - intros H. right. auto.
Qed.
Lemma alookup_refs k c l : alookup k c = Some (HRef l) → l ∈ refs c.
Proof. intros H. apply elem_refs. exists k. apply alookup_elem. exact H. Qed.
Lemma refs_cdel k c l : l ∈ refs (cdel k c) → l ∈ refs c.
Proof.
  rewrite !elem_refs. intros (k' & H). unfold cdel in H. apply elem_of_list_filter in H as [_ H]. eauto.
Qed.
Lemma refs_cset k v c l : l ∈ refs (cset k v c) → v = HRef l ∨ l ∈ refs c.
Proof.
  unfold cset. rewrite elem_refs. intros (k' & H). apply elem_of_cons in H as [[= _ <-]|H]; [auto|].
  right. apply (refs_cdel k). apply elem_refs. eauto.
Qed.
Lemma refs_shift off c l : l ∈ refs (shift_cell off c) ↔ ∃ l0, l = (l0 + off)%N ∧ l0 ∈ refs c.
Proof.
  rewrite elem_refs. unfold shift_cell. split.
  - intros (k & H). apply elem_of_list_fmap in H as ([k0 v0] & E & Hin). simpl in E.
    injection E as -> E. destruct v0 as [s|l0]; simpl in E; [discriminate|]. injection E as ->.
    exists l0. split; [reflexivity|]. apply elem_refs. eauto.
  - intros (l0 & -> & H). apply elem_refs in H as (k & H). exists k.
    apply elem_of_list_fmap. exists (k, HRef l0). auto.
Qed.
Lemma alookup_shift off k c : alookup k (shift_cell off c) = shift_val off <$> alookup k c.
Proof.
  induction c as [|[k' v] c IH]; simpl; [reflexivity|].
  destruct (String.eqb k k'); [reflexivity|exact IH].
Qed.

(** ** the allocation bound *)
Lemma hbound_list (ks : list N) a : a ∈ ks → (a < foldr (λ k acc, N.max (N.succ k) acc) 0 ks)%N.
Proof.
  induction ks as [|k ks IH]; simpl; intros H; [inversion H|].
  apply elem_of_cons in H as [->|H]; [lia|]. specialize (IH H). lia.
Qed.
Lemma hbound_spec (h : heap) a c : h !! a = Some c → (a < hbound h)%N.
Proof.
  intros H. unfold hbound. apply hbound_list. apply elem_of_list_fmap.
  exists (a, c). split; [reflexivity|]. apply elem_of_map_to_list. exact H.
Qed.
Lemma hbound_fresh (h : heap) : h !! hbound h = None.
Proof. destruct (h !! hbound h) eqn:E; [|reflexivity]. apply hbound_spec in E. lia. Qed.

(** ** following paths stays inside a closed region and only reads that region *)
Lemma follow_region h R r p l : region_ok h R → r ∈ R → follow h r p = Some l → l ∈ R.
Proof.
  intros [_ Hc]. revert r. induction p as [|k p IH]; intros r Hr; simpl.
  - intros [= <-]. exact Hr.
  - destruct (h !! r) as [c|] eqn:E; [|discriminate].
    destruct (alookup k c) as [[s|l']|] eqn:Ek; try discriminate.
    apply IH. eapply Hc; eauto using alookup_refs.
Qed.
Lemma follow_agree h h' R r p :
  region_ok h R → r ∈ R → (∀ a, a ∈ R → h' !! a = h !! a) → follow h' r p = follow h r p.
Proof.
  intros HR Hr Hag. revert r Hr. induction p as [|k p IH]; intros r Hr; simpl; [reflexivity|].
  rewrite (Hag r Hr). destruct (h !! r) as [c|] eqn:E; [|reflexivity].
  destruct (alookup k c) as [[s|l']|] eqn:Ek; try reflexivity.
  apply IH. destruct HR as [_ Hc]. eapply Hc; eauto using alookup_refs.
Qed.
Lemma hread_agree h h' R r p k :
  region_ok h R → r ∈ R → (∀ a, a ∈ R → h' !! a = h !! a) → hread h' r p k = hread h r p k.
Proof.
  intros HR Hr Hag. unfold hread. rewrite (follow_agree h h' R r p HR Hr Hag).
  destruct (follow h r p) as [l|] eqn:E; [|reflexivity]. simpl.
  rewrite (Hag l (follow_region _ _ _ _ _ HR Hr E)). reflexivity.
Qed.

(** ** one operation: it stays inside (a growth of) its own region and leaves the other alone *)
Lemma region_insert_in h R l c' :
  region_ok h R → l ∈ R → (∀ x, x ∈ refs c' → x ∈ R) → region_ok (<[l := c']> h) R.
Proof.
  intros [Ha Hc] Hl Hr. split.
  - intros a Ha'. destruct (decide (l = a)) as [->|N]; [rewrite lookup_insert; eauto|].
    rewrite lookup_insert_ne by exact N. auto.
  - intros a c x Ha' E Hx. destruct (decide (l = a)) as [->|N].
    + rewrite lookup_insert in E. injection E as <-. auto.
    + rewrite lookup_insert_ne in E by exact N. eauto.
Qed.
Lemma region_insert_out h R l c' : region_ok h R → l ∉ R → region_ok (<[l := c']> h) R.
Proof.
  intros [Ha Hc] Hl. split.
  - intros a Ha'. rewrite lookup_insert_ne by (intros ->; contradiction). auto.
  - intros a c x Ha' E Hx. rewrite lookup_insert_ne in E by (intros ->; contradiction). eauto.
Qed.

Lemma hop_apply_sep h R1 R2 r1 o :
  sep h R1 R2 → r1 ∈ R1 →
  ∃ R1', sep (hop_apply h r1 o) R1' R2 ∧ R1 ⊆ R1' ∧ (∀ a, a ∈ R2 → hop_apply h r1 o !! a = h !! a).
Proof.
  intros (H1 & H2 & Hd) Hr.
  assert (Hdis : ∀ x, x ∈ R1 → x ∈ R2 → False) by (intros x A B; exact (proj1 (elem_of_disjoint R1 R2) Hd x A B)).
  assert (Hsame : ∃ R1', sep h R1' R2 ∧ R1 ⊆ R1' ∧ (∀ a, a ∈ R2 → h !! a = h !! a))
    by (exists R1; split; [split; [exact H1|split; [exact H2|exact Hd]]|split; [reflexivity|reflexivity]]).
  (* a write of cell [c'] at a followed location, all of whose references stay in R1 *)
  assert (Hwrite : ∀ p l c c', follow h r1 p = Some l → h !! l = Some c → (∀ x, x ∈ refs c' → x ∈ R1) →
            ∃ R1', sep (<[l := c']> h) R1' R2 ∧ R1 ⊆ R1' ∧ (∀ a, a ∈ R2 → <[l := c']> h !! a = h !! a)).
  { intros p l c c' Hf Hl Hrefs. pose proof (follow_region _ _ _ _ _ H1 Hr Hf) as HlR.
    exists R1. split; [|split; [reflexivity|]].
    - split; [apply region_insert_in; auto|]. split; [|exact Hd].
      apply region_insert_out; [exact H2|]. intros Hx. exact (Hdis _ HlR Hx).
    - intros a Ha. apply lookup_insert_ne. intros ->. exact (Hdis _ HlR Ha). }
  assert (Hreg : ∀ p l c x, follow h r1 p = Some l → h !! l = Some c → x ∈ refs c → x ∈ R1).
  { intros p l c x Hf Hl Hx. pose proof (follow_region _ _ _ _ _ H1 Hr Hf) as HlR.
    destruct H1 as [_ Hc]. eapply Hc; eauto. }
  destruct o as [p k v|p k|p k|p k q]; simpl; unfold hwrite.
  - destruct (follow h r1 p) as [l|] eqn:Ef; [|exact Hsame]. destruct (h !! l) as [c|] eqn:El; [|exact Hsame].
    apply (Hwrite p l c _ Ef El). intros x Hx. apply refs_cset in Hx as [Hx|Hx]; [discriminate|].
    eapply Hreg; eauto.
  - destruct (follow h r1 p) as [l|] eqn:Ef; [|exact Hsame]. destruct (h !! l) as [c|] eqn:El; [|exact Hsame].
    apply (Hwrite p l c _ Ef El). intros x Hx. apply refs_cdel in Hx. eapply Hreg; eauto.
  - destruct (follow h r1 p) as [l|] eqn:Ef; [|exact Hsame]. destruct (h !! l) as [c|] eqn:El; [|exact Hsame].
    pose proof (follow_region _ _ _ _ _ H1 Hr Ef) as HlR.
    pose proof (hbound_fresh h) as Hn. set (n := hbound h) in *.
    assert (Hn1 : n ∉ R1) by (intros Hi; destruct H1 as [Ha _]; destruct (Ha _ Hi) as [? E]; congruence).
    assert (Hn2 : n ∉ R2) by (intros Hi; destruct H2 as [Ha _]; destruct (Ha _ Hi) as [? E]; congruence).
    assert (Hln : l ≠ n) by (intros ->; contradiction).
    assert (Hl2 : l ∉ R2) by (intros Hx; exact (Hdis _ HlR Hx)).
    exists (R1 ∪ {[n]}). split; [|split].
    + split; [|split].
      * destruct H1 as [Ha Hc]. split.
        -- intros a Ha'. destruct (decide (l = a)) as [->|N1]; [rewrite lookup_insert; eauto|].
           rewrite lookup_insert_ne by exact N1. destruct (decide (n = a)) as [->|N2]; [rewrite lookup_insert; eauto|].
           rewrite lookup_insert_ne by exact N2. apply Ha.
           apply elem_of_union in Ha' as [Ha'|Ha']; [exact Ha'|]. apply elem_of_singleton in Ha'. congruence.
        -- intros a c0 x Ha' E Hx. destruct (decide (l = a)) as [->|N1].
           ++ rewrite lookup_insert in E. injection E as <-.
              apply refs_cset in Hx as [Hx|Hx].
              ** injection Hx as <-. apply elem_of_union_r, elem_of_singleton. reflexivity.
              ** apply elem_of_union_l. eapply Hc; eauto.
           ++ rewrite lookup_insert_ne in E by exact N1. destruct (decide (n = a)) as [->|N2].
              ** rewrite lookup_insert in E. injection E as <-. inversion Hx.
              ** rewrite lookup_insert_ne in E by exact N2. apply elem_of_union_l.
                 apply elem_of_union in Ha' as [Ha'|Ha']; [eapply Hc; eauto|].
                 apply elem_of_singleton in Ha'. congruence.
      * apply region_insert_out; [apply region_insert_out; [exact H2|exact Hn2]|exact Hl2].
      * apply elem_of_disjoint. intros x Hx1 Hx2. apply elem_of_union in Hx1 as [Hx1|Hx1]; [exact (Hdis _ Hx1 Hx2)|].
        apply elem_of_singleton in Hx1. subst x. contradiction.
    + intros x Hx. apply elem_of_union_l. exact Hx.
    + intros a Ha. rewrite !lookup_insert_ne; [reflexivity| |]; intros ->; contradiction.
  - destruct (follow h r1 q) as [t|] eqn:Eq; [|exact Hsame].
    destruct (follow h r1 p) as [l|] eqn:Ef; [|exact Hsame]. destruct (h !! l) as [c|] eqn:El; [|exact Hsame].
    apply (Hwrite p l c _ Ef El). intros x Hx. apply refs_cset in Hx as [Hx|Hx].
    + injection Hx as <-. eapply follow_region; eauto.
    + eapply Hreg; eauto.
Qed.
Lemma sep_sym h R1 R2 : sep h R1 R2 → sep h R2 R1.
Proof. intros (A & B & C). repeat split; try apply A; try apply B; auto. Qed.

(** any sequence of operations on one registry *)
Lemma hops_sep h R1 R2 r1 os :
  sep h R1 R2 → r1 ∈ R1 →
  ∃ R1', sep (hops h r1 os) R1' R2 ∧ R1 ⊆ R1' ∧ (∀ a, a ∈ R2 → hops h r1 os !! a = h !! a).
Proof.
  revert h R1. induction os as [|o os IH]; intros h R1 Hs Hr; simpl.
  - exists R1. repeat split; try apply Hs; auto.
  - destruct (hop_apply_sep h R1 R2 r1 o Hs Hr) as (R1a & Hs' & Hsub & Hfr).
    destruct (IH _ R1a Hs' (Hsub _ Hr)) as (R1b & Hs'' & Hsub' & Hfr').
    exists R1b. split; [exact Hs''|]. split; [intros x Hx; apply Hsub', Hsub, Hx|]. intros a Ha. rewrite Hfr' by exact Ha. auto.
Qed.

(** ** deepcopy *)
Global Instance add_inj (off : N) : Inj (=) (=) (λ l : N, (l + off)%N).
Proof. intros x y H. lia. Qed.

Definition shifted (off : N) (h : heap) : gset N := set_map (λ l : N, (l + off)%N) (dom h).

Definition hcopy (h : heap) : heap := h ∪ kmap (λ l : N, (l + hbound h)%N) (shift_cell (hbound h) <$> h).
Lemma hdeepcopy_eq h r : hdeepcopy h r = (hcopy h, (r + hbound h)%N).
Proof. reflexivity. Qed.
Lemma hcopy_old h a c : h !! a = Some c → hcopy h !! a = Some c.
Proof. intros E. unfold hcopy. apply lookup_union_Some_l. exact E. Qed.
Lemma hcopy_new h a : hcopy h !! (a + hbound h)%N = shift_cell (hbound h) <$> h !! a.
Proof.
  unfold hcopy. rewrite lookup_union_r.
  - rewrite (lookup_kmap (λ l : N, (l + hbound h)%N)). apply lookup_fmap.
  - destruct (h !! (a + hbound h)%N) eqn:E; [|reflexivity]. apply hbound_spec in E. lia.
Qed.
Global Opaque hcopy.

Lemma hcopy_sep h : closed h → sep (hcopy h) (dom h) (shifted (hbound h) h).
Proof.
  intros Hc. split; [|split].
  - split.
    + intros a Ha. apply elem_of_dom in Ha as [c E]. rewrite (hcopy_old _ _ _ E). eauto.
    + intros a c l Ha E Hl. apply elem_of_dom in Ha as [c0 E0]. rewrite (hcopy_old _ _ _ E0) in E.
      injection E as <-. apply elem_of_dom. eapply Hc; eauto.
  - split.
    + intros a Ha. apply elem_of_map in Ha as (a0 & -> & Ha0). apply elem_of_dom in Ha0 as [c E].
      rewrite hcopy_new, E. simpl. eauto.
    + intros a c l Ha E Hl. apply elem_of_map in Ha as (a0 & -> & Ha0). apply elem_of_dom in Ha0 as [c0 E0].
      rewrite hcopy_new, E0 in E. simpl in E. injection E as <-.
      apply refs_shift in Hl as (l0 & -> & Hl0). apply elem_of_map. exists l0. split; [reflexivity|].
      apply elem_of_dom. eapply Hc; eauto.
  - apply elem_of_disjoint. intros a Ha Hb. apply elem_of_dom in Ha as [c E]. apply hbound_spec in E.
    apply elem_of_map in Hb as (a0 & -> & _). lia.
Qed.
(** at copy time the copy shows exactly what the source shows (references up to the address shift) *)
Lemma hcopy_follow h r p l :
  follow h r p = Some l → follow (hcopy h) (r + hbound h)%N p = Some (l + hbound h)%N.
Proof.
  revert r. induction p as [|k p IH]; intros r; simpl; [intros [= <-]; reflexivity|].
  rewrite hcopy_new. destruct (h !! r) as [c|]; [|discriminate]. simpl.
  rewrite alookup_shift. destruct (alookup k c) as [[s|l']|]; try discriminate. simpl. apply IH.
Qed.
Lemma hcopy_follow_None h r p :
  follow h r p = None → follow (hcopy h) (r + hbound h)%N p = None.
Proof.
  revert r. induction p as [|k p IH]; intros r; simpl; [discriminate|].
  rewrite hcopy_new. destruct (h !! r) as [c|]; [|reflexivity]. simpl.
  rewrite alookup_shift. destruct (alookup k c) as [[s|l']|]; try reflexivity. simpl. apply IH.
Qed.
Lemma hcopy_read h r p k :
  hread (hcopy h) (r + hbound h)%N p k = shift_val (hbound h) <$> hread h r p k.
Proof.
  unfold hread. destruct (follow h r p) as [l|] eqn:E.
  - rewrite (hcopy_follow _ _ _ _ E). simpl. rewrite hcopy_new.
    destruct (h !! l) as [c|]; [|reflexivity]. simpl. apply alookup_shift.
  - rewrite (hcopy_follow_None _ _ _ E). reflexivity.
Qed.
Lemma vkind_shift off v : vkind (shift_val off <$> v) = vkind v.
Proof. destruct v as [[s|l]|]; reflexivity. Qed.

(** ** a deep-copied registry evolves independently of its source (full) *)
Theorem deepcopy_independent_full h r :
  closed h → is_Some (h !! r) →
  let h0 := (hdeepcopy h r).1 in let r' := (hdeepcopy h r).2 in let off := hbound h in
  (* the copy is a distinct object that shows what the source shows *)
  r' ≠ r ∧ (∀ p k, vkind (hread h0 r' p k) = vkind (hread h r p k)) ∧ (∀ p k, hread h0 r p k = hread h r p k)
  (* whatever is then done to the copy: no cell of the source changes, no observation of it changes *)
  ∧ (∀ os, (∀ a c, h !! a = Some c → hops h0 r' os !! a = Some c) ∧ (∀ p k, hread (hops h0 r' os) r p k = hread h r p k))
  (* whatever is done to the source: no cell of the copy changes, no observation of it changes *)
  ∧ (∀ os, (∀ a c, h !! a = Some c → hops h0 r os !! (a + off)%N = Some (shift_cell off c))
           ∧ (∀ p k, hread (hops h0 r os) r' p k = hread h0 r' p k)).
Proof.
  intros Hc [c0 Hr]. rewrite hdeepcopy_eq. cbv zeta. cbn [fst snd].
  pose proof (hcopy_sep h Hc) as Hs.
  assert (Hr1 : r ∈ dom h) by (apply elem_of_dom; eauto).
  assert (Hr2 : (r + hbound h)%N ∈ shifted (hbound h) h) by (apply elem_of_map; eauto).
  assert (Hold : ∀ a, a ∈ dom h → hcopy h !! a = h !! a).
  { intros a Ha. apply elem_of_dom in Ha as [c E]. rewrite E. apply hcopy_old. exact E. }
  assert (HRh : region_ok h (dom h)).
  { split; [intros a Ha; apply elem_of_dom; exact Ha|]. intros a c l _ E Hl. apply elem_of_dom. eapply Hc; eauto. }
  split; [apply hbound_spec in Hr; lia|].
  split; [intros p k; rewrite hcopy_read; apply vkind_shift|].
  split; [intros p k; apply (hread_agree h _ (dom h)); auto|].
  split; intros os.
  - destruct (hops_sep _ _ _ _ os (sep_sym _ _ _ Hs) Hr2) as (R' & Hs' & _ & Hfr).
    assert (Hag : ∀ a, a ∈ dom h → hops (hcopy h) (r + hbound h)%N os !! a = h !! a)
      by (intros a Ha; rewrite (Hfr a Ha); apply Hold; exact Ha).
    split.
    + intros a c E. rewrite Hag by (apply elem_of_dom; eauto). exact E.
    + intros p k. apply (hread_agree h _ (dom h)); auto.
  - destruct (hops_sep _ _ _ _ os Hs Hr1) as (R' & Hs' & _ & Hfr).
    split.
    + intros a c E. rewrite Hfr by (apply elem_of_map; exists a; split; [reflexivity|apply elem_of_dom; eauto]).
      rewrite hcopy_new, E. reflexivity.
    + intros p k. apply (hread_agree _ _ (shifted (hbound h) h)); [apply Hs|exact Hr2|exact Hfr].
Qed.
(** interleavings: the invariant is kept by every operation on either registry, and every operation
    leaves all cells of the other registry's region untouched *)
Theorem deepcopy_step_frame h R1 R2 r1 r2 o :
  sep h R1 R2 → r1 ∈ R1 → r2 ∈ R2 →
  (∃ R1', sep (hop_apply h r1 o) R1' R2 ∧ R1 ⊆ R1' ∧ (∀ a, a ∈ R2 → hop_apply h r1 o !! a = h !! a)
          ∧ ∀ p k, hread (hop_apply h r1 o) r2 p k = hread h r2 p k)
  ∧ (∃ R2', sep (hop_apply h r2 o) R1 R2' ∧ R2 ⊆ R2' ∧ (∀ a, a ∈ R1 → hop_apply h r2 o !! a = h !! a)
          ∧ ∀ p k, hread (hop_apply h r2 o) r1 p k = hread h r1 p k).
Proof.
  intros Hs H1 H2. split.
  - destruct (hop_apply_sep h R1 R2 r1 o Hs H1) as (R' & A & B & C). exists R'.
    split; [exact A|]. split; [exact B|]. split; [exact C|].
    intros p k. apply (hread_agree h _ R2); [apply Hs|exact H2|exact C].
  - destruct (hop_apply_sep h R2 R1 r2 o (sep_sym _ _ _ Hs) H2) as (R' & A & B & C). exists R'.
    split; [apply sep_sym; exact A|]. split; [exact B|]. split; [exact C|].
    intros p k. apply (hread_agree h _ R1); [apply Hs|exact H1|exact C].
Qed.

(** the C18-m4 mutant (second level shared) is NOT independent: a write through the copy shows in
    the source *)
Definition ex_heap : heap :=
  <[0%N := [("_units_casei", HRef 1)]]> (<[1%N := [("pa", HRef 2)]]> (<[2%N := [("Pa", HAtom "")]]> ∅)).
Lemma shallow_copy_refuted :
  let h0 := (hshallow2 ex_heap 0).1 in let r' := (hshallow2 ex_heap 0).2 in
  closed ex_heap ∧ r' ≠ 0%N
  ∧ hread (hop_apply h0 r' (HSetAtom ["_units_casei"; "pa"] "PA" "")) 0%N ["_units_casei"; "pa"] "PA"
    ≠ hread ex_heap 0%N ["_units_casei"; "pa"] "PA".
Proof.
  split; [|split; [vm_compute; discriminate|vm_compute; discriminate]].
  intros a c l E Hl. unfold ex_heap in E.
  destruct (decide (a = 0%N)) as [->|N0].
  { rewrite lookup_insert in E. injection E as <-. simpl in Hl. apply elem_of_list_singleton in Hl as ->. vm_compute. eauto. }
  rewrite lookup_insert_ne in E by congruence.
  destruct (decide (a = 1%N)) as [->|N1].
  { rewrite lookup_insert in E. injection E as <-. simpl in Hl. apply elem_of_list_singleton in Hl as ->. vm_compute. eauto. }
  rewrite lookup_insert_ne in E by congruence.
  destruct (decide (a = 2%N)) as [->|N2].
  { rewrite lookup_insert in E. injection E as <-. simpl in Hl. inversion Hl. }
  rewrite lookup_insert_ne in E by congruence. rewrite lookup_empty in E. discriminate.
Qed.
(** … while the real deepcopy of the same graph is *)
Lemma deep_copy_example :
  let h0 := (hdeepcopy ex_heap 0).1 in let r' := (hdeepcopy ex_heap 0).2 in
  hread (hop_apply h0 r' (HSetAtom ["_units_casei"; "pa"] "PA" "")) 0%N ["_units_casei"; "pa"] "PA" = None
  ∧ hread (hop_apply h0 r' (HSetAtom ["_units_casei"; "pa"] "PA" "")) r' ["_units_casei"; "pa"] "PA" = Some (HAtom "").
Proof. split; vm_compute; reflexivity. Qed.

(** ** the lazy wrapper (full): for every constructor, every stored argument list and every sequence
    of accesses — first touch included, whichever kind it is — the answers are those of the
    registry built explicitly with the same arguments and [on_redefinition='raise'] *)
Lemma lx_run_built {S A} (ctor : rparams → S) r (as_ : list (access S A)) :
  lx_run ctor (LXBuilt r) as_ = ex_run r as_.
Proof.
  revert r. induction as_ as [|a as_ IH]; intros r; simpl; [reflexivity|].
  destruct a as [|f]; simpl.
  - rewrite IH. reflexivity.
  - destruct (f r) as [r' x]. rewrite IH. reflexivity.
Qed.
Theorem lazy_equals_explicit_full {S A} (ctor : rparams → S) p (as_ : list (access S A)) :
  lx_run ctor (LXPending p) as_ = ex_run (build ctor (set_raise p)) as_.
Proof.
  induction as_ as [|a as_ IH]; simpl; [reflexivity|].
  destruct a as [|f]; simpl.
  - rewrite IH. reflexivity.
  - destruct (f (build ctor (set_raise p))) as [r' x]. rewrite lx_run_built. reflexivity.
Qed.
(** and the stored policy of what gets built is 'raise', whatever was asked for *)
Lemma lazy_policy {S} (ctor : rparams → S) p : x_policy (lx_force ctor (LXPending p)) = PRaise.
Proof. reflexivity. Qed.
