(** Proofs/SerialProofs.v — lemmas about Model/Serial.v (C18). *)
From PintV Require Import Model.UC Model.Serial.
From Coq Require Import Ascii.
Open Scope string_scope.

(** ** tuple form *)
Lemma dict_of_items_to_list (m : uc) : dict_of_items (map_to_list m) = m.
Proof.
  unfold dict_of_items. symmetry. apply list_to_map_flip. symmetry. apply reverse_Permutation.
Qed.
Lemma tuple_roundtrip r o : obj_wf r o → from_tuple (o_kind o) r (to_tuple o) = o.
Proof.
  intros (Hr & Hn & Ho). destruct o as [k m [d one nit] rid]; simpl in *. subst.
  unfold from_tuple, to_tuple, mk_ucont; simpl. rewrite dict_of_items_to_list. reflexivity.
Qed.
(** weaker, for every object: magnitude, exponents and kind always survive *)
Lemma tuple_roundtrip_data r o :
  let o' := from_tuple (o_kind o) r (to_tuple o) in
  o_kind o' = o_kind o ∧ o_mag o' = o_mag o ∧ c_d (o_units o') = c_d (o_units o) ∧ o_reg o' = r_id r.
Proof. simpl. rewrite dict_of_items_to_list. auto. Qed.
(** the mutant that forgets the registry's non_int_type is caught by the statement *)
Lemma from_tuple_float_refuted :
  ∃ r o, obj_wf r o ∧ from_tuple_float (o_kind o) r (to_tuple o) ≠ o.
Proof.
  exists (SReg 1 NFraction ∅ [] [] [] [] true), (PObj KQuantity (Some (MInt 3)) (mk_ucont ∅ NFraction) 1).
  split; [repeat split|]. vm_compute. discriminate.
Qed.

(** ** container state *)
Lemma uc_state_roundtrip c : uc_setstate (uc_getstate c) = Some c.
Proof. destruct c; reflexivity. Qed.
Lemma ph_state_roundtrip p : ph_setstate (ph_getstate p) = Some p.
Proof. destruct p as [[d o n] s]; reflexivity. Qed.
(** a state tuple of another length is refused, never mis-assigned *)
Lemma uc_setstate_shape s c : uc_setstate s = Some c → s = uc_getstate c.
Proof.
  destruct s as [|[] [|[] [|[] [|]]]]; simpl; try discriminate. intros [= <-]. reflexivity.
Qed.

(** ** name resolution and lazy registration *)
Lemma strip_prefix_spec p s rest : strip_prefix p s = Some rest ↔ s = p ++ rest.
Proof.
  revert s. induction p as [|a p IH]; intros s; simpl.
  - split; [intros [= ->]|intros ->]; reflexivity.
  - destruct s as [|b s]; [split; discriminate|].
    destruct (Ascii.eqb a b) eqn:E.
    + apply Ascii.eqb_eq in E. subst b. rewrite IH. split; [intros ->; reflexivity|intros [= ->]; reflexivity].
    + apply Ascii.eqb_neq in E. split; [discriminate|]. intros [= ? ?]. congruence.
Qed.

Lemma resolve1_defined r n : is_lazy r n = false → is_Some (r_units r !! n) → resolve1 r n = SOk None.
Proof.
  intros Hl [c H]. unfold resolve1, direct. destruct (String.eqb n "dimensionless"); [reflexivity|].
  rewrite Hl, H. reflexivity.
Qed.
(** the only errors are "this very name is undefined" and the offset-prefix refusal *)
Lemma resolve1_err r n e : resolve1 r n = SErr e → e = EUndefinedUnit n ∨ e = EOffsetCalc.
Proof.
  unfold resolve1. destruct (String.eqb n "dimensionless"); [discriminate|].
  destruct (direct r n); [discriminate|].
  destruct (first_cand (cands r n)) as [[p u]|]; [|intros [= <-]; auto].
  destruct (String.eqb p ""); [discriminate|].
  destruct (existsb _ _); [intros [= <-]; auto|]. destruct (_ && _); discriminate.
Qed.
(** UndefinedUnit exactly when the name is neither a spelling nor decomposable *)
Lemma resolve1_undefined_iff r n :
  resolve1 r n = SErr (EUndefinedUnit n) ↔
  n ≠ "dimensionless" ∧ direct r n = None ∧ first_cand (cands r n) = None.
Proof.
  unfold resolve1. destruct (String.eqb n "dimensionless") eqn:E.
  - apply String.eqb_eq in E. split; [discriminate|]. intros (H & _); contradiction.
  - apply String.eqb_neq in E. destruct (direct r n).
    + split; [discriminate|]. intros (_ & ? & _); discriminate.
    + destruct (first_cand (cands r n)) as [[p u]|].
      * split; [|intros (_ & _ & ?); discriminate].
        destruct (String.eqb p ""); [discriminate|]. destruct (existsb _ _); [discriminate|].
        destruct (_ && _); discriminate.
      * split; auto.
Qed.

(** every candidate is (name of a prefix that heads the spelling, canonical name of a defined unit
    that was not itself written by lazy registration) *)
Lemma cands_spec r n p u :
  (p, u) ∈ cands r n →
  ∃ ps rest name, (ps, p) ∈ r_prefixes r ∧ n = ps ++ rest ∧ r_units r !! name = Some u ∧ is_lazy r name = false.
Proof.
  unfold cands. intros H. apply elem_of_list_In, in_flat_map in H as (suf & _ & H).
  apply in_flat_map in H as ([ps p'] & Hp & H). simpl in H.
  destruct (strip_prefix ps n) as [rest|] eqn:Es; [|destruct H].
  destruct (negb (ends_with suf n)); [destruct H|].
  destruct (negb (String.eqb suf "") && _); [destruct H|].
  match type of H with context [is_lazy r ?nm] => destruct (is_lazy r nm) eqn:Ez; [destruct H|] end.
  match type of H with context [r_units r !! ?nm] => destruct (r_units r !! nm) as [c|] eqn:El; [|destruct H] end.
  destruct H as [[= <- <-]|[]].
  apply strip_prefix_spec in Es. apply elem_of_list_In in Hp. eauto 10.
Qed.
Lemma first_cand_in cs c : first_cand cs = Some c → c ∈ cs.
Proof. unfold first_cand. intros H. apply find_some in H as [H _]. apply elem_of_list_In. exact H. Qed.

(** a registration writes [prefix name ++ canonical unit name] for a name that is not a spelling *)
Definition prefixed_key (r : sreg) (n k : string) : Prop :=
  direct r n = None ∧
  ∃ ps p rest name u, (ps, p) ∈ r_prefixes r ∧ p ≠ "" ∧ n = ps ++ rest ∧
                      r_units r !! name = Some u ∧ is_lazy r name = false ∧ k = p ++ u.
Lemma resolve1_registers r n k : resolve1 r n = SOk (Some k) → prefixed_key r n k.
Proof.
  unfold resolve1. destruct (String.eqb n "dimensionless"); [discriminate|].
  destruct (direct r n) eqn:En; [discriminate|].
  destruct (first_cand (cands r n)) as [[p u]|] eqn:Ef; [|discriminate].
  destruct (String.eqb p "") eqn:Ep; [discriminate|].
  destruct (existsb _ _); [discriminate|]. destruct (_ && _); [discriminate|]. intros [= <-].
  apply first_cand_in, cands_spec in Ef as (ps & rest & name & H1 & H2 & H3 & H4).
  apply String.eqb_neq in Ep. split; [exact En|]. eauto 14.
Qed.
(** with [_lazy_units] kept (the repaired pint) a key is written at most once *)
Lemma resolve1_registers_fresh r n k :
  r_tracks r = true → resolve1 r n = SOk (Some k) → r_units r !! k = None.
Proof.
  intros Ht. unfold resolve1. destruct (String.eqb n "dimensionless"); [discriminate|].
  destruct (direct r n); [discriminate|].
  destruct (first_cand (cands r n)) as [[p u]|]; [|discriminate].
  destruct (String.eqb p ""); [discriminate|]. destruct (existsb _ _); [discriminate|].
  rewrite Ht. simpl. destruct (bool_decide (is_Some (r_units r !! (p ++ u)))) eqn:E; [discriminate|].
  intros [= <-]. apply bool_decide_eq_false in E. destruct (r_units r !! (p ++ u)); [exfalso; eauto|reflexivity].
Qed.
(** … and a lazily written name is never the stem of a further prefix (no [millikiloinch]) *)
Lemma cands_skip_lazy r n p u :
  (p, u) ∈ cands r n → ∃ nm, r_units r !! nm = Some u ∧ is_lazy r nm = false.
Proof. intros H. apply cands_spec in H as (? & ? & nm & _ & _ & ? & ?). eauto. Qed.

Lemma register_fields k r :
  r_id (register k r) = r_id r ∧ r_nit (register k r) = r_nit r ∧ r_prefixes (register k r) = r_prefixes r
  ∧ r_suffixes (register k r) = r_suffixes r ∧ r_nonmult (register k r) = r_nonmult r
  ∧ r_units (register k r) = <[k := k]> (r_units r) ∧ r_tracks (register k r) = r_tracks r.
Proof. repeat split. Qed.

(** the sequence of intermediate registries: what [register_all] threads through *)
Fixpoint write_keys (m : gmap string string) (ks : list string) : gmap string string :=
  match ks with [] => m | k :: ks' => write_keys (<[k := k]> m) ks' end.
Lemma write_keys_app m a b : write_keys m (a ++ b)%list = write_keys (write_keys m a) b.
Proof. revert m. induction a; intros; simpl; auto. Qed.
Lemma write_keys_dom m ks k : is_Some (write_keys m ks !! k) ↔ is_Some (m !! k) ∨ k ∈ ks.
Proof.
  revert m. induction ks as [|x ks IH]; intros m; simpl.
  - split; [auto|]. intros [H|H]; [exact H|]. inversion H.
  - rewrite IH. destruct (decide (x = k)) as [->|N].
    + rewrite lookup_insert. split; intros _; [right; left|left; eauto].
    + rewrite lookup_insert_ne by exact N. split.
      * intros [H|H]; [auto|right; right; exact H].
      * intros [H|H]; [auto|]. apply elem_of_cons in H as [->|H]; [congruence|auto].
Qed.
Lemma write_keys_mono m ks k v : m !! k = Some v → (∀ x, x ∈ ks → m !! x = None ∨ m !! x = Some x) →
  ∃ v', write_keys m ks !! k = Some v'.
Proof. intros H _. apply (proj2 (write_keys_dom m ks k)). left. eauto. Qed.

Lemma reg_get_name_spec r n r' ks :
  reg_get_name r n = SOk (r', ks) →
  (ks = [] ∧ r' = r) ∨ (∃ k, ks = [k] ∧ r' = register k r ∧ prefixed_key r n k).
Proof.
  unfold reg_get_name. destruct (resolve1 r n) as [[k|]|] eqn:E; [| |discriminate]; intros [= <- <-].
  - right. exists k. auto using resolve1_registers.
  - left. auto.
Qed.

(** what the loop of [_unpickle] does to the application registry *)
Lemma register_all_spec r ns r' ks :
  register_all r ns = SOk (r', ks) →
  r_id r' = r_id r ∧ r_nit r' = r_nit r ∧ r_prefixes r' = r_prefixes r ∧ r_suffixes r' = r_suffixes r
  ∧ r_nonmult r' = r_nonmult r ∧ r_units r' = write_keys (r_units r) ks.
Proof.
  revert r r' ks. induction ns as [|n ns IH]; intros r r' ks; simpl.
  - intros [= <- <-]. repeat split.
  - destruct (reg_get_name r n) as [[r1 k1]|] eqn:E1; [|discriminate].
    destruct (register_all r1 ns) as [[r2 k2]|] eqn:E2; [|discriminate]. intros [= <- <-].
    apply IH in E2 as (A1 & A2 & A3 & A4 & A5 & A6).
    apply reg_get_name_spec in E1 as [[-> ->]|(k & -> & -> & _)]; simpl in *.
    + repeat split; assumption.
    + rewrite A6. repeat split; assumption.
Qed.
(** every key written is a prefixed unit of one of the names, formed in the registry as it was
    when that name was reached (earlier registrations included) *)
Lemma register_all_keys r ns r' ks k :
  register_all r ns = SOk (r', ks) → k ∈ ks →
  ∃ n r1, n ∈ ns ∧ r_prefixes r1 = r_prefixes r ∧ prefixed_key r1 n k
          ∧ (∀ x, is_Some (r_units r !! x) → is_Some (r_units r1 !! x)).
Proof.
  revert r r' ks. induction ns as [|n ns IH]; intros r r' ks; simpl.
  - intros [= <- <-] H. inversion H.
  - destruct (reg_get_name r n) as [[r1 k1]|] eqn:E1; [|discriminate].
    destruct (register_all r1 ns) as [[r2 k2]|] eqn:E2; [|discriminate]. intros [= <- <-] Hk.
    apply elem_of_app in Hk as [Hk|Hk].
    + apply reg_get_name_spec in E1 as [[-> ->]|(k' & -> & -> & P)]; [inversion Hk|].
      apply elem_of_list_singleton in Hk as ->. exists n, r. split; [left|]. split; [reflexivity|]. split; [exact P|auto].
    + destruct (IH _ _ _ E2 Hk) as (n' & rr & I1 & I2 & I3 & I4).
      exists n', rr. split; [right; exact I1|].
      apply reg_get_name_spec in E1 as [[-> ->]|(k' & -> & -> & P)]; simpl in *.
      * auto.
      * split; [exact I2|]. split; [exact I3|]. intros x Hx. apply I4. simpl.
        destruct (decide (k' = x)) as [->|N]; [rewrite lookup_insert; eauto|].
        rewrite lookup_insert_ne by exact N. exact Hx.
Qed.
(** "registered there first", whatever the registry did before: once the loop has run, every name
    either needed no registration when it was reached, or the key it asked for is a key of the final
    registry — for EVERY starting state, including one whose [_lazy_units] remembers names that a
    context overlay has meanwhile dropped from [_units] *)
Lemma register_all_present r ns r' ks n :
  register_all r ns = SOk (r', ks) → n ∈ ns →
  ∃ r1, resolve1 r1 n = SOk None ∨ ∃ k, resolve1 r1 n = SOk (Some k) ∧ is_Some (r_units r' !! k).
Proof.
  revert r r' ks. induction ns as [|m ns IH]; intros r r' ks; simpl; [intros _ H; inversion H|].
  unfold reg_get_name. destruct (resolve1 r m) as [[k|]|e] eqn:E1; [| |discriminate].
  - destruct (register_all (register k r) ns) as [[r2 k2]|] eqn:E2; [|discriminate]. intros [= <- <-] Hn.
    apply elem_of_cons in Hn as [->|Hn]; [|eapply IH; eauto].
    exists r. right. exists k. split; [exact E1|].
    pose proof (register_all_spec _ _ _ _ E2) as (_ & _ & _ & _ & _ & Hu). rewrite Hu.
    apply write_keys_dom. left. simpl. rewrite lookup_insert. eauto.
  - destruct (register_all r ns) as [[r2 k2]|] eqn:E2; [|discriminate]. intros [= <- <-] Hn.
    apply elem_of_cons in Hn as [->|Hn]; [exists r; left; exact E1|eapply IH; eauto].
Qed.

Lemma register_all_defined r ns :
  (∀ n, n ∈ ns → is_lazy r n = false ∧ is_Some (r_units r !! n)) → register_all r ns = SOk (r, []).
Proof.
  induction ns as [|n ns IH]; intros H; simpl; [reflexivity|].
  unfold reg_get_name. rewrite resolve1_defined by (apply H; left).
  rewrite IH by (intros x Hx; apply H; right; exact Hx). reflexivity.
Qed.
Lemma register_all_err r ns e :
  register_all r ns = SErr e → (∃ n, n ∈ ns ∧ e = EUndefinedUnit n) ∨ e = EOffsetCalc.
Proof.
  revert r. induction ns as [|n ns IH]; intros r; simpl; [discriminate|].
  unfold reg_get_name. destruct (resolve1 r n) as [[k|]|e1] eqn:E1.
  - destruct (register_all (register k r) ns) as [[r2 k2]|e2] eqn:E2; [discriminate|].
    intros [= <-]. destruct (IH _ E2) as [(x & Hx & ->) | ->]; [left; exists x; split; [right|]; auto|auto].
  - destruct (register_all r ns) as [[r2 k2]|e2] eqn:E2; [discriminate|].
    intros [= <-]. destruct (IH _ E2) as [(x & Hx & ->) | ->]; [left; exists x; split; [right|]; auto|auto].
  - intros [= <-]. destruct (resolve1_err _ _ _ E1) as [-> | ->]; [left; exists n; split; [left|]; auto|auto].
Qed.

Lemma register_trace_all r ns :
  register_all r ns = match register_trace r ns with
                      | (r', ks, None) => SOk (r', ks)
                      | (_, _, Some e) => SErr e
                      end.
Proof.
  revert r. induction ns as [|n ns IH]; intros r; simpl; [reflexivity|].
  destruct (reg_get_name r n) as [[r1 k1]|e]; [|reflexivity].
  rewrite IH. destruct (register_trace r1 ns) as [[r2 k2] [e|]]; reflexivity.
Qed.

(** ** pickle round trip through the application registry *)
Definition rebind (app : sreg) (o : pobj) : pobj := PObj (o_kind o) (o_mag o) (o_units o) (r_id app).
Lemma unpickle_with_ok app order o app' ks :
  register_all app (order (c_d (o_units o))) = SOk (app', ks) →
  unpickle_with app order (reduce_q o) = SOk (rebind app o, app').
Proof.
  intros H. unfold unpickle_with, reduce_q. rewrite uc_state_roundtrip, H. reflexivity.
Qed.
Lemma unpickle_with_err app order o e :
  register_all app (order (c_d (o_units o))) = SErr e →
  unpickle_with app order (reduce_q o) = SErr e.
Proof.
  intros H. unfold unpickle_with, reduce_q. rewrite uc_state_roundtrip, H. reflexivity.
Qed.
(** whatever happens, an object that comes back is the original attached to [app] *)
Lemma unpickle_with_inv app order o o' app' :
  unpickle_with app order (reduce_q o) = SOk (o', app') →
  o' = rebind app o ∧ ∃ ks, register_all app (order (c_d (o_units o))) = SOk (app', ks).
Proof.
  unfold unpickle_with, reduce_q. rewrite uc_state_roundtrip.
  destruct (register_all app _) as [[a k]|] eqn:E; [|discriminate].
  intros [= <- <-]. split; [reflexivity|eauto].
Qed.
Lemma unpickle_with_err_inv app order o e :
  unpickle_with app order (reduce_q o) = SErr e →
  (∃ n, n ∈ order (c_d (o_units o)) ∧ e = EUndefinedUnit n) ∨ e = EOffsetCalc.
Proof.
  unfold unpickle_with, reduce_q. rewrite uc_state_roundtrip.
  destruct (register_all app _) as [[a k]|] eqn:E; [discriminate|].
  intros [= <-]. exact (register_all_err _ _ _ E).
Qed.
Lemma key_order_elem (d : uc) n : n ∈ key_order d ↔ is_Some (d !! n).
Proof.
  unfold key_order. rewrite elem_of_list_fmap. split.
  - intros ([k v] & -> & H). apply elem_of_map_to_list in H. simpl. eauto.
  - intros [v H]. exists (n, v). split; [reflexivity|]. apply elem_of_map_to_list. exact H.
Qed.

(** ** exceptions *)
Lemma alookup_in {A} k (v : A) l : NoDup l.*1 → (k, v) ∈ l → alookup k l = Some v.
Proof.
  induction l as [|[k' v'] l IH]; simpl; intros ND H; [inversion H|].
  apply NoDup_cons in ND as [Hn ND].
  apply elem_of_cons in H as [[= <- <-]|H].
  - rewrite String.eqb_refl. reflexivity.
  - destruct (String.eqb k k') eqn:E; [|auto].
    apply String.eqb_eq in E. subst k'. exfalso. apply Hn.
    apply elem_of_list_fmap. exists (k, v). auto.
Qed.
Lemma nodupb_spec l : nodupb l = true → NoDup l.
Proof.
  induction l as [|x l IH]; simpl; [constructor|].
  intros H. apply andb_true_iff in H as [H1 H2]. constructor; [|auto].
  intros Hin. apply negb_true_iff in H1. apply not_true_iff_false in H1. apply H1.
  apply existsb_exists. exists x. split; [apply elem_of_list_In; exact Hin|apply String.eqb_refl].
Qed.
Lemma bind_pos ps vs : length vs = length ps → bind ps vs [] = Some (zip ps.*1 vs).
Proof.
  revert vs. induction ps as [|[p d] ps IH]; intros [|v vs]; simpl; try discriminate; [reflexivity|].
  intros [= H]. rewrite IH by exact H. reflexivity.
Qed.
Lemma eval_fields_fst env fs d : eval_fields env fs = Some d → d.*1 = fs.*1.
Proof.
  revert d. induction fs as [|[f e] fs IH]; simpl; intros d; [intros [= <-]; reflexivity|].
  destruct (feval env e); [|discriminate]. simpl.
  destruct (eval_fields env fs) eqn:E; [|discriminate]. simpl. intros [= <-]. simpl. f_equal. auto.
Qed.
(** the stored values are fixed points of the normalisation of [__init__] *)
Lemma eval_fields_fix fs env d D :
  eval_fields env fs = Some d → fs.*1 = map fexpr_param fs.*2 → NoDup D.*1 →
  (∀ kv, kv ∈ d → kv ∈ D) → eval_fields D fs = Some d.
Proof.
  revert d. induction fs as [|[f e] fs IH]; simpl; intros d; [intros [= <-]; reflexivity|].
  destruct (feval env e) as [v|] eqn:Ev; [|discriminate]. simpl.
  destruct (eval_fields env fs) as [rest|] eqn:Er; [|discriminate]. simpl.
  intros [= <-] [= Hf Hfs] ND Hsub.
  assert (Hl : alookup f D = Some v) by (apply alookup_in; [exact ND|apply Hsub; left]).
  assert (Hv : feval D e = Some v).
  { destruct e as [p|p]; simpl in *; subst f.
    - exact Hl.
    - rewrite Hl. destruct (alookup p env) as [[]|]; try discriminate; injection Ev as <-; reflexivity. }
  rewrite Hv. simpl. rewrite (IH rest eq_refl Hfs ND); [reflexivity|].
  intros kv Hkv. apply Hsub. right. exact Hkv.
Qed.
Lemma lookups_self {A} (l : list (string * A)) : NoDup l.*1 → ∀ D, NoDup D.*1 → (∀ kv, kv ∈ l → kv ∈ D) →
  lookups l.*1 D = Some l.*2.
Proof.
  intros _ D ND. induction l as [|[k v] l IH]; intros Hs; [reflexivity|].
  change (lookups ((k, v) :: l).*1 D) with (v0 ← alookup k D; vs ← lookups l.*1 D; Some (v0 :: vs)).
  rewrite (alookup_in k v D ND) by (apply Hs; left).
  rewrite IH by (intros kv H; apply Hs; right; exact H). reflexivity.
Qed.

Lemma alookup_none {A} k (l : list (string * A)) : k ∉ l.*1 → alookup k l = None.
Proof.
  induction l as [|[k' v] l IH]; simpl; intros H; [reflexivity|].
  destruct (String.eqb k k') eqn:E.
  - apply String.eqb_eq in E. subst. exfalso. apply H. left.
  - apply IH. intros Hin. apply H. right. exact Hin.
Qed.
Lemma state_of_nil ks d :
  forallb (λ k, negb (existsb (String.eqb k) d.*1)) ks = true → state_of ks d = [].
Proof.
  unfold state_of. induction ks as [|k ks IH]; simpl; [reflexivity|].
  intros H. apply andb_true_iff in H as [H1 H2]. rewrite alookup_none; [simpl; auto|].
  intros Hin. apply negb_true_iff, not_true_iff_false in H1. apply H1.
  apply existsb_exists. exists k. split; [apply elem_of_list_In; exact Hin|apply String.eqb_refl].
Qed.
Lemma exn_roundtrip c pos kw e :
  cls_ok c = true → construct c pos kw = Some e →
  ∃ r e', reduce_e c e = Some r ∧ rebuild_e c r = Some e' ∧ exn_same c e e'.
Proof.
  unfold cls_ok, construct. destruct (ec_varargs c) eqn:Ev.
  - destruct (ec_params c) eqn:E1; [|discriminate]. destruct (ec_fields c) eqn:E2; [|discriminate].
    destruct (ec_reduce c) eqn:E3; [discriminate|]. destruct (ec_state c) eqn:E4; [|discriminate].
    intros _. destruct kw; [|discriminate]. intros [= <-].
    unfold reduce_e, rebuild_e, construct. rewrite E3, Ev. simpl.
    eexists _, _. split; [reflexivity|]. split; [reflexivity|]. repeat split.
  - destruct (ec_reduce c) as [l|] eqn:E3; [|discriminate].
    intros H. repeat (apply andb_true_iff in H as [H ?]).
    apply bool_decide_eq_true in H. subst l.
    match goal with H : bool_decide (_.*1 = _) = true |- _ => apply bool_decide_eq_true in H; rename H into Hfn end.
    match goal with H : bool_decide (map _ _ = _) = true |- _ => apply bool_decide_eq_true in H; rename H into Hfp end.
    match goal with H : nodupb _ = true |- _ => apply nodupb_spec in H; rename H into ND end.
    match goal with H : forallb _ (ec_state c) = true |- _ => rename H into Hst end.
    destruct (negb (forallb _ kw)); [discriminate|].
    destruct (bind (ec_params c) pos kw) as [env|] eqn:Eb; [|discriminate]. simpl.
    destruct (eval_fields env (ec_fields c)) as [d|] eqn:Ed; [|discriminate]. simpl.
    intros [= <-].
    pose proof (eval_fields_fst _ _ _ Ed) as Hd1. rewrite Hfn in Hd1.
    assert (NDd : NoDup d.*1) by (rewrite Hd1; exact ND).
    unfold reduce_e, rebuild_e, construct. rewrite E3, Ev. simpl.
    rewrite <- Hd1 in Hst. rewrite (state_of_nil _ _ Hst).
    rewrite <- Hd1. rewrite (lookups_self d NDd d NDd) by auto. simpl.
    eexists _, _. split; [reflexivity|]. simpl.
    assert (Hlen : length d.*2 = length (ec_params c)).
    { rewrite fmap_length, <- (fmap_length fst d), Hd1, fmap_length. reflexivity. }
    rewrite (bind_pos _ _ Hlen). simpl. rewrite <- Hd1, zip_fst_snd.
    rewrite (eval_fields_fix _ _ _ d Ed) by (try congruence; auto). simpl.
    split; [reflexivity|]. split; [reflexivity|]. split; [reflexivity|].
    simpl. intros Hv. rewrite Ev in Hv. discriminate.
Qed.
(** the defect F17: a subclass that adds a field but inherits a one-field __reduce__ *)
Lemma f17_refuted :
  ∃ pos kw e r e', construct f17_class pos kw = Some e ∧ reduce_e f17_class e = Some r
                   ∧ rebuild_e f17_class r = Some e' ∧ ¬ exn_same f17_class e e'.
Proof.
  exists [VStr "bad definition"; VStr "units.txt"], [].
  eexists _, _, _. split; [vm_compute; reflexivity|]. split; [vm_compute; reflexivity|].
  split; [vm_compute; reflexivity|]. intros (_ & H & _). vm_compute in H. discriminate.
Qed.
Lemma f17_not_ok : cls_ok f17_class = false.
Proof. vm_compute. reflexivity. Qed.
(** a __reduce__ that swaps two fields is rejected by the guard as well *)
Lemma swapped_reduce_not_ok :
  cls_ok (ExnClass "X" false [("a", None); ("b", None)] [("a", FParam "a"); ("b", FParam "b")]
                   (RFields ["b"; "a"]) []) = false.
Proof. vm_compute. reflexivity. Qed.

(** ** registry identity *)
Lemma xop_cross_fixed op ka kb :
  op ≠ XEq → xop_cross true op ka kb = XValueError
             ∨ (xop_cross true op ka kb = XTypeError ∧ is_qlike ka = false ∧ is_qlike kb = false
                ∧ (op = XAdd ∨ op = XSub)).
Proof. destruct op, ka, kb; simpl; intros H; try congruence; auto 10. Qed.
Lemma xop_apply_fixed op a b :
  o_reg a ≠ o_reg b → op ≠ XEq →
  xop_apply true op a b = XValueError
  ∨ (xop_apply true op a b = XTypeError ∧ ∀ b', o_kind b' = o_kind b → xop_apply true op a b' = XTypeError).
Proof.
  intros Hr Hop. unfold xop_apply. apply N.eqb_neq in Hr. rewrite Hr.
  destruct (xop_cross_fixed op (o_kind a) (o_kind b) Hop) as [H|(H & Ha & Hb & Ho)]; [left; exact H|].
  right. split; [exact H|]. intros b' Hk. rewrite Hk.
  destruct (N.eqb (o_reg a) (o_reg b')); [|exact H].
  rewrite Ha, Hb. destruct Ho as [-> | ->]; reflexivity.
Qed.
Definition order_with_unit (op : xop) (a b : pobj) : bool :=
  is_order op && negb (is_qlike (o_kind a) && is_qlike (o_kind b)).
Lemma xop_apply_guarded op a b :
  o_reg a ≠ o_reg b → op ≠ XEq → order_with_unit op a b = false →
  xop_apply false op a b = xop_apply true op a b.
Proof.
  intros Hr Hop. unfold xop_apply, order_with_unit. apply N.eqb_neq in Hr. rewrite Hr.
  destruct op, (o_kind a), (o_kind b); simpl; congruence.
Qed.
Lemma xop_unit_order_refuted :
  ∃ op a b, o_reg a ≠ o_reg b ∧ op ≠ XEq ∧ xop_apply false op a b = XUnchecked.
Proof.
  exists XLt, (PObj KUnit None (mk_ucont {[ "meter" := 1%Qc ]} NFloat) 1),
         (PObj KUnit None (mk_ucont {[ "meter" := 1%Qc ]} NFloat) 2).
  split; [discriminate|]. split; [discriminate|reflexivity].
Qed.
Lemma check_same_registry_spec a b :
  check_same_registry a (Some b) = if N.eqb (o_reg a) (o_reg b) then SOk true else SErr EValueError.
Proof. reflexivity. Qed.

(** ** registries in a store: deep copies evolve independently (functional part only) *)
Lemma store_op_frame s i j o : i ≠ j → store_op s j o !! i = s !! i.
Proof.
  intros Hne. unfold store_op. destruct (s !! j); [|reflexivity].
  rewrite lookup_insert_ne by congruence. reflexivity.
Qed.
Lemma store_ops_frame s i j ops : i ≠ j → foldl (λ s o, store_op s j o) s ops !! i = s !! i.
Proof.
  intros Hne. revert s. induction ops as [|o ops IH]; intros s; simpl; [reflexivity|].
  rewrite IH. apply store_op_frame. exact Hne.
Qed.
Lemma store_deepcopy_lookup s i j r : s !! i = Some r → store_deepcopy s i j !! j = Some (with_id j r).
Proof. intros H. unfold store_deepcopy. rewrite H. apply lookup_insert. Qed.
Lemma store_deepcopy_frame s i j k : k ≠ j → store_deepcopy s i j !! k = s !! k.
Proof.
  intros Hne. unfold store_deepcopy. destruct (s !! i); [|reflexivity].
  rewrite lookup_insert_ne by congruence. reflexivity.
Qed.
Lemma deepcopy_independent s i j r ops :
  i ≠ j → s !! i = Some r →
  (* definitions applied to the copy do not show in the source *)
  foldl (λ s o, store_op s j o) (store_deepcopy s i j) ops !! i = Some r
  (* and definitions applied to the source do not show in the copy *)
  ∧ foldl (λ s o, store_op s i o) (store_deepcopy s i j) ops !! j = Some (with_id j r).
Proof.
  intros Hne H. split.
  - rewrite store_ops_frame by exact Hne. rewrite store_deepcopy_frame by exact Hne. exact H.
  - rewrite store_ops_frame by congruence. apply store_deepcopy_lookup. exact H.
Qed.
(** a copy answers name resolution exactly like its source at copy time *)
Lemma with_id_resolve j r n : resolve1 (with_id j r) n = resolve1 r n.
Proof. reflexivity. Qed.

(** ** the lazy wrapper *)
Fixpoint run_explicit {A} (r : sreg) (fs : list (sreg → sreg * A)) : list A :=
  match fs with [] => [] | f :: fs' => let '(r', a) := f r in a :: run_explicit r' fs' end.
Fixpoint run_lazy {A} (build : sreg) (l : lazyreg) (fs : list (sreg → sreg * A)) : list A :=
  match fs with
  | [] => []
  | f :: fs' => let '(l', a) := lazy_access build l f in a :: run_lazy build l' fs'
  end.
Lemma run_lazy_built {A} build r (fs : list (sreg → sreg * A)) :
  run_lazy build (LazyBuilt r) fs = run_explicit r fs.
Proof.
  revert r. induction fs as [|f fs IH]; intros r; simpl; [reflexivity|].
  unfold lazy_access. simpl. destruct (f r) as [r' a]. rewrite IH. reflexivity.
Qed.
Lemma lazy_equals_explicit {A} build (fs : list (sreg → sreg * A)) :
  run_lazy build LazyPending fs = run_explicit build fs.
Proof.
  destruct fs as [|f fs]; simpl; [reflexivity|].
  unfold lazy_access. simpl. destruct (f build) as [r' a]. rewrite run_lazy_built. reflexivity.
Qed.

(** ** concrete instances (non-vacuity of the hypotheses above) *)
Definition ex_app : sreg :=
  SReg 7 NFloat (list_to_map [("inch", "inch"); ("in", "inch"); ("fortnight", "fortnight");
                              ("degree_Celsius", "degree_Celsius")])
       [("", ""); ("kilo", "kilo"); ("k", "kilo"); ("micro", "micro")] [""; "s"] ["degree_Celsius"] [] true.
Definition ex_q : pobj :=
  PObj KQuantity (Some (MInt 3))
       (mk_ucont (mkuc [("kiloinch", mkq 1 1); ("microfortnight", mkq (-1) 1)]) NFloat) 1.
Lemma ex_unpickle :
  ∃ app', unpickle_q ex_app (reduce_q ex_q) = SOk (rebind ex_app ex_q, app')
          ∧ is_Some (r_units app' !! "kiloinch") ∧ is_Some (r_units app' !! "microfortnight")
          ∧ r_units ex_app !! "kiloinch" = None ∧ o_reg (rebind ex_app ex_q) = 7%N.
Proof.
  destruct (register_all ex_app (key_order (c_d (o_units ex_q)))) as [[app' ks]|] eqn:E;
    [|vm_compute in E; discriminate].
  exists app'. split; [exact (unpickle_with_ok _ _ _ _ _ E)|].
  pose proof (register_all_spec _ _ _ _ E) as (_ & _ & _ & _ & _ & Hu). rewrite Hu.
  assert (ks = ["kiloinch"; "microfortnight"] ∨ ks = ["microfortnight"; "kiloinch"]) as [-> | ->]
    by (vm_compute in E; injection E as _ <-; auto).
  all: repeat split; try (apply write_keys_dom; right; set_solver); vm_compute; reflexivity.
Qed.
Lemma ex_unpickle_undefined :
  unpickle_q ex_app (reduce_q (PObj KUnit None (mk_ucont (mkuc [("furlong", mkq 1 1)]) NFloat) 1))
  = SErr (EUndefinedUnit "furlong")
  ∧ unpickle_q ex_app (reduce_q (PObj KUnit None (mk_ucont (mkuc [("kilodegree_Celsius", mkq 1 1)]) NFloat) 1))
  = SErr EOffsetCalc.
Proof. split; vm_compute; reflexivity. Qed.
Lemma ex_tuple :
  obj_wf ex_app (rebind ex_app ex_q) ∧ length (to_tuple ex_q).2 = 2%nat
  ∧ from_tuple KQuantity ex_app (to_tuple (rebind ex_app ex_q)) = rebind ex_app ex_q.
Proof.
  assert (W : obj_wf ex_app (rebind ex_app ex_q)) by (repeat split).
  split; [exact W|]. split; [vm_compute; reflexivity|]. exact (tuple_roundtrip _ _ W).
Qed.
Lemma ex_cross :
  xop_apply false XAdd ex_q (rebind ex_app ex_q) = XValueError
  ∧ xop_apply false XLt ex_q (rebind ex_app ex_q) = XValueError
  ∧ xop_apply false XMul ex_q ex_q = XSameRegistry.
Proof. repeat split. Qed.

(** ** a prefixed unit first met inside a unit-redefining context (seeded change C18-m5) *)
Definition ex_inside : sreg := match unpickle_q ex_app (reduce_q ex_q) with SOk (_, r) => r | SErr _ => ex_app end.
Definition ex_left : sreg := (ctx_leave (ctx_enter ∅ ex_app).2 ex_inside).1.
Lemma ex_context_history :
  (* inside the context both names were written, leaving drops them from _units but not from _lazy_units *)
  is_Some (r_units ex_inside !! "kiloinch") ∧ r_units ex_left !! "kiloinch" = None ∧ is_lazy ex_left "kiloinch" = true
  (* unpickling afterwards registers them again *)
  ∧ ∃ r, unpickle_q ex_left (reduce_q ex_q) = SOk (rebind ex_left ex_q, r)
         ∧ is_Some (r_units r !! "kiloinch") ∧ is_Some (r_units r !! "microfortnight").
Proof.
  split; [vm_compute; eauto|]. split; [vm_compute; reflexivity|]. split; [vm_compute; reflexivity|].
  destruct (register_all ex_left (key_order (c_d (o_units ex_q)))) as [[r ks]|] eqn:E; [|vm_compute in E; discriminate].
  exists r. split; [exact (unpickle_with_ok _ _ _ _ _ E)|].
  pose proof (register_all_spec _ _ _ _ E) as (_ & _ & _ & _ & _ & Hu). rewrite Hu.
  assert (ks = ["kiloinch"; "microfortnight"] ∨ ks = ["microfortnight"; "kiloinch"]) as [-> | ->]
    by (vm_compute in E; injection E as _ <-; auto).
  all: split; apply write_keys_dom; right; set_solver.
Qed.
(** the mutant "skip what the parse cache knows" leaves the unit out *)
Lemma skipping_cache_refuted :
  ∃ r ks, register_all_skipping ["kiloinch"; "microfortnight"] ex_left (key_order (c_d (o_units ex_q))) = SOk (r, ks)
          ∧ r_units r !! "kiloinch" = None.
Proof. eexists _, _. split; vm_compute; reflexivity. Qed.
