(** Proofs/SerialTable.v — the finite part of [exn_roundtrip]: every class of the table that T5
    regenerates from /repo (Gen/ErrorsTable.v) has the shape [cls_ok], except possibly the
    parser's DefinitionSyntaxError (F17).  Re-checked by [vm_compute] on every run. *)
From PintV Require Import Model.UC Model.Serial Proofs.SerialProofs Gen.ErrorsTable.
Open Scope string_scope.

Lemma errors_table_ok : forallb (λ c, is_f17 c || cls_ok c) errors_table = true.
Proof. vm_compute. reflexivity. Qed.

Lemma errors_table_roundtrip c :
  c ∈ errors_table → is_f17 c = false →
  ∀ pos kw e, construct c pos kw = Some e →
  ∃ r e', reduce_e c e = Some r ∧ rebuild_e c r = Some e' ∧ exn_same c e e'.
Proof.
  intros Hin Hf. pose proof errors_table_ok as H. rewrite forallb_forall in H.
  specialize (H c (proj1 (elem_of_list_In _ _) Hin)). rewrite Hf in H. simpl in H.
  intros pos kw e. apply exn_roundtrip. exact H.
Qed.
(** the classes of pint/errors.py the property names are all present and covered *)
Lemma errors_table_covers :
  forallb (λ q, existsb (λ c, String.eqb (ec_qual c) q && negb (is_f17 c) && cls_ok c) errors_table)
    ["pint.errors.PintError"; "pint.errors.DefinitionError"; "pint.errors.DefinitionSyntaxError";
     "pint.errors.RedefinitionError"; "pint.errors.UndefinedUnitError"; "pint.errors.PintTypeError";
     "pint.errors.DimensionalityError"; "pint.errors.OffsetUnitCalculusError";
     "pint.errors.LogarithmicUnitCalculusError"; "pint.errors.UnitStrippedWarning"] = true.
Proof. vm_compute. reflexivity. Qed.

Lemma ex_exn_table :
  existsb (λ c, negb (is_f17 c) && cls_ok c && (2 <=? length (ec_params c))%nat &&
                match construct c [VStr "meter"; VStr "second"] [] with Some _ => true | None => false end)
          errors_table = true.
Proof. vm_compute. reflexivity. Qed.
