(** Proofs/StandardsBaseProofs.v — C20 through [_get_base_units]: the registry regenerated from
    /repo, asked for "factor × base units" under the default system its own definition file
    declares, tells the standardised SI factor for every row of the table. *)
From PintV Require Import Model.UC Model.Eval Model.Registry Model.Groups Model.Systems.
From PintV Require Import Model.Standards Model.StandardsBase.
From PintV Require Import Gen.DefaultDefs Gen.DefaultReg Gen.Standards.
Open Scope string_scope.

(** the default system of the bundled definitions ([@defaults system = mks]) *)
Definition default_system : option system :=
  match Eval.assoc "system" default_defaults with
  | Some n => system_of default_reg default_systems n
  | None => None
  end.

(** * Meaning of the boolean check for the exact rows (all registries, systems, rows) *)
Lemma base_row_ok_exact r sy row :
  s_basis row = BSI → s_kind row = KExact → base_row_ok r sy row = true →
  ∃ dest, base_units_in r sy {[ s_name row := 1%Qc ]} = Ok (Some (s_factor row), true, dest)
          ∧ (∀ d u, In (d, u) si_units → exp_of dest u = dim_exp (s_dims row) d)
          ∧ (∀ k v, dest !! k = Some v → In k (map snd si_units) ∨ dimless r k = true).
Proof.
  unfold base_row_ok. intros -> ->.
  destruct (base_units_in r sy {[ s_name row := 1%Qc ]}) as [[[f ex] dest]|e]; [|discriminate].
  intros H. apply andb_true_iff in H as [H Hk]. apply andb_true_iff in H as [Hf Hu].
  destruct f as [q|]; [|discriminate Hf].
  apply andb_true_iff in Hf as [Hex Hq]. apply bool_decide_eq_true in Hq.
  destruct ex; [|discriminate Hex]. subst q.
  exists dest. split; [reflexivity|]. split.
  - intros d u Hin. rewrite forallb_forall in Hu. specialize (Hu (d, u) Hin).
    apply bool_decide_eq_true in Hu. exact Hu.
  - intros k v Hkv. rewrite forallb_forall in Hk.
    assert (Hin : In (k, v) (map_to_list dest)).
    { apply elem_of_list_In, elem_of_map_to_list. exact Hkv. }
    specialize (Hk (k, v) Hin). apply orb_true_iff in Hk as [Hk|Hk]; [left|right; exact Hk].
    apply existsb_exists in Hk as [x [Hx He]]. apply String.eqb_eq in He. simpl in He. subst x. exact Hx.
Qed.

(** * The bundled registry (finite: the bound is the table) *)
Lemma defaults_base_units_match_standards :
  base_rows_ok_except known_deviations default_reg default_system standards = true.
Proof. vm_compute. reflexivity. Qed.

Lemma defaults_base_units_match_standards_forall :
  ∃ sy, default_system = Some sy ∧
        ∀ row, In row standards → listed known_deviations row = false → base_row_ok default_reg sy row = true.
Proof.
  pose proof defaults_base_units_match_standards as H. unfold base_rows_ok_except in H.
  destruct default_system as [sy|]; [|discriminate H].
  exists sy. split; [reflexivity|]. intros row Hin Hl.
  rewrite forallb_forall in H. specialize (H row Hin). rewrite Hl in H. exact H.
Qed.

(** the default system replaces gram by kilogram and nothing else by anything else *)
Lemma default_system_is_mks :
  match default_system with
  | Some sy => forallb (λ kv : string * uc,
                 uc_eqb kv.2 {[ (if String.eqb kv.1 "gram" then "kilogram" else kv.1) := 1%Qc ]})
                 (map_to_list (s_base sy)) && bool_decide (is_Some (s_base sy !! "gram"))
  | None => false
  end = true.
Proof. vm_compute. reflexivity. Qed.

(** famous instance: the farad (mass to the power -1) is 1 × A² s⁴ kg⁻¹ m⁻² *)
Lemma farad_base_units :
  ∃ sy dest, default_system = Some sy ∧
    base_units_in default_reg sy {[ "farad" := 1%Qc ]} = Ok (Some 1%Qc, true, dest) ∧
    exp_of dest "kilogram" = mkq (-1) 1 ∧ exp_of dest "meter" = mkq (-2) 1 ∧
    exp_of dest "second" = mkq 4 1 ∧ exp_of dest "ampere" = mkq 2 1.
Proof.
  destruct defaults_base_units_match_standards_forall as [sy [Hsy Hall]].
  destruct (row_named standards "farad") as [row|] eqn:E; [|vm_compute in E; discriminate E].
  assert (Hin : In row standards) by (unfold row_named in E; apply find_some in E; tauto).
  assert (Hok : base_row_ok default_reg sy row = true).
  { apply Hall; [exact Hin|]. vm_compute in E. injection E as <-. vm_compute. reflexivity. }
  assert (Hrow : (String.eqb (s_name row) "farad" && match s_basis row with BSI => true | _ => false end
                  && match s_kind row with KExact => true | _ => false end
                  && Qeq_bool (this (s_factor row)) 1
                  && Qeq_bool (this (dim_exp (s_dims row) "[mass]")) (-1)
                  && Qeq_bool (this (dim_exp (s_dims row) "[length]")) (-2)
                  && Qeq_bool (this (dim_exp (s_dims row) "[time]")) 4
                  && Qeq_bool (this (dim_exp (s_dims row) "[current]")) 2) = true).
  { vm_compute in E. injection E as <-. vm_compute. reflexivity. }
  clear E Hall Hin.
  apply andb_true_iff in Hrow as [Hrow Ha]. apply andb_true_iff in Hrow as [Hrow Ht].
  apply andb_true_iff in Hrow as [Hrow Hl]. apply andb_true_iff in Hrow as [Hrow Hm].
  apply andb_true_iff in Hrow as [Hrow Hf]. apply andb_true_iff in Hrow as [Hrow Hk].
  apply andb_true_iff in Hrow as [Hn Hb].
  apply String.eqb_eq in Hn.
  destruct (s_basis row) eqn:Eb; [|discriminate Hb]. destruct (s_kind row) eqn:Ek; try discriminate Hk.
  destruct (base_row_ok_exact default_reg sy row Eb Ek Hok) as [dest [Hbu [Hu _]]].
  clear Hok. rewrite Hn in Hbu.
  assert (Hf' : s_factor row = 1%Qc) by (apply Qc_is_canon; apply Qeq_bool_eq; exact Hf).
  rewrite Hf' in Hbu.
  exists sy, dest. split; [exact Hsy|]. split; [exact Hbu|]. clear Hbu Hsy.
  split; [|split; [|split]].
  - rewrite (Hu "[mass]" "kilogram") by (simpl; tauto). apply Qc_is_canon. apply Qeq_bool_eq. exact Hm.
  - rewrite (Hu "[length]" "meter") by (simpl; tauto). apply Qc_is_canon. apply Qeq_bool_eq. exact Hl.
  - rewrite (Hu "[time]" "second") by (simpl; tauto). apply Qc_is_canon. apply Qeq_bool_eq. exact Ht.
  - rewrite (Hu "[current]" "ampere") by (simpl; tauto). apply Qc_is_canon. apply Qeq_bool_eq. exact Ha.
Qed.
