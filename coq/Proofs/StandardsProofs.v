(** Proofs/StandardsProofs.v — lemmas for property C20.
    (1) what a passed row means, for every registry and every row (unfolding of the boolean
        check into statements about [root_of], [dim_of], [get_symbol], [resolve]);
    (2) the finite checks on the registry regenerated from /repo, by [vm_compute]. *)
From PintV Require Import Model.UC Model.Eval Model.Registry Model.Standards.
From PintV Require Import Gen.DefaultDefs Gen.DefaultReg Gen.Standards.
Open Scope string_scope.

(** * 1. Meaning of the boolean check (all registries, all rows) *)
Definition symbol_holds (r : reg) (row : srow) : Prop :=
  s_syms row = [] ∨ ∃ s, get_symbol r (s_name row) = Ok s ∧ In s (s_syms row).
Definition offset_holds (r : reg) (row : srow) : Prop :=
  ∃ d, resolve r (s_name row) = Ok d ∧
       match s_offset row with
       | None => u_conv d = CScale
       | Some o => (u_conv d = CScale ∧ o = 0%Qc) ∨ u_conv d = COffset o
       end.
Definition dims_hold (r : reg) (row : srow) : Prop :=
  dim_of r {[ s_name row := 1%Qc ]} = Ok (mkuc (s_dims row)).
(** the number, by kind *)
Definition factor_holds (r : reg) (row : srow) : Prop :=
  match s_kind row with
  | KExact => ∃ k b, basis_scale (s_basis row) (s_dims row) = Some k ∧
                     root_of r {[ s_name row := 1%Qc ]} = Ok (Some (s_factor row * k)%Qc, b, true)
  | KApprox => ∃ k q b ex, basis_scale (s_basis row) (s_dims row) = Some k ∧
                     root_of r {[ s_name row := 1%Qc ]} = Ok (Some q, b, ex) ∧
                     within (s_tol row * k)%Qc q (s_factor row * k)%Qc = true
  | KFloat => ∃ f b ex, root_of r {[ s_name row := 1%Qc ]} = Ok (f, b, ex) ∧
                     match f with
                     | None => True
                     | Some q => ∃ k, basis_scale (s_basis row) (s_dims row) = Some k ∧
                                      within (s_tol row * k)%Qc q (s_factor row * k)%Qc = true
                     end
  end.
Definition row_holds (r : reg) (row : srow) : Prop :=
  factor_holds r row ∧ dims_hold r row ∧ symbol_holds r row ∧ offset_holds r row.

Lemma qz_eq (o : Qc) : qz o = true → o = 0%Qc.
Proof.
  unfold qz. intros H. apply Qeq_bool_eq in H. apply Qc_is_canon. exact H.
Qed.

Lemma factor_ok_holds r row : factor_ok r row = true → factor_holds r row.
Proof.
  unfold factor_ok, factor_holds.
  destruct (root_of r {[ s_name row := 1%Qc ]}) as [[[f b] ex]|e] eqn:R; [|discriminate].
  destruct f as [q|].
  - destruct (basis_scale (s_basis row) (s_dims row)) as [k|] eqn:K; [|discriminate].
    destruct (s_kind row).
    + intros H. apply andb_true_iff in H as [Hex Hq]. apply bool_decide_eq_true in Hq.
      destruct ex; [|discriminate]. subst q. exists k, b. split; reflexivity.
    + intros H. exists k, q, b, ex. repeat split; assumption.
    + intros H. exists (Some q), b, ex. split; [reflexivity|]. exists k. split; [reflexivity|exact H].
  - destruct (s_kind row); try discriminate.
    intros _. exists None, b, ex. split; [reflexivity|exact I].
Qed.

Lemma dims_ok_holds r row : dims_ok r row = true → dims_hold r row.
Proof.
  unfold dims_ok, dims_hold. destruct (dim_of r {[ s_name row := 1%Qc ]}) as [d|e]; [|discriminate].
  unfold uc_eqb. intros H. apply bool_decide_eq_true in H. subst d. reflexivity.
Qed.

Lemma symbol_ok_holds r row : symbol_ok r row = true → symbol_holds r row.
Proof.
  unfold symbol_ok, symbol_holds. destruct (s_syms row) as [|s0 l] eqn:S; [left; reflexivity|].
  destruct (get_symbol r (s_name row)) as [s|e]; [|discriminate].
  intros H. right. exists s. split; [reflexivity|].
  apply existsb_exists in H as [x [Hin Heq]]. apply String.eqb_eq in Heq. subst x. exact Hin.
Qed.

Lemma offset_ok_holds r row : offset_ok r row = true → offset_holds r row.
Proof.
  unfold offset_ok, offset_holds. destruct (resolve r (s_name row)) as [d|e]; [|discriminate].
  intros H. exists d. split; [reflexivity|].
  destruct (s_offset row) as [o|], (u_conv d) as [|o'|lb lf]; try discriminate.
  - left. split; [reflexivity|apply qz_eq; exact H].
  - right. apply bool_decide_eq_true in H. subst o'. reflexivity.
  - reflexivity.
Qed.

Theorem row_ok_holds r row : row_ok r row = true → row_holds r row.
Proof.
  unfold row_ok, row_holds. intros H.
  apply andb_true_iff in H as [H Ho]. apply andb_true_iff in H as [H Hs].
  apply andb_true_iff in H as [Hf Hd].
  split; [apply factor_ok_holds; exact Hf|]. split; [apply dims_ok_holds; exact Hd|].
  split; [apply symbol_ok_holds; exact Hs|apply offset_ok_holds; exact Ho].
Qed.

(** a listed-or-passing table, read row by row *)
Lemma rows_ok_except_forall names r tbl :
  rows_ok_except names r tbl = true →
  ∀ row, In row tbl → listed names row = false → row_ok r row = true.
Proof.
  unfold rows_ok_except. intros H row Hin Hl.
  rewrite forallb_forall in H. specialize (H row Hin). rewrite Hl in H. exact H.
Qed.

(** * 2. The registry regenerated from /repo against the table (finite: the bound is the table) *)
Lemma defaults_match_standards_guarded :
  rows_ok_except known_deviations default_reg standards = true.
Proof. vm_compute. reflexivity. Qed.

Lemma defaults_match_standards_guarded_forall :
  ∀ row, In row standards → listed known_deviations row = false → row_holds default_reg row.
Proof.
  intros row Hin Hl. apply row_ok_holds.
  exact (rows_ok_except_forall _ _ _ defaults_match_standards_guarded row Hin Hl).
Qed.

Lemma prefix_table_standard : forallb (prefix_ok default_reg) std_prefixes = true.
Proof. vm_compute. reflexivity. Qed.

Lemma prefix_table_standard_forall p :
  In p std_prefixes →
  ∃ d v, r_prefixes default_reg !! sp_name p = Some d ∧ sp_value p = Some v ∧
         p_name d = sp_name p ∧ p_val d = v ∧ In (p_symbol d) (sp_syms p).
Proof.
  intros Hin. pose proof prefix_table_standard as H. rewrite forallb_forall in H.
  specialize (H p Hin). unfold prefix_ok in H.
  destruct (r_prefixes default_reg !! sp_name p) as [d|]; [|discriminate].
  destruct (sp_value p) as [v|]; [|discriminate].
  apply andb_true_iff in H as [H _]. apply andb_true_iff in H as [H Hs].
  apply andb_true_iff in H as [Hn Hv].
  exists d, v. split; [reflexivity|]. split; [reflexivity|].
  apply String.eqb_eq in Hn. apply bool_decide_eq_true in Hv.
  split; [exact Hn|]. split; [exact Hv|].
  apply existsb_exists in Hs as [x [Hx He]]. apply String.eqb_eq in He. subst x. exact Hx.
Qed.

Lemma prefix_spellings_standard :
  forallb (prefix_spelling_ok std_prefixes default_reg) (r_prefix_keys default_reg) = true.
Proof. vm_compute. reflexivity. Qed.

(** the SI prefixes are exactly the powers of ten from -30 to 30 the Brochure lists *)
Lemma si_prefix_exponents :
  map sp_exp (List.filter (λ p, Z.eqb (sp_base p) 10) std_prefixes) =
  [-30; -27; -24; -21; -18; -15; -12; -9; -6; -3; -2; -1; 1; 2; 3; 6; 9; 12; 15; 18; 21; 24; 27; 30]%Z.
Proof. vm_compute. reflexivity. Qed.

(** * 3. The shipped definition lines behind the listed findings do fail their rows *)
Definition fails_on (r : reg) (n : string) : Prop :=
  ∃ row, row_named standards n = Some row ∧ In row standards ∧ row_ok r row = false.
(** a checker for [In] that computes *)
Lemma row_named_In tbl n row : row_named tbl n = Some row → In row tbl.
Proof.
  unfold row_named. intros H. apply find_some in H. tauto.
Qed.
Lemma fails_on_intro r n row :
  row_named standards n = Some row → row_ok r row = false → fails_on r n.
Proof. intros H1 H2. exists row. split; [exact H1|]. split; [exact (row_named_In _ _ _ H1)|exact H2]. Qed.

Lemma quarter_as_shipped_refuted : fails_on shipped_quarter "quarter".
Proof.
  destruct (row_named standards "quarter") as [row|] eqn:E; [|vm_compute in E; discriminate E].
  apply (fails_on_intro _ _ row E). vm_compute in E. injection E as <-. vm_compute. reflexivity.
Qed.
Lemma reaumur_as_shipped_refuted : fails_on shipped_reaumur "degree_Reaumur".
Proof.
  destruct (row_named standards "degree_Reaumur") as [row|] eqn:E; [|vm_compute in E; discriminate E].
  apply (fails_on_intro _ _ row E). vm_compute in E. injection E as <-. vm_compute. reflexivity.
Qed.
Lemma parsec_as_shipped_refuted : fails_on shipped_parsec "parsec".
Proof.
  destruct (row_named standards "parsec") as [row|] eqn:E; [|vm_compute in E; discriminate E].
  apply (fails_on_intro _ _ row E). vm_compute in E. injection E as <-. vm_compute. reflexivity.
Qed.
(** the same rows pass on the same miniature registries once the one line is corrected *)
Definition repaired_quarter : reg := mini [
  RPrefix ["milli-"; "m-"] [TNum "1e-3"; TEnd];
  RUnit ["gram"; "g"] [TName "[mass]"; TEnd] [];
  RUnit ["grain"; "gr"] [TNum "64.79891"; TOp "*"; TName "milligram"; TEnd] [];
  RUnit ["pound"; "lb"] [TNum "7e3"; TOp "*"; TName "grain"; TEnd] [];
  RUnit ["quarter"] [TNum "28"; TOp "*"; TName "pound"; TEnd] []].
Definition repaired_reaumur : reg := mini [
  RUnit ["kelvin"; "K"] [TName "[temperature]"; TEnd] [("offset", [TNum "0"; TEnd])];
  RUnit ["degree_Reaumur"; "°Re"; "reaumur"]
        [TNum "5"; TOp "/"; TNum "4"; TOp "*"; TName "kelvin"; TEnd] [("offset", [TNum "273.15"; TEnd])]].
Definition repaired_parsec : reg := mini [
  RUnit ["meter"; "m"] [TName "[length]"; TEnd] [];
  RUnit ["pi"; "π"] [TNum "3.1415926535897932384626433832795028841971693993751"; TEnd] [];
  RUnit ["astronomical_unit"; "au"] [TNum "149597870700"; TOp "*"; TName "meter"; TEnd] [];
  RUnit ["parsec"; "pc"] [TNum "648000"; TOp "/"; TName "π"; TOp "*"; TName "astronomical_unit"; TEnd] []].
Definition passes_on (r : reg) (n : string) : Prop :=
  ∃ row, row_named standards n = Some row ∧ row_ok r row = true.
Lemma repaired_lines_pass :
  passes_on repaired_quarter "quarter" ∧ passes_on repaired_reaumur "degree_Reaumur"
  ∧ passes_on repaired_parsec "parsec".
Proof.
  repeat split.
  - destruct (row_named standards "quarter") as [row|] eqn:E; [|vm_compute in E; discriminate E].
    exists row. split; [exact E|]. vm_compute in E. injection E as <-. vm_compute. reflexivity.
  - destruct (row_named standards "degree_Reaumur") as [row|] eqn:E; [|vm_compute in E; discriminate E].
    exists row. split; [exact E|]. vm_compute in E. injection E as <-. vm_compute. reflexivity.
  - destruct (row_named standards "parsec") as [row|] eqn:E; [|vm_compute in E; discriminate E].
    exists row. split; [exact E|]. vm_compute in E. injection E as <-. vm_compute. reflexivity.
Qed.

(** * 4. Famous rows spelled out (readable instances of the table theorem) *)
(** [conv_factor] results carry canonicity proofs of [Qc]; compare through [Qc_is_canon] *)
Lemma conv_is r src dst (n : Z) (d : positive) :
  (match conv_factor r src dst with
   | Ok (Some q, true) => Qeq_bool (this q) (n # d)
   | _ => false end = true) →
  Qred (n # d) = (n # d) →
  conv_factor r src dst = Ok (Some (mkq n d), true).
Proof.
  destruct (conv_factor r src dst) as [[[q|] [|]]|e]; try discriminate.
  intros H Hred. apply Qeq_bool_eq in H. do 3 f_equal. apply Qc_is_canon.
  unfold mkq. simpl. rewrite Hred. exact H.
Qed.

Lemma inch_is_127_5000_meter :
  conv_factor default_reg {[ "inch" := 1%Qc ]} {[ "meter" := 1%Qc ]} = Ok (Some (mkq 127 5000), true).
Proof. apply conv_is; vm_compute; reflexivity. Qed.
Lemma pound_is_045359237_kilogram :
  conv_factor default_reg {[ "pound" := 1%Qc ]} {[ "kilogram" := 1%Qc ]}
  = Ok (Some (mkq 45359237 100000000), true).
Proof. apply conv_is; vm_compute; reflexivity. Qed.
Lemma speed_of_light_is_299792458 :
  conv_factor default_reg {[ "speed_of_light" := 1%Qc ]} (mkuc [("meter", mkq 1 1); ("second", mkq (-1) 1)])
  = Ok (Some (mkq 299792458 1), true).
Proof. apply conv_is; vm_compute; reflexivity. Qed.
Lemma gallon_is_231_cubic_inch :
  conv_factor default_reg {[ "gallon" := 1%Qc ]} {[ "inch" := mkq 3 1 ]} = Ok (Some (mkq 231 1), true).
Proof. apply conv_is; vm_compute; reflexivity. Qed.
Lemma celsius_zero_is_27315_kelvin :
  ∃ d, resolve default_reg "degree_Celsius" = Ok d ∧ u_scale d = 1%Qc ∧ u_conv d = COffset (mkq 27315 100).
Proof.
  destruct (resolve default_reg "degree_Celsius") as [d|e] eqn:E; [|vm_compute in E; discriminate E].
  exists d. split; [reflexivity|].
  assert (H : (match u_conv d with COffset o => Qeq_bool (this o) (27315 # 100) | _ => false end
               && Qeq_bool (this (u_scale d)) 1) = true).
  { vm_compute in E. injection E as <-. vm_compute. reflexivity. }
  apply andb_true_iff in H as [Ho Hs]. split.
  - apply Qc_is_canon. apply Qeq_bool_eq in Hs. exact Hs.
  - clear E. destruct (u_conv d) as [|o|]; try discriminate Ho. f_equal. apply Qc_is_canon.
    apply Qeq_bool_eq in Ho. rewrite Ho. vm_compute. reflexivity.
Qed.
(** the guard is not vacuous: the famous rows are in the table, unlisted, and pass *)
Lemma guard_satisfiable :
  ∃ row, row_named standards "inch" = Some row ∧ listed known_deviations row = false
         ∧ row_ok default_reg row = true ∧ s_kind row = KExact.
Proof.
  destruct (row_named standards "inch") as [row|] eqn:E; [|vm_compute in E; discriminate E].
  exists row. split; [reflexivity|]. vm_compute in E. injection E as <-.
  repeat split; vm_compute; reflexivity.
Qed.
