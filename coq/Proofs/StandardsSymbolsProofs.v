(** Proofs/StandardsSymbolsProofs.v — C20: the standard symbols of the table, bare and behind
    every prefix symbol, denote their units in the registry regenerated from /repo. *)
From PintV Require Import Model.UC Model.Eval Model.Registry Model.Standards Model.StandardsSymbols.
From PintV Require Import Gen.DefaultDefs Gen.DefaultReg Gen.Standards.
Open Scope string_scope.

(** * Meaning of a good verdict (all registries) *)
Lemma verdict_ok_reading cheap r p ps row us :
  prefixed_symbol_verdict cheap r p ps row us = SVOk →
  ∃ ud pv, r_units r !! us = Some ud ∧ r_units r !! (ps ++ us) = None ∧ sp_value p = Some pv ∧
           parse_unit_name r (ps ++ us) = [(sp_name p, u_name ud)] ∧
           (cheap = false → prefixed_value_ok r row pv (ps ++ us) = true).
Proof.
  unfold prefixed_symbol_verdict.
  destruct (r_units r !! us) as [ud|]; [|discriminate].
  destruct (bool_decide (is_Some (r_units r !! (ps ++ us)))) eqn:Own; [discriminate|].
  apply bool_decide_eq_false in Own.
  destruct (parse_unit_name r (ps ++ us)) as [|[pn un] [|c l]]; try discriminate.
  - destruct (sp_value p) as [pv|]; [|discriminate].
    destruct (String.eqb pn (sp_name p) && String.eqb un (u_name ud)
              && (cheap || prefixed_value_ok r row pv (ps ++ us))) eqn:E; [|discriminate].
    intros _. apply andb_true_iff in E as [E Hv]. apply andb_true_iff in E as [Hp Hu].
    apply String.eqb_eq in Hp. apply String.eqb_eq in Hu. subst pn un.
    exists ud, pv. split; [reflexivity|]. split.
    + destruct (r_units r !! (ps ++ us)) eqn:L; [|reflexivity]. exfalso. apply Own. eauto.
    + split; [reflexivity|]. split; [reflexivity|]. intros ->. exact Hv.
Qed.

(** * The bundled registry (finite: prefixes × symbols of the table) *)
Lemma defaults_symbols_match_standards :
  symbols_ok_except true known_deviations default_reg std_prefixes standards = true.
Proof. vm_cast_no_check (eq_refl true). Qed.   (* ~5400 strings: evaluated once, by the kernel's VM at Qed *)

Lemma defaults_symbols_match_standards_forall row :
  In row standards → listed known_deviations row = false → sym_row_eligible default_reg row = true →
  bare_symbol_ok (shared_symbols standards) default_reg row = true ∧
  ∀ sv, In sv (prefixed_symbols_of true (shared_symbols standards) default_reg std_prefixes row) →
        verdict_fine sv.2 = true.
Proof.
  intros Hin Hl He. pose proof defaults_symbols_match_standards as H.
  unfold symbols_ok_except in H. rewrite forallb_forall in H. specialize (H row Hin).
  rewrite Hl in H. unfold symbols_row_ok in H. rewrite He in H.
  apply andb_true_iff in H as [Hb Hp]. split; [exact Hb|].
  intros sv Hsv. rewrite forallb_forall in Hp. exact (Hp sv Hsv).
Qed.

(** * The symbols whose unit letter exists in both cases, with their full value:
    prefix name, prefix symbol, table row, unit symbol *)
Definition case_pairs : list (string * string * string * string) :=
  [("milli", "m", "second", "s"); ("milli", "m", "siemens", "S");
   ("kilo", "k", "second", "s"); ("kilo", "k", "siemens", "S");
   ("milli", "m", "ampere", "A"); ("milli", "m", "year", "a");
   ("kilo", "k", "ampere", "A"); ("kilo", "k", "year", "a");
   ("milli", "m", "kelvin", "K"); ("milli", "m", "boltzmann_constant", "k");
   ("milli", "m", "henry", "H"); ("milli", "m", "tesla", "T"); ("milli", "m", "metric_ton", "t");
   ("milli", "m", "coulomb", "C"); ("milli", "m", "speed_of_light", "c");
   ("milli", "m", "gram", "g"); ("milli", "m", "gauss", "G");
   ("milli", "m", "meter", "m"); ("milli", "m", "molar", "M"); ("mega", "M", "meter", "m");
   ("milli", "m", "day", "d"); ("milli", "m", "debye", "D");
   ("milli", "m", "liter", "l"); ("milli", "m", "liter", "L");
   ("kilo", "k", "byte", "B"); ("kilo", "k", "barn", "b"); ("kibi", "Ki", "byte", "B");
   ("micro", "µ", "farad", "F"); ("milli", "m", "unified_atomic_mass_unit", "u"); ("milli", "m", "enzyme_unit", "U")].
Definition case_pair_ok (r : reg) (q : string * string * string * string) : bool :=
  let '(pn, ps, rn, us) := q in
  match find (λ p, String.eqb (sp_name p) pn) std_prefixes, row_named standards rn with
  | Some p, Some row =>
      existsb (String.eqb ps) (sp_syms p) && existsb (String.eqb us) (s_syms row)
      && match prefixed_symbol_verdict false r p ps row us with SVOk => true | _ => false end
  | _, _ => false
  end.
Lemma case_pair_symbols : forallb (case_pair_ok default_reg) case_pairs = true.
Proof. vm_compute. reflexivity. Qed.
