(** Proofs/SystemsProofs.v — system members, base units, default system, restricted compatible
    units and attribute lookup over Model/Systems.v. *)
From Coq Require Import Lia.
From stdpp Require Import relations.
From PintV Require Import Model.UC Model.Eval Model.Registry Model.Groups Model.Systems.
From PintV Require Import Proofs.UCProofs Proofs.RegistryProofs Proofs.GroupsProofs.
From PintV Require Import Gen.DefaultDefs Gen.DefaultReg.
Open Scope string_scope.
Arguments root_of : simpl never.
Arguments conv_factor : simpl never.
Arguments dim_of : simpl never.
Arguments substitute : simpl never.
Arguments base_units_in : simpl never.
Arguments base_units_pure : simpl never.
Arguments get_name : simpl never.

(** * System members *)
(** the declared meaning: the members of the groups the system uses (unknown names are skipped) *)
Definition sys_union (gs : gstate) (s : system) (u : string) : Prop :=
  ∃ g, g ∈ s_used s ∧ is_Some (gs !! g) ∧ in_closure gs g u.

Definition sm_step (acc : gstate * res sset) (g : string) : gstate * res sset :=
  match acc with
  | (gs, Ok tmp) =>
      match gs !! g with
      | None => (gs, Ok tmp)
      | Some _ => match members gs g with
                  | (gs', Ok v) => (gs', Ok (tmp ∪ v))
                  | (gs', Err e) => (gs', Err e)
                  end
      end
  | (gs, Err e) => (gs, Err e)
  end.

Lemma members_same_core st n : same_core st (members st n).1.
Proof.
  unfold members. destruct (st !! n) as [g|]; [|intros k; reflexivity]. destruct (g_memo g); [intros k; reflexivity|].
  destruct (members_val st n); [|intros k; reflexivity]. destruct (iter_used st g); [|intros k; reflexivity].
  apply same_core_fill.
Qed.
Lemma same_core_trans a b c : same_core a b → same_core b c → same_core a c.
Proof. intros H1 H2 k. rewrite H1. apply H2. Qed.
Lemma same_core_refl a : same_core a a.
Proof. intros k. reflexivity. Qed.
Lemma same_core_dom a b k : same_core a b → (is_Some (a !! k) ↔ is_Some (b !! k)).
Proof. intros H. specialize (H k). destruct (a !! k), (b !! k); try discriminate; split; intros [? ?]; try discriminate; eauto. Qed.
Lemma same_core_closure_iff a b n u : same_core a b → (in_closure a n u ↔ in_closure b n u).
Proof. intros H. split; apply same_core_closure; [exact H|apply same_core_sym, H]. Qed.

Lemma sm_fold gs0 l : ∀ gs tmp,
  ginv gs → same_core gs0 gs →
  ∃ gs' v, fold_left sm_step l (gs, Ok tmp) = (gs', Ok v) ∧ ginv gs' ∧ same_core gs0 gs'
           ∧ ∀ u, u ∈ v ↔ u ∈ tmp ∨ ∃ g, g ∈ l ∧ is_Some (gs0 !! g) ∧ in_closure gs0 g u.
Proof.
  induction l as [|g l IH]; intros gs tmp I SC; simpl.
  - exists gs, tmp. split; [reflexivity|]. split; [exact I|]. split; [exact SC|]. intros u. split; [auto|].
    intros [?|(g & Hg & _)]; [assumption|inversion Hg].
  - destruct (gs !! g) as [gg|] eqn:Eg.
    + destruct (members_closure gs g I) as (v & Hv & Hsp); [rewrite Eg; eauto|].
      pose proof (members_ginv gs g I) as I'. pose proof (members_same_core gs g) as SC'.
      destruct (members gs g) as [gs1 r1]. simpl in *. subst r1.
      destruct (IH gs1 (tmp ∪ v) I' (same_core_trans _ _ _ SC SC')) as (gs' & v' & Hf & I'' & SC'' & Hx).
      exists gs', v'. split; [exact Hf|]. split; [exact I''|]. split; [exact SC''|].
      intros u. rewrite Hx, elem_of_union, Hsp. rewrite <- (same_core_closure_iff gs0 gs g u SC). split.
      * intros [[?|?]|(g' & Hg' & Hs & Hc)]; [left; assumption| |right; exists g'; split; [right; assumption|split; assumption]].
        right. exists g. split; [left|]. split; [apply (same_core_dom gs0 gs g SC); rewrite Eg; eauto|assumption].
      * intros [?|(g' & Hg' & Hs & Hc)]; [left; left; assumption|].
        apply elem_of_cons in Hg' as [->|Hg']; [left; right; assumption|right; exists g'; split; [assumption|split; assumption]].
    + destruct (IH gs tmp I SC) as (gs' & v' & Hf & I'' & SC'' & Hx).
      exists gs', v'. split; [exact Hf|]. split; [exact I''|]. split; [exact SC''|].
      intros u. rewrite Hx. split.
      * intros [?|(g' & Hg' & Hs & Hc)]; [left; assumption|right; exists g'; split; [right; assumption|split; assumption]].
      * intros [?|(g' & Hg' & Hs & Hc)]; [left; assumption|].
        apply elem_of_cons in Hg' as [->|Hg']; [|right; exists g'; split; [assumption|split; assumption]].
        apply (same_core_dom gs0 gs g SC) in Hs. rewrite Eg in Hs. destruct Hs; discriminate.
Qed.

Lemma sys_members_unfold qk st name s :
  ss_systems st !! name = Some s →
  sys_members qk st name =
    match (if q_sys_memo_stale qk then s_memo s else None) with
    | Some m => (st, Ok m)
    | None =>
        let '(gs, r) := fold_left sm_step (elements (s_used s)) (ss_groups st, Ok ∅) in
        match r with
        | Ok v => (SS gs (<[ name := Sys (s_base s) (s_used s) (if q_sys_memo_stale qk then Some v else None) ]> (ss_systems st)) (ss_default st) (ss_cache st), Ok v)
        | Err e => (ss_set_groups st gs, Err e)
        end
    end.
Proof. intros H. unfold sys_members. rewrite H. reflexivity. Qed.

(** [system_members_union], guarded: when the answer is computed (no memo yet, or no memo at all in
    the repaired behaviour) it is the union of the members of the system's groups *)
Theorem sys_members_union qk st name s :
  ss_systems st !! name = Some s → ginv (ss_groups st) →
  s_memo s = None ∨ q_sys_memo_stale qk = false →
  ∃ v, (sys_members qk st name).2 = Ok v ∧ ∀ u, u ∈ v ↔ sys_union (ss_groups st) s u.
Proof.
  intros Hs I Hm. rewrite (sys_members_unfold qk st name s Hs).
  assert ((if q_sys_memo_stale qk then s_memo s else None) = None) as ->.
  { destruct Hm as [->| ->]; [destruct (q_sys_memo_stale qk)|]; reflexivity. }
  destruct (sm_fold (ss_groups st) (elements (s_used s)) (ss_groups st) ∅ I (same_core_refl _)) as (gs' & v & Hf & _ & _ & Hx).
  rewrite Hf. exists v. split; [reflexivity|]. intros u. rewrite Hx. unfold sys_union. split.
  - intros [?|(g & Hg & Hsome & Hc)]; [set_solver|]. exists g. split; [apply elem_of_elements, Hg|]. split; assumption.
  - intros (g & Hg & Hsome & Hc). right. exists g. split; [apply elem_of_elements, Hg|]. split; assumption.
Qed.

(** static group graph: a second reading returns the same set, and the group graph (cores) is the
    one the first reading saw — so the memo is the union for as long as no group is edited *)
Theorem sys_members_static qk st name s v :
  ss_systems st !! name = Some s → ginv (ss_groups st) → s_memo s = None →
  (sys_members qk st name).2 = Ok v →
  let st1 := (sys_members qk st name).1 in
  (sys_members qk st1 name).2 = Ok v ∧ same_core (ss_groups st) (ss_groups st1) ∧ ginv (ss_groups st1)
  ∧ ∀ u, u ∈ v ↔ sys_union (ss_groups st1) s u.
Proof.
  intros Hs I Hm Hv. destruct (sys_members_union qk st name s Hs I (or_introl Hm)) as (v' & Hv' & Hsp).
  rewrite Hv in Hv'. injection Hv' as <-.
  rewrite (sys_members_unfold qk st name s Hs) in *. rewrite Hm in *.
  assert ((if q_sys_memo_stale qk then @None sset else None) = None) as E by (destruct (q_sys_memo_stale qk); reflexivity).
  rewrite E in *.
  destruct (sm_fold (ss_groups st) (elements (s_used s)) (ss_groups st) ∅ I (same_core_refl _)) as (gs' & v' & Hf & I' & SC & Hx).
  rewrite Hf in *. simpl in Hv. injection Hv as ->. simpl.
  assert (Hu : ∀ u, u ∈ v ↔ sys_union gs' s u).
  { intros u. rewrite Hsp. unfold sys_union. split; intros (g & Hg & Hsome & Hc); exists g; (split; [exact Hg|]); split.
    - apply (same_core_dom _ _ g SC), Hsome.
    - apply (same_core_closure_iff _ _ g u SC), Hc.
    - apply (same_core_dom _ _ g SC), Hsome.
    - apply (same_core_closure_iff _ _ g u SC), Hc. }
  split; [|split; [exact SC|split; [exact I'|exact Hu]]].
  unfold sys_members. simpl. rewrite lookup_insert. simpl.
  destruct (q_sys_memo_stale qk) eqn:Q; [reflexivity|].
  (* repaired: recomputed on the unchanged graph *)
  destruct (sm_fold gs' (elements (s_used s)) gs' ∅ I' (same_core_refl _)) as (gs'' & v'' & Hf' & _ & _ & Hx').
  change (fold_left _ (elements (s_used s)) (gs', Ok ∅)) with (fold_left sm_step (elements (s_used s)) (gs', Ok ∅)).
  rewrite Hf'. simpl. f_equal. apply set_eq. intros u. rewrite Hx', Hu. unfold sys_union. split.
  - intros [?|(g & Hg & Hsome & Hc)]; [set_solver|]. exists g. split; [apply elem_of_elements, Hg|]. split; assumption.
  - intros (g & Hg & Hsome & Hc). right. exists g. split; [apply elem_of_elements, Hg|]. split; assumption.
Qed.

(** * A small concrete registry for the witnesses *)
Definition tiny_raw : list rawdef := [
  RPrefix ["kilo-"; "k-"] [TNum "1000"; TEnd];
  RUnit ["meter"; "m"] [TName "[length]"; TEnd] [];
  RUnit ["second"; "s"] [TName "[time]"; TEnd] [];
  RUnit ["gram"; "g"] [TName "[mass]"; TEnd] [];
  RUnit ["inch"] [TNum "0.0254"; TOp "*"; TName "meter"; TEnd] [];
  RUnit ["foot"] [TNum "12"; TOp "*"; TName "inch"; TEnd] [];
  RUnit ["centimeter"; "cm"] [TNum "0.01"; TOp "*"; TName "meter"; TEnd] [];
  RUnit ["pound"] [TNum "453.59237"; TOp "*"; TName "gram"; TEnd] [];
  RUnit ["gee"] [TNum "9.80665"; TOp "*"; TName "meter"; TOp "/"; TName "second"; TOp "**"; TNum "2"; TEnd] []].
Definition tiny_reg : reg := match load tiny_raw with Ok r => r | Err _ => empty_reg end.
Definition tiny_groups : list (string * list string * list string) := [("Imp", [], ["inch"; "foot"; "pound"])].
Definition tiny_systems : list (string * list string * list string) :=
  [("mks", [], ["meter"; "kilogram"; "second"]); ("cgs", [], ["centimeter"; "gram"; "second"]);
   ("imp", ["Imp"], ["foot"; "pound"])].
Definition tiny_st (qk : quirks) : sstate :=
  (build_state qk tiny_reg tiny_raw tiny_groups tiny_systems [("group", "Dflt"); ("system", "mks")]).1.

(** reading the members of a system keeps the group invariant, whatever the outcome *)
Lemma sys_members_ginv qk st name : ginv (ss_groups st) → ginv (ss_groups (sys_members qk st name).1).
Proof.
  intros I. destruct (ss_systems st !! name) as [s|] eqn:Hs; [|unfold sys_members; rewrite Hs; exact I].
  rewrite (sys_members_unfold qk st name s Hs).
  destruct (if q_sys_memo_stale qk then s_memo s else None); [exact I|].
  destruct (sm_fold (ss_groups st) (elements (s_used s)) (ss_groups st) ∅ I (same_core_refl _)) as (gs' & v & Hf & I' & _ & _).
  rewrite Hf. exact I'.
Qed.

(** F10: after a group edit the system still answers with its old memo *)
Definition f10_groups : gstate := grun repaired init_groups [GGetGroup "G"; GAddUnits "G" ["inch"]].
Definition f10_st0 : sstate := SS f10_groups {[ "S" := Sys ∅ {[ "G" ]} None ]} None [].
Definition f10_st1 : sstate := (sys_members faithful f10_st0 "S").1.
Definition f10_st2 : sstate := ss_set_groups f10_st1 (add_units (ss_groups f10_st1) "G" ["gee"]).1.
Definition f10_ok : bool :=
  match ss_systems f10_st2 !! "S", ss_groups f10_st2 !! "G", (sys_members faithful f10_st2 "S").2 with
  | Some s, Some g, Ok v =>
      bool_decide ("G" ∈ s_used s) && bool_decide ("gee" ∈ g_units g) && negb (bool_decide ("gee" ∈ v))
  | _, _, _ => false
  end.
Lemma f10_ok_true : f10_ok = true.
Proof. vm_compute. reflexivity. Qed.
Theorem sys_members_stale_refuted :
  ∃ st name s v u, ss_systems st !! name = Some s ∧ ginv (ss_groups st)
    ∧ (sys_members faithful st name).2 = Ok v ∧ sys_union (ss_groups st) s u ∧ u ∉ v.
Proof.
  assert (I0 : ginv (ss_groups f10_st0)) by (apply grun_ginv; [reflexivity|reflexivity|apply ginv_init]).
  assert (I1 : ginv (ss_groups f10_st1)) by (apply sys_members_ginv, I0).
  assert (I2 : ginv (ss_groups f10_st2)) by (apply add_units_ginv, I1).
  pose proof f10_ok_true as H. unfold f10_ok in H.
  destruct (ss_systems f10_st2 !! "S") as [s|] eqn:Es; [|discriminate].
  destruct (ss_groups f10_st2 !! "G") as [g|] eqn:Eg; [|discriminate].
  destruct (sys_members faithful f10_st2 "S").2 as [v|] eqn:Ev; [|discriminate].
  apply andb_true_iff in H as [H H3]. apply andb_true_iff in H as [H1 H2].
  apply bool_decide_eq_true in H1, H2. apply negb_true_iff, bool_decide_eq_false in H3.
  exists f10_st2, "S", s, v, "gee". split; [exact Es|]. split; [exact I2|]. split; [exact Ev|]. split; [|exact H3].
  exists "G". split; [exact H1|]. split; [eauto|]. exists "G", g. split; [apply rtc_refl|]. split; assumption.
Qed.

(** * Base units *)
(** units named by the replacements of a system; under the guard below these are exactly the
    units the rules declare as base units *)
Definition declared (s : system) (k : string) : Prop :=
  ∃ o rep, s_base s !! o = Some rep ∧ is_Some (rep !! k).
(** "rules whose new unit has a single root dimension": every replacement is one unit to a power *)
Definition single_root (s : system) : Prop :=
  ∀ o rep, s_base s !! o = Some rep → ∃ new e, rep = {[ new := e ]}.
Definition single_rootb (s : system) : bool :=
  forallb (λ kv : string * uc, Nat.eqb (size kv.2) 1) (map_to_list (s_base s)).

Lemma base_units_in_unfold r s a fu B exu :
  root_of r a = Ok (fu, B, exu) →
  base_units_in r s a =
    match conv_factor r B (substitute (s_base s) B) with
    | Ok (c, exc) => Ok (match fu, c with Some x, Some y => Some (x * y)%Qc | _, _ => None end, exu && exc, substitute (s_base s) B)
    | Err e => Err e
    end.
Proof. intros H. unfold base_units_in. rewrite H. simpl. destruct (conv_factor r B _) as [[c exc]|e]; reflexivity. Qed.

Lemma substitute_keys (bu : gmap string uc) (l : list (string * Qc)) : ∀ (dest : uc) (k : string),
  is_Some (fold_left (λ dest kv, match bu !! kv.1 with
                                 | Some new => uc_mul dest (uc_pow new kv.2)
                                 | None => uc_mul dest {[ kv.1 := kv.2 ]}
                                 end) l dest !! k) →
  is_Some (dest !! k)
  ∨ (∃ o rep, bu !! o = Some rep ∧ is_Some (rep !! k))
  ∨ (∃ v, (k, v) ∈ l ∧ bu !! k = None).
Proof.
  induction l as [|[o v] l IH]; intros dest k H; simpl in H; [left; exact H|].
  apply IH in H as [H|[H|(v' & Hin & Hn)]].
  - simpl in H. destruct (bu !! o) as [new|] eqn:E.
    + apply uc_mul_dom in H as [H|H]; [left; exact H|]. apply uc_pow_dom in H. right; left. eauto.
    + apply uc_mul_dom in H as [H|H]; [left; exact H|]. right; right.
      destruct (decide (k = o)) as [->|N]; [exists v; split; [left|exact E]|].
      rewrite lookup_singleton_ne in H by congruence. destruct H; discriminate.
  - right; left; exact H.
  - right; right. exists v'. split; [right; exact Hin|exact Hn].
Qed.

(** [base_units_sound], keys: the answer mentions only units of the system's replacements and root
    units of the input that the system does not replace *)
Theorem base_units_keys r s a f ex dest fu B exu :
  root_of r a = Ok (fu, B, exu) → base_units_in r s a = Ok (f, ex, dest) →
  ∀ k, is_Some (dest !! k) → declared s k ∨ (is_Some (B !! k) ∧ s_base s !! k = None).
Proof.
  intros HR HB k Hk. rewrite (base_units_in_unfold r s a fu B exu HR) in HB.
  destruct (conv_factor r B (substitute (s_base s) B)) as [[c exc]|e] eqn:EC; [|discriminate].
  injection HB as _ _ <-. unfold substitute in Hk.
  apply substitute_keys in Hk as [Hk|[Hk|(v & Hin & Hn)]].
  - rewrite lookup_empty in Hk. destruct Hk; discriminate.
  - left. exact Hk.
  - right. split; [|exact Hn]. apply elem_of_map_to_list in Hin. rewrite Hin. eauto.
Qed.
(** under the guard every declared unit is the single unit of a replacement: a declared base unit *)
Lemma declared_single s k : single_root s → declared s k → ∃ o e, s_base s !! o = Some {[ k := e ]}.
Proof.
  intros SR (o & rep & Ho & Hk). destruct (SR o rep Ho) as (new & e & ->).
  destruct (decide (k = new)) as [->|N]; [eauto|]. rewrite lookup_singleton_ne in Hk by congruence. destruct Hk; discriminate.
Qed.

(** dimensionality and value: by construction the answer has the dimensionality of the root units
    of the input, and its factor is the root factor times the registry's own conversion factor
    from those root units to the answer *)
Lemma conv_factor_Ok_dims r src dst y :
  conv_factor r src dst = Ok y → ∃ ds dd, dim_of r src = Ok ds ∧ dim_of r dst = Ok dd.
Proof.
  unfold conv_factor. destruct (dim_of r src) as [ds|e1]; [|discriminate].
  destruct (dim_of r dst) as [dd|e2]; [|discriminate]. eauto.
Qed.
Theorem base_units_dim_value r s a f ex dest :
  base_units_in r s a = Ok (f, ex, dest) →
  ∃ fu B exu c exc d,
    root_of r a = Ok (fu, B, exu) ∧ conv_factor r B dest = Ok (c, exc)
    ∧ dim_of r B = Ok d ∧ dim_of r dest = Ok d
    ∧ f = match fu, c with Some x, Some y => Some (x * y)%Qc | _, _ => None end
    ∧ ex = exu && exc.
Proof.
  intros HB.
  destruct (root_of r a) as [[[fu B] exu]|e] eqn:HR; [|unfold base_units_in in HB; rewrite HR in HB; discriminate].
  rewrite (base_units_in_unfold r s a fu B exu HR) in HB.
  destruct (conv_factor r B (substitute (s_base s) B)) as [[c exc]|e] eqn:EC; [|discriminate].
  injection HB as <- <- <-.
  destruct (conv_factor_Ok_dims _ _ _ _ EC) as (ds & dd & E1 & E2).
  pose proof (conv_factor_number_only_if_same_dim r B _ ds dd _ E1 E2 EC) as <-.
  exists fu, B, exu, c, exc, ds. repeat split; assumption.
Qed.

(** idempotence of the units: when the answer's own root units are those of the input (the registry
    law "root units of a conversion target with the same root decomposition"), asking again yields
    the same units *)
Theorem base_units_idem_units r s a f ex dest fu B exu fb exb :
  root_of r a = Ok (fu, B, exu) → base_units_in r s a = Ok (f, ex, dest) →
  root_of r dest = Ok (fb, B, exb) →
  ∃ f' ex', base_units_in r s dest = Ok (f', ex', dest).
Proof.
  intros HR HB HD. rewrite (base_units_in_unfold r s a fu B exu HR) in HB.
  rewrite (base_units_in_unfold r s dest fb B exb HD).
  destruct (conv_factor r B (substitute (s_base s) B)) as [[c exc]|e] eqn:EC; [|discriminate].
  injection HB as _ _ <-. eauto.
Qed.

(** * Rules solve their equations (repaired inversion) *)
(** the corrected inversion solves the rule: substituting the root expansion of [new] into the
    replacement of [old] gives back [old] *)
Lemma exp_of_fmap_delete (f : Qc → Qc) (B : uc) o k :
  exp_of (f <$> delete o B) k = if decide (k = o) then 0%Qc else match B !! k with Some v => f v | None => 0%Qc end.
Proof.
  unfold exp_of. rewrite lookup_fmap. destruct (decide (k = o)) as [->|N].
  - rewrite lookup_delete. reflexivity.
  - rewrite lookup_delete_ne by congruence. destruct (B !! k); reflexivity.
Qed.
Lemma inversion_solves (Bn : uc) o vo :
  UC.wf Bn → Bn !! o = Some vo →
  uc_mul (uc_pow Bn (1 / vo)%Qc) ((λ v, (- v / vo)%Qc) <$> delete o Bn) = {[ o := 1%Qc ]}.
Proof.
  intros W Ho. assert (Hvo : vo ≠ 0%Qc) by (eapply wf_lookup; eassumption).
  apply uc_ext; [apply wf_mul, wf_pow|apply wf_singleton; discriminate|].
  intros k. rewrite exp_of_mul, exp_of_pow, exp_of_fmap_delete, exp_of_singleton.
  destruct (decide (k = o)) as [->|N].
  - rewrite decide_True by reflexivity. unfold exp_of. rewrite Ho. simpl. field. exact Hvo.
  - rewrite decide_False by congruence. unfold exp_of. destruct (Bn !! k) as [v|]; simpl; field; exact Hvo.
Qed.

Lemma rule_entry_old_unfold qk r new o x :
  rule_entry qk r new (Some o) = Ok x →
  ∃ fo Bo exo fn Bn exn vo,
    root_of r {[ o := 1%Qc ]} = Ok (fo, Bo, exo) ∧ Bo = {[ o := 1%Qc ]}
    ∧ root_of r {[ new := 1%Qc ]} = Ok (fn, Bn, exn) ∧ Bn !! o = Some vo
    ∧ x = (o, <[ new := (1 / vo)%Qc ]> ((λ v, if q_inv_exponent qk then ((-1) / v)%Qc else (- v / vo)%Qc) <$> delete o Bn)).
Proof.
  unfold rule_entry. destruct (root_of r {[ o := 1%Qc ]}) as [[[fo Bo] exo]|e] eqn:E1; [|discriminate]. simpl.
  destruct (uc_eqb Bo {[ o := 1%Qc ]}) eqn:EQ; simpl; [|discriminate]. apply uc_eqb_spec in EQ.
  destruct (root_of r {[ new := 1%Qc ]}) as [[[fn Bn] exn]|e] eqn:E2; [|discriminate]. simpl.
  destruct (Bn !! o) as [vo|] eqn:E3; [|discriminate]. intros H. injection H as <-.
  exists fo, Bo, exo, fn, Bn, exn, vo. auto.
Qed.

(** the repaired inversion solves the rule equation: replacing [new] in the replacement of [old]
    by its root expansion gives [old] back *)
Theorem rule_entry_solves r new o o' rep :
  rule_entry repaired r new (Some o) = Ok (o', rep) →
  ∃ fn Bn exn e,
    root_of r {[ new := 1%Qc ]} = Ok (fn, Bn, exn) ∧ o' = o ∧ rep !! new = Some e
    ∧ (UC.wf Bn → Bn !! new = None → uc_mul (uc_pow Bn e) (delete new rep) = {[ o := 1%Qc ]}).
Proof.
  intros H. destruct (rule_entry_old_unfold repaired r new o _ H) as (fo & Bo & exo & fn & Bn & exn & vo & _ & _ & E2 & E3 & Hx).
  injection Hx as -> ->. exists fn, Bn, exn, (1 / vo)%Qc. split; [exact E2|]. split; [reflexivity|].
  split; [apply lookup_insert|]. intros W Hn. simpl.
  rewrite delete_insert; [apply inversion_solves; assumption|].
  rewrite lookup_fmap. destruct (decide (new = o)) as [->|N]; [rewrite lookup_delete; reflexivity|].
  rewrite lookup_delete_ne by congruence. rewrite Hn. reflexivity.
Qed.

(** the single form [new]: the root unit is [new] to the inverse power *)
Theorem rule_entry_single_solves qk r new o rep :
  rule_entry qk r new None = Ok (o, rep) →
  ∃ fn exn v, root_of r {[ new := 1%Qc ]} = Ok (fn, {[ o := v ]}, exn) ∧ rep = {[ new := (1 / v)%Qc ]}
              ∧ (v ≠ 0%Qc → uc_pow {[ o := v ]} (1 / v)%Qc = {[ o := 1%Qc ]}).
Proof.
  unfold rule_entry. destruct (root_of r {[ new := 1%Qc ]}) as [[[fn B] exn]|e] eqn:E; [|discriminate]. simpl.
  destruct (map_to_list B) as [|[o1 v] [|? ?]] eqn:EL; try discriminate. intros H. injection H as <- <-.
  assert (HB : B = {[ o1 := v ]}).
  { rewrite <- (list_to_map_to_list B), EL. simpl. rewrite insert_empty. reflexivity. }
  subst B. exists fn, exn, v. split; [reflexivity|]. split; [reflexivity|].
  intros Hv. apply uc_ext; [apply wf_pow|apply wf_singleton; discriminate|].
  intros k. rewrite exp_of_pow, !exp_of_singleton. destruct (decide (o1 = k)); field; exact Hv.
Qed.

(** F11: the coded inversion of a [new:old] rule with a multi-component new unit does not solve the
    rule — the replacement has another dimensionality than the unit it replaces, and every
    conversion under the system fails; the corrected exponent does *)
Definition rule_dim_ok (qk : quirks) (r : reg) (rule : string) : bool :=
  match rules_table qk r [rule] with
  | Ok t => forallb (λ kv : string * uc,
              match dim_of r kv.2, dim_of r {[ kv.1 := 1%Qc ]} with
              | Ok d1, Ok d2 => uc_eqb d1 d2 | _, _ => false end) (map_to_list t)
  | Err _ => false
  end.
Definition f11_base (qk : quirks) : res bans :=
  match new_system qk tiny_reg (tiny_st qk) "w" ["root"] ["gee: meter"] with
  | (st, Ok _) => (get_base_units qk tiny_reg st {[ "foot" := 1%Qc ]} true (Some "w")).2
  | (_, Err e) => Err e
  end.
Theorem rule_inversion_refuted :
  rule_dim_ok faithful tiny_reg "gee: meter" = false ∧ f11_base faithful = Err EDim
  ∧ rule_dim_ok repaired tiny_reg "gee: meter" = true
  ∧ match f11_base repaired with Ok (Some q, true, b) => uc_eqb b (mkuc [("gee", mkq 1 1); ("second", mkq 2 1)]) | _ => false end = true.
Proof. repeat match goal with |- _ ∧ _ => split end; vm_compute; reflexivity. Qed.

(** * The default system *)
(** every cached answer is the cache-free answer for the current default system *)
Definition cache_ok (r : reg) (st : sstate) : Prop :=
  ∀ a v, cache_lookup (ss_cache st) a = Some v → base_units_pure r st (ss_default st) a = Ok v.

Lemma base_units_pure_systems r st st' sys a :
  ss_systems st' = ss_systems st → base_units_pure r st' sys a = base_units_pure r st sys a.
Proof. intros E. unfold base_units_pure. rewrite E. reflexivity. Qed.

(** [default_system_immediate]: right after the setter accepted a name, every query is answered by
    the cache-free computation for that system *)
Theorem default_system_immediate qk r st n a :
  is_Some (ss_systems st !! n) →
  let st' := (set_default qk st (Some n)).1 in
  ss_default st' = Some n ∧ ss_cache st' = []
  ∧ (get_base_units qk r st' a true None).2 = base_units_pure r st' (Some n) a.
Proof.
  intros [s Hs]. unfold set_default. rewrite Hs. simpl. split; [reflexivity|]. split; [reflexivity|].
  unfold get_base_units. simpl. rewrite String.eqb_refl. simpl.
  destruct (base_units_pure r _ (Some n) a) as [v|e]; [|reflexivity]. simpl.
  destruct (q_cache_foreign qk || true); reflexivity.
Qed.

(** the invariant that makes this last: in the repaired behaviour no operation ever stores an answer
    that is not the default system's *)
Lemma cache_lookup_cons a0 v0 c a :
  cache_lookup ((a0, v0) :: c) a = if uc_eqb a0 a then Some v0 else cache_lookup c a.
Proof. reflexivity. Qed.
Lemma opt_str_eqb_eq a b : opt_str_eqb a b = true → a = b.
Proof. destruct a, b; simpl; try discriminate; [|reflexivity]. intros H. apply String.eqb_eq in H. congruence. Qed.
Definition eff_sys (st : sstate) (sys : option string) : option string :=
  match sys with None => ss_default st | Some s => Some s end.
Definition cache_hit (st : sstate) (a : uc) (chk : bool) (sys : option string) : option bans :=
  if chk && opt_str_eqb (eff_sys st sys) (ss_default st) then cache_lookup (ss_cache st) a else None.
Lemma get_base_units_result qk r st a chk sys :
  (get_base_units qk r st a chk sys).2 =
    match cache_hit st a chk sys with Some v => Ok v | None => base_units_pure r st (eff_sys st sys) a end.
Proof.
  unfold get_base_units, cache_hit, eff_sys. destruct (if _ && _ then _ else None); [reflexivity|].
  destruct (match sys with None => ss_default st | Some s => Some s end);
    destruct (base_units_pure r st _ a); try reflexivity.
  destruct (chk && _); reflexivity.
Qed.
Lemma get_base_units_state qk r st a chk sys :
  (get_base_units qk r st a chk sys).1 = st
  ∨ ∃ e v, (get_base_units qk r st a chk sys).1 = ss_set_cache st ((a, v) :: ss_cache st)
           ∧ eff_sys st sys = Some e ∧ base_units_pure r st (Some e) a = Ok v
           ∧ chk && (q_cache_foreign qk || opt_str_eqb (Some e) (ss_default st)) = true.
Proof.
  unfold get_base_units, eff_sys. destruct (if _ && _ then _ else None); [left; reflexivity|].
  destruct (match sys with None => ss_default st | Some s => Some s end) as [e|] eqn:Ee.
  - destruct (base_units_pure r st (Some e) a) as [v|er] eqn:P; [|left; reflexivity].
    destruct (chk && _) eqn:C; [|left; reflexivity]. right. exists e, v. auto.
  - destruct (base_units_pure r st None a); left; reflexivity.
Qed.
Theorem get_base_units_cache_ok qk r st a chk sys :
  q_cache_foreign qk = false → cache_ok r st →
  cache_ok r (get_base_units qk r st a chk sys).1
  ∧ (sys = None → (get_base_units qk r st a chk sys).2 = base_units_pure r st (ss_default st) a).
Proof.
  intros Q CO. split.
  - destruct (get_base_units_state qk r st a chk sys) as [->|(e & v & -> & He & P & C)]; [exact CO|].
    rewrite Q in C. apply andb_true_iff in C as [_ C]. rewrite orb_false_l in C. apply opt_str_eqb_eq in C.
    intros a' v' H. change (cache_lookup ((a, v) :: ss_cache st) a' = Some v') in H. rewrite cache_lookup_cons in H.
    rewrite (base_units_pure_systems r st); [|reflexivity]. change (ss_default (ss_set_cache st ((a, v) :: ss_cache st))) with (ss_default st).
    destruct (uc_eqb a a') eqn:EQ.
    + injection H as <-. apply uc_eqb_spec in EQ. subst a'. rewrite <- C. exact P.
    + apply CO, H.
  - intros ->. rewrite get_base_units_result. unfold cache_hit, eff_sys.
    destruct (chk && _); [|reflexivity]. destruct (cache_lookup (ss_cache st) a) as [v|] eqn:L; [|reflexivity].
    symmetry. apply CO, L.
Qed.
Theorem set_default_cache_ok qk r st n :
  q_cache_none qk = false → cache_ok r st → cache_ok r (set_default qk st n).1.
Proof.
  intros Q CO. unfold set_default. destruct n as [n|].
  - destruct (ss_systems st !! n); [|exact CO]. simpl. intros a v H. discriminate.
  - rewrite Q. simpl. intros a v H. discriminate.
Qed.

(** F67 and F68: as coded, an answer for another system, or one cached before [default_system = None],
    is served for the default system *)
Definition f67_run (qk : quirks) : res bans :=
  let st1 := (get_base_units qk tiny_reg (tiny_st qk) {[ "foot" := 1%Qc ]} true (Some "cgs")).1 in
  (get_base_units qk tiny_reg st1 {[ "foot" := 1%Qc ]} true None).2.
Definition f68_run (qk : quirks) : res bans :=
  let st1 := (get_base_units qk tiny_reg (tiny_st qk) {[ "pound" := 1%Qc ]} true None).1 in
  let st2 := (set_default qk st1 None).1 in
  (get_base_units qk tiny_reg st2 {[ "pound" := 1%Qc ]} true None).2.
Definition units_are (x : res bans) (l : list (string * Qc)) : bool :=
  match x with Ok (_, _, b) => uc_eqb b (mkuc l) | Err _ => false end.
Theorem cache_stale_refuted :
  units_are (f67_run faithful) [("centimeter", mkq 1 1)] = true     (* asked under the default system mks *)
  ∧ units_are (f67_run repaired) [("meter", mkq 1 1)] = true
  ∧ units_are (f68_run faithful) [("kilogram", mkq 1 1)] = true     (* asked with no system: the root unit is gram *)
  ∧ units_are (f68_run repaired) [("gram", mkq 1 1)] = true.
Proof. repeat match goal with |- _ ∧ _ => split end; vm_compute; reflexivity. Qed.

(** * Restricted compatible units *)
(** the unrestricted answer: the names listed under the dimensionality of the input *)
Lemma compat_names_spec r tbl a names :
  compat_names r tbl a = Ok names →
  (a = ∅ ∧ names = [])
  ∨ (a ≠ ∅ ∧ ∃ d, dim_of r a = Ok d ∧ ∀ u, u ∈ names ↔ (u, d) ∈ tbl).
Proof.
  unfold compat_names. destruct (bool_decide (a = ∅)) eqn:B.
  - apply bool_decide_eq_true in B. intros H. injection H as <-. left. auto.
  - apply bool_decide_eq_false in B. destruct (dim_of r a) as [d|e]; [|discriminate]. simpl.
    intros H. injection H as <-. right. split; [exact B|]. exists d. split; [reflexivity|].
    intros u. rewrite elem_of_list_fmap. split.
    + intros ([n d'] & -> & Hin). apply elem_of_list_filter in Hin as [Heq Hin]. simpl in Heq.
      apply Is_true_true, uc_eqb_spec in Heq. simpl. subst d'. exact Hin.
    + intros Hin. exists (u, d). split; [reflexivity|]. apply elem_of_list_filter. split; [|exact Hin].
      simpl. apply Is_true_true, uc_eqb_spec. reflexivity.
Qed.
Lemma elem_of_restrict m names u : u ∈ restrict m names ↔ u ∈ m ∧ u ∈ names.
Proof.
  unfold restrict. rewrite elem_of_list_to_set, elem_of_list_filter, elem_of_elements.
  assert (Is_true (existsb (String.eqb u) names) ↔ u ∈ names) as ->; [|tauto].
  rewrite Is_true_true, existsb_exists. split.
  - intros (x & Hx & E). apply String.eqb_eq in E. subst x. apply elem_of_list_In. exact Hx.
  - intros H. exists u. split; [apply elem_of_list_In, H|apply String.eqb_refl].
Qed.

(** [restricted_compatible_exact], for a group: exactly the same-dimension names among the
    members (the closure) of the group *)
Theorem compat_group_exact qk r tbl st a n names :
  ginv (ss_groups st) → ss_systems st !! n = None → is_Some (ss_groups st !! n) →
  compat_names r tbl a = Ok names →
  ∃ v, (get_compatible qk r tbl st a (Some n)).2 = Ok v
       ∧ ∀ u, u ∈ v ↔ u ∈ names ∧ in_closure (ss_groups st) n u.
Proof.
  intros I Hs Hg Hall. unfold get_compatible. rewrite Hs, Hall.
  destruct Hg as [g Hg]. rewrite Hg.
  destruct (members_closure (ss_groups st) n I) as (m & Hm & Hsp); [rewrite Hg; eauto|].
  destruct (members (ss_groups st) n) as [gs rr]. simpl in Hm. subst rr. simpl.
  exists (restrict m names). split; [reflexivity|]. intros u. rewrite elem_of_restrict, Hsp. tauto.
Qed.
(** for a system: the same-dimension names among the system's members; with
    [sys_members_union] these are the members of its groups *)
Theorem compat_system_exact qk r tbl st a n s names m :
  ss_systems st !! n = Some s → (sys_members qk st n).2 = Ok m → compat_names r tbl a = Ok names →
  ∃ v, (get_compatible qk r tbl st a (Some n)).2 = Ok v ∧ ∀ u, u ∈ v ↔ u ∈ names ∧ u ∈ m.
Proof.
  intros Hs Hm Hall. unfold get_compatible. rewrite Hs.
  destruct (sys_members qk st n) as [st' rr]. simpl in Hm. subst rr. simpl. rewrite Hall. simpl.
  exists (restrict m names). split; [reflexivity|]. intros u. rewrite elem_of_restrict. tauto.
Qed.
(** a name that is neither a system nor a group is refused, whatever the input *)
Theorem compat_unknown qk r tbl st a n names :
  ss_systems st !! n = None → ss_groups st !! n = None → compat_names r tbl a = Ok names →
  (get_compatible qk r tbl st a (Some n)).2 = Err EValue.
Proof. intros Hs Hg Hall. unfold get_compatible. rewrite Hs, Hall, Hg. reflexivity. Qed.

(** * [ureg.sys.<system>.<item>] *)
(** [system_attr_lookup]: the system's variant [<system>_<item>] when that name resolves, else the
    plain name *)
Theorem sys_attr_variant r st sysname item n :
  is_Some (ss_systems st !! sysname) → attr_refused sysname = false → attr_refused item = false →
  attr_refused (sysname ++ "_" ++ item) = false →
  get_name r (sysname ++ "_" ++ item) = Ok n → sys_attr r st sysname item = Ok n.
Proof.
  intros [s Hs] R1 R2 R3 H. unfold sys_attr. rewrite R1, Hs, R2, R3, H. reflexivity.
Qed.
Theorem sys_attr_plain r st sysname item e :
  is_Some (ss_systems st !! sysname) → attr_refused sysname = false → attr_refused item = false →
  get_name r (sysname ++ "_" ++ item) = Err e → sys_attr r st sysname item = get_name r item.
Proof.
  intros [s Hs] R1 R2 H. unfold sys_attr. rewrite R1, Hs, R2, H.
  destruct (attr_refused (sysname ++ "_" ++ item)); reflexivity.
Qed.
Theorem sys_attr_unknown_system r st sysname item :
  ss_systems st !! sysname = None → attr_refused sysname = false → sys_attr r st sysname item = Err EKey.
Proof. intros Hs R1. unfold sys_attr. rewrite R1, Hs. reflexivity. Qed.

(** * Boolean observers for the non-vacuity examples *)
Definition in_members (gs : gstate) (g u : string) : bool :=
  match members_val gs g with Ok v => bool_decide (u ∈ v) | Err _ => false end.
Definition in_sys_members (qk : quirks) (st : sstate) (s u : string) : bool :=
  match (sys_members qk st s).2 with Ok v => bool_decide (u ∈ v) | Err _ => false end.
Definition base_is (x : res bans) (q : Qc) (l : list (string * Qc)) : bool :=
  match x with Ok (Some f, true, b) => bool_decide (f = q) && uc_eqb b (mkuc l) | _ => false end.
(** every walk from scratch (all memos cleared first) ends within [fuel_of] *)
Definition all_groups_walk (gs : gstate) : bool :=
  let cold := clear (dom gs) gs in
  forallb (λ kg : string * group, match members_val cold kg.1 with Ok _ => true | Err _ => false end) (map_to_list cold).
(** the state after reading the members of the two big groups once (their memos are then filled) *)
Definition warmed (gs : gstate) : gstate := (members (members gs "root").1 "international").1.
Definition all_single_root (st : sstate) : bool :=
  forallb (λ ks : string * system, single_rootb ks.2) (map_to_list (ss_systems st)).
Definition compat_is (x : res sset) (l : list string) : bool :=
  match x with Ok v => bool_decide (v = list_to_set l) | Err _ => false end.
Definition name_is (x : res string) (n : string) : bool := match x with Ok m => String.eqb m n | Err _ => false end.

(** the bundled registry's groups and systems as regenerated from /repo (T1); closed constants so
    that one [vm_compute] evaluates them once *)
Definition default_built : sstate * res unit :=
  build_state faithful default_reg default_raw default_groups default_systems default_defaults.
Definition default_state : sstate := default_built.1.
Definition default_warm : gstate := warmed (ss_groups default_state).
Definition default_dimeq : list (string * uc) := dimeq_table default_reg.
