(** Proofs/UCProofs.v — algebra of unit containers (C04 core, reused everywhere). *)
From PintV Require Import Model.UC.

Lemma qz_spec x : qz x = true ↔ x = 0%Qc.
Proof.
  unfold qz. rewrite Qeq_bool_iff. split.
  - intros H. apply Qc_is_canon. exact H.
  - intros ->. reflexivity.
Qed.
Lemma qz_false x : qz x = false ↔ x ≠ 0%Qc.
Proof. rewrite <- qz_spec. destruct (qz x); split; congruence. Qed.

Ltac qz_cases :=
  repeat match goal with
  | |- context [qz ?x] =>
      let E := fresh "E" in destruct (qz x) eqn:E; [apply qz_spec in E | apply qz_false in E]
  end.

(** ** wf *)
Lemma wf_lookup a k v : wf a → a !! k = Some v → v ≠ 0%Qc.
Proof. intros H L. exact (H k v L). Qed.
Lemma wf_empty : wf ∅.
Proof. apply map_Forall_empty. Qed.
Lemma wfb_spec a : wfb a = true ↔ wf a.
Proof.
  unfold wfb, wf. rewrite forallb_forall, map_Forall_to_list, Forall_forall.
  split; intros H [k v] Hin.
  - apply elem_of_list_In in Hin. specialize (H (k, v) Hin). simpl in *.
    apply negb_true_iff, qz_false in H. exact H.
  - apply elem_of_list_In in Hin. specialize (H (k, v) Hin). simpl in *.
    apply negb_true_iff, qz_false. exact H.
Qed.

(** two canonical containers are equal iff every name has the same exponent *)
Lemma uc_ext a b : wf a → wf b → (∀ k, exp_of a k = exp_of b k) → a = b.
Proof.
  intros Ha Hb H. apply map_eq. intros k. specialize (H k). unfold exp_of in H.
  destruct (a !! k) as [x|] eqn:Ea, (b !! k) as [y|] eqn:Eb; simpl in H; subst; try reflexivity.
  - exfalso. exact (wf_lookup _ _ _ Ha Ea eq_refl).
  - exfalso. exact (wf_lookup _ _ _ Hb Eb eq_refl).
Qed.
Lemma uc_eq_iff a b : wf a → wf b → (a = b ↔ ∀ k, exp_of a k = exp_of b k).
Proof. intros Ha Hb. split; [intros ->; reflexivity | apply uc_ext; assumption]. Qed.
Lemma uc_eqb_spec a b : uc_eqb a b = true ↔ a = b.
Proof. unfold uc_eqb. apply bool_decide_eq_true. Qed.

(** ** mul / div *)
Lemma lookup_uc_mul a b k : uc_mul a b !! k = acc_add (a !! k) (b !! k).
Proof. unfold uc_mul. rewrite lookup_merge. destruct (a !! k), (b !! k); reflexivity. Qed.
Lemma lookup_uc_div a b k : uc_div a b !! k = acc_sub (a !! k) (b !! k).
Proof. unfold uc_div. rewrite lookup_merge. destruct (a !! k), (b !! k); reflexivity. Qed.

Lemma exp_of_mul a b k : exp_of (uc_mul a b) k = (exp_of a k + exp_of b k)%Qc.
Proof.
  unfold exp_of. rewrite lookup_uc_mul.
  destruct (a !! k) as [x|], (b !! k) as [y|]; simpl; try ring; qz_cases; simpl;
    try match goal with E : _ = 0%Qc |- _ => rewrite E end; ring.
Qed.
Lemma exp_of_div a b k : exp_of (uc_div a b) k = (exp_of a k - exp_of b k)%Qc.
Proof.
  unfold exp_of. rewrite lookup_uc_div.
  destruct (a !! k) as [x|], (b !! k) as [y|]; simpl; try ring; qz_cases; simpl;
    try match goal with E : _ = 0%Qc |- _ => rewrite E end; ring.
Qed.
Lemma wf_mul a b : wf a → wf (uc_mul a b).
Proof.
  intros Ha k v. rewrite lookup_uc_mul.
  destruct (a !! k) as [x|] eqn:Ea, (b !! k) as [y|]; simpl; qz_cases; intros [=]; subst; try assumption.
  exact (wf_lookup _ _ _ Ha Ea).
Qed.
Lemma wf_div a b : wf a → wf (uc_div a b).
Proof.
  intros Ha k v. rewrite lookup_uc_div.
  destruct (a !! k) as [x|] eqn:Ea, (b !! k) as [y|]; simpl; qz_cases; intros [=]; subst; try assumption.
  exact (wf_lookup _ _ _ Ha Ea).
Qed.

Lemma uc_mul_comm a b : wf a → wf b → uc_mul a b = uc_mul b a.
Proof. intros Ha Hb. apply uc_ext; auto using wf_mul. intros k. rewrite !exp_of_mul. ring. Qed.
Lemma uc_mul_assoc a b c : wf a → wf b → uc_mul (uc_mul a b) c = uc_mul a (uc_mul b c).
Proof. intros Ha Hb. apply uc_ext; auto using wf_mul. intros k. rewrite !exp_of_mul. ring. Qed.
Lemma uc_mul_empty_r a : uc_mul a ∅ = a.
Proof. apply map_eq. intros k. rewrite lookup_uc_mul, lookup_empty. reflexivity. Qed.
Lemma uc_mul_empty_l a : wf a → uc_mul ∅ a = a.
Proof. intros Ha. rewrite uc_mul_comm by auto using wf_empty. apply uc_mul_empty_r. Qed.
Lemma uc_div_self a : uc_div a a = ∅.
Proof.
  apply map_eq. intros k. rewrite lookup_uc_div, lookup_empty.
  destruct (a !! k) as [x|]; simpl; [|reflexivity].
  replace (x - x)%Qc with 0%Qc by ring. reflexivity.
Qed.
Lemma uc_div_empty_r a : uc_div a ∅ = a.
Proof. apply map_eq. intros k. rewrite lookup_uc_div, lookup_empty. reflexivity. Qed.

(** ** pow *)
Lemma lookup_uc_pow a e k :
  uc_pow a e !! k = x ← a !! k; (let y := (x * e)%Qc in if qz y then None else Some y).
Proof. unfold uc_pow. apply lookup_omap. Qed.
Lemma exp_of_pow a e k : exp_of (uc_pow a e) k = (exp_of a k * e)%Qc.
Proof.
  unfold exp_of. rewrite lookup_uc_pow. destruct (a !! k) as [x|]; simpl; [|ring].
  qz_cases; simpl; congruence.
Qed.
Lemma wf_pow a e : wf (uc_pow a e).
Proof.
  intros k v. rewrite lookup_uc_pow. destruct (a !! k) as [x|]; simpl; [|discriminate].
  qz_cases; intros [=]; subst; assumption.
Qed.
Lemma uc_pow_zero a : uc_pow a 0 = ∅.
Proof. apply uc_ext; auto using wf_pow, wf_empty. intros k. rewrite exp_of_pow. unfold exp_of. rewrite lookup_empty. simpl. ring. Qed.
Lemma uc_pow_one a : wf a → uc_pow a 1 = a.
Proof. intros Ha. apply uc_ext; auto using wf_pow. intros k. rewrite exp_of_pow. ring. Qed.
Lemma uc_pow_pow a x y : uc_pow (uc_pow a x) y = uc_pow a (x * y).
Proof. apply uc_ext; auto using wf_pow. intros k. rewrite !exp_of_pow. ring. Qed.
Lemma uc_pow_mul_distr a b e : wf a → uc_pow (uc_mul a b) e = uc_mul (uc_pow a e) (uc_pow b e).
Proof.
  intros Ha. apply uc_ext; auto using wf_pow, wf_mul.
  intros k. rewrite exp_of_pow, !exp_of_mul, !exp_of_pow. ring.
Qed.
Lemma uc_pow_div_distr a b e : wf a → uc_pow (uc_div a b) e = uc_div (uc_pow a e) (uc_pow b e).
Proof.
  intros Ha. apply uc_ext; auto using wf_pow, wf_div.
  intros k. rewrite exp_of_pow, !exp_of_div, !exp_of_pow. ring.
Qed.
Lemma uc_div_as_mul_inv a b : wf a → uc_div a b = uc_mul a (uc_inv b).
Proof.
  intros Ha. apply uc_ext; auto using wf_div, wf_mul.
  intros k. unfold uc_inv. rewrite exp_of_div, exp_of_mul, exp_of_pow. ring.
Qed.
Lemma uc_pow_empty e : uc_pow ∅ e = ∅.
Proof. unfold uc_pow. apply omap_empty. Qed.
Lemma uc_mul_inv a : wf a → uc_mul a (uc_inv a) = ∅.
Proof. intros Ha. rewrite <- uc_div_as_mul_inv by assumption. apply uc_div_self. Qed.

(** the pre-fix power keeps zero entries: [m ** 0 = {m: 0}], not the empty container *)
Lemma uc_pow_keepzero_refuted :
  ∃ a, wf a ∧ uc_pow_keepzero a 0 ≠ ∅ ∧ ¬ wf (uc_pow_keepzero a 0).
Proof.
  exists {[ "meter" := 1%Qc ]}. split; [|split].
  - apply map_Forall_singleton. discriminate.
  - unfold uc_pow_keepzero. rewrite map_fmap_singleton. apply insert_non_empty.
  - unfold uc_pow_keepzero. rewrite map_fmap_singleton. intros H.
    apply map_Forall_singleton in H. apply H. apply Qc_is_canon. reflexivity.
Qed.

(** ** add / remove / rename *)
Lemma exp_of_add a k v k' :
  exp_of (uc_add a k v) k' = if decide (k = k') then (exp_of a k + v)%Qc else exp_of a k'.
Proof.
  unfold uc_add. qz_cases; unfold exp_of; destruct (decide (k = k')) as [->|N].
  - rewrite lookup_delete. simpl. fold (exp_of a k'). congruence.
  - rewrite lookup_delete_ne by assumption. reflexivity.
  - rewrite lookup_insert. reflexivity.
  - rewrite lookup_insert_ne by assumption. reflexivity.
Qed.
Lemma wf_add a k v : wf a → wf (uc_add a k v).
Proof.
  intros Ha. unfold uc_add. qz_cases.
  - apply map_Forall_delete. exact Ha.
  - apply map_Forall_insert_2; assumption.
Qed.
Lemma wf_remove a ks b : wf a → uc_remove a ks = Some b → wf b.
Proof.
  revert a. induction ks as [|k ks IH]; intros a Ha; simpl.
  - intros [= <-]. exact Ha.
  - destruct (a !! k); [|discriminate]. apply IH. apply map_Forall_delete. exact Ha.
Qed.
Lemma wf_rename a o n b : wf a → uc_rename a o n = Some b → wf b.
Proof.
  intros Ha. unfold uc_rename. destruct (a !! o) as [v|] eqn:E; [|discriminate].
  intros [= <-]. apply map_Forall_insert_2.
  - exact (wf_lookup _ _ _ Ha E).
  - apply map_Forall_delete. exact Ha.
Qed.

(** ** cached hash *)
Lemma hash_inv_fresh d : hash_inv (ucs_fresh d).
Proof. left. reflexivity. Qed.
Lemma hash_inv_hash s : hash_inv s → hash_inv (fst (ucs_hash s)) ∧ snd (ucs_hash s) = ucs_d s
                                     ∧ ucs_d (fst (ucs_hash s)) = ucs_d s.
Proof.
  unfold hash_inv, ucs_hash. destruct s as [d [h|]]; simpl; intros [H|H]; try discriminate.
  - injection H as ->. auto.
  - auto.
Qed.
Lemma hash_inv_mul s t : hash_inv (ucs_mul s t). Proof. left; reflexivity. Qed.
Lemma hash_inv_div s t : hash_inv (ucs_div s t). Proof. left; reflexivity. Qed.
Lemma hash_inv_pow s e : hash_inv (ucs_pow s e). Proof. left; reflexivity. Qed.
Lemma hash_inv_add s k v : hash_inv (ucs_add s k v). Proof. left; reflexivity. Qed.
Lemma hash_inv_copy s : hash_inv s → hash_inv (ucs_copy s).
Proof. destruct s; exact id. Qed.

(** under the invariant, [__eq__] decides equality of contents, and leaves both
    operands' contents alone and their caches valid *)
Lemma ucs_eq_correct s t :
  hash_inv s → hash_inv t →
  let '(s', t', r) := ucs_eq s t in
  (r = true ↔ ucs_d s = ucs_d t) ∧ ucs_d s' = ucs_d s ∧ ucs_d t' = ucs_d t ∧ hash_inv s' ∧ hash_inv t'.
Proof.
  intros Hs Ht. unfold ucs_eq.
  destruct (hash_inv_hash s Hs) as (Is & Vs & Ds). destruct (hash_inv_hash t Ht) as (It & Vt & Dt).
  destruct (ucs_hash s) as [s' hs]. destruct (ucs_hash t) as [t' ht]. simpl in *. subst hs ht.
  repeat split; auto.
  - destruct (bool_decide (ucs_d s = ucs_d t)) eqn:E; [|discriminate].
    intros _. apply bool_decide_eq_true in E. exact E.
  - intros E. rewrite E. rewrite !bool_decide_eq_true_2; reflexivity.
Qed.
(** equal contents have equal hashes *)
Lemma ucs_hash_respects_eq s t :
  hash_inv s → hash_inv t → ucs_d s = ucs_d t → snd (ucs_hash s) = snd (ucs_hash t).
Proof.
  intros Hs Ht E. destruct (hash_inv_hash s Hs) as (_ & -> & _).
  destruct (hash_inv_hash t Ht) as (_ & -> & _). exact E.
Qed.
(** a stale cache (what a forgotten reset leaves behind) makes [__eq__] wrong *)
Lemma stale_hash_breaks_eq :
  ∃ s t, ucs_d s = ucs_d t ∧ snd (ucs_eq s t) = false.
Proof.
  exists (UCS {[ "m" := 1%Qc ]} (Some ∅)), (UCS {[ "m" := 1%Qc ]} None).
  split; [reflexivity|]. vm_compute. reflexivity.
Qed.

(** ** ParserHelper *)
Lemma ph_mul_comm a b : wf (ph_d a) → wf (ph_d b) → ph_mul a b = ph_mul b a.
Proof.
  intros Ha Hb. unfold ph_mul. f_equal; [ring | apply uc_mul_comm; assumption].
Qed.
Lemma ph_mul_assoc a b c : wf (ph_d a) → wf (ph_d b) →
  ph_mul (ph_mul a b) c = ph_mul a (ph_mul b c).
Proof.
  intros Ha Hb. unfold ph_mul; simpl. f_equal; [ring | apply uc_mul_assoc; assumption].
Qed.
