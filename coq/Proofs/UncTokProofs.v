(** Proofs/UncTokProofs.v — the token rewriting of [uncertainty_tokenizer] (C19). *)
From Coq Require Import Ascii String Qcabs Lia ZArith QArith Qpower.
From PintV Require Import Model.UC Model.Eval Model.Registry Model.UncTok.
Open Scope string_scope.
Local Open Scope nat_scope.

(** * Look-ahead on an explicit prefix *)
Lemma la_cons x l k : la (x :: l) (S k) = la l k.
Proof. reflexivity. Qed.
Lemma la_p_cons x l k p : la_p (x :: l) (S k) p = la_p l k p.
Proof. reflexivity. Qed.
Lemma get_possible_e_cons q x l k : get_possible_e q (x :: l) (S k) = get_possible_e q l k.
Proof. reflexivity. Qed.

(** * Fuel: any amount above the length of the input gives the same result *)
Lemma finalize_e_length nv sd pe l a b l' :
  finalize_e nv sd pe l = Ok (a, b, l') → length l' < length l.
Proof.
  unfold finalize_e.
  destruct (apply_e nv pe); simpl; [|discriminate].
  destruct (apply_e sd pe); simpl; [|discriminate].
  destruct l as [|x l1]; [discriminate|].
  destruct (str_second (tx pe)) as [c|]; [|discriminate].
  destruct (Ascii.eqb c "+" || Ascii.eqb c "-").
  - destruct l1 as [|y [|expn l3]]; try discriminate.
    unfold rand.
    destruct (String.eqb (tx expn) "0"); [destruct (la_p l3 0 is_number) as [[|]|]|]; simpl; try discriminate.
    + destruct l3 as [|t l4]; [discriminate|].
      destruct (bool_decide (te t = te pe)); [|discriminate].
      intros [= _ _ <-]. simpl. lia.
    + intros [= _ _ <-]. simpl. lia.
    + intros [= _ _ <-]. simpl. lia.
  - intros [= _ _ <-]. simpl. lia.
Qed.

Lemma emit_ext pre nv pm sd pe rest' k1 k2 :
  (∀ l', length l' <= length rest' → k1 l' = k2 l') →
  emit pre nv pm sd pe rest' k1 = emit pre nv pm sd pe rest' k2.
Proof.
  intros H. unfold emit. destruct pe as [p|].
  - destruct (finalize_e nv sd p rest') as [[[a b] l']|] eqn:F; simpl; [|reflexivity].
    apply finalize_e_length in F. rewrite (H l') by lia. reflexivity.
  - rewrite (H rest') by lia. reflexivity.
Qed.

Lemma utz_fuel q : ∀ f1 f2 l, length l < f1 → length l < f2 → utz q f1 l = utz q f2 l.
Proof.
  induction f1 as [|f1 IH]; intros f2 l H1 H2; [lia|].
  destruct f2 as [|f2]; [lia|].
  destruct l as [|t rest]; [reflexivity|]. simpl in H1, H2. simpl.
  destruct (classify t rest) as [[| sm | |]|]; simpl; try reflexivity.
  - destruct (la rest 1); simpl; [|reflexivity].
    rewrite (IH f2) by (rewrite drop_length; lia). reflexivity.
  - destruct (get_possible_e q rest (sm + 6)); simpl; [|reflexivity].
    destruct (la rest sm); simpl; [|reflexivity].
    destruct (la rest (sm + 1)); simpl; [|reflexivity].
    destruct (la rest (sm + 3)); simpl; [|reflexivity].
    destruct (la rest (sm + 4)); simpl; [|reflexivity].
    apply emit_ext. intros l' Hl. rewrite drop_length in Hl. apply IH; lia.
  - destruct (get_possible_e q rest 3); simpl; [|reflexivity].
    destruct (la rest 0); simpl; [|reflexivity].
    destruct (la rest 1); simpl; [|reflexivity].
    apply emit_ext. intros l' Hl. rewrite drop_length in Hl. apply IH; lia.
  - rewrite (IH f2) by lia. reflexivity.
Qed.
Lemma utz_unc_tokenize q f l : length l < f → utz q f l = unc_tokenize q l.
Proof. intros H. unfold unc_tokenize. apply utz_fuel; lia. Qed.

Lemma utz_unfold q f t rest :
  utz q (S f) (t :: rest) =
  (kd ←r classify t rest;
   match kd with
   | KPlusMinus =>
       t1 ←r la rest 1; r ←r utz q f (drop 2 rest);
       Ok (UTok TyOp "+/-" (ts t) (te t1) :: r)
   | KParen sm =>
       pe ←r get_possible_e q rest (sm + 6);
       nv ←r la rest sm; plus ←r la rest (sm + 1); minus ←r la rest (sm + 3);
       sd ←r la rest (sm + 4);
       emit (take sm rest) nv (UTok TyOp "+/-" (ts plus) (te minus)) sd pe (drop (sm + 6) rest) (utz q f)
   | KShort =>
       pe ←r get_possible_e q rest 3;
       lp ←r la rest 0; sd0 ←r la rest 1;
       emit [] t (UTok TyOp "+/-" (ts lp) (te lp))
            (if str_has "." (tx sd0) then sd0
             else UTok (ty sd0) (short_unc_text q (tx t) (tx sd0)) (ts sd0) (te sd0))
            pe (drop 3 rest) (utz q f)
   | KPlain => r ←r utz q f rest; Ok (t :: r)
   end).
Proof. reflexivity. Qed.

Local Arguments unc_tokenize : simpl never.
Local Arguments utz : simpl never.

(** * Conservativity: a stream in which no position triggers one of the three patterns is
    returned unchanged *)
Definition no_trigger (l : list utok) : Prop :=
  ∀ i t rest, drop i l = t :: rest → classify t rest = Ok KPlain.

Lemma no_trigger_tail t l : no_trigger (t :: l) → no_trigger l.
Proof. intros H i t' rest E. apply (H (S i)). exact E. Qed.

Lemma utz_conservative q l : no_trigger l → unc_tokenize q l = Ok l.
Proof.
  unfold unc_tokenize. induction l as [|t l IH]; intros H; [reflexivity|].
  cbn [length]. rewrite utz_unfold, (H 0 t l eq_refl). cbn [rbind].
  rewrite IH by exact (no_trigger_tail _ _ H). reflexivity.
Qed.

(** a sufficient syntactic condition: the stream ends with the two empty-text tokens Python's
    tokenizer always appends (NEWLINE, ENDMARKER), contains no "/" token, and no NUMBER is
    immediately followed by "(" *)
Definition no_number_paren (l : list utok) : Prop :=
  ∀ i t x rest, drop i l = t :: x :: rest → is_number t = true → tx x ≠ "(".

Lemma classify_plain t b nl em :
  tx nl = "" → tx em = "" → is_number nl = false → is_number em = false →
  tx t ≠ "/" → Forall (λ x, tx x ≠ "/") b →
  (is_number t = true → match b with x :: _ => tx x ≠ "(" | [] => True end) →
  classify t (b ++ [nl; em]) = Ok KPlain.
Proof.
  intros Hnl Hem Nnl Nem Ht Hb Hnp.
  assert (NNnl : number_or_nan nl = false).
  { unfold number_or_nan. rewrite Nnl, Hnl. simpl. apply andb_false_r. }
  unfold classify.
  (* first condition: "+" "/" "-" *)
  assert (C1 : cond_pm t (b ++ [nl; em]) = Ok false).
  { unfold cond_pm, rand. destruct (String.eqb (tx t) "+"); [|reflexivity].
    destruct b as [|x0 b]; cbn.
    - rewrite Hnl. reflexivity.
    - inversion Hb as [|? ? H0 Hb']; subst.
      destruct (String.eqb_spec (tx x0) "/"); [contradiction | reflexivity]. }
  rewrite C1. cbn [rbind].
  (* second condition *)
  assert (C2 : cond_paren t (b ++ [nl; em]) = Ok None).
  { unfold cond_paren. destruct (String.eqb (tx t) "("); [|reflexivity].
    destruct b as [|x0 b]; cbn.
    { rewrite Hnl. cbn. unfold la_p. cbn. rewrite NNnl. reflexivity. }
    inversion Hb as [|? ? H0 Hb0]; subst.
    destruct (String.eqb_spec (tx x0) "-") as [E0|E0]; cbn.
    - (* seen_minus = 1 *)
      destruct b as [|x1 b]; cbn.
      { unfold la_p. cbn. rewrite NNnl. reflexivity. }
      inversion Hb0 as [|? ? H1 Hb1]; subst.
      unfold la_p at 1. cbn. destruct (number_or_nan x1); [|reflexivity]. cbn.
      destruct b as [|x2 b]; cbn.
      { rewrite Hnl. reflexivity. }
      inversion Hb1 as [|? ? H2 Hb2]; subst.
      destruct (String.eqb_spec (tx x2) "+"); [|reflexivity]. cbn.
      destruct b as [|x3 b]; cbn.
      { rewrite Hnl. reflexivity. }
      inversion Hb2 as [|? ? H3 Hb3]; subst.
      destruct (String.eqb_spec (tx x3) "/"); [contradiction | reflexivity].
    - unfold la_p at 1. cbn. destruct (number_or_nan x0); [|reflexivity]. cbn.
      destruct b as [|x1 b]; cbn.
      { rewrite Hnl. reflexivity. }
      inversion Hb0 as [|? ? H1 Hb1]; subst.
      destruct (String.eqb_spec (tx x1) "+"); [|reflexivity]. cbn.
      destruct b as [|x2 b]; cbn.
      { rewrite Hnl. reflexivity. }
      inversion Hb1 as [|? ? H2 Hb2]; subst.
      destruct (String.eqb_spec (tx x2) "/"); [contradiction | reflexivity]. }
  rewrite C2. cbn [rbind].
  (* third condition *)
  unfold cond_short, rand. destruct (is_number t) eqn:Nt; [|reflexivity].
  specialize (Hnp eq_refl).
  destruct b as [|x0 b]; cbn.
  - rewrite Hnl. reflexivity.
  - destruct (String.eqb_spec (tx x0) "("); [contradiction | reflexivity].
Qed.

Lemma no_trigger_plain body nl em :
  tx nl = "" → tx em = "" → is_number nl = false → is_number em = false →
  Forall (λ x, tx x ≠ "/") body →
  (∀ i t x rest, drop i body = t :: x :: rest → is_number t = true → tx x ≠ "(") →
  no_trigger (body ++ [nl; em]).
Proof.
  intros Hnl Hem Nnl Nem. induction body as [|t body IH]; intros Hb Hnp i t' rest E.
  - (* only the terminators *)
    destruct i as [|[|i]]; cbn in E.
    + injection E as <- <-. unfold classify, cond_pm, cond_paren, cond_short, rand. rewrite Hnl, Nnl. reflexivity.
    + injection E as <- <-. unfold classify, cond_pm, cond_paren, cond_short, rand. rewrite Hem, Nem. reflexivity.
    + rewrite drop_nil in E. discriminate.
  - inversion Hb as [|? ? Ht Hb']; subst.
    destruct i as [|i].
    + cbn in E. injection E as <- <-.
      apply classify_plain; try assumption.
      intros Nt. destruct body as [|x body]; [exact I|].
      apply (Hnp 0 t x body eq_refl Nt).
    + cbn in E. apply (IH Hb') with (i := i); [|exact E].
      intros j t0 x rest0 Ej. apply (Hnp (S j) t0 x rest0). exact Ej.
Qed.

(** * The notation family: [unc_tokens] *)
Lemma digit_not_sign d : is_digit d = true → (Ascii.eqb d "+" || Ascii.eqb d "-") = false.
Proof.
  unfold is_digit, digit_of. intros H.
  destruct (Ascii.eqb_spec d "+") as [->|]; [vm_compute in H; discriminate|].
  destruct (Ascii.eqb_spec d "-") as [->|]; [vm_compute in H; discriminate|]. reflexivity.
Qed.

Definition apply_ok (t : utok) : Prop := tx t = "nan" ∨ lit_text_ok (tx t) = true.

Lemma apply_e_core e m pe :
  apply_ok m → e ≠ ENone → tx pe = e_text e →
  ∃ m', apply_e m pe = Ok m' ∧ core_of m' = apply_core e (core_of m).
Proof.
  intros Hm He Hpe. unfold apply_e, apply_core, core_of. simpl.
  destruct e as [|ds|cap neg ds]; [contradiction| |];
  (destruct (String.eqb (tx m) "nan") eqn:En; [eexists; split; reflexivity|];
   destruct Hm as [Hm|Hm]; [rewrite Hm in En; discriminate|];
   unfold lit_text_ok in Hm; destruct (float_of_text (tx m)) as [qv|]; [|discriminate];
   destruct (float_is_zero qv); eexists; (split; [reflexivity|]); simpl; rewrite ?Hpe; reflexivity).
Qed.

Lemma nonempty_digits_inv ds :
  nonempty_digits ds = true → ∃ d ds', ds = String d ds' ∧ is_digit d = true.
Proof.
  destruct ds as [|d ds']; [discriminate|]. simpl. intros H. apply andb_true_iff in H as [H _].
  eauto.
Qed.

Lemma leading_zero_guard ds rest :
  (negb (String.eqb ds "0") || match rest with t :: _ => negb (is_number t) | [] => false end) = true →
  (if String.eqb ds "0" then la_p rest 0 is_number else Ok false) = Ok false.
Proof.
  intros H. destruct (String.eqb ds "0"); [|reflexivity]. simpl in H.
  destruct rest as [|t rest]; [discriminate|]. unfold la_p. cbn.
  apply negb_true_iff in H. rewrite H. reflexivity.
Qed.

Lemma tail_spec q e pse rest nv sd :
  exp_ok e = true → length pse = length (render_e e) → follow_ok q e rest = true →
  apply_ok nv → apply_ok sd →
  ∃ pe nv' sd',
    get_possible_e q (place (render_e e) pse ++ rest) 0 = Ok pe ∧
    (∀ f pre pm, length rest < f →
       emit pre nv pm sd pe (place (render_e e) pse ++ rest) (utz q f)
       = (r ←r unc_tokenize q rest; Ok (app pre (nv' :: pm :: sd' :: r)))) ∧
    core_of nv' = apply_core e (core_of nv) ∧ core_of sd' = apply_core e (core_of sd).
Proof.
  intros He Hl Hf Hnv Hsd.
  destruct e as [|ds|cap neg ds].
  - (* no exponent *)
    destruct pse; [|discriminate]. cbn [render_e place zip_with app].
    cbn in Hf. apply bool_decide_eq_true in Hf.
    exists None, nv, sd. repeat split; [exact Hf|]. intros f pre pm Hfuel.
    unfold emit. rewrite utz_unc_tokenize by exact Hfuel. reflexivity.
  - (* e<digits> as one NAME token *)
    destruct pse as [|p0 [|]]; try discriminate. cbn [render_e place zip_with app].
    cbn in He. destruct (nonempty_digits_inv ds He) as (d & ds' & -> & Hd).
    set (pe := UTok TyString (String "e" (String d ds')) p0.1 p0.2).
    destruct (apply_e_core (EDigits (String d ds')) nv pe Hnv) as (nv' & Anv & Cnv); [discriminate|reflexivity|].
    destruct (apply_e_core (EDigits (String d ds')) sd pe Hsd) as (sd' & Asd & Csd); [discriminate|reflexivity|].
    exists (Some pe), nv', sd'. repeat split; try assumption.
    + unfold get_possible_e. cbn. rewrite Hd. reflexivity.
    + intros f pre pm Hfuel. unfold emit, finalize_e. rewrite Anv, Asd. cbn. rewrite (digit_not_sign d Hd). cbn.
      rewrite utz_unc_tokenize by exact Hfuel. reflexivity.
  - (* e / E, sign, NUMBER *)
    destruct pse as [|p0 [|p1 [|p2 [|]]]]; try discriminate. cbn [render_e place zip_with app].
    cbn in He, Hf.
    set (pe := UTok TyString (String "e" (String (if neg then "-" else "+")%char ds)) p0.1 p2.2).
    destruct (apply_e_core (ESigned cap neg ds) nv pe Hnv) as (nv' & Anv & Cnv); [discriminate|reflexivity|].
    destruct (apply_e_core (ESigned cap neg ds) sd pe Hsd) as (sd' & Asd & Csd); [discriminate|reflexivity|].
    exists (Some pe), nv', sd'. repeat split; try assumption.
    + unfold get_possible_e. cbn.
      assert (G := leading_zero_guard ds rest Hf).
      destruct cap, neg; cbn; rewrite ?orb_true_r; cbn;
        (replace (is_number (mk (TyNumber, ds) p2)) with true by reflexivity);
        change (la_p (?a :: ?b :: ?c :: rest) 3 is_number) with (la_p rest 0 is_number);
        rewrite G; reflexivity.
    + intros f pre pm Hfuel. unfold emit, finalize_e. rewrite Anv, Asd. cbn.
      assert (G := leading_zero_guard ds rest Hf).
      destruct neg; cbn; rewrite G; cbn; rewrite utz_unc_tokenize by exact Hfuel; reflexivity.
Qed.

Lemma lit_text_facts s :
  lit_text_ok s = true →
  String.eqb s "+" = false ∧ String.eqb s "-" = false ∧ String.eqb s "(" = false.
Proof.
  unfold lit_text_ok. intros H. repeat split.
  - destruct (String.eqb_spec s "+") as [->|]; [vm_compute in H; discriminate | reflexivity].
  - destruct (String.eqb_spec s "-") as [->|]; [vm_compute in H; discriminate | reflexivity].
  - destruct (String.eqb_spec s "(") as [->|]; [vm_compute in H; discriminate | reflexivity].
Qed.
Lemma core_of_mk c p : core_of (mk c p) = c.
Proof. destruct c. reflexivity. Qed.
Lemma lit_ok_facts nan_ok c p :
  lit_ok nan_ok c = true →
  String.eqb c.2 "+" = false ∧ String.eqb c.2 "-" = false ∧ String.eqb c.2 "(" = false
  ∧ number_or_nan (mk c p) = true ∧ apply_ok (mk c p)
  ∧ (nan_ok = false → is_number (mk c p) = true ∧ lit_text_ok c.2 = true).
Proof.
  destruct c as [t s]. unfold lit_ok, apply_ok, number_or_nan, is_number, mk. simpl.
  destruct t; try discriminate.
  - intros H. destruct (lit_text_facts s H) as (A & B & C).
    split; [exact A|]. split; [exact B|]. split; [exact C|]. split; [reflexivity|].
    split; [right; exact H|]. intros _. split; [reflexivity | exact H].
  - intros H. apply andb_true_iff in H as [Hn H]. apply String.eqb_eq in H. subst s.
    split; [reflexivity|]. split; [reflexivity|]. split; [reflexivity|]. split; [reflexivity|].
    split; [left; reflexivity|]. intros Hn'. rewrite Hn' in Hn. discriminate.
Qed.

Lemma out_assoc (x : res (list utok)) pre a b c :
  (r ←r x; Ok (app pre (a :: b :: c :: r))) = (r ←r x; Ok (app (app pre [a; b; c]) r)).
Proof. destruct x; simpl; [|reflexivity]. rewrite <- app_assoc. reflexivity. Qed.

Theorem unc_tokens_spec q n ps rest :
  inst_ok q n = true → length ps = length (render_unc n) → follow_ok q (n_e n) rest = true →
  ∃ out, unc_tokenize q (place (render_unc n) ps ++ rest) = (r ←r unc_tokenize q rest; Ok (app out r))
       ∧ map core_of out = expected_cores q n.
Proof.
  destruct n as [v u e st]. unfold inst_ok. cbn [n_v n_u n_e n_style].
  intros Hok Hl Hf. apply andb_true_iff in Hok as [He Hok].
  destruct st as [[|]|].
  - (* ( - v +/- u ) *)
    apply andb_true_iff in Hok as [Hv Hu].
    cbn in Hl. destruct ps as [|p0 [|p1 [|p2 [|p3 [|p4 [|p5 [|p6 [|p7 pse]]]]]]]]; try discriminate.
    injection Hl as Hl.
    destruct (lit_ok_facts true v p2 Hv) as (V1 & V2 & V3 & V4 & V5 & _).
    destruct (lit_ok_facts true u p6 Hu) as (U1 & U2 & U3 & U4 & U5 & _).
    destruct (tail_spec q e pse rest (mk v p2) (mk u p6) He Hl Hf V5 U5) as (pe & nv' & sd' & G & Em & C1 & C2).
    cbn [render_unc n_style n_v n_u n_e place zip_with app].
    fold (place (render_e e) pse).
    unfold unc_tokenize at 1. cbn [length]. rewrite utz_unfold.
    assert (Cl : classify (mk (TyOp, "(") p0)
       (mk (TyOp, "-") p1 :: mk v p2 :: mk (TyOp, "+") p3 :: mk (TyOp, "/") p4 :: mk (TyOp, "-") p5
        :: mk u p6 :: mk (TyOp, ")") p7 :: place (render_e e) pse ++ rest) = Ok (KParen 1)).
    { unfold classify, cond_pm, cond_paren, la_p, la_is. cbn. rewrite V4, U4. reflexivity. }
    rewrite Cl. cbn [rbind Nat.add]. rewrite !get_possible_e_cons, G. cbn -[emit].
    rewrite Em by (rewrite app_length; lia).
    exists [mk (TyOp, "-") p1; nv'; UTok TyOp "+/-" p3.1 p5.2; sd'].
    split; [apply (out_assoc _ [mk (TyOp, "-") p1]) |].
    cbn. rewrite C1, C2, !core_of_mk. reflexivity.
  - (* ( v +/- u ) *)
    apply andb_true_iff in Hok as [Hv Hu].
    cbn in Hl. destruct ps as [|p0 [|p2 [|p3 [|p4 [|p5 [|p6 [|p7 pse]]]]]]]; try discriminate.
    injection Hl as Hl.
    destruct (lit_ok_facts true v p2 Hv) as (V1 & V2 & V3 & V4 & V5 & _).
    destruct (lit_ok_facts true u p6 Hu) as (U1 & U2 & U3 & U4 & U5 & _).
    destruct (tail_spec q e pse rest (mk v p2) (mk u p6) He Hl Hf V5 U5) as (pe & nv' & sd' & G & Em & C1 & C2).
    cbn [render_unc n_style n_v n_u n_e place zip_with app].
    fold (place (render_e e) pse).
    unfold unc_tokenize at 1. cbn [length]. rewrite utz_unfold.
    assert (Cl : classify (mk (TyOp, "(") p0)
       (mk v p2 :: mk (TyOp, "+") p3 :: mk (TyOp, "/") p4 :: mk (TyOp, "-") p5
        :: mk u p6 :: mk (TyOp, ")") p7 :: place (render_e e) pse ++ rest) = Ok (KParen 0)).
    { unfold classify, cond_pm, cond_paren, la_p, la_is. cbn.
      replace (tx (mk v p2)) with v.2 by (destruct v; reflexivity). rewrite V2. cbn.
      rewrite V4, U4. reflexivity. }
    rewrite Cl. cbn [rbind Nat.add]. rewrite !get_possible_e_cons, G. cbn -[emit].
    rewrite Em by (rewrite app_length; lia).
    exists [nv'; UTok TyOp "+/-" p3.1 p5.2; sd'].
    split; [apply (out_assoc _ []) |].
    cbn. rewrite C1, C2, !core_of_mk. reflexivity.
  - (* v(u) *)
    apply andb_true_iff in Hok as [Hok Hs]. apply andb_true_iff in Hok as [Hv Hu].
    cbn in Hl. destruct ps as [|p0 [|p1 [|p2 [|p3 pse]]]]; try discriminate.
    injection Hl as Hl.
    destruct (lit_ok_facts false v p0 Hv) as (V1 & V2 & V3 & V4 & V5 & V6).
    destruct (lit_ok_facts false u p2 Hu) as (U1 & U2 & U3 & U4 & U5 & U6).
    destruct (V6 eq_refl) as [Nv Tv]. destruct (U6 eq_refl) as [Nu Tu].
    set (sdt := if str_has "." (tx (mk u p2)) then mk u p2
                else UTok (ty (mk u p2)) (short_unc_text q (tx (mk v p0)) (tx (mk u p2))) (ts (mk u p2)) (te (mk u p2))).
    assert (Csd : core_of sdt = (u.1, short_unc_text q v.2 u.2)).
    { unfold sdt. destruct v as [tv sv], u as [tu su]. cbn. unfold short_unc_text.
      destruct (str_has "." su); reflexivity. }
    assert (Asd : apply_ok sdt).
    { right. change (tx sdt) with (core_of sdt).2. rewrite Csd. exact Hs. }
    destruct (tail_spec q e pse rest (mk v p0) sdt He Hl Hf V5 Asd) as (pe & nv' & sd' & G & Em & C1 & C2).
    cbn [render_unc n_style n_v n_u n_e place zip_with app].
    fold (place (render_e e) pse).
    unfold unc_tokenize at 1. cbn [length]. rewrite utz_unfold.
    assert (Cl : classify (mk v p0)
       (mk (TyOp, "(") p1 :: mk u p2 :: mk (TyOp, ")") p3 :: place (render_e e) pse ++ rest) = Ok KShort).
    { unfold classify, cond_pm, cond_paren, cond_short, la_p, la_is.
      replace (tx (mk v p0)) with v.2 by (destruct v; reflexivity). rewrite V1, V3. cbn.
      rewrite Nv, Nu. reflexivity. }
    rewrite Cl. cbn [rbind Nat.add]. rewrite !get_possible_e_cons, G. cbn -[emit short_unc_text str_has mk].
    fold sdt. rewrite Em by (rewrite app_length; lia).
    exists [nv'; UTok TyOp "+/-" p1.1 p1.2; sd'].
    split; [apply (out_assoc _ []) |].
    cbn. rewrite C1, C2, Csd, !core_of_mk. reflexivity.
Qed.

(** at the end of the input the repaired look-ahead finds no exponent: the guard of
    [unc_tokens_spec] is met by the NEWLINE token *)
Lemma follow_ok_eof_repaired q nl rest :
  q_eof_index q = false → tx nl = "" → follow_ok q ENone (nl :: rest) = true.
Proof.
  intros Hq Hnl. unfold follow_ok. apply bool_decide_eq_true.
  unfold get_possible_e. cbn. rewrite Hnl, Hq. reflexivity.
Qed.
(** ... and the tokenizer as found fails there *)
Lemma get_possible_e_eof_as_found q nl rest :
  q_eof_index q = true → tx nl = "" → get_possible_e q (nl :: rest) 0 = Err EIndex.
Proof. intros Hq Hnl. unfold get_possible_e. cbn. rewrite Hnl, Hq. reflexivity. Qed.

Definition tok_nl : utok := UTok TyNewline "" (1, 6)%Z (1, 7)%Z.
Definition tok_end : utok := UTok TyEnd "" (2, 0)%Z (2, 0)%Z.
Definition pos0 : pos * pos := ((1, 0)%Z, (1, 0)%Z).
Definition inst_short : ninst := NInst (TyNumber, "1.0") (TyNumber, "1") ENone SShort.
Definition inst_paren : ninst := NInst (TyNumber, "1.0") (TyNumber, "0.1") ENone (SParen false).

Lemma unc_eof_witness :
  inst_ok as_found inst_short = true ∧ inst_ok as_found inst_paren = true
  ∧ unc_tokenize as_found (place (render_unc inst_short) (replicate 4 pos0) ++ [tok_nl; tok_end]) = Err EIndex
  ∧ unc_tokenize as_found (place (render_unc inst_paren) (replicate 7 pos0) ++ [tok_nl; tok_end]) = Err EIndex
  ∧ (∃ l, unc_tokenize as_found (place (render_unc inst_short) (replicate 4 pos0)
                                  ++ [UTok TyName "m" (1, 7)%Z (1, 8)%Z; tok_nl; tok_end]) = Ok l)
  ∧ (∃ l, unc_tokenize repaired (place (render_unc inst_short) (replicate 4 pos0) ++ [tok_nl; tok_end]) = Ok l
          ∧ map core_of l = [(TyNumber, "1.0"); (TyOp, "+/-"); (TyNumber, "0.1"); (TyNewline, ""); (TyEnd, "")]).
Proof.
  repeat split; try (vm_compute; reflexivity); eexists; vm_compute; [reflexivity|split; reflexivity].
Qed.

(** * F70: the [0.]-prefix of the short notation against the reading in units of the last
    digit of the nominal value *)
Lemma substring_0_0 s : substring 0 0 s = "".
Proof. destruct s; reflexivity. Qed.
Lemma substring_full s : substring 0 (String.length s) s = s.
Proof. induction s as [|a s IH]; simpl; [reflexivity | rewrite IH; reflexivity]. Qed.
Lemma str_has_digits c s : all_digits s = true → is_digit c = false → str_has c s = false.
Proof.
  induction s as [|a s IH]; simpl; [reflexivity|]. intros H Hc. apply andb_true_iff in H as [Ha Hs].
  destruct (Ascii.eqb_spec a c) as [->|]; [congruence|]. simpl. apply IH; assumption.
Qed.
Lemma short_unc_text_agree v u nd :
  plain_decimals v = Some nd → nonempty_digits u = true → String.length u = nd → nd ≠ 0 →
  short_unc_text as_found v u = short_unc_text repaired v u.
Proof.
  intros Hv Hu Hl Hnd. unfold short_unc_text. cbn [q_short_prefix as_found repaired].
  assert (Hd : str_has "." u = false).
  { apply str_has_digits; [|reflexivity]. destruct u; [discriminate | exact Hu]. }
  rewrite Hd, Hu, Hv. destruct nd as [|nd]; [contradiction|].
  replace (S (S nd) - String.length u) with 1 by lia. cbn [pad_zeros].
  cbn [String.length]. replace (S (String.length u) - S nd) with 1 by lia.
  unfold str_take, str_drop. cbn [String.length substring].
  rewrite substring_0_0. replace (S (String.length u) - 1) with (String.length u) by lia.
  rewrite substring_full. reflexivity.
Qed.
Lemma short_prefix_refuted :
  let n := NInst (TyNumber, "1.23") (TyNumber, "4") ENone SShort in
  inst_ok as_found n = true
  ∧ expected_cores as_found n = [(TyNumber, "1.23"); (TyOp, "+/-"); (TyNumber, "0.4")]
  ∧ expected_cores repaired n = [(TyNumber, "1.23"); (TyOp, "+/-"); (TyNumber, "0.04")]
  ∧ parse_number "0.4" ≠ parse_number "0.04"
  ∧ short_unc_text repaired "123" "4" = "4" ∧ short_unc_text as_found "123" "4" = "0.4"
  ∧ short_unc_text repaired "1.2" "34" = "3.4".
Proof. repeat split; try (vm_compute; reflexivity). vm_compute. discriminate. Qed.

(** * F71: a unit name starting with e/E, a sign and a number taken for an exponent *)
Definition toks_ev : list utok :=
  place [(TyOp, "("); (TyNumber, "4.0"); (TyOp, "+"); (TyOp, "/"); (TyOp, "-"); (TyNumber, "0.1"); (TyOp, ")");
         (TyName, "eV"); (TyOp, "+"); (TyNumber, "3"); (TyOp, "*"); (TyName, "eV"); (TyNewline, ""); (TyEnd, "")]
        (replicate 14 pos0).
Lemma e_prefix_refuted :
  (map core_of <$> (match unc_tokenize as_found toks_ev with Ok l => Some l | Err _ => None end))
    = Some [(TyNumber, "4.0e+3"); (TyOp, "+/-"); (TyNumber, "0.1e+3"); (TyOp, "*"); (TyName, "eV"); (TyNewline, ""); (TyEnd, "")]
  ∧ (map core_of <$> (match unc_tokenize repaired toks_ev with Ok l => Some l | Err _ => None end))
    = Some [(TyNumber, "4.0"); (TyOp, "+/-"); (TyNumber, "0.1"); (TyName, "eV"); (TyOp, "+"); (TyNumber, "3");
            (TyOp, "*"); (TyName, "eV"); (TyNewline, ""); (TyEnd, "")].
Proof. split; vm_compute; reflexivity. Qed.

(** * with the tree builder of C07: [(v ± u) unit] is the product of the ufloat and the unit *)
Lemma unc_parse_tree v u n :
  build op_priority [TNum v; TOp "+/-"; TNum u; TName n; TOther; TEnd]
  = Ok (Bin "" (Bin "+/-" (Leaf (TNum v)) (Leaf (TNum u))) (Leaf (TName n))).
Proof. reflexivity. Qed.
Lemma unc_parse_tree_mul v u n :
  build op_priority [TNum v; TOp "+/-"; TNum u; TOp "*"; TName n; TOther; TEnd]
  = Ok (Bin "*" (Bin "+/-" (Leaf (TNum v)) (Leaf (TNum u))) (Leaf (TName n))).
Proof. reflexivity. Qed.
(** "+/-" binds tighter than every other operator *)
Lemma plus_minus_binds_tightest :
  prio op_priority "+/-" = Some 4%Z
  ∧ forallb (λ kv : string * Z, String.eqb kv.1 "+/-" || Z.ltb kv.2 4) op_priority = true.
Proof. split; reflexivity. Qed.

Lemma tokens_example :
  let n := NInst (TyNumber, "1.0") (TyNumber, "0.1") (ESigned false false "05") (SParen true) in
  inst_ok as_found n = true
  ∧ follow_ok as_found (n_e n) [UTok TyName "m" (1, 17)%Z (1, 18)%Z; tok_nl; tok_end] = true
  ∧ expected_cores as_found n = [(TyOp, "-"); (TyNumber, "1.0e+05"); (TyOp, "+/-"); (TyNumber, "0.1e+05")]
  ∧ parse_number "1.0e+05" = Some (mkq 100000 1).
Proof.
  cbv zeta. split; [vm_compute; reflexivity|]. split; [vm_compute; reflexivity|].
  split; [vm_compute; reflexivity|]. apply (bool_decide_unpack _). vm_compute. exact I.
Qed.

(** * powers of ten *)
Lemma pow10_Qpower e : pow10 e = Q2Qc (Qpower (10 # 1) e).
Proof.
  destruct e as [|p|p]; unfold pow10.
  - reflexivity.
  - apply Q2Qc_eq_iff. change (10 # 1) with (inject_Z 10).
    apply Zpower_Qpower. lia.
  - apply Q2Qc_eq_iff.
    change (Qpower (10 # 1) (Z.neg p)) with (/ Qpower (inject_Z 10) (Z.pos p))%Q.
    rewrite <- (Zpower_Qpower 10 (Z.pos p)) by lia.
    assert (H : (0 < 10 ^ Z.pos p)%Z) by (apply Z.pow_pos_nonneg; lia).
    destruct (10 ^ Z.pos p)%Z as [|q|q] eqn:E; try lia.
    reflexivity.
Qed.
Lemma Q2Qc_mult x y : Q2Qc (x * y) = (Q2Qc x * Q2Qc y)%Qc.
Proof.
  unfold Qcmult. apply Q2Qc_eq_iff. simpl. rewrite !Qred_correct. reflexivity.
Qed.
Lemma pow10_add a b : pow10 (a + b) = (pow10 a * pow10 b)%Qc.
Proof.
  rewrite !pow10_Qpower, <- Q2Qc_mult. apply Q2Qc_eq_iff.
  apply Qpower_plus. discriminate.
Qed.

(** * reading digit strings *)
Notation dz := digits_value.
Lemma is_digit_digit_of a : is_digit a = true → ∃ d, digit_of a = Some d.
Proof. unfold is_digit. destruct (digit_of a); [eauto | discriminate]. Qed.
Lemma digit_not_underscore a : is_digit a = true → Ascii.eqb a "_" = false.
Proof.
  intros H. destruct (Ascii.eqb_spec a "_") as [->|]; [vm_compute in H; discriminate | reflexivity].
Qed.

(** reading [s ++ r] with [s] all digits continues on [r] *)
Lemma read_digits_app s r acc n :
  all_digits s = true →
  read_digits (s ++ r) acc n
  = read_digits r (read_digits s acc n).1.1 (read_digits s acc n).1.2.
Proof.
  revert acc n. induction s as [|a s IH]; intros acc n H; [reflexivity|].
  simpl in H. apply andb_true_iff in H as [Ha Hs].
  destruct (is_digit_digit_of a Ha) as [d Hd]. simpl. rewrite Hd. apply IH. exact Hs.
Qed.
Lemma read_digits_all s acc n :
  all_digits s = true → (read_digits s acc n).2 = "" ∧ (read_digits s acc n).1.2 = (n + Z.of_nat (String.length s))%Z
  ∧ (read_digits s acc n).1.1 = (acc * 10 ^ Z.of_nat (String.length s) + dz s)%Z.
Proof.
  unfold digits_value. revert acc n. induction s as [|a s IH]; intros acc n H.
  - simpl. repeat split; lia.
  - simpl in H. apply andb_true_iff in H as [Ha Hs].
    destruct (is_digit_digit_of a Ha) as [d Hd]. cbn [read_digits]. rewrite Hd.
    destruct (IH (acc * 10 + d)%Z (n + 1)%Z Hs) as (A & B & C).
    destruct (IH (0 * 10 + d)%Z (0 + 1)%Z Hs) as (_ & _ & C0).
    split; [exact A|]. split.
    + rewrite B. cbn [String.length]. lia.
    + rewrite C, C0. cbn [String.length]. rewrite Nat2Z.inj_succ, Z.pow_succ_r by lia. ring.
Qed.
(** a character that is neither a digit nor "_" stops the reader *)
Definition stops (r : string) : Prop :=
  match r with "" => True | String c _ => is_digit c = false ∧ Ascii.eqb c "_" = false end.
Lemma read_digits_stop r acc n : stops r → read_digits r acc n = (acc, n, r).
Proof.
  destruct r as [|c r]; [reflexivity|]. intros [Hd Hu]. simpl.
  unfold is_digit in Hd. destruct (digit_of c); [discriminate|]. rewrite Hu. reflexivity.
Qed.
Lemma read_digits_prefix s r acc n :
  all_digits s = true → stops r →
  read_digits (s ++ r) acc n
  = ((acc * 10 ^ Z.of_nat (String.length s) + dz s)%Z, (n + Z.of_nat (String.length s))%Z, r).
Proof.
  intros Hs Hr. rewrite read_digits_app by exact Hs. rewrite read_digits_stop by exact Hr.
  destruct (read_digits_all s acc n Hs) as (_ & B & C). rewrite B, C. reflexivity.
Qed.

(** * decimal literals with an optional exponent suffix *)
Inductive esuffix := XNone | XDigits (ds : string) | XSigned (neg : bool) (ds : string).
Definition esuffix_text (x : esuffix) : string :=
  match x with
  | XNone => ""
  | XDigits ds => String "e" ds
  | XSigned true ds => String "e" (String "-" ds)
  | XSigned false ds => String "e" (String "+" ds)
  end.
Definition esuffix_val (x : esuffix) : Z :=
  match x with
  | XNone => 0%Z
  | XDigits ds => dz ds
  | XSigned neg ds => if neg then (- dz ds)%Z else dz ds
  end.
Definition esuffix_ok (x : esuffix) : bool :=
  match x with XNone => true | XDigits ds | XSigned _ ds => nonempty_digits ds end.

Lemma nonempty_digits_all ds : nonempty_digits ds = true → all_digits ds = true ∧ ds ≠ "".
Proof. destruct ds; [discriminate|]. intros H. split; [exact H | discriminate]. Qed.
Lemma length_pos_nonempty s : s ≠ "" → (0 < Z.of_nat (String.length s))%Z.
Proof. destruct s; [contradiction|]. intros _. cbn [String.length]. lia. Qed.
Lemma stops_suffix x : stops (esuffix_text x).
Proof. destruct x as [|ds|[|] ds]; simpl; auto. Qed.

(** what [parse_number] does once the mantissa digits have been read: [r2] is the suffix *)
Lemma parse_tail mant nf x :
  esuffix_ok x = true →
  (let fin (e : Z) := Some (Q2Qc (inject_Z mant) * pow10 (e - nf))%Qc in
   match esuffix_text x with
   | EmptyString => fin 0%Z
   | String c r =>
       if Ascii.eqb c "e"%char || Ascii.eqb c "E"%char then
         let '(sgn, r') := match r with
                           | String "-"%char r' => ((-1)%Z, r')
                           | String "+"%char r' => (1%Z, r')
                           | _ => (1%Z, r) end in
         let '(ev, ne, r'') := read_digits r' 0%Z 0%Z in
         if (ne =? 0)%Z then None else
         match r'' with EmptyString => fin (sgn * ev)%Z | _ => None end
       else None
   end) = Some (Q2Qc (inject_Z mant) * pow10 (esuffix_val x - nf))%Qc.
Proof.
  intros Hx. destruct x as [|ds|neg ds]; [reflexivity| |].
  - (* e<digits>: the first digit is neither "-" nor "+" *)
    simpl in Hx. destruct (nonempty_digits_all ds Hx) as [Ha Hn].
    destruct (read_digits_all ds 0 0 Ha) as (A & B & C).
    destruct ds as [|d ds']; [contradiction|]. simpl in Ha. apply andb_true_iff in Ha as [Hd _].
    cbn [esuffix_text esuffix_val]. cbn beta iota. change (Ascii.eqb "e" "e") with true. cbn [orb].
    assert (Hm : Ascii.eqb d "-" = false ∧ Ascii.eqb d "+" = false).
    { split; [destruct (Ascii.eqb_spec d "-") as [->|] | destruct (Ascii.eqb_spec d "+") as [->|]];
        try reflexivity; vm_compute in Hd; discriminate. }
    destruct Hm as [Hm Hp].
    assert (Hr : match String d ds' with
                 | String "-"%char r' => ((-1)%Z, r')
                 | String "+"%char r' => (1%Z, r')
                 | _ => (1%Z, String d ds') end = (1%Z, String d ds')).
    { destruct (Ascii.eqb_spec d "-"); [discriminate|]. destruct (Ascii.eqb_spec d "+"); [discriminate|].
      destruct d as [[|] [|] [|] [|] [|] [|] [|] [|]]; try reflexivity; congruence. }
    rewrite Hr. destruct (read_digits (String d ds') 0 0) as [[ev ne] r'']. simpl in A, B, C. subst.
    unfold digits_value. 
    replace ((0 + Z.of_nat (String.length (String d ds')) =? 0)%Z) with false
      by (symmetry; apply Z.eqb_neq; cbn [String.length]; lia).
    repeat f_equal. lia.
  - simpl in Hx. destruct (nonempty_digits_all ds Hx) as [Ha Hn].
    destruct (read_digits_all ds 0 0 Ha) as (A & B & C).
    destruct neg; cbn [esuffix_text esuffix_val]; cbn beta iota; change (Ascii.eqb "e" "e") with true; cbn [orb];
      destruct (read_digits ds 0 0) as [[ev ne] r'']; simpl in A, B, C; subst; unfold dz;
      (replace ((0 + Z.of_nat (String.length ds) =? 0)%Z) with false
         by (symmetry; apply Z.eqb_neq; pose proof (length_pos_nonempty ds Hn); lia));
      repeat f_equal; lia.
Qed.

(** [parse_number] of digits[.digits] followed by an exponent suffix *)
Lemma parse_number_int ip x :
  nonempty_digits ip = true → esuffix_ok x = true →
  parse_number (ip ++ esuffix_text x) = Some (Q2Qc (inject_Z (dz ip)) * pow10 (esuffix_val x - 0))%Qc.
Proof.
  intros Hip Hx. destruct (nonempty_digits_all ip Hip) as [Ha Hn].
  unfold parse_number.
  rewrite (read_digits_prefix ip (esuffix_text x) 0 0 Ha (stops_suffix x)).
  cbn beta iota zeta.
  replace (match esuffix_text x with String "."%char _ => _ | _ => _ end)
    with ((0 * 10 ^ Z.of_nat (String.length ip) + dz ip)%Z, 0%Z, esuffix_text x)
    by (destruct x as [|ds|[|] ds]; reflexivity).
  cbn beta iota zeta.
  replace ((0 + Z.of_nat (String.length ip) + 0 =? 0)%Z) with false
    by (symmetry; apply Z.eqb_neq; pose proof (length_pos_nonempty ip Hn); lia).
  replace (0 * 10 ^ Z.of_nat (String.length ip) + dz ip)%Z with (dz ip) by lia.
  apply parse_tail. exact Hx.
Qed.
Lemma parse_number_dot ip fp x :
  all_digits ip = true → all_digits fp = true → (ip ≠ "" ∨ fp ≠ "") → esuffix_ok x = true →
  parse_number (ip ++ String "." (fp ++ esuffix_text x))
  = Some (Q2Qc (inject_Z (dz ip * 10 ^ Z.of_nat (String.length fp) + dz fp))
          * pow10 (esuffix_val x - Z.of_nat (String.length fp)))%Qc.
Proof.
  intros Hip Hfp Hne Hx. unfold parse_number.
  rewrite (read_digits_prefix ip (String "." (fp ++ esuffix_text x)) 0 0 Hip) by (split; reflexivity).
  cbn beta iota zeta.
  rewrite (read_digits_prefix fp (esuffix_text x) _ 0 Hfp (stops_suffix x)).
  cbn beta iota zeta.
  replace ((0 + Z.of_nat (String.length ip) + (0 + Z.of_nat (String.length fp)) =? 0)%Z) with false.
  2:{ symmetry. apply Z.eqb_neq. destruct Hne as [H|H]; pose proof (length_pos_nonempty _ H); lia. }
  replace ((0 * 10 ^ Z.of_nat (String.length ip) + dz ip) * 10 ^ Z.of_nat (String.length fp) + dz fp)%Z
    with (dz ip * 10 ^ Z.of_nat (String.length fp) + dz fp)%Z by ring.
  replace (0 + Z.of_nat (String.length fp))%Z with (Z.of_nat (String.length fp)) by lia.
  apply parse_tail. exact Hx.
Qed.

Lemma str_app_nil s : s ++ "" = s.
Proof.
  induction s as [|a s IH]; [reflexivity|]. change (String a (s ++ "") = String a s).
  rewrite IH. reflexivity.
Qed.

(** the value of a decimal literal with an exponent suffix is the value without it times 10^e *)
Theorem literal_with_exponent_int ip x :
  nonempty_digits ip = true → esuffix_ok x = true →
  ∃ qv, parse_number ip = Some qv
      ∧ parse_number (ip ++ esuffix_text x) = Some (qv * pow10 (esuffix_val x))%Qc.
Proof.
  intros Hip Hx. exists (Q2Qc (inject_Z (dz ip)) * pow10 (0 - 0))%Qc. split.
  - pose proof (parse_number_int ip XNone Hip eq_refl) as H. simpl in H. rewrite str_app_nil in H. exact H.
  - rewrite (parse_number_int ip x Hip Hx). f_equal.
    replace (esuffix_val x - 0)%Z with (0 - 0 + esuffix_val x)%Z by lia. rewrite pow10_add. ring.
Qed.
Theorem literal_with_exponent_dot ip fp x :
  all_digits ip = true → all_digits fp = true → (ip ≠ "" ∨ fp ≠ "") → esuffix_ok x = true →
  ∃ qv, parse_number (ip ++ String "." fp) = Some qv
      ∧ parse_number (ip ++ String "." (fp ++ esuffix_text x)) = Some (qv * pow10 (esuffix_val x))%Qc.
Proof.
  intros Hip Hfp Hne Hx.
  exists (Q2Qc (inject_Z (dz ip * 10 ^ Z.of_nat (String.length fp) + dz fp))
          * pow10 (0 - Z.of_nat (String.length fp)))%Qc. split.
  - pose proof (parse_number_dot ip fp XNone Hip Hfp Hne eq_refl) as H. simpl in H.
    rewrite str_app_nil in H. exact H.
  - rewrite (parse_number_dot ip fp x Hip Hfp Hne Hx). f_equal.
    replace (esuffix_val x - Z.of_nat (String.length fp))%Z
      with (0 - Z.of_nat (String.length fp) + esuffix_val x)%Z by lia.
    rewrite pow10_add. ring.
Qed.

Lemma str_app_assoc a b c : (a ++ b) ++ c = a ++ (b ++ c).
Proof.
  induction a as [|x a IH]; [reflexivity|].
  change (String x ((a ++ b) ++ c) = String x (a ++ (b ++ c))). rewrite IH. reflexivity.
Qed.
Definition esuffix_of (e : estyle) : esuffix :=
  match e with ENone => XNone | EDigits ds => XDigits ds | ESigned _ neg ds => XSigned neg ds end.
Lemma esuffix_of_spec e :
  e_text e = esuffix_text (esuffix_of e) ∧ e_value e = esuffix_val (esuffix_of e)
  ∧ exp_ok e = esuffix_ok (esuffix_of e).
Proof. destruct e as [|ds|cap [|] ds]; repeat split; reflexivity. Qed.

(** the texts [v ++ e] produced by the tokenizer denote v·10^e *)
Theorem token_value_dot ip fp e :
  all_digits ip = true → all_digits fp = true → (ip ≠ "" ∨ fp ≠ "") → exp_ok e = true →
  ∃ qv, parse_number (ip ++ String "." fp) = Some qv
      ∧ parse_number ((ip ++ String "." fp) ++ e_text e) = Some (qv * pow10 (e_value e))%Qc.
Proof.
  intros Hip Hfp Hne He. destruct (esuffix_of_spec e) as (T & V & O). rewrite O in He.
  destruct (literal_with_exponent_dot ip fp (esuffix_of e) Hip Hfp Hne He) as (qv & A & B).
  exists qv. split; [exact A|]. rewrite T, V, str_app_assoc. exact B.
Qed.
Theorem token_value_int ip e :
  nonempty_digits ip = true → exp_ok e = true →
  ∃ qv, parse_number ip = Some qv
      ∧ parse_number (ip ++ e_text e) = Some (qv * pow10 (e_value e))%Qc.
Proof.
  intros Hip He. destruct (esuffix_of_spec e) as (T & V & O). rewrite O in He.
  destruct (literal_with_exponent_int ip (esuffix_of e) Hip He) as (qv & A & B).
  exists qv. split; [exact A|]. rewrite T, V. exact B.
Qed.
(** the [0.]-prefixed uncertainty of the short notation: u / 10^(number of digits of u) *)
Theorem short_prefix_value u :
  nonempty_digits u = true →
  parse_number ("0." ++ u)
  = Some (Q2Qc (inject_Z (dz u)) * pow10 (0 - Z.of_nat (String.length u)))%Qc.
Proof.
  intros Hu. destruct (nonempty_digits_all u Hu) as [Ha Hn].
  pose proof (parse_number_dot "0" u XNone eq_refl Ha (or_intror Hn) eq_refl) as H.
  simpl in H. rewrite str_app_nil in H.
  change ("0." ++ u) with ("0" ++ String "." u). rewrite H.
  change (dz "0") with 0%Z. rewrite Z.mul_0_l, Z.add_0_l. reflexivity.
Qed.

(** the guard of [unc_tokens_spec] for the usual short instances: digit-only uncertainty *)
Lemma lit_text_ok_digits u : nonempty_digits u = true → lit_text_ok u = true.
Proof.
  intros Hu. destruct (literal_with_exponent_int u XNone Hu eq_refl) as (qv & A & _).
  unfold lit_text_ok, float_of_text. rewrite A. reflexivity.
Qed.
Lemma inst_ok_short_as_found v u e :
  lit_ok false v = true → nonempty_digits u = true → exp_ok e = true →
  inst_ok as_found (NInst v (TyNumber, u) e SShort) = true.
Proof.
  intros Hv Hu He. unfold inst_ok. cbn [n_e n_style n_v n_u]. rewrite He, Hv. cbn [andb].
  unfold lit_ok. cbn [fst snd]. rewrite (lit_text_ok_digits u Hu). cbn [andb].
  unfold short_unc_text. cbn [q_short_prefix as_found].
  destruct (nonempty_digits_all u Hu) as [Ha _].
  rewrite (str_has_digits "." u Ha eq_refl).
  unfold lit_text_ok, float_of_text. rewrite (short_prefix_value u Hu). reflexivity.
Qed.
