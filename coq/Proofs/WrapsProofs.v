(** Proofs/WrapsProofs.v — lemmas about Model/Wraps.v (C17). *)
From PintV Require Import Model.UC Proofs.UCProofs Model.Wraps.
From Coq Require Import Lia.

(** * res *)
Lemma rbind_ok {A B} (x : res A) (f : A → res B) r :
  rbind x f = Ok r ↔ ∃ a, x = Ok a ∧ f a = Ok r.
Proof. destruct x; simpl; split; [eauto | intros (?&[= ->]&?); done | discriminate | intros (?&?&?); discriminate]. Qed.
Lemma rbind_err {A B} (x : res A) (f : A → res B) e :
  rbind x f = Err e ↔ x = Err e ∨ ∃ a, x = Ok a ∧ f a = Err e.
Proof.
  destruct x; simpl; split.
  - eauto.
  - intros [?|(?&[= ->]&?)]; done.
  - intros [= ->]; auto.
  - intros [[= ->]|(?&?&?)]; done.
Qed.
Lemma rbind_assoc {A B C} (x : res A) (f : A → res B) (g : B → res C) :
  rbind (rbind x f) g = rbind x (λ a, rbind (f a) g).
Proof. destruct x; reflexivity. Qed.

Lemma rmapM_length {A B} (f : A → res B) l r : rmapM f l = Ok r → List.length r = List.length l.
Proof.
  revert r. induction l as [|x l IH]; simpl; intros r.
  - intros [= <-]. reflexivity.
  - destruct (f x); simpl; [|discriminate]. destruct (rmapM f l); simpl; [|discriminate].
    intros [= <-]. simpl. f_equal. apply IH. reflexivity.
Qed.
Lemma rmapM_ext_ok {A B} (f g : A → res B) l r :
  rmapM f l = Ok r → (∀ x y, x ∈ l → f x = Ok y → g x = Ok y) → rmapM g l = Ok r.
Proof.
  revert r. induction l as [|x l IH]; simpl; intros r.
  - intros [= <-] _. reflexivity.
  - destruct (f x) as [y|] eqn:Ef; simpl; [|discriminate].
    destruct (rmapM f l) as [r'|] eqn:Er; simpl; [|discriminate].
    intros [= <-] H. assert (g x = Ok y) as -> by (apply H; [left|]; done). simpl.
    assert (rmapM g l = Ok r') as -> by (apply IH; [done|]; intros; apply H; [right|]; done). reflexivity.
Qed.
Lemma rmapM_ok_lookup {A B} (f : A → res B) l r i x :
  rmapM f l = Ok r → l !! i = Some x → ∃ y, f x = Ok y ∧ r !! i = Some y.
Proof.
  revert r i. induction l as [|a l IH]; simpl; intros r i; [discriminate 2|].
  destruct (f a) as [y|] eqn:Ef; simpl; [|discriminate].
  destruct (rmapM f l) as [r'|] eqn:Er; simpl; [|discriminate].
  intros [= <-]. destruct i as [|i]; simpl.
  - intros [= <-]. eauto.
  - intros Hl. apply (IH r' i); done.
Qed.

(** * zipM *)
Lemma zipM_length f cl vals r : zipM f cl vals = Ok r → List.length r = List.length vals.
Proof.
  revert vals r. induction cl as [|c cl IH]; intros [|v vals] r; simpl; try (intros [= <-]; reflexivity).
  destruct (f c v); simpl; [|discriminate].
  destruct (zipM f cl vals) eqn:E; simpl; [|discriminate].
  intros [= <-]. simpl. f_equal. eapply IH. exact E.
Qed.
Lemma zipM_ok_lookup f cl vals r i c v :
  zipM f cl vals = Ok r → cl !! i = Some c → vals !! i = Some v →
  ∃ o, f c v = Ok o ∧ r !! i = Some o.
Proof.
  revert vals r i. induction cl as [|c0 cl IH]; intros vals r i Hz Hc Hv.
  - rewrite lookup_nil in Hc. discriminate.
  - destruct vals as [|v0 vals]; [rewrite lookup_nil in Hv; discriminate|].
    simpl in Hz. destruct (f c0 v0) as [x|] eqn:Ef; simpl in Hz; [|discriminate].
    destruct (zipM f cl vals) as [r'|] eqn:E; simpl in Hz; [|discriminate].
    injection Hz as <-. destruct i as [|i]; simpl in *.
    + injection Hc as <-. injection Hv as <-. eauto.
    + eapply IH; eauto.
Qed.
Lemma zipM_err_lookup f cl vals e :
  zipM f cl vals = Err e → ∃ i c v, cl !! i = Some c ∧ vals !! i = Some v ∧ f c v = Err e.
Proof.
  revert vals. induction cl as [|c0 cl IH]; intros vals Hz.
  - destruct vals; discriminate.
  - destruct vals as [|v0 vals]; [discriminate|]. simpl in Hz.
    destruct (f c0 v0) as [x|] eqn:Ef; simpl in Hz.
    + destruct (zipM f cl vals) as [r'|] eqn:E; simpl in Hz; [discriminate|].
      injection Hz as <-. destruct (IH _ E) as (i&c&v&?&?&?). exists (S i), c, v. done.
    + injection Hz as <-. exists 0%nat, c0, v0. done.
Qed.
(** all positions succeed => the pass succeeds *)
Lemma zipM_ok_intro f cl vals :
  (∀ i c v, cl !! i = Some c → vals !! i = Some v → ∃ o, f c v = Ok o) →
  ∃ r, zipM f cl vals = Ok r.
Proof.
  intros H. destruct (zipM f cl vals) as [r|e] eqn:E; [eauto|].
  destruct (zipM_err_lookup _ _ _ _ E) as (i&c&v&Hc&Hv&He).
  destruct (H i c v Hc Hv) as [o Ho]. congruence.
Qed.

Definition comp2 (f : cls → value → res value) (g : cls → value → res value) c v :=
  rbind (f c v) (g c).

(** two successive passes succeed exactly when the fused pass does, with the same result *)
Lemma zipM_compose_ok f g cl vals r :
  rbind (zipM f cl vals) (zipM g cl) = Ok r ↔ zipM (comp2 f g) cl vals = Ok r.
Proof.
  revert vals r. induction cl as [|c cl IH]; intros vals r.
  - destruct vals; simpl; reflexivity.
  - destruct vals as [|v vals]; [simpl; reflexivity|]. simpl. unfold comp2 at 1.
    destruct (f c v) as [x|] eqn:Ef; simpl; [|split; discriminate].
    specialize (IH vals).
    destruct (zipM f cl vals) as [r1|] eqn:E1; simpl in *.
    + destruct (g c x) as [y|]; simpl; [|split; discriminate].
      rewrite !rbind_ok. split; intros (a & Ha & Hb); exists a; (split; [apply IH; exact Ha|exact Hb]).
    + destruct (g c x) as [y|]; simpl; [|split; discriminate].
      split; [discriminate|]. rewrite rbind_ok. intros (a & Ha & _). apply IH in Ha. discriminate.
Qed.
(** an error of two successive passes is the error of the fused step at some position *)
Lemma zipM_compose_err f g cl vals e :
  rbind (zipM f cl vals) (zipM g cl) = Err e →
  ∃ i c v, cl !! i = Some c ∧ vals !! i = Some v ∧ comp2 f g c v = Err e.
Proof.
  revert vals. induction cl as [|c cl IH]; intros vals H.
  - destruct vals; simpl in H; discriminate.
  - destruct vals as [|v vals]; [simpl in H; discriminate|]. simpl in H.
    destruct (f c v) as [x|] eqn:Ef; simpl in H.
    + specialize (IH vals).
      destruct (zipM f cl vals) as [r1|] eqn:E1; simpl in *.
      * destruct (g c x) as [y|] eqn:Eg; simpl in H.
        -- destruct (zipM g cl r1) as [r2|] eqn:E2; simpl in H; [discriminate|].
           injection H as <-. destruct (IH eq_refl) as (i&c'&v'&?&?&?). exists (S i), c', v'. done.
        -- injection H as <-. exists 0%nat, c, v. unfold comp2. rewrite Ef. simpl. done.
      * injection H as <-. destruct (IH eq_refl) as (i&c'&v'&?&?&?). exists (S i), c', v'. done.
    + injection H as <-. exists 0%nat, c, v. unfold comp2. rewrite Ef. done.
Qed.

(** * The three passes are the per-parameter specification *)
Lemma param_spec_steps U Q strict vbn c v :
  param_spec U Q strict vbn c v
  = comp2 (comp2 step1 (step2 U Q vbn)) (step3 U Q strict) c v.
Proof.
  unfold comp2. destruct c; simpl; try reflexivity.
  destruct (replace_units Q vbn e); simpl; [|reflexivity].
  destruct (us_conv U (v_units v) a (v_mag v)); reflexivity.
Qed.
Lemma zipM_ext f g cl vals : (∀ c v, f c v = g c v) → zipM f cl vals = zipM g cl vals.
Proof.
  intros H. revert vals. induction cl as [|c cl IH]; intros [|v vals]; simpl; try reflexivity.
  rewrite H, IH. reflexivity.
Qed.

Definition spec_pass U Q strict cl vals : res (list value) :=
  zipM (param_spec U Q strict (named_values cl vals)) cl vals.

Lemma passes_unfold U Q strict cl vals :
  passes U Q strict cl vals
  = rbind (rbind (zipM step1 cl vals) (zipM (step2 U Q (named_values cl vals)) cl))
          (zipM (step3 U Q strict) cl).
Proof. unfold passes. destruct (zipM step1 cl vals); reflexivity. Qed.
Lemma passes_ok U Q strict cl vals r :
  passes U Q strict cl vals = Ok r ↔ spec_pass U Q strict cl vals = Ok r.
Proof.
  rewrite passes_unfold. unfold spec_pass. set (vbn := named_values cl vals).
  rewrite (zipM_ext _ _ _ _ (param_spec_steps U Q strict vbn)).
  rewrite <- zipM_compose_ok. rewrite !rbind_ok.
  split; intros (a & Ha & Hb); exists a; split; try done; apply zipM_compose_ok; done.
Qed.
Lemma passes_err U Q strict cl vals e :
  passes U Q strict cl vals = Err e →
  ∃ i c v, cl !! i = Some c ∧ vals !! i = Some v
           ∧ param_spec U Q strict (named_values cl vals) c v = Err e.
Proof.
  rewrite passes_unfold. set (vbn := named_values cl vals).
  intros H. apply rbind_err in H as [H|(v2 & H1 & H2)].
  - apply zipM_compose_err in H as (i&c&v&?&?&H). exists i, c, v. split; [done|]. split; [done|].
    rewrite param_spec_steps. unfold comp2 at 1. fold (comp2 step1 (step2 U Q vbn) c v). rewrite H. done.
  - apply zipM_compose_ok in H1.
    assert (H : rbind (zipM (comp2 step1 (step2 U Q vbn)) cl vals) (zipM (step3 U Q strict) cl) = Err e)
      by (rewrite H1; exact H2).
    apply zipM_compose_err in H as (i&c&v&?&?&H). exists i, c, v. rewrite param_spec_steps. done.
Qed.
Lemma passes_length U Q strict cl vals r :
  passes U Q strict cl vals = Ok r → List.length r = List.length vals.
Proof. intros H. apply passes_ok in H. eapply zipM_length. exact H. Qed.

(** * Signatures, defaults, binding *)
Lemma sublist_NoDup {A} (l k : list A) : l `sublist_of` k → NoDup k → NoDup l.
Proof.
  induction 1 as [|x l k Hs IH|x l k Hs IH]; intros ND.
  - constructor.
  - apply NoDup_cons in ND as [Hx ND]. apply NoDup_cons. split; [|auto].
    intros Hin. apply Hx. eapply elem_of_submseteq; [exact Hin|]. apply sublist_submseteq. exact Hs.
  - apply NoDup_cons in ND as [_ ND]. auto.
Qed.
Lemma names_inj l p p' :
  NoDup (names l) → p ∈ l → p' ∈ l → p_name p = p_name p' → p = p'.
Proof.
  induction l as [|a l IH]; simpl; intros ND Hp Hp' E; [inversion Hp|].
  apply NoDup_cons in ND as [Ha ND].
  apply elem_of_cons in Hp as [->|Hp]; apply elem_of_cons in Hp' as [->|Hp']; try done.
  - exfalso. apply Ha. rewrite E. apply elem_of_list_fmap. eauto.
  - exfalso. apply Ha. rewrite <- E. apply elem_of_list_fmap. eauto.
  - auto.
Qed.
Lemma names_drop k ps : names (drop k ps) = drop k (names ps).
Proof. unfold names. apply fmap_drop. Qed.
Lemma NoDup_names_drop k ps : NoDup (names ps) → NoDup (names (drop k ps)).
Proof. intros H. rewrite names_drop. eapply sublist_NoDup; [apply sublist_drop|exact H]. Qed.

Definition dmap (l : list param) : gmap string value := list_to_map (omap default_entry l).
Lemma default_entry_Some p k d :
  default_entry p = Some (k, d) ↔ k = p_name p ∧ p_default p = Some d.
Proof. unfold default_entry. destruct (p_default p); naive_solver. Qed.
Lemma dmap_keys l k v : dmap l !! k = Some v → k ∈ names l.
Proof.
  intros H. apply elem_of_list_to_map_2 in H. apply elem_of_list_omap in H as (p & Hp & E).
  apply default_entry_Some in E as [-> _]. apply elem_of_list_fmap. eauto.
Qed.
Lemma dmap_fst_sublist l : (omap default_entry l).*1 `sublist_of` names l.
Proof.
  induction l as [|p l IH]; simpl; [constructor|].
  unfold default_entry at 1. destruct (p_default p); simpl; [apply sublist_skip | apply sublist_cons]; exact IH.
Qed.
Lemma dmap_lookup l p : NoDup (names l) → p ∈ l → dmap l !! p_name p = p_default p.
Proof.
  intros ND Hp. unfold dmap. destruct (p_default p) as [d|] eqn:E.
  - apply elem_of_list_to_map_1.
    + eapply sublist_NoDup; [apply dmap_fst_sublist|exact ND].
    + apply elem_of_list_omap. exists p. split; [done|]. apply default_entry_Some. done.
  - apply not_elem_of_list_to_map_1. intros H. apply elem_of_list_fmap in H as ([k d] & Hk & H).
    simpl in Hk. subst k. apply elem_of_list_omap in H as (p' & Hp' & E').
    apply default_entry_Some in E' as [En Ed].
    assert (p = p') by (eapply names_inj; eauto). subst p'. congruence.
Qed.

Lemma kw_allowed_spec l (m : gmap string value) :
  kw_allowed l m ↔ ∀ k v, m !! k = Some v → k ∈ names l.
Proof. unfold kw_allowed, map_Forall. reflexivity. Qed.

Lemma apply_defaults_lookup ps k kw p :
  NoDup (names ps) → p ∈ drop k ps →
  apply_defaults ps k kw !! p_name p
  = match kw !! p_name p with Some v => Some v | None => p_default p end.
Proof.
  intros ND Hp. unfold apply_defaults. fold (dmap (drop k ps)).
  rewrite lookup_union, (dmap_lookup _ _ (NoDup_names_drop k _ ND) Hp).
  destruct (kw !! p_name p), (p_default p); reflexivity.
Qed.
Lemma apply_defaults_allowed ps k kw :
  kw_allowed (drop k ps) kw → kw_allowed (drop k ps) (apply_defaults ps k kw).
Proof.
  rewrite !kw_allowed_spec. intros H x v. unfold apply_defaults. fold (dmap (drop k ps)).
  rewrite lookup_union_Some_raw. intros [Hx|[_ Hx]]; [eauto | eapply dmap_keys; eauto].
Qed.

Lemma bind_inv ps pos kw vs :
  bind ps pos kw = Ok vs →
  (List.length pos ≤ List.length ps)%nat ∧ kw_allowed (drop (List.length pos) ps) kw
  ∧ ∃ rest, rmapM (bind_rest kw) (drop (List.length pos) ps) = Ok rest ∧ vs = pos ++ rest.
Proof.
  unfold bind. destruct (Nat.leb (List.length pos) (List.length ps)) eqn:E; simpl; [|discriminate].
  destruct (bool_decide (kw_allowed (drop (List.length pos) ps) kw)) eqn:E2; simpl; [|discriminate].
  intros H. apply rbind_ok in H as (rest & Hr & H). injection H as <-.
  apply Nat.leb_le in E. apply bool_decide_eq_true in E2. eauto.
Qed.
Lemma bind_length ps pos kw vs : bind ps pos kw = Ok vs → List.length vs = List.length ps.
Proof.
  intros H. apply bind_inv in H as (Hle & _ & rest & Hr & ->).
  apply rmapM_length in Hr. rewrite app_length, Hr, drop_length. lia.
Qed.
Lemma bind_intro ps pos kw rest :
  (List.length pos ≤ List.length ps)%nat → kw_allowed (drop (List.length pos) ps) kw →
  rmapM (bind_rest kw) (drop (List.length pos) ps) = Ok rest → bind ps pos kw = Ok (pos ++ rest).
Proof.
  intros Hle Hal Hr. unfold bind. apply Nat.leb_le in Hle. rewrite Hle. simpl.
  rewrite bool_decide_eq_true_2 by exact Hal. simpl. rewrite Hr. reflexivity.
Qed.
(** every argument given positionally is a valid binding *)
Lemma bind_all_positional ps vs : List.length vs = List.length ps → bind ps vs ∅ = Ok vs.
Proof.
  intros H. rewrite <- (app_nil_r vs) at 2. apply bind_intro.
  - lia.
  - apply kw_allowed_spec. intros k v. rewrite lookup_empty. discriminate.
  - rewrite H, drop_all. reflexivity.
Qed.

Lemma pack_of_bind ps pos kw vs :
  NoDup (names ps) → bind ps pos kw = Ok vs →
  pack ps pos (apply_defaults ps (List.length pos) kw) = Ok vs.
Proof.
  intros ND H. apply bind_inv in H as (Hle & Hal & rest & Hr & ->). unfold pack.
  rewrite (rmapM_ext_ok _ (kw_get (apply_defaults ps (List.length pos) kw)) _ _ Hr); [reflexivity|].
  intros p y Hp Hy. unfold kw_get. rewrite (apply_defaults_lookup _ _ _ _ ND Hp).
  unfold bind_rest in Hy. destruct (kw !! p_name p); [exact Hy|]. destruct (p_default p); [exact Hy|discriminate].
Qed.
Lemma bind_apply_defaults ps pos kw vs :
  NoDup (names ps) → bind ps pos kw = Ok vs →
  bind ps pos (apply_defaults ps (List.length pos) kw) = Ok vs.
Proof.
  intros ND H. apply bind_inv in H as (Hle & Hal & rest & Hr & ->). apply bind_intro; [exact Hle| |].
  - apply apply_defaults_allowed. exact Hal.
  - apply (rmapM_ext_ok _ _ _ _ Hr). intros p y Hp Hy. unfold bind_rest in *.
    rewrite (apply_defaults_lookup _ _ _ _ ND Hp).
    destruct (kw !! p_name p); [exact Hy|]. destruct (p_default p); [exact Hy|discriminate].
Qed.

Lemma rmapM_lookup_intro {A B} (f : A → res B) l r :
  List.length l = List.length r →
  (∀ i x y, l !! i = Some x → r !! i = Some y → f x = Ok y) → rmapM f l = Ok r.
Proof.
  revert r. induction l as [|a l IH]; intros [|b r] Hlen H; simpl in *; try discriminate; [reflexivity|].
  rewrite (H 0%nat a b) by reflexivity. simpl.
  rewrite (IH r); [reflexivity|lia|]. intros i x y Hx Hy. apply (H (S i)); assumption.
Qed.

(** after "unpack kwargs" the call func( *new_values, **new_kw) binds every parameter to its
    converted value *)
Lemma bind_unpack ps k r kw0 :
  NoDup (names ps) → List.length r = List.length ps → (k ≤ List.length ps)%nat →
  kw_allowed (drop k ps) kw0 →
  bind ps (take k r) (unpack (drop k ps) (drop k r) kw0) = Ok r.
Proof.
  intros ND Hlen Hk Hal.
  assert (Htk : List.length (take k r) = k) by (rewrite take_length; lia).
  rewrite <- (take_drop k r) at 3. apply bind_intro; rewrite Htk.
  - exact Hk.
  - apply kw_allowed_spec. intros x v. unfold unpack. rewrite lookup_union_Some_raw.
    intros [Hx|[_ Hx]].
    + apply elem_of_list_to_map_2 in Hx. apply elem_of_zip_l in Hx. exact Hx.
    + apply kw_allowed_spec in Hal. eauto.
  - apply rmapM_lookup_intro.
    + rewrite !drop_length. lia.
    + intros i p y Hp Hy. unfold bind_rest, unpack.
      assert ((list_to_map (zip (names (drop k ps)) (drop k r)) : gmap string value) !! p_name p = Some y) as E.
      { apply elem_of_list_to_map_1.
        - rewrite fst_zip; [apply NoDup_names_drop; exact ND|].
          unfold names. rewrite fmap_length, !drop_length. lia.
        - apply elem_of_list_lookup. exists i. rewrite lookup_zip_with.
          unfold names. rewrite list_lookup_fmap, Hp, Hy. reflexivity. }
      rewrite (lookup_union_l' _ _ _ (mk_is_Some _ _ E)), E. reflexivity.
Qed.

(** * Main bookkeeping theorem: for a valid binding the wrapped function observes exactly
    the three passes applied to the bound values, however they were delivered *)
Lemma wraps_observed_valid U Q strict cl ps pos kw vs :
  NoDup (names ps) → List.length cl = List.length ps → bind ps pos kw = Ok vs →
  wraps_observed U Q strict cl ps pos kw = passes U Q strict cl vs.
Proof.
  intros ND Hcl Hb. unfold wraps_observed, converter.
  rewrite (pack_of_bind _ _ _ _ ND Hb). simpl.
  destruct (passes U Q strict cl vs) as [r|e] eqn:Ep; simpl; [|reflexivity].
  pose proof (bind_inv _ _ _ _ Hb) as (Hle & Hal & _).
  apply bind_unpack; [exact ND| |exact Hle|apply apply_defaults_allowed; exact Hal].
  rewrite (passes_length _ _ _ _ _ _ Ep). eapply bind_length. exact Hb.
Qed.

(** ** C17 statements over calls *)
(** the function observes, parameter by parameter, the declared magnitude *)
Lemma wraps_passes_declared U Q strict cl ps pos kw vs :
  NoDup (names ps) → List.length cl = List.length ps → bind ps pos kw = Ok vs →
  (∀ obs, wraps_observed U Q strict cl ps pos kw = Ok obs
          ↔ spec_pass U Q strict cl vs = Ok obs)
  ∧ (∀ e, wraps_observed U Q strict cl ps pos kw = Err e →
          ∃ i c v, cl !! i = Some c ∧ vs !! i = Some v
                   ∧ param_spec U Q strict (named_values cl vs) c v = Err e).
Proof.
  intros ND Hcl Hb. rewrite (wraps_observed_valid _ _ _ _ _ _ _ _ ND Hcl Hb). split.
  - intros obs. apply passes_ok.
  - intros e. apply passes_err.
Qed.
(** pointwise reading of [spec_pass] *)
Lemma spec_pass_pointwise U Q strict cl vs obs i c v :
  spec_pass U Q strict cl vs = Ok obs → cl !! i = Some c → vs !! i = Some v →
  ∃ o, obs !! i = Some o ∧ param_spec U Q strict (named_values cl vs) c v = Ok o.
Proof.
  intros H Hc Hv. destruct (zipM_ok_lookup _ _ _ _ _ _ _ H Hc Hv) as (o & ? & ?). eauto.
Qed.

Lemma binding_independent U Q strict cl ps pos kw pos' kw' vs :
  NoDup (names ps) → List.length cl = List.length ps →
  bind ps pos kw = Ok vs → bind ps pos' kw' = Ok vs →
  wraps_observed U Q strict cl ps pos kw = wraps_observed U Q strict cl ps pos' kw'.
Proof.
  intros ND Hcl H1 H2.
  rewrite (wraps_observed_valid _ _ _ _ _ _ _ _ ND Hcl H1), (wraps_observed_valid _ _ _ _ _ _ _ _ ND Hcl H2).
  reflexivity.
Qed.

(** ** errors *)
Lemma param_spec_incompatible U Q strict vbn u s m su da db :
  us_sound U → us_dim U su = Ok da → us_dim U u = Ok db → da ≠ db →
  param_spec U Q strict vbn (CUnit u s) (VQty m su) = Err EDim.
Proof.
  intros HU Ha Hb Hne. simpl. destruct (HU su u m da db Ha Hb) as [H _]. rewrite (H Hne). reflexivity.
Qed.
Lemma param_spec_compatible U Q strict vbn u s m su d :
  us_sound U → us_dim U su = Ok d → us_dim U u = Ok d →
  ∃ r, us_conv U su u m = Ok r ∧ param_spec U Q strict vbn (CUnit u s) (VQty m su) = Ok (delivered Q s r).
Proof.
  intros HU Ha Hb. destruct (HU su u m d d Ha Hb) as [_ H]. destruct (H eq_refl) as [r Hr].
  exists r. simpl. rewrite Hr. done.
Qed.
Lemma param_spec_strict_number U Q vbn u s m :
  param_spec U Q true vbn (CUnit u s) (VNum m) = Err EValue.
Proof. reflexivity. Qed.
Lemma param_spec_nonstrict_number U Q vbn u s m :
  param_spec U Q false vbn (CUnit u s) (VNum m) = Ok (VNum m).
Proof. reflexivity. Qed.
Lemma param_spec_none U Q strict vbn v : param_spec U Q strict vbn CNone v = Ok v.
Proof. reflexivity. Qed.
Lemma param_spec_def U Q strict vbn k v : param_spec U Q strict vbn (CDef k) v = Ok (strip v).
Proof. reflexivity. Qed.

(** a failing parameter makes the call fail; if it is the only one, with its error *)
Lemma wraps_call_error U Q strict cl ps pos kw vs i c v e :
  NoDup (names ps) → List.length cl = List.length ps → bind ps pos kw = Ok vs →
  cl !! i = Some c → vs !! i = Some v →
  param_spec U Q strict (named_values cl vs) c v = Err e →
  (∃ e', wraps_observed U Q strict cl ps pos kw = Err e')
  ∧ ((∀ j c' v', j ≠ i → cl !! j = Some c' → vs !! j = Some v' →
        ∃ o, param_spec U Q strict (named_values cl vs) c' v' = Ok o) →
     wraps_observed U Q strict cl ps pos kw = Err e).
Proof.
  intros ND Hcl Hb Hc Hv He.
  rewrite (wraps_observed_valid _ _ _ _ _ _ _ _ ND Hcl Hb).
  destruct (passes U Q strict cl vs) as [r|e'] eqn:Ep.
  - exfalso. apply passes_ok in Ep.
    destruct (spec_pass_pointwise _ _ _ _ _ _ _ _ _ Ep Hc Hv) as (o & _ & Ho). congruence.
  - split; [eauto|]. intros Hothers.
    destruct (passes_err _ _ _ _ _ _ Ep) as (j & c' & v' & Hc' & Hv' & He').
    destruct (decide (j = i)) as [->|Hne].
    + congruence.
    + destruct (Hothers j c' v' Hne Hc' Hv') as [o Ho]. congruence.
Qed.
(** all parameters fine => the function is called *)
Lemma wraps_call_succeeds U Q strict cl ps pos kw vs :
  NoDup (names ps) → List.length cl = List.length ps → bind ps pos kw = Ok vs →
  (∀ i c v, cl !! i = Some c → vs !! i = Some v →
     ∃ o, param_spec U Q strict (named_values cl vs) c v = Ok o) →
  ∃ obs, wraps_observed U Q strict cl ps pos kw = Ok obs.
Proof.
  intros ND Hcl Hb H. destruct (zipM_ok_intro _ _ _ H) as [r Hr].
  exists r. apply (proj1 (wraps_passes_declared _ _ _ _ _ _ _ _ ND Hcl Hb)). exact Hr.
Qed.

(** ** the call as a whole *)
Lemma wraps_call_valid U Q strict cl ret ps f pos kw vs :
  NoDup (names ps) → List.length cl = List.length ps → bind ps pos kw = Ok vs →
  wraps_call U Q strict cl ret ps f pos kw
  = rbind (passes U Q strict cl vs) (λ obs, rewrap U Q (named_values cl vs) ret (f obs)).
Proof.
  intros ND Hcl Hb. unfold wraps_call, converter.
  rewrite (pack_of_bind _ _ _ _ ND Hb). simpl.
  destruct (passes U Q strict cl vs) as [r|e] eqn:Ep; simpl; [|reflexivity].
  pose proof (bind_inv _ _ _ _ Hb) as (Hle & Hal & _).
  rewrite bind_unpack; [reflexivity|exact ND| |exact Hle|apply apply_defaults_allowed; exact Hal].
  rewrite (passes_length _ _ _ _ _ _ Ep). eapply bind_length. exact Hb.
Qed.

(** ** return value *)
Definition wrap_elem U Q vbn (s : spec) (v : value) : res oval :=
  rbind (ret_unit Q vbn s) (λ ou,
    match ou with
    | None => Ok (OVal v)
    | Some t => rbind (wrap_one U t v) (λ x, Ok (OVal x))
    end).
Lemma wrap_tuple_elementwise U Q vbn rs vs :
  List.length rs = List.length vs →
  wrap_tuple U Q vbn rs vs = rmapM (λ sv, wrap_elem U Q vbn sv.1 sv.2) (zip rs vs).
Proof.
  revert vs. induction rs as [|s rs IH]; intros [|v vs] Hlen; simpl in *; try discriminate; [reflexivity|].
  unfold wrap_elem at 1. destruct (ret_unit Q vbn s) as [[t|]|]; simpl; try reflexivity.
  - destruct (wrap_one U t v); simpl; [|reflexivity]. rewrite IH by lia. reflexivity.
  - rewrite IH by lia. reflexivity.
Qed.
Lemma rewrap_none U Q vbn r : rewrap U Q vbn (RScalar SNone) r = Ok (WRaw r).
Proof. reflexivity. Qed.
Lemma rewrap_unit U Q vbn u s m :
  rewrap U Q vbn (RScalar (SUnit u s)) (FScalar (VNum m)) = Ok (WQty (VQty m u)).
Proof. reflexivity. Qed.
Lemma rewrap_ref U Q vbn e t m :
  replace_units Q vbn e = Ok t →
  rewrap U Q vbn (RScalar (SRef e)) (FScalar (VNum m)) = Ok (WQty (VQty m t)).
Proof. intros H. simpl. rewrite H. reflexivity. Qed.
Lemma rewrap_tuple U Q vbn rs vs :
  List.length rs = List.length vs →
  rewrap U Q vbn (RTuple rs) (FTuple vs)
  = rbind (rmapM (λ sv, wrap_elem U Q vbn sv.1 sv.2) (zip rs vs)) (λ l, Ok (WTuple l)).
Proof. intros H. simpl. rewrite wrap_tuple_elementwise by exact H. reflexivity. Qed.

(** ** the units a reference denotes: the exponent-weighted product of the definitions' units *)
Definition ref_exp (vbn : gmap string value) (l : list (string * Qc)) (k : string) : Qc :=
  foldr (λ kv s, (exp_of (v_units (default (VNum 0) (vbn !! kv.1))) k * kv.2 + s)%Qc) 0%Qc l.
Lemma replace_fold_err Q vbn e l : foldl (replace_step Q vbn) (Err e) l = Err e.
Proof. induction l as [|kv l IH]; simpl; [reflexivity|exact IH]. Qed.
Lemma replace_step_repaired vbn acc n x r :
  replace_step repaired vbn (Ok acc) (n, x) = Ok r →
  ∃ v, vbn !! n = Some v ∧ r = uc_mul acc (uc_pow (v_units v) x).
Proof.
  unfold replace_step. simpl. destruct (vbn !! n) as [v|]; [|discriminate].
  intros [= <-]. eauto.
Qed.
Lemma replace_fold_exp vbn l acc t k :
  foldl (replace_step repaired vbn) (Ok acc) l = Ok t →
  exp_of t k = (exp_of acc k + ref_exp vbn l k)%Qc.
Proof.
  revert acc. induction l as [|[n x] l IH]; intros acc H.
  - simpl in H. injection H as <-. simpl. ring.
  - change (foldl (replace_step repaired vbn) (replace_step repaired vbn (Ok acc) (n, x)) l = Ok t) in H.
    destruct (replace_step repaired vbn (Ok acc) (n, x)) as [acc'|e] eqn:Es.
    + apply replace_step_repaired in Es as (v & Hv & ->).
      rewrite (IH _ H), exp_of_mul, exp_of_pow. simpl. rewrite Hv. simpl. ring.
    + rewrite replace_fold_err in H. discriminate.
Qed.
Lemma replace_units_exp vbn e t k :
  replace_units repaired vbn e = Ok t → exp_of t k = ref_exp vbn (map_to_list e) k.
Proof.
  unfold replace_units. intros H. rewrite (replace_fold_exp _ _ _ _ k H).
  unfold exp_of at 1. rewrite lookup_empty. simpl. ring.
Qed.
Lemma replace_fold_defined Q vbn l acc :
  (∀ kv, kv ∈ l → ∃ v, vbn !! kv.1 = Some v ∧ (q_replace_mag Q && qz (v_mag v) && qneg kv.2 = false)) →
  ∃ t, foldl (replace_step Q vbn) (Ok acc) l = Ok t.
Proof.
  revert acc. induction l as [|kv l IH]; intros acc H; [simpl; eauto|].
  change (∃ t, foldl (replace_step Q vbn) (replace_step Q vbn (Ok acc) kv) l = Ok t).
  destruct (H kv) as (v & Hv & Hz); [left|].
  assert (replace_step Q vbn (Ok acc) kv = Ok (uc_mul acc (uc_pow (v_units v) kv.2))) as ->
    by (unfold replace_step; simpl; rewrite Hv, Hz; reflexivity).
  apply IH. intros kv' Hin. apply H. right. exact Hin.
Qed.
(** with every referenced name defined (and, under the defect switch, no zero magnitude
    under a negative exponent) the reference denotes a unit *)
Lemma replace_units_defined Q vbn e :
  (∀ k x, e !! k = Some x → ∃ v, vbn !! k = Some v ∧ (q_replace_mag Q && qz (v_mag v) && qneg x = false)) →
  ∃ t, replace_units Q vbn e = Ok t.
Proof.
  intros H. apply replace_fold_defined. intros [k x] Hin. apply elem_of_map_to_list in Hin. apply H. exact Hin.
Qed.
Lemma replace_units_single Q vbn k x v :
  vbn !! k = Some v → q_replace_mag Q && qz (v_mag v) && qneg x = false →
  replace_units Q vbn {[ k := x ]} = Ok (uc_pow (v_units v) x).
Proof.
  intros Hv Hz. unfold replace_units. rewrite map_to_list_singleton. simpl.
  unfold replace_step. simpl. rewrite Hv, Hz. f_equal. apply uc_mul_empty_l. apply wf_pow.
Qed.

(** ** arity *)
Lemma wraps_arity specs ps :
  List.length specs ≠ List.length ps → wraps_decorate specs ps = Err EType.
Proof. intros H. unfold wraps_decorate. destruct (decide _); [contradiction|reflexivity]. Qed.
Lemma classify_length defs l : List.length (classify defs l) = List.length l.
Proof.
  revert defs. induction l as [|s l IH]; intros defs; simpl; [reflexivity|].
  destruct s as [|u b|e]; simpl; try (f_equal; apply IH).
  destruct (single_one e) as [k|]; [destruct (decide (k ∈ defs))|]; simpl; f_equal; apply IH.
Qed.
Lemma wraps_decorate_ok specs ps cl :
  wraps_decorate specs ps = Ok cl → cl = parse_wrap_args specs ∧ List.length cl = List.length ps.
Proof.
  unfold wraps_decorate. destruct (decide _) as [E|]; [|discriminate]. intros [= <-].
  split; [reflexivity|]. unfold parse_wrap_args. rewrite classify_length. exact E.
Qed.
Lemma check_arity U dspecs ps ds :
  rmapM (λ d, match d with None => Ok None | Some u => rbind (us_dim U u) (λ x, Ok (Some x)) end) dspecs = Ok ds →
  List.length dspecs ≠ List.length ps → check_decorate U dspecs ps = Err EType.
Proof.
  intros H Hne. unfold check_decorate. rewrite H. simpl.
  apply rmapM_length in H. destruct (decide _); [congruence|reflexivity].
Qed.

(** * check *)
Definition dim_mismatch U (ds : list (option uc)) (vs : list value) : Prop :=
  ∃ i d v dv, ds !! i = Some (Some d) ∧ vs !! i = Some v ∧ value_dim U v = Ok dv ∧ dv ≠ d.
Lemma check_all_spec U ds vs :
  (∀ v, v ∈ vs → ∃ d, value_dim U v = Ok d) →
  (check_all U ds vs = Ok tt ∧ ¬ dim_mismatch U ds vs)
  ∨ (check_all U ds vs = Err EDim ∧ dim_mismatch U ds vs).
Proof.
  revert vs. induction ds as [|d ds IH]; intros vs Hv.
  - left. split; [destruct vs; reflexivity|]. intros (i&?&?&?&H&_). rewrite lookup_nil in H. discriminate.
  - destruct vs as [|v vs].
    + left. split; [reflexivity|]. intros (i&?&?&?&_&H&_). rewrite lookup_nil in H. discriminate.
    + simpl. destruct (IH vs) as [[E Hn]|[E Hm]]; [intros; apply Hv; right; done| |].
      * destruct d as [dd|]; simpl.
        -- destruct (Hv v) as [dv Hdv]; [left|]. rewrite Hdv. simpl.
           destruct (decide (dv = dd)) as [->|Hne]; simpl.
           ++ left. split; [exact E|]. intros (i&d'&v'&dv'&H1&H2&H3&H4). destruct i as [|i]; simpl in *.
              ** injection H1 as <-. injection H2 as <-. congruence.
              ** apply Hn. exists i, d', v', dv'. done.
           ++ right. split; [reflexivity|]. exists 0%nat, dd, v, dv. done.
        -- left. split; [exact E|]. intros (i&d'&v'&dv'&H1&H2&H3&H4). destruct i as [|i]; simpl in *; [discriminate|].
           apply Hn. exists i, d', v', dv'. done.
      * destruct Hm as (i&d'&v'&dv'&H1&H2&H3&H4).
        assert (dim_mismatch U (d :: ds) (v :: vs)) as Hm' by (exists (S i), d', v', dv'; done).
        destruct d as [dd|]; simpl.
        -- destruct (Hv v) as [dv Hdv]; [left|]. rewrite Hdv. simpl.
           destruct (decide (dv = dd)); simpl; right; split; done.
        -- right. split; done.
Qed.
Lemma check_call_valid U ds ps pos kw vs :
  NoDup (names ps) → bind ps pos kw = Ok vs →
  check_call U ds ps pos kw = rbind (check_all U ds vs) (λ _, Ok vs).
Proof.
  intros ND Hb. unfold check_call. rewrite (pack_of_bind _ _ _ _ ND Hb). simpl.
  destruct (check_all U ds vs); simpl; [|reflexivity]. apply bind_apply_defaults; assumption.
Qed.
Lemma check_iff U ds ps pos kw vs :
  NoDup (names ps) → bind ps pos kw = Ok vs →
  (∀ v, v ∈ vs → ∃ d, value_dim U v = Ok d) →
  (check_call U ds ps pos kw = Err EDim ↔ dim_mismatch U ds vs)
  ∧ (¬ dim_mismatch U ds vs → check_call U ds ps pos kw = Ok vs).
Proof.
  intros ND Hb Hv. rewrite (check_call_valid _ _ _ _ _ _ ND Hb).
  destruct (check_all_spec U ds vs Hv) as [[E Hn]|[E Hm]]; rewrite E; simpl.
  - split; [split; [discriminate|contradiction]|reflexivity].
  - split; [split; done|contradiction].
Qed.

(** * the table instance is a sound unit system *)
Lemma table_sys_sound t : us_sound (table_sys t).
Proof.
  intros a b m da db. simpl. unfold table_dim, table_conv.
  destruct (table_root t a) as [[[fa oa] da']|]; simpl; [|discriminate]. intros [= ->].
  destruct (table_root t b) as [[[fb ob] db']|]; simpl; [|discriminate]. intros [= ->].
  destruct (decide (da = db)); split; intros; try contradiction; eauto.
Qed.

(** * classification: the definitions *)
Definition def_name (c : cls) : option string := match c with CDef k => Some k | _ => None end.
Definition def_names (cl : list cls) : list string := omap def_name cl.
Lemma classify_defs_fresh defs l :
  NoDup (def_names (classify defs l)) ∧ ∀ k, k ∈ def_names (classify defs l) → k ∉ defs.
Proof.
  revert defs. induction l as [|s l IH]; intros defs; simpl.
  - split; [constructor|]. intros k H. inversion H.
  - destruct s as [|u b|e]; simpl; try apply IH.
    destruct (single_one e) as [k|]; [|apply IH].
    destruct (decide (k ∈ defs)) as [Hin|Hnin]; simpl; [apply IH|].
    destruct (IH ({[k]} ∪ defs)) as [ND Hf]. split.
    + apply NoDup_cons. split; [|exact ND]. intros Hk. apply (Hf k Hk). set_solver.
    + intros k' Hk'. apply elem_of_cons in Hk' as [->|Hk']; [exact Hnin|].
      specialize (Hf k' Hk'). set_solver.
Qed.
Lemma def_names_lookup cl i k : cl !! i = Some (CDef k) → k ∈ def_names cl.
Proof. intros H. apply elem_of_list_omap. exists (CDef k). split; [eapply elem_of_list_lookup_2; eauto|reflexivity]. Qed.
(** values_by_name[A] is the value bound to the parameter that defines A *)
Lemma named_values_lookup cl vs i k v :
  NoDup (def_names cl) → cl !! i = Some (CDef k) → vs !! i = Some v →
  named_values cl vs !! k = Some v.
Proof.
  revert vs i. induction cl as [|c cl IH]; intros vs i ND Hc Hv; [rewrite lookup_nil in Hc; discriminate|].
  destruct vs as [|v0 vs]; [rewrite lookup_nil in Hv; discriminate|].
  destruct i as [|i]; simpl in Hc, Hv.
  - injection Hc as ->. injection Hv as ->. simpl. apply lookup_insert.
  - destruct c as [|u b|k0|e]; simpl in *; try (eapply IH; eauto).
    apply NoDup_cons in ND as [Hk0 ND]. rewrite lookup_insert_ne.
    + eapply IH; eauto.
    + intros ->. apply Hk0. eapply def_names_lookup. exact Hc.
Qed.
Lemma named_values_inv cl vs k v :
  named_values cl vs !! k = Some v → ∃ i, cl !! i = Some (CDef k) ∧ vs !! i = Some v.
Proof.
  revert vs. induction cl as [|c cl IH]; intros vs H; [simpl in H; rewrite lookup_empty in H; discriminate|].
  destruct vs as [|v0 vs]; [destruct c; simpl in H; rewrite lookup_empty in H; discriminate|].
  destruct c as [|u b|k0|e]; simpl in H;
    try (destruct (IH _ H) as (i & ? & ?); exists (S i); done).
  destruct (decide (k0 = k)) as [->|Hne].
  - rewrite lookup_insert in H. injection H as ->. exists 0%nat. done.
  - rewrite lookup_insert_ne in H by exact Hne. destruct (IH _ H) as (i & ? & ?). exists (S i). done.
Qed.
Lemma parse_wrap_args_defs specs vs i k v :
  parse_wrap_args specs !! i = Some (CDef k) → vs !! i = Some v →
  named_values (parse_wrap_args specs) vs !! k = Some v.
Proof. apply named_values_lookup. apply classify_defs_fresh. Qed.

(** the rule of [_parse_wrap_args]: a parameter is a definition of A exactly when its spec is
    a reference made of the single name A with power 1 and no earlier spec is *)
Lemma prev_shift (s : spec) l i k :
  (∀ j e', (j < S i)%nat → (s :: l) !! j = Some (SRef e') → single_one e' ≠ Some k)
  ↔ (∀ e', s = SRef e' → single_one e' ≠ Some k)
    ∧ (∀ j e', (j < i)%nat → l !! j = Some (SRef e') → single_one e' ≠ Some k).
Proof.
  split.
  - intros H. split.
    + intros e' ->. apply (H 0%nat e'); [lia|reflexivity].
    + intros j e' Hj Hl. apply (H (S j) e'); [lia|exact Hl].
  - intros [H0 H1] [|j] e' Hj Hl; simpl in Hl.
    + injection Hl as ->. apply H0. reflexivity.
    + apply (H1 j e'); [lia|exact Hl].
Qed.
Lemma classify_rule defs l i k :
  classify defs l !! i = Some (CDef k) ↔
  ∃ e, l !! i = Some (SRef e) ∧ single_one e = Some k ∧ k ∉ defs
       ∧ ∀ j e', (j < i)%nat → l !! j = Some (SRef e') → single_one e' ≠ Some k.
Proof.
  revert defs i. induction l as [|s l IH]; intros defs i.
  - simpl. rewrite lookup_nil. split; [discriminate|]. intros (e & H & _). rewrite lookup_nil in H. discriminate.
  - destruct i as [|i].
    + destruct s as [|u b|e]; simpl.
      * split; [discriminate|]. intros (e & H & _). discriminate.
      * split; [discriminate|]. intros (e & H & _). discriminate.
      * destruct (single_one e) as [k0|] eqn:Es; [destruct (decide (k0 ∈ defs)) as [Hin|Hnin]|]; simpl.
        -- split; [discriminate|]. intros (e' & [= <-] & Hs & Hk & _). congruence.
        -- split.
           ++ intros [= ->]. exists e. repeat split; try done. intros j e' Hj. lia.
           ++ intros (e' & [= <-] & Hs & _). congruence.
        -- split; [discriminate|]. intros (e' & [= <-] & Hs & _). congruence.
    + assert (Hcase : ∀ defs',
                 (k ∉ defs' ↔ k ∉ defs ∧ (∀ e', s = SRef e' → single_one e' ≠ Some k)) →
                 (classify defs' l !! i = Some (CDef k) ↔
                  ∃ e, (s :: l) !! S i = Some (SRef e) ∧ single_one e = Some k ∧ k ∉ defs
                     ∧ ∀ j e', (j < S i)%nat → (s :: l) !! j = Some (SRef e') → single_one e' ≠ Some k)).
      { intros defs' HP. rewrite IH. simpl. split.
        - intros (e & He & Hse & Hk & Hprev). apply HP in Hk as [Hk HPp]. exists e. repeat split; try done.
          apply prev_shift. split; done.
        - intros (e & He & Hse & Hk & Hprev). apply prev_shift in Hprev as [H0 H1]. exists e. repeat split; try done.
          apply HP. split; done. }
      destruct s as [|u b|e0]; simpl classify.
      * rewrite lookup_cons_ne_0 by lia. simpl. apply Hcase.
        split; [intros H; split; [exact H|intros e' [=]] | intros [H _]; exact H].
      * rewrite lookup_cons_ne_0 by lia. simpl. apply Hcase.
        split; [intros H; split; [exact H|intros e' [=]] | intros [H _]; exact H].
      * destruct (single_one e0) as [k0|] eqn:Es; [destruct (decide (k0 ∈ defs)) as [Hin|Hnin]|];
          rewrite lookup_cons_ne_0 by lia; simpl.
        -- apply Hcase. split; [|intros [H _]; exact H].
           intros H; split; [exact H|]. intros e' [= <-]. rewrite Es. intros [= ->]. contradiction.
        -- apply (Hcase ({[k0]} ∪ defs)). split.
           ++ intros H. split; [set_solver|]. intros e' [= <-]. rewrite Es. intros [= ->]. set_solver.
           ++ intros [H HP]. specialize (HP e0 eq_refl). rewrite Es in HP.
              assert (k ≠ k0) by congruence. set_solver.
        -- apply Hcase. split; [|intros [H _]; exact H].
           intros H; split; [exact H|]. intros e' [= <-]. rewrite Es. discriminate.
Qed.
Lemma parse_wrap_args_rule specs i k :
  parse_wrap_args specs !! i = Some (CDef k) ↔
  ∃ e, specs !! i = Some (SRef e) ∧ single_one e = Some k
       ∧ ∀ j e', (j < i)%nat → specs !! j = Some (SRef e') → single_one e' ≠ Some k.
Proof.
  unfold parse_wrap_args. rewrite classify_rule. split.
  - intros (e & ? & ? & _ & ?). eauto.
  - intros (e & ? & ? & ?). exists e. repeat split; try done; try set_solver.
Qed.
(** [single_one]: exactly the containers {A: 1} *)
Lemma single_one_spec e k : single_one e = Some k ↔ e = {[ k := 1%Qc ]}.
Proof.
  unfold single_one. split.
  - destruct (map_to_list e) as [|[k0 v0] [|? ?]] eqn:E; try discriminate.
    destruct (decide (v0 = 1%Qc)) as [->|]; [|discriminate]. intros [= ->].
    apply map_to_list_inj. rewrite E, map_to_list_singleton. reflexivity.
  - intros ->. rewrite map_to_list_singleton. rewrite decide_True by reflexivity. reflexivity.
Qed.

(** * The defect switches: where the code as found deviates, and where it does not *)
Definition nonneg_ref (e : uc) : bool := forallb (λ kv : string * Qc, negb (qneg kv.2)) (map_to_list e).
(** per position: no string spec meets a Quantity (F23, first site), dependents get a
    Quantity (F23, second site) and carry no negative exponent (F24) *)
Definition pos_guard (cv : cls * value) : bool :=
  match cv.1, cv.2 with
  | CUnit _ true, VQty _ _ => false
  | CDep e, VQty _ _ => nonneg_ref e
  | CDep _, _ => false
  | _, _ => true
  end.
Definition call_guard (cl : list cls) (vs : list value) : bool := forallb pos_guard (zip cl vs).

Lemma foldl_ext_in {A B} (f g : A → B → A) a l :
  (∀ acc x, x ∈ l → f acc x = g acc x) → foldl f a l = foldl g a l.
Proof.
  revert a. induction l as [|x l IH]; intros a H; simpl; [reflexivity|].
  rewrite (H a x) by left. apply IH. intros acc y Hy. apply H. right. exact Hy.
Qed.
Lemma replace_units_nonneg Q Q' vbn e :
  nonneg_ref e = true → replace_units Q vbn e = replace_units Q' vbn e.
Proof.
  intros H. unfold replace_units. apply foldl_ext_in. intros acc kv Hin.
  unfold nonneg_ref in H. rewrite forallb_forall in H.
  assert (qneg kv.2 = false) as Hn.
  { apply negb_true_iff. apply H. apply elem_of_list_In. exact Hin. }
  unfold replace_step. destruct acc as [q|]; simpl; [|reflexivity].
  destruct (vbn !! kv.1); [|reflexivity]. rewrite Hn, !andb_false_r. reflexivity.
Qed.
Lemma param_spec_guard U Q strict vbn c v :
  pos_guard (c, v) = true →
  param_spec U Q strict vbn c v = param_spec U repaired strict vbn c v.
Proof.
  unfold pos_guard. destruct c as [|u [|]|k|e]; simpl; try reflexivity.
  - destruct v; simpl; try reflexivity. discriminate.
  - destruct v; simpl; try reflexivity. unfold delivered. rewrite !andb_false_r. reflexivity.
  - destruct v as [m|m|m u]; simpl; try discriminate. intros H.
    rewrite (replace_units_nonneg Q repaired vbn e H).
    unfold delivered. simpl. rewrite !andb_false_r. reflexivity.
Qed.
Lemma call_guard_pos cl vs i c v :
  call_guard cl vs = true → cl !! i = Some c → vs !! i = Some v → pos_guard (c, v) = true.
Proof.
  unfold call_guard. rewrite forallb_forall. intros H Hc Hv. apply H. apply elem_of_list_In.
  apply elem_of_list_lookup. exists i. rewrite lookup_zip_with, Hc, Hv. reflexivity.
Qed.
Lemma zipM_ext_pos f g cl vs :
  (∀ i c v, cl !! i = Some c → vs !! i = Some v → f c v = g c v) → zipM f cl vs = zipM g cl vs.
Proof.
  revert vs. induction cl as [|c cl IH]; intros vs H; [destruct vs; reflexivity|].
  destruct vs as [|v vs]; [reflexivity|]. simpl.
  rewrite (H 0%nat c v) by reflexivity. rewrite (IH vs); [reflexivity|].
  intros i c' v' Hc Hv. apply (H (S i)); assumption.
Qed.
Lemma spec_pass_guard U Q strict cl vs :
  call_guard cl vs = true → spec_pass U Q strict cl vs = spec_pass U repaired strict cl vs.
Proof.
  intros G. unfold spec_pass. apply zipM_ext_pos. intros i c v Hc Hv.
  apply param_spec_guard. eapply call_guard_pos; eauto.
Qed.
(** under the guard the code as found (any switch setting) satisfies the exact statement *)
Lemma wraps_passes_guarded U Q strict cl ps pos kw vs :
  NoDup (names ps) → List.length cl = List.length ps → bind ps pos kw = Ok vs →
  call_guard cl vs = true →
  (∀ obs, wraps_observed U Q strict cl ps pos kw = Ok obs
          ↔ spec_pass U repaired strict cl vs = Ok obs)
  ∧ (∀ e, wraps_observed U Q strict cl ps pos kw = Err e →
          ∃ i c v, cl !! i = Some c ∧ vs !! i = Some v
                   ∧ param_spec U repaired strict (named_values cl vs) c v = Err e).
Proof.
  intros ND Hcl Hb G. destruct (wraps_passes_declared U Q strict cl ps pos kw vs ND Hcl Hb) as [H1 H2].
  split.
  - intros obs. rewrite H1, (spec_pass_guard _ _ _ _ _ G). reflexivity.
  - intros e He. destruct (H2 e He) as (i & c & v & Hc & Hv & Hp). exists i, c, v.
    rewrite <- (param_spec_guard U Q strict _ c v) by (eapply call_guard_pos; eauto). done.
Qed.

(** a four-unit system for the witnesses *)
Definition demo_table : table :=
  list_to_map [ ("meter", UI (mkq 1 1) (mkuc [("[length]", mkq 1 1)]));
                ("kilometer", UI (mkq 1000 1) (mkuc [("[length]", mkq 1 1)]));
                ("second", UI (mkq 1 1) (mkuc [("[time]", mkq 1 1)]));
                ("hour", UI (mkq 3600 1) (mkuc [("[time]", mkq 1 1)])) ].
Definition demo_sys : unitsys := table_sys demo_table.
Definition kmh : uc := mkuc [("kilometer", mkq 1 1); ("hour", mkq (-1) 1)].
Definition mps : uc := mkuc [("meter", mkq 1 1); ("second", mkq (-1) 1)].

Ltac by_compute := apply (bool_decide_unpack _); vm_compute; exact I.

(** F23: wraps(None, 'm/s')(f)(Q(1, 'km/hour')): the code as found hands over an
    approximation of 5/18, the statement asks for 5/18 *)
Lemma float_leak_refuted :
  ∃ cl ps pos kw vs,
    bind ps pos kw = Ok vs ∧ List.length cl = List.length ps ∧ NoDup (names ps)
    ∧ wraps_observed demo_sys as_found true cl ps pos kw = Ok [VApx (mkq 5 18)]
    ∧ spec_pass demo_sys repaired true cl vs = Ok [VNum (mkq 5 18)].
Proof.
  exists (parse_wrap_args [SUnit mps true]), [Param "a" None], [VQty (mkq 1 1) kmh], ∅, [VQty (mkq 1 1) kmh].
  split; [by_compute|]. split; [reflexivity|]. split; [by_compute|]. split; by_compute.
Qed.
(** F24: wraps(None, ['=A', '=A**-1'])(f)(Q(0, 'm'), Q(2, '1/m')) *)
Lemma replace_mag_refuted :
  ∃ cl ps pos kw vs,
    bind ps pos kw = Ok vs ∧ List.length cl = List.length ps ∧ NoDup (names ps)
    ∧ wraps_observed demo_sys as_found true cl ps pos kw = Err EZeroDiv
    ∧ spec_pass demo_sys repaired true cl vs = Ok [VNum (mkq 0 1); VNum (mkq 2 1)].
Proof.
  exists (parse_wrap_args [SRef (mkuc [("A", mkq 1 1)]); SRef (mkuc [("A", mkq (-1) 1)])]),
    [Param "a" None; Param "b" None],
    [VQty (mkq 0 1) (mkuc [("meter", mkq 1 1)]); VQty (mkq 2 1) (mkuc [("meter", mkq (-1) 1)])], ∅,
    [VQty (mkq 0 1) (mkuc [("meter", mkq 1 1)]); VQty (mkq 2 1) (mkuc [("meter", mkq (-1) 1)])].
  split; [by_compute|]. split; [reflexivity|]. split; [by_compute|]. split; by_compute.
Qed.

(** non-vacuity: f(a, b=Q(3,'kilometer'), c=Q(2,'hour')) with specs ['=A', Unit(meter), '=A/B'...] *)
Definition ex_ps : list param :=
  [ Param "a" None;
    Param "b" (Some (VQty (mkq 3 1) (mkuc [("kilometer", mkq 1 1)])));
    Param "c" None; Param "d" None ].
Definition ex_specs : list spec :=
  [ SRef (mkuc [("A", mkq 1 1)]); SUnit (mkuc [("meter", mkq 1 1)]) false;
    SRef (mkuc [("A", mkq 2 1)]); SNone ].
Definition ex_vs : list value :=
  [ VQty (mkq 7 1) (mkuc [("hour", mkq 1 1)]); VQty (mkq 3 1) (mkuc [("kilometer", mkq 1 1)]);
    VQty (mkq 1 1) (mkuc [("second", mkq 2 1)]); VNum (mkq 9 1) ].
Definition ex_kw : gmap string value :=
  list_to_map [("d", VNum (mkq 9 1)); ("c", VQty (mkq 1 1) (mkuc [("second", mkq 2 1)]))].
Lemma example_binding :
  NoDup (names ex_ps) ∧ List.length (parse_wrap_args ex_specs) = List.length ex_ps
  ∧ bind ex_ps [VQty (mkq 7 1) (mkuc [("hour", mkq 1 1)])] ex_kw = Ok ex_vs
  ∧ bind ex_ps ex_vs ∅ = Ok ex_vs
  ∧ call_guard (parse_wrap_args ex_specs) ex_vs = true
  ∧ wraps_observed demo_sys repaired true (parse_wrap_args ex_specs) ex_ps
      [VQty (mkq 7 1) (mkuc [("hour", mkq 1 1)])] ex_kw
    = Ok [VNum (mkq 7 1); VNum (mkq 3000 1); VNum (mkq 1 12960000); VNum (mkq 9 1)].
Proof.
  split; [by_compute|]. split; [reflexivity|]. split; [by_compute|]. split; [by_compute|].
  split; [vm_compute; reflexivity|]. by_compute.
Qed.
Lemma example_check :
  check_call demo_sys [Some (mkuc [("[length]", mkq 1 1)]); None] [Param "a" None; Param "b" None]
    [VQty (mkq 1 1) (mkuc [("hour", mkq 1 1)])] (list_to_map [("b", VNum (mkq 1 1))]) = Err EDim
  ∧ check_call demo_sys [Some (mkuc [("[length]", mkq 1 1)]); None] [Param "a" None; Param "b" None]
    [VQty (mkq 1 1) (mkuc [("kilometer", mkq 1 1)])] (list_to_map [("b", VNum (mkq 1 1))])
    = Ok [VQty (mkq 1 1) (mkuc [("kilometer", mkq 1 1)]); VNum (mkq 1 1)].
Proof. split; by_compute. Qed.

(** offset units convert affinely: wraps(None, 'kelvin')(f)(Q(25, 'degC')) hands over 298.15 *)
Definition temp_table : table :=
  list_to_map [ ("kelvin", UI (mkq 1 1) (mkuc [("[temperature]", mkq 1 1)]));
                ("degree_Celsius", UIo (mkq 1 1) (mkq 5463 20) (mkuc [("[temperature]", mkq 1 1)]));
                ("degree_Fahrenheit", UIo (mkq 5 9) (mkq 45967 180) (mkuc [("[temperature]", mkq 1 1)])) ].
Lemma example_offset :
  wraps_observed (table_sys temp_table) repaired true
    (parse_wrap_args [SUnit (mkuc [("kelvin", mkq 1 1)]) true; SUnit (mkuc [("degree_Fahrenheit", mkq 1 1)]) false])
    [Param "a" None; Param "b" None]
    [VQty (mkq 25 1) (mkuc [("degree_Celsius", mkq 1 1)])]
    (list_to_map [("b", VQty (mkq 25 1) (mkuc [("degree_Celsius", mkq 1 1)]))])
  = Ok [VNum (mkq 5963 20); VNum (mkq 77 1)].
Proof. by_compute. Qed.

(** the i-th call through one wrapper gives what a fresh decoration and a single call give *)
Lemma session_nth U Q strict specs ret ps f calls outs i pos kw :
  wraps_session U Q strict specs ret ps f calls = Ok outs → calls !! i = Some (pos, kw) →
  outs !! i = Some (wraps_run U Q strict specs ret ps f pos kw).
Proof.
  unfold wraps_session, wraps_run. destruct (wraps_decorate specs ps) as [cl|e]; simpl; [|discriminate].
  intros [= <-] H. rewrite list_lookup_fmap, H. reflexivity.
Qed.
Lemma session_repeat U Q strict specs ret ps f calls outs i j c :
  wraps_session U Q strict specs ret ps f calls = Ok outs →
  calls !! i = Some c → calls !! j = Some c → outs !! i = outs !! j.
Proof.
  destruct c as [pos kw]. intros H Hi Hj.
  rewrite (session_nth _ _ _ _ _ _ _ _ _ _ _ _ H Hi), (session_nth _ _ _ _ _ _ _ _ _ _ _ _ H Hj). reflexivity.
Qed.
