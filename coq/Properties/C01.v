(** Properties/C01.v — conversion succeeds exactly between units of identical dimensionality.
    Statements only; proofs in Proofs/RegistryProofs.v.  All theorems hold for EVERY registry
    [r] (not only the bundled one) and every container. *)
From PintV Require Import Model.UC Model.Eval Model.Registry Proofs.UCProofs Proofs.RegistryProofs.
From PintV Require Import Proofs.RootProofs Proofs.FactorProofs.
From PintV Require Import Gen.DefaultDefs Gen.DefaultReg.
Open Scope string_scope.

(** conversion returns a DimensionalityError exactly when the dimensionalities differ, … *)
Theorem C01_convert_dimerror_iff r src dst ds dd :
  dim_of r src = Ok ds → dim_of r dst = Ok dd → (conv_factor r src dst = Err EDim ↔ ds ≠ dd).
Proof. exact (conv_factor_edim r src dst ds dd). Qed.
(** … and a number is returned only between units of identical dimensionality *)
Theorem C01_number_only_if_same_dim r src dst ds dd y :
  dim_of r src = Ok ds → dim_of r dst = Ok dd → conv_factor r src dst = Ok y → ds = dd.
Proof. exact (conv_factor_number_only_if_same_dim r src dst ds dd y). Qed.

(** the full biconditional: between expandable units with rational factors, conversion
    succeeds (returns a number) if and only if the dimensionalities are identical *)
Theorem C01_convert_ok_iff r src dst Fs Bs Fd Bd ds dd :
  reg_nz r → wf src → exact_unit r src Fs Bs → exact_unit r dst Fd Bd →
  dim_of r src = Ok ds → dim_of r dst = Ok dd →
  ((∃ y, conv_factor r src dst = Ok y) ↔ ds = dd).
Proof.
  intros Hnz W Es Ed Hs Hd. split.
  - intros [y Hy]. exact (conv_factor_number_only_if_same_dim r src dst ds dd y Hs Hd Hy).
  - intros <-. destruct (conv_factor_value r src dst Fs Bs Fd Bd ds Hnz W Es Ed Hs Hd) as [ex H]. eauto.
Qed.

(** dimensionality is a homomorphism from (units, *, /, ** ) to (dimensions, *, /, ** ) *)
Theorem C01_dim_mul r a b da db :
  dim_of r a = Ok da → dim_of r b = Ok db → dim_of r (uc_mul a b) = Ok (uc_mul da db).
Proof. exact (dim_of_mul r a b da db). Qed.
Theorem C01_dim_div r a b da db :
  wf a → dim_of r a = Ok da → dim_of r b = Ok db → dim_of r (uc_div a b) = Ok (uc_div da db).
Proof. exact (dim_of_div r a b da db). Qed.
Theorem C01_dim_pow r a e da : dim_of r a = Ok da → dim_of r (uc_pow a e) = Ok (uc_pow da e).
Proof. exact (dim_of_pow r a e da). Qed.
Theorem C01_dim_dimensionless r : dim_of r ∅ = Ok ∅.
Proof. exact (dim_of_empty r). Qed.
(** the result is canonical: no zero exponent, no "[]" placeholder *)
Theorem C01_dim_canonical r a d : dim_of r a = Ok d → wf d ∧ d !! "[]" = None.
Proof. exact (dim_of_canonical r a d). Qed.

(** the relation is an equivalence on resolvable units, preserved by products, quotients, powers *)
Theorem C01_compat_equivalence r a b c d :
  (dim_of r a = Ok d → compat r a a) ∧ (compat r a b → compat r b a)
  ∧ (compat r a b → compat r b c → compat r a c).
Proof. split; [exact (compat_refl r a d) | split; [exact (compat_sym r a b) | exact (compat_trans r a b c)]]. Qed.
Theorem C01_compat_congruence r a b c d e :
  compat r a b → compat r c d →
  compat r (uc_mul a c) (uc_mul b d) ∧ (wf a → wf b → compat r (uc_div a c) (uc_div b d))
  ∧ compat r (uc_pow a e) (uc_pow b e).
Proof.
  intros H1 H2. split; [exact (compat_mul r a b c d H1 H2) | split;
    [intros Wa Wb; exact (compat_div r a b c d Wa Wb H1 H2) | exact (compat_pow r a b e H1)]].
Qed.

(** non-vacuity on the registry regenerated from /repo: newton and kg·m/s² are compatible,
    newton and joule are not, and the model says so by computation *)
Example C01_default_registry_nonvacuous :
  (match dim_of default_reg {[ "newton" := 1%Qc ]},
         dim_of default_reg (mkuc [("kilogram", mkq 1 1); ("meter", mkq 1 1); ("second", mkq (-2) 1)]) with
   | Ok d1, Ok d2 => uc_eqb d1 d2 && uc_eqb d1 (mkuc [("[length]", mkq 1 1); ("[mass]", mkq 1 1); ("[time]", mkq (-2) 1)])
   | _, _ => false
   end = true)
  ∧ conv_factor default_reg {[ "newton" := 1%Qc ]} {[ "joule" := 1%Qc ]} = Err EDim.
Proof. split; vm_compute; reflexivity. Qed.
