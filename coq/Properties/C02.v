(** Properties/C02.v — conversion factors equal the exact ratio implied by the written
    definitions.  Statements only; proofs in Proofs/RootProofs.v and Proofs/FactorProofs.v.
    All theorems hold for EVERY registry satisfying the stated (decidable) side conditions.

    Vocabulary.  [rsem r a = Some (F, B)]: expanding container [a] through the definitions of
    [r] reaches base units [B] with the symbolic factor [F] = Π scale(g)^F(g) over the non-base
    definitions [g] visited.  [exact_unit r a F B]: moreover every exponent in [F] is an integer
    and no visited definition went through a float (non-integer power) — the property's
    "rational units".  [mprod (gscale r) F] is the numeric value of [F]. *)
From PintV Require Import Model.UC Model.Eval Model.Registry.
From PintV Require Import Proofs.UCProofs Proofs.RegistryProofs Proofs.RootProofs Proofs.FactorProofs Proofs.PrefixProofs.
From PintV Require Import Gen.DefaultDefs Gen.DefaultReg.
Open Scope string_scope.

(** what pint's accumulate-as-you-recurse expansion computes IS the linear extension of the
    per-definition rows (the denotation): products, quotients, powers of units map to
    products, quotients, powers of (factor, base units) *)
Theorem C02_root_is_denotation r a :
  match rsem r a with
  | Some (F, B) => wf F ∧ wf B ∧ ∃ ex, root_sym r a = Ok (RAcc F B ex)
  | None => ∃ er, root_sym r a = Err er
  end.
Proof. exact (root_sym_sem r a). Qed.
Theorem C02_root_hom_mul r a b Fa Ba Fb Bb :
  rsem r a = Some (Fa, Ba) → rsem r b = Some (Fb, Bb) →
  rsem r (uc_mul a b) = Some (uc_mul Fa Fb, uc_mul Ba Bb).
Proof. exact (rsem_mul r a b Fa Ba Fb Bb). Qed.
Theorem C02_root_hom_div r a b Fa Ba Fb Bb :
  wf a → rsem r a = Some (Fa, Ba) → rsem r b = Some (Fb, Bb) →
  rsem r (uc_div a b) = Some (uc_div Fa Fb, uc_div Ba Bb).
Proof. exact (rsem_div r a b Fa Ba Fb Bb). Qed.
Theorem C02_root_hom_pow r a e Fa Ba :
  rsem r a = Some (Fa, Ba) → rsem r (uc_pow a e) = Some (uc_pow Fa e, uc_pow Ba e).
Proof. exact (rsem_pow r a e Fa Ba). Qed.
Theorem C02_root_hom_unit r : rsem r ∅ = Some (∅, ∅).
Proof. exact (rsem_empty r). Qed.

(** the numeric factor of an integral symbolic factor is the product of scale powers *)
Theorem C02_factor_value r F :
  reg_nz r → gens_ok r F → integral F → eval_factor r F = Ok (Some (mprod (gscale r) F)).
Proof. exact (eval_factor_exact r F). Qed.
Theorem C02_factor_mul r a b Fa Ba Fb Bb :
  reg_nz r → exact_unit r a Fa Ba → exact_unit r b Fb Bb →
  mprod (gscale r) (uc_mul Fa Fb) = (mprod (gscale r) Fa * mprod (gscale r) Fb)%Qc.
Proof. exact (factor_mul r a b Fa Ba Fb Bb). Qed.

(** converting x from a to b multiplies by factor(a) / factor(b) *)
Theorem C02_factor_is_ratio r a b Fa Ba Fb Bb d :
  reg_nz r → wf a → exact_unit r a Fa Ba → exact_unit r b Fb Bb →
  dim_of r a = Ok d → dim_of r b = Ok d →
  ∃ ex, conv_factor r a b = Ok (Some (mprod (gscale r) Fa / mprod (gscale r) Fb)%Qc, ex).
Proof. exact (conv_factor_value r a b Fa Ba Fb Bb d). Qed.
(** identity, invertibility, path independence *)
Theorem C02_conv_identity r a d : dim_of r a = Ok d → conv_factor r a a = Ok (Some 1%Qc, true).
Proof. exact (conv_factor_id r a d). Qed.
Theorem C02_conv_inverse r a b Fa Ba Fb Bb d :
  reg_nz r → wf a → wf b → exact_unit r a Fa Ba → exact_unit r b Fb Bb →
  dim_of r a = Ok d → dim_of r b = Ok d →
  ∃ x y e1 e2, conv_factor r a b = Ok (Some x, e1) ∧ conv_factor r b a = Ok (Some y, e2) ∧ (x * y = 1)%Qc.
Proof. exact (conv_factor_inverse r a b Fa Ba Fb Bb d). Qed.
Theorem C02_conv_path_independent r a b c Fa Ba Fb Bb Fc Bc d :
  reg_nz r → wf a → wf b → exact_unit r a Fa Ba → exact_unit r b Fb Bb → exact_unit r c Fc Bc →
  dim_of r a = Ok d → dim_of r b = Ok d → dim_of r c = Ok d →
  ∃ x y z e1 e2 e3, conv_factor r a b = Ok (Some x, e1) ∧ conv_factor r b c = Ok (Some y, e2)
                    ∧ conv_factor r a c = Ok (Some z, e3) ∧ (x * y = z)%Qc.
Proof. exact (conv_factor_path r a b c Fa Ba Fb Bb Fc Bc d). Qed.

(** a prefix is applied exactly once: the string p+u (not a written definition, read as prefix p
    and unit u, u multiplicative) expands to the base units of u and to the factor of u times the
    prefix value; more recursion fuel never changes a defined expansion *)
Theorem C02_prefix_once r p u pd ud sym F B :
  reg_nz r →
  r_units r !! (p ++ u) = None →
  (∃ l, parse_unit_name r (p ++ u) = (p, u) :: l) →
  String.eqb p "" = false →
  r_prefixes r !! p = Some pd → r_units r !! u = Some ud → u_multiplicative ud = true →
  get_symbol r (p ++ u) = Ok sym →
  rrow r (p ++ u) = Some (F, B) →
  ∃ Fu, rrow r u = Some (Fu, B) ∧
        (integral Fu → mprod (gscale r) F = (p_val pd * mprod (gscale r) Fu)%Qc).
Proof. exact (prefix_factor r p u pd ud sym F B). Qed.
Theorem C02_more_fuel_same_expansion f r k x : root_row f r k = Some x → root_row (S f) r k = Some x.
Proof. exact (root_row_mono f r k x). Qed.

(** the side conditions are decidable and hold for the registry regenerated from /repo
    (finite checks by computation) *)
Theorem C02_default_registry_nonzero_scales : reg_nz default_reg.
Proof. apply reg_nzb_spec. vm_compute. reflexivity. Qed.
Example C02_default_registry_exact_units :
  (∃ F B, exact_unit default_reg {[ "mile" := 1%Qc ]} F B)
  ∧ (∃ F B, exact_unit default_reg (mkuc [("kilometer", mkq 1 1); ("hour", mkq (-1) 1)]) F B)
  ∧ (∃ F B, exact_unit default_reg {[ "british_thermal_unit" := 1%Qc ]} F B)
  ∧ exact_unitb default_reg {[ "planck_length" := 1%Qc ]} = false.
Proof.
  split; [|split; [|split]]; try (apply exact_unitb_spec); vm_compute; reflexivity.
Qed.
Example C02_default_registry_mile_to_km :
  match conv_factor default_reg {[ "mile" := 1%Qc ]} {[ "kilometer" := 1%Qc ]} with
  | Ok (Some q, true) => Qc_eq_bool q (mkq 25146 15625)
  | _ => false
  end = true.
Proof. vm_compute. reflexivity. Qed.
