(** Properties/C03.v — arithmetic results do not depend on the units used to express the
    operands.  Statements only; proofs in Proofs/QuantityProofs.v.

    Vocabulary.  [phys r q = (m · factor(units), dimensionality(units))] is the physical value
    of a quantity; [ophys] extends it to operands (a bare number stays a bare number: the
    bare-number rule distinguishes it from a dimensionless quantity).  [unit_ok ptrue r u]: the
    container [u] is canonical, multiplicative and rational ([exact_unit] of C02) — decidable
    ([unit_okb]).  [oequiv ptrue r a b]: both operands are such and [ophys r a = ophys r b] ("the same
    physical quantity in other units").  [res_equiv]: both results Ok and [oequiv], or both the
    SAME error.  [apply_bin cfg r op form l rt] is what Python does for [l op rt] / the
    reflected call / [l op= rt]; [p_apply], [p_bin] is the same operator in the algebra of
    physical values.  Theorems hold for EVERY registry with non-zero scales ([reg_nz], decidable,
    checked on the registry regenerated from /repo).  The development is parametric in a
    predicate on the factor of the units involved: [ptrue] (no condition) for every operator
    except [abs] and ordering, which need POSITIVE factors ([ppos]; decidable per unit,
    [unit_okpb]) — the bundled registry has one unit with a negative scale, electron_g_factor,
    for which [abs] is indeed not covariant (F81, [C03_abs_cov_refuted]).  [cfg] carries the
    registry option autoconvert_offset_to_baseunit and the two defect switches (F14, F80). *)
From PintV Require Import Model.UC Model.Eval Model.Registry Model.Quantity.
From PintV Require Import Proofs.UCProofs Proofs.RegistryProofs Proofs.RootProofs Proofs.FactorProofs Proofs.QuantityProofs.
From PintV Require Import Gen.DefaultDefs Gen.DefaultReg.
Open Scope string_scope.

(** * Every operator, every form (plain, reflected, in-place), is covariant *)
Theorem C03_operator_cov r cfg op f a a' b b' :
  reg_nz r → oequiv ptrue r a a' → oequiv ptrue r b b' →
  res_equiv ptrue r (apply_bin cfg r op f a b) (apply_bin cfg r op f a' b').
Proof. intros H. exact (bin_cov ptrue ptrue_closed r H cfg op f a a' b b'). Qed.
(** … because it is a homomorphism into the algebra of physical values *)
Theorem C03_operator_hom r cfg op f l rt :
  reg_nz r → ogood ptrue r l → ogood ptrue r rt →
  ohom ptrue r (apply_bin cfg r op f l rt) (p_apply cfg op f (ophys r l) (ophys r rt)).
Proof. intros H. exact (apply_bin_hom ptrue ptrue_closed r H cfg op f l rt). Qed.

(** the instances the property names *)
Theorem C03_add_cov r cfg a a' b b' :
  reg_nz r → oequiv ptrue r (Qty a) (Qty a') → oequiv ptrue r b b' →
  res_equiv ptrue r (apply_bin cfg r OAdd FPlain (Qty a) b) (apply_bin cfg r OAdd FPlain (Qty a') b').
Proof. intros H. exact (bin_cov ptrue ptrue_closed r H cfg OAdd FPlain _ _ _ _). Qed.
Theorem C03_sub_cov r cfg a a' b b' :
  reg_nz r → oequiv ptrue r (Qty a) (Qty a') → oequiv ptrue r b b' →
  res_equiv ptrue r (apply_bin cfg r OSub FPlain (Qty a) b) (apply_bin cfg r OSub FPlain (Qty a') b').
Proof. intros H. exact (bin_cov ptrue ptrue_closed r H cfg OSub FPlain _ _ _ _). Qed.
Theorem C03_mul_cov r cfg a a' b b' :
  reg_nz r → oequiv ptrue r (Qty a) (Qty a') → oequiv ptrue r b b' →
  res_equiv ptrue r (apply_bin cfg r OMul FPlain (Qty a) b) (apply_bin cfg r OMul FPlain (Qty a') b').
Proof. intros H. exact (bin_cov ptrue ptrue_closed r H cfg OMul FPlain _ _ _ _). Qed.
Theorem C03_div_cov r cfg a a' b b' :
  reg_nz r → oequiv ptrue r (Qty a) (Qty a') → oequiv ptrue r b b' →
  res_equiv ptrue r (apply_bin cfg r ODiv FPlain (Qty a) b) (apply_bin cfg r ODiv FPlain (Qty a') b').
Proof. intros H. exact (bin_cov ptrue ptrue_closed r H cfg ODiv FPlain _ _ _ _). Qed.
Theorem C03_floordiv_cov r cfg a a' b b' :
  reg_nz r → oequiv ptrue r (Qty a) (Qty a') → oequiv ptrue r b b' →
  res_equiv ptrue r (apply_bin cfg r OFloorDiv FPlain (Qty a) b) (apply_bin cfg r OFloorDiv FPlain (Qty a') b').
Proof. intros H. exact (bin_cov ptrue ptrue_closed r H cfg OFloorDiv FPlain _ _ _ _). Qed.
Theorem C03_mod_cov r cfg a a' b b' :
  reg_nz r → oequiv ptrue r (Qty a) (Qty a') → oequiv ptrue r b b' →
  res_equiv ptrue r (apply_bin cfg r OMod FPlain (Qty a) b) (apply_bin cfg r OMod FPlain (Qty a') b').
Proof. intros H. exact (bin_cov ptrue ptrue_closed r H cfg OMod FPlain _ _ _ _). Qed.
Theorem C03_divmod_cov r cfg a a' b b' :
  reg_nz r → oequiv ptrue r (Qty a) (Qty a') → oequiv ptrue r b b' →
  res_equiv ptrue r (apply_bin cfg r ODivmodQ FPlain (Qty a) b) (apply_bin cfg r ODivmodQ FPlain (Qty a') b')
  ∧ res_equiv ptrue r (apply_bin cfg r ODivmodR FPlain (Qty a) b) (apply_bin cfg r ODivmodR FPlain (Qty a') b').
Proof. intros H Ha Hb. split; [exact (bin_cov ptrue ptrue_closed r H cfg ODivmodQ FPlain _ _ _ _ Ha Hb) | exact (bin_cov ptrue ptrue_closed r H cfg ODivmodR FPlain _ _ _ _ Ha Hb)]. Qed.
(** integer powers: exact on magnitudes *)
Theorem C03_powZ_cov r cfg a a' (n : Z) :
  reg_nz r → oequiv ptrue r (Qty a) (Qty a') →
  res_equiv ptrue r (apply_bin cfg r OPow FPlain (Qty a) (Num (Fin (Q2Qc (inject_Z n)))))
              (apply_bin cfg r OPow FPlain (Qty a') (Num (Fin (Q2Qc (inject_Z n))))).
Proof.
  intros H Ha. apply (bin_cov ptrue ptrue_closed r H cfg OPow FPlain _ _ _ _ Ha). split; [exact I|]. split; [exact I | reflexivity].
Qed.
(** powers with any exponent operand (bare number, dimensionless quantity in any dimensionless
    unit, refused dimensioned quantity): same outcome.  A non-integer rational exponent leaves
    the rationals on the magnitude side: the model reports [EIrrational] on both sides.
    FULL statement (not provable in exact arithmetic, tested in floats by K):
      a ≈ a' → e ≈ e' → (a ** e) ≈ (a' ** e') for every rational e.
    What is proved for rational exponents is the unit part: *)
Theorem C03_pow_cov r cfg a a' e e' :
  reg_nz r → oequiv ptrue r (Qty a) (Qty a') → oequiv ptrue r e e' →
  res_equiv ptrue r (apply_bin cfg r OPow FPlain (Qty a) e) (apply_bin cfg r OPow FPlain (Qty a') e').
Proof. intros H. exact (bin_cov ptrue ptrue_closed r H cfg OPow FPlain _ _ _ _). Qed.
Theorem C03_pow_rational_units_partial r a a' (q : Qc) :
  reg_nz r → oequiv ptrue r (Qty a) (Qty a') →
  ∃ d, dim_of r (uc_pow (q_u a) q) = Ok d ∧ dim_of r (uc_pow (q_u a') q) = Ok d.
Proof.
  intros H ((f & d & Hu & _) & (f' & d' & Hu' & _) & E).
  destruct a as [m u], a' as [m' u']. cbn [q_u] in *.
  rewrite (ophys_info r H m u f d Hu), (ophys_info r H m' u' f' d' Hu') in E. injection E as _ <-.
  exists (uc_pow d q). split; apply dim_of_pow; eapply uinfo_dim; eassumption.
Qed.
Theorem C03_neg_cov r a a' :
  reg_nz r → oequiv ptrue r a a' → oequiv ptrue r (apply_un UNeg a) (apply_un UNeg a').
Proof. intros H. apply (un_cov ptrue r H UNeg a a'). discriminate. Qed.
(** [abs]: units with a positive factor *)
Theorem C03_abs_cov r a a' :
  reg_nz r → oequiv ppos r a a' → oequiv ppos r (apply_un UAbs a) (apply_un UAbs a').
Proof. intros H. apply (un_cov ppos r H UAbs a a'). intros _. exact ppos_pos. Qed.
(** … and not otherwise (F81): 1 electron_g_factor and -2.00231930436092 are the same quantity,
    their absolute values 1 electron_g_factor = -2.002… and +2.002… are not *)
Theorem C03_abs_cov_refuted :
  ∃ a a', oequiv ptrue default_reg a a' ∧ ¬ oequiv ptrue default_reg (apply_un UAbs a) (apply_un UAbs a').
Proof.
  exists (Qty (Qn (Fin (mkq 1 1)) {[ "electron_g_factor" := 1%Qc ]})),
         (Qty (Qn (Fin (mkq (-200231930436092) 100000000000000)) ∅)).
  split; [apply oequivb_spec; vm_compute; reflexivity|].
  intros (_ & _ & E). apply pval_eqb_complete in E. vm_compute in E. discriminate E.
Qed.

(** * Expression level: every tree over these operators and forms, no depth bound *)
Theorem C03_eval_cov r cfg (t : expr (operand * operand)) :
  reg_nz r → uses_abs t = false →
  Forall (λ p, oequiv ptrue r p.1 p.2) (eleaves t) →
  res_equiv ptrue r (eval cfg r (emap fst t)) (eval cfg r (emap snd t)).
Proof. intros H A. apply (eval_cov ptrue ptrue_closed r H cfg t). rewrite A. discriminate. Qed.
(** trees that use [abs]: leaves in units with positive factors *)
Theorem C03_eval_cov_abs r cfg (t : expr (operand * operand)) :
  reg_nz r → Forall (λ p, oequiv ppos r p.1 p.2) (eleaves t) →
  res_equiv ppos r (eval cfg r (emap fst t)) (eval cfg r (emap snd t)).
Proof. intros H. apply (eval_cov ppos ppos_closed r H cfg t). intros _. exact ppos_pos. Qed.
Theorem C03_eval_hom r cfg (t : expr operand) :
  reg_nz r → uses_abs t = false → Forall (ogood ptrue r) (eleaves t) →
  ohom ptrue r (eval cfg r t) (peval cfg (emap (ophys r) t)).
Proof. intros H A. apply (eval_hom ptrue ptrue_closed r H cfg t). rewrite A. discriminate. Qed.

(** * Different dimensionality: DimensionalityError for +, -, <, <=, >, >= *)
Theorem C03_add_dim_mismatch r sub a b :
  reg_nz r → unit_ok ptrue r (q_u a) → unit_ok ptrue r (q_u b) → dimv r (q_u a) ≠ dimv r (q_u b) →
  q_add_sub r sub a (Qty b) = Err EDim.
Proof. intros H. exact (add_dim_mismatch ptrue ptrue_closed r H sub a b). Qed.
Theorem C03_cmp_dim_mismatch r op a b :
  reg_nz r → unit_ok ppos r (q_u a) → unit_ok ppos r (q_u b) → dimv r (q_u a) ≠ dimv r (q_u b) →
  q_cmp r op a (Qty b) = Err EDim.
Proof. intros H. exact (cmp_dim_mismatch ppos r H op a b ppos_pos). Qed.
(** * A bare number is accepted by +, - iff the quantity is dimensionless or the number is 0 / NaN *)
Theorem C03_bare_number_rule r sub a n :
  reg_nz r → unit_ok ptrue r (q_u a) →
  if zero_or_nan n || uc_eqb (dimv r (q_u a)) ∅
  then ∃ q, q_add_sub r sub a (Num n) = Ok q
  else q_add_sub r sub a (Num n) = Err EDim.
Proof. intros H. exact (bare_number_rule ptrue ptrue_closed r H sub a n). Qed.

(** * Equality and ordering are covariant *)
Theorem C03_eq_cov r a a' o o' :
  reg_nz r → oequiv ptrue r (Qty a) (Qty a') → oequiv ptrue r o o' → q_eq r a o = q_eq r a' o'.
Proof. intros H. exact (eq_cov ptrue r H a a' o o'). Qed.
Theorem C03_cmp_cov r op a a' o o' :
  reg_nz r → oequiv ppos r (Qty a) (Qty a') → oequiv ppos r o o' → q_cmp r op a o = q_cmp r op a' o'.
Proof. intros H. exact (cmp_cov ppos r H op a a' o o' ppos_pos). Qed.

(** ordering across different containers, OFFSET units included (kelvin vs degC, degF …): it is the
    ordering of the root-unit magnitudes with the offsets applied, hence covariant under
    re-expression in any unit (multiplicative or a lone offset unit) *)
Theorem C03_cmp_via_root r op a b d a' b' :
  uc_eqb (q_u a) (q_u b) = false →
  dim_of r (q_u a) = Ok d → dim_of r (q_u b) = Ok d →
  q_to_root r a = Ok a' → q_to_root r b = Ok b' →
  q_cmp r op a (Qty b) = Ok (mcmp op (q_m a') (q_m b')).
Proof. exact (cmp_via_root r op a b d a' b'). Qed.
Theorem C03_cmp_cov_offset r op a b a2 b2 d a' b' a2' b2' :
  uc_eqb (q_u a) (q_u b) = false → uc_eqb (q_u a2) (q_u b2) = false →
  dim_of r (q_u a) = Ok d → dim_of r (q_u b) = Ok d → dim_of r (q_u a2) = Ok d → dim_of r (q_u b2) = Ok d →
  q_to_root r a = Ok a' → q_to_root r b = Ok b' → q_to_root r a2 = Ok a2' → q_to_root r b2 = Ok b2' →
  q_m a' = q_m a2' → q_m b' = q_m b2' →
  q_cmp r op a (Qty b) = q_cmp r op a2 (Qty b2).
Proof. exact (cmp_cov_root r op a b a2 b2 d a' b' a2' b2'). Qed.
(** 280 K > 10 degC is False, as 280 K > 283.15 K; 10 degC < 280 K is False; 50 degF (= 10 degC) likewise *)
Example C03_example_ordering_offset_units :
  q_cmp default_reg CGt (Qn (Fin (mkq 280 1)) {[ "kelvin" := 1%Qc ]}) (Qty (Qn (Fin (mkq 10 1)) {[ "degree_Celsius" := 1%Qc ]})) = Ok false
  ∧ q_cmp default_reg CGt (Qn (Fin (mkq 280 1)) {[ "kelvin" := 1%Qc ]}) (Qty (Qn (Fin (mkq 28315 100)) {[ "kelvin" := 1%Qc ]})) = Ok false
  ∧ q_cmp default_reg CLt (Qn (Fin (mkq 10 1)) {[ "degree_Celsius" := 1%Qc ]}) (Qty (Qn (Fin (mkq 280 1)) {[ "kelvin" := 1%Qc ]})) = Ok false
  ∧ q_cmp default_reg CGt (Qn (Fin (mkq 280 1)) {[ "kelvin" := 1%Qc ]}) (Qty (Qn (Fin (mkq 50 1)) {[ "degree_Fahrenheit" := 1%Qc ]})) = Ok false
  ∧ q_cmp default_reg CGe (Qn (Fin (mkq 28315 100)) {[ "kelvin" := 1%Qc ]}) (Qty (Qn (Fin (mkq 50 1)) {[ "degree_Fahrenheit" := 1%Qc ]})) = Ok true.
Proof. repeat split; vm_compute; reflexivity. Qed.

(** * Reflected forms agree with the plain forms *)
(** [b.__rop__(a)] with a quantity [a] is [a op b] ([__rtruediv__], [__rpow__] are operator
    paths only for a bare left operand) *)
Theorem C03_reflected_agree r cfg op a b :
  reg_nz r → unit_ok ptrue r (q_u a) → unit_ok ptrue r (q_u b) → op ≠ ODiv → op ≠ OPow →
  res_equiv ptrue r (q_rbin cfg r op b (Qty a)) (q_bin cfg r op a (Qty b)).
Proof.
  intros H Ha Hb N1 N2. eapply hom_equiv.
  - pose proof (q_rbin_qty_hom ptrue ptrue_closed r H cfg op b a Hb Ha) as X. destruct op; try contradiction; exact X.
  - apply (q_bin_hom ptrue ptrue_closed); assumption.
Qed.
(** with a bare number on the left, [n op b] is the operator of the value algebra applied to
    (n, phys b) in the written order — the same function [p_bin] the plain form computes *)
Theorem C03_reflected_hom r cfg op b n :
  reg_nz r → unit_ok ptrue r (q_u b) →
  ohom ptrue r (q_rbin cfg r op b (Num n)) (p_bin op (PN n) (ophys r (Qty b))).
Proof. intros H. exact (q_rbin_num_hom ptrue ptrue_closed r H cfg op b n). Qed.
Theorem C03_plain_hom r cfg op a o :
  reg_nz r → unit_ok ptrue r (q_u a) → ogood ptrue r o →
  ohom ptrue r (q_bin cfg r op a o) (p_bin op (ophys r (Qty a)) (ophys r o)).
Proof. intros H. exact (q_bin_hom ptrue ptrue_closed r H cfg op a o). Qed.

(** * In-place forms agree with the plain forms and modify nothing but their target *)
(** literal equality of results, for every registry and every unit; [**=] excepted where F80 strikes *)
Theorem C03_inplace_agree_guarded r cfg op a o :
  (op = OPow → f80_hit r cfg o = false) →
  (x ←r q_ibin cfg r op a o; Ok x.1) = q_bin cfg r op a o.
Proof. exact (ibin_agree r cfg op a o). Qed.
Theorem C03_inplace_agree_repaired r cfg op a o :
  c_f80 cfg = false → (x ←r q_ibin cfg r op a o; Ok x.1) = q_bin cfg r op a o.
Proof. intros H. apply ibin_agree. intros _. unfold f80_hit. rewrite H. reflexivity. Qed.
(** as coded (F80): [a **= Q(0, "")] on an ndarray target raises TypeError where [a ** Q(0, "")] is 1 *)
Theorem C03_inplace_agree_refuted :
  ∃ a e x, q_ipow cfg_coded default_reg a (Qty e) = Err EType ∧ q_pow default_reg a (Qty e) = Ok x.
Proof.
  exists (Qn (Fin (mkq 2 1)) {[ "meter" := 1%Qc ]}), (Qn (Fin 0) ∅), (Qn (Fin 1) ∅).
  split; vm_compute; reflexivity.
Qed.
(** the right operand is returned untouched: multiplicative right operands, every configuration *)
Theorem C03_inplace_frame_guarded r cfg op a o x o' :
  q_ibin cfg r op a o = Ok (x, o') → (∀ b, o = Qty b → nonmult_units r (q_u b) = []) → o' = o.
Proof.
  intros H G. apply (ibin_frame r cfg op a o x o' H). right. intros b E. apply lone_offset_mult. exact (G b E).
Qed.
(** … and every right operand once [_imul_div] uses [to_root_units] instead of [ito_root_units] *)
Theorem C03_inplace_frame_repaired r cfg op a o x o' :
  c_f14 cfg = false → q_ibin cfg r op a o = Ok (x, o') → o' = o.
Proof. intros C H. apply (ibin_frame r cfg op a o x o' H). left. exact C. Qed.
(** as it was coded (F14, repaired in /repo by 243cd48; switch [c_f14 = true]): with
    autoconvert_offset_to_baseunit, [a *= b] leaves [b] (degC) in kelvin *)
Theorem C03_inplace_frame_refuted :
  ∃ cfg a b, c_autoconv cfg = true ∧ c_f14 cfg = true ∧
    ∃ x b', q_ibin cfg default_reg OMul a (Qty b) = Ok (x, Qty b') ∧ q_u b' ≠ q_u b.
Proof.
  exists (QCfg true true true), (Qn (Fin (mkq 2 1)) {[ "meter" := 1%Qc ]}),
         (Qn (Fin (mkq 10 1)) {[ "degree_Celsius" := 1%Qc ]}).
  split; [reflexivity|]. split; [reflexivity|]. eexists _, _. split.
  - vm_compute. reflexivity.
  - intros H. apply (f_equal (λ u : uc, u !! "kelvin")) in H. vm_compute in H. discriminate H.
Qed.

(** * The side conditions hold for the registry regenerated from /repo *)
Theorem C03_default_registry_nonzero_scales : reg_nz default_reg.
Proof. apply reg_nzb_spec. vm_compute. reflexivity. Qed.
(** exactly one definition of the bundled registry has a non-positive scale *)
Example C03_default_registry_negative_scales :
  map fst (List.filter (λ kv, negb (qpos (u_scale kv.2) || u_float kv.2)) (map_to_list (r_units default_reg)))
  = ["electron_g_factor"; "g_e"].
Proof. vm_compute. reflexivity. Qed.

Definition qq (n : Z) (d : positive) (l : list (string * Qc)) : operand := Qty (Qn (Fin (mkq n d)) (mkuc l)).
(** 1 inch + 1 cm in both orders: 177/127 inch and 177/50 cm, the same physical value *)
Example C03_example_inch_plus_cm :
  match apply_bin cfg_coded default_reg OAdd FPlain (qq 1 1 [("inch", mkq 1 1)]) (qq 1 1 [("centimeter", mkq 1 1)]),
        apply_bin cfg_coded default_reg OAdd FPlain (qq 1 1 [("centimeter", mkq 1 1)]) (qq 1 1 [("inch", mkq 1 1)]) with
  | Ok (Qty x), Ok (Qty y) =>
      bool_decide (q_m x = Fin (mkq 177 127)) && bool_decide (q_m y = Fin (mkq 177 50))
      && pval_eqb (ophys default_reg (Qty x)) (ophys default_reg (Qty y))
  | _, _ => false
  end = true.
Proof. vm_compute. reflexivity. Qed.
(** the hypotheses of the covariance theorems are met by concrete, non-trivial operands:
    prefixed units, another unit of the same dimension, percent / radian for dimensionless *)
Example C03_example_equivalent_operands :
  oequiv ptrue default_reg (qq 1 1 [("inch", mkq 1 1)]) (qq 254 100 [("centimeter", mkq 1 1)])
  ∧ oequiv ptrue default_reg (qq 36 1 [("kilometer", mkq 1 1); ("hour", mkq (-1) 1)]) (qq 10 1 [("meter", mkq 1 1); ("second", mkq (-1) 1)])
  ∧ oequiv ptrue default_reg (qq 50 1 [("percent", mkq 1 1)]) (qq 1 2 [])
  ∧ oequiv ptrue default_reg (qq 3 1 [("radian", mkq 1 1)]) (qq 3 1 [("count", mkq 1 1)]).
Proof.
  split; [apply oequivb_spec; vm_compute; reflexivity|]. split; [apply oequivb_spec; vm_compute; reflexivity|].
  split; apply oequivb_spec; vm_compute; reflexivity.
Qed.
(** an instance of the expression-level theorem: ((a + b) * c) // d, then abs, with every leaf
    re-expressed; and the two evaluations computed by the model *)
Definition ex_tree : expr (operand * operand) :=
  EUn UAbs (EBin OFloorDiv FPlain
    (EBin OMul FRefl
       (EBin OSub FInpl (ELeaf (qq 1 1 [("inch", mkq 1 1)], qq 254 100 [("centimeter", mkq 1 1)]))
                        (ELeaf (qq 7 2 [("foot", mkq 1 1)], qq 42 1 [("inch", mkq 1 1)])))
       (ELeaf (qq 36 1 [("kilometer", mkq 1 1); ("hour", mkq (-1) 1)], qq 10 1 [("meter", mkq 1 1); ("second", mkq (-1) 1)])))
    (ELeaf (qq 3 1 [("centimeter", mkq 2 1); ("minute", mkq (-1) 1)], qq 1 200000 [("meter", mkq 2 1); ("second", mkq (-1) 1)]))).
Example C03_example_eval_cov_instance :
  res_equiv ppos default_reg (eval cfg_coded default_reg (emap fst ex_tree)) (eval cfg_coded default_reg (emap snd ex_tree))
  ∧ match eval cfg_coded default_reg (emap fst ex_tree) with Ok (Qty x) => bool_decide (q_m x = Fin (mkq 2082800 1)) | _ => false end = true.
Proof.
  split.
  - apply C03_eval_cov_abs; [exact C03_default_registry_nonzero_scales|].
    repeat (apply Forall_cons; split; [apply (oequivpb_spec _ _ _ C03_default_registry_nonzero_scales); vm_compute; reflexivity|]).
    apply Forall_nil. exact I.
  - vm_compute. reflexivity.
Qed.
(** mixed dimensions and a bare number on a dimensioned quantity are refused; zero is accepted *)
Example C03_example_refusals :
  apply_bin cfg_coded default_reg OAdd FPlain (qq 1 1 [("inch", mkq 1 1)]) (qq 1 1 [("second", mkq 1 1)]) = Err EDim
  ∧ apply_bin cfg_coded default_reg OSub FPlain (qq 1 1 [("inch", mkq 1 1)]) (Num (Fin 1)) = Err EDim
  ∧ apply_bin cfg_coded default_reg OSub FRefl (Num (Fin 1)) (qq 1 1 [("inch", mkq 1 1)]) = Err EDim
  ∧ (∃ x, apply_bin cfg_coded default_reg OAdd FPlain (qq 1 1 [("inch", mkq 1 1)]) (Num (Fin 0)) = Ok x)
  ∧ (∃ x, apply_bin cfg_coded default_reg OAdd FPlain (qq 1 1 [("inch", mkq 1 1)]) (Num NaN) = Ok x)
  ∧ (∃ x, apply_bin cfg_coded default_reg OAdd FPlain (qq 50 1 [("percent", mkq 1 1)]) (Num (Fin 1)) = Ok x)
  ∧ apply_bin cfg_coded default_reg ODiv FPlain (qq 1 1 [("inch", mkq 1 1)]) (qq 0 1 [("second", mkq 1 1)]) = Err EZeroDiv.
Proof.
  split; [vm_compute; reflexivity|]. split; [vm_compute; reflexivity|]. split; [vm_compute; reflexivity|].
  split; [eexists; vm_compute; reflexivity|]. split; [eexists; vm_compute; reflexivity|].
  split; [eexists; vm_compute; reflexivity|]. vm_compute; reflexivity.
Qed.
