(** Properties/C04.v — units form a commutative group with a canonical representation.
    Only statements, each closed by [exact] of a lemma proved elsewhere. *)
From PintV Require Import Model.UC Model.Pi Proofs.UCProofs Proofs.PiProofs Proofs.PiBasisProofs.

Theorem C04_mul_comm a b : wf a → wf b → uc_mul a b = uc_mul b a.
Proof. exact (uc_mul_comm a b). Qed.
Theorem C04_mul_assoc a b c : wf a → wf b → uc_mul (uc_mul a b) c = uc_mul a (uc_mul b c).
Proof. exact (uc_mul_assoc a b c). Qed.
Theorem C04_mul_unit a : wf a → uc_mul a ∅ = a ∧ uc_mul ∅ a = a.
Proof. intros H. split; [exact (uc_mul_empty_r a) | exact (uc_mul_empty_l a H)]. Qed.
Theorem C04_div_self a : uc_div a a = ∅.
Proof. exact (uc_div_self a). Qed.
Theorem C04_pow_zero a : uc_pow a 0 = ∅.
Proof. exact (uc_pow_zero a). Qed.
Theorem C04_pow_one a : wf a → uc_pow a 1 = a.
Proof. exact (uc_pow_one a). Qed.
Theorem C04_pow_pow a x y : uc_pow (uc_pow a x) y = uc_pow a (x * y).
Proof. exact (uc_pow_pow a x y). Qed.
Theorem C04_pow_mul_distr a b e : wf a → uc_pow (uc_mul a b) e = uc_mul (uc_pow a e) (uc_pow b e).
Proof. exact (uc_pow_mul_distr a b e). Qed.
Theorem C04_div_as_mul_inv a b : wf a → uc_div a b = uc_mul a (uc_inv b).
Proof. exact (uc_div_as_mul_inv a b). Qed.
Theorem C04_exponents_add a b k : exp_of (uc_mul a b) k = (exp_of a k + exp_of b k)%Qc.
Proof. exact (exp_of_mul a b k). Qed.
Theorem C04_exponents_sub a b k : exp_of (uc_div a b) k = (exp_of a k - exp_of b k)%Qc.
Proof. exact (exp_of_div a b k). Qed.
Theorem C04_exponents_scale a e k : exp_of (uc_pow a e) k = (exp_of a k * e)%Qc.
Proof. exact (exp_of_pow a e k). Qed.
(** no zero-exponent entry survives any operation *)
Theorem C04_wf_closed a b e k v ks o n r :
  wf a → wf (uc_mul a b) ∧ wf (uc_div a b) ∧ wf (uc_pow a e) ∧ wf (uc_add a k v)
         ∧ (uc_remove a ks = Some r → wf r) ∧ (uc_rename a o n = Some r → wf r).
Proof.
  intros H. repeat split;
    [exact (wf_mul a b H) | exact (wf_div a b H) | exact (wf_pow a e) | exact (wf_add a k v H)
    | exact (wf_remove a ks r H) | exact (wf_rename a o n r H)].
Qed.
(** equal exactly when every unit has the same exponent *)
Theorem C04_eq_iff a b : wf a → wf b → (a = b ↔ ∀ k, exp_of a k = exp_of b k).
Proof. exact (uc_eq_iff a b). Qed.
(** [__eq__] (hash pre-check then dict compare) decides equality, given the cache invariant,
    without changing either operand's contents *)
Theorem C04_eq_correct s t :
  hash_inv s → hash_inv t →
  let '(s', t', r) := ucs_eq s t in
  (r = true ↔ ucs_d s = ucs_d t) ∧ ucs_d s' = ucs_d s ∧ ucs_d t' = ucs_d t ∧ hash_inv s' ∧ hash_inv t'.
Proof. exact (ucs_eq_correct s t). Qed.
Theorem C04_hash_respects_eq s t :
  hash_inv s → hash_inv t → ucs_d s = ucs_d t → snd (ucs_hash s) = snd (ucs_hash t).
Proof. exact (ucs_hash_respects_eq s t). Qed.
(** the invariant is re-established by every operation (results carry no stale hash) *)
Theorem C04_hash_inv_preserved s t e k v :
  hash_inv (ucs_mul s t) ∧ hash_inv (ucs_div s t) ∧ hash_inv (ucs_pow s e) ∧ hash_inv (ucs_add s k v)
  ∧ (hash_inv s → hash_inv (ucs_copy s)) ∧ (hash_inv s → hash_inv (fst (ucs_hash s))).
Proof.
  repeat split; [exact (hash_inv_mul s t) | exact (hash_inv_div s t) | exact (hash_inv_pow s e)
    | exact (hash_inv_add s k v) | exact (hash_inv_copy s) | intros H; exact (proj1 (hash_inv_hash s H))].
Qed.
(** the defect repaired by the fix: commit (F20) — the old power kept [{m: 0}] *)
Theorem C04_pow_keepzero_refuted : ∃ a, wf a ∧ uc_pow_keepzero a 0 ≠ ∅ ∧ ¬ wf (uc_pow_keepzero a 0).
Proof. exact uc_pow_keepzero_refuted. Qed.
(** Buckingham pi: every exponent vector returned by [pi_theorem] (and by the echelon step before
    pint's cosmetic rescaling) has one entry per input quantity and is a DIMENSIONLESS monomial:
    Σ_i v_i · dims(quantity_i) = 0, for every rectangular dimension matrix (no size bound).
    These two theorems keep their historical [_partial] names (each is one third of the property);
    that the vectors form a BASIS of the dimensionless monomials is now PROVED below, also for
    every rectangular matrix: [C04_pi_independent] / [C04_pi_spans] (and the same two for the
    echelon step, [C04_pi_echelon_independent] / [C04_pi_echelon_spans]). *)
Theorem C04_pi_dimensionless_partial cols A v :
  rect cols A → v ∈ pi_theorem A cols → length v = length A ∧ lincomb cols v A = repeat 0%Qc cols.
Proof. exact (pi_theorem_dimensionless cols A v). Qed.
Theorem C04_pi_echelon_dimensionless_partial cols A v :
  rect cols A → v ∈ pi_raw A cols → length v = length A ∧ lincomb cols v A = repeat 0%Qc cols.
Proof. exact (pi_raw_dimensionless cols A v). Qed.
(** the returned vectors are linearly independent: only the trivial combination vanishes *)
Theorem C04_pi_independent cols A c :
  rect cols A → length c = length (pi_theorem A cols) →
  lincomb (length A) c (pi_theorem A cols) = repeat 0%Qc (length A) → c = repeat 0%Qc (length c).
Proof. exact (pi_theorem_independent cols A c). Qed.
(** ... and they span: every dimensionless exponent vector is a combination of them *)
Theorem C04_pi_spans cols A v :
  rect cols A → length v = length A → lincomb cols v A = repeat 0%Qc cols →
  ∃ c, length c = length (pi_theorem A cols) ∧ v = lincomb (length A) c (pi_theorem A cols).
Proof. exact (pi_theorem_spans cols A v). Qed.
Theorem C04_pi_echelon_independent cols A c :
  rect cols A → length c = length (pi_raw A cols) →
  lincomb (length A) c (pi_raw A cols) = repeat 0%Qc (length A) → c = repeat 0%Qc (length c).
Proof. exact (pi_raw_independent cols A c). Qed.
Theorem C04_pi_echelon_spans cols A v :
  rect cols A → length v = length A → lincomb cols v A = repeat 0%Qc cols →
  ∃ c, length c = length (pi_raw A cols) ∧ v = lincomb (length A) c (pi_raw A cols).
Proof. exact (pi_raw_spans cols A v). Qed.
(** pendulum: period T, length L, mass M, gravity g over [time; length; mass] gives T²·g/L *)
Example C04_pi_pendulum :
  let A := [[mkq 1 1; mkq 0 1; mkq 0 1]; [mkq 0 1; mkq 1 1; mkq 0 1]; [mkq 0 1; mkq 0 1; mkq 1 1];
            [mkq (-2) 1; mkq 1 1; mkq 0 1]] in
  rect 3 A ∧ length (pi_theorem A 3) = 1%nat.
Proof. split; [repeat constructor | vm_compute; reflexivity]. Qed.
(** non-vacuity of [C04_pi_spans]: its hypotheses hold for the pendulum matrix and the non-zero
    vector T²·g/L = [2; -1; 0; 1], and the returned basis is not empty *)
Example C04_pi_spans_nonvacuous :
  let A := [[mkq 1 1; mkq 0 1; mkq 0 1]; [mkq 0 1; mkq 1 1; mkq 0 1]; [mkq 0 1; mkq 0 1; mkq 1 1];
            [mkq (-2) 1; mkq 1 1; mkq 0 1]] in
  let v := [mkq 2 1; mkq (-1) 1; mkq 0 1; mkq 1 1] in
  rect 3 A ∧ length v = length A ∧ lincomb 3 v A = repeat 0%Qc 3
  ∧ is_zero_vec v = false ∧ length (pi_theorem A 3) = 1%nat.
Proof.
  split; [repeat constructor|]. split; [reflexivity|]. split; [apply zero_vec_check; vm_compute; reflexivity|].
  split; vm_compute; reflexivity.
Qed.
(** non-vacuity: hypotheses are met by a concrete non-trivial container *)
Example C04_nonvacuous : wf (mkuc [("meter", mkq 1 1); ("second", mkq (-2) 1)])
  ∧ uc_pow (mkuc [("meter", mkq 1 1); ("second", mkq (-2) 1)]) (mkq 1 2)
    = mkuc [("meter", mkq 1 2); ("second", mkq (-1) 1)].
Proof. split; [apply wfb_spec | apply uc_eqb_spec]; vm_compute; reflexivity. Qed.
