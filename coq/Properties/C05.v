(** Properties/C05.v — equality, ordering and hashing agree with physical value.
    Statements only; proofs in Proofs/QCompareProofs.v.  The theorems hold for EVERY registry [r]
    satisfying the stated decidable side conditions, and for the switch values [qk] named.

    Vocabulary (Model/QCompare.v, Proofs/QCompareProofs.v).
    [q_eq qk r a o], [q_compare r a o], [q_hash qk r a]: branch-for-branch models of
    [PlainQuantity.__eq__], [compare], [__hash__]; [qk = as_coded] is the unchanged tree,
    [repaired] the behaviour after the two proposed patches.
    [phys r q = Some (d, v)]: dimensionality and magnitude in root units — [x·f] for a
    multiplicative unit, [(s·x + o)·f] for a single offset unit; [phys_eq] is equality of these.
    [mult_unit r u d f]: [u] is a canonical multiplicative container of dimensionality [d] whose
    expansion to root units is exact with factor [f]; [offs_unit r u d s o f]: a single offset
    unit [x ↦ s·x + o] onto a multiplicative reference; [opnd] = either; [rooted r u d s o f B]:
    moreover [B] is the root container of [u] and is its own root.  All are decidable
    ([mult_unitb], [offs_unitb], [root_unitb]) and checked below on the regenerated registry. *)
From PintV Require Import Model.UC Model.Eval Model.Registry Model.QCompare.
From PintV Require Import Proofs.UCProofs Proofs.RegistryProofs Proofs.RootProofs Proofs.FactorProofs Proofs.QCompareProofs.
From PintV Require Import Gen.DefaultDefs Gen.DefaultReg.
Open Scope string_scope.
Ltac conj := repeat match goal with |- _ ∧ _ => split end.

(** ** == is physical equality on multiplicative units, hence an equivalence there *)
Theorem C05_eq_spec_mult qk r ma mb ua ub da db fa fb :
  reg_nz r → mult_unit r ua da fa → mult_unit r ub db fb →
  ∃ bb, q_eq qk r (Qty ma ua) (OQty (Qty mb ub)) = Ok bb ∧ (bb = true ↔ phys_eq r (Qty ma ua) (Qty mb ub)).
Proof. exact (eq_spec_mult qk r ma mb ua ub da db fa fb). Qed.
Theorem C05_eq_reflexive_mult qk r x u d f :
  reg_nz r → mult_unit r u d f → q_eq qk r (Qty (Fin x) u) (OQty (Qty (Fin x) u)) = Ok true.
Proof. exact (eq_refl_mult qk r x u d f). Qed.
Theorem C05_eq_symmetric_mult qk r ma mb ua ub da db fa fb :
  reg_nz r → mult_unit r ua da fa → mult_unit r ub db fb →
  q_eq qk r (Qty ma ua) (OQty (Qty mb ub)) = q_eq qk r (Qty mb ub) (OQty (Qty ma ua)).
Proof. exact (eq_sym_mult qk r ma mb ua ub da db fa fb). Qed.
Theorem C05_eq_transitive_mult qk r ma mb mc ua ub uc' da db dc fa fb fc :
  reg_nz r → mult_unit r ua da fa → mult_unit r ub db fb → mult_unit r uc' dc fc →
  q_eq qk r (Qty ma ua) (OQty (Qty mb ub)) = Ok true →
  q_eq qk r (Qty mb ub) (OQty (Qty mc uc')) = Ok true →
  q_eq qk r (Qty ma ua) (OQty (Qty mc uc')) = Ok true.
Proof. exact (eq_trans_mult qk r ma mb mc ua ub uc' da db dc fa fb fc). Qed.

(** ** all units.  Full statement (what the property asks):
      [∀ a b, opnd a → opnd b → (q_eq as_coded r a b = Ok true ↔ phys_eq r a b)].
    The faithful model violates it in two regions; outside them it holds. *)
(** F1 — the both-zero shortcut: 0 degC == 0 K is True … *)
Theorem C05_eq_spec_refuted :
  ∃ a b, q_eq as_coded default_reg a (OQty b) = Ok true ∧ ¬ phys_eq default_reg a b
         ∧ both_zero_offset default_reg a b = true.
Proof.
  exists (Qn 0 1 "degree_Celsius"), (Qn 0 1 "kelvin").
  split; [vm_compute; reflexivity|]. split; [|vm_compute; reflexivity].
  rewrite <- phys_eqb_spec. vm_compute. discriminate.
Qed.
(** … and so is 0 degC == 273.15 K: equality is not transitive *)
Theorem C05_eq_transitive_refuted :
  ∃ a b c, q_eq as_coded default_reg a (OQty b) = Ok true ∧ q_eq as_coded default_reg b (OQty c) = Ok true
           ∧ q_eq as_coded default_reg a (OQty c) = Ok false.
Proof.
  exists (Qn 27315 100 "kelvin"), (Qn 0 1 "degree_Celsius"), (Qn 0 1 "kelvin").
  conj; vm_compute; reflexivity.
Qed.
(** F85 — an offset unit against a delta_ unit: == refuses the conversion although both sides
    are the same number of kelvin; not transitive through kelvin, and none of <, ==, > holds *)
Theorem C05_eq_delta_offset_refuted :
  ∃ a b c, q_eq as_coded default_reg a (OQty b) = Ok true ∧ q_eq as_coded default_reg b (OQty c) = Ok true
           ∧ q_eq as_coded default_reg a (OQty c) = Ok false ∧ phys_eq default_reg a c
           ∧ q_compare default_reg a (OQty c) = Ok OEq
           ∧ delta_offset_clash default_reg (q_u a) (q_u c) = true
           ∧ q_eq repaired default_reg a (OQty c) = Ok false.
Proof.
  exists (Qn 1 1 "delta_degree_Celsius"), (Qn 1 1 "kelvin"), (Qn (-27215) 100 "degree_Celsius").
  conj; try (vm_compute; reflexivity). rewrite <- phys_eqb_spec. vm_compute. reflexivity.
Qed.
(** outside the two regions == is physical equality, for multiplicative and offset units alike *)
Theorem C05_eq_spec_guarded r ma mb ua ub da db sa oa fa sb ob fb :
  reg_nz r → opnd r ua da sa oa fa → opnd r ub db sb ob fb →
  both_zero_offset r (Qty ma ua) (Qty mb ub) = false →
  delta_offset_clash r ua ub = false →
  ∃ bb, q_eq as_coded r (Qty ma ua) (OQty (Qty mb ub)) = Ok bb ∧ (bb = true ↔ phys_eq r (Qty ma ua) (Qty mb ub)).
Proof. intros Hnz Ha Hb Hz. apply (q_eq_opnd as_coded r ma mb ua ub da db sa oa fa sb ob fb Hnz Ha Hb). intros _. exact Hz. Qed.
(** with the both-zero shortcut restricted to multiplicative units (proposed patch) the first
    guard disappears *)
Theorem C05_eq_spec_repaired qk r ma mb ua ub da db sa oa fa sb ob fb :
  zero_shortcut_any_unit qk = false →
  reg_nz r → opnd r ua da sa oa fa → opnd r ub db sb ob fb → delta_offset_clash r ua ub = false →
  ∃ bb, q_eq qk r (Qty ma ua) (OQty (Qty mb ub)) = Ok bb ∧ (bb = true ↔ phys_eq r (Qty ma ua) (Qty mb ub)).
Proof.
  intros Hq Hnz Ha Hb. apply (q_eq_opnd qk r ma mb ua ub da db sa oa fa sb ob fb Hnz Ha Hb).
  rewrite Hq. discriminate.
Qed.
Theorem C05_eq_transitive_guarded qk r ma mb mc ua ub uc' da db dc sa oa fa sb ob fb sc oc fc :
  reg_nz r → opnd r ua da sa oa fa → opnd r ub db sb ob fb → opnd r uc' dc sc oc fc →
  (zero_shortcut_any_unit qk = true →
     both_zero_offset r (Qty ma ua) (Qty mb ub) = false ∧ both_zero_offset r (Qty mb ub) (Qty mc uc') = false
     ∧ both_zero_offset r (Qty ma ua) (Qty mc uc') = false) →
  delta_offset_clash r ua ub = false → delta_offset_clash r ub uc' = false → delta_offset_clash r ua uc' = false →
  q_eq qk r (Qty ma ua) (OQty (Qty mb ub)) = Ok true →
  q_eq qk r (Qty mb ub) (OQty (Qty mc uc')) = Ok true →
  q_eq qk r (Qty ma ua) (OQty (Qty mc uc')) = Ok true.
Proof. exact (eq_trans_opnd qk r ma mb mc ua ub uc' da db dc sa oa fa sb ob fb sc oc fc). Qed.
(** the conversion [==] applies: degX → degY is [x ↦ ((s_X·x + o_X)·f_X/f_Y − o_Y)/s_Y] *)
Theorem C05_conversion_affine r m ua ub d sa oa fa sb ob fb :
  reg_nz r → opnd r ua d sa oa fa → opnd r ub d sb ob fb → delta_offset_clash r ua ub = false →
  convert r m ua ub = Ok (mag_map (λ x, ((x * sa + oa) * fa / fb - ob) / sb)%Qc m).
Proof. exact (convert_opnd r m ua ub d sa oa fa sb ob fb). Qed.

(** ** hashing.  Full statement: [q_eq as_coded r a b = Ok true → q_hash as_coded r a = q_hash as_coded r b]. *)
(** F2 — 1 hertz == 1 becquerel, but the root-unit containers 1/second and count/second differ *)
Theorem C05_hash_respects_eq_refuted :
  ∃ a b, q_eq as_coded default_reg a (OQty b) = Ok true ∧ phys_eq default_reg a b
         ∧ (∃ x, q_hash as_coded default_reg a = Ok x) ∧ (∃ y, q_hash as_coded default_reg b = Ok y)
         ∧ hash_agree as_coded default_reg a b = false
         ∧ both_zero_offset default_reg a b = false ∧ delta_offset_clash default_reg (q_u a) (q_u b) = false.
Proof.
  exists (Qn 1 1 "hertz"), (Qn 1 1 "becquerel").
  split; [vm_compute; reflexivity|]. split; [rewrite <- phys_eqb_spec; vm_compute; reflexivity|].
  split; [eexists; vm_compute; reflexivity|]. split; [eexists; vm_compute; reflexivity|].
  conj; vm_compute; reflexivity.
Qed.
(** equal root-unit containers (or dimensionless, or the patched hash) ⇒ equal hashes *)
Theorem C05_hash_respects_eq_guarded qk r ma mb ua ub da db sa oa fa sb ob fb Ba Bb :
  reg_nz r → rooted r ua da sa oa fa Ba → rooted r ub db sb ob fb Bb →
  (zero_shortcut_any_unit qk = true → both_zero_offset r (Qty ma ua) (Qty mb ub) = false) →
  delta_offset_clash r ua ub = false →
  (hash_on_units qk = true → Ba = Bb ∨ da = ∅) →
  q_eq qk r (Qty ma ua) (OQty (Qty mb ub)) = Ok true →
  ∃ h, q_hash qk r (Qty ma ua) = Ok h ∧ q_hash qk r (Qty mb ub) = Ok h.
Proof. exact (hash_respects_eq qk r ma mb ua ub da db sa oa fa sb ob fb Ba Bb). Qed.
(** with both proposed patches: no guard besides the delta/offset one *)
Theorem C05_hash_respects_eq_repaired r ma mb ua ub da db sa oa fa sb ob fb Ba Bb :
  reg_nz r → rooted r ua da sa oa fa Ba → rooted r ub db sb ob fb Bb → delta_offset_clash r ua ub = false →
  q_eq repaired r (Qty ma ua) (OQty (Qty mb ub)) = Ok true →
  ∃ h, q_hash repaired r (Qty ma ua) = Ok h ∧ q_hash repaired r (Qty mb ub) = Ok h.
Proof.
  intros Hnz Ha Hb Hc. apply (hash_respects_eq repaired r ma mb ua ub da db sa oa fa sb ob fb Ba Bb Hnz Ha Hb); try assumption; discriminate.
Qed.
(** what is hashed: the magnitude in root units, with the root container unless dimensionless *)
Theorem C05_hash_value qk r m u d s o f B :
  reg_nz r → rooted r u d s o f B →
  q_hash qk r (Qty m u) =
  Ok (let v := mag_map (λ x, (x * s + o) * f)%Qc m in
      if uc_eqb d ∅ then HNum v else if hash_on_units qk then HUnits v B else HDim v d).
Proof. exact (q_hash_rooted qk r m u d s o f B). Qed.

(** ** ordering *)
(** same dimension, positively scaled multiplicative units: the outcome of [compare] is the
    order of the root-unit magnitudes, == agrees with it, exactly one of <, ==, > holds *)
Theorem C05_trichotomy qk r x y ua ub d fa fb Ba Bb :
  reg_nz r → rooted r ua d 1 0 fa Ba → rooted r ub d 1 0 fb Bb →
  mult_unit r ua d fa → mult_unit r ub d fb → (0 < fa)%Qc → (0 < fb)%Qc →
  let a := Qty (Fin x) ua in let b := Qty (Fin y) ub in
  let c := mag_cmp (Fin (x * fa)%Qc) (Fin (y * fb)%Qc) in
  q_compare r a (OQty b) = Ok c
  ∧ q_eq qk r a (OQty b) = Ok (ord_eq c)
  ∧ q_lt r a (OQty b) = Ok (ord_lt c) ∧ q_gt r a (OQty b) = Ok (ord_gt c)
  ∧ q_le r a (OQty b) = Ok (ord_le c) ∧ q_ge r a (OQty b) = Ok (ord_ge c)
  ∧ exactly_one (ord_lt c) (ord_eq c) (ord_gt c).
Proof. exact (trichotomy_mult qk r x y ua ub d fa fb Ba Bb). Qed.
(** in the specification's terms: < is [phys_lt], > its converse, == is [phys_eq] *)
Theorem C05_order_is_phys_order qk r x y ua ub d fa fb Ba Bb :
  reg_nz r → rooted r ua d 1 0 fa Ba → rooted r ub d 1 0 fb Bb →
  mult_unit r ua d fa → mult_unit r ub d fb → (0 < fa)%Qc → (0 < fb)%Qc →
  let a := Qty (Fin x) ua in let b := Qty (Fin y) ub in
  (q_lt r a (OQty b) = Ok true ↔ phys_lt r a b) ∧ (q_gt r a (OQty b) = Ok true ↔ phys_lt r b a)
  ∧ (q_eq qk r a (OQty b) = Ok true ↔ phys_eq r a b).
Proof. exact (lt_is_phys_lt qk r x y ua ub d fa fb Ba Bb). Qed.
(** ordering of distinct units of one dimensionality goes through root units, offset units too *)
Theorem C05_compare_is_root_order r ma mb ua ub d sa oa fa sb ob fb Ba Bb :
  reg_nz r → rooted r ua d sa oa fa Ba → rooted r ub d sb ob fb Bb → ua ≠ ub →
  q_compare r (Qty ma ua) (OQty (Qty mb ub)) =
  Ok (mag_cmp (mag_map (λ x, (x * sa + oa) * fa)%Qc ma) (mag_map (λ x, (x * sb + ob) * fb)%Qc mb)).
Proof. exact (q_compare_rooted r ma mb ua ub d sa oa fa sb ob fb Ba Bb). Qed.
(** across dimensions: ordering raises DimensionalityError while == answers False *)
Theorem C05_cmp_dim_mismatch qk r ma mb ua ub da db la lb :
  dim_of r ua = Ok da → dim_of r ub = Ok db → da ≠ db →
  nonmult_list r ua = Ok la → nonmult_list r ub = Ok lb →
  q_compare r (Qty ma ua) (OQty (Qty mb ub)) = Err EDim
  ∧ q_eq qk r (Qty ma ua) (OQty (Qty mb ub)) = Ok false.
Proof. exact (cmp_dim_mismatch qk r ma mb ua ub da db la lb). Qed.

(** ** bare numbers: defined iff the quantity is dimensionless or the number is zero / NaN *)
Theorem C05_number_comparison_rule r ma n u d f B :
  reg_nz r → rooted r u d 1 0 f B → mult_unit r u d f →
  ((∃ c, q_compare r (Qty ma u) (ONum n) = Ok c) ↔ (d = ∅ ∨ zero_or_nan n = true))
  ∧ (d ≠ ∅ → zero_or_nan n = false → ∀ qk, q_eq qk r (Qty ma u) (ONum n) = Ok false)
  ∧ (d ≠ ∅ → zero_or_nan n = false → q_compare r (Qty ma u) (ONum n) = Err EValue).
Proof. exact (number_rule_defined r ma n u d f B). Qed.
Theorem C05_number_comparison_value qk r ma n u d f B :
  reg_nz r → rooted r u d 1 0 f B → mult_unit r u d f →
  q_compare r (Qty ma u) (ONum n) =
    (if uc_eqb d ∅ then Ok (mag_cmp (mag_map (λ x, x * f)%Qc ma) n)
     else if zero_or_nan n then Ok (mag_cmp ma n) else Err EValue)
  ∧ q_eq qk r (Qty ma u) (ONum n) =
    (if zero_or_nan n then Ok (mag_eqb ma n)
     else if uc_eqb d ∅ then Ok (mag_eqb (mag_map (λ x, x * f)%Qc ma) n) else Ok false).
Proof. exact (number_rule qk r ma n u d f B). Qed.

(** ** registry mode [autoconvert_offset_to_baseunit]: between two quantities the flag is read only by
    [_validate_and_extract], and never for operand units — every theorem above holds in both modes *)
Theorem C05_autoconvert_mode_irrelevant ac r u d s o f :
  opnd r u d s o f → validate_extract_mode ac r u = validate_extract r u.
Proof. exact (validate_extract_mode_opnd ac r u d s o f). Qed.
(** the arithmetic predicate [_ok_for_muldiv] accepts a lone offset unit when the flag is set; it cannot
    stand in for "multiplicative" as the guard of the both-zero shortcut *)
Theorem C05_ok_for_muldiv_is_not_multiplicative r u d s o f m :
  offs_unit r u d s o f → size u = 1%nat →
  ok_for_muldiv true r (Qty m u) = Ok true ∧ q_is_mult r (Qty m u) = Ok false.
Proof. exact (ok_for_muldiv_offs r u d s o f m). Qed.

(** ** non-vacuity on the registry regenerated from /repo *)
Example C05_default_registry_nonzero_scales : reg_nz default_reg.
Proof. apply reg_nzb_spec. vm_compute. reflexivity. Qed.
(** inch and centimeter satisfy every hypothesis of the multiplicative theorems, with positive
    factors 127/5000 and 1/100 to the root unit meter *)
Example C05_hypotheses_inch_centimeter :
  (rooted default_reg (U "inch") Dlen 1 0 (mkq 127 5000) (U "meter") ∧ mult_unit default_reg (U "inch") Dlen (mkq 127 5000))
  ∧ (rooted default_reg (U "centimeter") Dlen 1 0 (mkq 1 100) (U "meter") ∧ mult_unit default_reg (U "centimeter") Dlen (mkq 1 100))
  ∧ (0 < mkq 127 5000)%Qc ∧ (0 < mkq 1 100)%Qc.
Proof.
  split; [|split; [|split; reflexivity]];
    (apply rooted_mult_check_spec; [exact C05_default_registry_nonzero_scales | vm_compute; reflexivity]).
Qed.
(** degree_Celsius is an offset operand [x ↦ x + 273.15] onto kelvin; kelvin and
    delta_degree_Celsius are multiplicative; percent and radian are dimensionless operands *)
Example C05_hypotheses_offset_and_dimensionless :
  rooted default_reg (U "degree_Celsius") Dtemp 1 (mkq 5463 20) 1 (U "kelvin")
  ∧ (rooted default_reg (U "kelvin") Dtemp 1 0 1 (U "kelvin") ∧ mult_unit default_reg (U "kelvin") Dtemp 1)
  ∧ (rooted default_reg (U "delta_degree_Celsius") Dtemp 1 0 1 (U "kelvin") ∧ mult_unit default_reg (U "delta_degree_Celsius") Dtemp 1)
  ∧ (rooted default_reg (U "percent") ∅ 1 0 (mkq 1 100) ∅ ∧ mult_unit default_reg (U "percent") ∅ (mkq 1 100))
  ∧ (rooted default_reg (U "radian") ∅ 1 0 1 (U "radian") ∧ mult_unit default_reg (U "radian") ∅ 1).
Proof.
  split; [apply rooted_offs_check_spec; [exact C05_default_registry_nonzero_scales | vm_compute; reflexivity]|].
  split; [|split; [|split]];
    (apply rooted_mult_check_spec; [exact C05_default_registry_nonzero_scales | vm_compute; reflexivity]).
Qed.
(** 1 inch == 2.54 cm; 1 inch < 3 cm; 0 degC differs from 0 kelvin physically, equals 273.15 K *)
Example C05_inch_is_254_cm :
  q_eq as_coded default_reg (Qn 1 1 "inch") (OQty (Qn 254 100 "centimeter")) = Ok true
  ∧ phys_eq default_reg (Qn 1 1 "inch") (Qn 254 100 "centimeter")
  ∧ q_compare default_reg (Qn 1 1 "inch") (OQty (Qn 3 1 "centimeter")) = Ok OLt
  ∧ hash_agree as_coded default_reg (Qn 1 1 "inch") (Qn 254 100 "centimeter") = true.
Proof. conj; try (vm_compute; reflexivity). rewrite <- phys_eqb_spec. vm_compute. reflexivity. Qed.
Example C05_zero_celsius_is_not_zero_kelvin :
  ¬ phys_eq default_reg (Qn 0 1 "degree_Celsius") (Qn 0 1 "kelvin")
  ∧ phys_eq default_reg (Qn 0 1 "degree_Celsius") (Qn 27315 100 "kelvin")
  ∧ q_eq repaired default_reg (Qn 0 1 "degree_Celsius") (OQty (Qn 0 1 "kelvin")) = Ok false
  ∧ q_eq repaired default_reg (Qn 0 1 "degree_Celsius") (OQty (Qn 27315 100 "kelvin")) = Ok true
  ∧ q_eq as_coded default_reg (Qn 5 1 "degree_Celsius") (OQty (Qn 41 1 "degree_Fahrenheit")) = Ok true.
Proof.
  split; [rewrite <- phys_eqb_spec; vm_compute; discriminate|].
  split; [rewrite <- phys_eqb_spec; vm_compute; reflexivity|]. conj; vm_compute; reflexivity.
Qed.
(** ordering across dimensions / against numbers on the default registry *)
Example C05_cross_dimension_and_numbers :
  q_compare default_reg (Qn 1 1 "meter") (OQty (Qn 1 1 "second")) = Err EDim
  ∧ q_eq as_coded default_reg (Qn 1 1 "meter") (OQty (Qn 1 1 "second")) = Ok false
  ∧ q_compare default_reg (Qn 5 1 "meter") (ONum (Fin (mkq 3 1))) = Err EValue
  ∧ q_compare default_reg (Qn 5 1 "meter") (ONum (Fin 0%Qc)) = Ok OGt
  ∧ q_compare default_reg (Qn 200 1 "percent") (ONum (Fin (mkq 3 1))) = Ok OLt
  ∧ q_eq as_coded default_reg (Qn 200 1 "percent") (ONum (Fin (mkq 2 1))) = Ok true
  ∧ hash_agree as_coded default_reg (Qn 1 1 "hertz") (Qn 1 1 "becquerel") = false
  ∧ hash_agree repaired default_reg (Qn 1 1 "hertz") (Qn 1 1 "becquerel") = true.
Proof. conj; vm_compute; reflexivity. Qed.
