(** Properties/C05.v — equality, ordering and hashing agree with physical value. (under construction) *)
From PintV Require Import Model.UC Model.Eval Model.Registry Model.QCompare.
From PintV Require Import Gen.DefaultDefs Gen.DefaultReg.
Open Scope string_scope.
Example C05_inch_is_254_cm :
  q_eq as_coded default_reg (Qty (Fin 1%Qc) {[ "inch" := 1%Qc ]}) (OQty (Qty (Fin (mkq 254 100)) {[ "centimeter" := 1%Qc ]})) = Ok true.
Proof. vm_compute. reflexivity. Qed.
