(** Properties/C06.v — offset and logarithmic units convert by their defining maps and refuse
    ambiguity.  Statements only; proofs in Proofs/OffsetProofs.v and Proofs/LogConv.v.

    Vocabulary.  [qk : quirks] selects, per finding F90-F92, the behaviour of the tree as found
    ([as_found]) or after the proposed repair ([repaired]); every theorem below that mentions
    [qk] holds for ALL switch values.  [offset_unit r X d o]: X is defined in r with converter
    OffsetConverter(scale d, o), o <> 0.  [plain_unit r X d]: X is multiplicative (absolute or
    delta).  [U1 X] is the container {X: 1}.  [plain_factor r a b = Ok f]: the multiplicative
    conversion factor of property C02.  [nonmult_units r u]: the container's non-multiplicative
    units with their exponents.  [refused x]: x is Err EOffset or Err EDim.
    The logarithmic theorems (and only they) use the real numbers of the standard library. *)
From Coq Require Import Reals.
From PintV Require Import Model.UC Model.Eval Model.Registry Model.Offset.
From PintV Require Import Proofs.UCProofs Proofs.RegistryProofs Proofs.FactorProofs Proofs.OffsetProofs Proofs.LogConv.
From PintV Require Import Gen.Converters Gen.DefaultDefs Gen.DefaultReg.
Open Scope string_scope.

(** * Tie T4: the formulas read from the converter classes are the ones the model interprets *)
Theorem C06_tie_scale_converter : gen_scale_conv = scale_conv.
Proof. exact tie_scale_conv. Qed.
Theorem C06_tie_offset_converter : gen_offset_conv = offset_conv.
Proof. exact tie_offset_conv. Qed.
Theorem C06_tie_log_converter : gen_log_conv = log_conv.
Proof. exact tie_log_conv. Qed.

(** * The affine converters, over ANY field: mutually inverse for scale <> 0; in-place = functional *)
Theorem C06_offset_inverse {F : Type} (rO rI : F) radd rmul rsub ropp rdiv rinv
  (Fth : field_theory rO rI radd rmul rsub ropp rdiv rinv eq) (flog fexp : F → F) s o b f x :
  s ≠ rO →
  run_fun radd rsub rmul rdiv flog fexp (cc_from offset_conv)
    (mkenv s o b f (run_fun radd rsub rmul rdiv flog fexp (cc_to offset_conv) (mkenv s o b f x))) = x
  ∧ run_fun radd rsub rmul rdiv flog fexp (cc_to offset_conv)
    (mkenv s o b f (run_fun radd rsub rmul rdiv flog fexp (cc_from offset_conv) (mkenv s o b f x))) = x.
Proof. exact (offset_inverse_field rO rI radd rmul rsub ropp rdiv rinv Fth flog fexp s o b f x). Qed.
Theorem C06_scale_inverse {F : Type} (rO rI : F) radd rmul rsub ropp rdiv rinv
  (Fth : field_theory rO rI radd rmul rsub ropp rdiv rinv eq) (flog fexp : F → F) s o b f x :
  s ≠ rO →
  run_fun radd rsub rmul rdiv flog fexp (cc_from scale_conv)
    (mkenv s o b f (run_fun radd rsub rmul rdiv flog fexp (cc_to scale_conv) (mkenv s o b f x))) = x
  ∧ run_fun radd rsub rmul rdiv flog fexp (cc_to scale_conv)
    (mkenv s o b f (run_fun radd rsub rmul rdiv flog fexp (cc_from scale_conv) (mkenv s o b f x))) = x.
Proof. exact (scale_inverse_field rO rI radd rmul rsub ropp rdiv rinv Fth flog fexp s o b f x). Qed.
Theorem C06_inplace_eq_functional {F : Type} (rO rI : F) radd rmul rsub ropp rdiv rinv
  (Fth : field_theory rO rI radd rmul rsub ropp rdiv rinv eq) (flog fexp : F → F) s o b f x :
  let I := run_inpl radd rsub rmul rdiv flog fexp in let E := run_fun radd rsub rmul rdiv flog fexp in
  I (cc_to offset_conv) (mkenv s o b f x) = E (cc_to offset_conv) (mkenv s o b f x)
  ∧ I (cc_from offset_conv) (mkenv s o b f x) = E (cc_from offset_conv) (mkenv s o b f x)
  ∧ I (cc_to scale_conv) (mkenv s o b f x) = E (cc_to scale_conv) (mkenv s o b f x)
  ∧ I (cc_from scale_conv) (mkenv s o b f x) = E (cc_from scale_conv) (mkenv s o b f x).
Proof. exact (inplace_eq_functional_field radd rmul rsub rdiv flog fexp s o b f x). Qed.
Theorem C06_log_inplace_eq_functional_any_field {F : Type} (rO rI : F) radd rmul rsub ropp rdiv rinv
  (Fth : field_theory rO rI radd rmul rsub ropp rdiv rinv eq) (flog fexp : F → F) s o b f x :
  flog b ≠ rO →
  run_inpl radd rsub rmul rdiv flog fexp (cc_to log_conv) (mkenv s o b f x)
  = run_fun radd rsub rmul rdiv flog fexp (cc_to log_conv) (mkenv s o b f x)
  ∧ run_inpl radd rsub rmul rdiv flog fexp (cc_from log_conv) (mkenv s o b f x)
  = run_fun radd rsub rmul rdiv flog fexp (cc_from log_conv) (mkenv s o b f x).
Proof. exact (log_inplace_eq_functional_field rO rI radd rmul rsub ropp rdiv rinv Fth flog fexp s o b f x). Qed.
(** the in-place twins of the model compute what the functional forms compute *)
Theorem C06_inplace_twins qk r auto sub div a b x s d q e :
  convert_gen qk true r auto x s d = convert_gen qk false r auto x s d
  ∧ iadd_sub qk r auto sub a b = add_sub qk r auto sub a b
  ∧ imul_div qk r auto div a b = mul_div qk r auto div a b
  ∧ q_ipow qk r auto q e = q_pow qk r auto q e.
Proof.
  repeat split; [exact (convert_gen_inplace qk r auto x s d) | exact (iadd_sub_eq qk r auto sub a b)
                | exact (imul_div_eq qk r auto div a b) | exact (q_ipow_eq qk r auto q e)].
Qed.

(** * Conversions between single units follow the defining maps *)
(** degX -> degY : x |-> ((s_X x + o_X) f - o_Y) / s_Y, f the factor between the reference units *)
Theorem C06_offset_conv_affine qk r auto inpl X Y dx ox dy oy d f x :
  X ≠ Y → offset_unit r X dx ox → offset_unit r Y dy oy →
  dim_of r (U1 X) = Ok d → dim_of r (U1 Y) = Ok d →
  plain_factor r (u_ref dx) (u_ref dy) = Ok f →
  convert_gen qk inpl r auto x (U1 X) (U1 Y) = Ok (((x * u_scale dx + ox) * f - oy) / u_scale dy)%Qc.
Proof. exact (offset_conv_affine qk r auto inpl X Y dx ox dy oy d f x). Qed.
(** ... and when both are defined over the same reference unit: x |-> (s_X x + o_X - o_Y) / s_Y *)
Theorem C06_offset_conv_affine_same_reference qk r auto inpl X Y dx ox dy oy d d' x :
  X ≠ Y → offset_unit r X dx ox → offset_unit r Y dy oy →
  dim_of r (U1 X) = Ok d → dim_of r (U1 Y) = Ok d →
  u_ref dx = u_ref dy → dim_of r (u_ref dx) = Ok d' →
  convert_gen qk inpl r auto x (U1 X) (U1 Y) = Ok ((x * u_scale dx + ox - oy) / u_scale dy)%Qc.
Proof. exact (offset_conv_affine_same_ref qk r auto inpl X Y dx ox dy oy d d' x). Qed.
Theorem C06_offset_to_absolute qk r auto inpl X Y dx ox dy d f x :
  offset_unit r X dx ox → plain_unit r Y dy → is_delta_name Y = false →
  dim_of r (U1 X) = Ok d → dim_of r (U1 Y) = Ok d →
  plain_factor r (u_ref dx) (U1 Y) = Ok f →
  convert_gen qk inpl r auto x (U1 X) (U1 Y) = Ok ((x * u_scale dx + ox) * f)%Qc.
Proof. exact (offset_to_plain qk r auto inpl X Y dx ox dy d f x). Qed.
Theorem C06_absolute_to_offset qk r auto inpl X Y dx dy oy d f x :
  plain_unit r X dx → offset_unit r Y dy oy → is_delta_name X = false →
  dim_of r (U1 X) = Ok d → dim_of r (U1 Y) = Ok d →
  plain_factor r (U1 X) (u_ref dy) = Ok f →
  convert_gen qk inpl r auto x (U1 X) (U1 Y) = Ok ((x * f - oy) / u_scale dy)%Qc.
Proof. exact (plain_to_offset qk r auto inpl X Y dx dy oy d f x). Qed.
(** delta units (every pair of multiplicative units) convert by the scale factor only *)
Theorem C06_delta_conv_scale_only qk r auto inpl X Y dx dy f x :
  X ≠ Y → plain_unit r X dx → plain_unit r Y dy →
  plain_factor r (U1 X) (U1 Y) = Ok f →
  convert_gen qk inpl r auto x (U1 X) (U1 Y) = Ok (x * f)%Qc.
Proof. exact (delta_conv_scale_only qk r auto inpl X Y dx dy f x). Qed.
(** an offset unit converts neither to nor from a delta unit: DimensionalityError *)
Theorem C06_offset_delta_refused qk r auto inpl X Y dx ox dy a b x :
  offset_unit r X dx ox → plain_unit r Y dy → is_delta_name Y = true →
  dim_of r (U1 X) = Ok a → dim_of r (U1 Y) = Ok b →
  convert_gen qk inpl r auto x (U1 X) (U1 Y) = Err EDim ∧ convert_gen qk inpl r auto x (U1 Y) (U1 X) = Err EDim.
Proof. exact (offset_delta_refused qk r auto inpl X Y dx ox dy a b x). Qed.
(** mutually inverse and path independent (reference units: the exact units of property C02) *)
Theorem C06_conv_offset_roundtrip qk r auto inpl X Y dx ox dy oy d d' Fa Ba Fb Bb x :
  X ≠ Y → offset_unit r X dx ox → offset_unit r Y dy oy →
  dim_of r (U1 X) = Ok d → dim_of r (U1 Y) = Ok d →
  reg_nz r → exact_unit r (u_ref dx) Fa Ba → exact_unit r (u_ref dy) Fb Bb →
  dim_of r (u_ref dx) = Ok d' → dim_of r (u_ref dy) = Ok d' →
  (y ←r convert_gen qk inpl r auto x (U1 X) (U1 Y); convert_gen qk inpl r auto y (U1 Y) (U1 X)) = Ok x.
Proof. exact (conv_offset_roundtrip qk r auto inpl X Y dx ox dy oy d d' Fa Ba Fb Bb x). Qed.
Theorem C06_conv_offset_path_independent qk r auto inpl X Y Z dx ox dy oy dz oz d d' Fa Ba Fb Bb Fc Bc x :
  X ≠ Y → Y ≠ Z → X ≠ Z → offset_unit r X dx ox → offset_unit r Y dy oy → offset_unit r Z dz oz →
  dim_of r (U1 X) = Ok d → dim_of r (U1 Y) = Ok d → dim_of r (U1 Z) = Ok d →
  reg_nz r → exact_unit r (u_ref dx) Fa Ba → exact_unit r (u_ref dy) Fb Bb → exact_unit r (u_ref dz) Fc Bc →
  dim_of r (u_ref dx) = Ok d' → dim_of r (u_ref dy) = Ok d' → dim_of r (u_ref dz) = Ok d' →
  (y ←r convert_gen qk inpl r auto x (U1 X) (U1 Y); convert_gen qk inpl r auto y (U1 Y) (U1 Z))
  = convert_gen qk inpl r auto x (U1 X) (U1 Z).
Proof. exact (conv_offset_path_independent qk r auto inpl X Y Z dx ox dy oy dz oz d d' Fa Ba Fb Bb Fc Bc x). Qed.

(** * Logarithmic converter over the real numbers (standard-library real-number assumptions) *)
Theorem C06_log_inverse (s b f : R) : (0 < s)%R → (0 < b)%R → b ≠ 1%R → f ≠ 0%R →
  (∀ x, runR (cc_from log_conv) (envR s b f (runR (cc_to log_conv) (envR s b f x))) = x)
  ∧ (∀ v, (0 < v)%R → runR (cc_to log_conv) (envR s b f (runR (cc_from log_conv) (envR s b f v))) = v).
Proof. exact (log_inverse s b f). Qed.
Theorem C06_log_inplace_eq_functional (s b f x : R) : (0 < b)%R → b ≠ 1%R →
  runRi (cc_to log_conv) (envR s b f x) = runR (cc_to log_conv) (envR s b f x)
  ∧ runRi (cc_from log_conv) (envR s b f x) = runR (cc_from log_conv) (envR s b f x).
Proof. exact (log_inplace_eq_functional s b f x). Qed.
Theorem C06_log_to_log_roundtrip (s1 b1 f1 s2 b2 f2 k x : R) :
  (0 < s1)%R → (0 < b1)%R → b1 ≠ 1%R → f1 ≠ 0%R → (0 < s2)%R → (0 < b2)%R → b2 ≠ 1%R → f2 ≠ 0%R → (0 < k)%R →
  let fwd x := runR (cc_from log_conv) (envR s2 b2 f2 (runR (cc_to log_conv) (envR s1 b1 f1 x) * k)%R) in
  let bwd y := runR (cc_from log_conv) (envR s1 b1 f1 (runR (cc_to log_conv) (envR s2 b2 f2 y) * / k)%R) in
  bwd (fwd x) = x.
Proof. exact (log_to_log_roundtrip s1 b1 f1 s2 b2 f2 k x). Qed.

(** * Addition and subtraction: the seven-branch code equals the decision table *)
(** For every registry, mode, operator and pair of operands (any containers): with the classes
    [classify] computes (Mult | Delta | Offset u | Mixed | Ambiguous) the result of [_add_sub] is
    the one the table row prescribes; rows marked RRefuse end in OffsetUnitCalculusError or
    DimensionalityError, never in a value.  (Mixed = an offset unit beside delta units in one
    container: undocumented, no claim.)  [delta_mult r n]: the unit named delta_n is multiplicative. *)
Theorem C06_add_sub_table qk r auto sub xa ua xb ub d nma nmb :
  dim_of r ua = Ok d → dim_of r ub = Ok d →
  nonmult_units r ua = Ok nma → nonmult_units r ub = Ok nmb →
  (∀ n, single_order1 nma = Some n → delta_mult r n) →
  (∀ n, single_order1 nmb = Some n → delta_mult r n) →
  let ca := classify qk r nma ua in
  let cb := classify qk r nmb ub in
  let cab := match ca with KOffset n _ => has_compatible_delta qk r ub n | _ => false end in
  let cba := match cb with KOffset n _ => has_compatible_delta qk r ua n | _ => false end in
  let w := offset_table sub ca cb cab cba in
  match w with
  | RUndocumented => True
  | RRefuse => refused (add_sub qk r auto sub (OQty xa ua) (OQty xb ub)).2
  | _ => (add_sub qk r auto sub (OQty xa ua) (OQty xb ub)).2 = row_result qk r auto sub w xa ua xb ub
  end.
Proof. exact (add_sub_table qk r auto sub xa ua xb ub d nma nmb). Qed.
(** the documented rows on single units, with their values *)
Theorem C06_offset_minus_offset_is_delta qk r auto X Y dx ox dy oy d xa xb :
  offset_unit r X dx ox → offset_unit r Y dy oy → delta_mult r X → delta_mult r Y →
  dim_of r (U1 X) = Ok d → dim_of r (U1 Y) = Ok d →
  (add_sub qk r auto true (OQty xa (U1 X)) (OQty xb (U1 Y))).2
  = (y ←r convert qk r auto xb (U1 Y) (U1 X); Ok ((xa - y)%Qc, U1 ("delta_" ++ X)))
  ∧ refused (add_sub qk r auto false (OQty xa (U1 X)) (OQty xb (U1 Y))).2.
Proof. exact (offset_minus_offset qk r auto X Y dx ox dy oy d xa xb). Qed.
Theorem C06_offset_and_absolute qk r auto X Y dx ox dy d xa xb :
  offset_unit r X dx ox → plain_unit r Y dy → is_delta_name Y = false → delta_mult r X →
  dim_of r (U1 X) = Ok d → dim_of r (U1 Y) = Ok d →
  (add_sub qk r auto true (OQty xa (U1 X)) (OQty xb (U1 Y))).2
  = (y ←r convert qk r auto xb (U1 Y) (U1 X); Ok ((xa - y)%Qc, U1 ("delta_" ++ X)))
  ∧ refused (add_sub qk r auto false (OQty xa (U1 X)) (OQty xb (U1 Y))).2
  ∧ (add_sub qk r auto true (OQty xb (U1 Y)) (OQty xa (U1 X))).2
    = (y ←r convert qk r auto xa (U1 X) (U1 Y); Ok ((xb - y)%Qc, U1 Y))
  ∧ refused (add_sub qk r auto false (OQty xb (U1 Y)) (OQty xa (U1 X))).2.
Proof. exact (offset_and_absolute qk r auto X Y dx ox dy d xa xb). Qed.
Theorem C06_offset_pm_delta_is_offset qk r auto sub X D dx ox dd d xa xb :
  offset_unit r X dx ox → plain_unit r D dd → is_delta_name D = true → delta_mult r X →
  has_compatible_delta qk r (U1 D) X = true →
  dim_of r (U1 X) = Ok d → dim_of r (U1 D) = Ok d →
  (add_sub qk r auto sub (OQty xa (U1 X)) (OQty xb (U1 D))).2
  = (y ←r convert qk r auto xb (U1 D) (U1 ("delta_" ++ X)); Ok (aop2 sub xa y, U1 X))
  ∧ (add_sub qk r auto sub (OQty xb (U1 D)) (OQty xa (U1 X))).2
  = (y ←r convert qk r auto xb (U1 D) (U1 ("delta_" ++ X)); Ok (aop2 sub y xa, U1 X)).
Proof. exact (offset_pm_delta qk r auto sub X D dx ox dd d xa xb). Qed.

(** * Multiplication, division, powers *)
(** quantity (op) quantity: an operand holding an offset unit is refused unless its container is
    exactly {offset unit: 1} and autoconvert is on; then it is replaced by its root-unit value *)
Theorem C06_muldiv_table qk r auto div xa ua xb ub nma nmb :
  nonmult_units r ua = Ok nma → nonmult_units r ub = Ok nmb →
  (mul_div qk r auto div (OQty xa ua) (OQty xb ub)).2
  = spec_mul_div qk r auto div (mclassify nma ua) (mclassify nmb ub) (xa, ua) (xb, ub).
Proof. exact (muldiv_table qk r auto div xa ua xb ub nma nmb). Qed.
(** quantity (op) number and number * quantity: only autoconvert multiplication, and it keeps the unit *)
Theorem C06_mul_number_table qk r auto div xa ua y nma :
  nonmult_units r ua = Ok nma →
  (mul_div qk r auto div (OQty xa ua) (ONum y)).2 = spec_mul_num auto div (mclassify nma ua) (xa, ua) y
  ∧ (mul_div qk r auto false (ONum y) (OQty xa ua)).2 = spec_mul_num auto false (mclassify nma ua) (xa, ua) y.
Proof. exact (mul_num_table qk r auto div xa ua y nma). Qed.
Theorem C06_number_div_table qk r auto y xb ub nmb :
  nonmult_units r ub = Ok nmb →
  (mul_div qk r auto true (ONum y) (OQty xb ub)).2
  = (b' ←r mprep qk r auto (mclassify nmb ub) (xb, ub); m ←r mop2 true y b'.1; Ok (m, uc_inv b'.2)).
Proof. exact (rdiv_table qk r auto y xb ub nmb). Qed.
Theorem C06_pow_table qk r auto q e nm :
  nonmult_units r q.2 = Ok nm →
  (q_pow qk r auto q e).2 =
    if (e =? 1)%Z then Ok q
    else if (e =? 0)%Z then Ok (1%Qc, ∅)
    else match nm with
         | [] => pow_plain q e
         | _ => if auto then (q' ←r to_root qk r auto q; pow_plain q' e) else Err EOffset
         end.
Proof. exact (pow_table qk r auto q e nm). Qed.

(** * Refusal of ambiguity *)
Theorem C06_refuse_ambiguity_add_sub qk r auto sub xa ua xb ub d nma nmb :
  dim_of r ua = Ok d → dim_of r ub = Ok d →
  nonmult_units r ua = Ok nma → nonmult_units r ub = Ok nmb →
  (∀ n, single_order1 nma = Some n → delta_mult r n) →
  (∀ n, single_order1 nmb = Some n → delta_mult r n) →
  offset_table sub (classify qk r nma ua) (classify qk r nmb ub)
    (match classify qk r nma ua with KOffset n _ => has_compatible_delta qk r ub n | _ => false end)
    (match classify qk r nmb ub with KOffset n _ => has_compatible_delta qk r ua n | _ => false end) = RRefuse →
  refused (add_sub qk r auto sub (OQty xa ua) (OQty xb ub)).2.
Proof. exact (refuse_add_sub qk r auto sub xa ua xb ub d nma nmb). Qed.
Theorem C06_refuse_dimension_mismatch qk r auto sub xa ua xb ub da db nma nmb :
  dim_of r ua = Ok da → dim_of r ub = Ok db → da ≠ db →
  nonmult_units r ua = Ok nma → nonmult_units r ub = Ok nmb →
  (add_sub qk r auto sub (OQty xa ua) (OQty xb ub)).2 = Err EDim.
Proof. exact (refuse_add_sub_dim qk r auto sub xa ua xb ub da db nma nmb). Qed.
Theorem C06_refuse_ambiguity_mul_div qk r auto div xa ua xb ub nma nmb :
  nonmult_units r ua = Ok nma → nonmult_units r ub = Ok nmb →
  mclassify nma ua = MCAmbig ∨ (mclassify nmb ub = MCAmbig ∧ mclassify nma ua = MCMult)
  ∨ (auto = false ∧ (nma ≠ [] ∨ (nma = [] ∧ nmb ≠ []))) →
  (mul_div qk r auto div (OQty xa ua) (OQty xb ub)).2 = Err EOffset.
Proof. exact (refuse_mul_div qk r auto div xa ua xb ub nma nmb). Qed.

(** * Non-vacuity on the registry regenerated from /repo (finite checks by computation) *)
(** degC, degF are offset units in the sense of the hypotheses above; kelvin and delta_degC are
    plain; every offset unit has its automatic delta_ unit (same scale and reference,
    ScaleConverter); delta_degC is multiplicative *)
Example C06_default_registry_units :
  offset_unitb default_reg degC && offset_unitb default_reg degF && plain_unitb default_reg kel
  && plain_unitb default_reg ddegC && deltas_okb default_reg
  && negb (is_nm default_reg ("delta_" ++ degC)) = true.
Proof. exact ex_units. Qed.
Example C06_default_registry_offset_unit_hypotheses :
  (∃ d o, offset_unit default_reg degC d o) ∧ (∃ d o, offset_unit default_reg degF d o)
  ∧ (∃ d, plain_unit default_reg kel d) ∧ delta_mult default_reg degC.
Proof. exact ex_hyps. Qed.
(** 10 degC = 50 degF = 283.15 K; 10 delta_degC = 18 delta_degF; ito agrees; degC -> delta_degC refused *)
Example C06_default_registry_conversions :
  n_is (convert as_found default_reg false (mkq 10 1) (U1 degC) (U1 degF)) (mkq 50 1)
  && n_is (convert as_found default_reg false (mkq 10 1) (U1 degC) (U1 kel)) (mkq 5663 20)
  && n_is (convert as_found default_reg false (mkq 10 1) (U1 ddegC) (U1 ddegF)) (mkq 18 1)
  && n_is (iconvert as_found default_reg false (mkq 50 1) (U1 degF) (U1 degC)) (mkq 10 1)
  && err_is (convert as_found default_reg false (mkq 10 1) (U1 degC) (U1 ddegC)) EDim = true.
Proof. exact ex_conv. Qed.
(** the rows of docs/user/nonmult.rst: 10 degC - 5 degC = 5 delta_degC; 10 degC + 5 delta_degC = 15 degC;
    degC + degC, degC + kelvin, degC * 2 raise; with autoconvert degC * 2 = 20 degC,
    10 degC * 2 m = 566.3 K m, degC ** 2 raises without autoconvert, (10 degC) ** -1 = 1/283.15 K *)
Example C06_default_registry_table_rows :
  q_is (add_sub as_found default_reg false true (OQty (mkq 10 1) (U1 degC)) (OQty (mkq 5 1) (U1 degC))).2 (mkq 5 1) (U1 ddegC)
  && q_is (add_sub as_found default_reg false false (OQty (mkq 10 1) (U1 degC)) (OQty (mkq 5 1) (U1 ddegC))).2 (mkq 15 1) (U1 degC)
  && err_is (add_sub as_found default_reg false false (OQty (mkq 10 1) (U1 degC)) (OQty (mkq 5 1) (U1 degC))).2 EOffset
  && err_is (add_sub as_found default_reg false false (OQty (mkq 10 1) (U1 degC)) (OQty (mkq 5 1) (U1 kel))).2 EOffset
  && err_is (mul_div as_found default_reg false false (OQty (mkq 10 1) (U1 degC)) (ONum (mkq 2 1))).2 EOffset
  && q_is (mul_div as_found default_reg true false (OQty (mkq 10 1) (U1 degC)) (ONum (mkq 2 1))).2 (mkq 20 1) (U1 degC)
  && q_is (mul_div as_found default_reg true false (OQty (mkq 10 1) (U1 degC)) (OQty (mkq 2 1) (U1 "meter"))).2
          (mkq 5663 10) (mkuc [(kel, mkq 1 1); ("meter", mkq 1 1)])
  && err_is (q_pow as_found default_reg false (mkq 10 1, U1 degC) 2).2 EOffset
  && q_is (q_pow as_found default_reg true (mkq 10 1, U1 degC) (-1)).2 (mkq 20 5663) (mkuc [(kel, mkq (-1) 1)]) = true.
Proof. exact ex_table. Qed.

(** * The findings: the faithful model ([as_found]) violates the property, the repaired one does not *)
(** F90  offset + delta is refused when the delta unit's offset unit is defined over another
    reference unit (degW = 3/2 degR; offset 10):  1 degC + 6 delta_degW raises, 1 degC - 6 delta_degW
    raises; repaired: 6 degC.  The guarded statement is [C06_offset_pm_delta_is_offset] (hypothesis
    [has_compatible_delta ... = true]). *)
Theorem C06_offset_pm_delta_refuted :
  offset_unitb reg_W degC && plain_unitb reg_W "delta_degW"
  && match dim_of reg_W (U1 degC), dim_of reg_W (U1 "delta_degW") with Ok a, Ok b => uc_eqb a b | _, _ => false end
  && err_is (add_sub as_found reg_W false false (OQty (mkq 1 1) (U1 degC)) (OQty (mkq 6 1) (U1 "delta_degW"))).2 EOffset
  && err_is (add_sub as_found reg_W false true (OQty (mkq 1 1) (U1 degC)) (OQty (mkq 6 1) (U1 "delta_degW"))).2 EDim
  && q_is (add_sub repaired reg_W false false (OQty (mkq 1 1) (U1 degC)) (OQty (mkq 6 1) (U1 "delta_degW"))).2 (mkq 6 1) (U1 degC) = true.
Proof. exact ex_F90. Qed.
(** F91  autoconvert: 10 degC*m -> degF*inch gives 50, the same number as -> degF*m (the length
    unit is ignored); repaired: the inch is accounted for.  Without autoconvert: refused. *)
Theorem C06_compound_conversion_refuted :
  n_is (convert as_found default_reg true (mkq 10 1) degC_m degF_in) (mkq 50 1)
  && n_is (convert as_found default_reg true (mkq 10 1) degC_m degF_m) (mkq 50 1)
  && n_is (convert repaired default_reg true (mkq 10 1) degC_m degF_in) (mkq 248997191 12700)
  && n_is (convert repaired default_reg true (mkq 10 1) degC_m degF_m) (mkq 50 1)
  && err_is (convert as_found default_reg false (mkq 10 1) degC_m degF_in) EDim = true.
Proof. exact ex_F91. Qed.
(** F92  10 dBm - 4 dBm = 6 "delta_decibelmilliwatt", a unit that does not exist; repaired: refused
    like 10 dBm + 4 dBm *)
Theorem C06_log_difference_refuted :
  q_is (add_sub as_found default_reg false true (OQty (mkq 10 1) (U1 dBm)) (OQty (mkq 4 1) (U1 dBm))).2 (mkq 6 1) (U1 ("delta_" ++ dBm))
  && bool_decide (r_units default_reg !! ("delta_" ++ dBm) = None)
  && err_is (add_sub repaired default_reg false true (OQty (mkq 10 1) (U1 dBm)) (OQty (mkq 4 1) (U1 dBm))).2 EOffset
  && err_is (add_sub as_found default_reg false false (OQty (mkq 10 1) (U1 dBm)) (OQty (mkq 4 1) (U1 dBm))).2 EOffset = true.
Proof. exact ex_F92. Qed.
