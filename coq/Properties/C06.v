(** Properties/C06.v — offset and logarithmic units convert by their defining maps and refuse
    ambiguity.  Statements only. *)
From PintV Require Import Model.UC Model.Eval Model.Registry Model.Offset.
From PintV Require Import Proofs.OffsetProofs.
From PintV Require Import Gen.Converters.
Open Scope string_scope.

Theorem C06_tie_scale_converter : gen_scale_conv = scale_conv.
Proof. exact tie_scale_conv. Qed.
Theorem C06_tie_offset_converter : gen_offset_conv = offset_conv.
Proof. exact tie_offset_conv. Qed.
Theorem C06_tie_log_converter : gen_log_conv = log_conv.
Proof. exact tie_log_conv. Qed.
