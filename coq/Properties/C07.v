(** Properties/C07.v — string expressions evaluate like ordinary arithmetic on quantities.
    Only statements, each closed by [exact] of a lemma proved in Proofs/Eval*.v.

    Model: Model/Eval.v ([go]/[build]: index-for-index mirror of pint_eval._build_eval_tree,
    [evaluate]); Spec: Model/Grammar.v (Python's expression grammar by precedence levels,
    [render], [strip]).  The operator tables are the ones regenerated from the source
    (Gen/EvalTables.v, translator T2). *)
From Coq Require Import ZArith Ascii.
From PintV Require Import Model.UC Model.Eval Model.Grammar Model.EvalRun Gen.EvalTables
  Proofs.EvalSteps Proofs.EvalProofs Proofs.EvalInv Proofs.EvalTies Proofs.EvalFixed Proofs.EvalUnc.
Open Scope string_scope.
Open Scope list_scope.

(** ** Ties to the source (T2) *)
Theorem C07_tie_op_priority : EvalTables.op_priority = Eval.op_priority.
Proof. exact op_priority_tie. Qed.
Theorem C07_tie_binary_keys : map fst EvalTables.binary_operator_map = "+/-" :: pv_keys
  ∧ ∀ k, is_some (pv_binop k) = existsb (String.eqb k) pv_keys.
Proof. exact (conj binop_keys_tie pv_binop_keys). Qed.
Theorem C07_tie_unary_keys : map fst EvalTables.unary_operator_map = ["+"; "-"]
  ∧ ∀ k, is_some (pv_unop k) = existsb (String.eqb k) ["+"; "-"].
Proof. exact (conj unop_keys_tie pv_unop_keys). Qed.
Theorem C07_tie_model_algebra_is_tables :
  (∀ k, k ≠ "+/-" → pv_binop k = bin_of_tables pv_ops k) ∧ (∀ k, pv_unop k = un_of_tables pv_ops k).
Proof. exact (conj pv_binop_is_tables pv_unop_is_tables). Qed.

(** ** The two switches.  [Eval.go_p pa pe] mirrors [_build_eval_tree] for either shape of the
    "(" branch ([pa = true]: as first found, F16) and of the test that ends a pending operator
    ([pe = true]: as first found, F41); T2 reads the shapes from the source and [Eval.build] is
    [build_p] at the generated values.  Theorems are stated for every value of the switches where
    they hold for every value, and for the repaired value where the defect refutes them. *)
Theorem C07_build_is_generated toks :
  Eval.build EvalTables.op_priority toks
  = build_p EvalTables.paren_juxt_any_priority EvalTables.pow_exempt_any_priority EvalTables.op_priority toks.
Proof. reflexivity. Qed.

(** ** The parser round trip (full statement, every expression, every style, no size bound;
    for all four combinations of the switches, hence for the code as it is now) *)
Theorem C07_parse_render pa pe s e :
  legal e = true →
  build_p pa pe EvalTables.op_priority (render s e ++ [TEnd]) = Ok (tree_of (strip e)).
Proof. rewrite op_priority_tie. exact (parse_render pa pe s e). Qed.
Theorem C07_parse_render_current s e :
  legal e = true →
  Eval.build EvalTables.op_priority (render s e ++ [TEnd]) = Ok (tree_of (strip e)).
Proof. exact (C07_parse_render _ _ s e). Qed.
(** real token streams end with NEWLINE ENDMARKER *)
Theorem C07_parse_render_newline pa pe s e :
  legal e = true →
  build_p pa pe EvalTables.op_priority (render s e ++ [TOther; TEnd]) = Ok (tree_of (strip e)).
Proof. rewrite op_priority_tie. exact (parse_render_newline pa pe s e). Qed.
(** the same for every derivation of Python's grammar, i.e. with arbitrary redundant groups *)
Theorem C07_parse_render_any_parentheses pa pe e ending :
  wfp e = true → ending = [TEnd] ∨ ending = [TOther; TEnd] →
  build_p pa pe EvalTables.op_priority (render_cst e ++ ending) = Ok (tree_of (strip e)).
Proof. rewrite op_priority_tie, tree_of_strip. exact (parse_render_cst pa pe e ending). Qed.
(** [render] inserts exactly the parentheses Python needs, and nothing else changes *)
Theorem C07_render_is_python_grammar s e :
  legal e = true → wfp (parenthesize s e) = true ∧ strip (parenthesize s e) = strip e.
Proof. intros H. exact (conj (parenthesize_wfp s e H) (strip_parenthesize s e)). Qed.

(** ** Corollaries *)
Theorem C07_pow_right_assoc pa pe o1 o2 a b c :
  is_pow o1 = true → is_pow o2 = true → primary a → primary b → wfp c = true → 2 ≤ lvl c →
  build_p pa pe Eval.op_priority (render_cst a ++ [TOp (opstr o1)] ++ render_cst b ++ [TOp (opstr o2)]
                          ++ render_cst c ++ [TEnd])
  = Ok (Eval.Bin (opstr o1) (tree_of a) (Eval.Bin (opstr o2) (tree_of b) (tree_of c))).
Proof. exact (pow_right_assoc pa pe o1 o2 a b c). Qed.
Theorem C07_unary_vs_pow pa pe a b c :
  primary a → primary b → wfp c = true → 2 ≤ lvl c →
  build_p pa pe Eval.op_priority ([TOp "-"] ++ render_cst a ++ [TOp "**"] ++ render_cst c ++ [TEnd])
  = Ok (Un "-" (Eval.Bin "**" (tree_of a) (tree_of c)))
  ∧ build_p pa pe Eval.op_priority (render_cst a ++ [TOp "**"] ++ [TOp "-"] ++ render_cst b ++ [TOp "**"]
                            ++ render_cst c ++ [TEnd])
  = Ok (Eval.Bin "**" (tree_of a) (Un "-" (Eval.Bin "**" (tree_of b) (tree_of c)))).
Proof.
  intros Ha Hb Hc Lc.
  exact (conj (unary_vs_pow_left pa pe a c Ha Hc Lc) (unary_vs_pow_right pa pe a b c Ha Hb Hc Lc)).
Qed.
Theorem C07_left_assoc pa pe o1 o2 a b c :
  is_pow o1 = false → is_pow o2 = false → olvl o1 = olvl o2 → o1 ≠ OJuxt → o2 ≠ OJuxt →
  wfp a = true → olvl o1 ≤ lvl a → wfp b = true → olvl o1 < lvl b → wfp c = true → olvl o1 < lvl c →
  build_p pa pe Eval.op_priority (render_cst a ++ [TOp (opstr o1)] ++ render_cst b ++ [TOp (opstr o2)]
                          ++ render_cst c ++ [TEnd])
  = Ok (Eval.Bin (opstr o2) (Eval.Bin (opstr o1) (tree_of a) (tree_of b)) (tree_of c)).
Proof. exact (left_assoc pa pe o1 o2 a b c). Qed.
Theorem C07_juxt_is_mul pa pe s e :
  legal e = true →
  ∃ t, build_p pa pe Eval.op_priority (render s e ++ [TEnd]) = Ok t
       ∧ build_p pa pe Eval.op_priority (render s (juxt_to_mul e) ++ [TEnd]) = Ok (relabel t).
Proof. exact (juxt_is_mul pa pe s e). Qed.
Theorem C07_juxt_evaluates_as_mul {V} (A : pyops V) leaf t :
  evaluate leaf (bin_of_tables A) (un_of_tables A) (relabel t)
  = evaluate leaf (bin_of_tables A) (un_of_tables A) t.
Proof. exact (evaluate_relabel leaf (bin_of_tables A) (un_of_tables A) t eq_refl). Qed.

(** ** F16 (repaired in /repo): as first found ([pa = true]) juxtaposition directly before a
    parenthesised group has no priority test; [parse_render] above is the guarded statement
    (guard: [legal] / the [starts_atom] clause of [wfp]) *)
Theorem C07_paren_juxt_refuted pe :
  ∃ l r, wfp l = true ∧ wfp r = true ∧ olvl OJuxt ≤ lvl l ∧
         build_p true pe Eval.op_priority (render_cst (Grammar.Bin OJuxt l (Par r)) ++ [TEnd])
         ≠ Ok (tree_of (Grammar.Bin OJuxt l (Par r))).
Proof. exact (paren_juxt_refuted pe). Qed.
Theorem C07_paren_juxt_witnesses pe :
  build_p true pe Eval.op_priority [TNum "6"; TOp "/"; TNum "2"; TOp "("; TNum "1"; TOp "+"; TNum "2"; TOp ")"; TEnd]
  = Ok (Eval.Bin "/" (Leaf (TNum "6"))
          (Eval.Bin "" (Leaf (TNum "2")) (Eval.Bin "+" (Leaf (TNum "1")) (Leaf (TNum "2")))))
  ∧ build_p true pe Eval.op_priority [TNum "2"; TOp "**"; TOp "("; TNum "3"; TOp ")"; TOp "("; TNum "4"; TOp ")"; TEnd]
  = Ok (Eval.Bin "**" (Leaf (TNum "2")) (Eval.Bin "" (Leaf (TNum "3")) (Leaf (TNum "4")))).
Proof. exact (paren_juxt_witnesses pe). Qed.
(** with the repaired branch ([pa = false]) both witnesses group as Python does, and the round
    trip holds without the restriction on juxtaposition before a group: the only juxtapositions
    excluded are those whose right operand starts with a sign (a binary operator in Python too) *)
Theorem C07_paren_juxt_fixed_witnesses pe :
  build_p false pe Eval.op_priority [TNum "6"; TOp "/"; TNum "2"; TOp "("; TNum "1"; TOp "+"; TNum "2"; TOp ")"; TEnd]
  = Ok (Eval.Bin "" (Eval.Bin "/" (Leaf (TNum "6")) (Leaf (TNum "2")))
          (Eval.Bin "+" (Leaf (TNum "1")) (Leaf (TNum "2"))))
  ∧ build_p false pe Eval.op_priority [TNum "2"; TOp "**"; TOp "("; TNum "3"; TOp ")"; TOp "("; TNum "4"; TOp ")"; TEnd]
  = Ok (Eval.Bin "" (Eval.Bin "**" (Leaf (TNum "2")) (Leaf (TNum "3"))) (Leaf (TNum "4"))).
Proof. exact (paren_juxt_fixed_witnesses pe). Qed.
Theorem C07_parse_render_fixed pe s e :
  legal_f e = true →
  build_p false pe Eval.op_priority (render s e ++ [TEnd]) = Ok (tree_of (strip e)).
Proof. exact (parse_render_fixed pe s e). Qed.
Theorem C07_parse_render_fixed_any_parentheses pe e ending :
  wfpf e = true → ending = [TEnd] ∨ ending = [TOther; TEnd] →
  build_p false pe Eval.op_priority (render_cst e ++ ending) = Ok (tree_of e).
Proof. exact (parse_render_cst_fixed pe e ending). Qed.
Example C07_f16_inputs_now_in_domain :
  legal_f (Grammar.Bin OJuxt (Grammar.Bin ODiv (Num "6") (Num "2")) (Grammar.Bin OAdd (Num "1") (Num "2"))) = true
  ∧ legal (Grammar.Bin OJuxt (Grammar.Bin ODiv (Num "6") (Num "2")) (Grammar.Bin OAdd (Num "1") (Num "2"))) = false
  ∧ render SMin (Grammar.Bin OJuxt (Grammar.Bin ODiv (Num "6") (Num "2")) (Grammar.Bin OAdd (Num "1") (Num "2")))
    = [TNum "6"; TOp "/"; TNum "2"; TOp "("; TNum "1"; TOp "+"; TNum "2"; TOp ")"].
Proof. exact f16_now_legal. Qed.

(** ** F41 (repaired in /repo): as first found ([pe = true]) "**" / "^" never end a pending
    operator, not even the higher-priority "+/-": a power after an uncertain number applies to
    the standard deviation only *)
Theorem C07_unc_pow_refuted pa :
  build_p pa true Eval.op_priority [TNum "1.2"; TOp "+/-"; TNum "0.4"; TOp "**"; TNum "2"; TEnd]
  = Ok (Eval.Bin "+/-" (Leaf (TNum "1.2")) (Eval.Bin "**" (Leaf (TNum "0.4")) (Leaf (TNum "2")))).
Proof. exact (unc_pow_refuted pa). Qed.
(** repaired ([pe = false]): the power binds the whole uncertain number, for every uncertain
    number, every exponent expression and either spelling of the operator *)
Theorem C07_unc_pow_binds_whole pa o v u x :
  is_pow o = true → wfp x = true → 2 ≤ lvl x →
  build_p pa false Eval.op_priority ([TNum v; TOp "+/-"; TNum u; TOp (opstr o)] ++ render_cst x ++ [TEnd])
  = Ok (Eval.Bin (opstr o) (Eval.Bin "+/-" (Leaf (TNum v)) (Leaf (TNum u))) (tree_of x)).
Proof. exact (unc_pow_binds_whole pa o v u x). Qed.
Example C07_unc_pow_fixed_witness pa :
  build_p pa false Eval.op_priority [TNum "1.2"; TOp "+/-"; TNum "0.4"; TOp "**"; TNum "2"; TEnd]
  = Ok (Eval.Bin "**" (Eval.Bin "+/-" (Leaf (TNum "1.2")) (Leaf (TNum "0.4"))) (Leaf (TNum "2"))).
Proof. exact (unc_pow_fixed_witness pa). Qed.

(** ** Evaluation is Python's arithmetic *)
Theorem C07_eval_is_python {V} (A : pyops V) (leaf : tok → res V) s e :
  legal e = true → caret_free e = true →
  (t ←r Eval.build EvalTables.op_priority (render s e ++ [TEnd]);
   evaluate leaf (bin_of_tables A) (un_of_tables A) t) = eval_expr A leaf e.
Proof. exact (eval_is_python A leaf s e). Qed.
(** no-execution clause, model side and static side (the dynamic side is the audit-hook
    fuzz stream of the harness — a test): the source calls nothing dangerous, imports nothing
    dangerous, and [evaluate] applies only the two maps' entries and the leaf callback *)
Theorem C07_eval_closed :
  EvalTables.forbidden_calls = []
  ∧ forallb (λ m, negb (existsb (String.eqb m) forbidden_modules)) EvalTables.imports = true
  ∧ EvalTables.evaluate_applies = ["DefinitionSyntaxError"; "bin_op[op_text]"; "define_op"; "un_op[op_text]"]
  ∧ EvalTables.power_returns = "operator.pow(left, right)".
Proof. exact (conj no_forbidden_call (conj no_forbidden_import (conj evaluate_applies_tie power_tie))). Qed.

(** ** Unbalanced parentheses or a dangling operator never yield a value: ALL token lists *)
Theorem C07_no_value_on_unbalanced pa pe toks t :
  build_p pa pe EvalTables.op_priority toks = Ok t →
  ∃ body rest, toks = body ++ TEnd :: rest ∧ TEnd ∉ body ∧ balanced body.
Proof. exact (no_value_on_unbalanced_gen pa pe _ toks t tbl_ok_gen). Qed.
Theorem C07_unbalanced_no_value pa pe body :
  TEnd ∉ body → ¬ balanced body → ∀ t, build_p pa pe EvalTables.op_priority (body ++ [TEnd]) ≠ Ok t.
Proof. exact (unbalanced_no_value pa pe _ body tbl_ok_gen). Qed.
Theorem C07_no_value_on_dangling pa pe body o trail :
  TEnd ∉ body → is_operator EvalTables.op_priority o = true → Forall (λ x, x = TOther) trail →
  ∀ t, build_p pa pe EvalTables.op_priority (body ++ [o] ++ trail ++ [TEnd]) ≠ Ok t.
Proof. exact (dangling_no_value pa pe _ body o trail tbl_ok_gen). Qed.

(** ** +/- spelling variants: the concise notation N.ddd(uu) *)
(** the standard-deviation token the tokenizer produces is [ip.fp] with exactly [ndec] decimals
    and the value of the digits: N.ddd(uu) = N.ddd +/- uu * 10^-ndec *)
Theorem C07_concise_uncertainty_value (ndec : nat) (ds : list Ascii.ascii) :
  (0 < ndec)%nat →
  ∃ ip fp, concise ndec ds = ip ++ "."%char :: fp ∧ length fp = ndec ∧ (1 ≤ length ip)%nat
           ∧ dval (ip ++ fp) = dval ds
           ∧ ip ++ fp = replicate (S ndec - length ds) "0"%char ++ ds.
Proof. exact (concise_value ndec ds). Qed.
Example C07_concise_examples :
  concise_text 2 "4" = "0.04" ∧ concise_text 1 "34" = "3.4"
  ∧ concise_text 2 "5678" = "56.78" ∧ concise_text 3 "10" = "0.010"
  ∧ concise_text 0 "4" = "4" ∧ concise_text 2 "100" = "1.00".
Proof. exact concise_examples. Qed.
(** ** Literals *)
Theorem C07_literals_keep_type n s :
  (n = NFloat → is_int_lit s = true → lit_kind n s = KInt) ∧
  (n = NFloat → is_int_lit s = false → lit_kind n s = KFloat) ∧
  (n = NDecimal → lit_kind n s = KDecimal) ∧
  (n = NFraction → lit_kind n s = KFraction).
Proof. exact (literals_keep_type n s). Qed.

(** integers stay integers, exactly: the value of an integer literal is the positional reading of
    its digits (one more digit = ten times the value plus the digit; underscores do not count),
    so literals beyond 2^53 keep every digit *)
Theorem C07_int_literal_exact (l : list Ascii.ascii) (a : Ascii.ascii) :
  (is_digit a = true → dval (l ++ [a]) = (10 * dval l + digit_val a)%N)
  ∧ (is_digit a = false → dval (l ++ [a]) = dval l).
Proof. exact (conj (dval_snoc_digit l a) (dval_snoc_other l a)). Qed.
Example C07_int_literal_examples :
  lit_int_value "9007199254740993" = 9007199254740993%N
  ∧ lit_int_value "1700000000123456789" = 1700000000123456789%N
  ∧ lit_int_value "340282366920938463463374607431768211457" = 340282366920938463463374607431768211457%N
  ∧ lit_int_value "1_000" = 1000%N ∧ is_int_lit "9007199254740993" = true.
Proof. exact lit_int_value_examples. Qed.

(** ** Non-vacuity *)
Definition ex1 : expr :=   (* 2 m**2 s - 4 ** -2 *)
  Grammar.Bin OSub
    (Grammar.Bin OJuxt (Grammar.Bin OJuxt (Num "2") (Grammar.Bin OPow (Name "m") (Num "2"))) (Name "s"))
    (Grammar.Bin OPow (Num "4") (Neg (Num "2"))).
Example C07_nonvacuous_parse_render :
  legal ex1 = true ∧ caret_free ex1 = true
  ∧ render SMin ex1 = [TNum "2"; TName "m"; TOp "**"; TNum "2"; TName "s"; TOp "-"; TNum "4"; TOp "**"; TOp "-"; TNum "2"]
  ∧ length (render SFull ex1) = 18
  ∧ (match build EvalTables.op_priority (render SFull ex1 ++ [TEnd]) with
     | Ok t => show_tree t | Err _ => "" end) = "(((2 (m ** 2)) s) - (4 ** (- 2)))".
Proof. vm_compute. repeat split. Qed.
Example C07_nonvacuous_unbalanced :
  ¬ balanced [TOp "("; TNum "1"] ∧ ¬ balanced [TNum "1"; TOp ")"] ∧ balanced [TOp "("; TNum "1"; TOp ")"]
  ∧ is_operator EvalTables.op_priority (TOp "*") = true
  ∧ is_operator EvalTables.op_priority (TOp "-") = true
  ∧ build EvalTables.op_priority [TNum "1"; TOp "*"; TEnd] = Err EAssert
  ∧ build EvalTables.op_priority [TOp "("; TNum "1"; TEnd] = Err EUnclosed
  ∧ build EvalTables.op_priority [TNum "1"; TOp ")"; TEnd] = Err EUnopened.
Proof. unfold balanced. vm_compute. repeat split; discriminate. Qed.
Example C07_nonvacuous_primary :
  primary (Par (Grammar.Bin OAdd (Num "1") (Name "x"))) ∧ primary (Name "m")
  ∧ is_int_lit "42" = true ∧ is_int_lit "2.5" = false.
Proof. unfold primary. vm_compute. repeat split. Qed.
