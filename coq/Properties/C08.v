(** Properties/C08.v — unit names resolve deterministically: exact names first, then
    prefix+unit+plural.  Statements only; proofs in Proofs/NamesProofs.v.  Unless a theorem
    mentions [default_reg], it holds for EVERY registry [r] and every string.

    Vocabulary (Proofs/NamesProofs.v):
    [reading r s p u]   s = p' ++ u' ++ suffix for a spelling p' of prefix p, a spelling u' of unit u,
                        suffix ∈ {"", "s"}, and not (suffix = "s" with a one-character u');
    [shadowed r s p u]  p = "" and u = p2 ++ u2 for a reading (p2, u2) of s with p2 ≠ "" (dedup);
    [wf_canon r]        canonical prefix / unit names are themselves spellings, "" is no unit;
    [wf_names r]        … and no canonical unit name is a single character. *)
From Coq Require Import Ascii String.
From PintV Require Import Model.UC Model.Eval Model.Registry Model.Names Model.NamesRun Proofs.NamesProofs.
From PintV Require Import Gen.DefaultDefs Gen.DefaultReg.
Open Scope string_scope.
(* conjunctions of closed computations: one [vm_compute] per conjunct *)
Ltac vmc := repeat (split; [vm_compute; reflexivity|]); vm_compute; reflexivity.

(** ** exact names first *)
(** a defined name / alias / symbol resolves to its definition (and registers nothing) *)
Theorem C08_exact_first r s d :
  r_units r !! s = Some d → s ≠ "dimensionless" →
  get_name r s = Ok (u_name d) ∧ resolve r s = Ok d ∧ register r s = r.
Proof. exact (exact_first_name r s d). Qed.
(** … and reports the definition's symbol — with [get_symbol] looking at exact entries first
    (the repair of F45; the model's defect switch [c_symexact]) … *)
Theorem C08_exact_first_symbol r hid cand s d :
  r_units r !! s = Some d → hid s = false → g_get_symbol r true hid cand s = Ok (u_symbol d).
Proof. exact (exact_first_symbol_repaired r hid cand s d). Qed.
(** … whereas the unchanged [get_symbol] goes through the candidates: it reports the definition's
    symbol provided no prefixed reading of the string composes the same canonical name *)
Theorem C08_exact_first_symbol_guarded r s d pd0 ks :
  r_prefix_keys r = "" :: ks → r_prefixes r !! "" = Some pd0 → p_name pd0 = "" → p_symbol pd0 = "" →
  r_units r !! s = Some d → r_units r !! u_name d = Some d →
  (∀ p u, raw_reading r s p u → p ≠ "" → p ++ u ≠ u_name d) →
  get_symbol r s = Ok (u_symbol d).
Proof. exact (exact_first_symbol_guarded r s d pd0 ks). Qed.
(** F45: "milliarcsecond" is defined with symbol "mas"; [get_symbol] answers "marcsec" *)
Theorem C08_exact_first_symbol_refuted :
  ∃ s d, r_units default_reg !! s = Some d ∧ u_symbol d = "mas" ∧ get_symbol default_reg s = Ok "marcsec".
Proof.
  eexists "milliarcsecond", _. split; [vm_compute; reflexivity|]. vmc.
Qed.

(** ** then prefix + unit + plural *)
Theorem C08_candidates_sound r s p u :
  r_units r !! "" = None → (p, u) ∈ parse_unit_name r s → reading r s p u ∧ ¬ shadowed r s p u.
Proof. exact (candidates_sound r s p u). Qed.
Theorem C08_candidates_complete r s p u :
  r_units r !! "" = None → reading r s p u → ¬ shadowed r s p u → (p, u) ∈ parse_unit_name r s.
Proof. exact (candidates_complete r s p u). Qed.
Theorem C08_candidates_nodup r s : NoDup (parse_unit_name r s).
Proof. exact (candidates_nodup r s). Qed.
(** UndefinedUnitError exactly when there is neither an exact entry nor a reading *)
Theorem C08_undefined_iff r s :
  wf_canon r → s ≠ "dimensionless" →
  (get_name r s = Err (EUndefined s) ↔ r_units r !! s = None ∧ ∀ p u, ¬ reading r s p u).
Proof. exact (undefined_iff r s). Qed.
(** all outcomes: the exact entry; else the first candidate's prefix ++ unit — the definition
    already stored under that name, if there is one (a written "kilometer_per_second" is what
    "kilomps" denotes), otherwise the lazily built one; else undefined; a prefixed offset /
    logarithmic unit is refused *)
Theorem C08_get_name_cases r s :
  wf_canon r → s ≠ "dimensionless" →
  match get_name r s with
  | Ok n => (∃ d, r_units r !! s = Some d ∧ n = u_name d)
            ∨ (r_units r !! s = None ∧ ∃ p u l, parse_unit_name r s = (p, u) :: l ∧
               (n = p ++ u ∨ (p ≠ "" ∧ ∃ d, r_units r !! (p ++ u) = Some d ∧ n = u_name d)))
  | Err e => r_units r !! s = None ∧
             ((e = EUndefined s ∧ parse_unit_name r s = [])
              ∨ (e = EOffset ∧ ∃ p u l ud, parse_unit_name r s = (p, u) :: l ∧ p ≠ "" ∧
                                          r_units r !! (p ++ u) = None ∧
                                          r_units r !! u = Some ud ∧ u_multiplicative ud = false))
  end.
Proof. exact (get_name_cases r s). Qed.
(** the prefix factor is applied exactly once: the lazily registered definition of p+u has the
    prefix value as its scale and refers to u with exponent 1 *)
Theorem C08_prefix_once r s p u l d :
  r_units r !! s = None → parse_unit_name r s = (p, u) :: l → p ≠ "" → r_units r !! (p ++ u) = None →
  resolve r s = Ok d →
  ∃ pd, r_prefixes r !! p = Some pd ∧
        u_name d = p ++ u ∧ u_scale d = p_val pd ∧ u_ref d = {[ u := 1%Qc ]} ∧ u_conv d = CScale ∧
        r_units (register r s) !! (p ++ u) = Some d.
Proof. exact (prefix_once r s p u l d). Qed.
(** … and carries prefix symbol ++ unit symbol as its symbol (what the short "~" formats print),
    a unit defined without a symbol contributing its name *)
Theorem C08_registered_symbol r p u l d pd ud :
  prefixed_def r p u = Ok d → parse_unit_name r (p ++ u) = (p, u) :: l →
  r_prefixes r !! p = Some pd → r_units r !! u = Some ud → p_symbol pd ++ u_symbol ud ≠ "" →
  u_symbol d = p_symbol pd ++ u_symbol ud.
Proof. exact (registered_symbol r p u l d pd ud). Qed.
Theorem C08_offset_not_prefixable r s p u l pd ud :
  s ≠ "dimensionless" → r_units r !! s = None → parse_unit_name r s = (p, u) :: l → p ≠ "" →
  r_units r !! (p ++ u) = None →
  r_prefixes r !! p = Some pd → r_units r !! u = Some ud → u_multiplicative ud = false →
  get_name r s = Err EOffset ∧ register r s = r.
Proof. exact (offset_not_prefixable r s p u l pd ud). Qed.

(** ** the two model layers
    [Registry.resolve] (used by C01/C02/…) is the generic resolution of Model/Names.v with the
    "a stored prefix+unit definition is never replaced" switch on, wherever the prefixed reading is
    well formed; with the switch off (the behaviour before the repair of F46, kept for the refuted
    witnesses) they agree when the composed name is free *)
Theorem C08_registry_resolve_is_repaired_instance r sx s :
  composed_ok r s → g_resolve r sx nohid true (parse_unit_name r) s = resolve r s.
Proof. exact (g_resolve_registry r sx s). Qed.
Theorem C08_registry_resolve_old_instance r s :
  (∀ p u l, parse_unit_name r s = (p, u) :: l → p ≠ "" → r_units r !! (p ++ u) = None) →
  g_resolve r false nohid false (parse_unit_name r) s = resolve r s.
Proof. exact (g_resolve_registry_free r s). Qed.

(** ** case-insensitive lookup, only when requested *)
(** (i) with case sensitivity on, the lower-cased index is not consulted at all;
    (ii) with it off, a candidate differs from a letter-for-letter reading only in the case of the
         unit part; (iii) when the index covers the unit table, nothing is lost *)
Theorem C08_casei_conservative nr hid s p u :
  triplets_cs nr nohid true s = triplets (n_reg nr) s
  ∧ (casei_sound nr → In (p, u) (triplets_cs nr hid false s) →
     ∃ suffix pk real, In suffix suffixes ∧ In pk (r_prefix_keys (n_reg nr)) ∧
       String.prefix pk s = true ∧ ends_with suffix s = true ∧
       lower real = lower (strip_name s pk suffix) ∧
       ∃ pd d, r_prefixes (n_reg nr) !! pk = Some pd ∧ r_units (n_reg nr) !! real = Some d ∧
               p = p_name pd ∧ u = u_name d)
  ∧ (casei_covers nr → In (p, u) (triplets_cs nr nohid true s) → In (p, u) (triplets_cs nr hid false s)).
Proof.
  split; [exact (triplets_cs_true nr s) | split; [exact (casei_only_case nr hid s p u) | exact (casei_superset nr hid s p u)]].
Qed.
(** the index of a registry as loaded is sound *)
Theorem C08_casei_index_sound ds nr : nload ds = Ok nr → casei_sound nr.
Proof. exact (nload_casei ds nr). Qed.

(** ** offset units in compound expressions *)
Theorem C08_delta_in_compound r many v c d :
  delta_name r false many v c = Ok c                                   (* disabled: never substituted *)
  ∧ delta_name r true false 1%Qc c = Ok c                             (* a single unit to the power 1 *)
  ∧ ((many = true ∨ v ≠ 1%Qc) → r_units r !! c = Some d →              (* compound: delta counterpart *)
     delta_name r true many v c = Ok (if u_multiplicative d then c else "delta_" ++ c)).
Proof.
  split; [exact (delta_name_off r many v c) | split; [exact (delta_name_single r true c) | exact (delta_name_compound r many v c d)]].
Qed.
Theorem C08_parse_units_step c cs ad many nr acc n v l :
  pu_fold c cs ad many nr acc ((n, v) :: l) =
  match n_get_name nr c cs n with
  | Err e => (nr, Err e)
  | Ok cname =>
      let nr' := n_register nr c cs n in
      if String.eqb cname "" then pu_fold c cs ad many nr' acc l
      else match delta_name (n_reg nr') ad many v cname with
           | Err e => (nr', Err e)
           | Ok k => pu_fold c cs ad many nr' (uc_add acc k v) l
           end
  end.
Proof. exact (pu_fold_step c cs ad many nr acc n v l). Qed.
(** a unit string read without per-call arguments — [parse_units], [Unit(…)], and every string that
    enters on the conversion side ([get_root_units], [convert], [Quantity.to], … through
    [to_units_container]) — is read with the REGISTRY's settings, whatever they are *)
Theorem C08_registry_settings_apply nr c text toks :
  parse_units_st nr c text toks None None
  = parse_units_st nr c text toks (Some (c_delta c)) (Some (c_case c)).
Proof. reflexivity. Qed.
Theorem C08_contains_spec nr c text toks :
  snd (n_contains nr c text toks) =
  match snd (n_getattr nr c text toks) with
  | UOk _ => UOk true
  | UErr KUndefined => UOk false
  | UErr k => UErr k
  end.
Proof. exact (contains_spec nr c text toks). Qed.

(** ** answers do not depend on earlier lookups
    Full statement (does NOT hold, F3):
      ∀ r hist s, get_name (run_history r hist) s = get_name r s. *)
(** F3: "millikiloinch" is undefined in the registry as constructed and accepted once "kiloinch"
    has been looked up — lazily registered names are themselves prefixable *)
Theorem C08_history_independent_refuted :
  ∃ hist s, get_name default_reg s = Err (EUndefined s)
            ∧ get_name (run_history default_reg hist) s = Ok s.
Proof. exists ["kiloinch"], "millikiloinch". split; vm_compute; reflexivity. Qed.
(** F46: a lookup of another spelling of prefix+unit replaces an entry that came from the
    definition files: "mas" is reported with symbol "marcsec" after "marcsecond" was looked up *)
Theorem C08_history_overwrite_refuted :
  ∃ hist s, get_symbol default_reg s = Ok "mas"
            ∧ get_symbol (run_history default_reg hist) s = Ok "marcsec".
Proof. exists ["marcsecond"], "mas". vmc. Qed.
(** under the guards — every registration of the history used a free key or replaced an entry of
    the same canonical name and kind ([no_overwrite]), the string has no doubly-prefixed reading
    (and, if it is itself a lazily registered name, the fresh registry resolves it to itself; if
    the name composed from its first reading was registered, its unit is multiplicative: [hi_guard]) — [get_name] answers as in the fresh registry, for every history *)
Theorem C08_history_independent_guarded r hist s :
  wf_names r → no_overwrite r hist = true → hi_guard r (run_history r hist) s = true →
  get_name (run_history r hist) s = get_name r s.
Proof. exact (history_independent_guarded r hist s). Qed.
(** after warm-up the case-insensitive index no longer covers the table: "millikiloinch" is
    accepted letter-for-letter but not case-insensitively *)
Theorem C08_casei_covers_refuted :
  ∃ nr s, n_cand nr nohid true s ≠ [] ∧ n_cand nr nohid false s = [].
Proof.
  exists (n_register (nreg_of default_raw) default_cfg true "kiloinch"), "millikiloinch".
  split; [vm_compute; discriminate | vm_compute; reflexivity].
Qed.

(** with the proposed repair switched on ([c_lazyfix]: lazily registered names are not spellings
    and never replace an entry) the witnesses of F3 and F46 disappear *)
Example C08_repaired_model_witnesses :
  let fixed := Cfg true true true true in
  let R := nreg_of default_raw in
  let W := n_register (n_register R fixed true "kiloinch") fixed true "marcsecond" in
  n_get_name W fixed true "kiloinch" = Ok "kiloinch"
  ∧ n_get_name W fixed true "millikiloinch" = Err (EUndefined "millikiloinch")
  ∧ n_get_name R fixed true "millikilogram" = Err (EUndefined "millikilogram")
  ∧ n_get_name R default_cfg true "millikilogram" = Ok "millikilogram"
  ∧ n_get_symbol W fixed true "mas" = Ok "mas"
  ∧ n_get_symbol R fixed true "milliarcsecond" = Ok "mas".
Proof. vmc. Qed.

(** ** non-vacuity on the registry regenerated from /repo *)
Example C08_default_registry_wfb : wf_namesb default_reg = true.
Proof. vm_compute; reflexivity. Qed.
Example C08_default_registry_wf : wf_names default_reg.
Proof. exact (wf_namesb_spec default_reg C08_default_registry_wfb). Qed.
Example C08_default_registry_candidates :
  parse_unit_name default_reg "kilometers" = [("kilo", "meter")]
  ∧ parse_unit_name default_reg "cd" = [("", "candela"); ("centi", "day")]     (* two readings, exact first *)
  ∧ parse_unit_name default_reg "ms" = [("milli", "second")]                     (* not the plural of "m" *)
  ∧ parse_unit_name default_reg "kilograms" = [("kilo", "gram")]                 (* dedup *)
  ∧ parse_unit_name default_reg "foo" = [].
Proof. vmc. Qed.
Example C08_default_registry_resolution :
  get_name default_reg "km" = Ok "kilometer" ∧ get_symbol default_reg "kilometers" = Ok "km"
  ∧ get_name default_reg "cd" = Ok "candela"
  ∧ get_name default_reg "kilodegC" = Err EOffset
  ∧ get_name default_reg "foo" = Err (EUndefined "foo")
  ∧ match resolve default_reg "kilometers" with
    | Ok d => bool_decide (u_scale d = mkq 1000 1) && uc_eqb (u_ref d) (mkuc [("meter", mkq 1 1)])
    | Err _ => false
    end = true.
Proof. vmc. Qed.
Example C08_default_registry_stored_symbol :     (* "bar" and "bit" are defined without a symbol *)
  let R := nreg_of default_raw in
  snd (n_name_then_symbol R default_cfg true "mbar") = UOk "mbar"
  ∧ snd (n_name_then_symbol R default_cfg true "kilobits") = UOk "kbit"
  ∧ snd (n_name_then_symbol R default_cfg true "km") = UOk "km"
  ∧ snd (n_name_then_symbol R default_cfg true "foo") = UErr KUndefined.
Proof. vmc. Qed.
Example C08_default_registry_delta :
  let R := nreg_of default_raw in
  let pu text toks ad expected :=
    ures_eqb uc_eqb (ures_of (snd (parse_units_st R default_cfg text toks ad None))) (UOk (mkuc expected)) in
  pu "degC*meter" [TName "degC"; TOp "*"; TName "meter"; TEnd] None
     [("delta_degree_Celsius", mkq 1 1); ("meter", mkq 1 1)] = true
  ∧ pu "degC" [TName "degC"; TEnd] None [("degree_Celsius", mkq 1 1)] = true
  ∧ pu "degC**2" [TName "degC"; TOp "**"; TNum "2"; TEnd] None [("delta_degree_Celsius", mkq 2 1)] = true
  ∧ pu "degC*meter" [TName "degC"; TOp "*"; TName "meter"; TEnd] (Some false)
       [("degree_Celsius", mkq 1 1); ("meter", mkq 1 1)] = true
  ∧ snd (n_contains R default_cfg "kilometer" [TName "kilometer"; TEnd]) = UOk true
  ∧ snd (n_contains R default_cfg "foo" [TName "foo"; TEnd]) = UOk false
  ∧ snd (n_contains R default_cfg "__foo__" [TName "__foo__"; TEnd]) = UErr KAttribute.
Proof. vmc. Qed.
Example C08_default_registry_casei :
  let R := nreg_of default_raw in
  n_cand R nohid true "kiloMETER" = [] ∧ n_cand R nohid false "kiloMETER" = [("kilo", "meter")]
  ∧ n_cand R nohid false "KILOMETER" = []            (* prefixes are matched letter for letter *)
  ∧ casei_sound R.
Proof.
  split; [vm_compute; reflexivity|]. split; [vm_compute; reflexivity|]. split; [vm_compute; reflexivity|].
  exact (nreg_of_casei default_raw).
Qed.
(** the guards of [C08_history_independent_guarded] are met by a non-trivial history and string,
    and exclude exactly the witness of F3 *)
Example C08_history_guard_nonvacuous :
  let hist := ["kiloinch"; "km"; "millikiloinch"; "degC"] in
  no_overwrite default_reg hist = true
  ∧ hi_guard default_reg (run_history default_reg hist) "kilometers" = true
  ∧ hi_guard default_reg (run_history default_reg hist) "kiloinchs" = true
  ∧ get_name (run_history default_reg hist) "kiloinchs" = Ok "kiloinch"
  ∧ hi_guard default_reg (run_history default_reg hist) "millikiloinch" = false.
Proof. vmc. Qed.
