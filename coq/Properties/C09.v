(** Properties/C09.v — every textual format denotes the unit exactly; plain-text formats
    round-trip.  Only statements, each closed by [exact] of a lemma of Proofs/FormatProofs.v
    (model: Model/Format.v; per-format parameters regenerated from the source by T7).

    [qk] are the defect switches: [as_found] is pint as it stands (F18: '{:n}' rejects Fraction
    exponents; F4: siunitx strips any prefix name), [repaired] has both switched off. *)
From PintV Require Import Model.UC Model.Eval Model.Registry Model.Format Model.FormatRun
  Proofs.UCProofs Proofs.FormatProofs Proofs.FormatFullProofs Gen.DefaultDefs Gen.DefaultReg.
Open Scope string_scope.

(** ** faithfulness at the layout level: names, exponents, numerator / denominator position *)
(** for EVERY formatter parameterisation (as_ratio, single_denominator — hence D, C, P, H, L),
    every sort function, every unit: the layout denotes exactly the unit *)
Theorem C09_layout_denotes qk r as_ratio single sf (its : items) l :
  items_wf its → "dimensionless" ∉ map fst its →
  layout qk r as_ratio single false sf its = Ok l →
  denoteL den_name l = uc_of its.
Proof. exact (layout_denotes qk r as_ratio single sf its l). Qed.
(** the same with '~' symbols (or any display function), read through any [den] that maps each
    displayed string back to its unit — such a [den] exists iff the symbols are pairwise distinct *)
Theorem C09_layout_denotes_symbols qk r as_ratio single short sf (its : items) disp den l :
  items_wf its →
  (∀ nx, nx ∈ its → display r short nx.1 = Ok (disp nx.1) ∧ den (disp nx.1) = {[ nx.1 := 1%Qc ]}) →
  (its = [] → short = false → den "dimensionless" = ∅) →
  layout qk r as_ratio single short sf its = Ok l →
  denoteL den l = uc_of its.
Proof. exact (layout_denotes_gen qk r as_ratio single short sf its disp den l). Qed.
(** the five built-in [formatter(...)] parameterisations are of the form the theorem covers *)
Example C09_builtin_params_parse :
  ∀ f, f ≠ FRaw → f ≠ FLx → ∃ pp, parse_params (fp_of f) = Some pp.
Proof. exact parse_params_builtin. Qed.

(** ** plain formats round-trip (token level) *)
(** D and C (as_ratio, no single denominator), integer exponents, ALL units: the token list the
    printer emits — names, [**], numbers, [*], [/] — goes through the tree builder
    ([Eval.build], the mirror of [_build_eval_tree]) and the ParserHelper algebra back to exactly
    the container, with scale 1.
    (Integer exponents only; kept for reference — the full statement is
    [C09_plain_roundtrip_tokens] below.) *)
Theorem C09_plain_roundtrip_tokens_partial qk r sf (its : items) l :
  items_wf its → its ≠ [] →
  Forall (λ nx : string * expo, ∃ z, nx.2 = XInt z) its →
  layout qk r true false false sf its = Ok l →
  ph_from_tokens (layout_tokens qk l ++ [TEnd]) = Ok (PH 1 (uc_of its), false).
Proof. exact (plain_roundtrip_tokens qk r sf its l). Qed.
(** FULL statement: every unit container whose exponents are rendered exactly — "the number the
    format prints for |x| is read back by the parser as |x|", the boolean [exact_renderedb] of the
    model, which K compares with Python on every generated exponent — for long names or any display
    function with pairwise distinct display strings ('~'): the emitted tokens go through
    [Eval.build] and the ParserHelper algebra back to exactly the container.  When a non-integer
    exponent occurs pint holds the scale as a float ([fl = true]; the Eval model does not track its
    value, the expressions contain no number but 1 and exponents); otherwise the scale is exactly 1. *)
Theorem C09_plain_roundtrip_tokens qk r short sf (its : items) (disp : string → string) l :
  items_wf its → its ≠ [] →
  Forall (λ nx : string * expo, exact_renderedb qk nx.2 = true) its →
  (∀ nx, nx ∈ its → display r short nx.1 = Ok (disp nx.1)) →
  NoDup (map (λ nx : string * expo, disp nx.1) its) →
  layout qk r true false short sf its = Ok l →
  ∃ s fl, ph_from_tokens (layout_tokens qk l ++ [TEnd])
          = Ok (PH s (uc_of (map (λ nx : string * expo, (disp nx.1, nx.2)) its)), fl)
          ∧ (fl = false → s = 1%Qc).
Proof. exact (plain_roundtrip_tokens_full qk r short sf its disp l). Qed.
(** which exponents are rendered exactly: integers always … *)
Theorem C09_int_rendered_exactly qk z : exact_renderedb qk (XInt z) = true.
Proof. exact (exact_rendered_int qk z). Qed.
(** … and every Decimal (any coefficient, any exponent: fixed or scientific notation, trailing
    zeros), so in particular all decimal exponents of up to six significant digits.
    For float exponents exactness is the decidable [exact_renderedb] itself ('{:n}' = %g with six
    digits: exact iff the float is a decimal of at most six significant digits); a universal
    characterisation of that set is not proved — K checks the predicate against Python on every
    float exponent it generates. *)
Theorem C09_decimal_rendered_exactly qk m e : exact_renderedb qk (XDec m e) = true.
Proof. exact (exact_rendered_dec qk m e). Qed.
(** name resolution included: [parse_units(format(u))] at token level gives back the unit *)
Theorem C09_long_roundtrip qk r sf (its : items) l :
  items_wf its → its ≠ [] →
  Forall (λ nx : string * expo, exact_renderedb qk nx.2 = true) its →
  (∀ nx, nx ∈ its → get_name r nx.1 = Ok nx.1 ∧ nx.1 ≠ ""
                    ∧ (∀ df, r_units r !! nx.1 = Some df → u_multiplicative df = true)) →
  layout qk r true false false sf its = Ok l →
  parse_units_tokens r (layout_tokens qk l ++ [TEnd]) = Ok (uc_of its).
Proof. exact (long_roundtrip_full qk r sf its l). Qed.
Theorem C09_short_roundtrip qk r sf (its : items) l :
  items_wf its → its ≠ [] →
  Forall (λ nx : string * expo, exact_renderedb qk nx.2 = true) its →
  short_guard r its →
  layout qk r true false true sf its = Ok l →
  parse_units_tokens r (layout_tokens qk l ++ [TEnd]) = Ok (uc_of its).
Proof. exact (short_roundtrip_full qk r sf its l). Qed.
(** non-vacuity: float, Decimal and int exponents of both signs, rendered exactly, printed, parsed back;
    and a float that is not rendered exactly (1/3 ↦ 0.333333) is outside the hypothesis *)
Example C09_roundtrip_nonint_example :
  let its := [("meter", XFloat (mkq 1 2)); ("second", XDec (-250) (-2)); ("gram", XInt 2); ("kelvin", XFloat (mkq (-1) 8))] in
  items_wf its
  ∧ forallb (λ nx : string * expo, exact_renderedb repaired nx.2) its = true
  ∧ full_format_unit repaired empty_reg (FCfg "" None SortUnitName) "" its
    = Ok "gram ** 2 * meter ** 0.5 / kelvin ** 0.125 / second ** 2.50"
  ∧ match layout repaired empty_reg true false false SortUnitName its with
    | Ok l => match ph_from_tokens (layout_tokens repaired l ++ [TEnd]) with
              | Ok (p, fl) => uc_eqb (ph_d p) (uc_of its) && fl
              | Err _ => false end
    | Err _ => false end = true
  ∧ exact_renderedb repaired (XFloat (mkq 1 3)) = false.
Proof.
  split; [split; [apply (bool_decide_unpack _); vm_compute; exact I | repeat constructor; vm_compute; discriminate]|].
  repeat split; vm_compute; reflexivity.
Qed.
(** the same for any display function with pairwise distinct display strings ('~': the symbols):
    the tokens evaluate to the container over the display strings *)
Theorem C09_plain_roundtrip_tokens_display qk r short sf (its : items) (disp : string → string) l :
  items_wf its → its ≠ [] →
  Forall (λ nx : string * expo, ∃ z, nx.2 = XInt z) its →
  (∀ nx, nx ∈ its → display r short nx.1 = Ok (disp nx.1)) →
  NoDup (map (λ nx : string * expo, disp nx.1) its) →
  layout qk r true false short sf its = Ok l →
  ph_from_tokens (layout_tokens qk l ++ [TEnd])
  = Ok (PH 1 (uc_of (map (λ nx : string * expo, (disp nx.1, nx.2)) its)), false).
Proof. exact (plain_roundtrip_tokens_gen qk r short sf its disp l). Qed.
(** … and [_parse_units_as_container]'s name resolution then gives back the unit itself, for long
    names that resolve to themselves (multiplicative units) … *)
Theorem C09_long_roundtrip_guarded qk r sf (its : items) l :
  items_wf its → its ≠ [] →
  Forall (λ nx : string * expo, ∃ z, nx.2 = XInt z) its →
  (∀ nx, nx ∈ its → get_name r nx.1 = Ok nx.1 ∧ nx.1 ≠ ""
                    ∧ (∀ df, r_units r !! nx.1 = Some df → u_multiplicative df = true)) →
  layout qk r true false false sf its = Ok l →
  parse_units_tokens r (layout_tokens qk l ++ [TEnd]) = Ok (uc_of its).
Proof. exact (long_roundtrip_guarded qk r sf its l). Qed.
(** … and for '~' symbols under the guard that excludes F19: every symbol is read back as its unit
    (decided by the name-resolution model [get_name]) and no two units share a symbol *)
Theorem C09_short_roundtrip_guarded qk r sf (its : items) l :
  items_wf its → its ≠ [] →
  Forall (λ nx : string * expo, ∃ z, nx.2 = XInt z) its →
  short_guard r its →
  layout qk r true false true sf its = Ok l →
  parse_units_tokens r (layout_tokens qk l ++ [TEnd]) = Ok (uc_of its).
Proof. exact (short_roundtrip_guarded qk r sf its l). Qed.
Example C09_short_guard_nonvacuous :
  let its := [("meter", XInt 1); ("second", XInt (-2)); ("kilogram", XInt 3)] in
  items_wf its ∧ short_guard default_reg its
  ∧ full_format_unit as_found default_reg (FCfg "" None SortUnitName) "~C" its = Ok "kg**3*m/s**2".
Proof. exact short_guard_example. Qed.
(** D and C are such parameterisations (regenerated parameters) *)
Example C09_D_C_are_ratio_formats :
  (fp_as_ratio fp_D, fp_single_denominator fp_D, fp_as_ratio fp_C, fp_single_denominator fp_C)
  = (true, false, true, false).
Proof. reflexivity. Qed.
(** non-vacuity: a unit with positive and negative integer exponents, printed and parsed back *)
Example C09_roundtrip_example :
  let its := [("second", XInt (-2)); ("meter", XInt 3); ("kelvin", XInt (-1)); ("gram", XInt 1)] in
  items_wf its
  ∧ full_format_unit as_found empty_reg (FCfg "" None SortUnitName) "" its
    = Ok "gram * meter ** 3 / kelvin / second ** 2"
  ∧ full_format_unit as_found empty_reg (FCfg "" None SortUnitName) "C" its
    = Ok "gram*meter**3/kelvin/second**2"
  ∧ match layout as_found empty_reg true false false SortUnitName its with
    | Ok l => match ph_from_tokens (layout_tokens as_found l ++ [TEnd]) with
              | Ok (p, fl) => uc_eqb (ph_d p) (uc_of its) && bool_decide (ph_scale p = 1%Qc) && negb fl
              | Err _ => false end
    | Err _ => false end = true.
Proof.
  split; [split; [apply (bool_decide_unpack _); vm_compute; exact I | repeat constructor; vm_compute; discriminate]|].
  repeat split; vm_compute; reflexivity.
Qed.

(** ** siunitx *)
(** refuted as found (F4): [decade] is rendered [\deca\de], and [\de] is no unit *)
Theorem C09_siunitx_denotes_refuted :
  ∃ its, items_wf its ∧ Forall (λ nx : string * expo, is_unit_name default_reg nx.1 = true) its
         ∧ siunitx_format_unit as_found default_reg its = "\deca\de"
         ∧ si_denote as_found default_reg its = None.
Proof. exact siunitx_denotes_refuted. Qed.
(** guarded: whenever the split of every name is sound ([si_ok], a boolean the model computes)
    the macros denote the unit *)
Theorem C09_siunitx_denotes_guarded qk r its :
  (∀ nx, nx ∈ its → si_ok qk r nx.1 = true) → si_denote qk r its = Some (uc_of its).
Proof. exact (si_denote_guarded qk r its). Qed.
(** the guard holds for every unit name that no prefix name is a prefix of … *)
Theorem C09_siunitx_guard_no_prefix qk r name :
  is_unit_name r name = true → no_prefix_name r name = true → si_ok qk r name = true.
Proof. exact (si_ok_no_prefix qk r name). Qed.
(** … and, with the defect switched off, for every unit name *)
Theorem C09_siunitx_repaired r name : is_unit_name r name = true → si_ok repaired r name = true.
Proof. exact (si_ok_repaired r name). Qed.
Example C09_siunitx_guard_nonvacuous :
  si_ok as_found default_reg "meter" = true ∧ si_ok as_found default_reg "decade" = false
  ∧ si_ok repaired default_reg "decade" = true
  ∧ no_prefix_name default_reg "second" = true.
Proof. repeat split; vm_compute; reflexivity. Qed.

(** ** '~' round trip *)
(** refuted (F19): centiday ↦ "cd", which the registry reads as candela *)
Theorem C09_short_roundtrip_refuted :
  ∃ its, items_wf its
         ∧ Forall (λ nx : string * expo, ∃ d, resolve default_reg nx.1 = Ok d ∧ u_name d = nx.1) its
         ∧ full_format_unit as_found default_reg (FCfg "" None SortUnitName) "~" its = Ok "cd"
         ∧ back as_found default_reg FD true its = Ok {[ "candela" := 1%Qc ]}
         ∧ uc_of its ≠ {[ "candela" := 1%Qc ]}.
Proof. exact short_roundtrip_refuted. Qed.

(** ** formatting never fails *)
(** on a valid unit (names resolvable when symbols are requested) whose exponents the number
    formatter accepts; with F18 switched off that is every unit *)
Theorem C09_format_total qk r c spec its :
  let uspec := if String.eqb spec "" then c_default c else spec in
  get_formatter uspec ≠ FRaw →
  Forall (λ nx : string * expo, x_renderable qk nx.2 = true) its →
  (str_contains "~" uspec = true → Forall (λ nx : string * expo, ∃ d, resolve r nx.1 = Ok d) its) →
  ∃ s, full_format_unit qk r c spec its = Ok s.
Proof. exact (format_unit_total qk r c spec its). Qed.
Theorem C09_format_total_repaired x : x_renderable repaired x = true.
Proof. exact (x_renderable_repaired x). Qed.
(** refuted as found (F18): Fraction exponents other than ±1 *)
Theorem C09_format_total_refuted :
  ∃ its, items_wf its ∧
    full_format_unit as_found empty_reg (FCfg "" None SortUnitName) "" its = Err EValue.
Proof. exact format_total_refuted. Qed.

(** ** spec splitting *)
(** on specs where the sequential [str.replace] passes of [remove_custom_flags] agree with the
    single regex scan of [extract_custom_flags] ([flags_regular], e.g. every
    "<magnitude spec><flags>" or "<flags><magnitude spec>"), magnitude part and unit part partition
    the characters, the unit part consists of flags only *)
Theorem C09_split_format_partition spec sep :
  flags_regular spec = true →
  chars ((split_format spec "" sep).1 ++ (split_format spec "" sep).2) ≡ₚ chars spec
  ∧ flags_concat (known_flags ++ ["~"])%list (split_format spec "" sep).2
  ∧ (split_format spec "" sep).1 = remove_custom_flags spec.
Proof. exact (split_format_partition spec sep). Qed.
Theorem C09_split_format_partition_refuted :
  ∃ spec, flags_regular spec = false ∧ split_format spec "" (Some true) = ("", "Lraw")
          ∧ String.length spec = 5%nat.
Proof. exact split_format_partition_refuted. Qed.
Example C09_split_nonvacuous :
  flags_regular ".3f~P" = true ∧ split_format ".3f~P" "" None = (".3f", "~P")
  ∧ flags_regular "Lx+.2e~" = true ∧ split_format "Lx+.2e~" "" (Some true) = ("+.2e", "Lx~")
  ∧ split_format "" ".1f~L" (Some false) = (".1f", "~L").
Proof. repeat split; vm_compute; reflexivity. Qed.
