(** Properties/C09.v — placeholder while the correspondence is being validated *)
From PintV Require Import Model.UC Model.Eval Model.Registry Model.Format.
Open Scope string_scope.
Example C09_smoke : fmt_n (XInt 2) = Some "2".
Proof. reflexivity. Qed.
