(** Properties/C10.v — definition files mean what they say, independent of order and loading path.
    Statements only; proofs in Proofs/DefFileProofs.v.  The loading PATHS (file, lines, define(),
    cold / warm disk cache) and flexparser's block machinery are outside the model: they are
    tied by the correspondence K of harness/c10.py only. *)
From Coq Require Import ZArith Ascii String.
From PintV Require Import Model.UC Model.Eval Model.Registry Model.DefFile Proofs.DefFileProofs.
From PintV Require Import Gen.DefaultDefs Gen.DefaultReg.
Open Scope string_scope.

(** * parse_print_def: reading a printed definition gives the record back — every well-formed
    record, every layout (any indentation, any spacing around "=", trailing blanks, a trailing
    comment, the "_" placeholder written or not, prefix aliases with or without their "-") *)
Theorem C10_parse_print_def v d :
  wf_layout v = true → wf_defrec d = true → parse_line (print_def v d) = Ok (LnDef d).
Proof. exact (parse_print_def v d). Qed.
(** numeric fields: every non-negative rational whose reduced denominator divides a power of ten
    (equivalently is 2^a·5^b) is printed as a plain decimal that reads back exactly *)
Theorem C10_parse_print_dec q : terminating q → parse_number (print_dec q) = Some q.
Proof. exact (parse_print_dec q). Qed.
Theorem C10_terminating_2_5 (q : Qc) (a b : nat) :
  (0 <= Qnum (this q))%Z → Zpos (Qden (this q)) = (2 ^ Z.of_nat a * 5 ^ Z.of_nat b)%Z → terminating q.
Proof. exact (terminating_2_5 q a b). Qed.

(** * meaning_order_independent.
    [ds] is any list of unit / prefix / dimension definitions ([@alias] needs its unit first and is
    excluded), [ds'] any permutation of it, no spelling written twice.  Then [elab ds'] succeeds
    and builds the SAME three tables ([r_units], [r_prefixes], [r_dims] are equal as maps), so
    every function of those tables agrees.  What may differ is the ORDER of [r_prefix_keys]
    (and of [r_unit_names], [r_base_units], which only enumerate).  [resolve] walks
    [r_prefix_keys], so a string with several (prefix, unit) readings takes the first in file
    order — the only answers that can depend on order.  For every name in a list that is closed
    under references and whose members have one reading, [meaning] is the same. *)
Theorem C10_permuted_tables ds ds' acts r :
  forallb plain ds = true → ds ≡ₚ ds' → mapR pre ds = Ok acts → no_redefinition acts → elab ds = Ok r →
  ∃ r', elab ds' = Ok r' ∧ same_tables r r'.
Proof. exact (elab_perm_tables ds ds' acts r). Qed.
Theorem C10_meaning_order_independent ds ds' acts r l n :
  forallb plain ds = true → ds ≡ₚ ds' → mapR pre ds = Ok acts → no_redefinition acts →
  elab ds = Ok r → closed_b r l = true → n ∈ l →
  ∃ r', elab ds' = Ok r' ∧ meaning r n = meaning r' n.
Proof. exact (meaning_order_independent ds ds' acts r l n). Qed.
(** the same for dimensionalities, of units and of DIMENSION names: a derived dimension is looked up in
    [r_dims] every time it is met, so a line may use a derived dimension that is only defined further down
    ([[pressure] = [force] / [area]] before [[area] = [length] ** 2]) *)
Theorem C10_dimensionality_order_independent ds ds' acts r l (a : uc) :
  forallb plain ds = true → ds ≡ₚ ds' → mapR pre ds = Ok acts → no_redefinition acts →
  elab ds = Ok r → closed_b r l = true → (∀ k, is_Some (a !! k) → k ∈ l) →
  ∃ r', elab ds' = Ok r' ∧ dim_of r a = dim_of r' a.
Proof. exact (dimensionality_order_independent ds ds' acts r l a). Qed.
(** a list that is rejected is rejected in every order (possibly for another of its faults) *)
Theorem C10_rejected_in_every_order ds ds' e :
  forallb plain ds = true → ds ≡ₚ ds' → elab ds = Err e → ∃ e', elab ds' = Err e'.
Proof. exact (elab_perm_err ds ds' e). Qed.

(** * ill_formed_never_meaningful *)
(** a unit that references both dimensions and units is refused *)
Theorem C10_mixed_reference_err r name rest rhs mods p fl :
  ph_from_tokens rhs = Ok (p, fl) →
  (∃ k, k ∈ ref_keys p ∧ is_dim k = true) → (∃ k, k ∈ ref_keys p ∧ is_dim k = false) →
  ∃ e, elab1 r (RUnit (name :: rest) rhs mods) = Err e.
Proof. exact (elab1_mixed_err r name rest rhs mods p fl). Qed.
(** a prefix whose value is not a number is refused; a unit expression is not a number *)
Theorem C10_prefix_value_err r name rest value e :
  num_from_tokens value = Err e → elab1 r (RPrefix (name :: rest) value) = Err e.
Proof. exact (elab1_prefix_value_err r name rest value e). Qed.
Theorem C10_name_is_not_a_number s : num_from_tokens [TName s; TEnd] = Err EValue.
Proof. exact (num_from_name s). Qed.
(** modifiers other than {}, {offset}, {logbase, logfactor} select no converter: refused *)
Theorem C10_unknown_modifiers_err r name rest rhs mods ms :
  foldM (λ acc km, v ←r num_from_tokens km.2; Ok (app acc [(km.1, v)])) mods (@nil (string * Qc)) = Ok ms →
  ms ≠ [] → (∀ o, ms ≠ [("offset", o)]) →
  ¬ (length ms = 2%nat ∧ is_Some (assoc "logbase" ms) ∧ is_Some (assoc "logfactor" ms)) →
  ∃ e, elab1 r (RUnit (name :: rest) rhs mods) = Err e.
Proof. exact (elab1_unknown_modifiers_err r name rest rhs mods ms). Qed.
(** a reference to something undefined is accepted at load (forward references are legal) and is an
    error at first use *)
Theorem C10_undefined_reference_err r n d k v e :
  resolve r n = Ok d → u_base d = false → u_ref d !! k = Some v → resolve r k = Err e →
  ∃ e', meaning r n = Err e'.
Proof. exact (undefined_reference_err r n d k v e). Qed.
(** names on a reference cycle (any set of names each of which references another member) never
    get a meaning: the expansion stops on its fuel (pint: RecursionError) or fails before *)
Theorem C10_cyclic_never_meaningful r S n : cyclic r S → S n → ∀ x, meaning r n ≠ Ok x.
Proof. exact (cyclic_never_meaningful r S n). Qed.

(** invalid names.  pint tests [is_valid_unit_symbol(self.name)] — the NAME — where it means the
    symbol (UnitDefinition.__post_init__, PrefixDefinition.__post_init__), so a symbol with a
    space is filed as a spelling of the unit (finding F56) … *)
Theorem C10_names_valid_refuted :
  ∃ line r, elab_line pint_quirks empty_reg line = Ok r ∧ ∃ k, is_Some (r_units r !! k) ∧ no_space k = false.
Proof. exact names_valid_refuted. Qed.
(** … with the test on the symbol, every spelling written by an accepted line is space-free *)
Theorem C10_names_valid_guarded r d r' :
  elab_def repaired r d = Ok r' → Forall (λ k, no_space k = true) (def_names d).
Proof. exact (names_valid_guarded r d r'). Qed.

(** * literals_in_kind *)
Theorem C10_literals_in_kind k s :
  (k ≠ KFloat → literal_kind k s = kind_of k)
  ∧ (literal_kind KFloat s = LInt ↔ int_literal s = true)
  ∧ (int_literal s = true → ∀ q, parse_number s = Some q → is_int q = true).
Proof. exact (literals_in_kind k s). Qed.

(** * Non-vacuity *)
Example C10_print_nonvacuous :
  let v := Layout 2 1 3 2 (Some " hi = there") true true in
  let d := DefUnit "degC" "kelvin" [("offset", "273.15")] (Some "°C") ["celsius"; "degree_Celsius"] in
  wf_layout v = true ∧ wf_defrec d = true
  ∧ print_def v d = "  degC =   kelvin; offset: 273.15 =   °C =   celsius =   degree_Celsius  # hi = there"
  ∧ wf_defrec (DefPrefix "micro" "1e-6" (Some "µ") ["u"; "mu"]) = true
  ∧ terminating (mkq 3048 10000) ∧ print_dec (mkq 3048 10000) = "0.3048".
Proof.
  cbv zeta. repeat split; try (vm_compute; reflexivity).
  - vm_compute. discriminate.
  - exists 4%nat. vm_compute. exists 8%Z. reflexivity.
Qed.

(** the hypotheses of order independence hold for the definitions regenerated from
    default_en.txt / constants_en.txt (506 definitions, none is an @alias): no spelling is written
    twice, and the 33 names reachable from these six units have one reading each.  Reversing the
    file leaves their meaning unchanged. *)
(** [dflt_names] = newton, light_year, degree_Celsius, kilowatt_hour, psi, knot *)
Example C10_order_nonvacuous :
  ∃ r r', elab default_raw = Ok r ∧ elab (rev default_raw) = Ok r'
    ∧ meaning r "kilowatt_hour" = meaning r' "kilowatt_hour" ∧ res_is_ok (meaning r "kilowatt_hour") = true
    ∧ length (close_refs 8 r dflt_names) = 33%nat.
Proof. exact default_order_example. Qed.

(** a chain of derived dimensions written bottom-up (every line uses a dimension defined further down) and
    top-down: the same expansion to base dimensions, the one the lines spell out *)
Example C10_dimension_chain_nonvacuous :
  let lines := ["[viscosity] = [pressure] * [time]"; "[pressure] = [force] / [area]"; "[area] = [length] ** 2";
                "[force] = [mass] * [acceleration]"; "[acceleration] = [velocity] / [time]";
                "[velocity] = [length] / [time]"; "meter = [length]"; "second = [time]"; "gram = [mass]"] in
  let want := mkuc [("[length]", mkq (-1) 1); ("[mass]", mkq 1 1); ("[time]", mkq (-1) 1)] in
  match elab_lines pint_quirks lines, elab_lines pint_quirks (rev lines) with
  | Ok r, Ok r' =>
      match dim_of r {[ "[viscosity]" := 1%Qc ]}, dim_of r' {[ "[viscosity]" := 1%Qc ]} with
      | Ok d, Ok d' => uc_eqb d want && uc_eqb d' want && closed_b r (close_refs 8 r ["[viscosity]"]) = true
      | _, _ => False
      end
  | _, _ => False
  end.
Proof. vm_compute. reflexivity. Qed.

(** faults on the default registry: refused at load, or no meaning at first use *)
Example C10_faults_nonvacuous :
  (∃ e, elab_line pint_quirks default_reg "x = 2 * meter * [time]" = Err e)
  ∧ (∃ e, elab_line pint_quirks default_reg "x- = 2 * meter" = Err e)
  ∧ (∃ e, elab_line pint_quirks default_reg "x = 2 * meter; foo: 1" = Err e)
  ∧ (∃ e, elab_line pint_quirks default_reg "x = 2 * [length]" = Err e)
  ∧ match elab_lines pint_quirks ["cyc_a = 2 * cyc_b"; "cyc_b = 3 * cyc_a"; "dangling = 4 * nothing_defined"] with
    | Ok r => meaning r "cyc_a" = Err EFuel ∧ meaning r "dangling" = Err (EUndefined "nothing_defined")
              ∧ cyclic r (λ s, s = "cyc_a" ∨ s = "cyc_b")
    | Err _ => False
    end.
Proof.
  repeat split; try (eexists; vm_compute; reflexivity).
  intros s [-> | ->]; [eexists _, "cyc_b", 1%Qc | eexists _, "cyc_a", 1%Qc];
    (split; [vm_compute; reflexivity|]); (split; [reflexivity|]); (split; [vm_compute; reflexivity|]); auto.
Qed.
